(* C10 — executable model of the glyph-variation packing codecs and of the IUP delta optimiser.
   Hand-written from the Rust source, statement by statement; no proofs in this file.

   (a) write-fonts/src/tables/variations.rs  PackedDeltas::{iter_runs, compute_size}, PackedDeltaRun::{compute_flag,
       compute_size, write_into}, PackedPointNumbers::{write_into, iter_runs, compute_size}, PackedPointRun::*
       read-fonts/src/tables/variations.rs   DeltaRunIter, count_all_deltas, PackedDeltas::consume_all/iter,
       PackedPointNumbers::{count_and_count_bytes, total_len, iter}, PackedPointNumbersIter, PointRunIter
   (b) write-fonts/src/tables/gvar/iup.rs    iup_delta_optimize, iup_contour_optimize, iup_contour_optimize_dp,
       iup_must_encode; the float kernel (must_encode_at, iup_segment, can_iup_in_between) is a parameter of the
       structural model ([me], [ci_rot], [ci_dbl]) and is instantiated, for the correspondence runs, by an exact
       rational re-implementation (Q) that is valid on integer inputs whenever the f64 kernel's comparisons agree
       with exact arithmetic (the harness only sends such cases, see notes/C10.md).
   (c) write-fonts/src/tables/gvar.rs        GlyphDeltas::{pick_best_point_number_repr, build_sparse_data,
       build_non_sparse_data, build}, GlyphTupleVariationData::{compute_size, write_into},
       GlyphVariations::compute_shared_points

   Integers are unbounded Z; every wrap/truncation is explicit; [option]/[wres] results make panics explicit
   (the overflow-checks + debug-assertions profile). *)
From Coq Require Import ZArith List Bool QArith Qabs.
From FV Require Import Lib.RustInt.
Import ListNotations.
Open Scope Z_scope.

(* ================================================================================================ *)
(* (a1) PackedDeltas — writer                                                                        *)
(* ================================================================================================ *)

(* read_fonts::tables::variations::DeltaRunType *)
Inductive rtype := RZero | RI8 | RI16 | RI32.

Definition rtype_size (t : rtype) : nat :=
  match t with RZero => 0 | RI8 => 1 | RI16 => 2 | RI32 => 4 end%nat.

(* fn preferred_run_type(v: i32) -> DeltaRunType *)
Definition preferred_run_type (v : Z) : rtype :=
  if v =? 0 then RZero
  else if (32767 <? v) || (v <? -32768) then RI32
  else if (127 <? v) || (v <? -128) then RI16
  else RI8.

(* const MAX_POINTS_PER_RUN: usize = 64; *)
Definition MAX_DELTA_RUN : nat := 64.

(* fn count_leading_zeros(slice) : .iter().take(64).take_while(|v| **v == 0).count() *)
Fixpoint count_leading_zeros (cap : nat) (l : list Z) : nat :=
  match cap, l with
  | S c, v :: r => if v =? 0 then S (count_leading_zeros c r) else O
  | _, _ => O
  end.

(* the "Any reason to stop?" block of next_run_len: run_type, cur_type, next_type -> break? *)
Definition stop_run (rt ct : rtype) (nt : option rtype) : bool :=
  match rt with
  | RI8 =>
      match ct with
      | RZero => match nt with Some RZero => true | _ => false end
      | RI16 | RI32 => true
      | RI8 => false
      end
  | RI16 =>
      match ct with
      | RZero | RI32 => true
      | RI8 => match nt with Some RZero | Some RI8 => true | _ => false end
      | RI16 => false
      end
  | RI32 => match ct with RI32 => false | _ => true end
  | RZero => false     (* unreachable: debug_assert!(first != 0) *)
  end.

(* the while loop of next_run_len; [l] = slice[idx..], [fuel] = 64 - idx; result = final idx - start idx *)
Fixpoint run_scan (rt : rtype) (fuel : nat) (l : list Z) : nat :=
  match fuel, l with
  | S f, cur :: tl =>
      let ct := preferred_run_type cur in
      let nt := match tl with [] => None | x :: _ => Some (preferred_run_type x) end in
      if stop_run rt ct nt then O else S (run_scan rt f tl)
  | _, _ => O
  end.

(* fn next_run_len(slice) -> (usize, DeltaRunType); only called with a non-empty slice whose head is non-zero *)
Definition next_run_len (l : list Z) : nat * rtype :=
  match l with
  | first :: rest => (S (run_scan (preferred_run_type first) (MAX_DELTA_RUN - 1) rest), preferred_run_type first)
  | [] => (O, RZero)
  end.

(* enum PackedDeltaRun *)
Inductive run := Zeros (n : nat) | OneByte (l : list Z) | TwoBytes (l : list Z) | FourBytes (l : list Z).

Definition mk_run (t : rtype) (l : list Z) : run :=
  match t with RI32 => FourBytes l | RI16 => TwoBytes l | RI8 => OneByte l | RZero => Zeros (length l) end.

(* PackedDeltas::iter_runs (std::iter::from_fn closure, unrolled); every step consumes >= 1 element so
   fuel = length suffices *)
Fixpoint iter_runs (fuel : nat) (ds : list Z) : list run :=
  match fuel with
  | O => []
  | S f =>
      match ds with
      | [] => []
      | v :: _ =>
          if v =? 0 then
            let n := count_leading_zeros MAX_DELTA_RUN ds in
            Zeros n :: iter_runs f (skipn n ds)
          else
            let '(len, t) := next_run_len ds in
            mk_run t (firstn len ds) :: iter_runs f (skipn len ds)
      end
  end.

Definition delta_runs (ds : list Z) : list run := iter_runs (length ds) ds.

Definition run_len (r : run) : nat :=
  match r with Zeros n => n | OneByte l | TwoBytes l | FourBytes l => length l end.

Definition run_type (r : run) : rtype :=
  match r with Zeros _ => RZero | OneByte _ => RI8 | TwoBytes _ => RI16 | FourBytes _ => RI32 end.

Definition run_vals (r : run) : list Z :=
  match r with Zeros n => repeat 0 n | OneByte l | TwoBytes l | FourBytes l => l end.

(* PackedDeltaRun::compute_flag  (DELTAS_ARE_ZERO = 0x80, DELTAS_ARE_WORDS = 0x40) *)
Definition run_flag (r : run) : Z :=
  match r with
  | Zeros c => Z.lor (Z.of_nat c - 1) 128
  | OneByte l => Z.of_nat (length l) - 1
  | TwoBytes l => Z.lor (Z.of_nat (length l) - 1) 64
  | FourBytes l => Z.lor (Z.lor (Z.of_nat (length l) - 1) 64) 128
  end.

(* `*v as i8`, `*v as i16`, i32 written big-endian *)
Definition enc_val (t : rtype) (v : Z) : list Z :=
  match t with
  | RZero => []
  | RI8 => [wrap_u 8 v]
  | RI16 => to_be 2 (wrap_u 16 v)
  | RI32 => to_be 4 (wrap_u 32 v)
  end.

(* impl FontWrite for PackedDeltaRun *)
Definition enc_run (r : run) : list Z :=
  run_flag r :: match r with
                | Zeros _ => []
                | OneByte l => flat_map (enc_val RI8) l
                | TwoBytes l => flat_map (enc_val RI16) l
                | FourBytes l => flat_map (enc_val RI32) l
                end.

(* impl FontWrite for PackedDeltas *)
Definition encode_deltas (ds : list Z) : list Z := flat_map enc_run (delta_runs ds).

(* PackedDeltaRun::compute_size (u16; lengths are <= 64 so no overflow) *)
Definition run_size (r : run) : Z :=
  match r with
  | Zeros _ => 1
  | OneByte l => Z.of_nat (length l) + 1
  | TwoBytes l => Z.of_nat (length l) * 2 + 1
  | FourBytes l => Z.of_nat (length l) * 4 + 1
  end.

(* PackedDeltas::compute_size : fold with checked_add(..).unwrap() on u16; None = panic *)
Definition sum_sizes_u16 (start : Z) (sizes : list Z) : option Z :=
  fold_left (fun acc s => do a <- acc ;; chk_u 16 (a + s)) sizes (Some start).

Definition deltas_compute_size (ds : list Z) : option Z :=
  sum_sizes_u16 0 (map run_size (delta_runs ds)).

(* ================================================================================================ *)
(* (a2) PackedDeltas — reader                                                                        *)
(* ================================================================================================ *)

(* DeltaRunType::new(control) *)
Definition rtype_of_control (c : Z) : rtype :=
  let are_zero := negb (Z.land c 128 =? 0) in
  let are_words := negb (Z.land c 64 =? 0) in
  match are_zero, are_words with
  | false, false => RI8
  | false, true => RI16
  | true, false => RZero
  | true, true => RI32
  end.

(* (control & DELTA_RUN_COUNT_MASK) + 1 *)
Definition count_of_control (c : Z) : nat := Z.to_nat (Z.land c 63 + 1).

(* cursor.read::<i8/i16/i32>() ; None = read error (out of data) *)
Definition read_val (t : rtype) (bs : list Z) : option (Z * list Z) :=
  match t, bs with
  | RZero, _ => Some (0, bs)
  | RI8, b :: r => Some (wrap_s 8 b, r)
  | RI16, b0 :: b1 :: r => Some (wrap_s 16 (from_be [b0; b1]), r)
  | RI32, b0 :: b1 :: b2 :: b3 :: r => Some (wrap_s 32 (from_be [b0; b1; b2; b3]), r)
  | _, _ => None
  end.

(* impl Iterator for DeltaRunIter (limit is always Some(count) through the public constructors),
   collected until the first None.  State = (limit, remaining_in_run, value_type, cursor). *)
Fixpoint delta_iter (limit : nat) (rem : nat) (vt : rtype) (bs : list Z) : list Z :=
  match limit with
  | O => []
  | S lim =>
      let st := if Nat.eqb rem 0
                then match bs with                       (* read_next_control *)
                     | c :: r => Some (count_of_control c, rtype_of_control c, r)
                     | [] => None
                     end
                else Some (rem, vt, bs) in
      match st with
      | None => []
      | Some (rem', vt', bs') =>
          match read_val vt' bs' with
          | None => []
          | Some (v, bs'') => v :: delta_iter lim (rem' - 1) vt' bs''
          end
      end
  end.

(* fn count_all_deltas(data) ; the offset strictly grows, fuel = length *)
Fixpoint count_all_deltas (fuel : nat) (bs : list Z) : nat :=
  match fuel with
  | O => O
  | S f =>
      match bs with
      | [] => O
      | c :: r =>
          let rc := count_of_control c in
          (rc + count_all_deltas f (skipn (rc * rtype_size (rtype_of_control c)) r))%nat
      end
  end.

(* PackedDeltas::new(data, count).iter().collect() *)
Definition decode_deltas_n (count : nat) (bs : list Z) : list Z := delta_iter count 0 RI8 bs.
(* PackedDeltas::consume_all(data).iter().collect() *)
Definition decode_deltas_all (bs : list Z) : list Z := decode_deltas_n (count_all_deltas (length bs) bs) bs.

(* ================================================================================================ *)
(* (a3) PackedPointNumbers — writer                                                                  *)
(* ================================================================================================ *)

Inductive ppn := PAll | PSome (pts : list Z).

Definition ppn_slice (p : ppn) : list Z := match p with PAll => [] | PSome l => l end.

(* struct PackedPointRun *)
Record prun := { pr_last : Z; pr_words : bool; pr_pts : list Z }.

Definition MAX_POINT_RUN : nat := 128.

(* the .take(128).scan(prev, ..).count() of PackedPointNumbers::iter_runs; `point - *prev` is a checked
   u16 subtraction: None = panic (also when evaluated on the first element that is not taken) *)
Fixpoint pt_scan (words : bool) (cap : nat) (prev : Z) (l : list Z) : option nat :=
  match cap, l with
  | S c, p :: tl =>
      if p <? prev then None
      else
        let take := if words then 255 <? p - prev else p - prev <=? 255 in
        if take then option_map S (pt_scan words c p tl) else Some O
  | _, _ => Some O
  end.

(* PackedPointNumbers::iter_runs (from_fn closure unrolled; each run takes >= 1 point) *)
Fixpoint pt_runs (fuel : nat) (prev : Z) (pts : list Z) : option (list prun) :=
  match fuel with
  | O => Some []
  | S f =>
      match pts with
      | [] => Some []
      | next :: _ =>
          if next <? prev then None          (* (next - prev_point) underflows *)
          else
            let words := 255 <? next - prev in
            do len <- pt_scan words MAX_POINT_RUN prev pts ;;
            let head := firstn len pts in
            let prev' := last head 0 in      (* head.last().copied().unwrap(); len >= 1 *)
            do rs <- pt_runs f prev' (skipn len pts) ;;
            Some ({| pr_last := prev; pr_words := words; pr_pts := head |} :: rs)
      end
  end.

Definition point_runs (p : ppn) : option (list prun) :=
  let pts := ppn_slice p in pt_runs (length pts) 0 pts.

(* the per-point loop of impl FontWrite for PackedPointRun; None = panic
   (checked subtraction, debug_assert!(delta <= u8::MAX)) *)
Fixpoint enc_point_deltas (words : bool) (last : Z) (pts : list Z) : option (list Z) :=
  match pts with
  | [] => Some []
  | p :: tl =>
      if p <? last then None
      else
        let d := p - last in
        if negb words && (255 <? d) then None
        else
          do r <- enc_point_deltas words p tl ;;
          Some ((if words then to_be 2 d else [d]) ++ r)
  end.

(* impl FontWrite for PackedPointRun *)
Definition enc_prun (r : prun) : option (list Z) :=
  let n := length (pr_pts r) in
  if Nat.eqb n 0 || Nat.ltb 128 n then None       (* assert!(!empty && len <= 128) *)
  else
    let len := Z.of_nat n - 1 in
    let len := if pr_words r then Z.lor len 128 else len in
    do body <- enc_point_deltas (pr_words r) (pr_last r) (pr_pts r) ;;
    Some (len :: body).

Fixpoint enc_pruns (rs : list prun) : option (list Z) :=
  match rs with
  | [] => Some []
  | r :: tl => do a <- enc_prun r ;; do b <- enc_pruns tl ;; Some (a ++ b)
  end.

(* the count prefix of impl FontWrite for PackedPointNumbers *)
Definition enc_point_count (len : nat) : list Z :=
  if Nat.leb len 127 then [Z.of_nat len]
  else to_be 2 (Z.lor (wrap_u 16 (Z.of_nat len)) 32768).

(* outcome of write_fonts::dump_table(&PackedPointNumbers) *)
Inductive wres := WPanic | WInvalid | WBytes (bs : list Z).

Definition encode_points (p : ppn) : wres :=
  let pts := ppn_slice p in
  if 32767 <? Z.of_nat (length pts) then WInvalid            (* Validate: "length cannot be stored in 15 bites" *)
  else
    match point_runs p with
    | None => WPanic
    | Some rs =>
        match enc_pruns rs with
        | None => WPanic
        | Some body => WBytes (enc_point_count (length pts) ++ body)
        end
    end.

(* PackedPointRun::compute_size *)
Definition prun_size (r : prun) : Z :=
  Z.of_nat (length (pr_pts r)) * (if pr_words r then 2 else 1) + 1.

(* PackedPointNumbers::compute_size ; None = panic *)
Definition points_compute_size (p : ppn) : option Z :=
  match p with
  | PAll => Some 1
  | PSome pts =>
      do rs <- point_runs p ;;
      sum_sizes_u16 (if Nat.ltb (length pts) 128 then 1 else 2) (map prun_size rs)
  end.

(* ================================================================================================ *)
(* (a4) PackedPointNumbers — reader                                                                  *)
(* ================================================================================================ *)

(* PackedPointNumbers::count_and_count_bytes *)
Definition pts_count_and_bytes (bs : list Z) : nat * nat :=
  match bs with
  | [] => (0, 1)%nat
  | b0 :: rest =>
      if b0 =? 0 then (0, 1)%nat
      else if b0 <? 128 then (Z.to_nat b0, 1%nat)
      else match rest with
           | b1 :: _ => (Z.to_nat (Z.land (b0 * 256 + b1) 32767), 2%nat)
           | [] => (0, 2)%nat
           end
  end.

(* fn read_control_byte *)
Definition read_point_control (bs : list Z) : option (nat * bool * list Z) :=
  match bs with
  | c :: r => Some (Z.to_nat (Z.land c 127 + 1), negb (Z.land c 128 =? 0), r)
  | [] => None
  end.

Definition read_point_val (two : bool) (bs : list Z) : option (Z * list Z) :=
  if two then match bs with b0 :: b1 :: r => Some (b0 * 256 + b1, r) | _ => None end
  else match bs with b :: r => Some (b, r) | _ => None end.

(* impl Iterator for PackedPointNumbersIter, count > 0 branch, collected; [todo] = count - seen *)
Fixpoint pts_iter (todo : nat) (lastv : Z) (rem : nat) (two : bool) (bs : list Z) : list Z :=
  match todo with
  | O => []
  | S t =>
      let st := if Nat.eqb rem 0 then read_point_control bs else Some (rem, two, bs) in
      match st with
      | None => []
      | Some (rem', two', bs') =>
          match read_point_val two' bs' with
          | None => []
          | Some (v, bs'') =>
              let nv := lastv + v in
              if 65535 <? nv then []                       (* checked_add fails *)
              else nv :: pts_iter t nv (rem' - 1) two' bs''
          end
      end
  end.

(* result of reading: count = 0 means "all points" (the iterator then counts 0,1,2,...) *)
Inductive rpts := RAll | RSome (l : list Z).

Definition decode_points (bs : list Z) : rpts :=
  let '(count, nb) := pts_count_and_bytes bs in
  if Nat.eqb count 0 then RAll else RSome (pts_iter count 0 0 false (skipn nb bs)).

(* PackedPointNumbers::total_len (used by split_off_front) *)
Fixpoint pts_total_len_loop (fuel : nat) (n_points n_seen : nat) (n_bytes : nat) (bs : list Z) : nat :=
  match fuel with
  | O => n_bytes
  | S f =>
      if Nat.ltb n_seen n_points then
        match read_point_control bs with
        | None => n_bytes
        | Some (count, two, r) =>
            let run_size := ((if two then 2 else 1) * count)%nat in
            pts_total_len_loop f n_points (n_seen + count) (n_bytes + run_size + 1) (skipn run_size r)
        end
      else n_bytes
  end.

Definition pts_total_len (bs : list Z) : nat :=
  let '(n_points, nb) := pts_count_and_bytes bs in
  if Nat.eqb n_points 0 then nb
  else pts_total_len_loop (S (length bs)) n_points 0 nb (skipn nb bs).

(* PackedPointNumbers::split_off_front: number of bytes taken off the front
   (`data.split_off(total_len).unwrap_or_default()`: when total_len exceeds the data, the remainder is empty) *)
Definition pts_split_consumed (bs : list Z) : nat :=
  let t := pts_total_len bs in if Nat.leb t (length bs) then t else length bs.

(* ================================================================================================ *)
(* (b) IUP optimiser — structural part, parametric in the kernel                                     *)
(* ================================================================================================ *)

Definition mem_nat (x : nat) (l : list nat) : bool := existsb (Nat.eqb x) l.

(* [hi; hi-1; ...; lo] as Z *)
Definition zdesc (hi lo : Z) : list Z :=
  map (fun k => hi - Z.of_nat k) (seq 0 (Z.to_nat (hi - lo + 1))).

Section IupStructure.
  (* kernel answers; see the header comment *)
  Context (me : nat -> bool)                 (* must_encode_at(deltas, coords, tolerance, at) on the contour as given *)
          (ci_rot : nat -> Z -> nat -> bool) (* can_iup_in_between on the contour rotated right by [mid]: mid from to *)
          (ci_dbl : Z -> nat -> bool).       (* can_iup_in_between on the contour repeated twice: from to *)

  Section Dp.
    Context (must : nat -> bool) (ci : Z -> nat -> bool) (lookback : Z).

    (* inner `for j in (j_min + 1..j_max + 1).rev()` of iup_contour_optimize_dp; state = (best_cost = costs[i], chain[i]).
       can_iup_in_between's Err arm needs from < -1 or to - from < 2, excluded by the loop bounds. *)
    Fixpoint dp_inner (costs : list Z) (i : nat) (js : list Z) (best : Z) (ch : option nat) : Z * option nat :=
      match js with
      | [] => (best, ch)
      | j :: rest =>
          let cost := if 0 <=? j then nth (Z.to_nat j) costs 0 + 1 else 1 in
          let mj := if 0 <=? j then must (Z.to_nat j) else false in
          let '(best', ch') :=
            if (cost <? best) && ci j i
            then (cost, if 0 <=? j then Some (Z.to_nat j) else None)
            else (best, ch) in
          if mj then (best', ch') else dp_inner costs i rest best' ch'
      end.

    Definition dp_js (i : nat) : list Z :=
      let j_min := Z.max (Z.of_nat i - lookback) (-2) in
      zdesc (Z.of_nat i - 2) (j_min + 1).

    (* outer `for i in 0..n`; costs and chain are built left to right (chain[i] starts as Some(i-1) / None) *)
    Fixpoint dp_outer (is : list nat) (costs : list Z) (chain : list (option nat)) : list Z * list (option nat) :=
      match is with
      | [] => (costs, chain)
      | i :: rest =>
          let best0 := (if Nat.eqb i 0 then 0 else nth (i - 1) costs 0) + 1 in
          let ch0 := if Nat.eqb i 0 then None else Some (i - 1)%nat in
          if negb (Nat.eqb i 0) && must (i - 1)%nat
          then dp_outer rest (costs ++ [best0]) (chain ++ [ch0])
          else
            let '(b, c) := dp_inner costs i (dp_js i) best0 ch0 in
            dp_outer rest (costs ++ [b]) (chain ++ [c])
      end.

    (* fn iup_contour_optimize_dp *)
    Definition iup_dp (n : nat) : list Z * list (option nat) :=
      if Nat.ltb n 2
      then ([], map (fun i => if Nat.eqb i 0 then None else Some (i - 1)%nat) (seq 0 n))
      else dp_outer (seq 0 n) [] [].
  End Dp.

  (* `loop { encode.insert(i); i = match chain[i] { Some(v) => v, None => break } }` ; chain[i] < i so fuel n suffices *)
  Fixpoint walk_chain (fuel : nat) (chain : list (option nat)) (i : nat) : list nat :=
    i :: match fuel with
         | O => []
         | S f => match nth i chain None with Some v => walk_chain f chain v | None => [] end
         end.

  Definition lookback_of (n : nat) : Z := Z.of_nat (Nat.min n 8).   (* iup_initial_lookback *)

  Definition list_max (l : list nat) : nat := fold_right Nat.max O l.

  (* forced-point branch of iup_contour_optimize: returns the `encode` set as original indices; None = Err *)
  Definition encode_forced (n : nat) (forced : list nat) : option (list nat) :=
    let mid := (n - 1 - list_max forced)%nat in
    let must_rot := map (fun idx => ((idx + mid) mod n)%nat) forced in
    let '(_, chain) := iup_dp (fun k => mem_nat k must_rot) (ci_rot mid) (lookback_of n) n in
    let encode := walk_chain n chain (n - 1) in
    if forallb (fun k => mem_nat k encode) must_rot
    then Some (map (fun idx => ((idx + n - mid) mod n)%nat) encode)
    else None.

  (* Option<usize> ordering: None < Some(_) *)
  Definition ogt (a b : option nat) : bool :=
    match a, b with
    | Some x, Some y => Nat.ltb y x
    | Some _, None => true
    | None, _ => false
    end.
  Definition oeq (a b : option nat) : bool :=
    match a, b with
    | Some x, Some y => Nat.eqb x y
    | None, None => true
    | _, _ => false
    end.

  (* `while i > start.checked_sub(n) { solution.insert(idx % n); i = chain[idx] }` *)
  Fixpoint walk_dbl (fuel : nat) (n : nat) (chain : list (option nat)) (target i : option nat) (sol : list nat)
    : list nat * option nat :=
    match fuel with
    | O => (sol, i)
    | S f =>
        if ogt i target then
          match i with
          | Some idx => walk_dbl f n chain target (nth idx chain None) ((idx mod n)%nat :: sol)
          | None => (sol, i)
          end
        else (sol, i)
    end.

  (* no-forced-point branch *)
  Definition encode_unforced (n : nat) : option (list nat) :=
    let '(costs, chain) := iup_dp (fun _ => false) ci_dbl (lookback_of n) (2 * n) in
    let starts := seq (n - 1) (length costs - 1 - (n - 1)) in
    let '(best_sol, _) :=
      fold_left
        (fun (acc : option (list nat) * Z) start =>
           let '(bs, bc) := acc in
           let target := if Nat.ltb start n then None else Some (start - n)%nat in
           let '(sol, i) := walk_dbl (S (2 * n)) n chain target (Some start) [] in
           if oeq i target then
             let cost := nth start costs 0 - (if Nat.ltb n start then nth (start - n) costs 0 else 0) in
             if cost <=? bc then (Some sol, cost) else (bs, bc)
           else (bs, bc))
        starts (None, Z.of_nat n + 1) in
    best_sol.

  (* general branch of iup_contour_optimize: the required/optional mask, None = Err(AchievedInvalidState) *)
  Definition contour_mask (n : nat) : option (list bool) :=
    let forced := filter me (seq 0 n) in
    let enc := match forced with
               | [] => encode_unforced n     (* the superset check against the empty set always passes *)
               | _ => encode_forced n forced
               end in
    option_map (fun e => map (fun i => mem_nat i e) (seq 0 n)) enc.
End IupStructure.

(* ================================================================================================ *)
(* (b') exact rational kernel (valid for integer inputs on which the f64 comparisons are exact)      *)
(* ================================================================================================ *)

Definition qlt (a b : Q) : bool := negb (Qle_bool b a).
Definition qmin (a b : Q) : Q := if Qle_bool a b then a else b.
Definition qmax (a b : Q) : Q := if Qle_bool a b then b else a.

Definition qpt := (Q * Q)%type.
Definition qpt0 : qpt := (0%Q, 0%Q).
Definition qpt_of (p : Z * Z) : qpt := (inject_Z (fst p), inject_Z (snd p)).

(* WrappingGet: wrapping_prev / wrapping_next *)
Definition wrap_prev {A} (d : A) (l : list A) (at_ : nat) : A :=
  nth (if Nat.eqb at_ 0 then length l - 1 else at_ - 1)%nat l d.
Definition wrap_next {A} (d : A) (l : list A) (at_ : nat) : A :=
  nth (if Nat.eqb (S at_) (length l) then O else S at_) l d.

(* one axis of the loop body of must_encode_at: true = `return true` *)
Definition must_axis (tol ldj lcj dj cj ndj ncj : Q) : bool :=
  let '(c1, c2, d1, d2) := if Qle_bool lcj ncj then (lcj, ncj, ldj, ndj) else (ncj, lcj, ndj, ldj) in
  if Qeq_bool c1 c2 then
    qlt tol (Qabs (d1 - d2)) && qlt tol (Qabs dj)
  else if Qle_bool c1 cj && Qle_bool cj c2 then
    negb (Qle_bool (qmin d1 d2 - tol) dj && Qle_bool dj (qmax d1 d2 + tol))
  else if negb (Qeq_bool d1 d2) && qlt tol (Qabs dj) then
    if qlt cj c1 then
      qlt tol (Qabs (dj - d1)) && negb (Bool.eqb (qlt (dj - tol) d1) (qlt d1 d2))
    else
      qlt tol (Qabs (dj - d2)) && negb (Bool.eqb (qlt d2 (dj + tol)) (qlt d1 d2))
  else false.

(* fn must_encode_at *)
Definition must_encode_at (deltas coords : list qpt) (tol : Q) (at_ : nat) : bool :=
  let ld := wrap_prev qpt0 deltas at_ in
  let d := nth at_ deltas qpt0 in
  let nd := wrap_next qpt0 deltas at_ in
  let lc := wrap_prev qpt0 coords at_ in
  let c := nth at_ coords qpt0 in
  let nc := wrap_next qpt0 coords at_ in
  must_axis tol (fst ld) (fst lc) (fst d) (fst c) (fst nd) (fst nc)
  || must_axis tol (snd ld) (snd lc) (snd d) (snd c) (snd nd) (snd nc).

(* one axis of iup_segment for one coordinate c *)
Definition seg_axis (c1 c2 d1 d2 c : Q) : Q :=
  if Qeq_bool c1 c2 then (if Qeq_bool d1 d2 then d1 else 0%Q)
  else
    let '(c1, c2, d1, d2) := if qlt c2 c1 then (c2, c1, d2, d1) else (c1, c2, d1, d2) in
    let scale := ((d2 - d1) / (c2 - c1))%Q in
    if Qle_bool c c1 then d1
    else if Qle_bool c2 c then d2
    else (d1 + (c - c1) * scale)%Q.

(* fn can_iup_in_between(deltas, coords, tolerance, from, to) for from >= -1, to - from >= 2, to < len *)
Definition can_iup_in_between (deltas coords : list qpt) (tol : Q) (from : Z) (to : nat) : bool :=
  let '(rc1, rd1) := if from <? 0 then (last coords qpt0, last deltas qpt0)
                     else (nth (Z.to_nat from) coords qpt0, nth (Z.to_nat from) deltas qpt0) in
  let rc2 := nth to coords qpt0 in
  let rd2 := nth to deltas qpt0 in
  let lo := Z.to_nat (from + 1) in
  let cs := firstn (to - lo) (skipn lo coords) in
  let ds := firstn (to - lo) (skipn lo deltas) in
  let tol_sq := (tol * tol)%Q in
  forallb (fun cd : qpt * qpt =>
             let '(c, d) := cd in
             let ix := seg_axis (fst rc1) (fst rc2) (fst rd1) (fst rd2) (fst c) in
             let iy := seg_axis (snd rc1) (snd rc2) (snd rd1) (snd rd2) (snd c) in
             let ex := (fst d - ix)%Q in
             let ey := (snd d - iy)%Q in
             Qle_bool (ex * ex + ey * ey) tol_sq)
          (combine cs ds).

(* slice::rotate_right(mid) *)
Definition rotate_right {A} (mid : nat) (l : list A) : list A :=
  let k := (length l - mid)%nat in skipn k l ++ firstn k l.

(* GlyphDelta as (x, y, required) *)
Definition gdelta := (Z * Z * bool)%type.

Definition zpair_eqb (a b : Z * Z) : bool := (fst a =? fst b) && (snd a =? snd b).

(* f64 -> i16 `ot_round` of an integer-valued delta: floor(x + 0.5) = x, then the saturating `as i16` *)
Definition ot_round_i16 (x : Z) : Z := sat_s 16 x.

(* fn iup_contour_optimize on integer deltas/coords, tolerance tol; None = Err *)
Definition iup_contour_optimize (deltas coords : list (Z * Z)) (tol : Q) : option (list gdelta) :=
  if negb (Nat.eqb (length deltas) (length coords)) then None
  else
    let n := length deltas in
    match deltas with
    | [] => Some []
    | first :: _ =>
        if forallb (zpair_eqb first) deltas then
          if zpair_eqb first (0, 0) then Some (repeat (0, 0, false) n)
          else
            let x := ot_round_i16 (fst first) in
            let y := ot_round_i16 (snd first) in
            Some (firstn n ((x, y, true) :: repeat (x, y, false) n))
        else
          let qd := map qpt_of deltas in
          let qc := map qpt_of coords in
          let me := must_encode_at qd qc tol in
          let ci_rot := fun mid => can_iup_in_between (rotate_right mid qd) (rotate_right mid qc) tol in
          let ci_dbl := can_iup_in_between (qd ++ qd) (qc ++ qc) tol in
          option_map
            (fun mask => map (fun dm : (Z * Z) * bool =>
                                let '(d, m) := dm in (ot_round_i16 (fst d), ot_round_i16 (snd d), m))
                             (combine deltas mask))
            (contour_mask me ci_rot ci_dbl n)
    end.

Fixpoint insert_sorted (x : nat) (l : list nat) : list nat :=
  match l with
  | [] => [x]
  | y :: r => if Nat.leb x y then x :: l else y :: insert_sorted x r
  end.
Definition sort_nat (l : list nat) : list nat := fold_right insert_sorted [] l.

(* the per-contour loop of iup_delta_optimize; `&mut deltas[start..=end]` cannot panic here: ends are sorted,
   so end + 1 >= start, and end <= num_coords - 1 *)
Fixpoint iup_contours (ends : list nat) (start : nat) (deltas coords : list (Z * Z)) (tol : Q) : option (list gdelta) :=
  match ends with
  | [] => Some []
  | e :: rest =>
      let len := (e + 1 - start)%nat in
      do c <- iup_contour_optimize (firstn len (skipn start deltas)) (firstn len (skipn start coords)) tol ;;
      do r <- iup_contours rest (e + 1) deltas coords tol ;;
      Some (c ++ r)
  end.

(* pub fn iup_delta_optimize ; None = Err(_) *)
Definition iup_delta_optimize (deltas coords : list (Z * Z)) (tol : Q) (contour_ends : list nat) : option (list gdelta) :=
  let num_coords := length coords in
  if Nat.ltb num_coords 4 then None
  else if negb (Nat.eqb (length deltas) num_coords) then None
  else
    let ends := sort_nat contour_ends in
    let expected := ((match ends with [] => 0 | _ => last ends 0 + 1 end) + 4)%nat in
    if negb (Nat.eqb num_coords expected) then None
    else
      let ends := ends ++ [num_coords - 4; num_coords - 3; num_coords - 2; num_coords - 1]%nat in
      iup_contours ends 0 deltas coords tol.

(* ================================================================================================ *)
(* (c) gvar tuple serialisation                                                                      *)
(* ================================================================================================ *)

Definition gd_x (d : gdelta) : Z := fst (fst d).
Definition gd_y (d : gdelta) : Z := snd (fst d).
Definition gd_req (d : gdelta) : bool := snd d.

(* indices of the required deltas (`i as u16`) *)
Definition required_points (ds : list gdelta) : list Z :=
  map (fun p => wrap_u 16 (Z.of_nat (fst p))) (filter (fun p => gd_req (snd p)) (combine (seq 0 (length ds)) ds)).

Definition oadd_u16 (a b : option Z) : option Z := do x <- a ;; do y <- b ;; chk_u 16 (x + y).

(* GlyphTupleVariationData::compute_size *)
Definition tuple_data_size (pts : option ppn) (xs ys : list Z) : option Z :=
  oadd_u16 (oadd_u16 (match pts with Some p => points_compute_size p | None => Some 0 end)
                     (deltas_compute_size xs)) (deltas_compute_size ys).

(* GlyphDeltas::pick_best_point_number_repr ; None = panic *)
Definition pick_best_point_number_repr (ds : list gdelta) : option ppn :=
  if forallb gd_req ds then Some PAll
  else if negb (existsb gd_req ds) then Some PAll     (* no required delta: dense (fix of finding F-C10-1) *)
  else
    let req := filter gd_req ds in
    do dense <- tuple_data_size (Some PAll) (map gd_x ds) (map gd_y ds) ;;
    do sparse <- tuple_data_size (Some (PSome (required_points ds))) (map gd_x req) (map gd_y req) ;;
    Some (if sparse <? dense then PSome (required_points ds) else PAll).

Definition ppn_eqb (a b : ppn) : bool :=
  match a, b with
  | PAll, PAll => true
  | PSome x, PSome y => Nat.eqb (length x) (length y) && forallb (fun p => fst p =? snd p) (combine x y)
  | _, _ => false
  end.

(* GlyphVariations::compute_shared_points over the tuples' best_point_packing, in order:
   IndexMap counting (first-appearance order), filter count > 1, max_by_first_key (count-1)*size *)
Fixpoint count_packings (l : list ppn) (acc : list (ppn * nat)) : list (ppn * nat) :=
  match l with
  | [] => acc
  | p :: r =>
      let acc' := if existsb (fun e => ppn_eqb (fst e) p) acc
                  then map (fun e => if ppn_eqb (fst e) p then (fst e, S (snd e)) else e) acc
                  else acc ++ [(p, 1%nat)] in
      count_packings r acc'
  end.

Definition compute_shared_points (packs : list ppn) : option (option ppn) :=   (* outer None = panic *)
  let counted := filter (fun e => Nat.ltb 1 (snd e)) (count_packings packs []) in
  let r :=
    fold_left
      (fun (acc : option (option (ppn * Z))) e =>
         do a <- acc ;;
         do size <- points_compute_size (fst e) ;;
         let key := (Z.of_nat (snd e) - 1) * size in
         match a with
         | Some (_, mk) => if key <=? mk then Some a else Some (Some (fst e, key))
         | None => Some (Some (fst e, key))
         end)
      counted (Some None) in
  option_map (option_map fst) r.

(* GlyphDeltas::build : (has_private_points, data_size, bytes of GlyphTupleVariationData) ; None = panic.
   [deltas[*idx as usize]] cannot be out of range: idx comes from required_points of the same vector. *)
Definition tuple_build (ds : list gdelta) (shared : option ppn) : option (bool * Z * list Z) :=
  do pn <- pick_best_point_number_repr ds ;;
  let has_private := negb (match shared with Some s => ppn_eqb pn s | None => false end) in
  let sel := match pn with
             | PAll => ds
             | PSome pts => map (fun idx => nth (Z.to_nat idx) ds (0, 0, false)) pts
             end in
  let xs := map gd_x sel in
  let ys := map gd_y sel in
  do size <- tuple_data_size (if has_private then Some pn else None) xs ys ;;
  match (if has_private then encode_points pn else WBytes []) with
  | WBytes pb => Some (has_private, size, pb ++ encode_deltas xs ++ encode_deltas ys)
  | _ => None
  end.

(* one glyph: shared point numbers (encoded) and every tuple's (has_private, variation_data_size, bytes) *)
Definition glyph_build (tuples : list (list gdelta)) : option (option (list Z) * list (bool * Z * list Z)) :=
  do packs <- fold_right (fun ds acc => do a <- acc ;; do p <- pick_best_point_number_repr ds ;; Some (p :: a))
                         (Some []) tuples ;;
  do shared <- compute_shared_points packs ;;
  do ts <- fold_right (fun ds acc => do a <- acc ;; do t <- tuple_build ds shared ;; Some (t :: a)) (Some []) tuples ;;
  match shared with
  | None => Some (None, ts)
  | Some s => match encode_points s with WBytes b => Some (Some b, ts) | _ => None end
  end.

(* ================================================================================================ *)
(* correspondence cases (written by harness/src/bin/c10.rs)                                          *)
(* ================================================================================================ *)

Definition zlist_eqb (a b : list Z) : bool :=
  Nat.eqb (length a) (length b) && forallb (fun p => fst p =? snd p) (combine a b).

Definition gdelta_eqb (a b : gdelta) : bool :=
  (gd_x a =? gd_x b) && (gd_y a =? gd_y b) && Bool.eqb (gd_req a) (gd_req b).

Definition glist_eqb (a b : list gdelta) : bool :=
  Nat.eqb (length a) (length b) && forallb (fun p => gdelta_eqb (fst p) (snd p)) (combine a b).

Definition tuple_res_eqb (a b : bool * Z * list Z) : bool :=
  Bool.eqb (fst (fst a)) (fst (fst b)) && (snd (fst a) =? snd (fst b)) && zlist_eqb (snd a) (snd b).

Inductive case :=
  (* deltas; bytes written by dump_table(&PackedDeltas::new(ds)); PackedDeltas::consume_all(bytes).iter() *)
| CDeltas (ds : list Z) (bytes : list Z) (decoded : list Z)
  (* arbitrary bytes through consume_all(..).iter() *)
| CDeltaBytes (bytes : list Z) (decoded : list Z)
  (* all?; points; outcome 0 = bytes, 1 = validation error, 2 = panic; bytes; read back: all?, points *)
| CPoints (all : bool) (pts : list Z) (outcome : Z) (bytes : list Z) (rall : bool) (rpts : list Z)
  (* arbitrary bytes through split_off_front + iter: all?, points, length consumed *)
| CPointBytes (bytes : list Z) (rall : bool) (rpts : list Z) (consumed : Z)
  (* iup_delta_optimize: tolerance = tn/td, contour ends, coords, deltas, result (None = Err) *)
| CIup (tn td : Z) (ends : list Z) (coords deltas : list (Z * Z)) (res : option (list gdelta))
  (* one glyph's tuples through Gvar::new + dump_table, re-parsed by the harness:
     shared point bytes, per tuple (private-points flag, variation_data_size, serialized bytes) *)
| CGlyph (tuples : list (list gdelta)) (shared : option (list Z)) (ts : list (bool * Z * list Z)).

Definition check_case (c : case) : bool :=
  match c with
  | CDeltas ds bytes decoded =>
      zlist_eqb (encode_deltas ds) bytes && zlist_eqb (decode_deltas_all bytes) decoded
  | CDeltaBytes bytes decoded => zlist_eqb (decode_deltas_all bytes) decoded
  | CPoints all pts outcome bytes rall rp =>
      match encode_points (if all then PAll else PSome pts) with
      | WPanic => outcome =? 2
      | WInvalid => outcome =? 1
      | WBytes b =>
          (outcome =? 0) && zlist_eqb b bytes
          && match decode_points bytes with
             | RAll => rall
             | RSome l => negb rall && zlist_eqb l rp
             end
      end
  | CPointBytes bytes rall rp consumed =>
      match decode_points bytes with
      | RAll => rall
      | RSome l => negb rall && zlist_eqb l rp
      end && (Z.of_nat (pts_split_consumed bytes) =? consumed)
  | CIup tn td ends coords deltas res =>
      match iup_delta_optimize deltas coords (Qmake tn (Z.to_pos td)) (map Z.to_nat ends), res with
      | Some a, Some b => glist_eqb a b
      | None, None => true
      | _, _ => false
      end
  | CGlyph tuples shared ts =>
      match glyph_build tuples with
      | None => false
      | Some (sh, mts) =>
          match sh, shared with
          | Some a, Some b => zlist_eqb a b
          | None, None => true
          | _, _ => false
          end
          && Nat.eqb (length mts) (length ts)
          && forallb (fun p => tuple_res_eqb (fst p) (snd p)) (combine mts ts)
      end
  end.
