(* C10 — lemmas about the PackedDeltas codec of Model.v (writer run segmentation, bytes, reader). *)
From Coq Require Import ZArith Lia List Bool.
From Coq Require Import ZifyBool.
From FV Require Import Lib.RustInt C10.Model.
Import ListNotations.
Open Scope Z_scope.
Ltac Zify.zify_post_hook ::= Z.div_mod_to_equations.

Definition i32 (z : Z) : Prop := -2147483648 <= z <= 2147483647.

(* a value fits the storage class of a run *)
Definition fits (t : rtype) (v : Z) : Prop :=
  match t with
  | RZero => v = 0
  | RI8 => -128 <= v <= 127
  | RI16 => -32768 <= v <= 32767
  | RI32 => i32 v
  end.

(* well-formed run: legal length, values representable in the run's storage class *)
Definition run_ok (r : run) : Prop :=
  (1 <= run_len r <= 64)%nat /\ Forall (fits (run_type r)) (run_vals r) /\ length (run_vals r) = run_len r.

(* ---------- generic helpers ---------- *)
Lemma sweep (P : Z -> bool) (n : nat) :
  forallb P (map Z.of_nat (seq 0 n)) = true -> forall z, 0 <= z < Z.of_nat n -> P z = true.
Proof.
  intros H z Hz. rewrite forallb_forall in H. apply H.
  apply in_map_iff. exists (Z.to_nat z). split; [lia|]. apply in_seq. lia.
Qed.

Lemma land_shiftl_low hi b k : 0 <= k -> 0 <= b < 2 ^ k -> Z.land (Z.shiftl hi k) b = 0.
Proof.
  intros Hk Hb. apply Z.bits_inj'. intros n Hn. rewrite Z.land_spec, Z.bits_0.
  destruct (Z.ltb_spec n k).
  - rewrite Z.shiftl_spec_low by lia. reflexivity.
  - destruct (Z.eq_dec b 0) as [->|Hb0]; [rewrite Z.bits_0; apply andb_false_r|].
    rewrite (Z.bits_above_log2 b n); [apply andb_false_r|lia|].
    assert (2 ^ k <= 2 ^ n) by (apply Z.pow_le_mono_r; lia).
    apply Z.log2_lt_pow2; lia.
Qed.

Lemma lor_shiftl_low hi b k : 0 <= k -> 0 <= b < 2 ^ k -> Z.lor (Z.shiftl hi k) b = hi * 2 ^ k + b.
Proof.
  intros Hk Hb.
  rewrite <- Z.lxor_lor by (apply land_shiftl_low; assumption).
  rewrite <- Z.add_nocarry_lxor by (apply land_shiftl_low; assumption).
  rewrite Z.shiftl_mul_pow2 by lia. reflexivity.
Qed.

(* ---------- control byte ---------- *)
Lemma flag_facts (n : Z) : 0 <= n < 64 ->
  (Z.land n 63 + 1 = n + 1 /\ rtype_of_control n = RI8 /\ 0 <= n < 256) /\
  (Z.land (Z.lor n 64) 63 + 1 = n + 1 /\ rtype_of_control (Z.lor n 64) = RI16 /\ 0 <= Z.lor n 64 < 256) /\
  (Z.land (Z.lor n 128) 63 + 1 = n + 1 /\ rtype_of_control (Z.lor n 128) = RZero /\ 0 <= Z.lor n 128 < 256) /\
  (Z.land (Z.lor (Z.lor n 64) 128) 63 + 1 = n + 1 /\ rtype_of_control (Z.lor (Z.lor n 64) 128) = RI32
   /\ 0 <= Z.lor (Z.lor n 64) 128 < 256).
Proof.
  intros H.
  set (rt_eqb := fun a b : rtype => match a, b with RZero, RZero | RI8, RI8 | RI16, RI16 | RI32, RI32 => true | _, _ => false end).
  pose (P := fun n : Z =>
    (Z.land n 63 + 1 =? n + 1) && rt_eqb (rtype_of_control n) RI8 && (0 <=? n) && (n <? 256) &&
    (Z.land (Z.lor n 64) 63 + 1 =? n + 1) && rt_eqb (rtype_of_control (Z.lor n 64)) RI16
      && (0 <=? Z.lor n 64) && (Z.lor n 64 <? 256) &&
    (Z.land (Z.lor n 128) 63 + 1 =? n + 1) && rt_eqb (rtype_of_control (Z.lor n 128)) RZero
      && (0 <=? Z.lor n 128) && (Z.lor n 128 <? 256) &&
    (Z.land (Z.lor (Z.lor n 64) 128) 63 + 1 =? n + 1) && rt_eqb (rtype_of_control (Z.lor (Z.lor n 64) 128)) RI32
      && (0 <=? Z.lor (Z.lor n 64) 128) && (Z.lor (Z.lor n 64) 128 <? 256)).
  assert (HP : P n = true).
  { apply (sweep P 64); [vm_compute; reflexivity | lia]. }
  unfold P in HP. repeat rewrite andb_true_iff in HP.
  assert (Hrt : forall a b, rt_eqb a b = true -> a = b) by (intros [] []; cbn; congruence).
  repeat match goal with H : _ /\ _ |- _ => destruct H end.
  repeat match goal with H : rt_eqb _ _ = true |- _ => apply Hrt in H end.
  repeat split; try assumption; lia.
Qed.

Lemma run_flag_decodes r : (1 <= run_len r <= 64)%nat ->
  count_of_control (run_flag r) = run_len r /\ rtype_of_control (run_flag r) = run_type r /\ 0 <= run_flag r < 256.
Proof.
  intros H.
  destruct r as [n|l|l|l]; cbn [run_len run_flag run_type] in *;
    match goal with |- context [Z.of_nat ?k - 1] =>
      destruct (flag_facts (Z.of_nat k - 1) ltac:(lia)) as ((A1 & A2 & A3) & (B1 & B2 & B3) & (C1 & C2 & C3) & (D1 & D2 & D3))
    end; unfold count_of_control.
  - rewrite C1. repeat split; try assumption; lia.
  - rewrite A1. repeat split; try assumption; lia.
  - rewrite B1. repeat split; try assumption; lia.
  - rewrite D1. repeat split; try assumption; lia.
Qed.

(* ---------- one value through writer and reader ---------- *)
Lemma to_be_2 z : to_be 2 z = [(z / 256) mod 256; z mod 256].
Proof.
  cbn [to_be Z.of_nat Pos.of_succ_nat Pos.succ].
  change (256 ^ 1) with 256. change (256 ^ 0) with 1. rewrite Z.div_1_r. reflexivity.
Qed.

Lemma to_be_4 z : to_be 4 z = [(z / 16777216) mod 256; (z / 65536) mod 256; (z / 256) mod 256; z mod 256].
Proof.
  cbn [to_be Z.of_nat Pos.of_succ_nat Pos.succ].
  change (256 ^ 3) with 16777216. change (256 ^ 2) with 65536.
  change (256 ^ 1) with 256. change (256 ^ 0) with 1. rewrite Z.div_1_r. reflexivity.
Qed.

Lemma read_enc_val t v rest : fits t v -> read_val t (enc_val t v ++ rest) = Some (v, rest).
Proof.
  intros Hf. destruct t; cbn [fits] in Hf.
  - subst. reflexivity.
  - cbn [enc_val app read_val]. do 2 f_equal.
    unfold wrap_s, wrap_u. change (2 ^ 8) with 256. change (2 ^ (8 - 1)) with 128. lia.
  - cbn [enc_val]. rewrite to_be_2. cbn [app read_val]. do 2 f_equal.
    unfold from_be. cbn [from_be_acc].
    unfold wrap_s, wrap_u. change (2 ^ 16) with 65536. change (2 ^ (16 - 1)) with 32768. lia.
  - cbn [enc_val]. rewrite to_be_4. cbn [app read_val]. do 2 f_equal.
    unfold from_be. cbn [from_be_acc]. unfold i32 in Hf.
    unfold wrap_s, wrap_u. change (2 ^ 32) with 4294967296. change (2 ^ (32 - 1)) with 2147483648. lia.
Qed.

Lemma enc_val_length t v : length (enc_val t v) = rtype_size t.
Proof. destruct t; cbn [enc_val rtype_size]; try reflexivity; apply to_be_length. Qed.

Lemma flat_enc_length t l : length (flat_map (enc_val t) l) = (length l * rtype_size t)%nat.
Proof.
  induction l as [|v l IH]; [reflexivity|].
  cbn [flat_map length]. rewrite app_length, enc_val_length, IH. lia.
Qed.

Lemma enc_val_bytes t v : Forall is_byte (enc_val t v).
Proof.
  destruct t; cbn [enc_val].
  - constructor.
  - constructor; [|constructor]. unfold is_byte, wrap_u. change (2 ^ 8) with 256. lia.
  - apply to_be_bytes.
  - apply to_be_bytes.
Qed.

(* ---------- one run through the reader ---------- *)
Lemma enc_run_shape r : enc_run r = run_flag r :: flat_map (enc_val (run_type r)) (run_vals r).
Proof.
  destruct r as [n|l|l|l]; try reflexivity.
  assert (H : forall k, flat_map (enc_val RZero) (repeat 0 k) = []).
  { induction k as [|k IH]; [reflexivity|]. cbn [repeat flat_map enc_val app]. exact IH. }
  unfold enc_run, run_type, run_vals. rewrite H. reflexivity.
Qed.

(* with remaining_in_run = 0 the stale value_type is irrelevant *)
Lemma delta_iter_vt_irrel k vt vt' bs : delta_iter k 0 vt bs = delta_iter k 0 vt' bs.
Proof. destruct k; [reflexivity|]. cbn [delta_iter Nat.eqb]. reflexivity. Qed.

Lemma delta_iter_body t l : forall k rest, Forall (fits t) l ->
  delta_iter (length l + k) (length l) t (flat_map (enc_val t) l ++ rest) = l ++ delta_iter k 0 t rest.
Proof.
  induction l as [|v l IH]; intros k rest HF.
  - reflexivity.
  - inversion HF as [|? ? Hv Hl]; subst.
    cbn [length Nat.add flat_map]. rewrite <- app_assoc.
    cbn [delta_iter Nat.eqb]. rewrite (read_enc_val t v _ Hv).
    cbn [app]. f_equal. replace (S (length l) - 1)%nat with (length l) by lia.
    apply IH. exact Hl.
Qed.

Lemma delta_iter_run r k vt rest : run_ok r ->
  delta_iter (run_len r + k) 0 vt (enc_run r ++ rest) = run_vals r ++ delta_iter k 0 vt rest.
Proof.
  intros (Hlen & HF & Hl).
  destruct (run_flag_decodes r Hlen) as (Hc & Ht & _).
  rewrite enc_run_shape. cbn [app].
  destruct (run_len r) as [|m] eqn:Em; [lia|].
  cbn [Nat.add delta_iter Nat.eqb]. rewrite Hc, Ht.
  (* the state after reading the control byte is the state of an iterator inside the run *)
  pose proof (delta_iter_body (run_type r) (run_vals r) k rest HF) as Hb.
  rewrite Hl in Hb. cbn [Nat.add delta_iter] in Hb.
  replace (Nat.eqb (S m) 0) with false in Hb by reflexivity.
  rewrite (delta_iter_vt_irrel k vt (run_type r)). exact Hb.
Qed.

Definition total_len (rs : list run) : nat := length (concat (map run_vals rs)).

Lemma delta_iter_runs rs : forall k vt rest, Forall run_ok rs ->
  delta_iter (total_len rs + k) 0 vt (flat_map enc_run rs ++ rest) = concat (map run_vals rs) ++ delta_iter k 0 vt rest.
Proof.
  induction rs as [|r rs IH]; intros k vt rest HF.
  - reflexivity.
  - inversion HF as [|? ? Hr Hrs]; subst.
    unfold total_len. cbn [map concat flat_map]. rewrite app_length, <- !app_assoc.
    destruct Hr as (Hlen & HFv & Hl). rewrite Hl.
    rewrite <- Nat.add_assoc.
    rewrite (delta_iter_run r _ vt _ (conj Hlen (conj HFv Hl))).
    f_equal. apply IH. exact Hrs.
Qed.

(* ---------- count_all_deltas on written bytes ---------- *)
Lemma count_all_runs rs : forall fuel, Forall run_ok rs -> (length (flat_map enc_run rs) <= fuel)%nat ->
  count_all_deltas fuel (flat_map enc_run rs) = total_len rs.
Proof.
  induction rs as [|r rs IH]; intros fuel HF Hfuel.
  - destruct fuel; reflexivity.
  - inversion HF as [|? ? Hr Hrs]; subst.
    destruct Hr as (Hlen & HFv & Hl).
    destruct (run_flag_decodes r Hlen) as (Hc & Ht & _).
    cbn [flat_map] in *. rewrite enc_run_shape in *. cbn [app length] in Hfuel.
    destruct fuel as [|fuel]; [lia|]. cbn [app count_all_deltas].
    rewrite Hc, Ht.
    assert (Hbody : length (flat_map (enc_val (run_type r)) (run_vals r)) = (run_len r * rtype_size (run_type r))%nat).
    { rewrite flat_enc_length, Hl. reflexivity. }
    rewrite <- Hbody. rewrite skipn_app, skipn_all, Nat.sub_diag. cbn [app skipn].
    rewrite IH; [|exact Hrs|rewrite app_length in Hfuel; lia].
    unfold total_len. cbn [map concat]. rewrite app_length, Hl. reflexivity.
Qed.

(* ---------- the writer's run segmentation ---------- *)
Lemma preferred_spec v : i32 v ->
  match preferred_run_type v with
  | RZero => v = 0
  | RI8 => -128 <= v <= 127 /\ v <> 0
  | RI16 => -32768 <= v <= 32767 /\ ~ (-128 <= v <= 127)
  | RI32 => ~ (-32768 <= v <= 32767)
  end.
Proof.
  intros H. unfold preferred_run_type.
  destruct (v =? 0) eqn:E0; [lia|].
  destruct ((32767 <? v) || (v <? -32768)) eqn:E1; [lia|].
  destruct ((127 <? v) || (v <? -128)) eqn:E2; lia.
Qed.

Lemma preferred_fits v : i32 v -> fits (preferred_run_type v) v.
Proof.
  intros H. pose proof (preferred_spec v H) as S. destruct (preferred_run_type v); cbn [fits]; try lia. exact H.
Qed.

Lemma count_leading_zeros_spec cap l :
  let n := count_leading_zeros cap l in
  (n <= cap)%nat /\ (n <= length l)%nat /\ firstn n l = repeat 0 n.
Proof.
  revert l. induction cap as [|c IH]; intros l; cbn [count_leading_zeros].
  - repeat split; try lia.
  - destruct l as [|v r]; [repeat split; cbn; lia|].
    destruct (v =? 0) eqn:E.
    + destruct (IH r) as (A & B & C). cbn [length firstn repeat]. repeat split; try lia.
      f_equal; [lia|exact C].
    + repeat split; cbn; lia.
Qed.

Lemma run_scan_spec rt : rt <> RZero -> forall fuel l, Forall i32 l ->
  let n := run_scan rt fuel l in
  (n <= fuel)%nat /\ (n <= length l)%nat /\ Forall (fits rt) (firstn n l).
Proof.
  intros Hrt. induction fuel as [|f IH]; intros l HF; cbn [run_scan].
  - repeat split; try lia. constructor.
  - destruct l as [|cur tl]; [repeat split; try (cbn; lia); constructor|].
    inversion HF as [|? ? Hc Ht]; subst.
    destruct (stop_run rt (preferred_run_type cur) _) eqn:Es.
    + repeat split; try (cbn; lia). constructor.
    + destruct (IH tl Ht) as (A & B & C). cbn [length firstn]. repeat split; try lia.
      constructor; [|exact C].
      pose proof (preferred_spec cur Hc) as Sp.
      destruct rt; [congruence| | |]; destruct (preferred_run_type cur); cbn [stop_run] in Es; cbn [fits];
        try discriminate; try lia; try exact Hc.
Qed.

Lemma mk_run_facts t l : t <> RZero -> run_type (mk_run t l) = t /\ run_vals (mk_run t l) = l /\ run_len (mk_run t l) = length l.
Proof. destruct t; intros H; try congruence; repeat split; reflexivity. Qed.

Lemma iter_runs_spec : forall fuel ds, Forall i32 ds -> (length ds <= fuel)%nat ->
  Forall run_ok (iter_runs fuel ds) /\ concat (map run_vals (iter_runs fuel ds)) = ds.
Proof.
  induction fuel as [|f IH]; intros ds HF Hlen.
  - destruct ds; [|cbn in Hlen; lia]. split; [constructor|reflexivity].
  - destruct ds as [|v tl]; [split; [constructor|reflexivity]|].
    cbn [iter_runs]. inversion HF as [|? ? Hv Htl]; subst.
    destruct (v =? 0) eqn:E0.
    + pose proof (count_leading_zeros_spec MAX_DELTA_RUN (v :: tl)) as Hz. cbv zeta in Hz.
      set (n := count_leading_zeros MAX_DELTA_RUN (v :: tl)) in *.
      destruct Hz as (A & B & C).
      assert (Hn1 : (1 <= n)%nat).
      { subst n. unfold MAX_DELTA_RUN. cbn [count_leading_zeros]. rewrite E0. lia. }
      destruct (IH (skipn n (v :: tl))) as (R1 & R2).
      { apply Forall_forall. intros x Hx. rewrite Forall_forall in HF. apply HF.
        rewrite <- (firstn_skipn n (v :: tl)). apply in_or_app. right. exact Hx. }
      { rewrite skipn_length. cbn [length] in *. lia. }
      split.
      * constructor; [|exact R1].
        unfold run_ok. cbn [run_len run_type run_vals]. unfold MAX_DELTA_RUN in A. repeat split; try lia.
        -- apply Forall_forall. intros x Hx. apply repeat_spec in Hx. exact Hx.
        -- apply repeat_length.
      * cbn [map concat run_vals]. rewrite R2, <- C. apply firstn_skipn.
    + assert (Hp : preferred_run_type v <> RZero).
      { pose proof (preferred_spec v Hv) as Sp. destruct (preferred_run_type v); try discriminate. lia. }
      unfold next_run_len.
      pose proof (run_scan_spec (preferred_run_type v) Hp (MAX_DELTA_RUN - 1) tl Htl) as Hs. cbv zeta in Hs.
      set (m := run_scan (preferred_run_type v) (MAX_DELTA_RUN - 1) tl) in *.
      destruct Hs as (A & B & C).
      destruct (IH (skipn (S m) (v :: tl))) as (R1 & R2).
      { apply Forall_forall. intros x Hx. rewrite Forall_forall in HF. apply HF.
        rewrite <- (firstn_skipn (S m) (v :: tl)). apply in_or_app. right. exact Hx. }
      { rewrite skipn_length. cbn [length] in *. lia. }
      destruct (mk_run_facts (preferred_run_type v) (firstn (S m) (v :: tl)) Hp) as (F1 & F2 & F3).
      assert (Hfl : length (firstn (S m) (v :: tl)) = S m).
      { rewrite firstn_length. cbn [length]. lia. }
      split.
      * constructor; [|exact R1].
        unfold run_ok. rewrite F1, F2, F3, Hfl. unfold MAX_DELTA_RUN in A. repeat split; try lia.
        cbn [firstn]. constructor; [apply preferred_fits; exact Hv|exact C].
      * cbn [map concat]. rewrite F2, R2. apply firstn_skipn.
Qed.

Lemma delta_runs_spec ds : Forall i32 ds ->
  Forall run_ok (delta_runs ds) /\ concat (map run_vals (delta_runs ds)) = ds.
Proof. intros H. apply iter_runs_spec; [exact H|lia]. Qed.

(* ---------- round trips ---------- *)
Lemma packed_deltas_roundtrip_prefix ds rest : Forall i32 ds ->
  decode_deltas_n (length ds) (encode_deltas ds ++ rest) = ds.
Proof.
  intros H. destruct (delta_runs_spec ds H) as (Hok & Hcat).
  unfold decode_deltas_n, encode_deltas.
  pose proof (delta_iter_runs (delta_runs ds) 0 RI8 rest Hok) as Hr.
  unfold total_len in Hr. rewrite Hcat in Hr. rewrite Nat.add_0_r in Hr. rewrite Hr.
  cbn [delta_iter]. apply app_nil_r.
Qed.

Lemma packed_deltas_count ds : Forall i32 ds ->
  count_all_deltas (length (encode_deltas ds)) (encode_deltas ds) = length ds.
Proof.
  intros H. destruct (delta_runs_spec ds H) as (Hok & Hcat).
  unfold encode_deltas. rewrite count_all_runs by (try exact Hok; lia).
  unfold total_len. rewrite Hcat. reflexivity.
Qed.

Lemma packed_deltas_roundtrip ds : Forall i32 ds -> decode_deltas_all (encode_deltas ds) = ds.
Proof.
  intros H. unfold decode_deltas_all. rewrite packed_deltas_count by exact H.
  rewrite <- (app_nil_r (encode_deltas ds)) at 1. apply packed_deltas_roundtrip_prefix. exact H.
Qed.

(* ---------- run legality and header consistency ---------- *)
Lemma delta_run_lengths_legal ds : Forall i32 ds ->
  Forall (fun r => (1 <= run_len r <= 64)%nat
                   /\ count_of_control (run_flag r) = run_len r
                   /\ rtype_of_control (run_flag r) = run_type r
                   /\ 0 <= run_flag r < 256
                   /\ Forall (fits (run_type r)) (run_vals r)) (delta_runs ds).
Proof.
  intros H. destruct (delta_runs_spec ds H) as (Hok & _).
  eapply Forall_impl; [|exact Hok]. intros r (Hl & HF & _).
  destruct (run_flag_decodes r Hl) as (A & B & C). repeat split; try assumption; lia.
Qed.

Lemma encode_deltas_bytes ds : Forall i32 ds -> Forall is_byte (encode_deltas ds).
Proof.
  intros H. destruct (delta_runs_spec ds H) as (Hok & _).
  unfold encode_deltas. induction Hok as [|r rs Hr Hrs IH]; [constructor|].
  cbn [flat_map]. apply Forall_app. split; [|exact IH].
  rewrite enc_run_shape. destruct Hr as (Hl & _ & _).
  destruct (run_flag_decodes r Hl) as (_ & _ & C). constructor; [exact C|].
  induction (run_vals r); cbn [flat_map]; [constructor|]. apply Forall_app. split; [apply enc_val_bytes|assumption].
Qed.

(* ---------- compute_size ---------- *)
Lemma sum_sizes_none sizes : fold_left (fun acc s => do a <- acc ;; chk_u 16 (a + s)) sizes None = None.
Proof. induction sizes; [reflexivity|exact IHsizes]. Qed.

Lemma sum_sizes_some sizes : forall start s,
  sum_sizes_u16 start sizes = Some s -> s = start + fold_right Z.add 0 sizes.
Proof.
  unfold sum_sizes_u16. induction sizes as [|x xs IH]; intros start s H.
  - cbn in *. inversion H. lia.
  - cbn [fold_left fold_right obind] in *. unfold chk_u in H at 2.
    destruct (in_u 16 (start + x)) eqn:E.
    + apply IH in H. lia.
    + rewrite sum_sizes_none in H. discriminate.
Qed.

Lemma sum_sizes_total sizes : forall start, 0 <= start -> Forall (fun x => 0 <= x) sizes ->
  start + fold_right Z.add 0 sizes <= 65535 ->
  sum_sizes_u16 start sizes = Some (start + fold_right Z.add 0 sizes).
Proof.
  unfold sum_sizes_u16. induction sizes as [|x xs IH]; intros start Hs HF Hb.
  - cbn. f_equal. lia.
  - inversion HF as [|? ? Hx Hxs]; subst. cbn [fold_left fold_right obind] in *.
    assert (Hsum : 0 <= fold_right Z.add 0 xs).
    { clear -Hxs. induction Hxs; cbn [fold_right]; lia. }
    unfold chk_u at 2. unfold in_u. change (2 ^ 16) with 65536.
    replace ((0 <=? start + x) && (start + x <? 65536)) with true by lia.
    rewrite IH by (try assumption; lia). f_equal. lia.
Qed.

Lemma run_size_is_length r : run_ok r -> run_size r = Z.of_nat (length (enc_run r)).
Proof.
  intros (Hl & _ & Hv). rewrite enc_run_shape. cbn [length]. rewrite flat_enc_length, Hv.
  destruct r; cbn [run_size run_type run_len rtype_size] in *; lia.
Qed.

Lemma sizes_sum_length rs : Forall run_ok rs ->
  fold_right Z.add 0 (map run_size rs) = Z.of_nat (length (flat_map enc_run rs)).
Proof.
  induction 1 as [|r rs Hr Hrs IH]; [reflexivity|].
  cbn [map fold_right flat_map]. rewrite app_length, IH, (run_size_is_length r Hr). lia.
Qed.

Lemma deltas_size_computed ds : Forall i32 ds ->
  (forall s, deltas_compute_size ds = Some s -> s = Z.of_nat (length (encode_deltas ds)))
  /\ (Z.of_nat (length (encode_deltas ds)) <= 65535 -> deltas_compute_size ds = Some (Z.of_nat (length (encode_deltas ds)))).
Proof.
  intros H. destruct (delta_runs_spec ds H) as (Hok & _).
  unfold deltas_compute_size, encode_deltas. split.
  - intros s Hs. apply sum_sizes_some in Hs. rewrite sizes_sum_length in Hs by exact Hok. lia.
  - intros Hb. rewrite <- (sizes_sum_length _ Hok) in *.
    rewrite sum_sizes_total; [reflexivity|lia| |lia].
    apply Forall_forall. intros x Hx. apply in_map_iff in Hx. destruct Hx as (r & <- & _).
    destruct r; cbn [run_size]; lia.
Qed.
