(* C10 — lemmas about the packing codecs of Model.v. *)
From Coq Require Import ZArith Lia List Bool.
From FV Require Import Lib.RustInt C10.Model.
Import ListNotations.
Open Scope Z_scope.
