(* C10 (round 7) — examples for IupApplyProps.v: the two unit tests of skrifa/src/outline/glyf/deltas.rs
   evaluated by the model, and instances of the hypotheses. *)
From Coq Require Import ZArith List Lia Permutation.
From FV Require Import Lib.RustInt C15.Model C15.Proofs C10.ApplyModel C10.IupApplyModel C10.IupApplyProofs.
Import ListNotations.
Open Scope Z_scope.

Definition fx (p : Z * Z) : Z * Z := (fst p * 65536, snd p * 65536).

(* tests::shift — a single referenced point shifts the whole contour *)
Example c10_iup_shift_unit_test :
  interpolate_deltas [(245, 630); (260, 700); (305, 680)] [true; false; false] [2%nat]
    [fx (265, 620); fx (260, 700); fx (305, 680)]
  = Some [fx (265, 620); fx (280, 690); fx (325, 670)].
Proof. vm_compute. reflexivity. Qed.

(* tests::interpolate — the example of the OpenType spec: point 1 is inferred as (270.49992, 643.0) *)
Example c10_iup_interpolate_unit_test :
  interpolate_deltas [(245, 630); (260, 700); (305, 680)] [true; false; true] [2%nat]
    [fx (273, 568); fx (260, 700); fx (263, 623)]
  = Some [fx (273, 568); (17727483, 42139648); fx (263, 623)]
  /\ 17727483 = 270 * 65536 + 32763 /\ 42139648 = 643 * 65536.
Proof. repeat split; vm_compute; reflexivity. Qed.

(* c10_iup_referenced_points_kept: hypotheses satisfiable, conclusion visible on the instance above *)
Example c10_iup_kept_example :
  exists o, interpolate_deltas [(245, 630); (260, 700); (305, 680)] [true; false; true] [2%nat]
              [fx (273, 568); fx (260, 700); fx (263, 623)] = Some o
            /\ nth_error o 0 = Some (fx (273, 568)) /\ nth_error o 2 = Some (fx (263, 623))
            /\ nth_error o 1 <> Some (fx (260, 700)).
Proof. eexists. split; [vm_compute; reflexivity|]. repeat split; vm_compute; congruence. Qed.

(* same reference coordinate, different deltas: nothing is inferred for that coordinate (x stays), y interpolates *)
Example c10_iup_equal_refs :
  interpolate_deltas [(10, 0); (10, 5); (10, 10)] [true; false; true] [2%nat]
    [fx (13, 0); fx (10, 5); fx (17, 20)]
  = Some [fx (13, 0); (10 * 65536, 10 * 65536); fx (17, 20)].
Proof. vm_compute. reflexivity. Qed.

(* a contour without referenced points and the phantom points are left alone; an out-of-range contour end fails *)
Example c10_iup_unreferenced_contour :
  interpolate_deltas [(0, 0); (5, 5); (9, 9); (1, 1); (0, 0); (0, 0); (0, 0); (0, 0)]
    [true; false; false; false; false; true; false; false] [1%nat; 3%nat]
    [fx (1, 1); fx (5, 5); fx (9, 9); fx (1, 1); fx (0, 0); fx (7, 0); fx (0, 0); fx (0, 0)]
  = Some [fx (1, 1); fx (6, 6); fx (9, 9); fx (1, 1); fx (0, 0); fx (7, 0); fx (0, 0); fx (0, 0)]
  /\ interpolate_deltas [(0, 0)] [true] [3%nat] [fx (1, 1)] = None.
Proof. split; vm_compute; reflexivity. Qed.

(* c10_iup_interpolate_writes_range / c10_iup_shift_writes_range *)
Example c10_iup_jig_examples :
  jig_interpolate [(0, 0); (4, 4); (10, 10)] [fx (0, 0); fx (4, 4); fx (20, 10)] 1 1 0 2
  = Some [fx (0, 0); (8 * 65536, 4 * 65536); fx (20, 10)]
  /\ jig_shift [(0, 0); (4, 4); (10, 10)] [fx (0, 0); fx (5, 3); fx (10, 10)] 0 2 1
  = Some [fx (1, -1); fx (5, 3); fx (11, 9)].
Proof. split; vm_compute; reflexivity. Qed.

(* c10_iup_rule / c10_iup_scale_exact on the spec's example: i1 = 245, i2 = 305, out1 = 273, out2 = 263,
   scale = -10/60 rounded = -10923, p = 260: 273 + 15 * (-10923)/65536 *)
Example c10_iup_rule_example :
  rha ((263 - 273) * 65536) (305 - 245) = -10923
  /\ interp_value (fixed_from_i32 245) (fixed_from_i32 305) (273 * 65536) (263 * 65536) (-10923)
       (fx_sub 32 (273 * 65536) (fixed_from_i32 245)) (fx_sub 32 (263 * 65536) (fixed_from_i32 305)) 260
     = 273 * 65536 + (260 - 245) * -10923
  /\ small 245 /\ small 305 /\ small 260 /\ i32 ((260 - 245) * -10923).
Proof. unfold small, i32. repeat split; try (vm_compute; reflexivity); lia. Qed.

(* end to end through unscaled_points: one sparse tuple at scalar 0.5 referencing points 0 and 2 *)
Example c10_unscaled_points_example :
  unscaled_points [(0, 0); (50, 0); (100, 0); (0, 0); (600, 0); (0, 0); (0, 0)] [2%nat]
    [(32768, Some [0; 2], [10; 30], [0; -4])]
  = [(5, 0); (60, 0); (115, -2); (0, 0); (600, 0); (0, 0); (0, 0)].
Proof. vm_compute. reflexivity. Qed.

(* c10_unscaled_points_order_independent: a sparse (inferred) and a dense tuple in both orders; the lsb shift of
   ScaledOutline::new shows in drawn_points (phantom 0 = point 3 moves by round(0.5 * 3) = 2) *)
Example c10_glyph_order_example :
  let pts := [(0, 0); (50, 0); (100, 0); (0, 0); (600, 0); (0, 0); (0, 0)] in
  let t1 : atuple := (32768, Some [0; 2; 3], [10; 30; 3], [0; -4; 0]) in
  let t2 : atuple := (21845, None, [3; 3; 3; 0; 9; 0; 0], [1; 2; 3; 0; 0; 0; 0]) in
  unscaled_points pts [2%nat] [t1; t2] = unscaled_points pts [2%nat] [t2; t1]
  /\ Permutation [t1; t2] [t2; t1]
  /\ drawn_points pts [2%nat] [t1; t2] = [(4, 0); (59, 1); (114, -1)].
Proof. cbv zeta. split; [vm_compute; reflexivity|]. split; [apply perm_swap|]. vm_compute. reflexivity. Qed.
