(* C10 (round 7) — the deltas skrifa computes for a simple glyph (dense fast path and sparse path with
   inference, IupApplyModel.sg_tuples) do not depend on the order of the active tuples. *)
From Coq Require Import ZArith Lia List Bool Arith Permutation.
From FV Require Import Lib.RustInt C15.Model C15.Proofs C10.ApplyModel C10.ApplyProofs C10.IupApplyModel.
Import ListNotations.

Definition eff := (option Z * option Z)%type.
Definition padd (c : eff) (a : fpt) : fpt := (appw (fst c) (fst a), appw (snd c) (snd a)).

Fixpoint mapi_go {A} (k : nat) (f : nat -> A -> A) (l : list A) : list A :=
  match l with [] => [] | a :: l' => f k a :: mapi_go (S k) f l' end.
Definition mapi {A} (f : nat -> A -> A) (l : list A) : list A := mapi_go O f l.

Lemma mapi_go_nth {A} (f : nat -> A -> A) : forall l k i,
  nth_error (mapi_go k f l) i = option_map (f (k + i)%nat) (nth_error l i).
Proof.
  induction l as [|a l IH]; intros k i; [destruct i; reflexivity|].
  destruct i as [|i]; cbn [mapi_go nth_error option_map].
  - rewrite Nat.add_0_r. reflexivity.
  - rewrite IH. replace (S k + i)%nat with (k + S i)%nat by lia. reflexivity.
Qed.
Lemma mapi_nth {A} (f : nat -> A -> A) l i : nth_error (mapi f l) i = option_map (f i) (nth_error l i).
Proof. unfold mapi. rewrite mapi_go_nth. reflexivity. Qed.

(* what one tuple adds to entry i of the delta buffer: a function of the tuple and the glyph only *)
Definition sg_eff (pts : list ipt) (ends : list nat) (t : atuple) : option (nat -> eff) :=
  let '(s, op, xs, ys) := t in
  match op with
  | None => Some (fun i => (option_map (scale_delta s) (nth_error xs i), option_map (scale_delta s) (nth_error ys i)))
  | Some sp =>
      let acc := accumulate_sparse s sp xs ys (map (fun p => (fst (to_fx p), snd (to_fx p), false)) pts) in
      match interpolate_deltas pts (map snd acc) ends (map fst acc) with
      | None => None
      | Some outp =>
          Some (fun i => match nth_error pts i, nth_error outp i with
                         | Some p, Some o => (Some (fst (pt_sub o (to_fx p))), Some (snd (pt_sub o (to_fx p))))
                         | _, _ => (None, None)
                         end)
      end
  end.

Lemma add_inferred_nth : forall deltas pts iup i,
  nth_error (add_inferred deltas pts iup) i
  = option_map (fun d => match nth_error pts i, nth_error iup i with
                         | Some p, Some o => pt_add d (pt_sub o (to_fx p))
                         | _, _ => d
                         end) (nth_error deltas i).
Proof.
  induction deltas as [|d ds IH]; intros pts iup i; [destruct i; reflexivity|].
  destruct pts as [|p ps].
  { cbn [add_inferred]. destruct (nth_error (d :: ds) i); destruct i; reflexivity. }
  destruct iup as [|o os].
  { cbn [add_inferred]. destruct (nth_error (d :: ds) i); [|reflexivity]. cbn [option_map].
    destruct (nth_error (p :: ps) i); destruct i; reflexivity. }
  cbn [add_inferred]. destruct i as [|i]; [reflexivity|]. cbn [nth_error]. apply IH.
Qed.

Lemma sg_tuple_closed pts ends d t :
  sg_tuple pts ends d t = option_map (fun e => mapi (fun i => padd (e i)) d) (sg_eff pts ends t).
Proof.
  unfold fpt, ipt, eff in *. destruct t as [[[s [sp|]] xs] ys]; cbn [sg_tuple sg_eff].
  - destruct (interpolate_deltas _ _ _ _) as [outp|]; [|reflexivity]. cbn [option_map]. f_equal.
    apply nth_error_ext. intros i. rewrite add_inferred_nth, mapi_nth. unfold fpt, ipt in *.
    destruct (nth_error d i) as [[dx dy]|]; [|reflexivity]. cbn [option_map]. f_equal.
    destruct (nth_error pts i); [|reflexivity]. destruct (nth_error outp i); reflexivity.
  - cbn [option_map]. f_equal. apply nth_error_ext. intros i. rewrite accumulate_dense_nth, mapi_nth. unfold fpt, ipt in *.
    destruct (nth_error d i) as [[dx dy]|]; [|reflexivity]. cbn [option_map]. f_equal.
    unfold dense_fn, padd. cbn [fst snd]. destruct (nth_error xs i), (nth_error ys i); reflexivity.
Qed.

Lemma padd_commute c1 c2 a : padd c1 (padd c2 a) = padd c2 (padd c1 a).
Proof.
  destruct a as [x y]. unfold padd. cbn [fst snd]. rewrite !appw_comb.
  rewrite (comb_comm (fst c2)), (comb_comm (snd c2)). reflexivity.
Qed.

Lemma mapi_commute (e1 e2 : nat -> eff) d :
  mapi (fun i => padd (e1 i)) (mapi (fun i => padd (e2 i)) d) = mapi (fun i => padd (e2 i)) (mapi (fun i => padd (e1 i)) d).
Proof.
  apply nth_error_ext. intros i. rewrite !mapi_nth. destruct (nth_error d i); [|reflexivity].
  cbn [option_map]. f_equal. apply padd_commute.
Qed.

(* the order of the active tuples does not matter — neither for the computed deltas nor for whether
   the computation fails *)
Lemma sg_tuples_perm pts ends ts1 ts2 : Permutation ts1 ts2 ->
  forall d, sg_tuples pts ends d ts1 = sg_tuples pts ends d ts2.
Proof.
  induction 1; intros d; cbn [sg_tuples].
  - reflexivity.
  - destruct (sg_tuple pts ends d x); [apply IHPermutation | reflexivity].
  - rewrite (sg_tuple_closed pts ends d y), (sg_tuple_closed pts ends d x).
    destruct (sg_eff pts ends y) as [ey|] eqn:Ey; destruct (sg_eff pts ends x) as [ex|] eqn:Ex; cbn [option_map];
      rewrite ?sg_tuple_closed, ?Ey, ?Ex; cbn [option_map]; try reflexivity.
    rewrite mapi_commute. reflexivity.
  - rewrite IHPermutation1. apply IHPermutation2.
Qed.

Lemma unscaled_points_perm pts ends ts1 ts2 : Permutation ts1 ts2 ->
  unscaled_points pts ends ts1 = unscaled_points pts ends ts2.
Proof. intros H. unfold unscaled_points. rewrite (sg_tuples_perm pts ends ts1 ts2 H). reflexivity. Qed.
