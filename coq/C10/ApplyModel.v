(* C10 (round 7) — executable model of the APPLICATION side of gvar in read-fonts:
   TupleVariation::compute_scalar and accumulate_dense_deltas / accumulate_sparse_deltas
   (read-fonts/src/tables/variations.rs), with D = Fixed.  16.16 values are raw i32 bits in Z; the
   arithmetic is the proved model of coq/C15 (fixed_mul, fixed_mul_div, fx_add, fx_sub, fixed_from_i32).
   No proofs in this file.  The accumulate functions are modelled at the level of the DECODED deltas
   (the values write-fonts packed / TupleVariation::deltas() yields), not of the run bytes: the byte
   reader of the fast paths (read_dense_deltas / read_sparse_deltas) is exercised through the tie
   (pack with write-fonts -> real accumulate_* -> compare) but not mirrored statement by statement. *)
From Coq Require Import ZArith List Bool.
From FV Require Import Lib.RustInt C15.Model.
Import ListNotations.
Open Scope Z_scope.

(* ---------------- TupleVariation::compute_scalar ---------------- *)

(* one iteration of the `for (i, peak) in peak.values.iter().enumerate().filter(peak != 0)` loop, all
   arguments already `.to_fixed()`; [im] = the intermediate (start, end) of this axis when the header has
   intermediate tuples.  None = `return None`. *)
Definition gv_axis (scalar coord peak : Z) (im : option (Z * Z)) : option Z :=
  if peak =? 0 then Some scalar                      (* .filter(|(_, peak)| peak.get() != F2Dot14::ZERO) *)
  else if peak =? coord then Some scalar             (* if peak == coord { continue; } *)
  else if coord =? 0 then None                       (* if coord == ZERO { return None; } *)
  else match im with
       | Some (start, end_) =>
           if (coord <=? start) || (end_ <=? coord) then None
           else if coord <? peak
                then Some (fixed_mul_div scalar (fx_sub 32 coord start) (fx_sub 32 peak start))
                else Some (fixed_mul_div scalar (fx_sub 32 end_ coord) (fx_sub 32 end_ peak))
       | None =>
           if (coord <? Z.min peak 0) || (Z.max peak 0 <? coord) then None
           else Some (fixed_mul_div scalar coord peak)
       end.

(* an axis of a tuple: raw F2Dot14 peak and, if the tuple is an intermediate one, raw (start, end) *)
Definition gaxis := (Z * option (Z * Z))%type.

Definition im_to_fixed (im : option (Z * Z)) : option (Z * Z) :=
  match im with Some (s, e) => Some (f2dot14_to_fixed s, f2dot14_to_fixed e) | None => None end.

(* coords raw F2Dot14; `coords.get(i).copied().unwrap_or_default()`: missing trailing coords are 0,
   surplus coords are never looked at *)
Fixpoint gv_scalar_go (axes : list gaxis) (coords : list Z) (scalar : Z) : option Z :=
  match axes with
  | [] => Some scalar
  | (p, im) :: rest =>
      let coord := match coords with c :: _ => f2dot14_to_fixed c | [] => 0 end in
      match gv_axis scalar coord (f2dot14_to_fixed p) (im_to_fixed im) with
      | None => None
      | Some sc => gv_scalar_go rest (tl coords) sc
      end
  end.

(* `(scalar != Fixed::ZERO).then_some(scalar)`.  (The `peak.len() != axis_count` early return is not
   modelled: a peak tuple read from a gvar always has axis_count entries.) *)
Definition gv_compute_scalar (axes : list gaxis) (coords : list Z) : option Z :=
  match gv_scalar_go axes coords 65536 with
  | Some sc => if sc =? 0 then None else Some sc
  | None => None
  end.

(* the header's intermediate tuples are all-or-nothing: per-axis view of (peak, Option<(start, end)>) *)
Definition gv_axes (peaks : list Z) (inter : option (list Z * list Z)) : list gaxis :=
  match inter with
  | None => map (fun p => (p, None)) peaks
  | Some (ss, es) => map (fun x => (fst x, Some (snd x))) (combine peaks (combine ss es))
  end.

(* ---------------- accumulate_{dense,sparse}_deltas::<Fixed> ---------------- *)

(* the closure bodies: `D::from_i32(new_delta)` when scalar == Fixed::ONE, else
   `D::from_fixed(Fixed::from_i32(new_delta) * scalar)` *)
Definition scale_delta (scalar d : Z) : Z :=
  if scalar =? 65536 then fixed_from_i32 d else fixed_mul (fixed_from_i32 d) scalar.
(* `delta.x += ..` (Fixed AddAssign = wrapping_add) *)
Definition acc_add (old scalar d : Z) : Z := fx_add 32 old (scale_delta scalar d).

(* dense: x pass over all points, then y pass; acc = (x, y) raw Fixed bits per point *)
Fixpoint dense_x (scalar : Z) (acc : list (Z * Z)) (xs : list Z) : list (Z * Z) :=
  match acc, xs with
  | (x, y) :: acc', d :: xs' => (acc_add x scalar d, y) :: dense_x scalar acc' xs'
  | _, _ => acc
  end.
Fixpoint dense_y (scalar : Z) (acc : list (Z * Z)) (ys : list Z) : list (Z * Z) :=
  match acc, ys with
  | (x, y) :: acc', d :: ys' => (x, acc_add y scalar d) :: dense_y scalar acc' ys'
  | _, _ => acc
  end.
Definition accumulate_dense (scalar : Z) (xs ys : list Z) (acc : list (Z * Z)) : list (Z * Z) :=
  dense_y scalar (dense_x scalar acc xs) ys.

(* sparse: entry = (x, y, HAS_DELTA marker); `deltas.get_mut(ix)`: nothing happens beyond the slice *)
Definition spt := (Z * Z * bool)%type.
Fixpoint upd_nth (n : nat) (f : spt -> spt) (l : list spt) : list spt :=
  match l, n with
  | [], _ => []
  | a :: l', O => f a :: l'
  | a :: l', S n' => a :: upd_nth n' f l'
  end.
Definition upd_at (ix : Z) (f : spt -> spt) (l : list spt) : list spt :=
  if (0 <=? ix) && (ix <? Z.of_nat (length l)) then upd_nth (Z.to_nat ix) f l else l.
Definition sp_add_x (scalar d : Z) (p : spt) : spt :=
  let '(x, y, _) := p in (acc_add x scalar d, y, true).       (* delta.x += ..; flag.set_marker(HAS_DELTA) *)
Definition sp_add_y (scalar d : Z) (p : spt) : spt :=
  let '(x, y, fl) := p in (x, acc_add y scalar d, fl).
Fixpoint sparse_pass (g : Z -> spt -> spt) (pts ds : list Z) (acc : list spt) : list spt :=
  match pts, ds with
  | p :: pts', d :: ds' => sparse_pass g pts' ds' (upd_at p (g d) acc)
  | _, _ => acc
  end.
Definition accumulate_sparse (scalar : Z) (pts xs ys : list Z) (acc : list spt) : list spt :=
  sparse_pass (sp_add_y scalar) pts ys (sparse_pass (sp_add_x scalar) pts xs acc).

(* a tuple as skrifa applies it: scalar, None = all points / Some pts, x and y deltas *)
Definition atuple := (Z * option (list Z) * list Z * list Z)%type.
Definition dense_as_sparse (scalar : Z) (xs ys : list Z) (acc : list spt) : list spt :=
  (* accumulate_dense_deltas does not touch the flags *)
  map (fun p => (fst (fst p), snd (fst p), snd p))
      (combine (accumulate_dense scalar xs ys (map fst acc)) (map snd acc)).
Definition apply_tuple (acc : list spt) (t : atuple) : list spt :=
  let '(scalar, pts, xs, ys) := t in
  match pts with
  | Some pts => accumulate_sparse scalar pts xs ys acc
  | None => dense_as_sparse scalar xs ys acc
  end.
Definition apply_tuples (ts : list atuple) (acc : list spt) : list spt := fold_left apply_tuple ts acc.

(* ---------------- correspondence cases (harness/src/bin/c10.rs, apply_part) ---------------- *)
Inductive acase :=
  (* raw F2Dot14 coords, peaks, (starts, ends) as read back; what TupleVariation::compute_scalar returned *)
| AScalar (coords peaks : list Z) (inter : option (list Z * list Z)) (res : option Z)
  (* scalar bits; decoded x / y deltas of an all-points tuple; accumulator before; is_ok(); accumulator after *)
| ADense (scalar : Z) (xs ys : list Z) (init : list (Z * Z)) (ok : bool) (out : list (Z * Z))
| ASparse (scalar : Z) (pts xs ys : list Z) (init : list spt) (ok : bool) (out : list spt).

Definition pair_eqb (a b : Z * Z) : bool := (fst a =? fst b) && (snd a =? snd b).
Definition spt_eqb (a b : spt) : bool := pair_eqb (fst a) (fst b) && Bool.eqb (snd a) (snd b).
Definition list_eqb {A} (eqb : A -> A -> bool) (a b : list A) : bool :=
  Nat.eqb (length a) (length b) && forallb (fun p => eqb (fst p) (snd p)) (combine a b).
Definition oz_eqb (a b : option Z) : bool :=
  match a, b with Some x, Some y => x =? y | None, None => true | _, _ => false end.

Definition check_acase (c : acase) : bool :=
  match c with
  | AScalar coords peaks inter res =>
      match inter with
      | Some (ss, es) => Nat.eqb (length ss) (length peaks) && Nat.eqb (length es) (length peaks)
      | None => true
      end && oz_eqb (gv_compute_scalar (gv_axes peaks inter) coords) res
  | ADense scalar xs ys init ok out =>
      ok && Nat.eqb (length xs) (length init) && Nat.eqb (length ys) (length init)
      && list_eqb pair_eqb (accumulate_dense scalar xs ys init) out
  | ASparse scalar pts xs ys init ok out =>
      ok && Nat.eqb (length xs) (length pts) && Nat.eqb (length ys) (length pts)
      && list_eqb spt_eqb (accumulate_sparse scalar pts xs ys init) out
  end.
