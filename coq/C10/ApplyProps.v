(* C10 (round 7) — property theorems about the application side of gvar (read-fonts
   TupleVariation::compute_scalar, accumulate_dense_deltas, accumulate_sparse_deltas as modelled in
   ApplyModel.v).  Only statements, [exact lemma] and Print Assumptions. *)
From Coq Require Import ZArith List Permutation.
From FV Require Import Lib.RustInt C15.Model C15.Proofs C10.ApplyModel C10.ApplyProofs.
Import ListNotations.
Open Scope Z_scope.

(* (1) compute_scalar, for every tuple (any number of axes, with or without intermediate region, ANY i16
   start/peak/end — also malformed regions) and every location: it is the product of the per-axis tent
   fractions [gv_frac] accumulated with one round-half-away rounding per interpolating axis ([gv_spec]),
   `None` exactly when an axis is outside its tent or the product rounds to 0, and a returned scalar is
   in (0, ONE] *)
Theorem c10_compute_scalar_spec : forall axes coords, Forall gaxis16 axes -> Forall i16 coords ->
  gv_compute_scalar axes coords
  = match gv_spec axes coords 65536 with
    | Some r => if r =? 0 then None else Some r
    | None => None
    end
  /\ (forall v, gv_compute_scalar axes coords = Some v -> 0 < v <= 65536).
Proof. exact compute_scalar_spec. Qed.

(* the tuple does not apply (None) as soon as the coordinate of ONE axis is outside that axis' tent *)
Theorem c10_compute_scalar_zero_outside : forall pre p im post coords,
  Forall gaxis16 (pre ++ (p, im) :: post) -> Forall i16 coords ->
  gv_frac (nth (length pre) coords 0) p im = None ->
  gv_compute_scalar (pre ++ (p, im) :: post) coords = None.
Proof. exact compute_scalar_outside. Qed.

(* Fixed::ONE when every axis is unused (peak 0) or exactly at its peak (whatever the intermediate region) *)
Theorem c10_compute_scalar_one_at_peak : forall axes coords, Forall gaxis16 axes -> Forall i16 coords ->
  (forall i p im, nth_error axes i = Some (p, im) -> p = 0 \/ nth i coords 0 = p) ->
  gv_compute_scalar axes coords = Some 65536.
Proof. exact compute_scalar_at_peaks. Qed.

(* one interpolating axis: exactly the fraction n/d rounded half away from zero to 16.16 *)
Theorem c10_compute_scalar_single_axis : forall p im c, gaxis16 (p, im) -> i16 c ->
  gv_compute_scalar [(p, im)] [c]
  = match gv_frac c p im with
    | Some (n, d) => let r := rha (65536 * n) d in if r =? 0 then None else Some r
    | None => None
    end.
Proof. exact compute_scalar_single. Qed.

(* (2a) accumulate_dense_deltas: every point gets old (+) Fixed::from_i32(d) * scalar on x and on y
   ((+) = wrapping add); for an i16 delta that product is EXACTLY d * scalar — no rounding — so without
   wrap-around the new value is old + d * scalar *)
Theorem c10_accumulate_dense_spec : forall s xs ys acc,
  length xs = length acc -> length ys = length acc ->
  length (accumulate_dense s xs ys acc) = length acc
  /\ forall i x y dx dy, nth_error acc i = Some (x, y) -> nth_error xs i = Some dx -> nth_error ys i = Some dy ->
       nth_error (accumulate_dense s xs ys acc) i = Some (acc_add x s dx, acc_add y s dy)
       /\ (i16 dx -> i16 dy -> i32 (dx * s) -> i32 (dy * s) -> i32 (x + dx * s) -> i32 (y + dy * s) ->
           nth_error (accumulate_dense s xs ys acc) i = Some (x + dx * s, y + dy * s)).
Proof. exact accumulate_dense_spec. Qed.

(* (2b) accumulate_sparse_deltas: unreferenced entries (and their flags) are untouched; with a duplicate-free
   point list the k-th referenced point gets the same update as in the dense case plus the HAS_DELTA marker;
   the buffer length never changes (point numbers beyond it are ignored) *)
Theorem c10_accumulate_sparse_spec : forall s pts xs ys acc,
  length (accumulate_sparse s pts xs ys acc) = length acc
  /\ (forall i, ~ In (Z.of_nat i) pts ->
        nth_error (accumulate_sparse s pts xs ys acc) i = nth_error acc i)
  /\ (forall k i x y fl dx dy, NoDup pts ->
        nth_error pts k = Some (Z.of_nat i) -> nth_error xs k = Some dx -> nth_error ys k = Some dy ->
        nth_error acc i = Some (x, y, fl) ->
        nth_error (accumulate_sparse s pts xs ys acc) i = Some (acc_add x s dx, acc_add y s dy, true)
        /\ (i16 dx -> i16 dy -> i32 (dx * s) -> i32 (dy * s) -> i32 (x + dx * s) -> i32 (y + dy * s) ->
            nth_error (accumulate_sparse s pts xs ys acc) i = Some (x + dx * s, y + dy * s, true))).
Proof. exact accumulate_sparse_spec. Qed.

Theorem c10_scale_delta_exact : forall s d, i16 d -> i32 (d * s) -> scale_delta s d = d * s.
Proof. exact scale_delta_exact. Qed.

(* (2c) accumulating a LIST of tuples (dense and sparse mixed, any scalars, any deltas, duplicates and
   out-of-range point numbers allowed, wrap-around allowed) is a fold whose result is bit-for-bit independent
   of the order of the tuples: the fixed-point rounding does not get in the way because nothing is rounded
   against the accumulator *)
Theorem c10_accumulate_order_independent : forall ts1 ts2, Permutation ts1 ts2 ->
  forall acc, apply_tuples ts1 acc = apply_tuples ts2 acc.
Proof. exact apply_tuples_perm. Qed.

Print Assumptions c10_compute_scalar_spec.
Print Assumptions c10_compute_scalar_zero_outside.
Print Assumptions c10_compute_scalar_one_at_peak.
Print Assumptions c10_compute_scalar_single_axis.
Print Assumptions c10_accumulate_dense_spec.
Print Assumptions c10_accumulate_sparse_spec.
Print Assumptions c10_scale_delta_exact.
Print Assumptions c10_accumulate_order_independent.
