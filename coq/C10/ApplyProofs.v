(* C10 (round 7) — lemmas about the application side of gvar (ApplyModel.v): tent scalar of
   TupleVariation::compute_scalar, accumulate_dense/sparse_deltas, order independence. *)
From Coq Require Import ZArith Lia List Bool Permutation.
From Coq Require Import ZifyBool.
From FV Require Import Lib.RustInt C15.Model C15.Proofs C11.TentProofs C10.ApplyModel.
Import ListNotations.
Open Scope Z_scope.
Ltac Zify.zify_post_hook ::= Z.div_mod_to_equations.

(* ================= 1. compute_scalar ================= *)

(* specification: the OpenType tent of one axis as an exact fraction n/d (None = outside the tent, the tuple
   does not apply), on raw F2Dot14 values.  As in the Rust (and FreeType's ft_var_apply_tuple) an
   intermediate region is NOT validated: start > peak, peak > end or start < 0 < end are interpolated as
   written (compute_scalar_f32 / the spec would ignore such an axis). *)
Definition gv_frac (c p : Z) (im : option (Z * Z)) : option (Z * Z) :=
  if p =? 0 then Some (1, 1)
  else if p =? c then Some (1, 1)
  else if c =? 0 then None
  else match im with
       | Some (s, e) =>
           if (c <=? s) || (e <=? c) then None
           else if c <? p then Some (c - s, p - s) else Some (e - c, e - p)
       | None =>
           if (c <? Z.min p 0) || (Z.max p 0 <? c) then None else Some (Z.abs c, Z.abs p)
       end.

(* product over the axes, one rounding (half away from zero) per interpolating axis *)
Fixpoint gv_spec (axes : list gaxis) (coords : list Z) (sc : Z) : option Z :=
  match axes with
  | [] => Some sc
  | (p, im) :: rest =>
      match gv_frac (match coords with c :: _ => c | [] => 0 end) p im with
      | None => None
      | Some (n, d) => gv_spec rest (tl coords) (rha (sc * n) d)
      end
  end.

Definition gaxis16 (a : gaxis) : Prop :=
  i16 (fst a) /\ match snd a with Some (s, e) => i16 s /\ i16 e | None => True end.

Lemma gv_frac_wf c p im n d : gv_frac c p im = Some (n, d) -> 0 < n /\ n <= d.
Proof.
  unfold gv_frac. intros H.
  destruct (p =? 0) eqn:E0; [injection H as <- <-; lia|].
  destruct (p =? c) eqn:E1; [injection H as <- <-; lia|].
  destruct (c =? 0) eqn:E2; [discriminate|].
  destruct im as [[s e]|].
  - destruct ((c <=? s) || (e <=? c)) eqn:E3; [discriminate|].
    destruct (c <? p) eqn:E4; injection H as <- <-; lia.
  - destruct ((c <? Z.min p 0) || (Z.max p 0 <? c)) eqn:E3; [discriminate|].
    injection H as <- <-; lia.
Qed.

Lemma rha_same_sign sc c p : 0 <= sc -> p <> 0 -> (0 <= c /\ 0 < p) \/ (c <= 0 /\ p < 0) ->
  rha (sc * c) p = rha (sc * Z.abs c) (Z.abs p).
Proof.
  intros Hs Hp [[Hc Hp']|[Hc Hp']].
  - rewrite (Z.abs_eq c), (Z.abs_eq p) by lia. reflexivity.
  - rewrite (Z.abs_neq c), (Z.abs_neq p) by lia.
    replace p with (- (- p)) at 1 by lia. rewrite rha_opp_r.
    replace (sc * c) with (- (sc * - c)) by lia. rewrite rha_opp_l by lia. lia.
Qed.

Lemma rha4 sc n d : d <> 0 -> rha (sc * (4 * n)) (4 * d) = rha (sc * n) d.
Proof. intros. replace (sc * (4 * n)) with (4 * (sc * n)) by lia. apply rha_scale; lia. Qed.

Lemma gv_axis_spec sc c p im : i16 c -> gaxis16 (p, im) -> 0 <= sc <= 65536 ->
  gv_axis sc (f2dot14_to_fixed c) (f2dot14_to_fixed p) (im_to_fixed im)
  = match gv_frac c p im with None => None | Some (n, d) => Some (rha (sc * n) d) end.
Proof.
  intros Hc [Hp Him] Hsc. cbn [fst snd] in *. unfold i16 in *.
  unfold gv_axis, gv_frac, f2dot14_to_fixed.
  replace (p * 4 =? 0) with (p =? 0) by lia.
  destruct (p =? 0) eqn:E0. { rewrite Z.mul_1_r, rha_one. reflexivity. }
  replace (p * 4 =? c * 4) with (p =? c) by lia.
  destruct (p =? c) eqn:E1. { rewrite Z.mul_1_r, rha_one. reflexivity. }
  replace (c * 4 =? 0) with (c =? 0) by lia.
  destruct (c =? 0) eqn:E2; [reflexivity|].
  destruct im as [[s e]|]; cbn [im_to_fixed].
  - destruct Him as [Hs He]. unfold f2dot14_to_fixed.
    replace (c * 4 <=? s * 4) with (c <=? s) by lia. replace (e * 4 <=? c * 4) with (e <=? c) by lia.
    destruct ((c <=? s) || (e <=? c)) eqn:E3; [reflexivity|].
    replace (c * 4 <? p * 4) with (c <? p) by lia.
    destruct (c <? p) eqn:E4; f_equal; unfold fx_sub; rewrite !wrap_s32_id by (unfold i32; lia).
    + pose proof (rha_frac_range sc (c - s) (p - s)) as HR.
      replace (c * 4 - s * 4) with (4 * (c - s)) by lia. replace (p * 4 - s * 4) with (4 * (p - s)) by lia.
      pose proof (rha4 sc (c - s) (p - s) ltac:(lia)) as H4.
      rewrite fixed_mul_div_spec; unfold i32; try lia; rewrite H4; lia.
    + pose proof (rha_frac_range sc (e - c) (e - p)) as HR.
      replace (e * 4 - c * 4) with (4 * (e - c)) by lia. replace (e * 4 - p * 4) with (4 * (e - p)) by lia.
      pose proof (rha4 sc (e - c) (e - p) ltac:(lia)) as H4.
      rewrite fixed_mul_div_spec; unfold i32; try lia; rewrite H4; lia.
  - replace (c * 4 <? Z.min (p * 4) 0) with (c <? Z.min p 0) by lia.
    replace (Z.max (p * 4) 0 <? c * 4) with (Z.max p 0 <? c) by lia.
    destruct ((c <? Z.min p 0) || (Z.max p 0 <? c)) eqn:E3; [reflexivity|]. f_equal.
    pose proof (rha_frac_range sc (Z.abs c) (Z.abs p)) as HR.
    replace (c * 4) with (4 * c) by lia. replace (p * 4) with (4 * p) by lia.
    pose proof (rha4 sc c p ltac:(lia)) as H4.
    pose proof (rha_same_sign sc c p ltac:(lia) ltac:(lia) ltac:(lia)) as H5.
    rewrite fixed_mul_div_spec; unfold i32; try lia; rewrite H4, H5; lia.
Qed.

Lemma gv_go_spec axes : forall coords sc, Forall gaxis16 axes -> Forall i16 coords -> 0 <= sc <= 65536 ->
  gv_scalar_go axes coords sc = gv_spec axes coords sc
  /\ forall r, gv_spec axes coords sc = Some r -> 0 <= r <= sc.
Proof.
  induction axes as [|[p im] rest IH]; intros coords sc Hax Hco Hsc.
  - cbn. split; [reflexivity|]. intros r H; injection H as <-; lia.
  - inversion Hax as [|? ? Ha Hrest]; subst.
    cbn [gv_scalar_go gv_spec].
    set (c := match coords with c :: _ => c | [] => 0 end).
    assert (Hc : i16 c).
    { subst c. destruct coords; [unfold i16; lia|]. inversion Hco; assumption. }
    assert (Hcf : match coords with c0 :: _ => f2dot14_to_fixed c0 | [] => 0 end = f2dot14_to_fixed c).
    { subst c. destruct coords; reflexivity. }
    rewrite Hcf. rewrite gv_axis_spec by assumption.
    destruct (gv_frac c p im) as [[n d]|] eqn:E; [|split; [reflexivity|discriminate]].
    pose proof (gv_frac_wf _ _ _ _ _ E) as [Hn Hnd].
    pose proof (rha_frac_range sc n d ltac:(lia) ltac:(lia) Hnd ltac:(lia)) as HR.
    assert (Htl : Forall i16 (tl coords)) by (destruct coords; [constructor | inversion Hco; assumption]).
    destruct (IH (tl coords) (rha (sc * n) d) Hrest Htl ltac:(lia)) as [H1 H2].
    split; [exact H1|]. intros r Hr. specialize (H2 r Hr). lia.
Qed.

(* (1) compute_scalar = the specified product of tent fractions (None when outside a tent or rounded to 0),
   and a returned scalar lies in (0, ONE] *)
Lemma compute_scalar_spec axes coords : Forall gaxis16 axes -> Forall i16 coords ->
  gv_compute_scalar axes coords
  = match gv_spec axes coords 65536 with
    | Some r => if r =? 0 then None else Some r
    | None => None
    end
  /\ (forall v, gv_compute_scalar axes coords = Some v -> 0 < v <= 65536).
Proof.
  intros Ha Hc. destruct (gv_go_spec axes coords 65536 Ha Hc ltac:(lia)) as [H1 H2].
  unfold gv_compute_scalar. rewrite H1. split; [reflexivity|].
  intros v. destruct (gv_spec axes coords 65536) as [r|]; [|discriminate].
  specialize (H2 r eq_refl). destruct (r =? 0) eqn:E; [discriminate|]. intros H; injection H as <-. lia.
Qed.

Lemma nth_tl (l : list Z) n : nth n (tl l) 0 = nth (S n) l 0.
Proof. destruct l; [destruct n; reflexivity | reflexivity]. Qed.
Lemma hd_nth (l : list Z) : match l with c :: _ => c | [] => 0 end = nth 0 l 0.
Proof. destruct l; reflexivity. Qed.

(* None as soon as the coordinate of one axis lies outside that axis' tent *)
Lemma gv_spec_outside pre : forall p im post coords sc,
  gv_frac (nth (length pre) coords 0) p im = None -> gv_spec (pre ++ (p, im) :: post) coords sc = None.
Proof.
  induction pre as [|[p0 im0] pre IH]; intros p im post coords sc H.
  - cbn [app gv_spec length] in *. rewrite hd_nth, H. reflexivity.
  - cbn [app gv_spec]. destruct (gv_frac _ p0 im0) as [[n d]|]; [|reflexivity].
    apply IH. rewrite nth_tl. exact H.
Qed.

Lemma compute_scalar_outside pre p im post coords :
  Forall gaxis16 (pre ++ (p, im) :: post) -> Forall i16 coords ->
  gv_frac (nth (length pre) coords 0) p im = None ->
  gv_compute_scalar (pre ++ (p, im) :: post) coords = None.
Proof.
  intros Ha Hc H. destruct (compute_scalar_spec _ _ Ha Hc) as [-> _].
  rewrite gv_spec_outside by assumption. reflexivity.
Qed.

(* ONE when every axis is either unused (peak 0) or exactly at its peak *)
Lemma gv_spec_at_peaks axes : forall coords sc,
  (forall i p im, nth_error axes i = Some (p, im) -> p = 0 \/ nth i coords 0 = p) ->
  gv_spec axes coords sc = Some sc.
Proof.
  induction axes as [|[p im] rest IH]; intros coords sc H; [reflexivity|].
  cbn [gv_spec]. rewrite hd_nth.
  assert (E : gv_frac (nth 0 coords 0) p im = Some (1, 1)).
  { unfold gv_frac. destruct (H O p im eq_refl) as [->| ->]; [reflexivity|].
    destruct (p =? 0); [reflexivity|]. rewrite Z.eqb_refl. reflexivity. }
  rewrite E, Z.mul_1_r, rha_one. apply IH. intros i p' im' Hi. rewrite nth_tl. apply (H (S i) p' im' Hi).
Qed.

Lemma compute_scalar_at_peaks axes coords : Forall gaxis16 axes -> Forall i16 coords ->
  (forall i p im, nth_error axes i = Some (p, im) -> p = 0 \/ nth i coords 0 = p) ->
  gv_compute_scalar axes coords = Some 65536.
Proof.
  intros Ha Hc H. destruct (compute_scalar_spec _ _ Ha Hc) as [-> _].
  rewrite gv_spec_at_peaks by assumption. reflexivity.
Qed.

(* a single interpolating axis: exactly n/d rounded half away from zero to 16.16 *)
Lemma compute_scalar_single p im c : gaxis16 (p, im) -> i16 c ->
  gv_compute_scalar [(p, im)] [c]
  = match gv_frac c p im with
    | Some (n, d) => let r := rha (65536 * n) d in if r =? 0 then None else Some r
    | None => None
    end.
Proof.
  intros Ha Hc.
  destruct (compute_scalar_spec [(p, im)] [c] (Forall_cons _ Ha (Forall_nil _)) (Forall_cons _ Hc (Forall_nil _)))
    as [-> _].
  cbn [gv_spec tl]. destruct (gv_frac c p im) as [[n d]|]; reflexivity.
Qed.

(* ================= 2. accumulation ================= *)

(* Fixed::from_i32(d) * scalar is EXACT (no rounding): the low 16 bits of from_i32(d) are zero *)
Lemma scale_delta_exact s d : i16 d -> i32 (d * s) -> scale_delta s d = d * s.
Proof.
  intros Hd Hds. unfold scale_delta, i16, i32 in *.
  assert (Hf : fixed_from_i32 d = d * 65536) by (apply fixed_from_i32_spec; lia).
  destruct (s =? 65536) eqn:E; [rewrite Hf; lia|].
  rewrite Hf.
  assert (Hr : rha (d * 65536 * s) 65536 = d * s).
  { replace (d * 65536 * s) with (65536 * (d * s)) by lia.
    replace 65536 with (65536 * 1) at 2 by lia. rewrite rha_scale by lia. apply rha_one. }
  rewrite fixed_mul_spec; rewrite Hr; [reflexivity | unfold i32; lia].
Qed.

Lemma acc_add_exact old s d : i16 d -> i32 (d * s) -> i32 (old + d * s) -> acc_add old s d = old + d * s.
Proof.
  intros. unfold acc_add, fx_add. rewrite scale_delta_exact by assumption. apply wrap_s32_id. assumption.
Qed.

(* ---- dense ---- *)
Definition dense_fn (s : Z) (xs ys : list Z) (i : nat) (a : Z * Z) : Z * Z :=
  let a1 := match nth_error xs i with Some d => (acc_add (fst a) s d, snd a) | None => a end in
  match nth_error ys i with Some d => (fst a1, acc_add (snd a1) s d) | None => a1 end.

Lemma dense_x_nth s : forall acc xs i,
  nth_error (dense_x s acc xs) i
  = option_map (fun a => match nth_error xs i with Some d => (acc_add (fst a) s d, snd a) | None => a end)
               (nth_error acc i).
Proof.
  induction acc as [|[x y] acc IH]; intros xs i.
  - cbn. destruct i; reflexivity.
  - destruct xs as [|d xs].
    + cbn [dense_x]. destruct (nth_error ((x, y) :: acc) i) as [[a b]|]; destruct i; reflexivity.
    + cbn [dense_x]. destruct i; [reflexivity|]. cbn [nth_error]. apply IH.
Qed.
Lemma dense_y_nth s : forall acc ys i,
  nth_error (dense_y s acc ys) i
  = option_map (fun a => match nth_error ys i with Some d => (fst a, acc_add (snd a) s d) | None => a end)
               (nth_error acc i).
Proof.
  induction acc as [|[x y] acc IH]; intros ys i.
  - cbn. destruct i; reflexivity.
  - destruct ys as [|d ys].
    + cbn [dense_y]. destruct (nth_error ((x, y) :: acc) i) as [[a b]|]; destruct i; reflexivity.
    + cbn [dense_y]. destruct i; [reflexivity|]. cbn [nth_error]. apply IH.
Qed.

Lemma accumulate_dense_nth s xs ys acc i :
  nth_error (accumulate_dense s xs ys acc) i = option_map (dense_fn s xs ys i) (nth_error acc i).
Proof.
  unfold accumulate_dense. rewrite dense_y_nth, dense_x_nth.
  destruct (nth_error acc i) as [a|]; reflexivity.
Qed.

Lemma nth_error_ext {A} (l1 l2 : list A) : (forall i, nth_error l1 i = nth_error l2 i) -> l1 = l2.
Proof.
  revert l2. induction l1 as [|a l1 IH]; intros [|b l2] H.
  - reflexivity.
  - specialize (H O). discriminate.
  - specialize (H O). discriminate.
  - f_equal; [specialize (H O); injection H; auto | apply IH; intros i; apply (H (S i))].
Qed.

Lemma length_by_nth_error {A B} (l1 : list A) (l2 : list B) (f : nat -> B -> A) :
  (forall i, nth_error l1 i = option_map (f i) (nth_error l2 i)) -> length l1 = length l2.
Proof.
  revert l2 f. induction l1 as [|a l1 IH]; intros [|b l2] f H.
  - reflexivity.
  - specialize (H O). discriminate.
  - specialize (H O). discriminate.
  - cbn. f_equal. apply (IH l2 (fun i => f (S i))). intros i. apply (H (S i)).
Qed.

(* (2a) dense: every point i gets exactly old + Fixed::from_i32(d_i) * scalar on x and on y, length kept *)
Lemma accumulate_dense_spec s xs ys acc :
  length xs = length acc -> length ys = length acc ->
  length (accumulate_dense s xs ys acc) = length acc
  /\ forall i x y dx dy, nth_error acc i = Some (x, y) -> nth_error xs i = Some dx -> nth_error ys i = Some dy ->
       nth_error (accumulate_dense s xs ys acc) i = Some (acc_add x s dx, acc_add y s dy)
       /\ (i16 dx -> i16 dy -> i32 (dx * s) -> i32 (dy * s) -> i32 (x + dx * s) -> i32 (y + dy * s) ->
           nth_error (accumulate_dense s xs ys acc) i = Some (x + dx * s, y + dy * s)).
Proof.
  intros Hx Hy. split.
  - apply (length_by_nth_error _ _ (dense_fn s xs ys)). intros i. apply accumulate_dense_nth.
  - intros i x y dx dy Ha Hdx Hdy.
    assert (E : nth_error (accumulate_dense s xs ys acc) i = Some (acc_add x s dx, acc_add y s dy)).
    { rewrite accumulate_dense_nth, Ha. cbn [option_map]. unfold dense_fn. rewrite Hdx, Hdy. reflexivity. }
    split; [exact E|]. intros. rewrite E. rewrite !acc_add_exact by assumption. reflexivity.
Qed.

(* ---- sparse ---- *)
Fixpoint pass_fn (g : Z -> spt -> spt) (i : Z) (pts ds : list Z) (a : spt) : spt :=
  match pts, ds with
  | p :: pts', d :: ds' => pass_fn g i pts' ds' (if p =? i then g d a else a)
  | _, _ => a
  end.

Lemma upd_nth_nth f : forall l n i,
  nth_error (upd_nth n f l) i = if Nat.eqb n i then option_map f (nth_error l i) else nth_error l i.
Proof.
  induction l as [|a l IH]; intros n i.
  - destruct n, i; cbn; try reflexivity. destruct (Nat.eqb n i); reflexivity.
  - destruct n, i; cbn [upd_nth nth_error Nat.eqb]; try reflexivity. apply IH.
Qed.

Lemma upd_at_nth p f l i :
  nth_error (upd_at p f l) i = if p =? Z.of_nat i then option_map f (nth_error l i) else nth_error l i.
Proof.
  unfold upd_at. destruct ((0 <=? p) && (p <? Z.of_nat (length l))) eqn:E.
  - rewrite upd_nth_nth. destruct (Nat.eqb (Z.to_nat p) i) eqn:E1.
    + apply Nat.eqb_eq in E1. replace (p =? Z.of_nat i) with true by lia. reflexivity.
    + apply Nat.eqb_neq in E1. replace (p =? Z.of_nat i) with false by lia. reflexivity.
  - destruct (p =? Z.of_nat i) eqn:E1; [|reflexivity].
    assert (Hn : nth_error l i = None) by (apply nth_error_None; lia). rewrite Hn. reflexivity.
Qed.

Lemma sparse_pass_nth g : forall pts ds acc i,
  nth_error (sparse_pass g pts ds acc) i = option_map (pass_fn g (Z.of_nat i) pts ds) (nth_error acc i).
Proof.
  induction pts as [|p pts IH]; intros ds acc i.
  - cbn. destruct (nth_error acc i); reflexivity.
  - destruct ds as [|d ds]; [cbn; destruct (nth_error acc i); reflexivity|].
    cbn [sparse_pass pass_fn]. rewrite IH, upd_at_nth.
    destruct (p =? Z.of_nat i); destruct (nth_error acc i); reflexivity.
Qed.

Definition sparse_fn (s : Z) (pts xs ys : list Z) (i : nat) (a : spt) : spt :=
  pass_fn (sp_add_y s) (Z.of_nat i) pts ys (pass_fn (sp_add_x s) (Z.of_nat i) pts xs a).

Lemma accumulate_sparse_nth s pts xs ys acc i :
  nth_error (accumulate_sparse s pts xs ys acc) i = option_map (sparse_fn s pts xs ys i) (nth_error acc i).
Proof.
  unfold accumulate_sparse. rewrite !sparse_pass_nth. destruct (nth_error acc i); reflexivity.
Qed.

Lemma pass_fn_notin g i : forall pts ds a, ~ In i pts -> pass_fn g i pts ds a = a.
Proof.
  induction pts as [|p pts IH]; intros ds a H; [reflexivity|].
  destruct ds as [|d ds]; [reflexivity|]. cbn [pass_fn].
  assert (p <> i) by (intros ->; apply H; left; reflexivity).
  replace (p =? i) with false by lia. apply IH. intros Hin; apply H; right; exact Hin.
Qed.

Lemma pass_fn_nodup g i : forall pts ds k d a, NoDup pts ->
  nth_error pts k = Some i -> nth_error ds k = Some d -> pass_fn g i pts ds a = g d a.
Proof.
  induction pts as [|p pts IH]; intros ds k d a Hnd Hp Hd; [destruct k; discriminate|].
  destruct ds as [|d0 ds]; [destruct k; discriminate|].
  inversion Hnd as [|? ? Hnin Hnd']; subst. cbn [pass_fn]. destruct k as [|k].
  - cbn in Hp, Hd. injection Hp as ->. injection Hd as ->. rewrite Z.eqb_refl.
    apply pass_fn_notin. exact Hnin.
  - cbn [nth_error] in Hp, Hd.
    assert (p <> i) by (intros ->; apply Hnin; eapply nth_error_In; exact Hp).
    replace (p =? i) with false by lia. eapply IH; eassumption.
Qed.

(* (2b) sparse: an unreferenced entry is untouched (also its flag); with a duplicate-free point list the k-th
   referenced point gets old + Fixed::from_i32(d_k) * scalar on x and y and the HAS_DELTA marker; point numbers
   beyond the buffer are ignored; the length never changes *)
Lemma accumulate_sparse_spec s pts xs ys acc :
  length (accumulate_sparse s pts xs ys acc) = length acc
  /\ (forall i, ~ In (Z.of_nat i) pts ->
        nth_error (accumulate_sparse s pts xs ys acc) i = nth_error acc i)
  /\ (forall k i x y fl dx dy, NoDup pts ->
        nth_error pts k = Some (Z.of_nat i) -> nth_error xs k = Some dx -> nth_error ys k = Some dy ->
        nth_error acc i = Some (x, y, fl) ->
        nth_error (accumulate_sparse s pts xs ys acc) i = Some (acc_add x s dx, acc_add y s dy, true)
        /\ (i16 dx -> i16 dy -> i32 (dx * s) -> i32 (dy * s) -> i32 (x + dx * s) -> i32 (y + dy * s) ->
            nth_error (accumulate_sparse s pts xs ys acc) i = Some (x + dx * s, y + dy * s, true))).
Proof.
  split; [|split].
  - apply (length_by_nth_error _ _ (sparse_fn s pts xs ys)). intros i. apply accumulate_sparse_nth.
  - intros i Hn. rewrite accumulate_sparse_nth. unfold sparse_fn. destruct (nth_error acc i) as [a|]; [|reflexivity].
    cbn [option_map]. rewrite !pass_fn_notin by assumption. reflexivity.
  - intros k i x y fl dx dy Hnd Hp Hdx Hdy Ha.
    assert (E : nth_error (accumulate_sparse s pts xs ys acc) i = Some (acc_add x s dx, acc_add y s dy, true)).
    { rewrite accumulate_sparse_nth, Ha. cbn [option_map]. unfold sparse_fn.
      rewrite (pass_fn_nodup _ _ pts xs k dx) by assumption.
      rewrite (pass_fn_nodup _ _ pts ys k dy) by assumption. reflexivity. }
    split; [exact E|]. intros. rewrite E, !acc_add_exact by assumption. reflexivity.
Qed.

(* ---- order independence ---- *)
(* every per-entry effect of a tuple has the shape  (x, y, fl) |-> (x (+) cx, y (+) cy, fl || b)  where
   (+) is wrapping addition (None = untouched); such maps commute because wrapping_add is associative and
   commutative and Fixed::from_i32(d) * scalar does not depend on the accumulator *)
Definition appw (c : option Z) (x : Z) : Z := match c with Some c => wrap_s 32 (x + c) | None => x end.
Definition shape (cx cy : option Z) (b : bool) (a : spt) : spt :=
  let '(x, y, fl) := a in (appw cx x, appw cy y, fl || b).
Definition comb (c1 c2 : option Z) : option Z :=
  match c1, c2 with Some a, Some b => Some (a + b) | None, o => o | o, None => o end.

Lemma wrap_s32_add_l a b : wrap_s 32 (wrap_s 32 a + b) = wrap_s 32 (a + b).
Proof. unfold wrap_s. change (2 ^ 32) with 4294967296. change (2 ^ (32 - 1)) with 2147483648. lia. Qed.

Lemma appw_comb c1 c2 x : appw c2 (appw c1 x) = appw (comb c1 c2) x.
Proof.
  destruct c1 as [a|], c2 as [b|]; cbn [appw comb]; try reflexivity.
  rewrite wrap_s32_add_l. f_equal. lia.
Qed.

Lemma shape_comp cx cy b cx' cy' b' a :
  shape cx' cy' b' (shape cx cy b a) = shape (comb cx cx') (comb cy cy') (b || b') a.
Proof. destruct a as [[x y] fl]. cbn [shape]. rewrite !appw_comb, orb_assoc. reflexivity. Qed.

Lemma comb_comm c1 c2 : comb c1 c2 = comb c2 c1.
Proof. destruct c1, c2; cbn; try reflexivity. f_equal. lia. Qed.

Definition is_shape (f : spt -> spt) : Prop := exists cx cy b, forall a, f a = shape cx cy b a.

Lemma is_shape_id : is_shape (fun a => a).
Proof. exists None, None, false. intros [[x y] fl]. cbn. rewrite orb_false_r. reflexivity. Qed.

Lemma is_shape_comp f g : is_shape f -> is_shape g -> is_shape (fun a => g (f a)).
Proof.
  intros [cx [cy [b Hf]]] [cx' [cy' [b' Hg]]]. eexists _, _, _. intros a. rewrite Hf, Hg. apply shape_comp.
Qed.

Lemma is_shape_commute f g : is_shape f -> is_shape g -> forall a, f (g a) = g (f a).
Proof.
  intros [cx [cy [b Hf]]] [cx' [cy' [b' Hg]]] a. rewrite !Hf, !Hg, !shape_comp.
  rewrite (comb_comm cx cx'), (comb_comm cy cy'), (orb_comm b b'). reflexivity.
Qed.

Lemma is_shape_ext f g : (forall a, f a = g a) -> is_shape f -> is_shape g.
Proof. intros H [cx [cy [b Hf]]]. exists cx, cy, b. intros a. rewrite <- H. apply Hf. Qed.

Lemma sp_add_x_shape s d : is_shape (sp_add_x s d).
Proof.
  exists (Some (scale_delta s d)), None, true. intros [[x y] fl]. cbn. rewrite orb_true_r. reflexivity.
Qed.
Lemma sp_add_y_shape s d : is_shape (sp_add_y s d).
Proof.
  exists None, (Some (scale_delta s d)), false. intros [[x y] fl]. cbn. rewrite orb_false_r. reflexivity.
Qed.

Lemma pass_fn_shape g i : (forall d, is_shape (g d)) -> forall pts ds, is_shape (pass_fn g i pts ds).
Proof.
  intros Hg. induction pts as [|p pts IH]; intros ds; [apply is_shape_id|].
  destruct ds as [|d ds]; [apply is_shape_id|]. cbn [pass_fn].
  destruct (p =? i).
  - apply (is_shape_comp (g d) (pass_fn g i pts ds)); [apply Hg | apply IH].
  - apply IH.
Qed.

(* per-entry effect of a tuple *)
Definition dense_sp_fn (s : Z) (xs ys : list Z) (i : nat) (a : spt) : spt :=
  let r := dense_fn s xs ys i (fst a) in (fst r, snd r, snd a).
Definition tuple_fn (t : atuple) (i : nat) : spt -> spt :=
  let '(s, pts, xs, ys) := t in
  match pts with Some pts => sparse_fn s pts xs ys i | None => dense_sp_fn s xs ys i end.

Lemma dense_as_sparse_nth s xs ys acc i :
  nth_error (dense_as_sparse s xs ys acc) i = option_map (dense_sp_fn s xs ys i) (nth_error acc i).
Proof.
  unfold dense_as_sparse.
  assert (Hl : length (accumulate_dense s xs ys (map fst acc)) = length (map snd acc)).
  { rewrite (length_by_nth_error _ (map fst acc) (dense_fn s xs ys)) by (intros; apply accumulate_dense_nth).
    rewrite !map_length. reflexivity. }
  destruct (nth_error acc i) as [a|] eqn:Ea.
  - assert (H1 : nth_error (accumulate_dense s xs ys (map fst acc)) i = Some (dense_fn s xs ys i (fst a))).
    { rewrite accumulate_dense_nth. rewrite (map_nth_error fst i acc Ea). reflexivity. }
    assert (H2 : nth_error (map snd acc) i = Some (snd a)) by (apply map_nth_error; exact Ea).
    rewrite nth_error_map.
    assert (H3 : nth_error (combine (accumulate_dense s xs ys (map fst acc)) (map snd acc)) i
                 = Some (dense_fn s xs ys i (fst a), snd a)).
    { revert H1 H2. generalize (accumulate_dense s xs ys (map fst acc)) (map snd acc) (dense_fn s xs ys i (fst a)) (snd a).
      clear. revert i. induction i as [|i IH]; intros [|u l1] [|v l2] r b H1 H2; try discriminate.
      - cbn in *. injection H1 as ->. injection H2 as ->. reflexivity.
      - cbn in *. apply IH; assumption. }
    rewrite H3. reflexivity.
  - cbn [option_map]. apply nth_error_None. rewrite map_length, combine_length, Hl, Nat.min_id, map_length.
    apply nth_error_None. exact Ea.
Qed.

Lemma apply_tuple_nth acc t i : nth_error (apply_tuple acc t) i = option_map (tuple_fn t i) (nth_error acc i).
Proof.
  destruct t as [[[s [pts|]] xs] ys]; cbn [apply_tuple tuple_fn].
  - apply accumulate_sparse_nth.
  - apply dense_as_sparse_nth.
Qed.

Lemma dense_sp_fn_shape s xs ys i : is_shape (dense_sp_fn s xs ys i).
Proof.
  exists (option_map (scale_delta s) (nth_error xs i)), (option_map (scale_delta s) (nth_error ys i)), false.
  intros [[x y] fl]. unfold dense_sp_fn, dense_fn. cbn [fst snd shape].
  rewrite orb_false_r.
  destruct (nth_error xs i), (nth_error ys i); reflexivity.
Qed.

Lemma tuple_fn_shape t i : is_shape (tuple_fn t i).
Proof.
  destruct t as [[[s [pts|]] xs] ys]; cbn [tuple_fn].
  - unfold sparse_fn.
    apply (is_shape_comp (pass_fn (sp_add_x s) (Z.of_nat i) pts xs) (pass_fn (sp_add_y s) (Z.of_nat i) pts ys));
      apply pass_fn_shape; intros d; [apply sp_add_x_shape | apply sp_add_y_shape].
  - apply dense_sp_fn_shape.
Qed.

Lemma apply_tuple_commute acc t1 t2 :
  apply_tuple (apply_tuple acc t1) t2 = apply_tuple (apply_tuple acc t2) t1.
Proof.
  apply nth_error_ext. intros i. rewrite !apply_tuple_nth.
  destruct (nth_error acc i) as [a|]; [|reflexivity]. cbn [option_map]. f_equal.
  apply is_shape_commute; apply tuple_fn_shape.
Qed.

(* (2c) the accumulator after a LIST of tuples (skrifa's loop over the applicable tuples) does not depend on
   the order of the tuples — exactly, bit for bit, with no range hypothesis at all: accumulation never rounds
   against the accumulator and wrapping addition is commutative *)
Lemma apply_tuples_perm ts1 ts2 : Permutation ts1 ts2 -> forall acc, apply_tuples ts1 acc = apply_tuples ts2 acc.
Proof.
  unfold apply_tuples. induction 1; intros acc; cbn [fold_left].
  - reflexivity.
  - apply IHPermutation.
  - rewrite apply_tuple_commute. reflexivity.
  - rewrite IHPermutation1. apply IHPermutation2.
Qed.
