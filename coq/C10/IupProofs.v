(* C10 — lemmas about the structural IUP optimiser of Model.v, for EVERY kernel (me, ci_rot, ci_dbl). *)
From Coq Require Import ZArith Lia List Bool.
From Coq Require Import ZifyBool.
From FV Require Import Lib.RustInt C10.Model.
Import ListNotations.
Open Scope Z_scope.

(* index bookkeeping of `rotate_right(mid)` / `(idx + mid) % n` / `(idx + n - mid) % n` *)
Definition rot (n mid p : nat) : nat := ((p + mid) mod n)%nat.
Definition unrot (n mid k : nat) : nat := ((k + n - mid) mod n)%nat.

Lemma mod_sub_once a n : (0 < n)%nat -> (n <= a < 2 * n)%nat -> (a mod n = a - n)%nat.
Proof.
  intros Hn Ha. replace a with ((a - n) + 1 * n)%nat at 1 by lia.
  rewrite Nat.mod_add by lia. apply Nat.mod_small. lia.
Qed.

Lemma unrot_rot n mid p : (mid < n)%nat -> (p < n)%nat -> unrot n mid (rot n mid p) = p.
Proof.
  intros Hm Hp. unfold rot, unrot.
  destruct (Nat.ltb (p + mid) n) eqn:E.
  - apply Nat.ltb_lt in E. rewrite (Nat.mod_small (p + mid)) by lia.
    replace (p + mid + n - mid)%nat with (p + n)%nat by lia.
    rewrite mod_sub_once by lia. lia.
  - apply Nat.ltb_ge in E. rewrite (mod_sub_once (p + mid)) by lia.
    replace (p + mid - n + n - mid)%nat with p by lia. apply Nat.mod_small. lia.
Qed.

Lemma rot_unrot n mid k : (mid < n)%nat -> (k < n)%nat -> rot n mid (unrot n mid k) = k.
Proof.
  intros Hm Hk. unfold rot, unrot.
  destruct (Nat.ltb (k + n - mid) n) eqn:E.
  - apply Nat.ltb_lt in E. rewrite (Nat.mod_small (k + n - mid)) by lia.
    replace (k + n - mid + mid)%nat with (k + n)%nat by lia. rewrite mod_sub_once by lia. lia.
  - apply Nat.ltb_ge in E. rewrite (mod_sub_once (k + n - mid)) by lia.
    replace (k + n - mid - n + mid)%nat with k by lia. apply Nat.mod_small. lia.
Qed.

Lemma rot_lt n mid p : (0 < n)%nat -> (rot n mid p < n)%nat.
Proof. intros. unfold rot. apply Nat.mod_upper_bound. lia. Qed.
Lemma unrot_lt n mid k : (0 < n)%nat -> (unrot n mid k < n)%nat.
Proof. intros. unfold unrot. apply Nat.mod_upper_bound. lia. Qed.

(* rotate_right(mid) moves the element at index p to index rot p *)
Lemma rotate_right_nth {A} (d : A) (l : list A) mid p :
  (mid <= length l)%nat -> (p < length l)%nat ->
  nth (rot (length l) mid p) (rotate_right mid l) d = nth p l d.
Proof.
  intros Hm Hp. unfold rotate_right, rot.
  assert (Hsplit : forall k, nth p l d = nth p (firstn k l ++ skipn k l) d) by (intros; rewrite firstn_skipn; reflexivity).
  destruct (Nat.ltb (p + mid) (length l)) eqn:E.
  - apply Nat.ltb_lt in E. rewrite Nat.mod_small by lia.
    rewrite app_nth2 by (rewrite skipn_length; lia). rewrite skipn_length.
    rewrite (Hsplit (length l - mid)%nat). rewrite app_nth1 by (rewrite firstn_length; lia).
    f_equal. lia.
  - apply Nat.ltb_ge in E.
    rewrite mod_sub_once by lia.
    rewrite app_nth1 by (rewrite skipn_length; lia).
    rewrite (Hsplit (length l - mid)%nat). rewrite app_nth2 by (rewrite firstn_length; lia).
    rewrite firstn_length. f_equal. lia.
Qed.

Lemma mem_nat_In x l : mem_nat x l = true <-> In x l.
Proof.
  unfold mem_nat. rewrite existsb_exists. split.
  - intros (y & Hy & E). apply Nat.eqb_eq in E. subst. exact Hy.
  - intros H. exists x. split; [exact H|apply Nat.eqb_refl].
Qed.

Section Structure.
  Context (must : nat -> bool) (ci : Z -> nat -> bool) (lookback : Z).

  (* what a chain entry means: the previous retained point of k, with the kernel's consent for the gap *)
  Definition chain_ok (k : nat) (c : option nat) : Prop :=
    match c with
    | Some j => (j < k)%nat /\ (S j = k \/ ci (Z.of_nat j) k = true)
    | None => k = O \/ ci (-1) k = true
    end.

  Lemma dp_inner_ok costs i : forall js best ch,
    Forall (fun j => -1 <= j <= Z.of_nat i - 2) js -> chain_ok i ch ->
    chain_ok i (snd (dp_inner must ci costs i js best ch)).
  Proof.
    induction js as [|j rest IH]; intros best ch HF Hc; [exact Hc|].
    inversion HF as [|? ? Hj Hrest]; subst. cbn [dp_inner].
    set (cost := if 0 <=? j then nth (Z.to_nat j) costs 0 + 1 else 1).
    assert (Hnew : (cost <? best) && ci j i = true ->
                   chain_ok i (if 0 <=? j then Some (Z.to_nat j) else None)).
    { intros Hb. apply andb_true_iff in Hb. destruct Hb as (_ & Hci).
      destruct (0 <=? j) eqn:E; cbn [chain_ok].
      - split; [lia|]. right. rewrite Z2Nat.id by lia. exact Hci.
      - right. replace j with (-1) in Hci by lia. exact Hci. }
    destruct ((cost <? best) && ci j i) eqn:Eb.
    - destruct (if 0 <=? j then must (Z.to_nat j) else false).
      + cbn [snd]. apply Hnew. reflexivity.
      + apply IH; [exact Hrest|apply Hnew; reflexivity].
    - destruct (if 0 <=? j then must (Z.to_nat j) else false).
      + exact Hc.
      + apply IH; assumption.
  Qed.

  Lemma zdesc_range hi lo : Forall (fun j => lo <= j <= hi) (zdesc hi lo).
  Proof.
    unfold zdesc. apply Forall_forall. intros x Hx. apply in_map_iff in Hx.
    destruct Hx as (k & <- & Hk). apply in_seq in Hk. lia.
  Qed.

  Lemma dp_js_range i : Forall (fun j => -1 <= j <= Z.of_nat i - 2) (dp_js lookback i).
  Proof.
    unfold dp_js. eapply Forall_impl; [|apply zdesc_range]. cbv beta. intros j Hj. lia.
  Qed.

  Lemma dp_outer_ok : forall m costs chain,
    (forall k, (k < length chain)%nat -> chain_ok k (nth k chain None)) ->
    let r := dp_outer must ci lookback (seq (length chain) m) costs chain in
    length (snd r) = (length chain + m)%nat /\
    forall k, (k < length (snd r))%nat -> chain_ok k (nth k (snd r) None).
  Proof.
    induction m as [|m IH]; intros costs chain Hok; cbv zeta.
    - cbn [seq dp_outer snd]. split; [lia|exact Hok].
    - cbn [seq dp_outer]. set (i := length chain).
      set (ch0 := if Nat.eqb i 0 then None else Some (i - 1)%nat).
      assert (Hch0 : chain_ok i ch0).
      { subst ch0. destruct (Nat.eqb i 0) eqn:E; cbn [chain_ok].
        - left. apply Nat.eqb_eq. exact E.
        - apply Nat.eqb_neq in E. split; [lia|left; lia]. }
      assert (Hext : forall c cs, chain_ok i c ->
                let r := dp_outer must ci lookback (seq (S i) m) cs (chain ++ [c]) in
                length (snd r) = (i + S m)%nat /\
                forall k, (k < length (snd r))%nat -> chain_ok k (nth k (snd r) None)).
      { intros c cs Hc. cbv zeta.
        assert (Hl : length (chain ++ [c]) = S i) by (rewrite app_length; cbn; lia).
        specialize (IH cs (chain ++ [c])). rewrite Hl in IH. cbv zeta in IH.
        destruct IH as (A & B).
        - intros k Hk. destruct (Nat.eq_dec k i) as [->|Hne].
          + rewrite app_nth2 by lia. replace (i - length chain)%nat with O by lia. exact Hc.
          + rewrite app_nth1 by lia. apply Hok. lia.
        - split; [lia|exact B]. }
      destruct (negb (Nat.eqb i 0) && must (i - 1)%nat).
      + apply Hext. exact Hch0.
      + destruct (dp_inner must ci costs i (dp_js lookback i) _ ch0) as (b, c) eqn:Ed.
        apply Hext.
        pose proof (dp_inner_ok costs i (dp_js lookback i)
                      ((if Nat.eqb i 0 then 0 else nth (i - 1) costs 0) + 1) ch0 (dp_js_range i) Hch0) as H.
        rewrite Ed in H. exact H.
  Qed.

  Lemma iup_dp_ok n :
    let chain := snd (iup_dp must ci lookback n) in
    length chain = n /\ forall k, (k < n)%nat -> chain_ok k (nth k chain None).
  Proof.
    cbv zeta. unfold iup_dp. destruct (Nat.ltb n 2) eqn:E.
    - cbn [snd]. split; [rewrite map_length, seq_length; reflexivity|].
      intros k Hk.
      rewrite (nth_indep _ None (if Nat.eqb k 0 then None else Some (k - 1)%nat))
        by (rewrite map_length, seq_length; exact Hk).
      rewrite (map_nth (fun i => if Nat.eqb i 0 then None else Some (i - 1)%nat) (seq 0 n) k k) at 1.
      rewrite seq_nth by exact Hk. cbn [Nat.add].
      destruct (Nat.eqb k 0) eqn:Ek; cbn [chain_ok].
      + left. apply Nat.eqb_eq. exact Ek.
      + apply Nat.eqb_neq in Ek. split; [lia|left; lia].
    - pose proof (dp_outer_ok n [] []) as H. cbn [length] in H. cbv zeta in H.
      destruct H as (A & B); [intros k Hk; lia|].
      split; [lia|]. intros k Hk. apply B. lia.
  Qed.

  (* ---- walking the chain ---- *)
  Context (chain : list (option nat))
          (Hchain : forall k, (k < length chain)%nat -> chain_ok k (nth k chain None)).

  Lemma walk_le : forall fuel i, (i < length chain)%nat ->
    forall x, In x (walk_chain fuel chain i) -> (x <= i)%nat.
  Proof.
    induction fuel as [|f IH]; intros i Hi x Hx; cbn [walk_chain] in Hx.
    - destruct Hx as [<-|[]]. lia.
    - destruct Hx as [<-|Hx]; [lia|].
      pose proof (Hchain i Hi) as Hc. destruct (nth i chain None) as [j|]; [|destruct Hx].
      cbn [chain_ok] in Hc. specialize (IH j ltac:(lia) x Hx). lia.
  Qed.

  Definition gap (E : list nat) (p : nat) : Prop :=
    exists (from : Z) (to : nat),
      -1 <= from /\ from < Z.of_nat p < Z.of_nat to /\ ci from to = true /\ In to E
      /\ (from = -1 \/ In (Z.to_nat from) E)
      /\ forall q, from < Z.of_nat q < Z.of_nat to -> ~ In q E.

  Lemma gap_cons E p i : (forall x, In x E -> (x < i)%nat) -> gap E p -> gap (i :: E) p.
  Proof.
    intros Hlt (from & to & A & B & C & D & F & G). exists from, to. repeat split; try assumption; try lia.
    - right. exact D.
    - destruct F as [F|F]; [left; exact F|right; right; exact F].
    - intros q Hq [<-|Hin]; [specialize (Hlt to D); lia|exact (G q Hq Hin)].
  Qed.

  Lemma walk_cover : forall fuel i, (i < length chain)%nat -> (i <= fuel)%nat ->
    forall p, (p <= i)%nat -> In p (walk_chain fuel chain i) \/ gap (walk_chain fuel chain i) p.
  Proof.
    induction fuel as [|f IH]; intros i Hi Hf p Hp.
    - left. cbn [walk_chain]. left. lia.
    - cbn [walk_chain]. destruct (Nat.eq_dec p i) as [->|Hne]; [left; left; reflexivity|].
      pose proof (Hchain i Hi) as Hc.
      destruct (nth i chain None) as [j|] eqn:Ej; cbn [chain_ok] in Hc.
      + destruct Hc as (Hji & Hc).
        assert (Hlt : forall x, In x (walk_chain f chain j) -> (x < i)%nat).
        { intros x Hx. pose proof (walk_le f j ltac:(lia) x Hx). lia. }
        destruct (Nat.leb p j) eqn:Epj.
        * apply Nat.leb_le in Epj.
          destruct (IH j ltac:(lia) ltac:(lia) p Epj) as [Hin|Hg].
          -- left. right. exact Hin.
          -- right. apply gap_cons; assumption.
        * apply Nat.leb_gt in Epj. destruct Hc as [Hc|Hc]; [lia|].
          right. exists (Z.of_nat j), i. repeat split; try lia; try assumption.
          -- left. reflexivity.
          -- right. right. rewrite Nat2Z.id. destruct f; cbn [walk_chain]; left; reflexivity.
          -- intros q Hq [<-|Hin]; [lia|]. pose proof (walk_le f j ltac:(lia) q Hin). lia.
      + destruct Hc as [->|Hc]; [lia|].
        right. exists (-1), i. repeat split; try lia; try assumption.
        * left. reflexivity.
        * intros q Hq [<-|[]]. lia.
  Qed.
End Structure.

(* ---------- the forced-point branch, in original indices ---------- *)
Lemma list_max_le l x : In x l -> (x <= list_max l)%nat.
Proof.
  unfold list_max. induction l as [|a l IH]; [intros []|].
  cbn [fold_right]. intros [->|H]; [lia|]. specialize (IH H). lia.
Qed.

Lemma list_max_bound l n : (forall x, In x l -> (x < n)%nat) -> (0 < n)%nat -> (list_max l < n)%nat.
Proof.
  unfold list_max. induction l as [|a l IH]; intros H Hn; [cbn; lia|].
  cbn [fold_right]. pose proof (H a (or_introl eq_refl)). specialize (IH (fun x Hx => H x (or_intror Hx)) Hn). lia.
Qed.

Definition retained_gap (n mid : nat) (ci : Z -> nat -> bool) (e : list nat) (p : nat) : Prop :=
  exists (from : Z) (to : nat),
    -1 <= from /\ from < Z.of_nat (rot n mid p) < Z.of_nat to /\ (to < n)%nat
    /\ ci from to = true
    /\ In (unrot n mid to) e
    /\ In (unrot n mid (Z.to_nat (from mod Z.of_nat n))) e
    /\ forall q, from < Z.of_nat q < Z.of_nat to -> ~ In (unrot n mid q) e.

Lemma encode_forced_sound (ci_rot : nat -> Z -> nat -> bool) n forced e :
  (0 < n)%nat -> (forall x, In x forced -> (x < n)%nat) ->
  encode_forced ci_rot n forced = Some e ->
  let mid := (n - 1 - list_max forced)%nat in
  (forall x, In x forced -> In x e)
  /\ In (unrot n mid (n - 1)) e
  /\ (forall x, In x e -> (x < n)%nat)
  /\ forall p, (p < n)%nat -> In p e \/ retained_gap n mid (ci_rot mid) e p.
Proof.
  intros Hn Hforced He. cbv zeta. unfold encode_forced in He.
  set (mid := (n - 1 - list_max forced)%nat) in *.
  set (must_rot := map (fun idx => ((idx + mid) mod n)%nat) forced) in *.
  assert (Hmid : (mid < n)%nat) by (subst mid; lia).
  pose proof (iup_dp_ok (fun k => mem_nat k must_rot) (ci_rot mid) (lookback_of n) n) as Hdp. cbv zeta in Hdp.
  destruct (iup_dp (fun k => mem_nat k must_rot) (ci_rot mid) (lookback_of n) n) as (costs, chain).
  cbn [snd] in Hdp. destruct Hdp as (Hlen & Hok).
  rewrite <- Hlen in Hok.
  set (E := walk_chain n chain (n - 1)) in *.
  destruct (forallb (fun k => mem_nat k E) must_rot) eqn:Esup; [|discriminate].
  inversion He as [He']. clear He.
  assert (HEle : forall x, In x E -> (x <= n - 1)%nat).
  { intros x Hx. eapply (walk_le (ci_rot mid) chain Hok n (n - 1)); [lia|exact Hx]. }
  assert (Hhead : In (n - 1)%nat E) by (subst E; destruct n; cbn [walk_chain]; left; reflexivity).
  assert (Hin_e : forall k, In k E -> In (unrot n mid k) (map (fun idx => ((idx + n - mid) mod n)%nat) E)).
  { intros k Hk. apply in_map_iff. exists k. split; [reflexivity|exact Hk]. }
  assert (Hnotin : forall q, (q < n)%nat -> ~ In q E ->
                   ~ In (unrot n mid q) (map (fun idx => ((idx + n - mid) mod n)%nat) E)).
  { intros q Hq Hnin Hin. apply in_map_iff in Hin. destruct Hin as (k & Hk & HkE).
    apply Hnin. assert (k = q); [|subst; exact HkE].
    rewrite <- (rot_unrot n mid k Hmid) by (specialize (HEle k HkE); lia).
    rewrite <- (rot_unrot n mid q Hmid Hq). unfold unrot. rewrite Hk. reflexivity. }
  split; [|split; [|split]].
  - intros x Hx. rewrite forallb_forall in Esup.
    assert (Hr : In (rot n mid x) must_rot) by (subst must_rot; apply in_map_iff; exists x; split; [reflexivity|exact Hx]).
    specialize (Esup _ Hr). apply mem_nat_In in Esup.
    rewrite <- (unrot_rot n mid x Hmid (Hforced x Hx)). apply Hin_e. exact Esup.
  - apply Hin_e. exact Hhead.
  - intros x Hx. apply in_map_iff in Hx. destruct Hx as (k & <- & _). apply Nat.mod_upper_bound. lia.
  - intros p Hp.
    destruct (walk_cover (ci_rot mid) chain Hok n (n - 1) ltac:(lia) ltac:(lia) (rot n mid p)) as [Hin|Hg].
    { pose proof (rot_lt n mid p Hn). lia. }
    + left. rewrite <- (unrot_rot n mid p Hmid Hp). apply Hin_e. exact Hin.
    + right. destruct Hg as (from & to & A & B & C & D & F & G).
      exists from, to. fold E in D, F, G.
      assert (Hto : (to < n)%nat) by (specialize (HEle to D); lia).
      repeat split; try assumption; try lia.
      * apply Hin_e. exact D.
      * apply Hin_e. destruct F as [-> | F].
        -- replace (Z.to_nat (-1 mod Z.of_nat n)) with (n - 1)%nat; [exact Hhead|].
           assert (-1 mod Z.of_nat n = Z.of_nat n - 1).
           { symmetry. apply (Z.mod_unique (-1) (Z.of_nat n) (-1)); lia. }
           lia.
        -- assert (0 <= from \/ from = -1) as [Hf | ->] by lia.
           ++ rewrite Z.mod_small by lia. exact F.
           ++ replace (Z.to_nat (-1 mod Z.of_nat n)) with (n - 1)%nat; [exact Hhead|].
              assert (-1 mod Z.of_nat n = Z.of_nat n - 1).
              { symmetry. apply (Z.mod_unique (-1) (Z.of_nat n) (-1)); lia. }
              lia.
      * intros q Hq. apply Hnotin; [lia|]. apply G. exact Hq.
Qed.

(* ---------- the mask of the general branch ---------- *)
Lemma mask_nth e n p : (p < n)%nat ->
  nth p (map (fun i => mem_nat i e) (seq 0 n)) false = true <-> In p e.
Proof.
  intros Hp. rewrite (nth_indep _ false (mem_nat 0 e)) by (rewrite map_length, seq_length; exact Hp).
  rewrite (map_nth (fun i => mem_nat i e) (seq 0 n) 0%nat p). rewrite seq_nth by exact Hp. cbn [Nat.add].
  apply mem_nat_In.
Qed.

Lemma contour_mask_length me ci_rot ci_dbl n mask :
  contour_mask me ci_rot ci_dbl n = Some mask -> length mask = n.
Proof.
  unfold contour_mask. destruct (filter me (seq 0 n)); [destruct (encode_unforced ci_dbl n)|destruct (encode_forced ci_rot n _)];
    cbn [option_map]; intros H; inversion H; rewrite map_length, seq_length; reflexivity.
Qed.

Lemma iup_sound_forced me ci_rot ci_dbl n mask :
  (0 < n)%nat ->
  filter me (seq 0 n) <> [] ->
  contour_mask me ci_rot ci_dbl n = Some mask ->
  let mid := (n - 1 - list_max (filter me (seq 0 n)))%nat in
  let retained := fun p => nth p mask false = true in
  length mask = n
  /\ (forall p, (p < n)%nat -> me p = true -> retained p)
  /\ retained (unrot n mid (n - 1))
  /\ forall p, (p < n)%nat -> ~ retained p ->
       exists (from : Z) (to : nat),
         -1 <= from /\ from < Z.of_nat (rot n mid p) < Z.of_nat to /\ (to < n)%nat
         /\ ci_rot mid from to = true
         /\ retained (unrot n mid to)
         /\ retained (unrot n mid (Z.to_nat (from mod Z.of_nat n)))
         /\ forall q, from < Z.of_nat q < Z.of_nat to -> ~ retained (unrot n mid q).
Proof.
  intros Hn Hne Hm. cbv zeta. split; [eapply contour_mask_length; exact Hm|].
  unfold contour_mask in Hm.
  set (forced := filter me (seq 0 n)) in *.
  assert (Hfb : forall x, In x forced -> (x < n)%nat).
  { intros x Hx. subst forced. apply filter_In in Hx. destruct Hx as (Hx & _). apply in_seq in Hx. lia. }
  destruct forced as [|f0 fr] eqn:Ef; [congruence|]. rewrite <- Ef in *.
  destruct (encode_forced ci_rot n forced) as [e|] eqn:Ee; [|discriminate].
  cbn [option_map] in Hm. inversion Hm as [Hmask]. clear Hm.
  destruct (encode_forced_sound ci_rot n forced e Hn Hfb Ee) as (A & B & Cb & D).
  set (mid := (n - 1 - list_max forced)%nat) in *.
  assert (Hmid : (mid < n)%nat) by (subst mid; lia).
  split; [|split].
  - intros p Hp Hme. apply mask_nth; [exact Hp|]. apply A. subst forced. apply filter_In. split; [apply in_seq; lia|exact Hme].
  - apply mask_nth; [apply unrot_lt; exact Hn|exact B].
  - intros p Hp Hnr. destruct (D p Hp) as [Hin|Hg].
    + exfalso. apply Hnr. apply mask_nth; assumption.
    + destruct Hg as (from & to & G1 & G2 & G3 & G4 & G5 & G6 & G7).
      exists from, to. repeat split; try assumption; try lia.
      * apply mask_nth; [apply unrot_lt; exact Hn|exact G5].
      * apply mask_nth; [apply unrot_lt; exact Hn|exact G6].
      * intros q Hq Hr. apply (G7 q Hq). apply mask_nth in Hr; [exact Hr|apply unrot_lt; exact Hn].
Qed.

(* ---------- output shape of iup_contour_optimize / iup_delta_optimize ---------- *)
Definition rounded (d : Z * Z) : Z * Z := (ot_round_i16 (fst d), ot_round_i16 (snd d)).

Lemma combine_map_shape (deltas : list (Z * Z)) mask : length mask = length deltas ->
  map fst (map (fun dm : (Z * Z) * bool => let '(d, m) := dm in (ot_round_i16 (fst d), ot_round_i16 (snd d), m))
               (combine deltas mask)) = map rounded deltas.
Proof.
  revert mask. induction deltas as [|d ds IH]; intros [|m ms] H; cbn in H; try lia; [reflexivity|].
  cbn [combine map fst]. f_equal. apply IH. lia.
Qed.

Lemma zpair_eqb_eq a b : zpair_eqb a b = true -> a = b.
Proof. destruct a, b. unfold zpair_eqb. cbn [fst snd]. intros H. apply andb_true_iff in H. f_equal; lia. Qed.

Lemma iup_contour_shape deltas coords tol out :
  iup_contour_optimize deltas coords tol = Some out ->
  map fst out = map rounded deltas.
Proof.
  unfold iup_contour_optimize. destruct (negb (Nat.eqb (length deltas) (length coords))); [discriminate|].
  destruct deltas as [|first rest] eqn:Ed; [intros H; inversion H; reflexivity|]. rewrite <- Ed.
  destruct (forallb (zpair_eqb first) deltas) eqn:Eall.
  - assert (Hall : forall d, In d deltas -> d = first).
    { intros d Hd. rewrite forallb_forall in Eall. symmetry. apply zpair_eqb_eq. apply Eall. exact Hd. }
    assert (Hrep : forall (v : Z * Z * bool) k l, (forall d, In d l -> d = first) -> fst v = rounded first ->
                   length l = k -> map fst (repeat v k) = map rounded l).
    { intros v k. induction k as [|k IH]; intros [|d l] Hl Hv Hk; cbn in Hk; try lia; [reflexivity|].
      cbn [repeat map]. f_equal; [rewrite Hv, (Hl d (or_introl eq_refl)); reflexivity|].
      apply IH; try assumption; [intros; apply Hl; right; assumption|lia]. }
    destruct (zpair_eqb first (0, 0)) eqn:Ez.
    + intros H. inversion H. apply zpair_eqb_eq in Ez. apply Hrep; [exact Hall| |reflexivity].
      rewrite Ez. reflexivity.
    + intros H. inversion H. rewrite Ed. cbn [length firstn map fst]. f_equal.
      (* firstn (length rest) of a list of S (length rest) copies *)
      assert (Hf : forall (v : Z * Z * bool) k, firstn k (repeat v (S k)) = repeat v k).
      { intros v k. induction k as [|k IHk]; [reflexivity|]. cbn [repeat firstn] in *. f_equal. exact IHk. }
      rewrite Hf. apply Hrep; [|reflexivity|reflexivity].
      intros d Hd. apply Hall. rewrite Ed. right. exact Hd.
  - destruct (contour_mask _ _ _ (length deltas)) as [mask|] eqn:Em; cbn [option_map]; [|discriminate].
    intros H. inversion H. apply combine_map_shape. eapply contour_mask_length. exact Em.
Qed.

Lemma rotation_bijective n mid p : (mid < n)%nat -> (p < n)%nat ->
  unrot n mid (rot n mid p) = p /\ rot n mid (unrot n mid p) = p /\ (rot n mid p < n)%nat /\ (unrot n mid p < n)%nat.
Proof.
  intros Hm Hp. repeat split; [apply unrot_rot|apply rot_unrot|apply rot_lt|apply unrot_lt]; try assumption; lia.
Qed.
