(* C10 — lemmas about the PackedPointNumbers codec of Model.v. *)
From Coq Require Import ZArith Lia List Bool.
From Coq Require Import ZifyBool.
From FV Require Import Lib.RustInt C10.Model C10.Proofs.
Import ListNotations.
Open Scope Z_scope.
Ltac Zify.zify_post_hook ::= Z.div_mod_to_equations.

(* non-decreasing u16 point numbers, starting not below [prev] (strictly increasing sets are a special case) *)
Fixpoint nondec (prev : Z) (l : list Z) : Prop :=
  match l with
  | [] => True
  | p :: tl => prev <= p <= 65535 /\ nondec p tl
  end.

(* the same, with every gap in the storage class of the run *)
Fixpoint chain_class (words : bool) (prev : Z) (l : list Z) : Prop :=
  match l with
  | [] => True
  | p :: tl => prev <= p <= 65535 /\ (if words then 255 < p - prev else p - prev <= 255) /\ chain_class words p tl
  end.

Definition prun_ok (r : prun) : Prop :=
  (1 <= length (pr_pts r) <= 128)%nat /\ 0 <= pr_last r /\ chain_class (pr_words r) (pr_last r) (pr_pts r).

Fixpoint runs_chain (prev : Z) (rs : list prun) : Prop :=
  match rs with
  | [] => True
  | r :: tl => pr_last r = prev /\ prun_ok r /\ runs_chain (last (pr_pts r) prev) tl
  end.

Lemma last_cons {A} (a : A) l d : last (a :: l) d = last l a.
Proof.
  revert a d. induction l as [|b l IH]; intros a d; [reflexivity|].
  change (last (a :: b :: l) d) with (last (b :: l) d). rewrite (IH b d), (IH b a). reflexivity.
Qed.

Lemma last_nonempty {A} (l : list A) a b : l <> [] -> last l a = last l b.
Proof. destruct l as [|x l]; [congruence|]. intros _. rewrite !last_cons. reflexivity. Qed.

Lemma last_app_ne {A} (l1 l2 : list A) d : l2 <> [] -> last (l1 ++ l2) d = last l2 d.
Proof.
  intros H. revert d. induction l1 as [|a l1 IH]; intros d; [reflexivity|].
  cbn [app]. rewrite last_cons, IH. apply last_nonempty. exact H.
Qed.

Lemma nondec_ge prev l : nondec prev l -> forall x, In x l -> prev <= x <= 65535.
Proof.
  revert prev. induction l as [|p tl IH]; intros prev H x Hx; [destruct Hx|].
  destruct H as (Hp & Ht). destruct Hx as [<-|Hx]; [exact Hp|]. specialize (IH p Ht x Hx). lia.
Qed.

Lemma nondec_skipn n : forall prev l, nondec prev l -> nondec (last (firstn n l) prev) (skipn n l).
Proof.
  induction n as [|n IH]; intros prev l H; [exact H|].
  destruct l as [|p tl]; [exact H|]. destruct H as (Hp & Ht).
  cbn [firstn skipn]. rewrite last_cons. apply IH. exact Ht.
Qed.

Lemma chain_last words : forall l prev, chain_class words prev l -> prev <= last l prev <= 65535 \/ l = [].
Proof.
  induction l as [|p tl IH]; intros prev H; [right; reflexivity|left].
  destruct H as (Hp & _ & Ht). rewrite last_cons. destruct (IH p Ht) as [H | ->]; [lia|]. cbn. lia.
Qed.

(* ---------- the scan that delimits one run ---------- *)
Lemma pt_scan_spec words : forall cap prev l, nondec prev l ->
  exists n, pt_scan words cap prev l = Some n /\ (n <= cap)%nat /\ (n <= length l)%nat
            /\ chain_class words prev (firstn n l).
Proof.
  induction cap as [|c IH]; intros prev l H.
  - exists O. repeat split; try lia; try (destruct l; reflexivity).
  - destruct l as [|p tl]; [exists O; repeat split; cbn; lia|].
    destruct H as (Hp & Ht). cbn [pt_scan].
    replace (p <? prev) with false by lia.
    destruct (if words then 255 <? p - prev else p - prev <=? 255) eqn:Etake.
    + destruct (IH p tl Ht) as (n & Hn & A & B & C). exists (S n). rewrite Hn.
      cbn [option_map length firstn chain_class]. repeat split; try lia; try assumption.
      destruct words; lia.
    + exists O. repeat split; cbn; lia.
Qed.

Lemma pt_scan_first cap prev next tl n :
  nondec prev (next :: tl) ->
  pt_scan (255 <? next - prev) (S cap) prev (next :: tl) = Some n -> (1 <= n)%nat.
Proof.
  intros (Hp & _). cbn [pt_scan]. replace (next <? prev) with false by lia.
  destruct (255 <? next - prev) eqn:E.
  - cbv iota. destruct (pt_scan true cap next tl); cbn [option_map]; intros H; inversion H; lia.
  - replace (next - prev <=? 255) with true by lia. cbv iota.
    destruct (pt_scan false cap next tl); cbn [option_map]; intros H; inversion H; lia.
Qed.

(* ---------- run segmentation ---------- *)
Lemma pt_runs_spec : forall fuel prev pts, nondec prev pts -> 0 <= prev -> (length pts <= fuel)%nat ->
  exists rs, pt_runs fuel prev pts = Some rs /\ runs_chain prev rs /\ concat (map pr_pts rs) = pts.
Proof.
  induction fuel as [|f IH]; intros prev pts H Hprev Hlen.
  - destruct pts; [|cbn in Hlen; lia]. exists []. repeat split.
  - destruct pts as [|next tl]; [exists []; repeat split|].
    cbn [pt_runs]. pose proof H as (Hp & Ht).
    replace (next <? prev) with false by lia.
    destruct (pt_scan_spec (255 <? next - prev) MAX_POINT_RUN prev (next :: tl) H) as (n & Hn & A & B & C).
    rewrite Hn. cbn [obind].
    assert (Hn1 : (1 <= n)%nat) by (eapply pt_scan_first; [exact H|exact Hn]).
    assert (Hne : firstn n (next :: tl) <> []) by (destruct n; [lia|cbn; congruence]).
    rewrite (last_nonempty _ 0 prev Hne).
    destruct (IH (last (firstn n (next :: tl)) prev) (skipn n (next :: tl))) as (rs & Hrs & Hch & Hcat).
    { apply nondec_skipn. exact H. }
    { destruct (chain_last _ _ _ C) as [Hl|Hl]; [lia|congruence]. }
    { rewrite skipn_length. cbn [length] in *. lia. }
    rewrite Hrs. cbn [obind]. eexists. split; [reflexivity|]. split.
    + cbn [runs_chain pr_last pr_pts]. split; [reflexivity|]. split; [|exact Hch].
      unfold prun_ok. cbn [pr_last pr_pts pr_words]. rewrite firstn_length.
      unfold MAX_POINT_RUN in A. cbn [length] in *. repeat split; try lia. exact C.
    + cbn [map concat pr_pts]. rewrite Hcat. apply firstn_skipn.
Qed.

(* ---------- one run through writer and reader ---------- *)
Lemma pts_iter_two_irrel k v two two' bs : pts_iter k v 0 two bs = pts_iter k v 0 two' bs.
Proof. destruct k; [reflexivity|]. cbn [pts_iter Nat.eqb]. reflexivity. Qed.

Lemma point_body words : forall pts lastv, chain_class words lastv pts -> 0 <= lastv ->
  exists body, enc_point_deltas words lastv pts = Some body
    /\ length body = (length pts * (if words then 2 else 1))%nat
    /\ Forall is_byte body
    /\ forall k rest, pts_iter (length pts + k) lastv (length pts) words (body ++ rest)
                      = pts ++ pts_iter k (last pts lastv) 0 words rest.
Proof.
  induction pts as [|p tl IH]; intros lastv H Hl.
  - exists []. repeat split; constructor.
  - destruct H as (Hp & Hc & Ht). destruct (IH p Ht ltac:(lia)) as (body & Hb & Hlen & Hbytes & Hread).
    cbn [enc_point_deltas]. replace (p <? lastv) with false by lia.
    assert (Hno : negb words && (255 <? p - lastv) = false) by (destruct words; cbn [negb andb]; lia).
    rewrite Hno, Hb. cbn [obind]. eexists. split; [reflexivity|]. split; [|split].
    + rewrite app_length, Hlen. destruct words; [rewrite to_be_length|]; cbn [length]; lia.
    + apply Forall_app. split; [|exact Hbytes]. destruct words; [apply to_be_bytes|].
      constructor; [unfold is_byte; lia|constructor].
    + intros k rest. cbn [length Nat.add pts_iter Nat.eqb]. rewrite <- app_assoc.
      assert (Hrv : read_point_val words ((if words then to_be 2 (p - lastv) else [p - lastv]) ++ body ++ rest)
                    = Some (p - lastv, body ++ rest)).
      { destruct words.
        - rewrite to_be_2. cbn [app read_point_val]. do 2 f_equal. lia.
        - reflexivity. }
      rewrite Hrv. replace (lastv + (p - lastv)) with p by lia.
      replace (65535 <? p) with false by lia.
      cbn [app]. f_equal. rewrite last_cons.
      replace (S (length tl) - 1)%nat with (length tl) by lia. apply Hread.
Qed.

Lemma point_control (n : Z) : 0 <= n < 128 ->
  (Z.land n 127 + 1 = n + 1 /\ (Z.land n 128 =? 0) = true /\ 0 <= n < 256) /\
  (Z.land (Z.lor n 128) 127 + 1 = n + 1 /\ (Z.land (Z.lor n 128) 128 =? 0) = false /\ 0 <= Z.lor n 128 < 256).
Proof.
  intros H.
  pose (P := fun n : Z =>
    (Z.land n 127 + 1 =? n + 1) && (Z.land n 128 =? 0) && (0 <=? n) && (n <? 256) &&
    (Z.land (Z.lor n 128) 127 + 1 =? n + 1) && negb (Z.land (Z.lor n 128) 128 =? 0)
    && (0 <=? Z.lor n 128) && (Z.lor n 128 <? 256)).
  assert (HP : P n = true) by (apply (sweep P 128); [vm_compute; reflexivity | lia]).
  unfold P in HP. repeat rewrite andb_true_iff in HP.
  repeat match goal with H : _ /\ _ |- _ => destruct H end.
  repeat split; try lia;
  destruct (Z.land (Z.lor n 128) 128 =? 0); try discriminate; try reflexivity.
Qed.

Definition prun_ctrl (r : prun) : Z :=
  let len := Z.of_nat (length (pr_pts r)) - 1 in if pr_words r then Z.lor len 128 else len.

Lemma prun_ctrl_decodes r rest : (1 <= length (pr_pts r) <= 128)%nat ->
  read_point_control (prun_ctrl r :: rest) = Some (length (pr_pts r), pr_words r, rest) /\ 0 <= prun_ctrl r < 256.
Proof.
  intros H. unfold prun_ctrl, read_point_control. cbv zeta.
  destruct (point_control (Z.of_nat (length (pr_pts r)) - 1) ltac:(lia)) as ((A1 & A2 & A3) & (B1 & B2 & B3)).
  destruct (pr_words r).
  - rewrite B1, B2. split; [|lia]. cbn [negb]. do 3 f_equal. lia.
  - rewrite A1, A2. split; [|lia]. cbn [negb]. do 3 f_equal. lia.
Qed.

Lemma point_run r : prun_ok r ->
  exists bytes, enc_prun r = Some bytes
    /\ Z.of_nat (length bytes) = prun_size r
    /\ Forall is_byte bytes
    /\ forall k two0 rest, pts_iter (length (pr_pts r) + k) (pr_last r) 0 two0 (bytes ++ rest)
                           = pr_pts r ++ pts_iter k (last (pr_pts r) (pr_last r)) 0 two0 rest.
Proof.
  intros (Hlen & Hl & Hc).
  destruct (point_body (pr_words r) (pr_pts r) (pr_last r) Hc Hl) as (body & Hb & Hbl & Hbytes & Hread).
  unfold enc_prun.
  replace (Nat.eqb (length (pr_pts r)) 0 || Nat.ltb 128 (length (pr_pts r))) with false.
  2:{ symmetry. apply orb_false_iff. split; [apply Nat.eqb_neq; lia|apply Nat.ltb_ge; lia]. }
  rewrite Hb. cbn [obind]. fold (prun_ctrl r).
  destruct (prun_ctrl_decodes r [] Hlen) as (_ & Hrange).
  eexists. split; [reflexivity|]. split; [|split].
  - cbn [length]. rewrite Hbl. unfold prun_size. destruct (pr_words r); lia.
  - constructor; [exact Hrange|exact Hbytes].
  - intros k two0 rest. cbn [app].
    destruct (prun_ctrl_decodes r (body ++ rest) Hlen) as (Hctl & _).
    destruct (length (pr_pts r)) as [|m] eqn:Em; [lia|].
    cbn [Nat.add pts_iter Nat.eqb]. rewrite Hctl.
    specialize (Hread k rest). try rewrite Em in Hread. cbn [Nat.add pts_iter] in Hread.
    replace (Nat.eqb (S m) 0) with false in Hread by reflexivity.
    rewrite (pts_iter_two_irrel k _ two0 (pr_words r)). exact Hread.
Qed.

Lemma point_runs_bytes : forall rs prev, runs_chain prev rs ->
  exists body, enc_pruns rs = Some body
    /\ Z.of_nat (length body) = fold_right Z.add 0 (map prun_size rs)
    /\ Forall is_byte body
    /\ forall k two0 rest, pts_iter (length (concat (map pr_pts rs)) + k) prev 0 two0 (body ++ rest)
                           = concat (map pr_pts rs) ++ pts_iter k (last (concat (map pr_pts rs)) prev) 0 two0 rest.
Proof.
  induction rs as [|r rs IH]; intros prev H.
  - exists []. repeat split; constructor.
  - destruct H as (Hlast & Hok & Hch).
    destruct (point_run r Hok) as (b1 & Hb1 & Hs1 & Hy1 & Hr1).
    destruct (IH _ Hch) as (b2 & Hb2 & Hs2 & Hy2 & Hr2).
    cbn [enc_pruns]. rewrite Hb1, Hb2. cbn [obind]. eexists. split; [reflexivity|]. split; [|split].
    + rewrite app_length. cbn [map fold_right]. lia.
    + apply Forall_app. split; assumption.
    + intros k two0 rest. cbn [map concat]. rewrite app_length, <- app_assoc, <- Nat.add_assoc.
      rewrite <- Hlast. rewrite Hr1. rewrite <- app_assoc. f_equal.
      rewrite Hlast. rewrite Hr2. f_equal. f_equal.
      (* last of the concatenation *)
      destruct Hok as (Hlen & _ & _).
      clear -Hlen. destruct (concat (map pr_pts rs)) as [|x xs] eqn:E.
      * rewrite app_nil_r. reflexivity.
      * rewrite last_app_ne by congruence. apply last_nonempty. congruence.
Qed.

(* ---------- the count prefix ---------- *)
Lemma point_count_header n body : 1 <= Z.of_nat n <= 32767 ->
  pts_count_and_bytes (enc_point_count n ++ body) = (n, length (enc_point_count n))
  /\ skipn (length (enc_point_count n)) (enc_point_count n ++ body) = body
  /\ Forall is_byte (enc_point_count n)
  /\ length (enc_point_count n) = (if Nat.ltb n 128 then 1 else 2)%nat.
Proof.
  intros H. unfold enc_point_count.
  destruct (Nat.leb n 127) eqn:E.
  - apply Nat.leb_le in E. replace (Nat.ltb n 128) with true by (symmetry; apply Nat.ltb_lt; lia).
    cbn [app pts_count_and_bytes length skipn].
    replace (Z.of_nat n =? 0) with false by lia. replace (Z.of_nat n <? 128) with true by lia.
    repeat split. { f_equal. lia. } constructor; [unfold is_byte; lia|constructor].
  - apply Nat.leb_gt in E. replace (Nat.ltb n 128) with false by (symmetry; apply Nat.ltb_ge; lia).
    assert (Hw : wrap_u 16 (Z.of_nat n) = Z.of_nat n).
    { apply wrap_u_id. change (2 ^ 16) with 65536. lia. }
    rewrite Hw.
    assert (Hlor : Z.lor (Z.of_nat n) 32768 = Z.of_nat n + 32768).
    { replace (Z.lor (Z.of_nat n) 32768) with (Z.lor (Z.shiftl 1 15) (Z.of_nat n)) by (rewrite Z.lor_comm; reflexivity).
      rewrite lor_shiftl_low by (change (2 ^ 15) with 32768; lia). change (2 ^ 15) with 32768. lia. }
    rewrite Hlor, to_be_2. cbn [app pts_count_and_bytes length skipn].
    set (b0 := ((Z.of_nat n + 32768) / 256) mod 256). set (b1 := (Z.of_nat n + 32768) mod 256).
    assert (Hb : b0 * 256 + b1 = Z.of_nat n + 32768 /\ 128 <= b0 < 256 /\ 0 <= b1 < 256) by (subst b0 b1; lia).
    replace (b0 =? 0) with false by lia. replace (b0 <? 128) with false by lia.
    destruct Hb as (-> & Hb0 & Hb1).
    change 32767 with (Z.ones 15). rewrite Z.land_ones by lia. change (2 ^ 15) with 32768.
    repeat split.
    + f_equal. lia.
    + constructor; [unfold is_byte; lia|constructor; [unfold is_byte; lia|constructor]].
Qed.

(* ---------- round trip ---------- *)
Lemma points_encode pts : nondec 0 pts -> Z.of_nat (length pts) <= 32767 ->
  exists rs body, point_runs (PSome pts) = Some rs /\ runs_chain 0 rs /\ concat (map pr_pts rs) = pts
    /\ enc_pruns rs = Some body
    /\ encode_points (PSome pts) = WBytes (enc_point_count (length pts) ++ body)
    /\ Z.of_nat (length body) = fold_right Z.add 0 (map prun_size rs)
    /\ Forall is_byte body
    /\ forall k two0 rest, pts_iter (length pts + k) 0 0 two0 (body ++ rest)
                           = pts ++ pts_iter k (last pts 0) 0 two0 rest.
Proof.
  intros H Hlen.
  destruct (pt_runs_spec (length pts) 0 pts H ltac:(lia) ltac:(lia)) as (rs & Hrs & Hch & Hcat).
  destruct (point_runs_bytes rs 0 Hch) as (body & Hb & Hs & Hy & Hr).
  exists rs, body. unfold point_runs, encode_points. cbn [ppn_slice]. unfold point_runs. cbn [ppn_slice].
  rewrite Hrs, Hb. replace (32767 <? Z.of_nat (length pts)) with false by lia.
  rewrite Hcat in Hr. repeat split; try assumption.
Qed.

Lemma points_roundtrip pts : pts <> [] -> nondec 0 pts -> Z.of_nat (length pts) <= 32767 ->
  exists bytes, encode_points (PSome pts) = WBytes bytes /\ Forall is_byte bytes /\ decode_points bytes = RSome pts.
Proof.
  intros Hne H Hlen.
  destruct (points_encode pts H Hlen) as (rs & body & _ & _ & _ & _ & Henc & _ & Hy & Hr).
  assert (Hn : 1 <= Z.of_nat (length pts) <= 32767) by (destruct pts; [congruence|cbn [length] in *; lia]).
  destruct (point_count_header (length pts) body Hn) as (Hc & Hsk & Hyc & _).
  eexists. split; [exact Henc|]. split; [apply Forall_app; split; assumption|].
  unfold decode_points. rewrite Hc, Hsk.
  replace (Nat.eqb (length pts) 0) with false by (symmetry; apply Nat.eqb_neq; lia).
  f_equal. specialize (Hr O false []). rewrite Nat.add_0_r, app_nil_r in Hr. rewrite Hr.
  cbn [pts_iter]. apply app_nil_r.
Qed.

Lemma points_all_roundtrip : encode_points PAll = WBytes [0] /\ decode_points [0] = RAll.
Proof. split; reflexivity. Qed.

(* strictly increasing sets are non-decreasing *)
Fixpoint strictly_increasing (l : list Z) : Prop :=
  match l with
  | [] => True
  | a :: tl => match tl with [] => True | b :: _ => a < b end /\ strictly_increasing tl
  end.

Lemma strict_nondec l : Forall (fun p => 0 <= p <= 65535) l -> strictly_increasing l ->
  forall prev, (match l with [] => True | a :: _ => prev <= a end) -> nondec prev l.
Proof.
  induction l as [|a tl IH]; intros HF HS prev Hp; [exact I|].
  inversion HF as [|? ? Ha Ht]; subst. destruct HS as (H1 & H2).
  cbn [nondec]. split; [lia|]. apply IH; try assumption. destruct tl; [exact I|lia].
Qed.

(* ---------- run legality ---------- *)
Lemma point_run_lengths_legal pts : nondec 0 pts ->
  exists rs, point_runs (PSome pts) = Some rs /\
    Forall (fun r => (1 <= length (pr_pts r) <= 128)%nat
                     /\ read_point_control [prun_ctrl r] = Some (length (pr_pts r), pr_words r, [])
                     /\ 0 <= prun_ctrl r < 256) rs
    /\ concat (map pr_pts rs) = pts.
Proof.
  intros H.
  destruct (pt_runs_spec (length pts) 0 pts H ltac:(lia) ltac:(lia)) as (rs & Hrs & Hch & Hcat).
  exists rs. split; [exact Hrs|]. split; [|exact Hcat].
  clear Hrs Hcat. revert Hch. generalize 0 at 1. induction rs as [|r rs IH]; intros prev Hch; [constructor|].
  destruct Hch as (_ & (Hl & _ & _) & Hrest). constructor; [|eapply IH; exact Hrest].
  destruct (prun_ctrl_decodes r [] Hl) as (A & B). repeat split; try assumption; lia.
Qed.

(* ---------- compute_size ---------- *)
Lemma points_size_computed pts : nondec 0 pts -> Z.of_nat (length pts) <= 32767 ->
  exists bytes, encode_points (PSome pts) = WBytes bytes /\
    (forall s, points_compute_size (PSome pts) = Some s -> s = Z.of_nat (length bytes)) /\
    (Z.of_nat (length bytes) <= 65535 -> points_compute_size (PSome pts) = Some (Z.of_nat (length bytes))).
Proof.
  intros H Hlen.
  destruct (points_encode pts H Hlen) as (rs & body & Hrs & _ & _ & _ & Henc & Hs & _ & _).
  eexists. split; [exact Henc|].
  assert (Hcnt : Z.of_nat (length (enc_point_count (length pts))) = if Nat.ltb (length pts) 128 then 1 else 2).
  { unfold enc_point_count. destruct (Nat.leb (length pts) 127) eqn:E.
    - apply Nat.leb_le in E. replace (Nat.ltb (length pts) 128) with true by (symmetry; apply Nat.ltb_lt; lia). reflexivity.
    - apply Nat.leb_gt in E. replace (Nat.ltb (length pts) 128) with false by (symmetry; apply Nat.ltb_ge; lia).
      rewrite to_be_length. reflexivity. }
  unfold points_compute_size. rewrite Hrs. cbn [obind]. rewrite app_length, Nat2Z.inj_add, Hcnt, Hs. split.
  - intros s Hsz. apply sum_sizes_some in Hsz. lia.
  - intros Hb. apply sum_sizes_total; [destruct (Nat.ltb (length pts) 128); lia| |lia].
    apply Forall_forall. intros x Hx. apply in_map_iff in Hx. destruct Hx as (r & <- & _).
    unfold prun_size. destruct (pr_words r); lia.
Qed.
