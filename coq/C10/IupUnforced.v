(* C10 — soundness of the no-forced-point branch of the structural IUP optimiser, for EVERY kernel. *)
From Coq Require Import ZArith Lia List Bool.
From Coq Require Import ZifyBool.
From FV Require Import Lib.RustInt C10.Model C10.IupProofs.
Import ListNotations.
Open Scope Z_scope.

(* Option<usize> as an integer: None = -1 (the Python original's costs[-1] / range end) *)
Definition tz (t : option nat) : Z := match t with Some x => Z.of_nat x | None => -1 end.

Lemma ogt_tz i t : ogt i t = (tz t <? tz i).
Proof. destruct i as [x|], t as [y|]; cbn [ogt tz]; lia. Qed.

Lemma oeq_tz i t : oeq i t = (tz i =? tz t).
Proof. destruct i as [x|], t as [y|]; cbn [oeq tz]; lia. Qed.

(* the doubled indices visited by walk_dbl, and the final value of `i` *)
Fixpoint visited (fuel : nat) (chain : list (option nat)) (t i : option nat) : list nat * option nat :=
  match fuel with
  | O => ([], i)
  | S f =>
      if ogt i t then
        match i with
        | Some idx => let '(v, fin) := visited f chain t (nth idx chain None) in (idx :: v, fin)
        | None => ([], i)
        end
      else ([], i)
  end.

Lemma walk_dbl_visited : forall fuel n chain t i sol,
  walk_dbl fuel n chain t i sol
  = (rev (map (fun x => (x mod n)%nat) (fst (visited fuel chain t i))) ++ sol, snd (visited fuel chain t i)).
Proof.
  induction fuel as [|f IH]; intros n chain t i sol; [reflexivity|].
  cbn [walk_dbl visited]. destruct (ogt i t); [|reflexivity].
  destruct i as [idx|]; [|reflexivity].
  rewrite IH. destruct (visited f chain t (nth idx chain None)) as (v, fin). cbn [fst snd map rev].
  rewrite <- app_assoc. reflexivity.
Qed.

Section Cover.
  Context (ci : Z -> nat -> bool) (chain : list (option nat))
          (Hchain : forall k, (k < length chain)%nat -> chain_ok ci k (nth k chain None))
          (t : option nat).

  (* p lies strictly between two consecutive visited points (or the lower end [lo]) whose segment the kernel approved *)
  Definition dgap (V : list nat) (p : Z) : Prop :=
    exists (from : Z) (to : nat),
      ci from to = true /\ tz t <= from /\ from < p < Z.of_nat to /\ In to V
      /\ (from = tz t \/ (0 <= from /\ In (Z.to_nat from) V))
      /\ forall q : nat, from < Z.of_nat q < Z.of_nat to -> ~ In q V.

  Lemma dgap_cons V p i : (forall x, In x V -> (x < i)%nat) -> dgap V p -> dgap (i :: V) p.
  Proof.
    intros Hlt (from & to & A & B & C & D & F & G). exists from, to. repeat split; try assumption; try lia.
    - right. exact D.
    - destruct F as [F|(F1 & F2)]; [left; exact F|right; split; [exact F1|right; exact F2]].
    - intros q Hq [<-|Hin]; [specialize (Hlt to D); lia|exact (G q Hq Hin)].
  Qed.

  Lemma visited_stop fuel j : Z.of_nat j <= tz t -> visited fuel chain t (Some j) = ([], Some j).
  Proof.
    intros H. destruct fuel; [reflexivity|]. cbn [visited]. rewrite ogt_tz. cbn [tz].
    replace (tz t <? Z.of_nat j) with false by lia. reflexivity.
  Qed.

  Lemma visited_none fuel : visited fuel chain t None = ([], None).
  Proof. destruct fuel; [reflexivity|]. cbn [visited ogt]. reflexivity. Qed.

  Lemma visited_cover : forall fuel idx, (idx < length chain)%nat -> (idx < fuel)%nat -> tz t < Z.of_nat idx ->
    tz (snd (visited fuel chain t (Some idx))) = tz t ->
    let V := fst (visited fuel chain t (Some idx)) in
    (forall x, In x V -> tz t < Z.of_nat x <= Z.of_nat idx) /\ In idx V
    /\ forall p : nat, tz t < Z.of_nat p <= Z.of_nat idx -> In p V \/ dgap V (Z.of_nat p).
  Proof.
    induction fuel as [|f IH]; intros idx Hi Hf Ht Hfin; [lia|]. cbv zeta.
    cbn [visited] in *. rewrite ogt_tz in *. cbn [tz] in Hfin |- *.
    replace (tz t <? Z.of_nat idx) with true in * by lia.
    pose proof (Hchain idx Hi) as Hc.
    destruct (nth idx chain None) as [j|] eqn:Ej; cbn [chain_ok] in Hc.
    - destruct Hc as (Hji & Hc).
      destruct (Z.ltb (tz t) (Z.of_nat j)) eqn:Etj.
      + (* the walk continues at j *)
        specialize (IH j ltac:(lia) ltac:(lia) ltac:(lia)).
        destruct (visited f chain t (Some j)) as (v, fin) eqn:Ev. cbn [fst snd] in *.
        destruct (IH Hfin) as (A & B & C).
        assert (Hlt : forall x, In x v -> (x < idx)%nat) by (intros x Hx; specialize (A x Hx); lia).
        split; [|split].
        * intros x [<-|Hx]; [lia|]. specialize (A x Hx). lia.
        * left. reflexivity.
        * intros p Hp. destruct (Nat.eq_dec p idx) as [->|Hne]; [left; left; reflexivity|].
          destruct (Z.leb (Z.of_nat p) (Z.of_nat j)) eqn:Epj.
          -- destruct (C p ltac:(lia)) as [Hin|Hg]; [left; right; exact Hin|right; apply dgap_cons; assumption].
          -- destruct Hc as [Hc|Hc]; [lia|]. right. exists (Z.of_nat j), idx.
             repeat split; try lia; try assumption.
             ++ left. reflexivity.
             ++ right. split; [lia|]. right. rewrite Nat2Z.id. exact B.
             ++ intros q Hq [<-|Hin]; [lia|]. specialize (A q Hin). lia.
      + (* the walk stops at j: accepted only if j is the target *)
        rewrite (visited_stop f j ltac:(lia)) in *. cbn [fst snd tz] in *.
        split; [|split].
        * intros x [<-|[]]. lia.
        * left. reflexivity.
        * intros p Hp. destruct (Nat.eq_dec p idx) as [->|Hne]; [left; left; reflexivity|].
          destruct Hc as [Hc|Hc]; [lia|]. right. exists (Z.of_nat j), idx.
          repeat split; try lia; try assumption.
          -- left. reflexivity.
          -- intros q Hq [<-|[]]. lia.
    - rewrite (visited_none f) in *. cbn [fst snd tz] in *.
      split; [|split].
      + intros x [<-|[]]. lia.
      + left. reflexivity.
      + intros p Hp. destruct (Nat.eq_dec p idx) as [->|Hne]; [left; left; reflexivity|].
        destruct Hc as [->|Hc]; [lia|]. right. exists (-1), idx.
        repeat split; try lia; try assumption.
        * left. reflexivity.
        * intros q Hq [<-|[]]. lia.
  Qed.
End Cover.

(* residues of a window of n consecutive integers are distinct *)
Lemma window_mod_inj n a b : (0 < n)%nat -> (a mod n = b mod n)%nat -> Z.abs (Z.of_nat a - Z.of_nat b) < Z.of_nat n -> a = b.
Proof.
  intros Hn Hm Hd.
  pose proof (Nat.div_mod a n ltac:(lia)) as Ha. pose proof (Nat.div_mod b n ltac:(lia)) as Hb.
  rewrite Hm in Ha.
  assert (Hq : (a / n = b / n)%nat) by nia.
  rewrite Hq in Ha. lia.
Qed.

Lemma fold_pick {A B} (f : option A * B -> nat -> option A * B) (P : A -> Prop) (l : list nat) :
  (forall acc x, In x l -> (match fst acc with Some s => P s | None => True end) ->
                 match fst (f acc x) with Some s => P s | None => True end) ->
  forall acc, (match fst acc with Some s => P s | None => True end) ->
  match fst (fold_left f l acc) with Some s => P s | None => True end.
Proof.
  induction l as [|x l IH]; intros Hstep acc Hacc; [exact Hacc|].
  cbn [fold_left]. apply IH.
  - intros acc' y Hy. apply Hstep. right. exact Hy.
  - apply Hstep; [left; reflexivity|exact Hacc].
Qed.

Definition unforced_ok (ci_dbl : Z -> nat -> bool) (n : nat) (e : list nat) : Prop :=
  exists start : nat, (n - 1 <= start <= 2 * n - 2)%nat /\
    In (start mod n)%nat e /\
    (forall x, In x e -> (x < n)%nat) /\
    forall p : nat, Z.of_nat start - Z.of_nat n < Z.of_nat p <= Z.of_nat start ->
      In (p mod n)%nat e \/
      exists (from : Z) (to : nat),
        ci_dbl from to = true
        /\ Z.of_nat start - Z.of_nat n <= from /\ from < Z.of_nat p < Z.of_nat to /\ (to <= start)%nat
        /\ In (to mod n)%nat e
        /\ In (Z.to_nat (from mod Z.of_nat n)) e
        /\ forall q : nat, from < Z.of_nat q < Z.of_nat to -> ~ In (q mod n)%nat e.

Lemma encode_unforced_sound ci_dbl n e : (2 <= n)%nat ->
  encode_unforced ci_dbl n = Some e -> unforced_ok ci_dbl n e.
Proof.
  intros Hn He. unfold encode_unforced in He.
  pose proof (iup_dp_ok (fun _ => false) ci_dbl (lookback_of n) (2 * n)) as Hdp. cbv zeta in Hdp.
  destruct (iup_dp (fun _ => false) ci_dbl (lookback_of n) (2 * n)) as (costs, chain) eqn:Edp.
  cbn [snd] in Hdp. destruct Hdp as (Hlen & Hok). rewrite <- Hlen in Hok.
  assert (Hcl : length costs = (2 * n)%nat).
  { (* costs and chain grow together *)
    revert Edp. unfold iup_dp. replace (Nat.ltb (2 * n) 2) with false by (symmetry; apply Nat.ltb_ge; lia).
    assert (G : forall m cs ch, length cs = length ch ->
              length (fst (dp_outer (fun _ => false) ci_dbl (lookback_of n) (seq (length ch) m) cs ch)) = (length ch + m)%nat).
    { induction m as [|m IHm]; intros cs ch Hl; [cbn; lia|].
      cbn [seq dp_outer].
      destruct (negb (Nat.eqb (length ch) 0) && false) eqn:Eb; [rewrite andb_false_r in Eb; discriminate|].
      destruct (dp_inner _ _ _ _ _ _ _) as (b, c).
      specialize (IHm (cs ++ [b]) (ch ++ [c])).
      rewrite !app_length in IHm. cbn [length] in IHm.
      replace (length ch + 1)%nat with (S (length ch)) in IHm by lia.
      rewrite IHm by lia. lia. }
    intros Edp. specialize (G (2 * n)%nat [] [] eq_refl). cbn [length] in G.
    rewrite Edp in G. cbn [fst] in G. lia. }
  set (starts := seq (n - 1) (length costs - 1 - (n - 1))) in *.
  match type of He with context [fold_left ?g starts _] => set (f := g) in He end.
  assert (Hstep : forall acc x, In x starts ->
            (match fst acc with Some s => unforced_ok ci_dbl n s | None => True end) ->
            match fst (f acc x) with Some s => unforced_ok ci_dbl n s | None => True end).
  2:{ pose proof (fold_pick f (unforced_ok ci_dbl n) starts Hstep (None, Z.of_nat n + 1) I) as Hpick.
      destruct (fold_left f starts (None, Z.of_nat n + 1)) as (best_sol, bc). cbn [fst] in Hpick.
      subst best_sol. exact Hpick. }
  clear He.
  intros (bs, bc) start Hstart Hacc. cbn [fst] in Hacc. subst f. cbv beta iota.
  apply in_seq in Hstart.
  set (target := if Nat.ltb start n then None else Some (start - n)%nat).
  rewrite walk_dbl_visited.
  destruct (visited (S (2 * n)) chain target (Some start)) as (V, fin) eqn:EV. cbn [fst snd].
  rewrite app_nil_r. rewrite oeq_tz.
  destruct (tz fin =? tz target) eqn:Eacc; [|exact Hacc].
  destruct (_ <=? bc); [|exact Hacc]. cbn [fst].
  assert (Htz : tz target = Z.of_nat start - Z.of_nat n).
  { subst target. destruct (Nat.ltb start n) eqn:E; [apply Nat.ltb_lt in E|apply Nat.ltb_ge in E]; cbn [tz]; lia. }
  pose proof (visited_cover ci_dbl chain Hok target (S (2 * n)) start ltac:(lia) ltac:(lia) ltac:(lia)) as Hcov.
  rewrite EV in Hcov. cbn [fst snd] in Hcov. cbv zeta in Hcov.
  destruct (Hcov ltac:(lia)) as (A & B & C). clear Hcov.
  assert (HinE : forall v, In v V -> In (v mod n)%nat (rev (map (fun x => (x mod n)%nat) V))).
  { intros v Hv. apply in_rev. rewrite rev_involutive. apply in_map_iff. exists v. split; [reflexivity|exact Hv]. }
  assert (HnotE : forall q : nat, tz target < Z.of_nat q <= Z.of_nat start -> ~ In q V ->
                  ~ In (q mod n)%nat (rev (map (fun x => (x mod n)%nat) V))).
  { intros q Hq Hnin Hin. apply in_rev in Hin. try rewrite rev_involutive in Hin.
    apply in_map_iff in Hin. destruct Hin as (v & Hv & HvV). apply Hnin.
    assert (v = q); [|subst; exact HvV].
    apply (window_mod_inj n v q ltac:(lia) Hv). specialize (A v HvV). lia. }
  exists start. split; [lia|]. split; [apply HinE; exact B|]. split.
  { intros x Hx. apply in_rev in Hx. try rewrite rev_involutive in Hx. apply in_map_iff in Hx.
    destruct Hx as (v & <- & _). apply Nat.mod_upper_bound. lia. }
  intros p Hp. destruct (C p ltac:(lia)) as [Hin|Hg]; [left; apply HinE; exact Hin|right].
  destruct Hg as (from & to & G1 & G2 & G3 & G4 & G5 & G6).
  exists from, to. pose proof (A to G4) as Hto.
  repeat split; try assumption; try lia.
  - apply HinE. exact G4.
  - destruct G5 as [->|(G5a & G5b)].
    + (* the lower end start - n is the same point as start *)
      rewrite Htz.
      replace (Z.to_nat ((Z.of_nat start - Z.of_nat n) mod Z.of_nat n)) with (start mod n)%nat; [apply HinE; exact B|].
      rewrite <- (Z.mod_add _ 1) by lia. replace (Z.of_nat start - Z.of_nat n + 1 * Z.of_nat n) with (Z.of_nat start) by lia.
      rewrite <- Nat2Z.inj_mod. rewrite Nat2Z.id. reflexivity.
    + replace (Z.to_nat (from mod Z.of_nat n)) with ((Z.to_nat from) mod n)%nat; [apply HinE; exact G5b|].
      rewrite <- (Z2Nat.id from) at 2 by lia. rewrite <- Nat2Z.inj_mod. rewrite Nat2Z.id. reflexivity.
  - intros q Hq. apply HnotE; [lia|]. apply G6. exact Hq.
Qed.

Lemma iup_sound_unforced me ci_rot ci_dbl n mask : (2 <= n)%nat ->
  filter me (seq 0 n) = [] ->
  contour_mask me ci_rot ci_dbl n = Some mask ->
  let retained := fun p => nth p mask false = true in
  exists start : nat, (n - 1 <= start <= 2 * n - 2)%nat /\
    retained (start mod n)%nat /\
    forall p : nat, Z.of_nat start - Z.of_nat n < Z.of_nat p <= Z.of_nat start ->
      retained (p mod n)%nat \/
      exists (from : Z) (to : nat),
        ci_dbl from to = true
        /\ Z.of_nat start - Z.of_nat n <= from /\ from < Z.of_nat p < Z.of_nat to /\ (to <= start)%nat
        /\ retained (to mod n)%nat
        /\ retained (Z.to_nat (from mod Z.of_nat n))
        /\ forall q : nat, from < Z.of_nat q < Z.of_nat to -> ~ retained (q mod n)%nat.
Proof.
  intros Hn Hf Hm. cbv zeta. unfold contour_mask in Hm. rewrite Hf in Hm.
  destruct (encode_unforced ci_dbl n) as [e|] eqn:Ee; [|discriminate].
  cbn [option_map] in Hm. inversion Hm as [Hmask]. clear Hm.
  destruct (encode_unforced_sound ci_dbl n e Hn Ee) as (start & Hs & Hin & Hlt & Hcov).
  assert (Hmod : forall x : nat, (x mod n < n)%nat) by (intros; apply Nat.mod_upper_bound; lia).
  exists start. split; [exact Hs|]. split; [apply mask_nth; [apply Hmod|exact Hin]|].
  intros p Hp. destruct (Hcov p Hp) as [H|H]; [left; apply mask_nth; [apply Hmod|exact H]|right].
  destruct H as (from & to & G1 & G2 & G3 & G4 & G5 & G6 & G7).
  exists from, to. repeat split; try assumption; try lia.
  - apply mask_nth; [apply Hmod|exact G5].
  - apply mask_nth; [|exact G6]. apply Hlt. exact G6.
  - intros q Hq Hr. apply (G7 q Hq). apply mask_nth in Hr; [exact Hr|apply Hmod].
Qed.
