(* C10 (round 7) — property theorems about skrifa's inference of missing deltas (IupApplyModel.v).
   Only statements, [exact lemma] and Print Assumptions. *)
From Coq Require Import ZArith List Permutation.
From FV Require Import Lib.RustInt C15.Model C15.Proofs C10.ApplyModel C10.IupApplyModel C10.IupApplyProofs C10.IupApplyOrder.
Import ListNotations.
Open Scope Z_scope.

(* (3b) for every glyph, flag vector, contour list and working buffer: when interpolate_deltas succeeds the
   buffer keeps its length and every point carrying the HAS_DELTA marker keeps exactly the value
   accumulate_sparse_deltas gave it — inference never touches an explicitly referenced point *)
Theorem c10_iup_referenced_points_kept : forall pts flags ends outs o,
  interpolate_deltas pts flags ends outs = Some o ->
  length o = length outs /\ forall i, nth i flags false = true -> nth_error o i = nth_error outs i.
Proof. exact interpolate_deltas_keeps_referenced. Qed.

(* Jiggler::interpolate writes only inside its range; Jiggler::shift writes only inside its range and never
   the reference point *)
Theorem c10_iup_interpolate_writes_range : forall pts outs lo hi r1 r2 o,
  jig_interpolate pts outs lo hi r1 r2 = Some o ->
  length o = length outs /\ forall i, ~ (lo <= i <= hi)%nat -> nth_error o i = nth_error outs i.
Proof. exact jig_interpolate_wr. Qed.
Theorem c10_iup_shift_writes_range : forall pts outs lo hi r o, jig_shift pts outs lo hi r = Some o ->
  length o = length outs /\ forall i, (~ (lo <= i <= hi)%nat \/ i = r) -> nth_error o i = nth_error outs i.
Proof. exact jig_shift_wr. Qed.

(* (3a) the inference rule of one coordinate in exact integer form, reference coordinates i1 < i2 in font
   units, their moved positions out1, out2 in 16.16, scale = (out2 - out1)/(i2 - i1) rounded half away from
   zero to 16.16 (Fixed Div): clamp outside (the point moves with the nearer reference point), linear inside
   with NO further rounding (the multiplier p - i1 is an integer) *)
Theorem c10_iup_scale_exact : forall i1 i2 out1 out2, small i1 -> small i2 -> i1 < i2 -> i32 (out2 - out1) ->
  i32 (rha (out2 - out1) (i2 - i1)) ->
  fixed_div (fx_sub 32 out2 out1) (fx_sub 32 (fixed_from_i32 i2) (fixed_from_i32 i1)) = rha (out2 - out1) (i2 - i1).
Proof. exact iup_scale_exact. Qed.
Theorem c10_iup_rule : forall i1 i2 out1 out2 p,
  small i1 -> small i2 -> small p -> i1 < i2 -> i32 out1 -> i32 out2 ->
  let in1 := fixed_from_i32 i1 in
  let in2 := fixed_from_i32 i2 in
  let scale := rha (out2 - out1) (i2 - i1) in
  let v := interp_value in1 in2 out1 out2 scale (fx_sub 32 out1 in1) (fx_sub 32 out2 in2) p in
  (p <= i1 -> i32 (out1 - i1 * 65536) -> i32 (p * 65536 + (out1 - i1 * 65536)) -> v = p * 65536 + (out1 - i1 * 65536))
  /\ (i2 <= p -> i32 (out2 - i2 * 65536) -> i32 (p * 65536 + (out2 - i2 * 65536)) -> v = p * 65536 + (out2 - i2 * 65536))
  /\ (i1 < p < i2 -> i32 ((p - i1) * scale) -> i32 (out1 + (p - i1) * scale) -> v = out1 + (p - i1) * scale).
Proof. exact interp_value_rule. Qed.

(* the deltas skrifa computes for a simple glyph (dense fast path + sparse path with inference, every tuple a
   function of the glyph only, added with wrapping add) and hence the unscaled points and what is drawn do not
   depend on the order of the active tuples; neither does failure *)
Theorem c10_glyph_deltas_order_independent : forall pts ends ts1 ts2, Permutation ts1 ts2 ->
  forall d, sg_tuples pts ends d ts1 = sg_tuples pts ends d ts2.
Proof. exact sg_tuples_perm. Qed.
Theorem c10_unscaled_points_order_independent : forall pts ends ts1 ts2, Permutation ts1 ts2 ->
  unscaled_points pts ends ts1 = unscaled_points pts ends ts2.
Proof. exact unscaled_points_perm. Qed.

Print Assumptions c10_iup_referenced_points_kept.
Print Assumptions c10_glyph_deltas_order_independent.
Print Assumptions c10_unscaled_points_order_independent.
Print Assumptions c10_iup_interpolate_writes_range.
Print Assumptions c10_iup_shift_writes_range.
Print Assumptions c10_iup_scale_exact.
Print Assumptions c10_iup_rule.
