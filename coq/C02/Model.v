(* C02 — executable models of the guards that make skrifa's glyph loading total:
     (a) skrifa/src/decycler.rs                     Decycler<usize, D> + DecyclerGuard::drop + verif_drive_decycler
     (b) skrifa/src/outline/glyf/hint/value_stack.rs ValueStack (every operation, both pedantic modes)
     (c) skrifa/src/outline/glyf/hint/call_stack.rs  CallStack (MAX_DEPTH = 32)
     (d) skrifa/src/outline/glyf/hint/engine/{dispatch.rs (run, MAX_RUN_INSTRUCTIONS), mod.rs (LoopBudget),
         control_flow.rs (do_jump), definition.rs (op_call/op_loopcall), ../program.rs (enter/leave)}
         as an abstract machine over an arbitrary instruction oracle, plus a concrete byte-level instance of
         that oracle (a small TrueType subset) used by the correspondence shards
     (e) skrifa/src/outline/glyf/mod.rs              Outlines::outline_rec and Scaler::load / load_composite
         recursion over an arbitrary component map (GLYF_COMPOSITE_RECURSION_LIMIT = 32)
   Hand-written from the source, statement by statement.  No proofs in this file.
   Integers are unbounded Z; every index computation is explicit; every Rust panic site (slice indexing,
   usize +/- under overflow-checks, copy_within range checks) is an explicit panic outcome. *)
From Coq Require Import ZArith List Bool.
From FV Require Import Lib.RustInt C02.IftModel C02.IftSbs.
Import ListNotations.
Open Scope Z_scope.

(* ------------------------------------------------------------------------------------------ *)
(* slices: checked access by a usize index held in Z                                           *)
(* ------------------------------------------------------------------------------------------ *)
Definition usize_max : Z := 18446744073709551615.
Definition isize_max : Z := 9223372036854775807.
Definition zlen {A} (l : list A) : Z := Z.of_nat (length l).

(* slice.get(i) *)
Definition zget {A} (l : list A) (i : Z) : option A :=
  if (i <? 0) || (zlen l <=? i) then None else nth_error l (Z.to_nat i).

Fixpoint set_nth {A} (l : list A) (n : nat) (v : A) : option (list A) :=
  match l, n with
  | [], _ => None
  | _ :: r, O => Some (v :: r)
  | x :: r, S m => match set_nth r m v with Some r' => Some (x :: r') | None => None end
  end.
(* slice.get_mut(i).map(|p| *p = v) *)
Definition zset {A} (l : list A) (i : Z) (v : A) : option (list A) :=
  if (i <? 0) || (zlen l <=? i) then None else set_nth l (Z.to_nat i) v.

(* a checked_sub b on usize *)
Definition checked_sub (a b : Z) : option Z := if a <? b then None else Some (a - b).
(* a + b on usize under overflow-checks: None = panic *)
Definition add_usize (a b : Z) : option Z := if usize_max <? a + b then None else Some (a + b).
(* a - b on usize under overflow-checks: None = panic *)
Definition sub_usize (a b : Z) : option Z := if a <? b then None else Some (a - b).

(* ------------------------------------------------------------------------------------------ *)
(* (a) Decycler<usize, D>                                                                      *)
(* ------------------------------------------------------------------------------------------ *)
Record decycler := mkDec { node_ids : list Z; ddepth : Z }.

(* Decycler::new : node_ids = [T::default(); D], depth = 0 *)
Definition dec_new (D : Z) : decycler := mkDec (repeat 0 (Z.to_nat D)) 0.

Inductive enter_res :=
| Entered (d : decycler)
| CycleDetected
| DepthLimitExceeded
| EnterPanic.                       (* array index out of bounds / usize overflow *)

(* Decycler::enter *)
Definition dec_enter (D : Z) (d : decycler) (id : Z) : enter_res :=
  if ddepth d <? D then
    let do_enter :=
      match zset (node_ids d) (ddepth d) id with             (* self.node_ids[self.depth] = node_id *)
      | None => EnterPanic
      | Some ids' =>
          match add_usize (ddepth d) 1 with                   (* self.depth += 1 *)
          | None => EnterPanic
          | Some dp => Entered (mkDec ids' dp)
          end
      end in
    if ddepth d =? 0 then do_enter
    else match zget (node_ids d) (ddepth d / 2) with          (* self.node_ids[self.depth / 2] *)
         | None => EnterPanic
         | Some x => if negb (x =? id) then do_enter else CycleDetected
         end
  else DepthLimitExceeded.

(* DecyclerGuard::drop : self.decycler.depth -= 1 *)
Definition dec_leave (d : decycler) : option decycler :=
  match sub_usize (ddepth d) 1 with
  | None => None
  | Some dp => Some (mkDec (node_ids d) dp)
  end.

(* verif_drive_decycler: Some id = enter (recursing on success), None = leave the innermost entered
   node (ignored at depth 0).  Outcome (code, depth after): 0 entered, 1 cycle, 2 depth limit.
   The Rust driver recurses once per successful enter, so its recursion depth equals [ddepth];
   returning from the recursion drops the guard.  Result None = a panic somewhere. *)
Fixpoint dec_drive (D : Z) (d : decycler) (ops : list (option Z)) : option (list (Z * Z)) :=
  match ops with
  | [] => Some []
  | Some id :: r =>
      match dec_enter D d id with
      | EnterPanic => None
      | Entered d' => option_map (cons (0, ddepth d')) (dec_drive D d' r)
      | CycleDetected => option_map (cons (1, ddepth d)) (dec_drive D d r)
      | DepthLimitExceeded => option_map (cons (2, ddepth d)) (dec_drive D d r)
      end
  | None :: r =>
      if ddepth d =? 0 then dec_drive D d r
      else match dec_leave d with
           | None => None
           | Some d' => dec_drive D d' r
           end
  end.

(* ------------------------------------------------------------------------------------------ *)
(* (b) ValueStack                                                                              *)
(* ------------------------------------------------------------------------------------------ *)
Inductive herr :=
| EOverflow                 (* HintErrorKind::ValueStackOverflow *)
| EUnderflow                (* HintErrorKind::ValueStackUnderflow *)
| EInvalidStackValue (v : Z)
| EOp (code : Z).           (* whatever error the closure given to apply_unary/apply_binary returned *)

Inductive out (A : Type) := Ok (a : A) | Err (e : herr).
Arguments Ok {A} a. Arguments Err {A} e.

(* values: the backing slice (fixed capacity = its length); vlen: self.len *)
Record vstack := mkVS { vals : list Z; vlen : Z }.

(* a &mut self method: None = the method panicked; otherwise the state it left behind and what it
   returned (state changes made before an early `?` return are kept, as in Rust) *)
Definition M (A : Type) := vstack -> option (vstack * out A).
Definition ret {A} (a : A) : M A := fun s => Some (s, Ok a).
Definition fail {A} (e : herr) : M A := fun s => Some (s, Err e).
Definition bind {A B} (m : M A) (k : A -> M B) : M B := fun s =>
  match m s with
  | None => None
  | Some (s', Ok a) => k a s'
  | Some (s', Err e) => Some (s', Err e)
  end.
Notation "'vdo' x <- m ;; k" := (bind m (fun x => k)) (at level 200, x name, m at level 100, k at level 200).

(* ValueStack::push *)
Definition vs_push (v : Z) : M unit := fun s =>
  match zset (vals s) (vlen s) v with                         (* self.values.get_mut(self.len).ok_or(Overflow)? *)
  | None => Some (s, Err EOverflow)
  | Some vs' =>
      match add_usize (vlen s) 1 with                          (* self.len += 1 *)
      | None => None
      | Some n => Some (mkVS vs' n, Ok tt)
      end
  end.

(* writes l into vs starting at index i (the zip loop of push_inline_operands) *)
Fixpoint write_at (vs : list Z) (i : nat) (l : list Z) : list Z :=
  match l with
  | [] => vs
  | x :: r => match set_nth vs i x with
              | Some vs' => write_at vs' (S i) r
              | None => vs
              end
  end.

(* ValueStack::push_inline_operands, the operands abstracted as the list of decoded values *)
Definition vs_push_list (l : list Z) : M unit := fun s =>
  let push_count := zlen l in
  let stack_base := vlen s in
  match add_usize stack_base push_count with                   (* stack_base + push_count *)
  | None => None
  | Some hi =>
      (* self.values.get_mut(stack_base..hi).ok_or(Overflow)? : needs stack_base <= hi <= values.len() *)
      if (hi <? stack_base) || (zlen (vals s) <? hi) then Some (s, Err EOverflow)
      else match add_usize (vlen s) push_count with            (* self.len += push_count *)
           | None => None
           | Some n => Some (mkVS (write_at (vals s) (Z.to_nat stack_base) l) n, Ok tt)
           end
  end.

(* ValueStack::peek *)
Definition vs_peek (s : vstack) : option Z :=
  if 0 <? vlen s then zget (vals s) (vlen s - 1) else None.

(* ValueStack::pop *)
Definition vs_pop (ped : bool) : M Z := fun s =>
  match vs_peek s with
  | Some v => match sub_usize (vlen s) 1 with                  (* self.len -= 1 *)
              | None => None
              | Some n => Some (mkVS (vals s) n, Ok v)
              end
  | None => if ped then Some (s, Err EUnderflow) else Some (s, Ok 0)
  end.

(* ValueStack::pop_usize : i32 as usize *)
Definition vs_pop_usize (ped : bool) : M Z := vdo v <- vs_pop ped ;; ret (wrap_u 64 v).

(* ValueStack::pop_count_checked *)
Definition vs_pop_count_checked (ped : bool) : M Z :=
  vdo v <- vs_pop ped ;;
  if (v <? 0) && ped then fail (EInvalidStackValue v) else ret (Z.max v 0).

(* ValueStack::apply_unary, op an arbitrary closure *)
Definition vs_apply_unary (ped : bool) (op : Z -> out Z) : M unit :=
  vdo a <- vs_pop ped ;;
  match op a with Ok r => vs_push r | Err e => fail e end.

(* ValueStack::apply_binary *)
Definition vs_apply_binary (ped : bool) (op : Z -> Z -> out Z) : M unit :=
  vdo b <- vs_pop ped ;;
  vdo a <- vs_pop ped ;;
  match op a b with Ok r => vs_push r | Err e => fail e end.

(* ValueStack::clear *)
Definition vs_clear : M unit := fun s => Some (mkVS (vals s) 0, Ok tt).

(* ValueStack::dup *)
Definition vs_dup (ped : bool) : M unit := fun s =>
  match vs_peek s with
  | Some v => vs_push v s
  | None => if ped then Some (s, Err EUnderflow) else vs_push 0 s
  end.

(* ValueStack::swap *)
Definition vs_swap (ped : bool) : M unit :=
  vdo a <- vs_pop ped ;; vdo b <- vs_pop ped ;; vdo _ <- vs_push a ;; vs_push b.

(* ValueStack::roll *)
Definition vs_roll (ped : bool) : M unit :=
  vdo a <- vs_pop ped ;; vdo b <- vs_pop ped ;; vdo c <- vs_pop ped ;;
  vdo _ <- vs_push b ;; vdo _ <- vs_push a ;; vs_push c.

(* ValueStack::copy_index (/repo 5407d30: FreeType Ins_CINDEX semantics).  In the range test `index as usize`
   is evaluated only when index > 0, where it equals index for every i32, so it is written [index]. *)
Definition vs_copy_index (ped : bool) : M unit :=
  vdo index <- vs_pop ped ;;                                    (* let index = self.pop()?; *)
  fun s =>
    if (index <=? 0) || (vlen s <? index) then                  (* index <= 0 || index as usize > self.len *)
      if ped then Some (s, Err (EInvalidStackValue index))      (* return Err(InvalidStackValue(index)) *)
      else vs_push 0 s                                          (* return self.push(0) *)
    else
      match sub_usize (vlen s) index with                       (* self.len - index as usize *)
      | None => None
      | Some element_ix =>
          match zget (vals s) element_ix with                   (* self.values[..] *)
          | None => None
          | Some e => vs_push e s                               (* self.push(..) *)
          end
      end.

(* slice.copy_within(src_lo..src_hi, dest): panics unless src_lo <= src_hi <= len and
   dest + (src_hi - src_lo) <= len; memmove semantics *)
Definition copy_within (l : list Z) (src_lo src_hi dest : Z) : option (list Z) :=
  if (src_hi <? src_lo) || (zlen l <? src_hi) || (zlen l <? dest + (src_hi - src_lo)) || (src_lo <? 0) || (dest <? 0)
  then None
  else
    let chunk := firstn (Z.to_nat (src_hi - src_lo)) (skipn (Z.to_nat src_lo) l) in
    Some (firstn (Z.to_nat dest) l ++ chunk ++ skipn (Z.to_nat (dest + (src_hi - src_lo))) l).

(* ValueStack::move_index (/repo 5407d30: FreeType Ins_MINDEX semantics) *)
Definition vs_move_index (ped : bool) : M unit :=
  vdo index <- vs_pop ped ;;                                    (* let index = self.pop()?; *)
  fun s =>
    if (index <=? 0) || (vlen s <? index) then
      if ped then Some (s, Err (EInvalidStackValue index))
      else Some (s, Ok tt)                                      (* return Ok(()) *)
    else
      match sub_usize (vlen s) index with                       (* element_ix = self.len - index as usize *)
      | None => None
      | Some element_ix =>
          match zget (vals s) element_ix with                   (* let value = self.values[element_ix] *)
          | None => None
          | Some value =>
              match add_usize element_ix 1 with                 (* element_ix + 1 *)
              | None => None
              | Some lo =>
                  match copy_within (vals s) lo (vlen s) element_ix with
                  | None => None
                  | Some vs1 =>
                      match sub_usize (vlen s) 1 with           (* self.len - 1 *)
                      | None => None
                      | Some t =>
                          match zset vs1 t value with           (* self.values[self.len - 1] = value *)
                          | None => None
                          | Some vs2 => Some (mkVS vs2 (vlen s), Ok tt)
                          end
                      end
                  end
              end
          end
      end.

(* one operation of the public surface; closures are part of the operation *)
Inductive vop :=
| OPush (v : Z)
| OPushList (l : list Z)
| OPeek
| OPop
| OPopUsize
| OPopCount
| OUnary (f : Z -> out Z)
| OBinary (f : Z -> Z -> out Z)
| OClear
| ODup
| OSwap
| OCopyIndex
| OMoveIndex
| ORoll.

(* observation of one call: (code, value, len after)
   code 0 = Ok (value = returned integer, 0 for unit), 1 = overflow, 2 = underflow,
   3 = InvalidStackValue(value), 4 = peek returned None, 5 = closure error (value = its code) *)
Definition obs_of {A} (val : A -> Z) (r : vstack * out A) : vstack * (Z * Z * Z) :=
  let '(s, o) := r in
  (s, match o with
      | Ok a => (0, val a, vlen s)
      | Err EOverflow => (1, 0, vlen s)
      | Err EUnderflow => (2, 0, vlen s)
      | Err (EInvalidStackValue v) => (3, v, vlen s)
      | Err (EOp c) => (5, c, vlen s)
      end).

Definition unit0 (_ : unit) : Z := 0.
Definition idz (z : Z) : Z := z.

Definition vs_step (ped : bool) (o : vop) (s : vstack) : option (vstack * (Z * Z * Z)) :=
  match o with
  | OPush v => option_map (obs_of unit0) (vs_push v s)
  | OPushList l => option_map (obs_of unit0) (vs_push_list l s)
  | OPeek => Some (s, match vs_peek s with Some v => (0, v, vlen s) | None => (4, 0, vlen s) end)
  | OPop => option_map (obs_of idz) (vs_pop ped s)
  | OPopUsize => option_map (obs_of idz) (vs_pop_usize ped s)
  | OPopCount => option_map (obs_of idz) (vs_pop_count_checked ped s)
  | OUnary f => option_map (obs_of unit0) (vs_apply_unary ped f s)
  | OBinary f => option_map (obs_of unit0) (vs_apply_binary ped f s)
  | OClear => option_map (obs_of unit0) (vs_clear s)
  | ODup => option_map (obs_of unit0) (vs_dup ped s)
  | OSwap => option_map (obs_of unit0) (vs_swap ped s)
  | OCopyIndex => option_map (obs_of unit0) (vs_copy_index ped s)
  | OMoveIndex => option_map (obs_of unit0) (vs_move_index ped s)
  | ORoll => option_map (obs_of unit0) (vs_roll ped s)
  end.

(* run a whole op sequence; None = some call panicked *)
Fixpoint vs_run (ped : bool) (ops : list vop) (s : vstack) : option (vstack * list (Z * Z * Z)) :=
  match ops with
  | [] => Some (s, [])
  | o :: r =>
      match vs_step ped o s with
      | None => None
      | Some (s', ob) =>
          match vs_run ped r s' with
          | None => None
          | Some (s'', obs) => Some (s'', ob :: obs)
          end
      end
  end.

(* the closures the harness uses (harness/src/bin/c02.rs `ufun`/`bfun`) *)
Definition ufun (k : Z) (a : Z) : out Z :=
  match k with
  | 0 => Ok (wrap_s 32 (- a))
  | 1 => Err (EOp 7)
  | 2 => if a =? 0 then Err (EOp 8) else Ok (wrap_s 32 (a + 1))
  | _ => Ok a
  end.
Definition bfun (k : Z) (a b : Z) : out Z :=
  match k with
  | 0 => Ok (wrap_s 32 (a + b))
  | 1 => Ok (wrap_s 32 (a - b))
  | 2 => if b =? 0 then Err (EOp 9) else Ok a
  | _ => Err (EOp 7)
  end.

(* ------------------------------------------------------------------------------------------ *)
(* (c) CallStack                                                                               *)
(* ------------------------------------------------------------------------------------------ *)
Definition CALL_MAX_DEPTH : Z := 32.

Inductive cs_res (C A : Type) := CsOk (a : A) (c : C) | CsOverflow | CsUnderflow | CsPanic.
Arguments CsOk {C A} a c. Arguments CsOverflow {C A}. Arguments CsUnderflow {C A}. Arguments CsPanic {C A}.

Section CallStack.
  Context {R : Type}.
  Record callstack := mkCS { recs : list R; clen : Z }.

  (* CallStack::default *)
  Definition cs_new (dflt : R) : callstack := mkCS (repeat dflt (Z.to_nat CALL_MAX_DEPTH)) 0.
  (* CallStack::clear *)
  Definition cs_clear (c : callstack) : callstack := mkCS (recs c) 0.

  (* CallStack::push *)
  Definition cs_push (c : callstack) (r : R) : cs_res callstack unit :=
    match zset (recs c) (clen c) r with                        (* self.records.get_mut(self.len).ok_or(Overflow)? *)
    | None => CsOverflow
    | Some rs' => match add_usize (clen c) 1 with              (* self.len += 1 *)
                  | None => CsPanic
                  | Some n => CsOk tt (mkCS rs' n)
                  end
    end.

  (* CallStack::peek *)
  Definition cs_peek (c : callstack) : option R :=
    match checked_sub (clen c) 1 with
    | None => None
    | Some i => zget (recs c) i
    end.

  (* CallStack::pop *)
  Definition cs_pop (c : callstack) : cs_res callstack R :=
    match cs_peek c with
    | None => CsUnderflow
    | Some r => match sub_usize (clen c) 1 with                (* self.len -= 1 *)
                | None => CsPanic
                | Some n => CsOk r (mkCS (recs c) n)
                end
    end.
End CallStack.
Arguments callstack R : clear implicits.

Inductive cop := CPush (pc count : Z) | CPeek | CPop | CClear.

(* observation (code, return_pc, current_count): 0 ok, 1 overflow, 2 underflow, 4 peek None *)
Fixpoint cs_run (ops : list cop) (c : callstack (Z * Z)) : option (list (Z * Z * Z)) :=
  match ops with
  | [] => Some []
  | CPush pc n :: r =>
      match cs_push c (pc, n) with
      | CsOk _ c' => option_map (cons (0, 0, 0)) (cs_run r c')
      | CsOverflow => option_map (cons (1, 0, 0)) (cs_run r c)
      | CsUnderflow => option_map (cons (2, 0, 0)) (cs_run r c)
      | CsPanic => None
      end
  | CPeek :: r =>
      option_map (cons (match cs_peek c with Some (pc, n) => (0, pc, n) | None => (4, 0, 0) end)) (cs_run r c)
  | CPop :: r =>
      match cs_pop c with
      | CsOk (pc, n) c' => option_map (cons (0, pc, n)) (cs_run r c')
      | CsOverflow => option_map (cons (1, 0, 0)) (cs_run r c)
      | CsUnderflow => option_map (cons (2, 0, 0)) (cs_run r c)
      | CsPanic => None
      end
  | CClear :: r => option_map (cons (0, 0, 0)) (cs_run r (cs_clear c))
  end.

(* ------------------------------------------------------------------------------------------ *)
(* (d) the interpreter run loop and its budgets, over an arbitrary instruction oracle          *)
(* ------------------------------------------------------------------------------------------ *)
Definition MAX_RUN_INSTRUCTIONS : Z := 1000000.

(* engine/mod.rs LoopBudget *)
Record budget := mkBudget { blimit : Z; backward_jumps : Z; loop_calls : Z }.

(* LoopBudget::new *)
Definition loop_limit (point_count : option Z) (cvt_len : Z) : Z :=
  match point_count with
  | Some pc => Z.max (pc * 10) 50 + Z.max (cvt_len / 10) 50
  | None => 300 + 22 * cvt_len
  end.
(* LoopBudget::reset *)
Definition budget_reset (b : budget) : budget := mkBudget (blimit b) 0 0.

(* result of a budget update: None = usize overflow panic; Some (b', ok) *)
(* LoopBudget::doing_backward_jump *)
Definition doing_backward_jump (b : budget) : option (budget * bool) :=
  match add_usize (backward_jumps b) 1 with
  | None => None
  | Some n => Some (mkBudget (blimit b) n (loop_calls b), negb (blimit b <? n))
  end.
(* LoopBudget::doing_loop_call *)
Definition doing_loop_call (b : budget) (count : Z) : option (budget * bool) :=
  match add_usize (loop_calls b) count with
  | None => None
  | Some n => Some (mkBudget (blimit b) (backward_jumps b) n, negb (blimit b <? n))
  end.

(* error kinds reported by the machine (positions in HintErrorKind) *)
Definition K_END : Z := 0.            (* UnexpectedEndOfBytecode *)
Definition K_CS_OVER : Z := 9.        (* CallStackOverflow *)
Definition K_CS_UNDER : Z := 10.      (* CallStackUnderflow *)
Definition K_INVALID_JUMP : Z := 20.  (* InvalidJump *)
Definition K_BUDGET : Z := 21.        (* ExceededExecutionBudget *)

Section Machine.
  (* S: everything the real Engine holds besides the call stack and the loop budget (decoder pc,
     current program, value stack, graphics state, definitions, zones, ...); P: the part of a
     CallRecord other than current_count (caller_program, return_pc, definition) *)
  Context {S P : Type}.

  (* what one decode()+dispatch() does, classified by control-flow effect only *)
  Inductive effect :=
  | FHalt                                   (* decode() = None: end of bytecode *)
  | FDecodeErr                              (* decode() = Some(Err) *)
  | FErr (kind : Z)                         (* dispatch returned Err(kind) without touching the guards *)
  | FNext (s : S)                           (* any instruction that touches neither call stack nor budget,
                                               including forward / not-taken jumps *)
  | FJumpBack (s : S)                       (* do_jump taken with jump_offset < -1 *)
  | FCall (p : P) (s : S)                   (* op_call / op_unknown -> do_call(.., 1, ..) -> program.enter *)
  | FLoopCall (count : Z) (p : P) (s : S)   (* op_loopcall with count > 0, definition found *)
  | FLoopCallErr (count : Z) (kind : Z)     (* op_loopcall with count > 0, definition lookup fails after
                                               the budget has been charged *)
  | FLeave (again : P -> S) (back : P -> S). (* op_endf -> program.leave *)

  Variable oracle : S -> effect.

  Record mstate := mkM { sigma : S; cstack : callstack (Z * P); bud : budget }.

  Inductive dres := DOk (m : mstate) | DErr (kind : Z) (m : mstate) | DPanic.

  (* ProgramState::enter *)
  Definition prog_enter (m : mstate) (count : Z) (p : P) (s : S) : dres :=
    match cs_push (cstack m) (count, p) with
    | CsOk _ c' => DOk (mkM s c' (bud m))
    | CsOverflow => DErr K_CS_OVER m
    | CsUnderflow => DErr K_CS_UNDER m
    | CsPanic => DPanic
    end.

  (* ProgramState::leave *)
  Definition prog_leave (m : mstate) (again back : P -> S) : dres :=
    match cs_pop (cstack m) with
    | CsOk (count, p) c' =>
        if 1 <? count then
          (* record.current_count -= 1; decoder.pc = start; call_stack.push(record)? *)
          match cs_push c' (count - 1, p) with
          | CsOk _ c'' => DOk (mkM (again p) c'' (bud m))
          | CsOverflow => DErr K_CS_OVER (mkM (sigma m) c' (bud m))
          | CsUnderflow => DErr K_CS_UNDER (mkM (sigma m) c' (bud m))
          | CsPanic => DPanic
          end
        else DOk (mkM (back p) c' (bud m))
    | CsOverflow => DErr K_CS_OVER m
    | CsUnderflow => DErr K_CS_UNDER m
    | CsPanic => DPanic
    end.

  (* Engine::dispatch restricted to the guards.  On Err the oracle state is left at the failing
     instruction (sigma unchanged); guard updates made before the error are kept. *)
  Definition dispatch (e : effect) (m : mstate) : dres :=
    match e with
    | FHalt | FDecodeErr => DOk m          (* not dispatched; handled by run *)
    | FErr k => DErr k m
    | FNext s => DOk (mkM s (cstack m) (bud m))
    | FJumpBack s =>
        match doing_backward_jump (bud m) with
        | None => DPanic
        | Some (b', true) => DOk (mkM s (cstack m) b')
        | Some (b', false) => DErr K_BUDGET (mkM (sigma m) (cstack m) b')
        end
    | FCall p s => prog_enter m 1 p s
    | FLoopCall count p s =>
        match doing_loop_call (bud m) count with
        | None => DPanic
        | Some (b', true) => prog_enter (mkM (sigma m) (cstack m) b') count p s
        | Some (b', false) => DErr K_BUDGET (mkM (sigma m) (cstack m) b')
        end
    | FLoopCallErr count k =>
        match doing_loop_call (bud m) count with
        | None => DPanic
        | Some (b', true) => DErr k (mkM (sigma m) (cstack m) b')
        | Some (b', false) => DErr K_BUDGET (mkM (sigma m) (cstack m) b')
        end
    | FLeave again back => prog_leave m again back
    end.

  Inductive run_out :=
  | RunOk                       (* Ok(()) *)
  | RunErr (kind : Z)           (* Err(HintError { kind, .. }) from decode or dispatch *)
  | RunErrMax                   (* Err(ExceededExecutionBudget) from the count > MAX_RUN_INSTRUCTIONS test *)
  | RunPanic
  | RunOutOfFuel.               (* artefact of the fuel; run_bounded shows it cannot happen *)

  (* Engine::run.  count = the local `count`.  Returns (outcome, number of dispatch() calls made,
     final state, oracle state at the last decode) *)
  Fixpoint run_fuel (fuel : nat) (count : Z) (m : mstate) : run_out * Z * mstate * S :=
    match fuel with
    | O => (RunOutOfFuel, count, m, sigma m)
    | Datatypes.S f =>
        match oracle (sigma m) with
        | FHalt => (RunOk, count, m, sigma m)
        | FDecodeErr => (RunErr K_END, count, m, sigma m)
        | e =>
            match dispatch e m with
            | DPanic => (RunPanic, count + 1, m, sigma m)
            | DErr k m' => (RunErr k, count + 1, m', sigma m)
            | DOk m' =>
                let count' := count + 1 in                     (* count += 1 *)
                if MAX_RUN_INSTRUCTIONS <? count' then (RunErrMax, count', m', sigma m)
                else run_fuel f count' m'
            end
        end
    end.

  (* enough fuel for every oracle: MAX_RUN_INSTRUCTIONS + 2 *)
  Definition run (m : mstate) : run_out * Z * mstate * S :=
    run_fuel (Z.to_nat (MAX_RUN_INSTRUCTIONS + 2)) 0 m.
End Machine.
Arguments effect S P : clear implicits.
Arguments mstate S P : clear implicits.

(* wrap_u 64 / wrap_s 32 / wrap_s 16 with the powers of two written out (2^k is recomputed on every
   call of the Lib definitions, which dominates the million-step runs of the shards) *)
Definition wu64 (z : Z) : Z := if (0 <=? z) && (z <? 18446744073709551616) then z else z mod 18446744073709551616.
Definition ws32 (z : Z) : Z := if (-2147483648 <=? z) && (z <? 2147483648) then z else (z + 2147483648) mod 4294967296 - 2147483648.
Definition ws16 (z : Z) : Z := if (-32768 <=? z) && (z <? 32768) then z else (z + 32768) mod 65536 - 32768.

(* ---- a concrete oracle: a byte-level TrueType subset (used by the correspondence shards) ----
   Opcodes: PUSHB[n] 0xB0..0xB7, PUSHW[n] 0xB8..0xBF, JMPR 0x1C, JROT 0x78, JROF 0x79, CALL 0x2B,
   LOOPCALL 0x2A, FDEF 0x2C, ENDF 0x2D, DUP 0x20, POP 0x21, RTG 0x18 (used as a no-op).  Programs
   containing any other opcode are outside this instance (the harness never generates them).
   Value stack: non-pedantic ValueStack of capacity t_cap (fpgm/prep always run non-pedantic);
   function definitions: hint/definition.rs DefinitionMap::{allocate, get}. *)
Record tstate := mkT {
  t_code : list (list Z);        (* [fpgm; prep] *)
  t_prog : Z;                    (* program.current: 0 font, 1 control value *)
  t_pc : Z;                      (* decoder.pc *)
  t_decoding : Z;                (* which of t_code is decoder.bytecode *)
  t_stack : list Z;              (* values()[..len], top first *)
  t_cap : Z;                     (* value stack capacity *)
  t_defs : list (option (Z * Z * Z))    (* Definition: None inactive, Some (key, program, start) *)
}.

(* CallRecord minus current_count: (caller_program, return_pc, definition program, definition start) *)
Definition trec := (Z * Z * Z * Z)%type.

Definition t_bytes (t : tstate) : list Z := nth (Z.to_nat (t_decoding t)) (t_code t) [].

(* non-pedantic pop on a list stack *)
Definition lpop (st : list Z) : Z * list Z :=
  match st with
  | [] => (0, st)
  | x :: r => (x, r)
  end.

Fixpoint be_words (l : list Z) : list Z :=
  match l with
  | hi :: lo :: r => ws16 (hi * 256 + lo) :: be_words r
  | _ => []
  end.

Definition K_UNHANDLED : Z := 1.
Definition K_NESTED_DEF : Z := 3.
Definition K_TOO_MANY_DEFS : Z := 5.
Definition K_INVALID_DEF : Z := 6.
Definition K_VS_OVER : Z := 7.

(* (opcode, size in bytes) of the instruction at pc; None = pc outside the bytecode *)
Definition ins_size (code : list Z) (pc : Z) : option (Z * Z) :=
  match zget code pc with
  | None => None
  | Some op =>
      if (176 <=? op) && (op <=? 183) then Some (op, 2 + (op - 176))
      else if (184 <=? op) && (op <=? 191) then Some (op, 1 + 2 * (op - 184 + 1))
      else Some (op, 1)
  end.

(* the scan loop of do_def: (0, pc after ENDF) or (1, error kind) *)
Fixpoint scan_endf (fuel : nat) (code : list Z) (pc : Z) : Z * Z :=
  match fuel with
  | O => (1, K_END)
  | Datatypes.S f =>
      match ins_size code pc with
      | None => (1, K_END)
      | Some (op, sz) =>
          if zlen code <? pc + sz then (1, K_END)                   (* inline operands truncated *)
          else if (op =? 44) || (op =? 137) then (1, K_NESTED_DEF)
          else if op =? 45 then (0, pc + 1)
          else scan_endf f code (pc + sz)
      end
  end.

Definition def_matches (key : Z) (d : option (Z * Z * Z)) : bool :=
  match d with Some (k, _, _) => k =? key | None => false end.
Definition def_inactive (d : option (Z * Z * Z)) : bool := match d with None => true | _ => false end.

(* reverse scan of DefinitionMap::allocate over the entries (index, def), highest index first *)
Fixpoint alloc_scan (key : Z) (rdefs : list (Z * option (Z * Z * Z))) (last_inactive : option Z) : option Z :=
  match rdefs with
  | [] => last_inactive
  | (i, d) :: r =>
      match d with
      | Some (k, _, _) => if k =? key then Some i else alloc_scan key r last_inactive
      | None => alloc_scan key r (match last_inactive with None => Some i | s => s end)
      end
  end.

Definition enumerate_rev {A} (l : list A) : list (Z * A) :=
  rev (combine (map Z.of_nat (seq 0 (length l))) l).

(* DefinitionMap::allocate : index of the slot, None = TooManyDefinitions *)
Definition def_allocate (defs : list (option (Z * Z * Z))) (key : Z) : option Z :=
  let ku := wrap_u 64 key in
  match zget defs ku with
  | Some d => if def_inactive d || def_matches key d then Some ku
              else alloc_scan key (enumerate_rev defs) None
  | None => alloc_scan key (enumerate_rev defs) None
  end.

(* DefinitionMap::get *)
Definition def_get (defs : list (option (Z * Z * Z))) (key : Z) : option (Z * Z * Z) :=
  match zget defs (wrap_u 64 key) with
  | Some (Some (k, p, st)) => if k =? key then Some (k, p, st)
                              else match find (def_matches key) (rev defs) with Some d => d | None => None end
  | _ => match find (def_matches key) (rev defs) with Some d => d | None => None end
  end.

Definition t_oracle (t : tstate) : effect tstate trec :=
  let code := t_bytes t in
  let pc := t_pc t in
  match ins_size code pc with
  | None => FHalt
  | Some (op, sz) =>
      if zlen code <? pc + sz then FDecodeErr
      else
        let t1 := mkT (t_code t) (t_prog t) (pc + sz) (t_decoding t) (t_stack t) (t_cap t) (t_defs t) in
        let with_stack (t0 : tstate) st := mkT (t_code t0) (t_prog t0) (t_pc t0) (t_decoding t0) st (t_cap t0) (t_defs t0) in
        let with_pc (t0 : tstate) p := mkT (t_code t0) (t_prog t0) p (t_decoding t0) (t_stack t0) (t_cap t0) (t_defs t0) in
        let push_all (vs : list Z) :=
          if t_cap t <? zlen (t_stack t) + zlen vs then FErr K_VS_OVER
          else FNext (with_stack t1 (rev_append vs (t_stack t))) in
        if (176 <=? op) && (op <=? 183) then
          push_all (firstn (Z.to_nat (sz - 1)) (skipn (Z.to_nat (pc + 1)) code))
        else if (184 <=? op) && (op <=? 191) then
          push_all (be_words (firstn (Z.to_nat (sz - 1)) (skipn (Z.to_nat (pc + 1)) code)))
        else if op =? 24 then FNext t1                                         (* RTG *)
        else if op =? 33 then FNext (with_stack t1 (snd (lpop (t_stack t))))   (* POP *)
        else if op =? 32 then                                                  (* DUP *)
          let v := fst (lpop (t_stack t)) in
          if t_cap t <? zlen (t_stack t) + 1 then FErr K_VS_OVER
          else FNext (with_stack t1 (v :: t_stack t))
        else if (op =? 28) || (op =? 120) || (op =? 121) then                  (* JMPR / JROT / JROF *)
          let '(test, st1) :=
            if op =? 28 then (true, t_stack t)
            else let '(e, st') := lpop (t_stack t) in
                 ((if op =? 120 then negb (e =? 0) else (e =? 0)), st') in
          let '(off, st2) := lpop st1 in
          let jump_offset := ws32 (off - 1) in
          let t2 := with_stack t1 st2 in
          if test then
            if jump_offset <? 0 then
              if jump_offset =? -1 then FErr K_INVALID_JUMP
              else FJumpBack (with_pc t2 (wu64 (pc + sz + jump_offset)))
            else FNext (with_pc t2 (wu64 (pc + sz + jump_offset)))
          else FNext t2
        else if (op =? 43) || (op =? 42) then                                  (* CALL / LOOPCALL *)
          let '(f, st1) := lpop (t_stack t) in
          let '(count, st2) := if op =? 42 then lpop st1 else (1, st1) in
          let t2 := with_stack t1 st2 in
          if (op =? 42) && (count <=? 0) then FNext t2
          else
            match def_get (t_defs t) f with
            | Some (_, dprog, dstart) =>
                let callee := mkT (t_code t) dprog dstart dprog st2 (t_cap t) (t_defs t) in
                let p : trec := (t_prog t, pc + sz, dprog, dstart) in
                if op =? 42 then FLoopCall count p callee else FCall p callee
            | None => if op =? 42 then FLoopCallErr count K_INVALID_DEF else FErr K_INVALID_DEF
            end
        else if op =? 44 then                                                  (* FDEF *)
          let '(f, st1) := lpop (t_stack t) in
          match def_allocate (t_defs t) f with
          | None => FErr K_TOO_MANY_DEFS
          | Some ix =>
              let '(status, v) := scan_endf (length code) code (pc + sz) in
              if status =? 0 then
                let defs' := match zset (t_defs t) ix (Some (f, t_prog t, pc + sz)) with
                             | Some d => d | None => t_defs t end in
                FNext (mkT (t_code t) (t_prog t) v (t_decoding t) st1 (t_cap t) defs')
              else FErr v
          end
        else if op =? 45 then                                                  (* ENDF *)
          FLeave (fun p : trec => let '(_, _, _, dstart) := p in with_pc t1 dstart)
                 (fun p : trec => let '(cprog, rpc, _, _) := p in
                    mkT (t_code t) cprog rpc cprog (t_stack t) (t_cap t) (t_defs t))
        else FErr K_UNHANDLED
  end.

(* Engine::run_program(prog, false) as called from HintInstance::reconfigure *)
Definition t_run_program (cvt_len : Z) (code : list (list Z)) (prog : Z) (cap : Z) (stack : list Z)
    (defs : list (option (Z * Z * Z))) : run_out * Z * mstate tstate trec * tstate :=
  let t0 := mkT code prog 0 prog stack cap defs in
  run t_oracle (mkM t0 (cs_new (0, (0, 0, 0, 0))) (mkBudget (loop_limit None cvt_len) 0 0)).

(* HintInstance::reconfigure: run fpgm then prep; observation (status, program, pc, kind):
   status 0 = both ran Ok; 1 = Err(HintError{program, pc, kind}); 2 = panic; 3 = out of fuel *)
Definition t_reconfigure (cvt_len cap nfdefs : Z) (fpgm prep : list Z) : Z * Z * Z * Z :=
  let code := [fpgm; prep] in
  let report (r : run_out * Z * mstate tstate trec * tstate) :=
    let '(o, _, m, last) := r in
    match o with
    | RunOk => (0, 0, 0, 0)
    | RunErr k => (1, t_prog last, t_pc last, k)
    | RunErrMax => (1, t_prog (sigma m), t_pc last, K_BUDGET)
    | RunPanic => (2, 0, 0, 0)
    | RunOutOfFuel => (3, 0, 0, 0)
    end in
  let r1 := t_run_program cvt_len code 0 cap [] (repeat None (Z.to_nat nfdefs)) in
  let '(o1, _, m1, _) := r1 in
  match o1 with
  | RunOk => report (t_run_program cvt_len code 1 cap (t_stack (sigma m1)) (t_defs (sigma m1)))
  | _ => report r1
  end.

(* ------------------------------------------------------------------------------------------ *)
(* (e) composite glyph recursion                                                               *)
(* ------------------------------------------------------------------------------------------ *)
Definition GLYF_COMPOSITE_RECURSION_LIMIT : Z := 32.

Inductive gkind := GEmpty | GSimple | GComposite (components : list Z).

Inductive load_res :=
| LoadOk
| LoadRecursionLimit          (* Err(DrawError::RecursionLimitExceeded) *)
| LoadOutOfFuel.              (* artefact of the fuel *)

Section Composite.
  (* loca.get_glyf(gid): an arbitrary map from glyph id to glyph *)
  Variable glyph_of : Z -> gkind.

  (* Scaler::load + load_composite (component loop with `?`), restricted to the recursion guard.
     Returns the result and the number of load() invocations made. *)
  Fixpoint load_fuel (fuel : nat) (depth : Z) (gid : Z) : load_res * Z :=
    match fuel with
    | O => (LoadOutOfFuel, 0)
    | Datatypes.S f =>
        if GLYF_COMPOSITE_RECURSION_LIMIT <? depth then (LoadRecursionLimit, 1)
        else
          match glyph_of gid with
          | GEmpty | GSimple => (LoadOk, 1)
          | GComposite comps =>
              (fix go (cs : list Z) (n : Z) : load_res * Z :=
                 match cs with
                 | [] => (LoadOk, n)
                 | c :: r =>
                     let '(res, k) := load_fuel f (depth + 1) c in
                     match res with
                     | LoadOk => go r (n + k)
                     | other => (other, n + k)
                     end
                 end) comps 1
          end
    end.

  (* enough fuel for every map: limit + 2 frames *)
  Definition load (depth gid : Z) : load_res * Z :=
    load_fuel (Z.to_nat (GLYF_COMPOSITE_RECURSION_LIMIT + 2)) depth gid.

  (* Outlines::outline_rec (called on a non-empty glyph; empty components are skipped before the
     recursive call, so they are not depth-checked) *)
  Fixpoint outline_rec_fuel (fuel : nat) (depth : Z) (gid : Z) : load_res * Z :=
    match fuel with
    | O => (LoadOutOfFuel, 0)
    | Datatypes.S f =>
        if GLYF_COMPOSITE_RECURSION_LIMIT <? depth then (LoadRecursionLimit, 1)
        else
          match glyph_of gid with
          | GEmpty | GSimple => (LoadOk, 1)
          | GComposite comps =>
              (fix go (cs : list Z) (n : Z) : load_res * Z :=
                 match cs with
                 | [] => (LoadOk, n)
                 | c :: r =>
                     match glyph_of c with
                     | GEmpty => go r n
                     | _ =>
                         let '(res, k) := outline_rec_fuel f (depth + 1) c in
                         match res with
                         | LoadOk => go r (n + k)
                         | other => (other, n + k)
                         end
                     end
                 end) comps 1
          end
    end.

  (* Outlines::outline *)
  Definition outline (gid : Z) : load_res * Z :=
    match glyph_of gid with
    | GEmpty => (LoadOk, 0)
    | _ => outline_rec_fuel (Z.to_nat (GLYF_COMPOSITE_RECURSION_LIMIT + 2)) 0 gid
    end.
End Composite.

(* ------------------------------------------------------------------------------------------ *)
(* correspondence case format (written by harness/src/bin/c02.rs)                              *)
(* ------------------------------------------------------------------------------------------ *)
Inductive ccase :=
| CaseDec (ops : list (option Z)) (obs : list (Z * Z))
| CaseVS (ped : bool) (init : list Z) (ops : list vop) (obs : list (Z * Z * Z)) (final_len : Z) (final : list Z)
| CaseCS (ops : list cop) (obs : list (Z * Z * Z))
| CaseRun (cvt_len cap nfdefs : Z) (fpgm prep : list Z) (obs : Z * Z * Z * Z)
| CaseComp (glyphs : list gkind) (gid : Z) (get_code draw_code : Z)
| CaseF1 (maxe maxg first : Z) (gentries gids bitmap : list Z) (pf : Z) (recs : option (list (Z * Z * Z)))
         (data : list Z) (feats : option (list Z)) (obs : Z * list Z)
| CaseF2 (default_fmt entry_count entries_offset : Z) (data : list Z) (obs : Z * list (Z * Z * Z)).

Definition zlist_eqb (a b : list Z) : bool :=
  (Nat.eqb (length a) (length b)) && forallb (fun p => Z.eqb (fst p) (snd p)) (combine a b).
Definition z2_eqb (a b : Z * Z) : bool := (fst a =? fst b) && (snd a =? snd b).
Definition z3_eqb (a b : Z * Z * Z) : bool := z2_eqb (fst a) (fst b) && (snd a =? snd b).
Definition z4_eqb (a b : Z * Z * Z * Z) : bool := z3_eqb (fst a) (fst b) && (snd a =? snd b).
Definition list_eqb {A} (eqb : A -> A -> bool) (a b : list A) : bool :=
  (Nat.eqb (length a) (length b)) && forallb (fun p => eqb (fst p) (snd p)) (combine a b).

Definition glyph_lookup (glyphs : list gkind) (gid : Z) : gkind :=
  match zget glyphs gid with Some g => g | None => GEmpty end.

Definition load_code (r : load_res) : Z :=
  match r with LoadOk => 0 | LoadRecursionLimit => 1 | LoadOutOfFuel => 3 end.

Definition check_case (c : ccase) : bool :=
  match c with
  | CaseDec ops obs =>
      match dec_drive 64 (dec_new 64) ops with
      | Some o => list_eqb z2_eqb o obs
      | None => false
      end
  | CaseVS ped init ops obs final_len final =>
      match vs_run ped ops (mkVS init 0) with
      | Some (s, o) => list_eqb z3_eqb o obs && (vlen s =? final_len) && zlist_eqb (vals s) final
      | None => false
      end
  | CaseCS ops obs =>
      match cs_run ops (cs_new (0, 0)) with
      | Some o => list_eqb z3_eqb o obs
      | None => false
      end
  | CaseRun cvt_len cap nfdefs fpgm prep obs =>
      z4_eqb (t_reconfigure cvt_len cap nfdefs fpgm prep) obs
  | CaseComp glyphs gid get_code draw_code =>
      let g := glyph_lookup glyphs in
      (load_code (fst (outline g gid)) =? get_code) &&
      ((get_code =? 1) || (load_code (fst (load g 0 gid)) =? draw_code))
  | CaseF1 maxe maxg first gentries gids bitmap pf recs data feats obs =>
      match f1_intersect maxe maxg first gentries gids bitmap pf recs data feats with
      | F1Ok ids => (fst obs =? 0) && zlist_eqb ids (snd obs)
      | F1Err => fst obs =? 1
      | F1Panic => fst obs =? 2
      end
  | CaseF2 default_fmt entry_count entries_offset data obs =>
      match f2_decode sbs_c14 default_fmt entry_count entries_offset data with
      | F2Ok es => (fst obs =? 0) && list_eqb z3_eqb (f2_visible es) (snd obs)
      | F2Err => fst obs =? 1
      | F2Panic => fst obs =? 2
      | F2OutOfFuel => false
      end
  end.
