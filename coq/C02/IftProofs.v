(* C02 (round 2) — proofs about the IFT patch-map decoding guards modelled in IftModel.v *)
From Coq Require Import ZArith Lia List Bool.
From Coq Require Import ZifyBool.
From FV Require Import C02.IftModel.
Import ListNotations.
Open Scope Z_scope.

Lemma ilen_nonneg {A} (l : list A) : 0 <= ilen l.
Proof. unfold ilen. lia. Qed.

Lemma take_len n d a r : take n d = Some (a, r) -> 0 <= n /\ ilen r = ilen d - n.
Proof.
  unfold take. destruct ((n <? 0) || (ilen d <? n)) eqn:E; [discriminate|].
  intros H. inversion H; subst. unfold ilen in *. rewrite skipn_length. lia.
Qed.

(* ------------------------------------------------------------------------------------------ *)
(* (f2) format 2 entry loop                                                                    *)
(* ------------------------------------------------------------------------------------------ *)
Section F2Proofs.
  Variable sbs : list Z -> Z -> option (list Z).
  (* the sparse-bit-set decoder hands back (a suffix of) its input: never more data than it was given *)
  Hypothesis sbs_shrinks : forall d b r, sbs d b = Some r -> ilen r <= ilen d.

  Ltac take_facts :=
    repeat match goal with
           | H : take _ _ = Some (_, _) |- _ => apply take_len in H
           | H : sbs _ _ = Some _ |- _ => apply sbs_shrinks in H
           end.

  (* one entry: never a panic; a decoded entry consumes at least its flags byte and at most the data;
     its id is a u32 *)
  Lemma f2_entry_ok data start nprior last_id dflt :
    match f2_entry sbs data start nprior last_id dflt with
    | E2Ok (id, _, _, _) rest consumed =>
        ilen rest < ilen data /\ consumed = ilen data - ilen rest /\ 1 <= consumed /\ 0 <= id <= 4294967295
    | E2Err => True
    | E2Panic => False
    end.
  Proof.
    unfold f2_entry.
    repeat match goal with
           | |- context [match take ?n ?d with _ => _ end] => destruct (take n d) as [[? ?]|] eqn:?
           | |- context [match sbs ?d ?b with _ => _ end] => destruct (sbs d b) eqn:?
           | |- context [if ?c then _ else _] => destruct c eqn:?
           | |- match (let '(_, _) := ?p in _) with _ => _ end => destruct p
           | |- True => exact I
           end;
      try exact I; try discriminate;
      repeat match goal with
             | H : Some _ = Some _ |- _ => inversion H; clear H; subst
             | H : None = Some _ |- _ => discriminate H
             | H : Some _ = None |- _ => discriminate H
             end;
      take_facts; try lia;
      try (repeat split; lia).
  Qed.
End F2Proofs.
