(* C02 (round 2) — proofs about the IFT patch-map decoding guards modelled in IftModel.v *)
From Coq Require Import ZArith Lia List Bool.
From Coq Require Import ZifyBool.
From FV Require Import C02.IftModel.
Import ListNotations.
Open Scope Z_scope.

Lemma ilen_nonneg {A} (l : list A) : 0 <= ilen l.
Proof. unfold ilen. lia. Qed.

Lemma take_len n d a r : take n d = Some (a, r) -> 0 <= n /\ ilen r = ilen d - n.
Proof.
  unfold take. destruct ((n <? 0) || (ilen d <? n)) eqn:E; [discriminate|].
  intros H. inversion H; subst. unfold ilen in *. rewrite skipn_length. lia.
Qed.

Ltac take_facts :=
  repeat match goal with
         | H : take _ _ = Some (_, _) |- _ => apply take_len in H
         end.
Ltac crunch :=
  repeat match goal with
         | |- context [match take ?n ?d with _ => _ end] => destruct (take n d) as [[? ?]|] eqn:?
         | |- context [if ?c then _ else _] => destruct c eqn:?
         end;
  intros; try discriminate;
  repeat match goal with H : Some _ = Some _ |- _ => inversion H; clear H; subst end;
  take_facts; try lia.

(* ------------------------------------------------------------------------------------------ *)
(* (f2) format 2 entry loop                                                                    *)
(* ------------------------------------------------------------------------------------------ *)
Lemma f2_feat_len flags d0 b d4 : f2_feat flags d0 = Some (b, d4) -> ilen d4 <= ilen d0.
Proof. unfold f2_feat. crunch. Qed.
Lemma f2_child_len flags d4 n b d6 : f2_child flags d4 n = Some (b, d6) -> ilen d6 <= ilen d4.
Proof. unfold f2_child. cbv zeta. crunch. Qed.
Lemma f2_delta_len flags d6 v d7 : f2_delta flags d6 = Some (v, d7) -> ilen d7 <= ilen d6.
Proof. unfold f2_delta. crunch. Qed.
Lemma f2_pfmt_len flags d7 dflt v d8 : f2_pfmt flags d7 dflt = Some (v, d8) -> ilen d8 <= ilen d7.
Proof. unfold f2_pfmt. crunch. Qed.

Section F2Proofs.
  Variable sbs : list Z -> Z -> option (list Z).
  (* the sparse-bit-set decoder hands back (a suffix of) its input: never more data than it was given *)
  Hypothesis sbs_shrinks : forall d b r, sbs d b = Some r -> ilen r <= ilen d.

  Lemma f2_codepoints_len flags cp r : f2_codepoints sbs flags cp = Some r -> ilen r <= ilen cp.
  Proof.
    unfold f2_codepoints. cbv zeta.
    destruct (Z.land flags 48 =? 0); [intros H; inversion H; lia|].
    destruct (Z.land flags 48 =? 32).
    - destruct (take 2 cp) as [[b r0]|] eqn:T; [|discriminate]. intros H. apply sbs_shrinks in H. apply take_len in T. lia.
    - destruct (Z.land flags 48 =? 48).
      + destruct (take 3 cp) as [[b r0]|] eqn:T; [|discriminate]. intros H. apply sbs_shrinks in H. apply take_len in T. lia.
      + intros H. apply sbs_shrinks in H. lia.
  Qed.

  (* one entry: never a panic; a decoded entry consumes at least its flags byte and at most the data; its id is a u32 *)
  Lemma f2_entry_ok data start nprior last_id dflt :
    match f2_entry sbs data start nprior last_id dflt with
    | E2Ok (id, _, _, _) rest consumed =>
        ilen rest < ilen data /\ consumed = ilen data - ilen rest /\ 1 <= consumed /\ 0 <= id <= 4294967295
    | E2Err => True
    | E2Panic => False
    end.
  Proof.
    unfold f2_entry.
    destruct (take 1 data) as [[fl d0]|] eqn:T0; [|exact I]. cbv zeta.
    destruct (f2_feat (be_val fl) d0) as [[sok d4]|] eqn:E1; [|exact I].
    destruct (f2_child (be_val fl) d4 nprior) as [[cok d6]|] eqn:E2; [|exact I].
    destruct (f2_delta (be_val fl) d6) as [[dv d7]|] eqn:E3; [|exact I].
    destruct (f2_pfmt (be_val fl) d7 dflt) as [[pf cp]|] eqn:E4; [|exact I].
    destruct (negb cok); [exact I|]. destruct (negb sok); [exact I|].
    destruct ((last_id + 1 + dv <? 0) || (4294967295 <? last_id + 1 + dv)) eqn:Eid; [exact I|].
    destruct (negb ((pf =? 1) || (pf =? 2) || (pf =? 3))); [exact I|].
    destruct (f2_codepoints sbs (be_val fl) cp) as [rest|] eqn:E5; [|exact I].
    apply take_len in T0. apply f2_feat_len in E1. apply f2_child_len in E2. apply f2_delta_len in E3.
    apply f2_pfmt_len in E4. apply f2_codepoints_len in E5.
    destruct (ilen data <? ilen rest) eqn:El; [lia|]. repeat split; lia.
  Qed.

  (* the loop: with fuel > #data it never runs out of fuel and never panics; what it returns has exactly
     entry_count entries (for a positive count), at most one per data byte, all ids u32 *)
  Lemma f2_loop_ok : forall fuel dflt count data start acc,
    (length data < fuel)%nat ->
    match f2_loop sbs fuel dflt count data start acc with
    | F2Ok es => Z.of_nat (length es) = Z.of_nat (length acc) + Z.max 0 count /\
                 Z.max 0 count <= ilen data
    | F2Err => True
    | F2Panic => False
    | F2OutOfFuel => False
    end.
  Proof.
    induction fuel as [|f IH]; intros dflt count data start acc Hf; [lia|].
    cbn [f2_loop]. destruct (count <=? 0) eqn:Ec.
    - cbv beta iota. rewrite rev_length. pose proof (ilen_nonneg data). lia.
    - pose proof (f2_entry_ok data start (ilen acc)
                    (match acc with (id, _, _, _) :: _ => id | [] => 0 end) dflt) as He.
      destruct (f2_entry sbs data start (ilen acc) (match acc with (id, _, _, _) :: _ => id | [] => 0 end) dflt)
        as [[[[id pf] ign] bit] rest consumed| |]; [|exact I|contradiction].
      destruct He as (Hlt & Hc & H1 & Hid).
      assert (Hf' : (length rest < f)%nat) by (unfold ilen in *; lia).
      specialize (IH dflt (count - 1) rest (start + consumed) ((id, pf, ign, bit) :: acc) Hf').
      match goal with |- match ?X with _ => _ end =>
        change (f2_loop sbs f dflt (count - 1) rest (start + consumed) ((id, pf, ign, bit) :: acc)) with X in IH;
        revert IH; generalize X; intros R IH; destruct R; auto end.
      cbv beta iota in IH |- *. cbn [length] in IH. unfold ilen in *. lia.
  Qed.

  Lemma f2_decode_total_lemma : forall dflt count off data,
    match f2_decode sbs dflt count off data with
    | F2Ok es => Z.of_nat (length es) = Z.max 0 count /\ Z.max 0 count <= ilen data
    | F2Err => True
    | F2Panic => False
    | F2OutOfFuel => False
    end.
  Proof.
    intros. unfold f2_decode. destruct (negb ((dflt =? 1) || (dflt =? 2) || (dflt =? 3))); [exact I|].
    pose proof (f2_loop_ok (S (length data)) dflt count data off [] ltac:(lia)) as H.
    remember (f2_loop sbs (S (length data)) dflt count data off []) as R eqn:ER. clear ER. destruct R; auto; try (cbv beta iota in H |- *; cbn [length] in H; lia).
  Qed.
End F2Proofs.

(* the i64 id computation of compute_format2_new_entry_index cannot overflow *)
Lemma f2_id_arith_no_overflow : forall last_id dv, 0 <= last_id <= 4294967295 -> -8388608 <= dv <= 8388607 ->
  -9223372036854775808 <= last_id + 1 + dv <= 9223372036854775807.
Proof. intros. lia. Qed.

(* ------------------------------------------------------------------------------------------ *)
(* (f1) format 1 feature map: the up-front size check makes the record indexing safe            *)
(* ------------------------------------------------------------------------------------------ *)
Definition sumc (recs : list (Z * Z * Z)) : Z := fold_right (fun r acc => snd r + acc) 0 recs.
Definition rec_ok (r : Z * Z * Z) : Prop := 0 <= snd r.      (* entry_map_count is unsigned *)

Lemma entry_records_size_sum w recs : entry_records_size w recs = sumc recs * w * 2.
Proof.
  unfold entry_records_size.
  assert (G : forall acc, fold_left (fun a r => a + snd r * w * 2) recs acc = acc + sumc recs * w * 2).
  { induction recs as [|r rs IH]; intros acc; cbn [fold_left sumc fold_right]; [lia|]. rewrite IH. fold (sumc rs). lia. }
  rewrite G. lia.
Qed.

Lemma sumc_nonneg recs : Forall rec_ok recs -> 0 <= sumc recs.
Proof.
  induction 1 as [|r rs H _ IH]; cbn [sumc fold_right]; [lia|]. fold (sumc rs). unfold rec_ok in H. lia.
Qed.

(* the inner loop never panics when every index it forms lies below the size that the up-front check compared
   with the data length *)
Lemma f1_record_loop_safe : forall n i w maxe maxg cum first_new data entries,
  (w = 1 \/ w = 2) -> 0 <= i -> 0 <= cum ->
  (cum + i + Z.of_nat n) * w * 2 <= ilen data ->
  f1_record_loop n i w maxe maxg cum first_new data entries <> StPanic.
Proof.
  induction n as [|n IH]; intros i w maxe maxg cum first_new data entries Hw Hi Hc Hd; cbn [f1_record_loop]; [discriminate|].
  cbv zeta.
  destruct (ilen data <? (i + cum) * w * 2) eqn:E4; [destruct Hw; subst; lia|].
  destruct (add_u16 first_new i).
  - destruct (read_w w data ((i + cum) * w * 2)); [|discriminate].
    destruct (read_w w data ((i + cum) * w * 2 + w)); [|discriminate].
    apply IH; try assumption; try lia.
  - apply IH; try assumption; try lia.
Qed.

Lemma f1_walk_safe : forall fuel w maxe maxg data tags recs cum largest entries,
  (w = 1 \/ w = 2) -> 0 <= cum -> Forall rec_ok recs ->
  (cum + sumc recs) * w * 2 <= ilen data ->
  f1_walk fuel w maxe maxg data tags recs cum largest entries <> StPanic.
Proof.
  induction fuel as [|f IH]; intros w maxe maxg data tags recs cum largest entries Hw Hc Hr Hd; cbn [f1_walk]; [discriminate|].
  assert (Hskip : forall t fn c rs tg lg, recs = (t, fn, c) :: rs ->
            f1_walk f w maxe maxg data tg rs (cum + c) lg entries <> StPanic).
  { intros t fn c rs tg lg ->. inversion Hr as [|? ? H1 H2]; subst. unfold rec_ok in H1. cbn [snd] in H1.
    cbn [sumc fold_right snd] in Hd. fold (sumc rs) in Hd.
    apply IH; try assumption; try lia. }
  assert (Hproc : forall t fn c rs tg lg, recs = (t, fn, c) :: rs ->
            match f1_record_loop (Z.to_nat c) 0 w maxe maxg cum fn data entries with
            | StOk entries' => f1_walk f w maxe maxg data tg rs (cum + c) lg entries'
            | other => other
            end <> StPanic).
  { intros t fn c rs tg lg ->. inversion Hr as [|? ? H1 H2]; subst. unfold rec_ok in H1. cbn [snd] in H1.
    cbn [sumc fold_right snd] in Hd. fold (sumc rs) in Hd. pose proof (sumc_nonneg rs H2).
    pose proof (f1_record_loop_safe (Z.to_nat c) 0 w maxe maxg cum fn data entries Hw ltac:(lia) Hc
                  ltac:(destruct Hw; subst; lia)) as Hl.
    destruct (f1_record_loop (Z.to_nat c) 0 w maxe maxg cum fn data entries); [|discriminate|contradiction].
    apply IH; try assumption; try lia. }
  destruct tags as [ts|].
  - destruct ts as [|t ts']; [discriminate|]. destruct recs as [|[[rt fn] c] rs]; [discriminate|].
    destruct (rt <? t); [apply (Hskip rt fn c rs (Some (t :: ts')) largest eq_refl)|].
    destruct (match largest with Some l => t <=? l | None => false end); [apply IH; assumption|].
    destruct (t <? rt); [apply IH; assumption|].
    apply (Hproc rt fn c rs (Some (t :: ts')) (Some t) eq_refl).
  - destruct recs as [|[[rt fn] c] rs]; [discriminate|].
    destruct (match largest with Some l => rt <=? l | None => false end);
      [apply (Hskip rt fn c rs None largest eq_refl)|apply (Hproc rt fn c rs None (Some rt) eq_refl)].
Qed.

(* format 1 is total: for every table (entry_map_counts unsigned), every subset definition: no panic.  The
   up-front comparison of entry_records_size with the data length — made with the SAME field width as the
   indexing — is what keeps entry_map_data[byte_index..] in range *)
Lemma f1_total_lemma : forall maxe maxg first gentries gids bitmap pf recs data feats,
  match recs with Some rs => Forall rec_ok rs | None => True end ->
  f1_intersect maxe maxg first gentries gids bitmap pf recs data feats <> F1Panic.
Proof.
  intros maxe maxg first gentries gids bitmap pf recs data feats Hrec. unfold f1_intersect.
  destruct (maxe <? maxg); [discriminate|].
  destruct (negb ((pf =? 1) || (pf =? 2) || (pf =? 3))); [discriminate|].
  destruct (f1_glyph_map first gentries maxg gids []); [|discriminate].
  destruct recs as [rs|]; [|discriminate].
  destruct (ilen data <? entry_records_size (f1_width maxe) rs) eqn:Esz; [discriminate|].
  rewrite entry_records_size_sum in Esz.
  assert (Hw : f1_width maxe = 1 \/ f1_width maxe = 2) by (unfold f1_width; destruct (maxe <? 256); auto).
  pose proof (f1_walk_safe (S (match feats with Some f => length f | None => 0%nat end + length rs))
                (f1_width maxe) maxe maxg data feats rs 0 None l Hw ltac:(lia) Hrec ltac:(lia)) as Hs.
  destruct (f1_walk _ _ _ _ _ _ _ _ _ _); [discriminate|discriminate|contradiction].
Qed.
