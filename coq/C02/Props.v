(* C02 — property theorems.  Only statements, [exact lemma], and Print Assumptions. *)
From Coq Require Import ZArith List Bool.
From FV Require Import Lib.RustInt C02.Model C02.Proofs.
Import ListNotations.
Open Scope Z_scope.

(* ValueStack: for every backing store (capacity), both pedantic modes and every sequence of public
   operations (closures arbitrary), no call panics and 0 <= len <= capacity after every call *)
Theorem c02_value_stack_total : forall (store : list Z) (ped : bool) (ops : list vop),
  zlen store <= isize_max -> Forall vop_ok ops ->
  exists s' obs, vs_run ped ops (mkVS store 0) = Some (s', obs) /\
                 zlen (vals s') = zlen store /\ 0 <= vlen s' <= zlen store /\
                 length obs = length ops /\ Forall (fun ob => 0 <= snd ob <= zlen store) obs.
Proof. exact value_stack_total_lemma. Qed.

(* ValueStack behaves as a plain list with the documented error cases (push/peek/pop/clear; dup, swap,
   roll, apply_unary/binary are compositions of these in the model; copy_index / move_index are covered
   by totality and by the correspondence only) *)
Theorem c02_value_stack_refines_list_partial : forall cap s ped v, cap <= isize_max -> vinv cap s ->
  (if vlen s <? cap
   then exists s', vs_push v s = Some (s', Ok tt) /\ stk s' = stk s ++ [v] /\ vinv cap s'
   else vs_push v s = Some (s, Err EOverflow)) /\
  vs_peek s = match rev (stk s) with x :: _ => Some x | [] => None end /\
  match rev (stk s) with
  | x :: r => exists s', vs_pop ped s = Some (s', Ok x) /\ stk s' = rev r /\ vinv cap s'
  | [] => vs_pop ped s = Some (s, if ped then Err EUnderflow else Ok 0)
  end /\
  (exists s', vs_clear s = Some (s', Ok tt) /\ stk s' = []) /\
  zlen (stk s) = vlen s.
Proof. exact value_stack_refines_list_partial_lemma. Qed.

(* Decycler<_, D>: never indexes outside [0, D) nor under/overflows its depth (the driver returns Some),
   behaves exactly as a stack of node ids with the depth cap and the depth/2 test, depth stays in
   [0, D], and a Leave after a balanced body restores the chain that preceded the matching Enter *)
Theorem c02_decycler_safe : forall D ops, 0 < D <= isize_max ->
  dec_drive D (dec_new D) ops = Some (spec_drive D [] ops) /\
  Forall (fun o => 0 <= snd o <= D) (spec_drive D [] ops) /\
  (forall chain id body, zlen chain < D -> spec_enter_ok chain id = true ->
     spec_final D (chain ++ [id]) body = chain ++ [id] ->
     spec_final D chain (Some id :: body ++ [None]) = chain).
Proof. exact decycler_safe_lemma. Qed.

(* every Enter-only descent in which all Enters succeed has length <= D *)
Theorem c02_decycler_depth_limit : forall D s n, 0 <= D ->
  all_entered (spec_drive D [] (enters s n)) = true -> Z.of_nat n <= D.
Proof. exact depth_limit_cuts_lemma. Qed.

(* a descent that after P nodes goes round a cycle of length L for ever is rejected within
   2 * (P/L + 1) * L <= 2 * (P + L) Enters *)
Theorem c02_decycler_detects_cycle : forall D (s : nat -> Z) (P L : nat), 0 <= D -> (1 <= L)%nat ->
  (forall i, (P <= i)%nat -> s (i + L)%nat = s i) ->
  all_entered (spec_drive D [] (enters s (2 * (P / L + 1) * L))) = false /\
  (2 * (P / L + 1) * L <= 2 * (P + L))%nat.
Proof. exact cycle_cut_lemma. Qed.

(* CallStack: total on every op sequence; depth stays within [0, 32] *)
Theorem c02_call_stack_total : forall (ops : list cop) (c : callstack (Z * Z)), cinv c ->
  exists obs, cs_run ops c = Some obs /\ length obs = length ops.
Proof. exact call_stack_total_lemma. Qed.
Theorem c02_call_stack_depth : forall (R : Type) (c : callstack R) (r : R), cinv c ->
  match cs_push c r with
  | CsOk _ c' => cinv c' /\ clen c' = clen c + 1
  | CsOverflow => clen c = CALL_MAX_DEPTH
  | _ => False
  end /\
  match cs_pop c with
  | CsOk _ c' => cinv c' /\ clen c' = clen c - 1
  | CsUnderflow => clen c = 0
  | _ => False
  end.
Proof. exact call_stack_depth_lemma. Qed.

(* Engine::run: for EVERY instruction oracle (loop-call counts positive i32), from any state whose call
   stack and loop budget are well formed: no panic, the loop ends within MAX_RUN_INSTRUCTIONS + 1
   dispatches (exactly that many when the instruction budget is what stops it), call depth <= 32 at the
   end, and on success the numbers of backward jumps taken and loop-call iterations granted are <= limit *)
Theorem c02_run_bounded : forall (S P : Type) (oracle : S -> effect S P),
  (forall s, count_ok (oracle s)) -> forall m, minv m ->
  let '(o, n, m', _) := run oracle m in
  o <> RunOutOfFuel /\ o <> RunPanic /\ 0 <= n <= MAX_RUN_INSTRUCTIONS + 1 /\ cinv (cstack m') /\
  (o = RunOk -> minv m') /\ (o = RunErrMax -> n = MAX_RUN_INSTRUCTIONS + 1).
Proof. exact (@run_bounded_lemma). Qed.
Theorem c02_loop_limit_ok : forall pc cvt_len, 0 <= cvt_len < 4294967296 ->
  match pc with Some p => 0 <= p < 4294967296 | None => True end ->
  0 <= loop_limit pc cvt_len /\ loop_limit pc cvt_len + 2147483648 <= usize_max.
Proof. exact loop_limit_ok. Qed.

(* composite loading: for EVERY component map the recursion needs at most limit + 2 nested frames
   (never out of fuel), and on maps without a finite descent it reports RecursionLimitExceeded *)
Theorem c02_composite_load_terminates : forall (glyph_of : Z -> gkind) depth gid, 0 <= depth ->
  fst (load glyph_of depth gid) <> LoadOutOfFuel /\
  fst (outline_rec_fuel glyph_of (Z.to_nat (GLYF_COMPOSITE_RECURSION_LIMIT + 2)) depth gid) <> LoadOutOfFuel /\
  fst (outline glyph_of gid) <> LoadOutOfFuel /\
  ((forall g, exists c cs, glyph_of g = GComposite (c :: cs)) ->
     fst (load glyph_of depth gid) = LoadRecursionLimit).
Proof. exact composite_load_terminates_lemma. Qed.

Print Assumptions c02_value_stack_total.
Print Assumptions c02_value_stack_refines_list_partial.
Print Assumptions c02_decycler_safe.
Print Assumptions c02_decycler_depth_limit.
Print Assumptions c02_decycler_detects_cycle.
Print Assumptions c02_call_stack_total.
Print Assumptions c02_call_stack_depth.
Print Assumptions c02_run_bounded.
Print Assumptions c02_loop_limit_ok.
Print Assumptions c02_composite_load_terminates.
