(* C02 — property theorems.  Only statements, [exact lemma], and Print Assumptions. *)
From Coq Require Import ZArith List.
From FV Require Import Lib.RustInt C02.Model C02.Proofs.
Import ListNotations.
Open Scope Z_scope.

Theorem c02_placeholder : True.
Proof. exact placeholder. Qed.

Print Assumptions c02_placeholder.
