(* C02 (round 7) — non-vacuity examples for VsProps.v: the hypotheses are satisfiable, the specification
   computes the expected concrete stacks (the unit tests of value_stack.rs among them), and the model agrees. *)
From Coq Require Import ZArith List Bool Lia.
From FV Require Import Lib.RustInt C02.Model C02.Proofs C02.VsProofs.
Import ListNotations.
Open Scope Z_scope.

(* c02_value_stack_refines_list: a state satisfying vinv with live cells and dead cells *)
Example vs_refines_hyp : 8 <= isize_max /\ vinv 8 (mkVS [4;10;2;1;3;77;78;79] 5).
Proof. split; [unfold isize_max; lia|]. split; cbn; [reflexivity|lia]. Qed.

(* value_stack.rs tests `copy_index` and `move_index`: [4,10,2,1,3] -> [4,10,2,1,10] and [4,2,1,10] (unchanged by 5407d30) *)
Example spec_copy_unit_test : spec_copy_index 8 true [4;10;2;1;3] = ([4;10;2;1;10], Ok tt).
Proof. reflexivity. Qed.
Example spec_move_unit_test : spec_move_index true [4;10;2;1;3] = ([4;2;1;10], Ok tt).
Proof. reflexivity. Qed.
Example model_copy_unit_test : option_map (fun r => (stk (fst r), snd r)) (vs_copy_index true (mkVS [4;10;2;1;3;77;78;79] 5))
                               = Some ([4;10;2;1;10], Ok tt).
Proof. reflexivity. Qed.
Example model_move_unit_test : option_map (fun r => (stk (fst r), snd r)) (vs_move_index false (mkVS [4;10;2;1;3;77;78;79] 5))
                               = Some ([4;2;1;10], Ok tt).
Proof. reflexivity. Qed.

(* boundary arguments (bottom-first lists; the last element is the index operand; depth below it = 3) *)
Example copy_idx_0_np   : spec_copy_index 8 false [11;21;31;0] = ([11;21;31;0], Ok tt).                         Proof. reflexivity. Qed.
Example copy_idx_0_ped  : spec_copy_index 8 true  [11;21;31;0] = ([11;21;31], Err (EInvalidStackValue 0)).       Proof. reflexivity. Qed.
Example copy_idx_1      : spec_copy_index 8 true  [11;21;31;1] = ([11;21;31;31], Ok tt).                        Proof. reflexivity. Qed.
Example copy_idx_depth  : spec_copy_index 8 false [11;21;31;3] = ([11;21;31;11], Ok tt).                        Proof. reflexivity. Qed.
Example copy_idx_over_np  : spec_copy_index 8 false [11;21;31;4] = ([11;21;31;0], Ok tt).                       Proof. reflexivity. Qed.
Example copy_idx_over_ped : spec_copy_index 8 true  [11;21;31;4] = ([11;21;31], Err (EInvalidStackValue 4)).     Proof. reflexivity. Qed.
Example copy_idx_neg_ped  : spec_copy_index 8 true  [11;21;31;-1] = ([11;21;31], Err (EInvalidStackValue (-1))). Proof. reflexivity. Qed.
Example copy_idx_min_np   : spec_copy_index 8 false [11;21;31;-2147483648] = ([11;21;31;0], Ok tt).             Proof. reflexivity. Qed.
Example copy_idx_max_ped  : spec_copy_index 8 true [11;21;31;2147483647] = ([11;21;31], Err (EInvalidStackValue 2147483647)). Proof. reflexivity. Qed.
Example copy_idx_empty_ped : spec_copy_index 8 true [] = ([], Err EUnderflow).                                  Proof. reflexivity. Qed.
Example copy_idx_empty_np  : spec_copy_index 8 false [] = ([0], Ok tt).                                         Proof. reflexivity. Qed.
Example copy_idx_empty_cap0 : spec_copy_index 0 false [] = ([], Err EOverflow).                                 Proof. reflexivity. Qed.
Example move_idx_0_np   : spec_move_index false [11;21;31;0] = ([11;21;31], Ok tt).                             Proof. reflexivity. Qed.
Example move_idx_0_ped  : spec_move_index true  [11;21;31;0] = ([11;21;31], Err (EInvalidStackValue 0)).         Proof. reflexivity. Qed.
Example move_idx_0_len1 : spec_move_index false [0] = ([], Ok tt).                                              Proof. reflexivity. Qed.
Example move_idx_1      : spec_move_index true  [11;21;31;1] = ([11;21;31], Ok tt).                             Proof. reflexivity. Qed.
Example move_idx_2      : spec_move_index true  [11;21;31;2] = ([11;31;21], Ok tt).                             Proof. reflexivity. Qed.
Example move_idx_depth  : spec_move_index false [11;21;31;3] = ([21;31;11], Ok tt).                             Proof. reflexivity. Qed.
Example move_idx_over_np  : spec_move_index false [11;21;31;4] = ([11;21;31], Ok tt).                           Proof. reflexivity. Qed.
Example move_idx_over_ped : spec_move_index true  [11;21;31;4] = ([11;21;31], Err (EInvalidStackValue 4)).       Proof. reflexivity. Qed.
Example move_idx_min_ped  : spec_move_index true [11;21;31;-2147483648] = ([11;21;31], Err (EInvalidStackValue (-2147483648))). Proof. reflexivity. Qed.
Example move_idx_empty_ped : spec_move_index true [] = ([], Err EUnderflow).                                    Proof. reflexivity. Qed.
Example move_idx_empty_np  : spec_move_index false [] = ([], Ok tt).                                            Proof. reflexivity. Qed.
(* the pre-5407d30 witness of the reported defect: MINDEX 0 on [a, b, 0] gave [a, 0] (cell below the index clobbered);
   the model of the fixed code leaves [a, b] *)
Example move_idx_0_fixed : option_map (fun r => (stk (fst r), snd r)) (vs_move_index false (mkVS [11;21;0] 3)) = Some ([11;21], Ok tt).
Proof. reflexivity. Qed.

(* c02_copy_index_spec / c02_move_index_spec / c02_index_ops_pedantic_only_on_bad_index: hypotheses satisfiable *)
Example copy_cases_hyps :
  zlen [11;21;31;-1] <= 8 /\ bad_index (-1) [31;21;11] /\ bad_index 4 [31;21;11] /\ (1 <= 3 <= zlen [31;21;11]).
Proof. unfold bad_index, zlen. cbn. lia. Qed.
Example ped_matters_good : good_index_on_top [11;21;31;3] /\ ~ good_index_on_top [11;21;31;4] /\ ~ good_index_on_top [].
Proof. unfold good_index_on_top, zlen. cbn. lia. Qed.

(* c02_value_stack_run_is_list_machine: a run with overflow, underflow, CINDEX/MINDEX at hostile indices;
   the model (run on a 3-cell store) and the list machine give the same observations and final stack *)
Definition demo_ops : list vop :=
  [OCopyIndex; OPush (-2147483648); OMoveIndex; OPush 1; OPush 2; OCopyIndex; OPush 7; OPop; OMoveIndex; ORoll; OSwap; ODup;
   OPushList [5;6]; OClear; OSwap].
Example run_hyp : zlen [9;9;9] <= isize_max /\ Forall vop_ok demo_ops.
Proof.
  split; [unfold isize_max, zlen; cbn; lia|].
  repeat (apply Forall_cons; [cbn; try exact I; unfold zlen, isize_max; cbn; lia|]). apply Forall_nil.
Qed.
Example run_agrees :
  option_map (fun r => (stk (fst r), snd r)) (vs_run true demo_ops (mkVS [9;9;9] 0)) = Some (spec_run 3 true demo_ops []).
Proof. vm_compute. reflexivity. Qed.
Example run_nontrivial : exists l obs, spec_run 3 true demo_ops [] = (l, obs) /\
  existsb (fun o => fst (fst o) =? 3) obs = true /\ existsb (fun o => fst (fst o) =? 2) obs = true /\
  existsb (fun o => fst (fst o) =? 0) obs = true.
Proof. eexists _, _. split; [vm_compute; reflexivity|]. vm_compute. auto. Qed.
Example run_agrees_np :
  option_map (fun r => (stk (fst r), snd r)) (vs_run false demo_ops (mkVS [9;9;9] 0)) = Some (spec_run 3 false demo_ops []).
Proof. vm_compute. reflexivity. Qed.
Example run_nontrivial_np : exists l obs, spec_run 3 false demo_ops [] = (l, obs) /\
  existsb (fun o => fst (fst o) =? 1) obs = true /\ existsb (fun o => fst (fst o) =? 0) obs = true.
Proof. eexists _, _. split; [vm_compute; reflexivity|]. vm_compute. auto. Qed.

(* c02_value_stack_composite_closed_forms: hypotheses satisfiable; value_stack.rs tests `swap`, `roll`, `dup` *)
Example closed_forms_hyps : zlen [1] + 3 <= 8 /\ ufun 0 5 = Ok (-5) /\ bfun 0 2 3 = Ok 5 /\ ufun 1 5 = Err (EOp 7).
Proof. repeat split; unfold zlen; cbn; lia. Qed.
Example swap_unit_test : spec_swap 3 true [1;2;3] = ([1;3;2], Ok tt). Proof. reflexivity. Qed.
Example roll_unit_test : spec_roll 3 true [1;2;3] = ([2;3;1], Ok tt). Proof. reflexivity. Qed.
Example dup_unit_test  : spec_dup 4 true [1;2;3] = ([1;2;3;3], Ok tt). Proof. reflexivity. Qed.
(* pops made before a failing pop are kept: pedantic swap on one element leaves the empty stack *)
Example swap_partial   : option_map (fun r => (stk (fst r), snd r)) (vs_swap true (mkVS [5;9] 1)) = Some ([], Err EUnderflow).
Proof. reflexivity. Qed.

(* the pedantic flag changes the outcome on a bad index (model level) *)
Example ped_matters_model : vs_step true OMoveIndex (mkVS [1;2;-1] 3) <> vs_step false OMoveIndex (mkVS [1;2;-1] 3)
  /\ exists s, vs_step true OMoveIndex (mkVS [1;2;-1] 3) = Some (s, (3, -1, 2)).
Proof. split; [vm_compute; discriminate|]. eexists. reflexivity. Qed.
