(* C02 (round 7) — non-vacuity examples for VsProps.v: the hypotheses are satisfiable, the specification
   computes the expected concrete stacks (the unit tests of value_stack.rs among them), and the model agrees. *)
From Coq Require Import ZArith List Bool Lia.
From FV Require Import Lib.RustInt C02.Model C02.Proofs C02.VsProofs.
Import ListNotations.
Open Scope Z_scope.

(* c02_value_stack_refines_list: a state satisfying vinv with live cells and dead cells *)
Example vs_refines_hyp : 8 <= isize_max /\ vinv 8 (mkVS [4;10;2;1;3;77;78;79] 5).
Proof. split; [unfold isize_max; lia|]. split; cbn; [reflexivity|lia]. Qed.

(* value_stack.rs tests `copy_index` and `move_index`: [4,10,2,1,3] -> [4,10,2,1,10] and [4,2,1,10] *)
Example spec_copy_unit_test : spec_copy_index [4;10;2;1;3] = ([4;10;2;1;10], Ok tt).
Proof. reflexivity. Qed.
Example spec_move_unit_test : spec_move_index [4;10;2;1;3] = ([4;2;1;10], Ok tt).
Proof. reflexivity. Qed.
Example model_copy_unit_test : option_map (fun r => (stk (fst r), snd r)) (vs_copy_index (mkVS [4;10;2;1;3;77;78;79] 5))
                               = Some ([4;10;2;1;10], Ok tt).
Proof. reflexivity. Qed.
Example model_move_unit_test : option_map (fun r => (stk (fst r), snd r)) (vs_move_index (mkVS [4;10;2;1;3;77;78;79] 5))
                               = Some ([4;2;1;10], Ok tt).
Proof. reflexivity. Qed.

(* boundary arguments (bottom-first lists; the last element is the index operand).  len = 4 below. *)
Example copy_idx_0      : spec_copy_index [11;21;31;0] = ([11;21;31;0], Ok tt).            Proof. reflexivity. Qed.
Example copy_idx_1      : spec_copy_index [11;21;31;1] = ([11;21;31;31], Ok tt).           Proof. reflexivity. Qed.
Example copy_idx_lenm1  : spec_copy_index [11;21;31;3] = ([11;21;31;11], Ok tt).           Proof. reflexivity. Qed.
Example copy_idx_len    : spec_copy_index [11;21;31;4] = ([11;21;31;4], Err EUnderflow).   Proof. reflexivity. Qed.
Example copy_idx_neg    : spec_copy_index [11;21;31;-1] = ([11;21;31;-1], Err EUnderflow). Proof. reflexivity. Qed.
Example copy_idx_min    : spec_copy_index [11;21;31;-2147483648] = ([11;21;31;-2147483648], Err EUnderflow). Proof. reflexivity. Qed.
Example copy_idx_max    : spec_copy_index [11;21;31;2147483647] = ([11;21;31;2147483647], Err EUnderflow).   Proof. reflexivity. Qed.
Example copy_idx_empty  : spec_copy_index [] = ([], Err EUnderflow).                       Proof. reflexivity. Qed.
Example move_idx_0      : spec_move_index [11;21;31;0] = ([11;21;0], Ok tt).               Proof. reflexivity. Qed.
Example move_idx_0_len1 : spec_move_index [0] = ([0], Err EUnderflow).                     Proof. reflexivity. Qed.
Example move_idx_1      : spec_move_index [11;21;31;1] = ([11;21;31], Ok tt).              Proof. reflexivity. Qed.
Example move_idx_2      : spec_move_index [11;21;31;2] = ([11;31;21], Ok tt).              Proof. reflexivity. Qed.
Example move_idx_lenm1  : spec_move_index [11;21;31;3] = ([21;31;11], Ok tt).              Proof. reflexivity. Qed.
Example move_idx_len    : spec_move_index [11;21;31;4] = ([11;21;31;4], Err EUnderflow).   Proof. reflexivity. Qed.
Example move_idx_neg    : spec_move_index [11;21;31;-3] = ([11;21;31;-3], Err EUnderflow). Proof. reflexivity. Qed.
Example move_idx_min    : spec_move_index [11;21;31;-2147483648] = ([11;21;31;-2147483648], Err EUnderflow). Proof. reflexivity. Qed.

(* c02_copy_index_spec / c02_move_index_spec: every hypothesis of every clause is satisfiable *)
Example copy_cases_hyps :
  zlen [11;21;31;-1] <= isize_max /\ (-1 < 0 /\ - 2 ^ 63 <= -1) /\
  (0 <= 4 < 2 ^ 64 /\ zlen [31;21;11] < 4) /\ (0 <= 3 <= zlen [31;21;11]).
Proof. unfold isize_max, zlen. cbn. lia. Qed.
Example move_cases_hyps : (1 <= 3 <= zlen [31;21;11]) /\ (exists y r', [31;21;11] = y :: r').
Proof. split; [unfold zlen; cbn; lia|eauto]. Qed.

(* c02_value_stack_run_is_list_machine: a run with overflow, underflow, CINDEX/MINDEX at hostile indices;
   the model (run on a 3-cell store) and the list machine give the same observations and final stack *)
Definition demo_ops : list vop :=
  [OCopyIndex; OPush (-2147483648); OMoveIndex; OPush 1; OPush 2; OCopyIndex; OPush 7; OPop; OMoveIndex; ORoll; OSwap; ODup;
   OPushList [5;6]; OClear; OSwap].
Example run_hyp : zlen [9;9;9] <= isize_max /\ Forall vop_ok demo_ops.
Proof.
  split; [unfold isize_max, zlen; cbn; lia|].
  repeat (apply Forall_cons; [cbn; try exact I; unfold zlen, isize_max; cbn; lia|]). apply Forall_nil.
Qed.
Example run_agrees :
  option_map (fun r => (stk (fst r), snd r)) (vs_run true demo_ops (mkVS [9;9;9] 0)) = Some (spec_run 3 true demo_ops []).
Proof. vm_compute. reflexivity. Qed.
Example run_nontrivial : exists l obs, spec_run 3 true demo_ops [] = (l, obs) /\
  existsb (fun o => fst (fst o) =? 1) obs = true /\ existsb (fun o => fst (fst o) =? 2) obs = true /\
  existsb (fun o => fst (fst o) =? 0) obs = true.
Proof. eexists _, _. split; [vm_compute; reflexivity|]. vm_compute. auto. Qed.

(* c02_value_stack_composite_closed_forms: hypotheses satisfiable; value_stack.rs tests `swap`, `roll`, `dup` *)
Example closed_forms_hyps : zlen [1] + 3 <= 8 /\ ufun 0 5 = Ok (-5) /\ bfun 0 2 3 = Ok 5 /\ ufun 1 5 = Err (EOp 7).
Proof. repeat split; unfold zlen; cbn; lia. Qed.
Example swap_unit_test : spec_swap 3 true [1;2;3] = ([1;3;2], Ok tt). Proof. reflexivity. Qed.
Example roll_unit_test : spec_roll 3 true [1;2;3] = ([2;3;1], Ok tt). Proof. reflexivity. Qed.
Example dup_unit_test  : spec_dup 4 true [1;2;3] = ([1;2;3;3], Ok tt). Proof. reflexivity. Qed.
(* pops made before a failing pop are kept: pedantic swap on one element leaves the empty stack *)
Example swap_partial   : option_map (fun r => (stk (fst r), snd r)) (vs_swap true (mkVS [5;9] 1)) = Some ([], Err EUnderflow).
Proof. reflexivity. Qed.

(* c02_index_ops_ignore_pedantic is unconditional; a non-trivial instance *)
Example ped_irrelevant : vs_step true OMoveIndex (mkVS [1;2;-1] 3) = vs_step false OMoveIndex (mkVS [1;2;-1] 3)
  /\ exists s, vs_step false OMoveIndex (mkVS [1;2;-1] 3) = Some (s, (2, 0, 3)).
Proof. split; [reflexivity|]. eexists. reflexivity. Qed.
