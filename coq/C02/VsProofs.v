(* C02 (round 7, updated for /repo 5407d30) — list-level specification of every ValueStack operation
   (skrifa/src/outline/glyf/hint/value_stack.rs), in particular copy_index / move_index, and the proof that the
   model's functions (Model.v vs_*, the very definitions the correspondence shards run against the real code)
   refine it for every stack and every argument.

   A stack is a list, BOTTOM FIRST (as [stk] in Proofs.v); the specifications read it TOP FIRST through [rev].
   Conventions of the Rust code since 5407d30 (FreeType Ins_CINDEX / Ins_MINDEX).  Both operations take no
   argument: they first POP the index v (pedantic + empty stack -> Err ValueStackUnderflow; non-pedantic + empty
   stack -> v = 0).  Let r be the stack after the pop, top first, depth |r|.
     v outside 1..=|r| (v <= 0 or v > |r|):
         pedantic      -> Err InvalidStackValue(v); the index stays popped
         non-pedantic  -> copy_index: push 0 (can overflow only when the stack was empty and capacity = 0);
                          move_index: Ok, nothing else changes
     1 <= v <= |r| (v = 1 is the cell just below the index, v = |r| the bottom cell), both modes:
         copy_index -> Ok, stack = r[v-1] :: r
         move_index -> Ok, stack = r[v-1] :: r[0..v-1) ++ r[v..)   (a rotation of the top v cells of r)
   Before 5407d30 both operations returned ValueStackUnderflow in both modes for a bad index without popping it,
   index 0 named the index cell itself, and move_index(0) overwrote the cell below the index with 0 (see notes/C02.md). *)
From Coq Require Import ZArith Lia List Bool.
From Coq Require Import ZifyBool.
From FV Require Import Lib.RustInt C02.Model C02.Proofs.
Import ListNotations.
Open Scope Z_scope.
Ltac Zify.zify_post_hook ::= Z.div_mod_to_equations.

(* `v as usize` for an i32 (any integer) v *)
Definition as_usize (v : Z) : Z := wrap_u 64 v.

(* ------------------------------------------------------------------------------------------ *)
(* the list-level machine                                                                      *)
(* ------------------------------------------------------------------------------------------ *)
Definition L (A : Type) := list Z -> list Z * out A.
Definition lret {A} (a : A) : L A := fun l => (l, Ok a).
Definition lfail {A} (e : herr) : L A := fun l => (l, Err e).
Definition lbind {A B} (m : L A) (k : A -> L B) : L B := fun l =>
  match m l with
  | (l', Ok a) => k a l'
  | (l', Err e) => (l', Err e)
  end.

(* push: overflow iff the stack is full *)
Definition spec_push (cap : Z) (v : Z) : L unit := fun l =>
  if zlen l <? cap then (l ++ [v], Ok tt) else (l, Err EOverflow).
(* push_inline_operands: all or nothing *)
Definition spec_push_list (cap : Z) (vs : list Z) : L unit := fun l =>
  if cap <? zlen l + zlen vs then (l, Err EOverflow) else (l ++ vs, Ok tt).
(* pop: empty stack -> Err in pedantic mode, Ok 0 otherwise *)
Definition spec_pop (ped : bool) : L Z := fun l =>
  match rev l with
  | x :: r => (rev r, Ok x)
  | [] => (l, if ped then Err EUnderflow else Ok 0)
  end.
Definition spec_clear : L unit := fun _ => ([], Ok tt).

Definition spec_copy_index (cap : Z) (ped : bool) : L unit :=
  lbind (spec_pop ped) (fun v l =>
    if (v <=? 0) || (zlen l <? v) then
      if ped then (l, Err (EInvalidStackValue v)) else spec_push cap 0 l
    else spec_push cap (nth (Z.to_nat (v - 1)) (rev l) 0) l).

Definition spec_move_index (ped : bool) : L unit :=
  lbind (spec_pop ped) (fun v l =>
    if (v <=? 0) || (zlen l <? v) then
      if ped then (l, Err (EInvalidStackValue v)) else (l, Ok tt)
    else
      let r := rev l in
      (rev (nth (Z.to_nat (v - 1)) r 0 :: firstn (Z.to_nat (v - 1)) r ++ skipn (Z.to_nat v) r), Ok tt)).

(* the composite operations: the same programs as in value_stack.rs, over the list machine *)
Definition spec_pop_usize (ped : bool) : L Z := lbind (spec_pop ped) (fun v => lret (wrap_u 64 v)).
Definition spec_pop_count_checked (ped : bool) : L Z :=
  lbind (spec_pop ped) (fun v => if (v <? 0) && ped then lfail (EInvalidStackValue v) else lret (Z.max v 0)).
Definition spec_apply_unary (cap : Z) (ped : bool) (op : Z -> out Z) : L unit :=
  lbind (spec_pop ped) (fun a => match op a with Ok r => spec_push cap r | Err e => lfail e end).
Definition spec_apply_binary (cap : Z) (ped : bool) (op : Z -> Z -> out Z) : L unit :=
  lbind (spec_pop ped) (fun b => lbind (spec_pop ped) (fun a =>
    match op a b with Ok r => spec_push cap r | Err e => lfail e end)).
Definition spec_dup (cap : Z) (ped : bool) : L unit := fun l =>
  match rev l with
  | x :: _ => spec_push cap x l
  | [] => if ped then (l, Err EUnderflow) else spec_push cap 0 l
  end.
Definition spec_swap (cap : Z) (ped : bool) : L unit :=
  lbind (spec_pop ped) (fun a => lbind (spec_pop ped) (fun b =>
  lbind (spec_push cap a) (fun _ => spec_push cap b))).
Definition spec_roll (cap : Z) (ped : bool) : L unit :=
  lbind (spec_pop ped) (fun a => lbind (spec_pop ped) (fun b => lbind (spec_pop ped) (fun c =>
  lbind (spec_push cap b) (fun _ => lbind (spec_push cap a) (fun _ => spec_push cap c))))).

(* ------------------------------------------------------------------------------------------ *)
(* refinement                                                                                  *)
(* ------------------------------------------------------------------------------------------ *)
(* the method never panics, returns what the list machine returns, and leaves the list the list
   machine leaves (also on the error paths: pops made before an early `?` return are kept) *)
Definition refines {A} (cap : Z) (m : M A) (lm : L A) : Prop :=
  forall s, vinv cap s ->
    exists s', m s = Some (s', snd (lm (stk s))) /\ stk s' = fst (lm (stk s)) /\ vinv cap s'.

Lemma refines_ret {A} cap (a : A) : refines cap (ret a) (lret a).
Proof. intros s H. exists s. cbn. auto. Qed.
Lemma refines_fail {A} cap e : refines cap (@fail A e) (lfail e).
Proof. intros s H. exists s. cbn. auto. Qed.
Lemma refines_bind {A B} cap (m : M A) (k : A -> M B) lm lk :
  refines cap m lm -> (forall a, refines cap (k a) (lk a)) -> refines cap (bind m k) (lbind lm lk).
Proof.
  intros Hm Hk s H. destruct (Hm s H) as (s1 & E1 & L1 & H1). unfold bind, lbind. rewrite E1.
  destruct (lm (stk s)) as [l1 [a|e]] eqn:El; cbn [fst snd] in *.
  - destruct (Hk a s1 H1) as (s2 & E2 & L2 & H2). rewrite L1 in *. eauto.
  - exists s1. auto.
Qed.

(* ------------------------------------------------------------------------------------------ *)
(* slices written as concatenations                                                            *)
(* ------------------------------------------------------------------------------------------ *)
Ltac aeq := repeat first [rewrite <- app_assoc | progress cbn [app]]; reflexivity.
Ltac zl := unfold zlen in *; repeat first [rewrite app_length in * | progress cbn [length] in *]; lia.

Lemma to_nat_zlen {A} (a : list A) : Z.to_nat (zlen a) = length a.
Proof. unfold zlen. apply Nat2Z.id. Qed.

Lemma zget_app_mid {A} (a b : list A) x k : k = zlen a -> zget (a ++ x :: b) k = Some x.
Proof.
  intros ->. unfold zget.
  destruct ((zlen a <? 0) || (zlen (a ++ x :: b) <=? zlen a)) eqn:E; [zl|].
  rewrite to_nat_zlen, nth_error_app2 by lia. rewrite Nat.sub_diag. reflexivity.
Qed.

Lemma set_nth_app_mid {A} (a b : list A) x y : set_nth (a ++ x :: b) (length a) y = Some (a ++ y :: b).
Proof. induction a as [|h a IH]; cbn; [reflexivity|]. rewrite IH. reflexivity. Qed.

Lemma zset_app_mid {A} (a b : list A) x y k : k = zlen a -> zset (a ++ x :: b) k y = Some (a ++ y :: b).
Proof.
  intros ->. unfold zset.
  destruct ((zlen a <? 0) || (zlen (a ++ x :: b) <=? zlen a)) eqn:E; [zl|].
  rewrite to_nat_zlen. apply set_nth_app_mid.
Qed.

Lemma firstn_app_len {A} (a b : list A) n : n = length a -> firstn n (a ++ b) = a.
Proof. intros ->. rewrite firstn_app, Nat.sub_diag, firstn_all. cbn. apply app_nil_r. Qed.

Lemma skipn_app_len {A} (a b : list A) n : n = length a -> skipn n (a ++ b) = b.
Proof. intros ->. rewrite skipn_app, Nat.sub_diag, skipn_all. reflexivity. Qed.


Lemma zlen_rev {A} (l : list A) : zlen (rev l) = zlen l.
Proof. unfold zlen. rewrite rev_length. reflexivity. Qed.

Lemma list_split_from_end (a : list Z) k : 1 <= k <= zlen a ->
  exists p x m, a = p ++ x :: m /\ zlen m = k - 1 /\ zlen p = zlen a - k.
Proof.
  intros Hk. set (n := Z.to_nat (zlen a - k)).
  pose proof (firstn_skipn n a) as Hs.
  assert (Hlen : length (skipn n a) = Z.to_nat k) by (rewrite skipn_length; unfold n, zlen in *; lia).
  destruct (skipn n a) as [|x m] eqn:Es; [cbn in Hlen; lia|].
  exists (firstn n a), x, m. split; [symmetry; exact Hs|].
  cbn [length] in Hlen. split.
  - unfold zlen in *. lia.
  - unfold zlen in *. rewrite firstn_length. unfold n. lia.
Qed.

Lemma stk_of_app s a t : vals s = a ++ t -> vlen s = zlen a -> stk s = a.
Proof. intros Hv Hn. unfold stk. rewrite Hv, Hn. apply firstn_app_len. apply to_nat_zlen. Qed.

(* ------------------------------------------------------------------------------------------ *)
(* the primitive operations refine their specifications (from the lemmas of Proofs.v)          *)
(* ------------------------------------------------------------------------------------------ *)
Lemma push_refines cap v : cap <= isize_max -> refines cap (vs_push v) (spec_push cap v).
Proof.
  intros Hcap s H. pose proof (refine_push cap s v Hcap H) as R. pose proof (stk_len cap s H) as Hsl.
  unfold spec_push. rewrite Hsl. destruct (vlen s <? cap).
  - destruct R as (s' & E & L' & H'). exists s'. cbn. auto.
  - exists s. cbn. auto.
Qed.

Lemma pop_refines cap ped : refines cap (vs_pop ped) (spec_pop ped).
Proof.
  intros s H. pose proof (refine_pop cap s ped H) as R. unfold spec_pop.
  destruct (rev (stk s)) as [|x r].
  - exists s. cbn. auto.
  - destruct R as (s' & E & L' & H'). exists s'. cbn. auto.
Qed.

Lemma clear_refines cap : refines cap vs_clear spec_clear.
Proof.
  intros s [Hl Hn]. exists (mkVS (vals s) 0). cbn. split; [reflexivity|]. split; [reflexivity|].
  split; cbn; lia.
Qed.

Lemma write_at_firstn l : forall vs i, (i + length l <= length vs)%nat ->
  firstn (i + length l) (write_at vs i l) = firstn i vs ++ l.
Proof.
  induction l as [|x r IH]; intros vs i Hb; cbn [write_at length] in *.
  - rewrite Nat.add_0_r, app_nil_r. reflexivity.
  - destruct (set_nth_some vs i x ltac:(lia)) as [vs' Hs]. rewrite Hs.
    replace (i + S (length r))%nat with (S i + length r)%nat by lia.
    rewrite IH by (rewrite (set_nth_length _ _ _ _ Hs); lia).
    rewrite (firstn_set_nth_snoc _ _ _ _ Hs), <- app_assoc. reflexivity.
Qed.

Lemma push_list_refines cap vs : cap <= isize_max -> zlen vs <= isize_max ->
  refines cap (vs_push_list vs) (spec_push_list cap vs).
Proof.
  intros Hcap Hvs s H. pose proof (stk_len cap s H) as Hsl. destruct H as [Hl Hn].
  pose proof (zlen_nonneg vs). unfold vs_push_list, spec_push_list. rewrite Hsl.
  unfold add_usize, isize_max, usize_max in *.
  destruct (18446744073709551615 <? vlen s + zlen vs) eqn:Eo; [lia|].
  destruct (cap <? vlen s + zlen vs) eqn:Ec.
  - destruct ((vlen s + zlen vs <? vlen s) || (zlen (vals s) <? vlen s + zlen vs)) eqn:E; [|lia].
    exists s. cbn [fst snd]. split; [reflexivity|]. split; [reflexivity|]. split; assumption.
  - destruct ((vlen s + zlen vs <? vlen s) || (zlen (vals s) <? vlen s + zlen vs)) eqn:E; [lia|].
    eexists. split; [reflexivity|]. cbn [fst snd]. split.
    + unfold stk. cbn [vals vlen].
      replace (Z.to_nat (vlen s + zlen vs)) with (Z.to_nat (vlen s) + length vs)%nat by (unfold zlen; lia).
      apply write_at_firstn. unfold zlen in *. lia.
    + split; cbn [vals vlen]; [|lia]. unfold zlen in *. rewrite write_at_length. exact Hl.
Qed.

Lemma dup_refines cap ped : cap <= isize_max -> refines cap (vs_dup ped) (spec_dup cap ped).
Proof.
  intros Hcap s H. unfold vs_dup, spec_dup. rewrite (refine_peek cap s H).
  destruct (rev (stk s)) as [|x r].
  - destruct ped; [exists s; cbn; auto|apply push_refines; assumption].
  - apply push_refines; assumption.
Qed.

Lemma pop_usize_refines cap ped : refines cap (vs_pop_usize ped) (spec_pop_usize ped).
Proof. apply refines_bind; [apply pop_refines|]. intros a. apply refines_ret. Qed.

Lemma pop_count_refines cap ped : refines cap (vs_pop_count_checked ped) (spec_pop_count_checked ped).
Proof.
  apply refines_bind; [apply pop_refines|]. intros a.
  destruct ((a <? 0) && ped); [apply refines_fail|apply refines_ret].
Qed.

Lemma unary_refines cap ped f : cap <= isize_max -> refines cap (vs_apply_unary ped f) (spec_apply_unary cap ped f).
Proof.
  intros Hcap. apply refines_bind; [apply pop_refines|]. intros a.
  destruct (f a); [apply push_refines; assumption|apply refines_fail].
Qed.

Lemma binary_refines cap ped f : cap <= isize_max -> refines cap (vs_apply_binary ped f) (spec_apply_binary cap ped f).
Proof.
  intros Hcap. apply refines_bind; [apply pop_refines|]. intros b.
  apply refines_bind; [apply pop_refines|]. intros a.
  destruct (f a b); [apply push_refines; assumption|apply refines_fail].
Qed.

Lemma swap_refines cap ped : cap <= isize_max -> refines cap (vs_swap ped) (spec_swap cap ped).
Proof.
  intros Hcap. unfold vs_swap, spec_swap.
  repeat (apply refines_bind; [first [apply pop_refines|apply push_refines; assumption]|intros ?]).
  apply push_refines; assumption.
Qed.

Lemma roll_refines cap ped : cap <= isize_max -> refines cap (vs_roll ped) (spec_roll cap ped).
Proof.
  intros Hcap. unfold vs_roll, spec_roll.
  repeat (apply refines_bind; [first [apply pop_refines|apply push_refines; assumption]|intros ?]).
  apply push_refines; assumption.
Qed.


(* ------------------------------------------------------------------------------------------ *)
(* copy_index / move_index refine their specifications                                         *)
(* ------------------------------------------------------------------------------------------ *)
(* a live cell of the store is the cell of [stk] *)
Lemma zget_stk cap s k : vinv cap s -> 0 <= k < vlen s -> zget (vals s) k = Some (nth (Z.to_nat k) (stk s) 0).
Proof.
  intros [Hl Hn] Hk. unfold zget. destruct ((k <? 0) || (zlen (vals s) <=? k)) eqn:E; [lia|].
  unfold stk. rewrite <- (nth_error_firstn_lt (vals s) (Z.to_nat (vlen s)) (Z.to_nat k)) by lia.
  apply nth_error_nth'. rewrite firstn_length. unfold zlen in *. lia.
Qed.

Lemma copy_index_refines cap ped : cap <= isize_max -> refines cap (vs_copy_index ped) (spec_copy_index cap ped).
Proof.
  intros Hcap. unfold vs_copy_index, spec_copy_index. apply refines_bind; [apply pop_refines|].
  intros v s H. pose proof (stk_len cap s H) as Hsl. pose proof H as [Hl Hn]. rewrite Hsl.
  destruct ((v <=? 0) || (vlen s <? v)) eqn:E.
  - destruct ped; [exists s; cbn; auto|apply push_refines; assumption].
  - unfold sub_usize. destruct (vlen s <? v) eqn:E1; [lia|].
    rewrite (zget_stk cap s (vlen s - v) H) by lia.
    replace (nth (Z.to_nat (vlen s - v)) (stk s) 0) with (nth (Z.to_nat (v - 1)) (rev (stk s)) 0).
    + apply push_refines; assumption.
    + rewrite rev_nth by (unfold zlen in Hsl; lia). f_equal. unfold zlen in Hsl. lia.
Qed.

(* the store  p ++ x :: m ++ t  (t: dead cells): the tail from the last live cell on *)
Lemma skipn_last_live (p m t : list Z) x : exists y, skipn (length p + length m) (p ++ x :: m ++ t) = y :: t.
Proof.
  destruct (exists_last (l := x :: m)) as (m' & y & E); [discriminate|]. exists y.
  assert (Hm : length m' = length m).
  { apply (f_equal (@length Z)) in E. rewrite app_length in E. cbn [length] in E. lia. }
  replace (p ++ x :: m ++ t) with ((p ++ m') ++ y :: t).
  - apply skipn_app_len. rewrite app_length. lia.
  - change (x :: m ++ t) with ((x :: m) ++ t). rewrite E. aeq.
Qed.

Lemma copy_within_live p x m t : exists y,
  copy_within (p ++ x :: m ++ t) (zlen p + 1) (zlen p + zlen m + 1) (zlen p) = Some (p ++ m ++ y :: t).
Proof.
  destruct (skipn_last_live p m t x) as [y Hy]. exists y.
  unfold copy_within. pose proof (zlen_nonneg p). pose proof (zlen_nonneg m). pose proof (zlen_nonneg t).
  assert (Hl : zlen (p ++ x :: m ++ t) = zlen p + zlen m + 1 + zlen t) by zl.
  rewrite Hl.
  destruct ((zlen p + zlen m + 1 <? zlen p + 1) || (zlen p + zlen m + 1 + zlen t <? zlen p + zlen m + 1)
            || (zlen p + zlen m + 1 + zlen t <? zlen p + (zlen p + zlen m + 1 - (zlen p + 1)))
            || (zlen p + 1 <? 0) || (zlen p <? 0)) eqn:E; [lia|].
  f_equal.
  rewrite (firstn_app_len p) by (unfold zlen; lia). f_equal.
  replace (p ++ x :: m ++ t) with ((p ++ [x]) ++ m ++ t) at 1 by aeq.
  rewrite (skipn_app_len (p ++ [x])) by zl.
  rewrite (firstn_app_len m) by zl. f_equal.
  replace (Z.to_nat (zlen p + (zlen p + zlen m + 1 - (zlen p + 1)))) with (length p + length m)%nat by (unfold zlen; lia).
  exact Hy.
Qed.

Lemma rev_shape (p m : list Z) x : rev (p ++ x :: m) = rev m ++ x :: rev p.
Proof. rewrite rev_app_distr. cbn [rev]. rewrite <- app_assoc. reflexivity. Qed.

Lemma move_index_refines cap ped : cap <= isize_max -> refines cap (vs_move_index ped) (spec_move_index ped).
Proof.
  intros Hcap. unfold vs_move_index, spec_move_index. apply refines_bind; [apply pop_refines|].
  intros v s H. pose proof (stk_len cap s H) as Hsl. pose proof H as [Hl Hn]. rewrite Hsl.
  destruct ((v <=? 0) || (vlen s <? v)) eqn:E.
  - destruct ped; exists s; cbn; auto.
  - cbv zeta. cbn [fst snd].
    destruct (list_split_from_end (stk s) v ltac:(lia)) as (p & x & m & Hs & Hm & Hp).
    set (t := skipn (Z.to_nat (vlen s)) (vals s)).
    assert (Hv : vals s = p ++ x :: m ++ t).
    { rewrite <- (firstn_skipn (Z.to_nat (vlen s)) (vals s)). fold (stk s). fold t. rewrite Hs. aeq. }
    pose proof (zlen_nonneg p). pose proof (zlen_nonneg m). pose proof (zlen_nonneg t).
    assert (Hn' : vlen s = zlen p + zlen m + 1) by lia.
    exists (mkVS (p ++ m ++ x :: t) (vlen s)). split; [|split].
    + unfold sub_usize. destruct (vlen s <? v) eqn:E1; [lia|].
      replace (vlen s - v) with (zlen p) by lia.
      rewrite Hv at 1. rewrite (zget_app_mid p (m ++ t) x) by reflexivity.
      unfold add_usize, usize_max, isize_max in *.
      destruct (18446744073709551615 <? zlen p + 1) eqn:E4; [lia|].
      destruct (copy_within_live p x m t) as [y Hy].
      rewrite Hv, Hn', Hy.
      destruct (zlen p + zlen m + 1 <? 1) eqn:E5; [lia|].
      replace (p ++ m ++ y :: t) with ((p ++ m) ++ y :: t) by aeq.
      rewrite (zset_app_mid (p ++ m) t y x) by zl.
      rewrite <- app_assoc. reflexivity.
    + rewrite Hs, rev_shape.
      replace (Z.to_nat (v - 1)) with (length (rev m)) by (rewrite rev_length; unfold zlen in *; lia).
      replace (Z.to_nat v) with (length (rev m ++ [x])) by (rewrite app_length, rev_length; unfold zlen in *; cbn [length]; lia).
      rewrite app_nth2 by lia. rewrite Nat.sub_diag. cbn [nth].
      rewrite (firstn_app_len (rev m)) by reflexivity.
      replace (rev m ++ x :: rev p) with ((rev m ++ [x]) ++ rev p) by aeq.
      rewrite (skipn_app_len (rev m ++ [x])) by reflexivity.
      cbn [rev]. rewrite rev_app_distr, !rev_involutive.
      apply stk_of_app with (t := t); cbn [vals vlen]; [aeq|]. rewrite Hn'. zl.
    + split; cbn [vals vlen]; [|exact Hn]. rewrite <- Hl, Hv. zl.
Qed.

(* ------------------------------------------------------------------------------------------ *)
(* whole op sequences: the ValueStack is observationally the list machine                      *)
(* ------------------------------------------------------------------------------------------ *)
Definition lobs {A} (val : A -> Z) (r : list Z * out A) : list Z * (Z * Z * Z) :=
  let '(l, o) := r in
  (l, match o with
      | Ok a => (0, val a, zlen l)
      | Err EOverflow => (1, 0, zlen l)
      | Err EUnderflow => (2, 0, zlen l)
      | Err (EInvalidStackValue v) => (3, v, zlen l)
      | Err (EOp c) => (5, c, zlen l)
      end).

Definition spec_step (cap : Z) (ped : bool) (o : vop) (l : list Z) : list Z * (Z * Z * Z) :=
  match o with
  | OPush v => lobs unit0 (spec_push cap v l)
  | OPushList vs => lobs unit0 (spec_push_list cap vs l)
  | OPeek => (l, match rev l with x :: _ => (0, x, zlen l) | [] => (4, 0, zlen l) end)
  | OPop => lobs idz (spec_pop ped l)
  | OPopUsize => lobs idz (spec_pop_usize ped l)
  | OPopCount => lobs idz (spec_pop_count_checked ped l)
  | OUnary f => lobs unit0 (spec_apply_unary cap ped f l)
  | OBinary f => lobs unit0 (spec_apply_binary cap ped f l)
  | OClear => lobs unit0 (spec_clear l)
  | ODup => lobs unit0 (spec_dup cap ped l)
  | OSwap => lobs unit0 (spec_swap cap ped l)
  | OCopyIndex => lobs unit0 (spec_copy_index cap ped l)
  | OMoveIndex => lobs unit0 (spec_move_index ped l)
  | ORoll => lobs unit0 (spec_roll cap ped l)
  end.

Fixpoint spec_run (cap : Z) (ped : bool) (ops : list vop) (l : list Z) : list Z * list (Z * Z * Z) :=
  match ops with
  | [] => (l, [])
  | o :: r => let '(l1, ob) := spec_step cap ped o l in
              let '(l2, obs) := spec_run cap ped r l1 in (l2, ob :: obs)
  end.

Lemma step_refines cap ped o s : cap <= isize_max -> vop_ok o -> vinv cap s ->
  exists s', vs_step ped o s = Some (s', snd (spec_step cap ped o (stk s))) /\
             stk s' = fst (spec_step cap ped o (stk s)) /\ vinv cap s'.
Proof.
  intros Hcap Hok H.
  assert (G : forall A (val : A -> Z) (m : M A) lm, refines cap m lm ->
     exists s', option_map (obs_of val) (m s) = Some (s', snd (lobs val (lm (stk s)))) /\
                stk s' = fst (lobs val (lm (stk s))) /\ vinv cap s').
  { intros A val m lm R. destruct (R s H) as (s' & E & L' & H'). rewrite E.
    pose proof (stk_len cap s' H') as Hsl. rewrite L' in Hsl.
    destruct (lm (stk s)) as [l' o']. cbn [fst snd] in *. exists s'. cbn [option_map obs_of lobs fst snd].
    rewrite Hsl. split; [|split; [exact L'|exact H']].
    destruct o' as [a|[]]; reflexivity. }
  destruct o; cbn [vs_step spec_step].
  - apply G, push_refines, Hcap.
  - apply G, push_list_refines; [exact Hcap|exact Hok].
  - exists s. rewrite (refine_peek cap s H), (stk_len cap s H). cbn [fst snd]. destruct (rev (stk s)); auto.
  - apply G, pop_refines.
  - apply G, pop_usize_refines.
  - apply G, pop_count_refines.
  - apply G, unary_refines, Hcap.
  - apply G, binary_refines, Hcap.
  - apply G, clear_refines.
  - apply G, dup_refines, Hcap.
  - apply G, swap_refines, Hcap.
  - apply G, copy_index_refines, Hcap.
  - apply G, move_index_refines, Hcap.
  - apply G, roll_refines, Hcap.
Qed.

Lemma run_refines cap ped ops : cap <= isize_max -> Forall vop_ok ops -> forall s, vinv cap s ->
  exists s', vs_run ped ops s = Some (s', snd (spec_run cap ped ops (stk s))) /\
             stk s' = fst (spec_run cap ped ops (stk s)) /\ vinv cap s'.
Proof.
  intros Hcap. induction 1 as [|o r Ho Hr IH]; intros s H; cbn [vs_run spec_run].
  - exists s. cbn. auto.
  - destruct (step_refines cap ped o s Hcap Ho H) as (s1 & E1 & L1 & H1). rewrite E1.
    destruct (spec_step cap ped o (stk s)) as [l1 ob]. cbn [fst snd] in *.
    destruct (IH s1 H1) as (s2 & E2 & L2 & H2). rewrite E2. rewrite L1 in *.
    destruct (spec_run cap ped r l1) as [l2 obs]. cbn [fst snd] in *. exists s2. auto.
Qed.

(* ------------------------------------------------------------------------------------------ *)
(* ------------------------------------------------------------------------------------------ *)
(* property-level statements                                                                   *)
(* ------------------------------------------------------------------------------------------ *)
(* every ValueStack method is the corresponding list operation *)
Lemma value_stack_refines_list_lemma : forall cap, cap <= isize_max ->
  (forall v, refines cap (vs_push v) (spec_push cap v)) /\
  (forall vs, zlen vs <= isize_max -> refines cap (vs_push_list vs) (spec_push_list cap vs)) /\
  (forall s, vinv cap s -> vs_peek s = match rev (stk s) with x :: _ => Some x | [] => None end) /\
  (forall ped, refines cap (vs_pop ped) (spec_pop ped)) /\
  (forall ped, refines cap (vs_pop_usize ped) (spec_pop_usize ped)) /\
  (forall ped, refines cap (vs_pop_count_checked ped) (spec_pop_count_checked ped)) /\
  (forall ped f, refines cap (vs_apply_unary ped f) (spec_apply_unary cap ped f)) /\
  (forall ped f, refines cap (vs_apply_binary ped f) (spec_apply_binary cap ped f)) /\
  refines cap vs_clear spec_clear /\
  (forall ped, refines cap (vs_dup ped) (spec_dup cap ped)) /\
  (forall ped, refines cap (vs_swap ped) (spec_swap cap ped)) /\
  (forall ped, refines cap (vs_copy_index ped) (spec_copy_index cap ped)) /\
  (forall ped, refines cap (vs_move_index ped) (spec_move_index ped)) /\
  (forall ped, refines cap (vs_roll ped) (spec_roll cap ped)).
Proof.
  intros cap Hcap.
  split; [intros; apply push_refines; assumption|].
  split; [intros; apply push_list_refines; assumption|].
  split; [intros; apply (refine_peek cap); assumption|].
  split; [intros; apply pop_refines|].
  split; [intros; apply pop_usize_refines|].
  split; [intros; apply pop_count_refines|].
  split; [intros; apply unary_refines; assumption|].
  split; [intros; apply binary_refines; assumption|].
  split; [apply clear_refines|].
  split; [intros; apply dup_refines; assumption|].
  split; [intros; apply swap_refines; assumption|].
  split; [intros; apply copy_index_refines; assumption|].
  split; [intros; apply move_index_refines; assumption|].
  intros; apply roll_refines; assumption.
Qed.

(* whole runs, from the state ValueStack::new builds over any backing store *)
Lemma value_stack_run_is_list_machine_lemma : forall (store : list Z) (ped : bool) (ops : list vop),
  zlen store <= isize_max -> Forall vop_ok ops ->
  exists s', vs_run ped ops (mkVS store 0) = Some (s', snd (spec_run (zlen store) ped ops [])) /\
             stk s' = fst (spec_run (zlen store) ped ops []) /\ zlen (vals s') = zlen store.
Proof.
  intros store ped ops Hc Hok.
  assert (H0 : vinv (zlen store) (mkVS store 0)).
  { split; cbn; [reflexivity|]. pose proof (zlen_nonneg store). lia. }
  destruct (run_refines (zlen store) ped ops Hc Hok (mkVS store 0) H0) as (s' & E & L' & [Hl Hn]).
  exists s'. change (stk (mkVS store 0)) with (@nil Z) in *. auto.
Qed.

Lemma spec_pop_snoc' ped l x : spec_pop ped (l ++ [x]) = (l, Ok x).
Proof. unfold spec_pop. rewrite rev_app_distr. cbn [rev app]. rewrite rev_involutive. reflexivity. Qed.

(* closed forms of copy_index / move_index: the conventions at a glance.  l is the whole stack (bottom first),
   rev l = v :: r  with v the index operand and r the stack below it, top first *)
Definition bad_index (v : Z) (r : list Z) : Prop := v <= 0 \/ zlen r < v.

Lemma copy_index_cases_lemma : forall cap l, zlen l <= cap ->
  match rev l with
  | [] => spec_copy_index cap true l = (l, Err EUnderflow) /\
          spec_copy_index cap false l = (if 0 <? cap then ([0], Ok tt) else ([], Err EOverflow))
  | v :: r =>
      (bad_index v r -> spec_copy_index cap true l = (rev r, Err (EInvalidStackValue v)) /\
                        spec_copy_index cap false l = (rev (0 :: r), Ok tt)) /\
      (1 <= v <= zlen r -> forall ped, spec_copy_index cap ped l = (rev (nth (Z.to_nat (v - 1)) r 0 :: r), Ok tt))
  end.
Proof.
  intros cap l Hl. destruct (rev l) as [|v r] eqn:Er.
  - assert (l = []) by (rewrite <- (rev_involutive l), Er; reflexivity). subst l.
    unfold spec_copy_index, lbind, spec_pop, spec_push. cbn [rev]. change (zlen (@nil Z)) with 0.
    cbn [Z.leb Z.compare orb app]. split; reflexivity.
  - assert (El : l = rev r ++ [v]) by (rewrite <- (rev_involutive l), Er; reflexivity).
    assert (Hlen : zlen (rev r) = zlen r) by apply zlen_rev.
    assert (Hcap : zlen (rev r) < cap) by (rewrite El in Hl; rewrite zlen_app in Hl; unfold zlen in *; cbn [length] in *; lia).
    unfold spec_copy_index, lbind. rewrite El, !spec_pop_snoc'. rewrite Hlen. split.
    + intros Hb. unfold bad_index in Hb. destruct ((v <=? 0) || (zlen r <? v)) eqn:E; [|lia].
      split; [reflexivity|]. unfold spec_push. destruct (zlen (rev r) <? cap) eqn:E2; [reflexivity|lia].
    + intros Hv ped. rewrite ?spec_pop_snoc', ?Hlen. destruct ((v <=? 0) || (zlen r <? v)) eqn:E; [lia|].
      unfold spec_push. destruct (zlen (rev r) <? cap) eqn:E2; [|lia]. rewrite rev_involutive. reflexivity.
Qed.

Lemma move_index_cases_lemma : forall l,
  match rev l with
  | [] => spec_move_index true l = (l, Err EUnderflow) /\ spec_move_index false l = (l, Ok tt)
  | v :: r =>
      (bad_index v r -> spec_move_index true l = (rev r, Err (EInvalidStackValue v)) /\
                        spec_move_index false l = (rev r, Ok tt)) /\
      (1 <= v <= zlen r -> forall ped,
         spec_move_index ped l =
           (rev (nth (Z.to_nat (v - 1)) r 0 :: firstn (Z.to_nat (v - 1)) r ++ skipn (Z.to_nat v) r), Ok tt))
  end.
Proof.
  intros l. destruct (rev l) as [|v r] eqn:Er.
  - assert (l = []) by (rewrite <- (rev_involutive l), Er; reflexivity). subst l.
    unfold spec_move_index, lbind, spec_pop. cbn [rev]. change (zlen (@nil Z)) with 0.
    cbn [Z.leb Z.compare orb]. split; reflexivity.
  - assert (El : l = rev r ++ [v]) by (rewrite <- (rev_involutive l), Er; reflexivity).
    assert (Hlen : zlen (rev r) = zlen r) by apply zlen_rev.
    unfold spec_move_index, lbind. rewrite El, !spec_pop_snoc'. rewrite Hlen. split.
    + intros Hb. unfold bad_index in Hb. destruct ((v <=? 0) || (zlen r <? v)) eqn:E; [|lia]. split; reflexivity.
    + intros Hv ped. rewrite ?spec_pop_snoc', ?Hlen. destruct ((v <=? 0) || (zlen r <? v)) eqn:E; [lia|]. cbv zeta. rewrite rev_involutive. reflexivity.
Qed.

(* the pedantic flag matters exactly when the stack is empty or the index is outside 1..=depth *)
Definition good_index_on_top (l : list Z) : Prop :=
  match rev l with v :: r => 1 <= v <= zlen r | [] => False end.

Lemma index_ops_pedantic_only_on_bad_index_lemma : forall cap l, zlen l <= cap ->
  (spec_copy_index cap true l = spec_copy_index cap false l <-> good_index_on_top l) /\
  (spec_move_index true l = spec_move_index false l <-> good_index_on_top l).
Proof.
  intros cap l Hl. pose proof (copy_index_cases_lemma cap l Hl) as C. pose proof (move_index_cases_lemma l) as Mv.
  unfold good_index_on_top. destruct (rev l) as [|v r].
  - destruct C as [C1 C2], Mv as [M1 M2]. rewrite C1, C2, M1, M2. split; split; try contradiction.
    + destruct (0 <? cap); discriminate.
    + discriminate.
  - destruct C as [Cb Cg], Mv as [Mb Mg].
    destruct (Z_le_dec 1 v) as [H1|H1]; [destruct (Z_le_dec v (zlen r)) as [H2|H2]|].
    + split; (split; [intros _; lia|intros _]); [rewrite !Cg by lia|rewrite !Mg by lia]; reflexivity.
    + assert (Hb : bad_index v r) by (unfold bad_index; lia).
      destruct (Cb Hb) as [-> ->], (Mb Hb) as [-> ->]. split; (split; [discriminate|lia]).
    + assert (Hb : bad_index v r) by (unfold bad_index; lia).
      destruct (Cb Hb) as [-> ->], (Mb Hb) as [-> ->]. split; (split; [discriminate|lia]).
Qed.

(* closed forms of the composite operations on stacks that are deep enough (bottom-first lists) *)
Lemma spec_pop_snoc ped l x : spec_pop ped (l ++ [x]) = (l, Ok x).
Proof. unfold spec_pop. rewrite rev_app_distr. cbn [rev app]. rewrite rev_involutive. reflexivity. Qed.

Lemma spec_push_ok cap v l : zlen l < cap -> spec_push cap v l = (l ++ [v], Ok tt).
Proof. intros H. unfold spec_push. destruct (zlen l <? cap) eqn:E; [reflexivity|lia]. Qed.

Lemma composite_closed_forms_lemma : forall cap ped l a b c,
  (zlen l + 1 < cap -> spec_dup cap ped (l ++ [a]) = (l ++ [a; a], Ok tt)) /\
  (zlen l + 1 = cap -> spec_dup cap ped (l ++ [a]) = (l ++ [a], Err EOverflow)) /\
  (zlen l + 2 <= cap -> spec_swap cap ped (l ++ [b; a]) = (l ++ [a; b], Ok tt)) /\
  (zlen l + 3 <= cap -> spec_roll cap ped (l ++ [c; b; a]) = (l ++ [b; a; c], Ok tt)) /\
  (forall f r, zlen l + 1 <= cap -> f a = Ok r -> spec_apply_unary cap ped f (l ++ [a]) = (l ++ [r], Ok tt)) /\
  (forall f e, f a = Err e -> spec_apply_unary cap ped f (l ++ [a]) = (l, Err e)) /\
  (forall f r, zlen l + 2 <= cap -> f a b = Ok r -> spec_apply_binary cap ped f (l ++ [a; b]) = (l ++ [r], Ok tt)) /\
  (spec_swap cap true [] = ([], Err EUnderflow)) /\
  (spec_swap cap true [a] = ([], Err EUnderflow)) /\
  (2 <= cap -> spec_swap cap false [a] = ([a; 0], Ok tt)).
Proof.
  intros cap ped l a b c. pose proof (zlen_nonneg l) as Hl0.
  assert (Z1 : forall x, zlen (l ++ [x]) = zlen l + 1) by (intros; zl).
  assert (Z2 : forall x y, zlen (l ++ [x; y]) = zlen l + 2) by (intros; zl).
  split; [|split; [|split; [|split; [|split; [|split; [|split; [|split; [|split]]]]]]]].
  - intros H. unfold spec_dup. rewrite rev_app_distr. cbn [rev app].
    rewrite spec_push_ok by (rewrite Z1; lia). f_equal. aeq.
  - intros H. unfold spec_dup. rewrite rev_app_distr. cbn [rev app].
    unfold spec_push. rewrite Z1. destruct (zlen l + 1 <? cap) eqn:E; [lia|reflexivity].
  - intros H. unfold spec_swap, lbind.
    replace (l ++ [b; a]) with ((l ++ [b]) ++ [a]) by aeq.
    rewrite spec_pop_snoc, spec_pop_snoc.
    rewrite spec_push_ok by lia. rewrite spec_push_ok by (rewrite Z1; lia). f_equal. aeq.
  - intros H. unfold spec_roll, lbind.
    replace (l ++ [c; b; a]) with (((l ++ [c]) ++ [b]) ++ [a]) by aeq.
    rewrite !spec_pop_snoc.
    rewrite spec_push_ok by lia. rewrite spec_push_ok by (rewrite Z1; lia).
    replace ((l ++ [b]) ++ [a]) with (l ++ [b; a]) by aeq.
    rewrite spec_push_ok by (rewrite Z2; lia). f_equal. aeq.
  - intros f r H Hf. unfold spec_apply_unary, lbind. rewrite spec_pop_snoc, Hf.
    apply spec_push_ok. lia.
  - intros f e Hf. unfold spec_apply_unary, lbind. rewrite spec_pop_snoc, Hf. reflexivity.
  - intros f r H Hf. unfold spec_apply_binary, lbind.
    replace (l ++ [a; b]) with ((l ++ [a]) ++ [b]) by aeq.
    rewrite !spec_pop_snoc, Hf. apply spec_push_ok. lia.
  - reflexivity.
  - reflexivity.
  - intros H. unfold spec_swap, lbind, spec_pop, spec_push. cbn [rev app].
    change (zlen (@nil Z)) with 0. destruct (0 <? cap) eqn:E1; [|lia]. cbn [app].
    change (zlen [a]) with 1. destruct (1 <? cap) eqn:E2; [|lia]. reflexivity.
Qed.

