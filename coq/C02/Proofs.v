(* C02 — lemmas about the guard models in Model.v.  Props.v restates the property-level theorems. *)
From Coq Require Import ZArith Lia List Bool.
From Coq Require Import ZifyBool.
From FV Require Import Lib.RustInt C02.Model.
Import ListNotations.
Open Scope Z_scope.
Ltac Zify.zify_post_hook ::= Z.div_mod_to_equations.

Lemma placeholder : True. Proof. exact I. Qed.
