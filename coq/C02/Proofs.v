(* C02 — lemmas about the guard models in Model.v.  Props.v restates the property-level theorems. *)
From Coq Require Import ZArith Lia List Bool.
From Coq Require Import ZifyBool.
From FV Require Import Lib.RustInt C02.Model.
Import ListNotations.
Open Scope Z_scope.
Ltac Zify.zify_post_hook ::= Z.div_mod_to_equations.

(* ------------------------------------------------------------------------------------------ *)
(* slices                                                                                      *)
(* ------------------------------------------------------------------------------------------ *)
Lemma zlen_nonneg {A} (l : list A) : 0 <= zlen l.
Proof. unfold zlen. lia. Qed.

Lemma set_nth_some {A} (l : list A) n v : (n < length l)%nat -> exists l', set_nth l n v = Some l'.
Proof.
  revert n. induction l as [|x r IH]; intros n H; cbn in H; [lia|].
  destruct n; cbn; [eauto|]. destruct (IH n ltac:(lia)) as [l' ->]. eauto.
Qed.

Lemma set_nth_none {A} (l : list A) n v : (length l <= n)%nat -> set_nth l n v = None.
Proof.
  revert n. induction l as [|x r IH]; intros n H; cbn in *; [reflexivity|].
  destruct n; [lia|]. rewrite IH by lia. reflexivity.
Qed.

Lemma set_nth_length {A} (l l' : list A) n v : set_nth l n v = Some l' -> length l' = length l.
Proof.
  revert n l'. induction l as [|x r IH]; intros n l' H; cbn in H; [discriminate|].
  destruct n; [inversion H; reflexivity|].
  destruct (set_nth r n v) eqn:E; [|discriminate]. inversion H; subst. cbn. f_equal. eapply IH; eauto.
Qed.

Lemma set_nth_nth_same {A} (l l' : list A) n v : set_nth l n v = Some l' -> nth_error l' n = Some v.
Proof.
  revert n l'. induction l as [|x r IH]; intros n l' H; cbn in H; [discriminate|].
  destruct n; [inversion H; reflexivity|].
  destruct (set_nth r n v) eqn:E; [|discriminate]. inversion H; subst. cbn. eapply IH; eauto.
Qed.

Lemma set_nth_nth_other {A} (l l' : list A) n m v : set_nth l n v = Some l' -> n <> m -> nth_error l' m = nth_error l m.
Proof.
  revert n m l'. induction l as [|x r IH]; intros n m l' H Hne; cbn in H; [discriminate|].
  destruct n.
  - inversion H; subst. destruct m; [lia|reflexivity].
  - destruct (set_nth r n v) eqn:E; [|discriminate]. inversion H; subst.
    destruct m; [reflexivity|]. cbn. eapply IH; eauto.
Qed.

Lemma zset_some {A} (l : list A) i v : 0 <= i < zlen l -> exists l', zset l i v = Some l'.
Proof.
  intros H. unfold zset, zlen in *.
  destruct ((i <? 0) || (Z.of_nat (length l) <=? i)) eqn:E; [lia|].
  apply set_nth_some. lia.
Qed.

Lemma zset_none {A} (l : list A) i v : ~ (0 <= i < zlen l) -> zset l i v = None.
Proof.
  intros H. unfold zset, zlen in *.
  destruct ((i <? 0) || (Z.of_nat (length l) <=? i)) eqn:E; [reflexivity|lia].
Qed.

Lemma zset_inv {A} (l l' : list A) i v : zset l i v = Some l' -> 0 <= i < zlen l /\ zlen l' = zlen l.
Proof.
  unfold zset, zlen. destruct ((i <? 0) || (Z.of_nat (length l) <=? i)) eqn:E; [discriminate|].
  intros H. apply set_nth_length in H. lia.
Qed.

Lemma zget_some {A} (l : list A) i : 0 <= i < zlen l -> exists x, zget l i = Some x.
Proof.
  intros H. unfold zget, zlen in *.
  destruct ((i <? 0) || (Z.of_nat (length l) <=? i)) eqn:E; [lia|].
  destruct (nth_error l (Z.to_nat i)) eqn:N; [eauto|]. apply nth_error_None in N. lia.
Qed.

Lemma zget_inv {A} (l : list A) i x : zget l i = Some x -> 0 <= i < zlen l.
Proof.
  unfold zget, zlen. destruct ((i <? 0) || (Z.of_nat (length l) <=? i)) eqn:E; [discriminate|]. lia.
Qed.

Lemma zget_none {A} (l : list A) i : ~ (0 <= i < zlen l) -> zget l i = None.
Proof.
  intros H. unfold zget, zlen in *.
  destruct ((i <? 0) || (Z.of_nat (length l) <=? i)) eqn:E; [reflexivity|lia].
Qed.

Lemma zget_zset_same {A} (l l' : list A) i v : zset l i v = Some l' -> zget l' i = Some v.
Proof.
  intros H. pose proof (zset_inv _ _ _ _ H) as [Hi Hl].
  unfold zset in H. unfold zget. rewrite Hl.
  destruct ((i <? 0) || (zlen l <=? i)) eqn:E; [discriminate|].
  eapply set_nth_nth_same; eauto.
Qed.

Lemma zget_zset_other {A} (l l' : list A) i j v : zset l i v = Some l' -> i <> j -> zget l' j = zget l j.
Proof.
  intros H Hne. pose proof (zset_inv _ _ _ _ H) as [Hi Hl].
  unfold zset in H. unfold zget. rewrite Hl.
  destruct ((i <? 0) || (zlen l <=? i)) eqn:E; [discriminate|].
  destruct ((j <? 0) || (zlen l <=? j)) eqn:E2; [reflexivity|].
  eapply set_nth_nth_other; eauto. lia.
Qed.

(* ------------------------------------------------------------------------------------------ *)
(* (b) ValueStack: totality and the invariant len <= capacity                                  *)
(* ------------------------------------------------------------------------------------------ *)
Definition vinv (cap : Z) (s : vstack) : Prop := zlen (vals s) = cap /\ 0 <= vlen s <= cap.

(* a method is total and keeps the invariant *)
Definition tp {A} (cap : Z) (m : M A) : Prop :=
  forall s, vinv cap s -> exists s' o, m s = Some (s', o) /\ vinv cap s'.

Lemma tp_ret {A} cap (a : A) : tp cap (ret a).
Proof. intros s H. unfold ret. eauto. Qed.
Lemma tp_fail {A} cap e : tp cap (@fail A e).
Proof. intros s H. unfold fail. eauto. Qed.
Lemma tp_bind {A B} cap (m : M A) (k : A -> M B) : tp cap m -> (forall a, tp cap (k a)) -> tp cap (bind m k).
Proof.
  intros Hm Hk s H. unfold bind. destruct (Hm s H) as (s' & o & -> & H').
  destruct o as [a|e]; [apply Hk; exact H'|eauto].
Qed.

Section VS.
  Variable cap : Z.
  Hypothesis Hcap : cap <= isize_max.

  Lemma tp_push v : tp cap (vs_push v).
  Proof.
    intros s [Hl Hn]. unfold vs_push.
    destruct (Z.eq_dec (vlen s) cap) as [E|E].
    - rewrite zset_none by lia. eexists _, _. split; [reflexivity|]. split; assumption.
    - destruct (zset_some (vals s) (vlen s) v ltac:(lia)) as [vs' Hs]. rewrite Hs.
      apply zset_inv in Hs. unfold add_usize. unfold isize_max, usize_max in *.
      destruct (18446744073709551615 <? vlen s + 1) eqn:Eo; [lia|].
      eexists _, _. split; [reflexivity|]. split; cbn; lia.
  Qed.

  Lemma write_at_length vs i l : length (write_at vs i l) = length vs.
  Proof.
    revert vs i. induction l as [|x r IH]; intros vs i; cbn; [reflexivity|].
    destruct (set_nth vs i x) eqn:E; [|reflexivity]. rewrite IH. eapply set_nth_length; eauto.
  Qed.

  Lemma tp_push_list l : zlen l <= isize_max -> tp cap (vs_push_list l).
  Proof.
    intros Hll s [Hl Hn]. unfold vs_push_list. pose proof (zlen_nonneg l).
    unfold add_usize, isize_max, usize_max in *.
    destruct (18446744073709551615 <? vlen s + zlen l) eqn:Eo; [lia|].
    destruct ((vlen s + zlen l <? vlen s) || (zlen (vals s) <? vlen s + zlen l)) eqn:E.
    - eexists _, _. split; [reflexivity|]. split; assumption.
    - eexists _, _. split; [reflexivity|]. split; cbn.
      + unfold zlen in *. rewrite write_at_length. exact Hl.
      + lia.
  Qed.

  Lemma peek_some s : vinv cap s -> 0 < vlen s -> exists v, vs_peek s = Some v.
  Proof.
    intros [Hl Hn] Hp. unfold vs_peek. destruct (0 <? vlen s) eqn:E; [|lia].
    apply zget_some. lia.
  Qed.
  Lemma peek_none s : vlen s <= 0 -> vs_peek s = None.
  Proof. intros H. unfold vs_peek. destruct (0 <? vlen s) eqn:E; [lia|reflexivity]. Qed.
  Lemma peek_pos s v : vs_peek s = Some v -> 0 < vlen s.
  Proof. unfold vs_peek. destruct (0 <? vlen s) eqn:E; [lia|discriminate]. Qed.

  Lemma tp_pop ped : tp cap (vs_pop ped).
  Proof.
    intros s H. unfold vs_pop. destruct (vs_peek s) as [v|] eqn:P.
    - apply peek_pos in P. destruct H as [Hl Hn]. unfold sub_usize.
      destruct (vlen s <? 1) eqn:E; [lia|]. eexists _, _. split; [reflexivity|]. split; cbn; lia.
    - destruct ped; eexists _, _; (split; [reflexivity|exact H]).
  Qed.

  Lemma tp_pop_usize ped : tp cap (vs_pop_usize ped).
  Proof. unfold vs_pop_usize. apply tp_bind; [apply tp_pop|]. intros a. apply tp_ret. Qed.

  Lemma tp_pop_count ped : tp cap (vs_pop_count_checked ped).
  Proof.
    unfold vs_pop_count_checked. apply tp_bind; [apply tp_pop|]. intros a.
    destruct ((a <? 0) && ped); [apply tp_fail|apply tp_ret].
  Qed.

  Lemma tp_unary ped f : tp cap (vs_apply_unary ped f).
  Proof.
    unfold vs_apply_unary. apply tp_bind; [apply tp_pop|]. intros a.
    destruct (f a); [apply tp_push|apply tp_fail].
  Qed.

  Lemma tp_binary ped f : tp cap (vs_apply_binary ped f).
  Proof.
    unfold vs_apply_binary. apply tp_bind; [apply tp_pop|]. intros b.
    apply tp_bind; [apply tp_pop|]. intros a.
    destruct (f a b); [apply tp_push|apply tp_fail].
  Qed.

  Lemma tp_clear : tp cap vs_clear.
  Proof.
    intros s [Hl Hn]. unfold vs_clear. eexists _, _. split; [reflexivity|]. split; cbn; [exact Hl|lia].
  Qed.

  Lemma tp_dup ped : tp cap (vs_dup ped).
  Proof.
    intros s H. unfold vs_dup. destruct (vs_peek s); [apply tp_push; exact H|].
    destruct ped; [eexists _, _; split; [reflexivity|exact H]|apply tp_push; exact H].
  Qed.

  Lemma tp_swap ped : tp cap (vs_swap ped).
  Proof.
    unfold vs_swap. repeat (apply tp_bind; [first [apply tp_pop|apply tp_push]|intros ?]). apply tp_push.
  Qed.

  Lemma tp_roll ped : tp cap (vs_roll ped).
  Proof.
    unfold vs_roll. repeat (apply tp_bind; [first [apply tp_pop|apply tp_push]|intros ?]). apply tp_push.
  Qed.

  Lemma wrap_u64_nonneg v : 0 <= wrap_u 64 v.
  Proof. unfold wrap_u. apply Z.mod_pos_bound. reflexivity. Qed.

  Lemma tp_copy_index ped : tp cap (vs_copy_index ped).
  Proof.
    unfold vs_copy_index. apply tp_bind; [apply tp_pop|]. intros index s H. pose proof H as [Hl Hn].
    destruct ((index <=? 0) || (vlen s <? index)) eqn:E.
    - destruct ped; [eexists _, _; split; [reflexivity|exact H]|apply tp_push; exact H].
    - unfold sub_usize. destruct (vlen s <? index) eqn:E1; [lia|].
      destruct (zget_some (vals s) (vlen s - index) ltac:(lia)) as [e ->]. apply tp_push; exact H.
  Qed.

  Lemma copy_within_some l lo hi d : 0 <= lo <= hi -> hi <= zlen l -> 0 <= d -> d + (hi - lo) <= zlen l ->
    exists l', copy_within l lo hi d = Some l' /\ zlen l' = zlen l.
  Proof.
    intros H1 H2 H3 H4. unfold copy_within.
    destruct ((hi <? lo) || (zlen l <? hi) || (zlen l <? d + (hi - lo)) || (lo <? 0) || (d <? 0)) eqn:E; [lia|].
    eexists. split; [reflexivity|]. unfold zlen in *.
    rewrite !app_length, !firstn_length, !skipn_length. lia.
  Qed.

  Lemma tp_move_index ped : tp cap (vs_move_index ped).
  Proof.
    unfold vs_move_index. apply tp_bind; [apply tp_pop|]. intros index s H. pose proof H as [Hl Hn].
    destruct ((index <=? 0) || (vlen s <? index)) eqn:E.
    - destruct ped; eexists _, _; (split; [reflexivity|exact H]).
    - unfold sub_usize. destruct (vlen s <? index) eqn:E1; [lia|].
      destruct (zget_some (vals s) (vlen s - index) ltac:(lia)) as [e ->].
      unfold add_usize, isize_max, usize_max in *.
      destruct (18446744073709551615 <? vlen s - index + 1) eqn:E4; [lia|].
      destruct (copy_within_some (vals s) (vlen s - index + 1) (vlen s) (vlen s - index)
                  ltac:(lia) ltac:(lia) ltac:(lia) ltac:(lia)) as (vs1 & -> & Hl1).
      destruct (vlen s <? 1) eqn:E5; [lia|].
      destruct (zset_some vs1 (vlen s - 1) e ltac:(lia)) as [vs2 Hs]. rewrite Hs.
      apply zset_inv in Hs. eexists _, _. split; [reflexivity|]. split; cbn; lia.
  Qed.

  (* admissible operations: pushed operand lists are real slices *)
  Definition vop_ok (o : vop) : Prop :=
    match o with OPushList l => zlen l <= isize_max | _ => True end.

  Lemma vs_step_total ped o s : vop_ok o -> vinv cap s ->
    exists s' ob, vs_step ped o s = Some (s', ob) /\ vinv cap s'.
  Proof.
    intros Hok H.
    assert (G : forall A (val : A -> Z) (m : M A), tp cap m ->
               exists s' ob, option_map (obs_of val) (m s) = Some (s', ob) /\ vinv cap s').
    { intros A val m Hm. destruct (Hm s H) as (s' & o' & -> & H'). cbn. destruct o' as [a|[]]; eauto. }
    destruct o; cbn [vs_step].
    - apply G, tp_push.
    - apply G, tp_push_list, Hok.
    - eexists _, _. split; [reflexivity|exact H].
    - apply G, tp_pop.
    - apply G, tp_pop_usize.
    - apply G, tp_pop_count.
    - apply G, tp_unary.
    - apply G, tp_binary.
    - apply G, tp_clear.
    - apply G, tp_dup.
    - apply G, tp_swap.
    - apply G, tp_copy_index.
    - apply G, tp_move_index.
    - apply G, tp_roll.
  Qed.

  Lemma vs_run_total ped ops : Forall vop_ok ops -> forall s, vinv cap s ->
    exists s' obs, vs_run ped ops s = Some (s', obs) /\ vinv cap s' /\ length obs = length ops /\
                   Forall (fun ob => 0 <= snd ob <= cap) obs.
  Proof.
    induction 1 as [|o r Ho Hr IH]; intros s H; cbn [vs_run].
    - eexists _, _. split; [reflexivity|]. split; [exact H|]. split; [reflexivity|constructor].
    - destruct (vs_step_total ped o s Ho H) as (s1 & ob & E1 & H1). rewrite E1.
      destruct (IH s1 H1) as (s2 & obs & E2 & H2 & Hlen & Hall). rewrite E2.
      eexists _, _. split; [reflexivity|]. split; [exact H2|]. split.
      + cbn. lia.
      + constructor; [|exact Hall].
        (* the reported length is the length of the state after the call *)
        clear - E1 H1.
        assert (snd ob = vlen s1).
        { destruct o; cbn [vs_step] in E1;
            try (match type of E1 with option_map _ ?m = _ => destruct m as [[sx ox]|]; [|discriminate] end;
                 cbn in E1; destruct ox as [a|[]]; inversion E1; reflexivity).
          destruct (vs_peek s); inversion E1; reflexivity. }
        destruct H1. lia.
  Qed.
End VS.

(* value_stack_total: for every capacity, both modes, every op sequence (closures arbitrary), starting
   from the empty stack over any backing store: no call panics, and len <= capacity throughout *)
Lemma value_stack_total_lemma : forall (store : list Z) (ped : bool) (ops : list vop),
  zlen store <= isize_max -> Forall vop_ok ops ->
  exists s' obs, vs_run ped ops (mkVS store 0) = Some (s', obs) /\
                 zlen (vals s') = zlen store /\ 0 <= vlen s' <= zlen store /\
                 length obs = length ops /\ Forall (fun ob => 0 <= snd ob <= zlen store) obs.
Proof.
  intros store ped ops Hc Hok.
  destruct (vs_run_total (zlen store) Hc ped ops Hok (mkVS store 0)) as (s' & obs & E & [H1 H2] & H3 & H4).
  - split; cbn; [reflexivity|]. pose proof (zlen_nonneg store). lia.
  - eexists _, _. split; [exact E|]. auto.
Qed.

(* ------------------------------------------------------------------------------------------ *)
(* (a) Decycler: it is a stack (the root-to-current chain) with a depth cap and the            *)
(*     tortoise test against the element at index depth/2                                      *)
(* ------------------------------------------------------------------------------------------ *)
(* specification on the chain of entered-and-not-yet-left node ids, root first *)
Definition spec_enter_ok (chain : list Z) (id : Z) : bool :=
  (zlen chain =? 0) ||
  match zget chain (zlen chain / 2) with Some x => negb (x =? id) | None => false end.

Definition spec_step (D : Z) (chain : list Z) (op : option Z) : list Z * option (Z * Z) :=
  match op with
  | Some id =>
      if zlen chain <? D then
        if spec_enter_ok chain id then (chain ++ [id], Some (0, zlen chain + 1))
        else (chain, Some (1, zlen chain))
      else (chain, Some (2, zlen chain))
  | None => (removelast chain, None)
  end.

Fixpoint spec_drive (D : Z) (chain : list Z) (ops : list (option Z)) : list (Z * Z) :=
  match ops with
  | [] => []
  | op :: r => let '(c', o) := spec_step D chain op in
               match o with Some x => x :: spec_drive D c' r | None => spec_drive D c' r end
  end.

Fixpoint spec_final (D : Z) (chain : list Z) (ops : list (option Z)) : list Z :=
  match ops with
  | [] => chain
  | op :: r => spec_final D (fst (spec_step D chain op)) r
  end.

Definition dec_rel (D : Z) (d : decycler) (chain : list Z) : Prop :=
  zlen (node_ids d) = D /\ 0 <= ddepth d <= D /\ chain = firstn (Z.to_nat (ddepth d)) (node_ids d).

Lemma nth_error_firstn_lt {A} (l : list A) n i : (i < n)%nat -> nth_error (firstn n l) i = nth_error l i.
Proof.
  revert n i. induction l as [|x r IH]; intros n i H.
  - rewrite firstn_nil. reflexivity.
  - destruct n; [lia|]. destruct i; cbn; [reflexivity|]. apply IH. lia.
Qed.

Lemma firstn_set_nth_snoc {A} (l l' : list A) n v : set_nth l n v = Some l' -> firstn (S n) l' = firstn n l ++ [v].
Proof.
  revert n l'. induction l as [|x r IH]; intros n l' H; cbn in H; [discriminate|].
  destruct n; [inversion H; reflexivity|].
  destruct (set_nth r n v) eqn:E; [|discriminate]. inversion H; subst.
  cbn [firstn app]. f_equal. apply IH. exact E.
Qed.

Lemma dec_rel_len D d chain : dec_rel D d chain -> zlen chain = ddepth d.
Proof.
  intros (Hl & Hd & ->). unfold zlen in *. rewrite firstn_length. lia.
Qed.

Lemma dec_step_refines D d chain op r : 0 < D <= isize_max -> dec_rel D d chain ->
  (forall d' c', dec_rel D d' c' -> dec_drive D d' r = Some (spec_drive D c' r)) ->
  dec_drive D d (op :: r) = Some (spec_drive D chain (op :: r)).
Proof.
  intros HD Hrel IH. pose proof (dec_rel_len _ _ _ Hrel) as Hlen.
  destruct Hrel as (Hl & Hd & Hc).
  destruct op as [id|]; cbn [dec_drive spec_drive spec_step].
  - unfold dec_enter. rewrite Hlen.
    destruct (ddepth d <? D) eqn:E1.
    + (* the write and the increment cannot fail *)
      destruct (zset_some (node_ids d) (ddepth d) id ltac:(lia)) as [ids' Hs].
      assert (Hadd : add_usize (ddepth d) 1 = Some (ddepth d + 1)).
      { unfold add_usize, usize_max, isize_max in *. destruct (18446744073709551615 <? ddepth d + 1) eqn:E; [lia|reflexivity]. }
      assert (Hrel' : dec_rel D (mkDec ids' (ddepth d + 1)) (chain ++ [id])).
      { pose proof (zset_inv _ _ _ _ Hs) as [_ Hl']. split; [cbn; lia|]. split; [cbn; lia|]. cbn.
        replace (Z.to_nat (ddepth d + 1)) with (S (Z.to_nat (ddepth d))) by lia.
        unfold zset in Hs. destruct ((ddepth d <? 0) || (zlen (node_ids d) <=? ddepth d)); [discriminate|].
        rewrite (firstn_set_nth_snoc _ _ _ _ Hs). rewrite Hc. reflexivity. }
      unfold spec_enter_ok. rewrite Hlen.
      destruct (ddepth d =? 0) eqn:E0.
      * cbn [orb]. rewrite Hs, Hadd. rewrite (IH _ _ Hrel'). reflexivity.
      * cbn [orb].
        (* the read at depth/2 is in range and sees the chain *)
        assert (Hget : zget (node_ids d) (ddepth d / 2) = zget chain (ddepth d / 2)).
        { unfold zget. rewrite Hlen, Hl.
          destruct ((ddepth d / 2 <? 0) || (D <=? ddepth d / 2)) eqn:Ea;
          destruct ((ddepth d / 2 <? 0) || (ddepth d <=? ddepth d / 2)) eqn:Eb; try lia.
          rewrite Hc. symmetry. apply nth_error_firstn_lt. lia. }
        destruct (zget_some (node_ids d) (ddepth d / 2) ltac:(lia)) as [x Hx].
        rewrite <- Hget, Hx.
        destruct (negb (x =? id)).
        -- rewrite Hs, Hadd. rewrite (IH _ _ Hrel'). reflexivity.
        -- rewrite (IH d chain) by (split; [|split]; assumption). reflexivity.
    + rewrite (IH d chain) by (split; [|split]; assumption). reflexivity.
  - destruct (ddepth d =? 0) eqn:E0.
    + (* ignored at depth 0; the chain is empty *)
      assert (chain = []) as -> by (destruct chain; [reflexivity|unfold zlen in Hlen; cbn in Hlen; lia]).
      cbn [removelast]. apply IH. split; [|split]; try assumption.
    + unfold dec_leave, sub_usize. destruct (ddepth d <? 1) eqn:E1; [lia|].
      apply IH. split; [exact Hl|]. split; [cbn; lia|]. cbn. rewrite Hc.
      replace (Z.to_nat (ddepth d)) with (S (Z.to_nat (ddepth d - 1))) by lia.
      apply removelast_firstn. unfold zlen in Hl. lia.
Qed.

Lemma dec_refines D ops : 0 < D <= isize_max -> forall d chain, dec_rel D d chain ->
  dec_drive D d ops = Some (spec_drive D chain ops).
Proof.
  intros HD. induction ops as [|op r IH]; intros d chain Hrel; [reflexivity|].
  apply dec_step_refines; auto.
Qed.

Lemma dec_new_rel D : 0 <= D -> dec_rel D (dec_new D) [].
Proof.
  intros H. unfold dec_new. split; [|split]; cbn.
  - unfold zlen. rewrite repeat_length. lia.
  - lia.
  - reflexivity.
Qed.

Lemma zlen_app {A} (a b : list A) : zlen (a ++ b) = zlen a + zlen b.
Proof. unfold zlen. rewrite app_length. lia. Qed.

Lemma zlen_removelast {A} (l : list A) : zlen (removelast l) = Z.max 0 (zlen l - 1).
Proof.
  unfold zlen. rewrite removelast_firstn_len, firstn_length. destruct l; cbn [length Nat.pred]; lia.
Qed.

Lemma spec_step_len D chain op : 0 <= D -> zlen chain <= D -> zlen (fst (spec_step D chain op)) <= D.
Proof.
  intros HD H. destruct op as [id|]; cbn [spec_step].
  - destruct (zlen chain <? D) eqn:E; [|exact H].
    destruct (spec_enter_ok chain id); cbn [fst]; [|exact H]. rewrite zlen_app. unfold zlen at 2. cbn. lia.
  - cbn [fst]. rewrite zlen_removelast. lia.
Qed.

Lemma spec_drive_depths D ops : 0 <= D -> forall chain, zlen chain <= D ->
  Forall (fun o => 0 <= snd o <= D) (spec_drive D chain ops).
Proof.
  intros HD. induction ops as [|op r IH]; intros chain H; cbn [spec_drive]; [constructor|].
  pose proof (spec_step_len D chain op HD H) as Hs. pose proof (zlen_nonneg chain).
  destruct op as [id|]; cbn [spec_step] in *.
  - destruct (zlen chain <? D) eqn:E.
    + destruct (spec_enter_ok chain id); cbn [fst] in Hs; (constructor; [cbn; lia|apply IH; exact Hs]).
    + constructor; [cbn; lia|apply IH; exact H].
  - apply IH. exact Hs.
Qed.

(* decycler_safe *)
Lemma decycler_safe_lemma : forall D ops, 0 < D <= isize_max ->
  (* no array index out of range, no usize under/overflow: the driver never panics, and behaves exactly
     as the stack specification *)
  dec_drive D (dec_new D) ops = Some (spec_drive D [] ops) /\
  (* every reported depth is within [0, D] *)
  Forall (fun o => 0 <= snd o <= D) (spec_drive D [] ops) /\
  (* stack discipline: a successful Enter followed by any body that ends back at the entered node and
     then a Leave restores exactly the chain (hence the depth) before the Enter *)
  (forall chain id body, zlen chain < D -> spec_enter_ok chain id = true ->
     spec_final D (chain ++ [id]) body = chain ++ [id] ->
     spec_final D chain (Some id :: body ++ [None]) = chain).
Proof.
  intros D ops HD. split; [|split].
  - apply dec_refines; [exact HD|]. apply dec_new_rel. lia.
  - apply spec_drive_depths; [lia|]. unfold zlen; cbn; lia.
  - intros chain id body Hlt Hok Hbody. cbn [spec_final spec_step].
    destruct (zlen chain <? D) eqn:E; [|lia]. rewrite Hok. cbn [fst].
    assert (G : forall b c, spec_final D c (b ++ [None]) = removelast (spec_final D c b)).
    { induction b as [|o b IHb]; intros c; cbn [app spec_final]; [reflexivity|apply IHb]. }
    rewrite G, Hbody. apply removelast_last.
Qed.

(* ---- cycle detection ---- *)
(* Enter-only descent along the sequence s(0), s(1), ...: as long as every Enter succeeded the chain is
   the sequence itself *)
Definition enters (s : nat -> Z) (n : nat) : list (option Z) := map (fun i => Some (s i)) (seq 0 n).
Definition all_entered (l : list (Z * Z)) : bool := forallb (fun o => fst o =? 0) l.

Lemma spec_drive_app D a b chain :
  spec_drive D chain (a ++ b) = spec_drive D chain a ++ spec_drive D (spec_final D chain a) b.
Proof.
  revert chain. induction a as [|op r IH]; intros chain; cbn [app spec_drive spec_final]; [reflexivity|].
  destruct (spec_step D chain op) as [c' [x|]]; cbn [fst]; rewrite IH; reflexivity.
Qed.

Lemma enters_succ s n : enters s (S n) = enters s n ++ [Some (s n)].
Proof. unfold enters. rewrite seq_S, map_app. reflexivity. Qed.

Lemma all_entered_app a b : all_entered (a ++ b) = all_entered a && all_entered b.
Proof. unfold all_entered. apply forallb_app. Qed.

Lemma all_entered_chain D s n : 0 <= D -> all_entered (spec_drive D [] (enters s n)) = true ->
  spec_final D [] (enters s n) = map s (seq 0 n) /\ Z.of_nat n <= D.
Proof.
  intros HD0. induction n as [|n IH]; intros H.
  - cbn. split; [reflexivity|lia].
  - rewrite enters_succ, spec_drive_app, all_entered_app in H. apply andb_prop in H as [H1 H2].
    destruct (IH H1) as [Hc Hn]. rewrite Hc in H2.
    rewrite enters_succ.
    assert (G : forall a c, spec_final D c (a ++ [Some (s n)]) = fst (spec_step D (spec_final D c a) (Some (s n)))).
    { induction a as [|o a IHa]; intros c; cbn [app spec_final]; [reflexivity|apply IHa]. }
    rewrite G, Hc. cbn [spec_drive spec_step] in H2. cbn [spec_step].
    assert (Hzl : zlen (map s (seq 0 n)) = Z.of_nat n) by (unfold zlen; rewrite map_length, seq_length; reflexivity).
    rewrite Hzl in *.
    destruct (Z.of_nat n <? D) eqn:E; [|cbn in H2; discriminate].
    destruct (spec_enter_ok (map s (seq 0 n)) (s n)); [|cbn in H2; discriminate].
    cbn [fst]. split; [|lia]. rewrite seq_S, map_app. reflexivity.
Qed.

(* any Enter-only sequence whose Enters all succeed has length <= D: a descent longer than D is cut *)
Lemma depth_limit_cuts_lemma : forall D s n, 0 <= D ->
  all_entered (spec_drive D [] (enters s n)) = true -> Z.of_nat n <= D.
Proof. intros D s n HD H. apply (all_entered_chain D s n HD H). Qed.

Lemma nth_error_seq0 a n i : (i < n)%nat -> nth_error (seq a n) i = Some (a + i)%nat.
Proof.
  revert a i. induction n as [|n IH]; intros a i H; [lia|].
  destruct i; cbn; [f_equal; lia|]. rewrite IH by lia. f_equal. lia.
Qed.

Lemma zget_map_seq (s : nat -> Z) n i : (i < n)%nat -> zget (map s (seq 0 n)) (Z.of_nat i) = Some (s i).
Proof.
  intros H. unfold zget, zlen. rewrite map_length, seq_length.
  destruct ((Z.of_nat i <? 0) || (Z.of_nat n <=? Z.of_nat i)) eqn:E; [lia|].
  rewrite Nat2Z.id. apply map_nth_error. rewrite nth_error_seq0 by lia. reflexivity.
Qed.

Lemma periodic_mult (s : nat -> Z) P L : (forall i, (P <= i)%nat -> s (i + L)%nat = s i) ->
  forall j i, (P <= i)%nat -> s (i + j * L)%nat = s i.
Proof.
  intros Hp. induction j as [|j IH]; intros i Hi.
  - f_equal. lia.
  - replace (i + S j * L)%nat with ((i + j * L) + L)%nat by lia. rewrite Hp by lia. apply IH. exact Hi.
Qed.

(* a descent that, after a prefix of P nodes, goes round a cycle of length L for ever is rejected no
   later than at its (2 * (P/L + 1) * L)-th Enter, i.e. within 2 * (P + L) Enters (2L for a cycle
   through the root) — or earlier by the depth limit *)
Lemma cycle_cut_lemma : forall D (s : nat -> Z) (P L : nat), 0 <= D -> (1 <= L)%nat ->
  (forall i, (P <= i)%nat -> s (i + L)%nat = s i) ->
  all_entered (spec_drive D [] (enters s (2 * (P / L + 1) * L))) = false /\
  (2 * (P / L + 1) * L <= 2 * (P + L))%nat.
Proof.
  intros D s P L HD HL Hp. set (k := (P / L + 1)%nat).
  assert (HkP : (P < k * L)%nat).
  { pose proof (Nat.mul_succ_div_gt P L ltac:(lia)). unfold k. replace (P / L + 1)%nat with (S (P / L)) by lia. lia. }
  assert (HkU : (k * L <= P + L)%nat).
  { pose proof (Nat.mul_div_le P L ltac:(lia)). unfold k. lia. }
  split; [|lia].
  destruct (all_entered (spec_drive D [] (enters s (2 * k * L)))) eqn:Hall; [exfalso|reflexivity].
  set (n := (2 * k * L - 1)%nat).
  assert (Hn : (2 * k * L = S n)%nat) by (unfold n; lia).
  rewrite Hn, enters_succ, spec_drive_app, all_entered_app in Hall. apply andb_prop in Hall as [H1 H2].
  destruct (all_entered_chain D s n HD H1) as [Hc Hle]. rewrite Hc in H2.
  cbn [spec_drive spec_step] in H2.
  assert (Hzl : zlen (map s (seq 0 n)) = Z.of_nat n) by (unfold zlen; rewrite map_length, seq_length; reflexivity).
  rewrite Hzl in H2.
  destruct (Z.of_nat n <? D) eqn:E; [|cbn in H2; discriminate].
  unfold spec_enter_ok in H2. rewrite Hzl in H2.
  assert (Hhalf : Z.of_nat n / 2 = Z.of_nat (k * L - 1)).
  { unfold n. assert (Z.of_nat (2 * k * L - 1) = 2 * Z.of_nat (k * L - 1) + 1) by lia. lia. }
  rewrite Hhalf, zget_map_seq in H2 by (unfold n; lia).
  assert (Hs : s n = s (k * L - 1)%nat).
  { replace n with ((k * L - 1) + k * L)%nat by (unfold n; lia). apply (periodic_mult s P L Hp). lia. }
  rewrite Hs in H2. rewrite Z.eqb_refl in H2.
  destruct (Z.of_nat n =? 0) eqn:E0; [unfold n in E0; lia|]. cbn in H2. discriminate.
Qed.

(* ------------------------------------------------------------------------------------------ *)
(* (c) CallStack                                                                               *)
(* ------------------------------------------------------------------------------------------ *)
Definition cinv {R} (c : callstack R) : Prop :=
  zlen (recs c) = CALL_MAX_DEPTH /\ 0 <= clen c <= CALL_MAX_DEPTH.

Lemma cs_push_cases {R} (c : callstack R) r : cinv c ->
  (cs_push c r = CsOverflow /\ clen c = CALL_MAX_DEPTH) \/
  (exists c', cs_push c r = CsOk tt c' /\ cinv c' /\ clen c' = clen c + 1 /\ clen c < CALL_MAX_DEPTH).
Proof.
  intros [Hl Hn]. unfold cs_push. unfold CALL_MAX_DEPTH in *.
  destruct (Z.eq_dec (clen c) 32) as [E|E].
  - left. rewrite zset_none by lia. auto.
  - right. destruct (zset_some (recs c) (clen c) r ltac:(lia)) as [rs' Hs]. rewrite Hs.
    apply zset_inv in Hs. unfold add_usize, usize_max.
    destruct (18446744073709551615 <? clen c + 1) eqn:Eo; [lia|].
    eexists. split; [reflexivity|]. unfold cinv, CALL_MAX_DEPTH. cbn. lia.
Qed.

Lemma cs_pop_cases {R} (c : callstack R) : cinv c ->
  (cs_pop c = CsUnderflow /\ clen c = 0) \/
  (exists r c', cs_pop c = CsOk r c' /\ cinv c' /\ clen c' = clen c - 1 /\ 0 < clen c).
Proof.
  intros [Hl Hn]. unfold cs_pop, cs_peek, checked_sub. unfold CALL_MAX_DEPTH in *.
  destruct (clen c <? 1) eqn:E.
  - left. split; [reflexivity|lia].
  - right. destruct (zget_some (recs c) (clen c - 1) ltac:(lia)) as [r ->].
    unfold sub_usize. rewrite E. eexists _, _. split; [reflexivity|]. unfold cinv, CALL_MAX_DEPTH. cbn. lia.
Qed.

Lemma cs_new_inv {R} (d : R) : cinv (cs_new d).
Proof. unfold cs_new, cinv, CALL_MAX_DEPTH. cbn. unfold zlen. rewrite repeat_length. lia. Qed.

Lemma call_stack_total_lemma : forall (ops : list cop) (c : callstack (Z * Z)), cinv c ->
  exists obs, cs_run ops c = Some obs /\ length obs = length ops.
Proof.
  induction ops as [|o r IH]; intros c H; cbn [cs_run]; [eexists; split; reflexivity|].
  destruct o as [pc n| | |].
  - destruct (cs_push_cases c (pc, n) H) as [[-> _]|(c' & -> & H' & _)].
    + destruct (IH c H) as (obs & -> & Hl). eexists; split; [reflexivity|cbn; lia].
    + destruct (IH c' H') as (obs & -> & Hl). eexists; split; [reflexivity|cbn; lia].
  - destruct (IH c H) as (obs & -> & Hl). eexists; split; [reflexivity|cbn; lia].
  - destruct (cs_pop_cases c H) as [[-> _]|([pc n] & c' & -> & H' & _)].
    + destruct (IH c H) as (obs & -> & Hl). eexists; split; [reflexivity|cbn; lia].
    + destruct (IH c' H') as (obs & -> & Hl). eexists; split; [reflexivity|cbn; lia].
  - assert (H' : cinv (cs_clear c)) by (destruct H; split; cbn; [assumption|unfold CALL_MAX_DEPTH; lia]).
    destruct (IH _ H') as (obs & -> & Hl). eexists; split; [reflexivity|cbn; lia].
Qed.

(* ------------------------------------------------------------------------------------------ *)
(* (d) run loop                                                                                *)
(* ------------------------------------------------------------------------------------------ *)
Section RunProofs.
  Context {S P : Type}.
  Variable oracle : S -> effect S P.

  (* loop-call counts come from an i32 that op_loopcall has tested to be positive *)
  Definition count_ok (e : effect S P) : Prop :=
    match e with
    | FLoopCall c _ _ | FLoopCallErr c _ => 0 < c <= 2147483647
    | _ => True
    end.
  Hypothesis Horacle : forall s, count_ok (oracle s).

  Definition binv (b : budget) : Prop :=
    0 <= backward_jumps b <= blimit b /\ 0 <= loop_calls b <= blimit b /\ blimit b + 2147483648 <= usize_max.
  Definition minv (m : mstate S P) : Prop := cinv (cstack m) /\ binv (bud m).

  Lemma prog_enter_ok m count p s : minv m ->
    match prog_enter m count p s with
    | DOk m' => minv m'
    | DErr _ m' => minv m'
    | DPanic => False
    end.
  Proof.
    intros [Hc Hb]. unfold prog_enter.
    destruct (cs_push_cases (cstack m) (count, p) Hc) as [[-> _]|(c' & -> & H' & _)].
    - split; assumption.
    - split; cbn; assumption.
  Qed.

  Lemma prog_leave_ok m again back : minv m ->
    match prog_leave m again back with
    | DOk m' => minv m'
    | DErr _ m' => minv m'
    | DPanic => False
    end.
  Proof.
    intros [Hc Hb]. unfold prog_leave.
    destruct (cs_pop_cases (cstack m) Hc) as [[-> _]|([count p] & c' & -> & H' & _)].
    - split; assumption.
    - destruct (1 <? count).
      + destruct (cs_push_cases c' (count - 1, p) H') as [[-> _]|(c'' & -> & H'' & _)]; split; cbn; assumption.
      + split; cbn; assumption.
  Qed.

  Lemma dispatch_ok e m : minv m -> count_ok e ->
    match dispatch e m with
    | DOk m' => minv m'
    | DErr _ m' => cinv (cstack m')
    | DPanic => False
    end.
  Proof.
    intros Hm Hcnt. pose proof Hm as [Hc Hb]. destruct Hb as (Hj & Hl & Hlim).
    unfold usize_max in Hlim.
    destruct e; cbn [dispatch].
    - exact Hm.
    - exact Hm.
    - exact Hc.
    - split; cbn; [exact Hc|unfold binv, usize_max; lia].
    - unfold doing_backward_jump, add_usize, usize_max.
      destruct (18446744073709551615 <? backward_jumps (bud m) + 1) eqn:E; [lia|]. cbn [blimit].
      destruct (blimit (bud m) <? backward_jumps (bud m) + 1) eqn:E2; cbn [negb].
      + exact Hc.
      + split; cbn; [exact Hc|unfold binv, usize_max; cbn; lia].
    - pose proof (prog_enter_ok m 1 p s Hm) as G. destruct (prog_enter m 1 p s); [exact G|apply G|exact G].
    - cbn in Hcnt. unfold doing_loop_call, add_usize, usize_max.
      destruct (18446744073709551615 <? loop_calls (bud m) + count) eqn:E; [lia|]. cbn [blimit].
      destruct (blimit (bud m) <? loop_calls (bud m) + count) eqn:E2; cbn [negb].
      + exact Hc.
      + match goal with |- match prog_enter ?mm _ _ _ with _ => _ end =>
          assert (Hmm : minv mm) by (split; cbn; [exact Hc|unfold binv, usize_max; cbn; lia]);
          pose proof (prog_enter_ok mm count p s Hmm) as G; destruct (prog_enter mm count p s) end;
          [exact G|apply G|exact G].
    - cbn in Hcnt. unfold doing_loop_call, add_usize, usize_max.
      destruct (18446744073709551615 <? loop_calls (bud m) + count) eqn:E; [lia|]. cbn [blimit].
      destruct (blimit (bud m) <? loop_calls (bud m) + count) eqn:E2; cbn [negb]; exact Hc.
    - pose proof (prog_leave_ok m again back Hm) as G. destruct (prog_leave m again back); [exact G|apply G|exact G].
  Qed.

  (* Engine::run: with count instructions already counted, at most MAX + 1 - count further dispatches
     happen, whatever the oracle does; never a panic; the fuel is never exhausted *)
  Lemma run_fuel_bounded : forall fuel count m,
    0 <= count <= MAX_RUN_INSTRUCTIONS -> (Z.to_nat (MAX_RUN_INSTRUCTIONS + 1 - count) < fuel)%nat -> minv m ->
    let '(o, n, m', _) := run_fuel oracle fuel count m in
    o <> RunOutOfFuel /\ o <> RunPanic /\ count <= n <= MAX_RUN_INSTRUCTIONS + 1 /\ cinv (cstack m') /\
    (o = RunOk -> minv m') /\ (o = RunErrMax -> n = MAX_RUN_INSTRUCTIONS + 1).
  Proof.
    unfold MAX_RUN_INSTRUCTIONS.
    induction fuel as [|f IH]; intros count m Hcount Hfuel Hm; [lia|].
    cbn [run_fuel]. pose proof (Horacle (sigma m)) as Hok.
    assert (Hhalt : forall o, (o = RunOk \/ o = RunErr K_END) ->
              o <> RunOutOfFuel /\ o <> RunPanic /\ count <= count <= 1000000 + 1 /\ cinv (cstack m) /\
              (o = RunOk -> minv m) /\ (o = RunErrMax -> count = 1000000 + 1)).
    { intros o [-> | ->]; (split; [discriminate|]; split; [discriminate|]; split; [lia|]; split; [apply Hm|];
        split; [intros _; exact Hm || discriminate|discriminate]). }
    assert (Hdisp : forall e, count_ok e ->
      let '(o, n, m', _) :=
        match dispatch e m with
        | DPanic => (RunPanic, count + 1, m, sigma m)
        | DErr k m' => (RunErr k, count + 1, m', sigma m)
        | DOk m' => if 1000000 <? count + 1 then (RunErrMax, count + 1, m', sigma m)
                    else run_fuel oracle f (count + 1) m'
        end in
      o <> RunOutOfFuel /\ o <> RunPanic /\ count <= n <= 1000000 + 1 /\ cinv (cstack m') /\
      (o = RunOk -> minv m') /\ (o = RunErrMax -> n = 1000000 + 1)).
    { intros e He. pose proof (dispatch_ok e m Hm He) as G. destruct (dispatch e m) as [m'|k m'|];
        [|split; [discriminate|]; split; [discriminate|]; split; [lia|]; split; [exact G|]; split; [discriminate|discriminate]|contradiction].
      destruct (1000000 <? count + 1) eqn:E.
      - split; [discriminate|]. split; [discriminate|]. split; [lia|]. split; [apply G|]. split; [discriminate|intros _; lia].
      - specialize (IH (count + 1) m' ltac:(lia) ltac:(lia) G).
        destruct (run_fuel oracle f (count + 1) m') as [[[o n] m''] sl].
        destruct IH as (H1 & H2 & H3 & H4 & H5 & H6).
        split; [exact H1|]. split; [exact H2|]. split; [lia|]. split; [exact H4|]. split; [exact H5|exact H6]. }
    destruct (oracle (sigma m)) eqn:Eo.
    - apply Hhalt. auto.
    - apply Hhalt. auto.
    - apply (Hdisp (FErr kind) Hok).
    - apply (Hdisp (FNext s) Hok).
    - apply (Hdisp (FJumpBack s) Hok).
    - apply (Hdisp (FCall p s) Hok).
    - apply (Hdisp (FLoopCall count0 p s) Hok).
    - apply (Hdisp (FLoopCallErr count0 kind) Hok).
    - apply (Hdisp (FLeave again back) Hok).
  Qed.

  Lemma run_bounded_lemma : forall m, minv m ->
    let '(o, n, m', _) := run oracle m in
    o <> RunOutOfFuel /\ o <> RunPanic /\ 0 <= n <= MAX_RUN_INSTRUCTIONS + 1 /\ cinv (cstack m') /\
    (o = RunOk -> minv m') /\ (o = RunErrMax -> n = MAX_RUN_INSTRUCTIONS + 1).
  Proof.
    intros m Hm. unfold run.
    apply (run_fuel_bounded (Z.to_nat (MAX_RUN_INSTRUCTIONS + 2)) 0 m); [unfold MAX_RUN_INSTRUCTIONS; lia| |exact Hm].
    unfold MAX_RUN_INSTRUCTIONS. lia.
  Qed.
End RunProofs.

(* the limit computed by LoopBudget::new satisfies the arithmetic side condition for every u32 cvt
   length and every point count below 2^32 *)
Lemma loop_limit_ok : forall pc cvt_len, 0 <= cvt_len < 4294967296 ->
  match pc with Some p => 0 <= p < 4294967296 | None => True end ->
  0 <= loop_limit pc cvt_len /\ loop_limit pc cvt_len + 2147483648 <= usize_max.
Proof.
  intros pc cvt_len Hc Hp. unfold loop_limit, usize_max. destruct pc as [p|]; lia.
Qed.

(* ------------------------------------------------------------------------------------------ *)
(* (e) composite recursion                                                                     *)
(* ------------------------------------------------------------------------------------------ *)
Section CompositeProofs.
  Variable glyph_of : Z -> gkind.

  Lemma load_fuel_enough : forall fuel depth gid,
    (Z.to_nat (GLYF_COMPOSITE_RECURSION_LIMIT + 1 - depth) < fuel)%nat ->
    fst (load_fuel glyph_of fuel depth gid) <> LoadOutOfFuel.
  Proof.
    unfold GLYF_COMPOSITE_RECURSION_LIMIT.
    induction fuel as [|f IH]; intros depth gid Hf; [lia|].
    cbn [load_fuel]. unfold GLYF_COMPOSITE_RECURSION_LIMIT.
    destruct (32 <? depth) eqn:E; [cbn; discriminate|].
    destruct (glyph_of gid) as [| |comps]; [cbn; discriminate|cbn; discriminate|].
    assert (IH' : forall c, fst (load_fuel glyph_of f (depth + 1) c) <> LoadOutOfFuel) by (intros c; apply IH; lia).
    clear IH. remember (depth + 1) as d1 eqn:Hd1. clear Hd1.
    generalize 1 as n. induction comps as [|c r IHr]; intros n; [cbn; discriminate|].
    pose proof (IH' c) as IH.
    destruct (load_fuel glyph_of f d1 c) as [res k]. cbn [fst] in IH.
    destruct res; [apply IHr|cbn; discriminate|contradiction].
  Qed.

  Lemma outline_rec_fuel_enough : forall fuel depth gid,
    (Z.to_nat (GLYF_COMPOSITE_RECURSION_LIMIT + 1 - depth) < fuel)%nat ->
    fst (outline_rec_fuel glyph_of fuel depth gid) <> LoadOutOfFuel.
  Proof.
    unfold GLYF_COMPOSITE_RECURSION_LIMIT.
    induction fuel as [|f IH]; intros depth gid Hf; [lia|].
    cbn [outline_rec_fuel]. unfold GLYF_COMPOSITE_RECURSION_LIMIT.
    destruct (32 <? depth) eqn:E; [cbn; discriminate|].
    destruct (glyph_of gid) as [| |comps]; [cbn; discriminate|cbn; discriminate|].
    assert (IH' : forall c, fst (outline_rec_fuel glyph_of f (depth + 1) c) <> LoadOutOfFuel) by (intros c; apply IH; lia).
    clear IH. remember (depth + 1) as d1 eqn:Hd1. clear Hd1.
    generalize 1 as n. induction comps as [|c r IHr]; intros n; [cbn; discriminate|].
    destruct (glyph_of c); [apply IHr| |];
      (pose proof (IH' c) as IH;
       destruct (outline_rec_fuel glyph_of f d1 c) as [res k]; cbn [fst] in IH;
       destruct res; [apply IHr|cbn; discriminate|contradiction]).
  Qed.

  (* on a component map in which every glyph is a composite with at least one component (so every
     descent is infinite: cycles, or an infinite family), loading reports the recursion limit *)
  Lemma load_fuel_cyclic : (forall g, exists c cs, glyph_of g = GComposite (c :: cs)) ->
    forall fuel depth gid, (Z.to_nat (GLYF_COMPOSITE_RECURSION_LIMIT + 1 - depth) < fuel)%nat ->
    fst (load_fuel glyph_of fuel depth gid) = LoadRecursionLimit.
  Proof.
    intros Hall. unfold GLYF_COMPOSITE_RECURSION_LIMIT.
    induction fuel as [|f IH]; intros depth gid Hf; [lia|].
    cbn [load_fuel]. unfold GLYF_COMPOSITE_RECURSION_LIMIT.
    destruct (32 <? depth) eqn:E; [reflexivity|].
    destruct (Hall gid) as (c & cs & ->).
    specialize (IH (depth + 1) c ltac:(lia)).
    destruct (load_fuel glyph_of f (depth + 1) c) as [res k]. cbn [fst] in IH. subst res. reflexivity.
  Qed.

  Lemma composite_load_terminates_lemma : forall depth gid, 0 <= depth ->
    fst (load glyph_of depth gid) <> LoadOutOfFuel /\
    fst (outline_rec_fuel glyph_of (Z.to_nat (GLYF_COMPOSITE_RECURSION_LIMIT + 2)) depth gid) <> LoadOutOfFuel /\
    fst (outline glyph_of gid) <> LoadOutOfFuel /\
    ((forall g, exists c cs, glyph_of g = GComposite (c :: cs)) ->
       fst (load glyph_of depth gid) = LoadRecursionLimit).
  Proof.
    intros depth gid Hd. unfold load, outline.
    assert (Hf : (Z.to_nat (GLYF_COMPOSITE_RECURSION_LIMIT + 1 - depth) < Z.to_nat (GLYF_COMPOSITE_RECURSION_LIMIT + 2))%nat)
      by (unfold GLYF_COMPOSITE_RECURSION_LIMIT; lia).
    split; [apply load_fuel_enough; exact Hf|].
    split; [apply outline_rec_fuel_enough; exact Hf|].
    split.
    - destruct (glyph_of gid); [cbn; discriminate| |]; apply outline_rec_fuel_enough; unfold GLYF_COMPOSITE_RECURSION_LIMIT; lia.
    - intros Hall. apply load_fuel_cyclic; [exact Hall|exact Hf].
  Qed.
End CompositeProofs.

Lemma call_stack_depth_lemma : forall (R : Type) (c : callstack R) (r : R), cinv c ->
  match cs_push c r with
  | CsOk _ c' => cinv c' /\ clen c' = clen c + 1
  | CsOverflow => clen c = CALL_MAX_DEPTH
  | _ => False
  end /\
  match cs_pop c with
  | CsOk _ c' => cinv c' /\ clen c' = clen c - 1
  | CsUnderflow => clen c = 0
  | _ => False
  end.
Proof.
  intros R c r H. split.
  - destruct (cs_push_cases c r H) as [[-> E]|(c' & -> & H' & E & _)]; auto.
  - destruct (cs_pop_cases c H) as [[-> E]|(x & c' & -> & H' & E & _)]; auto.
Qed.

(* ------------------------------------------------------------------------------------------ *)
(* (b') ValueStack behaves as a plain list (top last) with the documented error cases:          *)
(*      push / pop / peek / clear (dup, swap, roll, apply_* are compositions of these)          *)
(* ------------------------------------------------------------------------------------------ *)
Definition stk (s : vstack) : list Z := firstn (Z.to_nat (vlen s)) (vals s).

Lemma stk_len cap s : vinv cap s -> zlen (stk s) = vlen s.
Proof. intros [Hl Hn]. unfold stk, zlen in *. rewrite firstn_length. lia. Qed.

Lemma refine_push cap s v : cap <= isize_max -> vinv cap s ->
  if vlen s <? cap
  then exists s', vs_push v s = Some (s', Ok tt) /\ stk s' = stk s ++ [v] /\ vinv cap s'
  else vs_push v s = Some (s, Err EOverflow).
Proof.
  intros Hcap [Hl Hn]. unfold vs_push. destruct (vlen s <? cap) eqn:E.
  - destruct (zset_some (vals s) (vlen s) v ltac:(lia)) as [vs' Hs]. rewrite Hs.
    unfold add_usize, usize_max, isize_max in *.
    destruct (18446744073709551615 <? vlen s + 1) eqn:Eo; [lia|].
    eexists. split; [reflexivity|]. pose proof (zset_inv _ _ _ _ Hs) as [_ Hl'].
    split; [|split; cbn; lia].
    unfold stk. cbn. replace (Z.to_nat (vlen s + 1)) with (S (Z.to_nat (vlen s))) by lia.
    unfold zset in Hs. destruct ((vlen s <? 0) || (zlen (vals s) <=? vlen s)); [discriminate|].
    apply (firstn_set_nth_snoc _ _ _ _ Hs).
  - rewrite zset_none by lia. reflexivity.
Qed.

Lemma refine_peek cap s : vinv cap s ->
  vs_peek s = match rev (stk s) with x :: _ => Some x | [] => None end.
Proof.
  intros [Hl Hn]. unfold vs_peek. destruct (0 <? vlen s) eqn:E.
  - unfold stk. replace (Z.to_nat (vlen s)) with (S (Z.to_nat (vlen s - 1))) by lia.
    destruct (zget_some (vals s) (vlen s - 1) ltac:(lia)) as [x Hx]. rewrite Hx.
    unfold zget in Hx. destruct ((vlen s - 1 <? 0) || (zlen (vals s) <=? vlen s - 1)); [discriminate|].
    pose proof (nth_error_split _ _ Hx) as (l1 & l2 & Hv & Hl1).
    rewrite Hv. rewrite <- Hl1. replace (S (length l1)) with (length (l1 ++ [x])) by (rewrite app_length; cbn; lia).
    replace (l1 ++ x :: l2) with ((l1 ++ [x]) ++ l2) by (rewrite <- app_assoc; reflexivity).
    rewrite firstn_app, Nat.sub_diag, firstn_all. cbn [firstn]. rewrite app_nil_r, rev_app_distr. reflexivity.
  - unfold stk. replace (Z.to_nat (vlen s)) with 0%nat by lia. reflexivity.
Qed.

Lemma refine_pop cap s ped : vinv cap s ->
  match rev (stk s) with
  | x :: r => exists s', vs_pop ped s = Some (s', Ok x) /\ stk s' = rev r /\ vinv cap s'
  | [] => vs_pop ped s = Some (s, if ped then Err EUnderflow else Ok 0)
  end.
Proof.
  intros H. pose proof (refine_peek cap s H) as Hp. pose proof (stk_len cap s H) as Hsl.
  destruct H as [Hl Hn]. unfold vs_pop. rewrite Hp.
  destruct (rev (stk s)) as [|x r] eqn:Er.
  - destruct ped; reflexivity.
  - assert (Hs : stk s = rev r ++ [x]) by (rewrite <- (rev_involutive (stk s)), Er; reflexivity).
    assert (Hpos : 0 < vlen s) by (rewrite <- Hsl, Hs, zlen_app; unfold zlen; cbn; lia).
    unfold sub_usize. destruct (vlen s <? 1) eqn:E; [lia|].
    eexists. split; [reflexivity|]. split; [|split; cbn; lia].
    unfold stk in *. cbn.
    replace (Z.to_nat (vlen s)) with (S (Z.to_nat (vlen s - 1))) in Hs by lia.
    rewrite <- (removelast_firstn (vals s)) by (unfold zlen in Hl; lia).
    rewrite Hs. apply removelast_last.
Qed.

Lemma refine_clear s : exists s', vs_clear s = Some (s', Ok tt) /\ stk s' = [].
Proof. eexists. split; [reflexivity|reflexivity]. Qed.

Lemma value_stack_refines_list_partial_lemma : forall cap s ped v, cap <= isize_max -> vinv cap s ->
  (if vlen s <? cap
   then exists s', vs_push v s = Some (s', Ok tt) /\ stk s' = stk s ++ [v] /\ vinv cap s'
   else vs_push v s = Some (s, Err EOverflow)) /\
  vs_peek s = match rev (stk s) with x :: _ => Some x | [] => None end /\
  match rev (stk s) with
  | x :: r => exists s', vs_pop ped s = Some (s', Ok x) /\ stk s' = rev r /\ vinv cap s'
  | [] => vs_pop ped s = Some (s, if ped then Err EUnderflow else Ok 0)
  end /\
  (exists s', vs_clear s = Some (s', Ok tt) /\ stk s' = []) /\
  zlen (stk s) = vlen s.
Proof.
  intros cap s ped v Hc H. split; [apply refine_push; assumption|].
  split; [apply (refine_peek cap); assumption|]. split; [apply refine_pop; assumption|].
  split; [apply refine_clear|apply (stk_len cap); assumption].
Qed.
