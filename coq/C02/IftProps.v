(* C02 (round 2) — property theorems about the IFT patch-map decoding guards.  Only statements, [exact lemma],
   and Print Assumptions. *)
From Coq Require Import ZArith List Bool.
From FV Require Import C02.IftModel C02.IftProofs.
Import ListNotations.
Open Scope Z_scope.

(* format 2: for EVERY sparse-bit-set decoder that returns no more data than it was given, every default format,
   entry_count (any integer, so any u24), offset and entry bytes: decode_format2_entries never panics, its
   `while entry_count > 0` loop needs at most #bytes + 1 turns (never out of fuel), and when it succeeds it decoded
   exactly entry_count entries, each of which consumed at least one byte (entry_count <= #bytes) *)
Theorem c02_ift_format2_decode_total : forall (sbs : list Z -> Z -> option (list Z)),
  (forall d b r, sbs d b = Some r -> ilen r <= ilen d) ->
  forall dflt count off data,
  match f2_decode sbs dflt count off data with
  | F2Ok es => Z.of_nat (length es) = Z.max 0 count /\ Z.max 0 count <= ilen data
  | F2Err => True
  | F2Panic => False
  | F2OutOfFuel => False
  end.
Proof. exact f2_decode_total_lemma. Qed.

(* one entry: never a panic; a decoded entry consumes >= 1 byte and leaves strictly less data; its id is a u32 *)
Theorem c02_ift_format2_entry_progress : forall (sbs : list Z -> Z -> option (list Z)),
  (forall d b r, sbs d b = Some r -> ilen r <= ilen d) ->
  forall data start nprior last_id dflt,
  match f2_entry sbs data start nprior last_id dflt with
  | E2Ok (id, _, _, _) rest consumed =>
      ilen rest < ilen data /\ consumed = ilen data - ilen rest /\ 1 <= consumed /\ 0 <= id <= 4294967295
  | E2Err => True
  | E2Panic => False
  end.
Proof. exact f2_entry_ok. Qed.

(* the i64 id arithmetic of compute_format2_new_entry_index cannot overflow *)
Theorem c02_ift_format2_id_arith : forall last_id dv, 0 <= last_id <= 4294967295 -> -8388608 <= dv <= 8388607 ->
  -9223372036854775808 <= last_id + 1 + dv <= 9223372036854775807.
Proof. exact f2_id_arith_no_overflow. Qed.

(* format 1: for every table (entry_map_counts unsigned) and every subset definition the glyph-map / feature-map
   intersection never panics — the up-front entry_records_size check, made with the same field_width as the
   indexing, keeps entry_map_data[byte_index..] in range; first_new + i is a checked_add *)
Theorem c02_ift_format1_total : forall maxe maxg first gentries gids bitmap pf recs data feats,
  match recs with Some rs => Forall rec_ok rs | None => True end ->
  f1_intersect maxe maxg first gentries gids bitmap pf recs data feats <> F1Panic.
Proof. exact f1_total_lemma. Qed.

Print Assumptions c02_ift_format2_decode_total.
Print Assumptions c02_ift_format2_entry_progress.
Print Assumptions c02_ift_format2_id_arith.
Print Assumptions c02_ift_format1_total.
