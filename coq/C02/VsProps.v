(* C02 (round 7; copy_index/move_index follow /repo 5407d30) — ValueStack is a list: property-level theorems.  Only statements, [exact lemma], Print Assumptions.
   The functions vs_* are the definitions of Model.v that the correspondence shards run against the real
   skrifa ValueStack on every check; the spec_* functions (VsProofs.v) are plain list programs (stack = list, bottom first;
   [rev] reads it top first).  [refines cap m lm] : on every state with a backing store of cap cells and 0 <= len <= cap,
   m does not panic, returns exactly what lm returns on the list of live cells, and leaves exactly the list lm leaves. *)
From Coq Require Import ZArith List Bool.
From FV Require Import Lib.RustInt C02.Model C02.Proofs C02.VsProofs.
Import ListNotations.
Open Scope Z_scope.

(* FULL version of c02_value_stack_refines_list_partial: every ValueStack method, including copy_index and
   move_index, is its list-level specification — for every capacity (<= isize::MAX), every stack, every argument,
   both pedantic modes, arbitrary closures *)
Theorem c02_value_stack_refines_list : forall cap, cap <= isize_max ->
  (forall v, refines cap (vs_push v) (spec_push cap v)) /\
  (forall vs, zlen vs <= isize_max -> refines cap (vs_push_list vs) (spec_push_list cap vs)) /\
  (forall s, vinv cap s -> vs_peek s = match rev (stk s) with x :: _ => Some x | [] => None end) /\
  (forall ped, refines cap (vs_pop ped) (spec_pop ped)) /\
  (forall ped, refines cap (vs_pop_usize ped) (spec_pop_usize ped)) /\
  (forall ped, refines cap (vs_pop_count_checked ped) (spec_pop_count_checked ped)) /\
  (forall ped f, refines cap (vs_apply_unary ped f) (spec_apply_unary cap ped f)) /\
  (forall ped f, refines cap (vs_apply_binary ped f) (spec_apply_binary cap ped f)) /\
  refines cap vs_clear spec_clear /\
  (forall ped, refines cap (vs_dup ped) (spec_dup cap ped)) /\
  (forall ped, refines cap (vs_swap ped) (spec_swap cap ped)) /\
  (forall ped, refines cap (vs_copy_index ped) (spec_copy_index cap ped)) /\
  (forall ped, refines cap (vs_move_index ped) (spec_move_index ped)) /\
  (forall ped, refines cap (vs_roll ped) (spec_roll cap ped)).
Proof. exact value_stack_refines_list_lemma. Qed.

(* whole op sequences from ValueStack::new over any backing store: no panic, the per-call observations
   (code, value, len) and the final live cells are those of the list machine started on [] *)
Theorem c02_value_stack_run_is_list_machine : forall (store : list Z) (ped : bool) (ops : list vop),
  zlen store <= isize_max -> Forall vop_ok ops ->
  exists s', vs_run ped ops (mkVS store 0) = Some (s', snd (spec_run (zlen store) ped ops [])) /\
             stk s' = fst (spec_run (zlen store) ped ops []) /\ zlen (vals s') = zlen store.
Proof. exact value_stack_run_is_list_machine_lemma. Qed.

(* copy_index (CINDEX) since /repo 5407d30, conventions spelled out.  l = whole stack, rev l = v :: r: v the index operand
   (popped first), r the stack below it (top first).  [bad_index v r] := v <= 0 \/ |r| < v.
   empty stack: pedantic -> Underflow; non-pedantic -> the index reads as 0 and 0 is pushed (Overflow iff capacity 0).
   bad index:   pedantic -> Err InvalidStackValue(v), index stays popped; non-pedantic -> Ok, the index cell becomes 0.
   1 <= v <= |r|, both modes: Ok, the index cell is replaced by r[v-1] (v = 1: the cell just below, v = |r|: the bottom) *)
Theorem c02_copy_index_spec : forall cap l, zlen l <= cap ->
  match rev l with
  | [] => spec_copy_index cap true l = (l, Err EUnderflow) /\
          spec_copy_index cap false l = (if 0 <? cap then ([0], Ok tt) else ([], Err EOverflow))
  | v :: r =>
      (bad_index v r -> spec_copy_index cap true l = (rev r, Err (EInvalidStackValue v)) /\
                        spec_copy_index cap false l = (rev (0 :: r), Ok tt)) /\
      (1 <= v <= zlen r -> forall ped, spec_copy_index cap ped l = (rev (nth (Z.to_nat (v - 1)) r 0 :: r), Ok tt))
  end.
Proof. exact copy_index_cases_lemma. Qed.

(* move_index (MINDEX) since /repo 5407d30.  empty stack: pedantic -> Underflow; non-pedantic -> Ok, nothing changes.
   bad index: pedantic -> Err InvalidStackValue(v); non-pedantic -> Ok; in both the index is popped and nothing else changes.
   1 <= v <= |r|, both modes: Ok, stack r[v-1] :: r[0..v-1) ++ r[v..): the v-th cell below the index is removed and pushed *)
Theorem c02_move_index_spec : forall l,
  match rev l with
  | [] => spec_move_index true l = (l, Err EUnderflow) /\ spec_move_index false l = (l, Ok tt)
  | v :: r =>
      (bad_index v r -> spec_move_index true l = (rev r, Err (EInvalidStackValue v)) /\
                        spec_move_index false l = (rev r, Ok tt)) /\
      (1 <= v <= zlen r -> forall ped,
         spec_move_index ped l =
           (rev (nth (Z.to_nat (v - 1)) r 0 :: firstn (Z.to_nat (v - 1)) r ++ skipn (Z.to_nat v) r), Ok tt))
  end.
Proof. exact move_index_cases_lemma. Qed.

(* replaces c02_index_ops_ignore_pedantic (false since 5407d30): the pedantic flag matters EXACTLY when the stack is
   empty or the index on top is outside 1..=depth ([good_index_on_top l] := rev l = v :: r with 1 <= v <= |r|) *)
Theorem c02_index_ops_pedantic_only_on_bad_index : forall cap l, zlen l <= cap ->
  (spec_copy_index cap true l = spec_copy_index cap false l <-> good_index_on_top l) /\
  (spec_move_index true l = spec_move_index false l <-> good_index_on_top l).
Proof. exact index_ops_pedantic_only_on_bad_index_lemma. Qed.

(* closed forms of the composite operations (bottom-first lists; l is the untouched lower part) *)
Theorem c02_value_stack_composite_closed_forms : forall cap ped l a b c,
  (zlen l + 1 < cap -> spec_dup cap ped (l ++ [a]) = (l ++ [a; a], Ok tt)) /\
  (zlen l + 1 = cap -> spec_dup cap ped (l ++ [a]) = (l ++ [a], Err EOverflow)) /\
  (zlen l + 2 <= cap -> spec_swap cap ped (l ++ [b; a]) = (l ++ [a; b], Ok tt)) /\
  (zlen l + 3 <= cap -> spec_roll cap ped (l ++ [c; b; a]) = (l ++ [b; a; c], Ok tt)) /\
  (forall f r, zlen l + 1 <= cap -> f a = Ok r -> spec_apply_unary cap ped f (l ++ [a]) = (l ++ [r], Ok tt)) /\
  (forall f e, f a = Err e -> spec_apply_unary cap ped f (l ++ [a]) = (l, Err e)) /\
  (forall f r, zlen l + 2 <= cap -> f a b = Ok r -> spec_apply_binary cap ped f (l ++ [a; b]) = (l ++ [r], Ok tt)) /\
  (spec_swap cap true [] = ([], Err EUnderflow)) /\
  (spec_swap cap true [a] = ([], Err EUnderflow)) /\
  (2 <= cap -> spec_swap cap false [a] = ([a; 0], Ok tt)).
Proof. exact composite_closed_forms_lemma. Qed.

Print Assumptions c02_value_stack_refines_list.
Print Assumptions c02_value_stack_run_is_list_machine.
Print Assumptions c02_copy_index_spec.
Print Assumptions c02_move_index_spec.
Print Assumptions c02_index_ops_pedantic_only_on_bad_index.
Print Assumptions c02_value_stack_composite_closed_forms.
