(* C02 (round 7) — ValueStack is a list: property-level theorems.  Only statements, [exact lemma], Print Assumptions.
   The functions vs_* are the definitions of Model.v that the correspondence shards run against the real
   skrifa ValueStack on every check; the spec_* functions (VsProofs.v) are plain list programs (stack = list, bottom first;
   [rev] reads it top first).  [refines cap m lm] : on every state with a backing store of cap cells and 0 <= len <= cap,
   m does not panic, returns exactly what lm returns on the list of live cells, and leaves exactly the list lm leaves. *)
From Coq Require Import ZArith List Bool.
From FV Require Import Lib.RustInt C02.Model C02.Proofs C02.VsProofs.
Import ListNotations.
Open Scope Z_scope.

(* FULL version of c02_value_stack_refines_list_partial: every ValueStack method, including copy_index and
   move_index, is its list-level specification — for every capacity (<= isize::MAX), every stack, every argument,
   both pedantic modes, arbitrary closures *)
Theorem c02_value_stack_refines_list : forall cap, cap <= isize_max ->
  (forall v, refines cap (vs_push v) (spec_push cap v)) /\
  (forall vs, zlen vs <= isize_max -> refines cap (vs_push_list vs) (spec_push_list cap vs)) /\
  (forall s, vinv cap s -> vs_peek s = match rev (stk s) with x :: _ => Some x | [] => None end) /\
  (forall ped, refines cap (vs_pop ped) (spec_pop ped)) /\
  (forall ped, refines cap (vs_pop_usize ped) (spec_pop_usize ped)) /\
  (forall ped, refines cap (vs_pop_count_checked ped) (spec_pop_count_checked ped)) /\
  (forall ped f, refines cap (vs_apply_unary ped f) (spec_apply_unary cap ped f)) /\
  (forall ped f, refines cap (vs_apply_binary ped f) (spec_apply_binary cap ped f)) /\
  refines cap vs_clear spec_clear /\
  (forall ped, refines cap (vs_dup ped) (spec_dup cap ped)) /\
  (forall ped, refines cap (vs_swap ped) (spec_swap cap ped)) /\
  refines cap vs_copy_index spec_copy_index /\
  refines cap vs_move_index spec_move_index /\
  (forall ped, refines cap (vs_roll ped) (spec_roll cap ped)).
Proof. exact value_stack_refines_list_lemma. Qed.

(* whole op sequences from ValueStack::new over any backing store: no panic, the per-call observations
   (code, value, len) and the final live cells are those of the list machine started on [] *)
Theorem c02_value_stack_run_is_list_machine : forall (store : list Z) (ped : bool) (ops : list vop),
  zlen store <= isize_max -> Forall vop_ok ops ->
  exists s', vs_run ped ops (mkVS store 0) = Some (s', snd (spec_run (zlen store) ped ops [])) /\
             stk s' = fst (spec_run (zlen store) ped ops []) /\ zlen (vals s') = zlen store.
Proof. exact value_stack_run_is_list_machine_lemma. Qed.

(* copy_index (CINDEX), conventions spelled out.  Top-first stack v :: r, v the index operand (an i32, read `as usize`):
   empty -> Underflow; v < 0 -> Underflow; v > |r| (v >= len) -> Underflow — in all three the stack is unchanged (the
   index is NOT popped); 0 <= v <= |r| -> Ok and the index cell is replaced by nth v (v :: r): v = 0 is the index cell
   itself (no change), v = |r| = len - 1 is the bottom element *)
Theorem c02_copy_index_spec : forall l,
  zlen l <= isize_max ->
  match rev l with
  | [] => spec_copy_index l = (l, Err EUnderflow)
  | v :: r =>
      (v < 0 -> - 2 ^ 63 <= v -> spec_copy_index l = (l, Err EUnderflow)) /\
      (0 <= v < 2 ^ 64 -> zlen r < v -> spec_copy_index l = (l, Err EUnderflow)) /\
      (0 <= v <= zlen r -> spec_copy_index l = (rev (nth (Z.to_nat v) (v :: r) 0 :: r), Ok tt)) /\
      (v = 0 -> spec_copy_index l = (l, Ok tt))
  end.
Proof. exact copy_index_cases_lemma. Qed.

(* move_index (MINDEX).  Top-first stack v :: r: empty, v < 0, v > |r|, or r = [] (len = 1) -> Underflow, unchanged;
   v = 0 with r = y :: r' -> Ok, stack 0 :: r' (index popped AND the cell below it overwritten by the index value 0);
   1 <= v <= |r| -> Ok, stack r[v-1] :: r[0..v-1) ++ r[v..): the v-th element below the index is removed and pushed *)
Theorem c02_move_index_spec : forall l,
  zlen l <= isize_max ->
  match rev l with
  | [] => spec_move_index l = (l, Err EUnderflow)
  | v :: r =>
      (v < 0 -> - 2 ^ 63 <= v -> spec_move_index l = (l, Err EUnderflow)) /\
      (0 <= v < 2 ^ 64 -> zlen r < v -> spec_move_index l = (l, Err EUnderflow)) /\
      (r = [] -> spec_move_index l = (l, Err EUnderflow)) /\
      (v = 0 -> forall y r', r = y :: r' -> spec_move_index l = (rev (0 :: r'), Ok tt)) /\
      (1 <= v <= zlen r ->
         spec_move_index l =
           (rev (nth (Z.to_nat (v - 1)) r 0 :: firstn (Z.to_nat (v - 1)) r ++ skipn (Z.to_nat v) r), Ok tt))
  end.
Proof. exact move_index_cases_lemma. Qed.

(* neither operation looks at is_pedantic *)
Theorem c02_index_ops_ignore_pedantic : forall ped ped' s,
  vs_step ped OCopyIndex s = vs_step ped' OCopyIndex s /\ vs_step ped OMoveIndex s = vs_step ped' OMoveIndex s.
Proof. exact index_ops_ignore_pedantic_lemma. Qed.

(* closed forms of the composite operations (bottom-first lists; l is the untouched lower part) *)
Theorem c02_value_stack_composite_closed_forms : forall cap ped l a b c,
  (zlen l + 1 < cap -> spec_dup cap ped (l ++ [a]) = (l ++ [a; a], Ok tt)) /\
  (zlen l + 1 = cap -> spec_dup cap ped (l ++ [a]) = (l ++ [a], Err EOverflow)) /\
  (zlen l + 2 <= cap -> spec_swap cap ped (l ++ [b; a]) = (l ++ [a; b], Ok tt)) /\
  (zlen l + 3 <= cap -> spec_roll cap ped (l ++ [c; b; a]) = (l ++ [b; a; c], Ok tt)) /\
  (forall f r, zlen l + 1 <= cap -> f a = Ok r -> spec_apply_unary cap ped f (l ++ [a]) = (l ++ [r], Ok tt)) /\
  (forall f e, f a = Err e -> spec_apply_unary cap ped f (l ++ [a]) = (l, Err e)) /\
  (forall f r, zlen l + 2 <= cap -> f a b = Ok r -> spec_apply_binary cap ped f (l ++ [a; b]) = (l ++ [r], Ok tt)) /\
  (spec_swap cap true [] = ([], Err EUnderflow)) /\
  (spec_swap cap true [a] = ([], Err EUnderflow)) /\
  (2 <= cap -> spec_swap cap false [a] = ([a; 0], Ok tt)).
Proof. exact composite_closed_forms_lemma. Qed.

Print Assumptions c02_value_stack_refines_list.
Print Assumptions c02_value_stack_run_is_list_machine.
Print Assumptions c02_copy_index_spec.
Print Assumptions c02_move_index_spec.
Print Assumptions c02_index_ops_ignore_pedantic.
Print Assumptions c02_value_stack_composite_closed_forms.
