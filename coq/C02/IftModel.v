(* C02 (round 2) — executable models of the decoding guards of the IFT patch map
   (incremental-font-transfer/src/patchmap.rs), hand-written from the source statement by statement.
     (f1) add_intersecting_format1_patches: intersect_format1_glyph_map_inner + intersect_format1_feature_map
          (record walk for FeatureSet::All / FeatureSet::Set, the up-front entry_records_size check, the u16 index
          arithmetic index = i + cumulative, byte_index = index * field_width * 2, mapped = first_new.checked_add(i), the
          slice entry_map_data[byte_index..], EntryMapRecord::read, merge_intersecting_entries, the applied bitmap)
     (f2) decode_format2_entries / decode_format2_entry: the entry loop over the encoded entries
   No proofs in this file.  u16 arithmetic under overflow-checks and slicing are explicit panic outcomes. *)
From Coq Require Import ZArith List Bool.
Import ListNotations.
Open Scope Z_scope.

Definition ilen {A} (l : list A) : Z := Z.of_nat (length l).
(* slice.get(i) *)
Definition iget {A} (l : list A) (i : Z) : option A :=
  if (i <? 0) || (ilen l <=? i) then None else nth_error l (Z.to_nat i).

Definition U16_MAX : Z := 65535.
(* a + b / a * b on u16 under overflow-checks: None = panic *)
Definition add_u16 (a b : Z) : option Z := if U16_MAX <? a + b then None else Some (a + b).
Definition mul_u16 (a b : Z) : option Z := if U16_MAX <? a * b then None else Some (a * b).

(* ------------------------------------------------------------------------------------------ *)
(* (f1) format 1                                                                               *)
(* ------------------------------------------------------------------------------------------ *)
Inductive f1res := F1Ok (ids : list Z) | F1Err | F1Panic.

(* U8Or16::compute_size / the local field_width of intersect_format1_feature_map *)
Definition f1_width (max_entry_index : Z) : Z := if max_entry_index <? 256 then 1 else 2.

(* U8Or16::read_with_args at byte offset off: None = ReadError::OutOfBounds *)
Definition read_w (w : Z) (data : list Z) (off : Z) : option Z :=
  if w =? 1 then iget data off
  else match iget data off, iget data (off + 1) with
       | Some a, Some b => Some (a * 256 + b)
       | _, _ => None
       end.

(* BTreeMap<u16, _> keys as a strictly ascending list *)
Fixpoint set_insert (k : Z) (s : list Z) : list Z :=
  match s with
  | [] => [k]
  | x :: r => if k <? x then k :: s else if k =? x then s else x :: set_insert k r
  end.
Definition set_has_in (lo hi : Z) (s : list Z) : bool := existsb (fun k => (lo <=? k) && (k <=? hi)) s.

(* intersect_format1_glyph_map_inner over the gids the codepoints map to; None = Err *)
Fixpoint f1_glyph_map (first : Z) (gentries : list Z) (maxg : Z) (gids : list Z) (entries : list Z) : option (list Z) :=
  match gids with
  | [] => Some entries
  | gid :: r =>
      let oe := if gid <? first then Some 0 else iget gentries (gid - first) in
      match oe with
      | None => None                                            (* .get(..)? *)
      | Some e => if maxg <? e then f1_glyph_map first gentries maxg r entries
                  else f1_glyph_map first gentries maxg r (set_insert e entries)
      end
  end.

(* FeatureMap::entry_records_size (usize arithmetic; cannot overflow for u16 counts) *)
Definition entry_records_size (w : Z) (recs : list (Z * Z * Z)) : Z :=
  fold_left (fun acc r => acc + snd r * w * 2) recs 0.

Inductive f1step := StOk (entries : list Z) | StErr | StPanic.

(* the `for i in 0..entry_count` loop over one feature record; i counts up, n = iterations left.
   index and byte_index are usize (u16 * u16 * 2 cannot overflow it); first_new + i is a checked_add *)
Fixpoint f1_record_loop (n : nat) (i : Z) (w maxe maxg cumulative first_new : Z) (data : list Z)
    (entries : list Z) : f1step :=
  match n with
  | O => StOk entries
  | S n' =>
      let index := i + cumulative in                                    (* i as usize + cumulative *)
      let byte_index := index * w * 2 in                                 (* index * field_width as usize * 2 *)
      if ilen data <? byte_index then StPanic                            (* entry_map_data[byte_index..] *)
      else
        match add_u16 first_new i with                                   (* first_new.checked_add(i) *)
        | None => f1_record_loop n' (i + 1) w maxe maxg cumulative first_new data entries   (* continue *)
        | Some mapped =>
            match read_w w data byte_index, read_w w data (byte_index + w) with   (* EntryMapRecord::read? *)
            | Some first, Some last =>
                let entries' :=
                  if (last <? first) || (maxg <? first) || (maxg <? last) || (mapped <=? maxg) || (maxe <? mapped)
                  then entries
                  else if set_has_in first last entries then set_insert mapped entries   (* merge_intersecting_entries *)
                  else entries in
                f1_record_loop n' (i + 1) w maxe maxg cumulative first_new data entries'
            | _, _ => StErr
            end
        end
  end.

(* the record walk.  tags = Some sorted feature tags (FeatureSet::Set) | None (FeatureSet::All);
   fuel bounds the number of loop turns (each turn consumes a tag or a record); cumulative is a usize *)
Fixpoint f1_walk (fuel : nat) (w maxe maxg : Z) (data : list Z) (tags : option (list Z)) (recs : list (Z * Z * Z))
    (cumulative : Z) (largest : option Z) (entries : list Z) : f1step :=
  match fuel with
  | O => StOk entries        (* unreachable with fuel = #tags + #records + 1 *)
  | S fuel' =>
      let process (r : Z * Z * Z) (tags' : option (list Z)) (recs' : list (Z * Z * Z)) (largest' : option Z) :=
        let '(_, first_new, count) := r in
        match f1_record_loop (Z.to_nat count) 0 w maxe maxg cumulative first_new data entries with
        | StOk entries' => f1_walk fuel' w maxe maxg data tags' recs' (cumulative + count) largest' entries'
        | other => other
        end in
      match tags with
      | Some ts =>
          match ts, recs with
          | t :: ts', r :: recs' =>
              let '(rtag, _, count) := r in
              if rtag <? t then f1_walk fuel' w maxe maxg data tags recs' (cumulative + count) largest entries
              else if (match largest with Some l => t <=? l | None => false end) then
                f1_walk fuel' w maxe maxg data (Some ts') recs cumulative largest entries
              else if t <? rtag then
                f1_walk fuel' w maxe maxg data (Some ts') recs cumulative (Some t) entries
              else process r tags recs' (Some t)
          | _, _ => StOk entries
          end
      | None =>
          match recs with
          | [] => StOk entries
          | r :: recs' =>
              let '(rtag, _, count) := r in
              if (match largest with Some l => rtag <=? l | None => false end) then
                f1_walk fuel' w maxe maxg data None recs' (cumulative + count) largest entries
              else process r None recs' (Some rtag)
          end
      end
  end.

(* PatchMapFormat1::is_entry_applied *)
Definition f1_applied (bitmap : list Z) (e : Z) : bool :=
  match iget bitmap (e / 8) with
  | Some b => negb (Z.land b (2 ^ (e mod 8)) =? 0)
  | None => false
  end.

(* add_intersecting_format1_patches (glyph count already checked equal to maxp's) *)
Definition f1_intersect (maxe maxg first : Z) (gentries gids bitmap : list Z) (pf : Z)
    (recs : option (list (Z * Z * Z))) (data : list Z) (feats : option (list Z)) : f1res :=
  if maxe <? maxg then F1Err
  else if negb ((pf =? 1) || (pf =? 2) || (pf =? 3)) then F1Err
  else
    match f1_glyph_map first gentries maxg gids [] with
    | None => F1Err
    | Some entries =>
        let finish (es : list Z) := F1Ok (filter (fun e => (0 <? e) && negb (f1_applied bitmap e)) es) in
        match recs with
        | None => finish entries
        | Some rs =>
            let w := f1_width maxe in
            if ilen data <? entry_records_size w rs then F1Err
            else
              let ntags := match feats with Some f => length f | None => O end in
              match f1_walk (S (ntags + length rs)) w maxe maxg data feats rs 0 None entries with
              | StOk es => finish es
              | StErr => F1Err
              | StPanic => F1Panic
              end
        end
    end.

(* ------------------------------------------------------------------------------------------ *)
(* (f2) format 2: decode_format2_entries / decode_format2_entry (numeric ids: no id string data) *)
(* ------------------------------------------------------------------------------------------ *)
(* one decoded entry as observed through PatchUri: (id, patch format number, ignored, ignored bit index) *)
Definition f2entry := (Z * Z * bool * Z)%type.
Inductive f2res := F2Ok (entries : list f2entry) | F2Err | F2Panic | F2OutOfFuel.

(* cursor read of n bytes: None = ReadError::OutOfBounds *)
Definition take (n : Z) (data : list Z) : option (list Z * list Z) :=
  if (n <? 0) || (ilen data <? n) then None
  else Some (firstn (Z.to_nat n) data, skipn (Z.to_nat n) data).
Definition be_val (l : list Z) : Z := fold_left (fun a b => a * 256 + b) l 0.
Definition be_signed (bits : Z) (l : list Z) : Z :=
  let v := be_val l in if 2 ^ (bits - 1) <=? v then v - 2 ^ bits else v.
Definition flag (flags bit : Z) : bool := negb (Z.land flags bit =? 0).

(* design space segments: any start > end is an error (Fixed compared as i32) *)
Fixpoint segments_ok (n : nat) (d : list Z) : bool :=
  match n with
  | O => true
  | S n' =>
      let seg := firstn 12 d in
      let st := be_signed 32 (firstn 4 (skipn 4 seg)) in
      let en := be_signed 32 (firstn 4 (skipn 8 seg)) in
      (st <=? en) && segments_ok n' (skipn 12 d)
  end.
Fixpoint children_ok (n : nat) (d : list Z) (max_index : Z) : bool :=
  match n with
  | O => true
  | S n' => (be_val (firstn 3 d) <? max_index) && children_ok n' (skipn 3 d) max_index
  end.

Inductive f2step := E2Ok (e : f2entry) (rest : list Z) (consumed : Z) | E2Err | E2Panic.

(* EntryData::read, field group by field group: Some (semantic ok flag / value, remaining data) | None = read error *)
(* FEATURES_AND_DESIGN_SPACE *)
Definition f2_feat (flags : Z) (d0 : list Z) : option (bool * list Z) :=
  if flag flags 1 then
    match take 1 d0 with
    | None => None
    | Some (fc, d1) =>
        match take (4 * be_val fc) d1 with
        | None => None
        | Some (_, d2) =>
            match take 2 d2 with
            | None => None
            | Some (dc, d3) =>
                match take (12 * be_val dc) d3 with
                | None => None
                | Some (segs, d4) => Some (segments_ok (Z.to_nat (be_val dc)) segs, d4)
                end
            end
        end
    end
  else Some (true, d0).
(* CHILD_INDICES *)
Definition f2_child (flags : Z) (d4 : list Z) (nprior : Z) : option (bool * list Z) :=
  if flag flags 2 then
    match take 1 d4 with
    | None => None
    | Some (mm, d5) =>
        let cnt := Z.land (be_val mm) 127 in
        match take (3 * cnt) d5 with
        | None => None
        | Some (idx, d6) => Some (children_ok (Z.to_nat cnt) idx nprior, d6)
        end
    end
  else Some (true, d4).
(* ENTRY_ID_DELTA: Int24 *)
Definition f2_delta (flags : Z) (d6 : list Z) : option (Z * list Z) :=
  if flag flags 4 then
    match take 3 d6 with None => None | Some (dl, d7) => Some (be_signed 24 dl, d7) end
  else Some (0, d6).
(* PATCH_FORMAT *)
Definition f2_pfmt (flags : Z) (d7 : list Z) (default_fmt : Z) : option (Z * list Z) :=
  if flag flags 8 then
    match take 1 d7 with None => None | Some (pf, d8) => Some (be_val pf, d8) end
  else Some (default_fmt, d7).

Section Format2.
  (* IntSet::<u32>::from_sparse_bit_set_bounded(data, bias, 0x10FFFF): Some remaining data | None = Err *)
  Variable sbs : list Z -> Z -> option (list Z).

  (* decode_format2_codepoints: Some remaining data | None = Err *)
  Definition f2_codepoints (flags : Z) (cp_data : list Z) : option (list Z) :=
    let fmt := Z.land flags 48 in
    if fmt =? 0 then Some cp_data
    else
      let bias_skip :=
        if fmt =? 32 then match take 2 cp_data with Some (b, r) => Some (be_val b, r) | None => None end
        else if fmt =? 48 then match take 3 cp_data with Some (b, r) => Some (be_val b, r) | None => None end
        else Some (0, cp_data) in
      match bias_skip with
      | None => None
      | Some (bias, sb) => sbs sb bias
      end.

  (* decode_format2_entry.  nprior = entries.len(), last_id = id of the previous entry (0 if none) *)
  Definition f2_entry (data : list Z) (start_byte nprior last_id default_fmt : Z) : f2step :=
    match take 1 data with
    | None => E2Err
    | Some (fl, d0) =>
        let flags := be_val fl in
        match f2_feat flags d0 with
        | None => E2Err
        | Some (segs_ok, d4) =>
            match f2_child flags d4 nprior with
            | None => E2Err
            | Some (ch_ok, d6) =>
                match f2_delta flags d6 with
                | None => E2Err
                | Some (dv, d7) =>
                    match f2_pfmt flags d7 default_fmt with
                    | None => E2Err
                    | Some (pf, cp_data) =>
                        (* semantic checks, in source order; all of them are plain errors *)
                        if negb ch_ok then E2Err
                        else if negb segs_ok then E2Err
                        else
                          let new_id := last_id + 1 + dv in            (* i64 arithmetic: cannot overflow *)
                          if (new_id <? 0) || (4294967295 <? new_id) then E2Err
                          else if negb ((pf =? 1) || (pf =? 2) || (pf =? 3)) then E2Err
                          else
                            match f2_codepoints flags cp_data with
                            | None => E2Err
                            | Some rest =>
                                (* consumed = codepoint_data_byte_range().end - remaining_data.len() (usize) *)
                                if ilen data <? ilen rest then E2Panic
                                else E2Ok (new_id, pf, flag flags 64, start_byte * 8 + 6) rest (ilen data - ilen rest)
                            end
                    end
                end
            end
        end
    end.

  (* the `while entry_count > 0` loop; entries accumulated in reverse *)
  Fixpoint f2_loop (fuel : nat) (default_fmt count : Z) (data : list Z) (start_byte : Z) (acc : list f2entry) : f2res :=
    if count <=? 0 then F2Ok (rev acc)
    else
      match fuel with
      | O => F2OutOfFuel
      | S fuel' =>
          let last_id := match acc with (id, _, _, _) :: _ => id | [] => 0 end in
          match f2_entry data start_byte (ilen acc) last_id default_fmt with
          | E2Err => F2Err
          | E2Panic => F2Panic
          | E2Ok e rest consumed => f2_loop fuel' default_fmt (count - 1) rest (start_byte + consumed) (e :: acc)
          end
      end.

  (* decode_format2_entries.  Every successful entry consumes at least its flags byte, so #data + 1 turns
     always suffice whatever entry_count (a u24) says: f2_fuel_enough in IftProofs.v *)
  Definition f2_decode (default_fmt entry_count entries_offset : Z) (data : list Z) : f2res :=
    if negb ((default_fmt =? 1) || (default_fmt =? 2) || (default_fmt =? 3)) then F2Err
    else f2_loop (S (length data)) default_fmt entry_count data entries_offset [].
End Format2.

(* what intersecting_patches(font, SubsetDefinition::all()) shows of the decoded entries: the non-ignored ones as
   (id, application bit index, patch format) *)
Definition f2_visible (es : list f2entry) : list (Z * Z * Z) :=
  map (fun e => let '(id, pf, _, bit) := e in (id, bit, pf)) (filter (fun e => let '(_, _, ign, _) := e in negb ign) es).
