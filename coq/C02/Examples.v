(* C02 — non-vacuity examples for the hypotheses of Props.v, and sharpness witnesses *)
From Coq Require Import ZArith List Bool Lia.
From FV Require Import Lib.RustInt C02.Model C02.Proofs.
Import ListNotations.
Open Scope Z_scope.

(* the invariants hold of the initial states the real code constructs *)
Example vinv_initial : vinv 8 (mkVS [0;0;0;0;0;0;0;0] 0).
Proof. split; cbn; [reflexivity|lia]. Qed.
Example minv_initial : minv (mkM tt (cs_new (0, tt)) (mkBudget (loop_limit None 100) 0 0)).
Proof.
  split; [apply cs_new_inv|]. unfold binv, loop_limit, usize_max. cbn. lia.
Qed.

(* a value-stack sequence that exercises underflow, overflow, CINDEX/MINDEX with hostile indices *)
Example vs_hostile_no_panic :
  exists r, vs_run true [OCopyIndex; OPush (-2147483648); OMoveIndex; OPush 1; OPush 2; OCopyIndex; OPush 7; OPush 2; OMoveIndex; ORoll]
         (mkVS [9;9;9] 0) = Some r.
Proof. vm_compute. eauto. Qed.

(* the decycler rejects the cycle a -> b -> a -> b at the fourth Enter (2L with L = 2, P = 0) and not earlier *)
Example dec_cycle2 : dec_drive 64 (dec_new 64) [Some 1; Some 2; Some 1; Some 2] = Some [(0,1); (0,2); (0,3); (1,3)].
Proof. reflexivity. Qed.
(* sharpness of the bound: with L = 2 the first 2L - 1 = 3 Enters all succeed *)
Example dec_cycle2_sharp : all_entered (spec_drive 64 [] (enters (fun i => Z.of_nat (i mod 2)) 3)) = true.
Proof. reflexivity. Qed.
Example dec_cycle_hyp : forall i, (0 <= i)%nat -> (fun i => Z.of_nat (i mod 2)) (i + 2)%nat = (fun i => Z.of_nat (i mod 2)) i.
Proof.
  intros i _. cbv beta. f_equal. replace (i + 2)%nat with (i + 1 * 2)%nat by lia. apply Nat.mod_add. lia.
Qed.
(* depth limit: 65 distinct nodes *)
Example dec_depth_limit : nth 64 (spec_drive 64 [] (enters (fun i => Z.of_nat i) 65)) (0, 0) = (2, 64).
Proof. vm_compute. reflexivity. Qed.

(* run loop: the tight backward loop PUSHW -3; JMPR hits the loop budget (limit 300: 301st jump), and
   a self-recursive function hits the call-stack depth 32 *)
Example run_tight_loop : t_reconfigure 0 48 4 [] [184; 255; 253; 28] = (1, 1, 3, 21).
Proof. vm_compute. reflexivity. Qed.
Example run_recursion : t_reconfigure 0 48 4 [176; 0; 44; 176; 0; 43; 45; 176; 0; 43] [] = (1, 0, 5, 9).
Proof. vm_compute. reflexivity. Qed.

(* composite: a 2-cycle is cut; a chain of depth 32 loads, depth 33 does not *)
Definition cyc2 (g : Z) : gkind := GComposite [(g + 1) mod 2].
Example comp_cycle_hyp : forall g, exists c cs, cyc2 g = GComposite (c :: cs).
Proof. intros g. unfold cyc2. eauto. Qed.
Example comp_cycle : fst (load cyc2 0 0) = LoadRecursionLimit.
Proof. vm_compute. reflexivity. Qed.
Definition chain (k : Z) (g : Z) : gkind := if g <? k then GComposite [g + 1] else GSimple.
Example comp_chain32 : fst (load (chain 32) 0 0) = LoadOk.
Proof. vm_compute. reflexivity. Qed.
Example comp_chain33 : fst (load (chain 33) 0 0) = LoadRecursionLimit.
Proof. vm_compute. reflexivity. Qed.
(* the guard bounds depth, not work: a fan-out-2 map of depth 12 makes 2^13 - 1 load() calls; with depth 32
   the same shape needs 2^33 - 1 (the composite bomb reported in notes/C02.md) *)
Definition fan2 (k : Z) (g : Z) : gkind := if g <? k then GComposite [g + 1; g + 1] else GSimple.
Example comp_fan2_work : load (fan2 12) 0 0 = (LoadOk, 8191).
Proof. vm_compute. reflexivity. Qed.

(* ---- round 2: IFT patch-map guards ---- *)
From FV Require Import C02.IftModel C02.IftProofs C02.IftSbs.
(* the hypothesis of c02_ift_format1_total holds of the feature map of font-test-data's feature_map_format1 fixture *)
Example f1_total_hyp : Forall rec_ok [(1684826471, 400, 1); (1818847073, 384, 2); (1853189228, 301, 1)].
Proof. repeat (constructor; [unfold rec_ok; cbn; lia|]). constructor. Qed.
(* first_new_entry_index + i beyond u16 is skipped, not a trap (was finding 5 before /repo 9bc6adf) *)
Example f1_first_new_overflow_skipped :
  f1_intersect 65535 10 0 [0;1;2;3;0;1;2;3;0;1;2;3;0;1;2] [1;2;3] [0] 3
               (Some [(1818847073, 65535, 2)]) [0;1;0;2;0;1;0;2] None = F1Ok [1; 2; 3; 65535].
Proof. vm_compute. reflexivity. Qed.
(* format 2: forty bare flag bytes decode to forty entries with ids 1..40; one more than the data holds is an error *)
Example f2_bare : match f2_decode sbs_c14 3 40 41 (repeat 0 40) with F2Ok es => length es = 40%nat | _ => False end.
Proof. vm_compute. reflexivity. Qed.
Example f2_bare_plus_one : f2_decode sbs_c14 3 41 41 (repeat 0 40) = F2Err.
Proof. vm_compute. reflexivity. Qed.
Example f2_count_beyond_data : f2_decode sbs_c14 3 16777215 41 (repeat 0 40) = F2Err.
Proof. vm_compute. reflexivity. Qed.
