(* C02 — non-vacuity examples *)
From Coq Require Import ZArith List.
From FV Require Import Lib.RustInt C02.Model C02.Proofs.
Import ListNotations.
Open Scope Z_scope.
