(* C02 (round 2) — the sparse-bit-set decoder used as the codepoint oracle of the concrete format-2 shards:
   the executable model of IntSet::<u32>::from_sparse_bit_set_bounded proved total in coq/C14 (SbsModel.decode).
   Only the remaining data matters here (it determines how many bytes the entry consumed). *)
From Coq Require Import ZArith List.
From FV Require C14.SbsModel.
Import ListNotations.
Open Scope Z_scope.

(* Some rest = Ok((set, rest)); None = Err (a Panic / OutOfFuel of that model is mapped to a value no real run produces) *)
Definition sbs_c14 (data : list Z) (bias : Z) : option (list Z) :=
  match C14.SbsModel.decode data bias 1114111 with
  | C14.SbsModel.Ok _ rest => Some rest
  | C14.SbsModel.Err => None
  | _ => Some (0 :: data)       (* longer than the input: makes the consumed-bytes subtraction panic in the model *)
  end.
