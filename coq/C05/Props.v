(* C05 — property theorems.  Only statements, [exact lemma] and Print Assumptions. *)
From Coq Require Import ZArith List.
From FV Require Import Lib.RustInt C05.Model C05.Proofs.
Import ListNotations.
Open Scope Z_scope.

(* The gate theorem.  For every object map and every layout [ord] that lists each object once,
   contains the target of every link, puts every parent before its children, and in which no
   offset overflows its width (adjustment <= distance <= max_value): serialize succeeds, the
   output has the total length, every object of the layout is present at its prefix-sum
   position in the sense of [Resolves] (byte-for-byte copy outside link fields; every link
   field, read as a big-endian integer of its width and added to the object's position (+
   adjustment), lands on a position where the target object is present, recursively), and every
   written offset equals the exact distance and is < 2^(8*width). *)
Theorem c05_serialize_sound : forall objs ord, layout_ok objs ord ->
  exists out, serialize_ord objs ord = Some out /\ blen out = total_size objs ord /\
    (forall id, In id ord -> Resolves objs out (posof objs ord id) id) /\
    (forall id o l, In id ord -> mfind id objs = Some o -> In l (o_links o) ->
        from_be (slice out (posof objs ord id + l_pos l) (l_width l))
          = posof objs ord (l_obj l) - (posof objs ord id + l_adj l) /\
        from_be (slice out (posof objs ord id + l_pos l) (l_width l)) < 2 ^ (8 * l_width l)).
Proof. exact serialize_sound_lemma. Qed.

(* The same on a graph whose gate [has_overflows] returned false (what pack_objects checks before
   it reports success), adjustments being zero (always, for graphs built through the public API):
   the root (first object of the order) resolves at position 0. *)
Theorem c05_serialize_sound_gate : forall g,
  g_order g <> [] -> NoDup (g_order g) ->
  (forall id, In id (g_order g) -> exists o, mfind id (g_objs g) = Some o /\ obj_wf o) ->
  (forall id o l, In id (g_order g) -> mfind id (g_objs g) = Some o -> In l (o_links o) -> In (l_obj l) (g_order g)) ->
  total_size (g_objs g) (g_order g) < 2 ^ 32 ->
  (forall id o l, In id (g_order g) -> mfind id (g_objs g) = Some o -> In l (o_links o) ->
      precedes (g_order g) id (l_obj l)) ->
  (forall id o l, In id (g_order g) -> mfind id (g_objs g) = Some o -> In l (o_links o) -> l_adj l = 0) ->
  positions_match g ->
  has_overflows g = Some false ->
  exists out, serialize g = Some out /\ blen out = total_size (g_objs g) (g_order g) /\
    Resolves (g_objs g) out 0 (hd 0 (g_order g)) /\
    (forall id, In id (g_order g) -> Resolves (g_objs g) out (posof (g_objs g) (g_order g) id) id) /\
    (forall id o l, In id (g_order g) -> mfind id (g_objs g) = Some o -> In l (o_links o) ->
        from_be (slice out (posof (g_objs g) (g_order g) id + l_pos l) (l_width l))
          = posof (g_objs g) (g_order g) (l_obj l) - posof (g_objs g) (g_order g) id /\
        from_be (slice out (posof (g_objs g) (g_order g) id + l_pos l) (l_width l)) < 2 ^ (8 * l_width l)).
Proof. exact serialize_sound_graph. Qed.

(* serialize_len is the second conjunct of c05_serialize_sound. *)

(* pack_objects reports success only after the gate returned false on the graph it returns *)
Theorem c05_pack_success_passed_gate : forall g g',
  pack_objects g = Some (g', Packed) -> has_overflows g' = Some false.
Proof. exact pack_packed_no_overflow. Qed.

(* dump_table yields bytes only through pack_objects = true + the gate + serialize *)
Theorem c05_bytes_only_after_gate : forall objs root out, dump_graph objs root = RBytes out ->
  exists g g', from_objects objs root = Some g /\ pack_objects g = Some (g', Packed) /\
               has_overflows g' = Some false /\ serialize g' = Some out.
Proof. exact dump_graph_bytes. Qed.

(* when no layout is found an error is returned rather than bytes *)
Theorem c05_pack_false_no_bytes : forall objs root g g', from_objects objs root = Some g ->
  pack_objects g = Some (g', Failed) -> dump_graph objs root = RFailed.
Proof. exact pack_false_no_bytes. Qed.

Print Assumptions c05_serialize_sound.
Print Assumptions c05_serialize_sound_gate.
Print Assumptions c05_pack_success_passed_gate.
Print Assumptions c05_bytes_only_after_gate.
Print Assumptions c05_pack_false_no_bytes.
