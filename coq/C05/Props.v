(* C05 — property theorems.  Only statements, [exact lemma] and Print Assumptions. *)
From Coq Require Import ZArith List Permutation.
From FV Require Import Lib.RustInt C05.Model C05.Proofs C05.Sort.
Import ListNotations.
Open Scope Z_scope.

(* The gate theorem.  For every object map and every layout [ord] that lists each object once,
   contains the target of every link, puts every parent before its children, and in which no
   offset overflows its width (adjustment <= distance <= max_value): serialize succeeds, the
   output has the total length, every object of the layout is present at its prefix-sum
   position in the sense of [Resolves] (byte-for-byte copy outside link fields; every link
   field, read as a big-endian integer of its width and added to the object's position (+
   adjustment), lands on a position where the target object is present, recursively), and every
   written offset equals the exact distance and is < 2^(8*width). *)
Theorem c05_serialize_sound : forall objs ord, layout_ok objs ord ->
  exists out, serialize_ord objs ord = Some out /\ blen out = total_size objs ord /\
    (forall id, In id ord -> Resolves objs out (posof objs ord id) id) /\
    (forall id o l, In id ord -> mfind id objs = Some o -> In l (o_links o) ->
        from_be (slice out (posof objs ord id + l_pos l) (l_width l))
          = posof objs ord (l_obj l) - (posof objs ord id + l_adj l) /\
        from_be (slice out (posof objs ord id + l_pos l) (l_width l)) < 2 ^ (8 * l_width l)).
Proof. exact serialize_sound_lemma. Qed.

(* The same on a graph whose gate [has_overflows] returned false (what pack_objects checks before
   it reports success), adjustments being zero (always, for graphs built through the public API):
   the root (first object of the order) resolves at position 0. *)
Theorem c05_serialize_sound_gate : forall g,
  g_order g <> [] -> NoDup (g_order g) ->
  (forall id, In id (g_order g) -> exists o, mfind id (g_objs g) = Some o /\ obj_wf o) ->
  (forall id o l, In id (g_order g) -> mfind id (g_objs g) = Some o -> In l (o_links o) -> In (l_obj l) (g_order g)) ->
  total_size (g_objs g) (g_order g) < 2 ^ 32 ->
  (forall id o l, In id (g_order g) -> mfind id (g_objs g) = Some o -> In l (o_links o) ->
      precedes (g_order g) id (l_obj l)) ->
  (forall id o l, In id (g_order g) -> mfind id (g_objs g) = Some o -> In l (o_links o) -> l_adj l = 0) ->
  positions_match g ->
  has_overflows g = Some false ->
  exists out, serialize g = Some out /\ blen out = total_size (g_objs g) (g_order g) /\
    Resolves (g_objs g) out 0 (hd 0 (g_order g)) /\
    (forall id, In id (g_order g) -> Resolves (g_objs g) out (posof (g_objs g) (g_order g) id) id) /\
    (forall id o l, In id (g_order g) -> mfind id (g_objs g) = Some o -> In l (o_links o) ->
        from_be (slice out (posof (g_objs g) (g_order g) id + l_pos l) (l_width l))
          = posof (g_objs g) (g_order g) (l_obj l) - posof (g_objs g) (g_order g) id /\
        from_be (slice out (posof (g_objs g) (g_order g) id + l_pos l) (l_width l)) < 2 ^ (8 * l_width l)).
Proof. exact serialize_sound_graph. Qed.

(* serialize_len is the second conjunct of c05_serialize_sound. *)

(* The decidable form of the hypotheses.  check_case evaluates [layout_okb] (and positions_matchb, root
   first) on the packed graph of EVERY correspondence case on which the model reports success, so for
   each such case this theorem applies to exactly the bytes that were compared with the implementation. *)
Theorem c05_layout_okb_sound : forall objs ord, layout_okb objs ord = true -> layout_ok objs ord.
Proof. exact layout_okb_sound. Qed.
Theorem c05_checked_case_resolves : forall objs ord, layout_okb objs ord = true ->
  exists out, serialize_ord objs ord = Some out /\ blen out = total_size objs ord /\
    Resolves objs out 0 (hd 0 ord) /\
    (forall id, In id ord -> Resolves objs out (posof objs ord id) id).
Proof. exact layout_okb_resolves. Qed.

(* sort_kahn (partial correctness, fresh graph, nobody links the root): IF it returns — i.e. does not hit
   `panic!("cycle or something?")`, an index panic or a u32 overflow — then its order is duplicate-free,
   starts with the root, contains every object reachable from the root, has every parent before each
   child, and the recorded positions are the prefix sums.  No acyclicity assumption: on a cyclic graph the
   final removed_edges check makes the model panic.  (The same holds for sort_shortest_distance: Sort.v
   sort_sd_sorted.)  Totality: c05_kahn_order_topological below. *)
Theorem c05_kahn_order_topological_partial : forall objs root g g',
  from_objects objs root = Some g -> no_link_to objs root -> (1 < length objs)%nat ->
  sort_kahn g = Some g' ->
  NoDup (g_order g') /\ (exists r, g_order g' = root :: r) /\
  (forall x, reach objs root x -> In x (g_order g')) /\
  (forall id o l, In id (g_order g') -> mfind id objs = Some o -> In l (o_links o) ->
     precedes (g_order g') id (l_obj l)) /\
  positions_match g'.
Proof. exact kahn_order_topological_partial. Qed.

(* kahn_order_topological, TOTAL (round 2): on an acyclic graph (rank function increasing along links) whose
   objects are all reachable from the root, whose link targets exist, whose root nobody links and whose total
   size is < 2^32, sort_kahn does NOT panic and returns a duplicate-free listing of ALL objects (a permutation of
   the keys) that starts with the root, has every parent before each child, with positions = prefix sums. *)
Theorem c05_kahn_order_topological : forall objs root rk g,
  from_objects objs root = Some g -> dag_ok objs root rk -> (1 < length objs)%nat ->
  exists g', sort_kahn g = Some g' /\
    NoDup (g_order g') /\ Permutation (g_order g') (mkeys objs) /\ (exists r, g_order g' = root :: r) /\
    (forall id o l, In id (g_order g') -> mfind id objs = Some o -> In l (o_links o) ->
       precedes (g_order g') id (l_obj l)) /\
    positions_match g'.
Proof. exact kahn_order_topological. Qed.

(* END-TO-END for the modelled packer (basic path: Kahn, shortest distance; the model never reports
   Packed otherwise).  [graph_hyps]: the root object exists, nobody links it, every object has well-formed
   link fields and zero adjustments (check_case evaluates graph_hypsb on every successful case).
   Whenever pack_objects reports success, serialize succeeds and the root Resolves at position 0: no
   further hypothesis on orders, positions or acyclicity. *)
Theorem c05_pack_success_resolves : forall objs root g g',
  from_objects objs root = Some g -> graph_hyps objs root -> pack_objects g = Some (g', Packed) ->
  exists out, serialize g' = Some out /\ blen out = total_size objs (g_order g') /\
    Resolves objs out 0 root /\
    (forall id, In id (g_order g') -> Resolves objs out (posof objs (g_order g') id) id).
Proof. exact pack_success_resolves. Qed.
Theorem c05_dump_bytes_resolve : forall objs root out,
  graph_hyps objs root -> dump_graph objs root = RBytes out -> Resolves objs out 0 root.
Proof. exact dump_graph_resolves. Qed.
Theorem c05_graph_hypsb_sound : forall objs root, graph_hypsb objs root = true -> graph_hyps objs root.
Proof. exact graph_hypsb_sound. Qed.

(* ObjectStore de-duplication: the key is the whole content — bytes and, for every offset, position, WIDTH, target and
   adjustment; the id returned by ObjectStore::add denotes exactly the table that was added and no existing entry changes
   (dedup_preserves_resolution: Resolves of an id depends only on the object stored under it). *)
Theorem c05_dedup_key_is_content : forall a b, obj_eqb a b = true -> a = b.
Proof. exact obj_eqb_eq. Qed.
Theorem c05_dedup_preserves_resolution : forall st d st' id, store_add st d = Some (st', id) ->
  In (d, id) (st_objs st') /\ (forall e, In e (st_objs st) -> In e (st_objs st')).
Proof. exact store_add_sound. Qed.

(* pack_objects reports success only after the gate returned false on the graph it returns *)
Theorem c05_pack_success_passed_gate : forall g g',
  pack_objects g = Some (g', Packed) -> has_overflows g' = Some false.
Proof. exact pack_packed_no_overflow. Qed.

(* dump_table yields bytes only through pack_objects = true + the gate + serialize *)
Theorem c05_bytes_only_after_gate : forall objs root out, dump_graph objs root = RBytes out ->
  exists g g', from_objects objs root = Some g /\ pack_objects g = Some (g', Packed) /\
               has_overflows g' = Some false /\ serialize g' = Some out.
Proof. exact dump_graph_bytes. Qed.

(* when no layout is found an error is returned rather than bytes *)
Theorem c05_pack_false_no_bytes : forall objs root g g', from_objects objs root = Some g ->
  pack_objects g = Some (g', Failed) -> dump_graph objs root = RFailed.
Proof. exact pack_false_no_bytes. Qed.

Print Assumptions c05_serialize_sound.
Print Assumptions c05_serialize_sound_gate.
Print Assumptions c05_layout_okb_sound.
Print Assumptions c05_checked_case_resolves.
Print Assumptions c05_kahn_order_topological_partial.
Print Assumptions c05_kahn_order_topological.
Print Assumptions c05_pack_success_resolves.
Print Assumptions c05_dump_bytes_resolve.
Print Assumptions c05_graph_hypsb_sound.
Print Assumptions c05_dedup_key_is_content.
Print Assumptions c05_dedup_preserves_resolution.
Print Assumptions c05_pack_success_passed_gate.
Print Assumptions c05_bytes_only_after_gate.
Print Assumptions c05_pack_false_no_bytes.
