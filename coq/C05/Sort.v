(* C05 — the sorts: what a successful run of the common loop of sort_kahn / sort_shortest_distance
   guarantees (partial correctness, no assumption on the graph except that the root's node has no
   recorded parent), and its consequences for basic_sort / pack_objects / dump_table. *)
From Coq Require Import ZArith List Bool Lia Permutation.
From FV Require Import Lib.RustInt C05.Model C05.Proofs.
Import ListNotations.
Open Scope Z_scope.

Definition cntz (x : Z) (l : list Z) : Z := Z.of_nat (count_occ Z.eq_dec l x).
Definition rcount (removed : zmap Z) (x : Z) : Z :=
  match mfind x removed with Some c => c | None => 0 end.
Definition tgt (objs : zmap obj) (id : Z) : list Z :=
  match mfind id objs with Some o => map l_obj (o_links o) | None => [] end.
Definition targets_of (objs : zmap obj) (ids : list Z) : list Z := flat_map (tgt objs) ids.

Lemma cntz_app x a b : cntz x (a ++ b) = cntz x a + cntz x b.
Proof. unfold cntz. rewrite count_occ_app. lia. Qed.
Lemma cntz_nil x : cntz x [] = 0.
Proof. reflexivity. Qed.
Lemma cntz_single_same x : cntz x [x] = 1.
Proof. unfold cntz. cbn. destruct (Z.eq_dec x x); [reflexivity|contradiction]. Qed.
Lemma cntz_single_other x y : x <> y -> cntz x [y] = 0.
Proof. intros H. unfold cntz. cbn. destruct (Z.eq_dec y x); [congruence|reflexivity]. Qed.
Lemma cntz_nonneg x l : 0 <= cntz x l.
Proof. unfold cntz. lia. Qed.
Lemma cntz_pos_in x l : In x l -> 1 <= cntz x l.
Proof. intros H. unfold cntz. apply (count_occ_In Z.eq_dec) in H. lia. Qed.
Lemma cntz_in_pos x l : 1 <= cntz x l -> In x l.
Proof. intros H. unfold cntz in H. apply (count_occ_In Z.eq_dec). lia. Qed.

Lemma bump_spec k m m' c : bump k m = (m', c) ->
  c = rcount m k + 1 /\ rcount m' k = c /\ forall x, x <> k -> rcount m' x = rcount m x.
Proof.
  unfold bump, rcount. intros H. inversion H; subst. clear H. split; [|split].
  - destruct (mfind k m); lia.
  - rewrite mfind_minsert_same. reflexivity.
  - intros x Hx. rewrite mfind_minsert_other by congruence. reflexivity.
Qed.

Lemma targets_of_app objs a b : targets_of objs (a ++ b) = targets_of objs a ++ targets_of objs b.
Proof. unfold targets_of. apply flat_map_app. Qed.
Lemma targets_of_single objs id o : mfind id objs = Some o -> targets_of objs [id] = map l_obj (o_links o).
Proof. intros H. unfold targets_of. cbn. unfold tgt. rewrite H. apply app_nil_r. Qed.

Lemma total_size_app objs a b : total_size objs (a ++ b) = total_size objs a + total_size objs b.
Proof. induction a as [|x r IH]; cbn [app total_size]; [lia|]. rewrite IH. lia. Qed.
Lemma posof_app_in objs a b x : In x a -> posof objs (a ++ b) x = posof objs a x.
Proof.
  induction a as [|y r IH]; cbn [app posof In]; [intros []|].
  intros H. destruct (y =? x) eqn:E; [reflexivity|].
  destruct H as [->|H]; [lia|]. rewrite IH by exact H. reflexivity.
Qed.
Lemma posof_app_notin objs a x : ~ In x a -> posof objs (a ++ [x]) x = total_size objs a.
Proof.
  induction a as [|y r IH]; cbn [app posof total_size]; intros H.
  - rewrite Z.eqb_refl. reflexivity.
  - destruct (y =? x) eqn:E.
    + exfalso. apply H. left. lia.
    + rewrite IH; [reflexivity|]. intro Hin. apply H. right. exact Hin.
Qed.

(* ---- small library: maps, permutations, counting ---- *)
Lemma in_keys_mfind {A} k (m : zmap A) : In k (mkeys m) -> exists v, mfind k m = Some v.
Proof.
  induction m as [|[k' v] r IH]; cbn; [intros []|]. intros [E|H].
  - subst. rewrite Z.eqb_refl. eauto.
  - destruct (k =? k'); [eauto|apply IH; exact H].
Qed.
Lemma mfind_of_In_nodup {A} k (v : A) (m : zmap A) : NoDup (mkeys m) -> In (k, v) m -> mfind k m = Some v.
Proof.
  induction m as [|[k' v'] r IH]; cbn [mkeys map fst]; intros Hnd Hin; [destruct Hin|].
  inversion Hnd as [|? ? Hn Hnd']; subst. cbn [mfind]. destruct Hin as [E|Hin].
  - inversion E; subst. rewrite Z.eqb_refl. reflexivity.
  - destruct (k =? k') eqn:Ek.
    + exfalso. assert (k = k') by lia. subst. apply Hn. apply (in_map fst) in Hin. exact Hin.
    + apply IH; assumption.
Qed.

Lemma mfind_in_keys_local {A} k (v : A) m : mfind k m = Some v -> In k (mkeys m).
Proof. intros H. apply mfind_In in H. unfold mkeys. apply (in_map fst) in H. exact H. Qed.

Lemma nodup_app_left {A} (a b : list A) : NoDup (a ++ b) -> NoDup a.
Proof.
  induction a as [|x r IH]; cbn; intros H; [constructor|].
  inversion H; subst. constructor; [|apply IH; assumption].
  intro Hin. apply H2. apply in_or_app. left. exact Hin.
Qed.

Lemma nodup_incl_split (l K : list Z) : NoDup l -> incl l K -> exists R, Permutation K (l ++ R).
Proof.
  revert K. induction l as [|x r IH]; intros K Hnd Hincl; [exists K; apply Permutation_refl|].
  inversion Hnd as [|? ? Hn Hnd']; subst.
  assert (Hx : In x K) by (apply Hincl; left; reflexivity).
  destruct (in_split _ _ Hx) as (K1 & K2 & ->).
  destruct (IH (K1 ++ K2) Hnd') as (R & HR).
  { intros y Hy. assert (Hy' : In y (K1 ++ x :: K2)) by (apply Hincl; right; exact Hy).
    apply in_app_or in Hy'. apply in_or_app. destruct Hy' as [H|[H|H]]; auto.
    subst. contradiction. }
  exists R. eapply Permutation_trans; [apply Permutation_sym; apply Permutation_middle|].
  cbn [app]. apply perm_skip. exact HR.
Qed.

Lemma total_size_perm objs l l' : Permutation l l' -> total_size objs l = total_size objs l'.
Proof. induction 1; cbn [total_size]; lia. Qed.
Lemma targets_cnt_perm objs x l l' : Permutation l l' -> cntz x (targets_of objs l) = cntz x (targets_of objs l').
Proof.
  induction 1 as [| a l l' HP IH | a b l | l l' l'' H1 IH1 H2 IH2]; cbn [targets_of flat_map]; rewrite ?cntz_app; try lia.
  - fold (targets_of objs l) (targets_of objs l'). lia.
Qed.

Lemma total_size_sub objs l K : NoDup l -> incl l K -> total_size objs l <= total_size objs K.
Proof.
  intros Hnd Hincl. destruct (nodup_incl_split l K Hnd Hincl) as (R & HP).
  rewrite (total_size_perm objs _ _ HP), total_size_app. pose proof (total_size_nonneg objs R). lia.
Qed.

(* sorted maps built by minsert: list entries are what mfind returns *)
Fixpoint zsorted {A} (m : zmap A) : Prop :=
  match m with
  | [] => True
  | (k, _) :: r => (forall k' v', In (k', v') r -> k < k') /\ zsorted r
  end.
Lemma minsert_in {A} k (v : A) : forall m k' v', In (k', v') (minsert k v m) -> (k' = k /\ v' = v) \/ In (k', v') m.
Proof.
  induction m as [|[k0 v0] r IH]; intros k' v' H; cbn [minsert] in H.
  - destruct H as [E|[]]. inversion E. auto.
  - destruct (k <? k0).
    + destruct H as [E|H]; [inversion E; auto|right; exact H].
    + destruct (k =? k0).
      * destruct H as [E|H]; [inversion E; auto|right; right; exact H].
      * destruct H as [E|H]; [right; left; exact E|].
        destruct (IH _ _ H) as [?|?]; [auto|right; right; assumption].
Qed.
Lemma zsorted_minsert {A} k (v : A) : forall m, zsorted m -> zsorted (minsert k v m).
Proof.
  induction m as [|[k0 v0] r IH]; intros Hs; cbn [minsert].
  - cbn. split; [intros ? ? []|exact I].
  - destruct Hs as (Hlt & Hs). destruct (k <? k0) eqn:E1.
    + cbn [zsorted]. split; [|split; assumption].
      intros k' v' [E|H]; [inversion E; lia|]. specialize (Hlt _ _ H). lia.
    + destruct (k =? k0) eqn:E2.
      * cbn [zsorted]. split; [|exact Hs]. intros k' v' H. specialize (Hlt _ _ H). lia.
      * cbn [zsorted]. split; [|apply IH; exact Hs].
        intros k' v' H. destruct (minsert_in _ _ _ _ _ H) as [(-> & _)|H']; [lia|apply (Hlt _ _ H')].
Qed.
Lemma zsorted_in_mfind {A} k (v : A) : forall m, zsorted m -> In (k, v) m -> mfind k m = Some v.
Proof.
  induction m as [|[k0 v0] r IH]; intros Hs Hin; [destruct Hin|].
  destruct Hs as (Hlt & Hs). cbn [mfind]. destruct Hin as [E|Hin].
  - inversion E; subst. rewrite Z.eqb_refl. reflexivity.
  - specialize (Hlt _ _ Hin). destruct (k =? k0) eqn:E; [lia|]. apply IH; assumption.
Qed.

Section LoopSpec.
  Variables (Q St : Type).
  Variable qpop : Q -> option (Z * Q).
  Variable qpush : node -> Z -> St -> Q -> option (Q * St).
  Variable qelems : Q -> list Z.
  Hypothesis qpop_none : forall q, qpop q = None -> qelems q = [].
  Hypothesis qpop_some : forall q id q', qpop q = Some (id, q') -> Permutation (qelems q) (id :: qelems q').
  Hypothesis qpush_some : forall nd id s q q' s', qpush nd id s q = Some (q', s') ->
    Permutation (qelems q') (id :: qelems q).

  Variable objs : zmap obj.
  Variable root : Z.
  Variable np : Z -> Z.                      (* recorded number of parents of each node *)
  Hypothesis np_root : np root = 0.

  Definition Nnodes (nodes : zmap node) : Prop :=
    forall x nd, mfind x nodes = Some nd -> nparents nd = np x.

  Lemma Nnodes_set_pos nodes id nd cur : Nnodes nodes -> mfind id nodes = Some nd ->
    Nnodes (minsert id (set_pos nd cur) nodes).
  Proof.
    intros HN Hid x nd' H. destruct (Z.eq_dec x id) as [->|Hne].
    - rewrite mfind_minsert_same in H. inversion H; subst. unfold nparents, set_pos. cbn. apply (HN id nd Hid).
    - rewrite mfind_minsert_other in H by congruence. apply (HN x nd' H).
  Qed.

  (* state predicate shared by the inner and outer loop: [popped] the objects already in the order,
     [D] the link targets processed so far *)
  Definition J (popped : list Z) (q : Q) (removed : zmap Z) (D : list Z) : Prop :=
    NoDup (popped ++ qelems q) /\
    (forall x, rcount removed x = cntz x D) /\
    (forall x, In x (popped ++ qelems q) <-> x = root \/ 1 <= np x <= cntz x D).

  Lemma sort_links_spec nodes popped : Nnodes nodes -> forall ls q removed s q' removed' s' D,
    sort_links Q St qpush nodes ls q removed s = Some (q', removed', s') ->
    J popped q removed D ->
    J popped q' removed' (D ++ map l_obj ls) /\
    (forall x, In x (qelems q) -> In x (qelems q')) /\
    (forall l, In l ls -> exists nd, mfind (l_obj l) nodes = Some nd).
  Proof.
    intros HN. induction ls as [|l r IH]; intros q removed s q' removed' s' D Hrun HJ.
    - cbn in Hrun. inversion Hrun; subst. cbn [map]. rewrite app_nil_r. split; [exact HJ|]. split; [auto|intros ? []].
    - cbn [sort_links] in Hrun. destruct (bump (l_obj l) removed) as [removed1 seen] eqn:Eb.
      destruct (bump_spec _ _ _ _ Eb) as (Hseen & Hr1 & Hr2).
      destruct (mfind (l_obj l) nodes) as [nd|] eqn:End; cbn [obind] in Hrun; [|discriminate].
      set (t := l_obj l) in *.
      destruct HJ as (J1 & J2 & J3).
      rewrite J2 in Hseen. pose proof (cntz_nonneg t D) as Hnn.
      assert (Hcnt : forall x, cntz x (D ++ [t]) = cntz x D + (if Z.eq_dec x t then 1 else 0)).
      { intros x. rewrite cntz_app. destruct (Z.eq_dec x t) as [->|Hne].
        - rewrite cntz_single_same. reflexivity.
        - rewrite cntz_single_other by exact Hne. reflexivity. }
      assert (HJ2' : forall x, rcount removed1 x = cntz x (D ++ [t])).
      { intros x. rewrite Hcnt. destruct (Z.eq_dec x t) as [->|Hne].
        - rewrite Hr1, Hseen. reflexivity.
        - rewrite Hr2 by exact Hne. rewrite J2. lia. }
      rewrite (HN t nd End) in Hrun.
      replace (D ++ map l_obj (l :: r)) with ((D ++ [t]) ++ map l_obj r)
        by (cbn [map]; rewrite <- app_assoc; reflexivity).
      destruct (seen =? np t) eqn:Eseen.
      + (* push *)
        destruct (qpush nd t s q) as [[q1 s1]|] eqn:Epush; cbn [obind fst snd] in Hrun; [|discriminate].
        pose proof (qpush_some _ _ _ _ _ _ Epush) as Hperm.
        assert (Hnotin : ~ In t (popped ++ qelems q)).
        { intro Hin. apply J3 in Hin. destruct Hin as [E|Hin].
          - assert (np t = 0) by (rewrite E; exact np_root). lia.
          - lia. }
        assert (Hperm' : Permutation (popped ++ qelems q1) (t :: popped ++ qelems q)).
        { eapply Permutation_trans; [apply Permutation_app_head; exact Hperm|].
          apply Permutation_sym. apply Permutation_middle. }
        assert (HJ1 : J popped q1 removed1 (D ++ [t])).
        { split; [|split; [exact HJ2'|]].
          - eapply Permutation_NoDup; [apply Permutation_sym; exact Hperm'|]. constructor; assumption.
          - intros x. rewrite Hcnt. split.
            + intros Hin. apply (Permutation_in _ Hperm') in Hin. destruct Hin as [<-|Hin].
              * right. destruct (Z.eq_dec t t); [|contradiction]. lia.
              * apply J3 in Hin. destruct Hin as [E|Hin]; [left; exact E|right].
                destruct (Z.eq_dec x t); lia.
            + intros [E|Hx].
              * apply (Permutation_in _ (Permutation_sym Hperm')). right. apply J3. left. exact E.
              * apply (Permutation_in _ (Permutation_sym Hperm')).
                destruct (Z.eq_dec x t) as [->|Hne]; [left; reflexivity|].
                right. apply J3. right. lia. }
        destruct (IH _ _ _ _ _ _ _ Hrun HJ1) as (HJend & Hgrow & Hnodes).
        split; [exact HJend|]. split.
        * intros x Hx. apply Hgrow. apply (Permutation_in _ (Permutation_sym Hperm)). right. exact Hx.
        * intros l' [<-|Hl']; [eauto|apply Hnodes; exact Hl'].
      + (* no push *)
        assert (HJ1 : J popped q removed1 (D ++ [t])).
        { split; [exact J1|]. split; [exact HJ2'|].
          intros x. rewrite Hcnt. rewrite J3. destruct (Z.eq_dec x t) as [->|Hne].
          - split; intros [E|Hx]; try (left; exact E); right; lia.
          - split; intros [E|Hx]; try (left; exact E); right; lia. }
        destruct (IH _ _ _ _ _ _ _ Hrun HJ1) as (HJend & Hgrow & Hnodes).
        split; [exact HJend|]. split; [exact Hgrow|].
        intros l' [<-|Hl']; [eauto|apply Hnodes; exact Hl'].
  Qed.

  (* invariant at the head of the outer loop *)
  Definition Inv (nodes : zmap node) (q : Q) (removed : zmap Z) (cur : Z) (popped : list Z) : Prop :=
    Nnodes nodes /\ J popped q removed (targets_of objs popped) /\
    cur = total_size objs popped /\ 0 <= cur < 2 ^ 32 /\
    (forall id, In id popped -> exists o, mfind id objs = Some o) /\
    (forall id, In id popped -> exists nd, mfind id nodes = Some nd /\ n_pos nd = posof objs popped id).

  (* when an object is appended to the order, everything already in the order (and the object itself)
     has seen at least its recorded number of parents *)
  Definition Trace (popped rest : list Z) : Prop :=
    forall pre id post, rest = pre ++ id :: post ->
      forall x, In x (popped ++ pre ++ [id]) ->
        x = root \/ np x <= cntz x (targets_of objs (popped ++ pre)).

  Lemma sort_loop_spec : forall fuel nodes q removed cur popped s nodes' removed' order',
    sort_loop Q St qpop qpush fuel objs nodes q removed cur popped s = Some (nodes', removed', order') ->
    Inv nodes q removed cur popped ->
    exists rest qe, order' = popped ++ rest /\ qelems qe = [] /\
      Inv nodes' qe removed' (total_size objs order') order' /\ Trace popped rest /\
      (forall x, In x (qelems q) -> In x rest) /\
      (forall id q0, qpop q = Some (id, q0) -> exists rest1, rest = id :: rest1).
  Proof.
    induction fuel as [|f IH]; intros nodes q removed cur popped s nodes' removed' order' Hrun HI.
    - cbn [sort_loop] in Hrun. destruct (qpop q) as [[id q0]|] eqn:Ep; [discriminate|].
      inversion Hrun; subst. exists [], q. rewrite app_nil_r.
      pose proof (qpop_none _ Ep) as Hq.
      destruct HI as (H1 & H2 & H3 & H4 & H5 & H6). subst cur.
      split; [reflexivity|]. split; [exact Hq|].
      split; [split; [exact H1|split; [exact H2|split; [reflexivity|split; [exact H4|split; [exact H5|exact H6]]]]]|].
      split; [intros pre id post E; destruct pre; discriminate|].
      split; [rewrite Hq; intros x []|intros ? ? E; congruence].
    - cbn [sort_loop] in Hrun. destruct (qpop q) as [[id q0]|] eqn:Ep.
      2:{ inversion Hrun; subst. exists [], q. rewrite app_nil_r.
          pose proof (qpop_none _ Ep) as Hq.
          destruct HI as (H1 & H2 & H3 & H4 & H5 & H6). subst cur.
          split; [reflexivity|]. split; [exact Hq|].
          split; [split; [exact H1|split; [exact H2|split; [reflexivity|split; [exact H4|split; [exact H5|exact H6]]]]]|].
          split; [intros pre id post E; destruct pre; discriminate|].
      split; [rewrite Hq; intros x []|intros ? ? E; congruence]. }
      destruct (mfind id objs) as [next|] eqn:Enext; cbn [obind] in Hrun; [|discriminate].
      destruct (mfind id nodes) as [nd|] eqn:End; cbn [obind] in Hrun; [|discriminate].
      destruct (chk_u 32 (cur + blen (o_bytes next))) as [cur'|] eqn:Ecur; cbn [obind] in Hrun; [|discriminate].
      set (nodes1 := minsert id (set_pos nd cur) nodes) in *.
      destruct (sort_links Q St qpush nodes1 (o_links next) q0 removed s) as [[[q1 removed1] s1]|] eqn:Elinks;
        cbn [obind] in Hrun; [|discriminate].
      destruct HI as (HN & HJ & Hcur & Hcurb & Hobjs & Hpos).
      pose proof (qpop_some _ _ _ Ep) as Hperm.
      destruct HJ as (J1 & J2 & J3).
      (* id is not yet in the order *)
      assert (Hperm' : Permutation (popped ++ qelems q) ((popped ++ [id]) ++ qelems q0)).
      { rewrite <- app_assoc. apply Permutation_app_head. exact Hperm. }
      assert (Hid_notin : ~ In id popped).
      { pose proof (Permutation_NoDup Hperm' J1) as Hnd. rewrite <- app_assoc in Hnd.
        apply NoDup_remove_2 in Hnd. intro Hin. apply Hnd. apply in_or_app. left. exact Hin. }
      assert (HN1 : Nnodes nodes1) by (apply Nnodes_set_pos; assumption).
      assert (HJ0 : J (popped ++ [id]) q0 removed (targets_of objs popped)).
      { split; [eapply Permutation_NoDup; [exact Hperm'|exact J1]|]. split; [exact J2|].
        intros x. rewrite <- J3. split; intro Hin.
        - apply (Permutation_in _ (Permutation_sym Hperm')). exact Hin.
        - apply (Permutation_in _ Hperm'). exact Hin. }
      destruct (sort_links_spec nodes1 (popped ++ [id]) HN1 _ _ _ _ _ _ _ _ Elinks HJ0) as (HJ1 & Hgrow & _).
      assert (Htg : targets_of objs (popped ++ [id]) = targets_of objs popped ++ map l_obj (o_links next)).
      { rewrite targets_of_app, (targets_of_single _ _ _ Enext). reflexivity. }
      rewrite <- Htg in HJ1.
      assert (Hsz : size_of objs id = blen (o_bytes next)) by (unfold size_of; rewrite Enext; reflexivity).
      assert (Hcur' : cur' = total_size objs (popped ++ [id]) /\ 0 <= cur' < 2 ^ 32).
      { unfold chk_u, in_u in Ecur.
        destruct ((0 <=? cur + blen (o_bytes next)) && (cur + blen (o_bytes next) <? 2 ^ 32)) eqn:E; [|discriminate].
        inversion Ecur; subst cur'. rewrite total_size_app. cbn [total_size]. rewrite Hsz. lia. }
      destruct Hcur' as (Hcur'1 & Hcur'2).
      assert (HI1 : Inv nodes1 q1 removed1 cur' (popped ++ [id])).
      { split; [exact HN1|]. split; [exact HJ1|]. split; [exact Hcur'1|]. split; [exact Hcur'2|]. split.
        - intros x Hx. apply in_app_or in Hx. destruct Hx as [Hx|[<-|[]]]; [apply Hobjs; exact Hx|eauto].
        - intros x Hx. apply in_app_or in Hx. destruct Hx as [Hx|[<-|[]]].
          + destruct (Hpos x Hx) as (ndx & Hndx & Hpx).
            assert (x <> id) by (intro; subst; contradiction).
            exists ndx. unfold nodes1. rewrite mfind_minsert_other by congruence.
            split; [exact Hndx|]. rewrite posof_app_in by exact Hx. exact Hpx.
          + exists (set_pos nd cur). unfold nodes1. rewrite mfind_minsert_same. split; [reflexivity|].
            rewrite posof_app_notin by exact Hid_notin. cbn. exact Hcur. }
      destruct (IH _ _ _ _ _ _ _ _ _ Hrun HI1) as (rest1 & qe & Hord & Hqe & HIend & Htrace & Hsub & _).
      exists (id :: rest1), qe. split; [rewrite Hord, <- app_assoc; reflexivity|]. split; [exact Hqe|].
      split; [exact HIend|]. split.
      + intros pre x post E y Hy. destruct pre as [|p0 pre'].
        * cbn [app] in E. inversion E; subst x post. cbn [app] in Hy. rewrite app_nil_r.
          assert (Hy' : In y (popped ++ qelems q)).
          { apply (Permutation_in _ (Permutation_sym Hperm')). apply in_or_app. left. exact Hy. }
          apply J3 in Hy'. destruct Hy' as [E1|Hy']; [left; exact E1|right; lia].
        * cbn [app] in E. inversion E; subst p0 rest1.
          specialize (Htrace pre' x post eq_refl y).
          rewrite <- !app_assoc in Htrace. cbn [app] in Htrace.
          replace (popped ++ (id :: pre') ++ [x]) with (popped ++ id :: pre' ++ [x]) in Hy by reflexivity.
          specialize (Htrace Hy).
          replace (popped ++ id :: pre') with (popped ++ [id] ++ pre') by reflexivity.
          replace (popped ++ [id] ++ pre') with ((popped ++ [id]) ++ pre') by (rewrite <- app_assoc; reflexivity).
          replace (popped ++ id :: pre') with ((popped ++ [id]) ++ pre') in Htrace by (rewrite <- app_assoc; reflexivity).
          exact Htrace.
      + split.
        * intros x Hx. apply (Permutation_in _ Hperm) in Hx. destruct Hx as [<-|Hx]; [left; reflexivity|].
          right. apply Hsub. apply Hgrow. exact Hx.
        * intros id' q0' E. inversion E; subst. eauto.
  Qed.

  (* ---- what the final `removed_edges` check adds ---- *)
  Record sorted_ok (nodes : zmap node) (ord : list Z) : Prop := {
    so_nodup : NoDup ord;
    so_root : exists r, ord = root :: r;
    so_objs : forall id, In id ord -> exists o, mfind id objs = Some o;
    so_closed : forall id o l, In id ord -> mfind id objs = Some o -> In l (o_links o) -> In (l_obj l) ord;
    so_topo : forall id o l, In id ord -> mfind id objs = Some o -> In l (o_links o) -> precedes ord id (l_obj l);
    so_pos : forall id, In id ord -> exists nd, mfind id nodes = Some nd /\ n_pos nd = posof objs ord id;
    so_size : total_size objs ord < 2 ^ 32;
    so_np : Nnodes nodes }.

  Lemma removed_ok_true nodes : forall r, removed_ok nodes r = Some true ->
    forall k c, In (k, c) r -> exists nd, mfind k nodes = Some nd /\ c = nparents nd.
  Proof.
    induction r as [|[k0 c0] r IH]; intros H k c Hin; [destruct Hin|].
    cbn [removed_ok] in H. destruct (mfind k0 nodes) as [nd|] eqn:E; cbn [obind] in H; [|discriminate].
    destruct (removed_ok nodes r) as [b|]; cbn [obind] in H; [|discriminate].
    inversion H as [Hb]. apply andb_prop in Hb. destruct Hb as (Hb1 & Hb2). subst b.
    destruct Hin as [Heq|Hin].
    - inversion Heq; subst. exists nd. split; [exact E|lia].
    - apply IH; auto.
  Qed.

  Lemma targets_in_tgt id o l : mfind id objs = Some o -> In l (o_links o) -> In (l_obj l) (tgt objs id).
  Proof. intros Ho Hl. unfold tgt. rewrite Ho. apply in_map. exact Hl. Qed.

  Lemma loop_sorted_ok fuel nodes q s nodes' removed' ord :
    sort_loop Q St qpop qpush fuel objs nodes q [] 0 [] s = Some (nodes', removed', ord) ->
    Nnodes nodes -> qelems q = [root] ->
    removed_ok nodes' removed' = Some true ->
    sorted_ok nodes' ord.
  Proof.
    intros Hrun HN Hq Hok.
    assert (HI0 : Inv nodes q [] 0 []).
    { split; [exact HN|]. split.
      - split; [cbn [app]; rewrite Hq; repeat constructor; intros []|]. split.
        + intros x. reflexivity.
        + intros x. cbn [app targets_of flat_map]. rewrite Hq. rewrite cntz_nil. split.
          * intros [<-|[]]. left. reflexivity.
          * intros [->|Hx]; [left; reflexivity|lia].
      - split; [reflexivity|]. split; [lia|]. split; intros id []. }
    destruct (sort_loop_spec _ _ _ _ _ _ _ _ _ _ Hrun HI0) as (rest & qe & Hord & Hqe & HI & Htrace & Hsub & Hfirst).
    cbn [app] in Hord. subst rest.
    destruct HI as (HN' & (J1 & J2 & J3) & _ & Hsize & Hobjs & Hpos).
    rewrite Hqe, app_nil_r in J1, J3.
    set (D := targets_of objs ord) in *.
    (* the final check: every seen count equals the recorded number of parents *)
    assert (F : forall x, In x D -> cntz x D = np x).
    { intros x Hx. pose proof (cntz_pos_in _ _ Hx) as Hc. rewrite <- J2 in Hc |- *.
      unfold rcount in *. destruct (mfind x removed') as [c|] eqn:E; [|lia].
      destruct (removed_ok_true _ _ Hok x c (mfind_In _ _ _ E)) as (nd & Hnd & ->).
      apply HN'. exact Hnd. }
    assert (Hin_D : forall id o l, In id ord -> mfind id objs = Some o -> In l (o_links o) -> In (l_obj l) D).
    { intros id o l Hid Ho Hl. unfold D, targets_of. apply in_flat_map. exists id. split; [exact Hid|].
      eapply targets_in_tgt; eauto. }
    assert (Hclosed : forall id o l, In id ord -> mfind id objs = Some o -> In l (o_links o) -> In (l_obj l) ord).
    { intros id o l Hid Ho Hl. pose proof (Hin_D id o l Hid Ho Hl) as Ht.
      apply J3. right. rewrite (F _ Ht). pose proof (cntz_pos_in _ _ Ht). rewrite (F _ Ht) in H. lia. }
    constructor; auto.
    - destruct (qpop q) as [[id q0]|] eqn:Ep.
      + destruct (Hfirst id q0 eq_refl) as (r1 & ->).
        pose proof (qpop_some _ _ _ Ep) as Hp. rewrite Hq in Hp.
        apply Permutation_length in Hp as Hl. destruct (qelems q0); [|discriminate].
        apply Permutation_length_1 in Hp. subst id. eauto.
      + apply qpop_none in Ep. rewrite Hq in Ep. discriminate.
    - (* topological *)
      intros id o l Hid Ho Hl.
      destruct (in_split _ _ Hid) as (pre & post & Hsplit).
      pose proof (Hin_D id o l Hid Ho Hl) as HtD. set (t := l_obj l) in *.
      pose proof (Hclosed id o l Hid Ho Hl) as Htord. fold t in Htord.
      assert (Hnot : ~ In t (pre ++ [id])).
      { intro Hin. specialize (Htrace pre id post Hsplit t). cbn [app] in Htrace.
        specialize (Htrace Hin).
        assert (Hmore : cntz t (targets_of objs pre) + 1 <= cntz t D).
        { unfold D. rewrite Hsplit. rewrite targets_of_app. cbn [targets_of flat_map].
          rewrite !cntz_app. fold (targets_of objs post).
          pose proof (cntz_nonneg t (targets_of objs post)).
          pose proof (cntz_pos_in t (tgt objs id) (targets_in_tgt id o l Ho Hl)). lia. }
        pose proof (F t HtD) as HF. destruct Htrace as [E|Hle].
        - rewrite E in HF. rewrite np_root in HF. pose proof (cntz_nonneg root (targets_of objs pre)).
          rewrite E in Hmore. lia.
        - lia. }
      rewrite Hsplit in Htord. apply in_app_or in Htord. destruct Htord as [Hin|[Heq|Hin]].
      + exfalso. apply Hnot. apply in_or_app. left. exact Hin.
      + exfalso. apply Hnot. apply in_or_app. right. left. exact Heq.
      + destruct (in_split _ _ Hin) as (l2 & l3 & ->). exists pre, l2, l3. exact Hsplit.
    - lia.
  Qed.

  (* ---- totality: the loop does not panic and does not run out of fuel ---- *)
  Hypothesis qpush_total : forall nd id s q, qpush nd id s q <> None.
  Hypothesis keys_nodup : NoDup (mkeys objs).
  Hypothesis targets_exist : forall id o l, mfind id objs = Some o -> In l (o_links o) -> In (l_obj l) (mkeys objs).
  Hypothesis size_ok : total_size objs (mkeys objs) < 2 ^ 32.

  Definition Ext (nodes : zmap node) (q : Q) (popped : list Z) : Prop :=
    (forall x, In x (mkeys objs) -> exists nd, mfind x nodes = Some nd) /\
    incl (popped ++ qelems q) (mkeys objs).

  Lemma sort_links_total nodes : (forall x, In x (mkeys objs) -> exists nd, mfind x nodes = Some nd) ->
    forall ls q removed s, (forall l, In l ls -> In (l_obj l) (mkeys objs)) ->
    exists r, sort_links Q St qpush nodes ls q removed s = Some r.
  Proof.
    intros Hn. induction ls as [|l r IH]; intros q removed s Hl; cbn [sort_links]; [eauto|].
    destruct (bump (l_obj l) removed) as [removed1 seen].
    destruct (Hn (l_obj l) (Hl l (or_introl eq_refl))) as (nd & ->). cbn [obind].
    destruct (seen =? nparents nd).
    - destruct (qpush nd (l_obj l) s q) as [[q1 s1]|] eqn:E; [|exfalso; exact (qpush_total _ _ _ _ E)].
      cbn [obind fst snd]. apply IH. intros l' Hl'. apply Hl. right. exact Hl'.
    - apply IH. intros l' Hl'. apply Hl. right. exact Hl'.
  Qed.

  Lemma sort_loop_total : forall fuel nodes q removed cur popped s,
    Inv nodes q removed cur popped -> Ext nodes q popped ->
    (length (mkeys objs) - length popped < fuel)%nat ->
    exists r, sort_loop Q St qpop qpush fuel objs nodes q removed cur popped s = Some r.
  Proof.
    induction fuel as [|f IH]; intros nodes q removed cur popped s HI HE Hfuel; [lia|].
    cbn [sort_loop]. destruct (qpop q) as [[id q0]|] eqn:Ep; [|eauto].
    destruct HI as (HN & HJ & Hcur & Hcurb & Hobjs & Hpos). destruct HE as (Hnodes & Hincl).
    pose proof (qpop_some _ _ _ Ep) as Hperm. destruct HJ as (J1 & J2 & J3).
    assert (Hperm' : Permutation (popped ++ qelems q) ((popped ++ [id]) ++ qelems q0)).
    { rewrite <- app_assoc. apply Permutation_app_head. exact Hperm. }
    assert (Hid_key : In id (mkeys objs)).
    { apply Hincl. apply (Permutation_in _ (Permutation_sym Hperm')). apply in_or_app. left. apply in_or_app. right. left. reflexivity. }
    assert (Hnd1 : NoDup ((popped ++ [id]) ++ qelems q0)) by (eapply Permutation_NoDup; [exact Hperm'|exact J1]).
    assert (Hid_notin : ~ In id popped).
    { rewrite <- app_assoc in Hnd1. apply NoDup_remove_2 in Hnd1. intro Hin. apply Hnd1. apply in_or_app. left. exact Hin. }
    assert (Hincl1 : incl ((popped ++ [id]) ++ qelems q0) (mkeys objs)).
    { intros x Hx. apply Hincl. apply (Permutation_in _ (Permutation_sym Hperm')). exact Hx. }
    destruct (in_keys_mfind _ _ Hid_key) as (next & Enext). rewrite Enext. cbn [obind].
    destruct (Hnodes id Hid_key) as (nd & End). rewrite End. cbn [obind].
    set (nodes1 := minsert id (set_pos nd cur) nodes).
    assert (Hsz : size_of objs id = blen (o_bytes next)) by (unfold size_of; rewrite Enext; reflexivity).
    assert (Hpopnd : NoDup (popped ++ [id])) by (apply nodup_app_left in Hnd1; exact Hnd1).
    assert (Hbound : total_size objs (popped ++ [id]) <= total_size objs (mkeys objs)).
    { apply total_size_sub; [exact Hpopnd|]. intros x Hx. apply Hincl1. apply in_or_app. left. exact Hx. }
    rewrite total_size_app in Hbound. cbn [total_size] in Hbound. rewrite Hsz in Hbound.
    pose proof (blen_nonneg (o_bytes next)) as Hbl.
    rewrite chk_u_some by lia. cbn [obind].
    assert (Hnodes1 : forall x, In x (mkeys objs) -> exists nd', mfind x nodes1 = Some nd').
    { intros x Hx. unfold nodes1. destruct (Z.eq_dec x id) as [->|Hne].
      - rewrite mfind_minsert_same. eauto.
      - rewrite mfind_minsert_other by congruence. apply Hnodes. exact Hx. }
    destruct (sort_links_total nodes1 Hnodes1 (o_links next) q0 removed s) as ([[q1 removed1] s1] & Elinks).
    { intros l Hl. eapply targets_exist; eauto. }
    rewrite Elinks. cbn [obind].
    (* next state satisfies the invariants *)
    assert (HN1 : Nnodes nodes1) by (apply Nnodes_set_pos; assumption).
    assert (HJ0 : J (popped ++ [id]) q0 removed (targets_of objs popped)).
    { split; [exact Hnd1|]. split; [exact J2|].
      intros x. rewrite <- J3. split; intro Hin.
      - apply (Permutation_in _ (Permutation_sym Hperm')). exact Hin.
      - apply (Permutation_in _ Hperm'). exact Hin. }
    destruct (sort_links_spec nodes1 (popped ++ [id]) HN1 _ _ _ _ _ _ _ _ Elinks HJ0) as (HJ1 & Hgrow & _).
    assert (Htg : targets_of objs (popped ++ [id]) = targets_of objs popped ++ map l_obj (o_links next)).
    { rewrite targets_of_app, (targets_of_single _ _ _ Enext). reflexivity. }
    rewrite <- Htg in HJ1.
    apply IH.
    - split; [exact HN1|]. split; [exact HJ1|]. split; [rewrite total_size_app; cbn [total_size]; lia|].
      split; [lia|]. split.
      + intros x Hx. apply in_app_or in Hx. destruct Hx as [Hx|[<-|[]]]; [apply Hobjs; exact Hx|eauto].
      + intros x Hx. apply in_app_or in Hx. destruct Hx as [Hx|[<-|[]]].
        * destruct (Hpos x Hx) as (ndx & Hndx & Hpx).
          assert (x <> id) by (intro; subst; contradiction).
          exists ndx. unfold nodes1. rewrite mfind_minsert_other by congruence.
          split; [exact Hndx|]. rewrite posof_app_in by exact Hx. exact Hpx.
        * exists (set_pos nd cur). unfold nodes1. rewrite mfind_minsert_same. split; [reflexivity|].
          rewrite posof_app_notin by exact Hid_notin. cbn. exact Hcur.
    - split; [exact Hnodes1|].
      destruct HJ1 as (HJ1a & _ & HJ1c).
      intros x Hx. apply HJ1c in Hx. destruct Hx as [->|Hx].
      + apply Hincl. apply J3. left. reflexivity.
      + (* x has been seen as a target: it is a key *)
        assert (Hin : In x (targets_of objs (popped ++ [id]))) by (apply cntz_in_pos; lia).
        unfold targets_of in Hin. apply in_flat_map in Hin. destruct Hin as (y & Hy & Hxy).
        unfold tgt in Hxy. destruct (mfind y objs) as [oy|] eqn:Ey; [|destruct Hxy].
        apply in_map_iff in Hxy. destruct Hxy as (l & <- & Hl). eapply targets_exist; eauto.
    - assert (Hlen : (length (popped ++ [id]) <= length (mkeys objs))%nat).
      { apply NoDup_incl_length; [exact Hpopnd|]. intros x Hx. apply Hincl1. apply in_or_app. left. exact Hx. }
      rewrite app_length in *. cbn [length] in *. lia.
  Qed.

  (* ---- completeness of the final order and the final check, on acyclic graphs ---- *)
  Variable rk : Z -> nat.
  Hypothesis acyclic : forall id o l, mfind id objs = Some o -> In l (o_links o) -> (rk id < rk (l_obj l))%nat.
  Hypothesis np_spec : forall x, np x = cntz x (targets_of objs (mkeys objs)).
  Hypothesis has_parent : forall x, In x (mkeys objs) -> x <> root -> 1 <= np x.

  Lemma final_all nodes qe removed cur ord : Inv nodes qe removed cur ord -> qelems qe = [] ->
    incl ord (mkeys objs) -> forall x, In x (mkeys objs) -> In x ord.
  Proof.
    intros (_ & (J1 & J2 & J3) & _) Hqe Hincl. rewrite Hqe, app_nil_r in J1, J3.
    destruct (nodup_incl_split ord (mkeys objs) J1 Hincl) as (R & HP).
    assert (Hnd : NoDup (ord ++ R)) by (eapply Permutation_NoDup; [exact HP|exact keys_nodup]).
    assert (Hgen : forall n x, rk x = n -> In x (mkeys objs) -> In x ord).
    { induction n as [n IHn] using lt_wf_ind. intros x Hrk Hx.
      apply J3. destruct (Z.eq_dec x root) as [->|Hne]; [left; reflexivity|right].
      pose proof (has_parent x Hx Hne) as Hp. split; [exact Hp|].
      rewrite np_spec, (targets_cnt_perm objs x _ _ HP), targets_of_app, cntz_app.
      assert (Hz : cntz x (targets_of objs R) = 0).
      { pose proof (cntz_nonneg x (targets_of objs R)) as Hnn.
        destruct (Z.eq_dec (cntz x (targets_of objs R)) 0) as [E|E]; [exact E|exfalso].
        assert (Hin : In x (targets_of objs R)) by (apply cntz_in_pos; lia).
        unfold targets_of in Hin. apply in_flat_map in Hin. destruct Hin as (p & HpR & Hxp).
        unfold tgt in Hxp. destruct (mfind p objs) as [op|] eqn:Eop; [|destruct Hxp].
        apply in_map_iff in Hxp. destruct Hxp as (l & Hl & Hlin). subst x.
        pose proof (acyclic p op l Eop Hlin) as Hlt.
        assert (Hpk : In p (mkeys objs)) by (eapply mfind_in_keys_local; exact Eop).
        assert (Hpo : In p ord) by (eapply (IHn (rk p)); [rewrite <- Hrk; exact Hlt|reflexivity|exact Hpk]).
        clear - Hnd Hpo HpR. induction ord as [|y r IH]; [destruct Hpo|].
        cbn in Hnd. inversion Hnd; subst. destruct Hpo as [->|Hpo].
        - apply H1. apply in_or_app. right. exact HpR.
        - apply IH; assumption. }
      lia. }
    intros x Hx. apply (Hgen (rk x) x eq_refl Hx).
  Qed.

  Definition rgood (m : zmap Z) : Prop := zsorted m /\ forall k c, In (k, c) m -> 1 <= c.
  Lemma bump_rgood k m : rgood m -> rgood (fst (bump k m)).
  Proof.
    intros (Hs & Hc). unfold bump. cbn [fst]. split; [apply zsorted_minsert; exact Hs|].
    intros k' c' H. destruct (minsert_in _ _ _ _ _ H) as [(-> & ->)|H']; [|apply (Hc _ _ H')].
    destruct (mfind k m) as [c0|] eqn:E; [|lia]. pose proof (Hc _ _ (mfind_In _ _ _ E)). lia.
  Qed.
  Lemma sort_links_rgood nodes : forall ls q removed s r, sort_links Q St qpush nodes ls q removed s = Some r ->
    rgood removed -> rgood (snd (fst r)).
  Proof.
    induction ls as [|l ls IH]; intros q removed s r H Hg; cbn [sort_links] in H.
    - inversion H; subst. exact Hg.
    - pose proof (bump_rgood (l_obj l) removed Hg) as Hg1.
      destruct (bump (l_obj l) removed) as [removed1 seen]. cbn [fst] in Hg1.
      destruct (mfind (l_obj l) nodes) as [nd|]; cbn [obind] in H; [|discriminate].
      destruct (seen =? nparents nd).
      + destruct (qpush nd (l_obj l) s q) as [[q1 s1]|]; cbn [obind fst snd] in H; [|discriminate]. eapply IH; eauto.
      + eapply IH; eauto.
  Qed.
  Lemma sort_loop_rgood : forall fuel nodes q removed cur popped s r,
    sort_loop Q St qpop qpush fuel objs nodes q removed cur popped s = Some r -> rgood removed -> rgood (snd (fst r)).
  Proof.
    induction fuel as [|f IH]; intros nodes q removed cur popped s r H Hg; cbn [sort_loop] in H;
      destruct (qpop q) as [[id q0]|]; try discriminate; try (inversion H; subst; exact Hg).
    destruct (mfind id objs) as [next|]; cbn [obind] in H; [|discriminate].
    destruct (mfind id nodes) as [nd|]; cbn [obind] in H; [|discriminate].
    destruct (chk_u 32 _) as [cur'|]; cbn [obind] in H; [|discriminate].
    destruct (sort_links Q St qpush _ (o_links next) q0 removed s) as [[[q1 removed1] s1]|] eqn:El; cbn [obind] in H; [|discriminate].
    eapply IH; [exact H|]. apply (sort_links_rgood _ _ _ _ _ _ El Hg).
  Qed.

  Lemma removed_ok_intro nodes : forall r,
    (forall k c, In (k, c) r -> exists nd, mfind k nodes = Some nd /\ c = nparents nd) -> removed_ok nodes r = Some true.
  Proof.
    induction r as [|[k c] r IH]; intros H; [reflexivity|]. cbn [removed_ok].
    destruct (H k c (or_introl eq_refl)) as (nd & -> & ->). cbn [obind].
    rewrite IH by (intros k' c' Hin; apply H; right; exact Hin). cbn [obind]. rewrite Z.eqb_refl. reflexivity.
  Qed.

  Lemma final_removed_ok nodes qe removed cur ord : Inv nodes qe removed cur ord -> qelems qe = [] ->
    incl ord (mkeys objs) -> rgood removed -> removed_ok nodes removed = Some true.
  Proof.
    intros HI Hqe Hincl (Hs & Hc).
    pose proof (final_all _ _ _ _ _ HI Hqe Hincl) as Hall.
    destruct HI as (HN & (J1 & J2 & J3) & _ & _ & _ & Hpos). rewrite Hqe, app_nil_r in J1.
    assert (HP : Permutation ord (mkeys objs)).
    { apply NoDup_Permutation; [exact J1|exact keys_nodup|]. intros x. split; [apply Hincl|apply Hall]. }
    apply removed_ok_intro. intros k c Hin.
    pose proof (zsorted_in_mfind _ _ _ Hs Hin) as Hf.
    assert (Hcnt : c = cntz k (targets_of objs ord)) by (rewrite <- J2; unfold rcount; rewrite Hf; reflexivity).
    pose proof (Hc _ _ Hin) as Hc1.
    assert (Hk : In k (mkeys objs)).
    { assert (Hink : In k (targets_of objs ord)) by (apply cntz_in_pos; lia).
      unfold targets_of in Hink. apply in_flat_map in Hink. destruct Hink as (y & _ & Hky).
      unfold tgt in Hky. destruct (mfind y objs) as [oy|] eqn:Ey; [|destruct Hky].
      apply in_map_iff in Hky. destruct Hky as (l & <- & Hl). eapply targets_exist; eauto. }
    destruct (Hpos k (Hall k Hk)) as (nd & Hnd & _). exists nd. split; [exact Hnd|].
    rewrite (HN k nd Hnd), np_spec, Hcnt. apply targets_cnt_perm. exact HP.
  Qed.
End LoopSpec.

(* ------------------------------------------------------------------------------------------ *)
(* the two heaps                                                                               *)

Lemma heap_push_id_perm x : forall q, Permutation (heap_push_id x q) (x :: q).
Proof.
  induction q as [|y r IH]; cbn [heap_push_id]; [apply Permutation_refl|].
  destruct (x <=? y); [apply Permutation_refl|].
  eapply Permutation_trans; [apply perm_skip; exact IH|apply perm_swap].
Qed.
Lemma heap_push_sd_perm x : forall q, Permutation (heap_push_sd x q) (x :: q).
Proof.
  induction q as [|y r IH]; cbn [heap_push_sd]; [apply Permutation_refl|].
  destruct (sd_before x y); [apply Permutation_refl|].
  eapply Permutation_trans; [apply perm_skip; exact IH|apply perm_swap].
Qed.

Definition np_of (nodes : zmap node) (x : Z) : Z :=
  match mfind x nodes with Some nd => nparents nd | None => 0 end.
Lemma Nnodes_np_of nodes : Nnodes (np_of nodes) nodes.
Proof. intros x nd H. unfold np_of. rewrite H. reflexivity. Qed.

Lemma kahn_sorted fuel objs nodes root nodes' removed' ord :
  kahn_loop fuel objs nodes [root] [] 0 [] tt = Some (nodes', removed', ord) ->
  np_of nodes root = 0 -> removed_ok nodes' removed' = Some true ->
  sorted_ok objs root (np_of nodes) nodes' ord.
Proof.
  intros Hrun Hnp Hok. unfold kahn_loop in Hrun.
  eapply (loop_sorted_ok (list Z) unit kahn_pop kahn_push (fun q => q)); try eassumption; try reflexivity.
  - intros q H. destruct q; [reflexivity|discriminate].
  - intros q id q' H. destruct q; inversion H; subst. apply Permutation_refl.
  - intros nd id s q q' s' H. inversion H; subst. apply heap_push_id_perm.
  - apply Nnodes_np_of.
Qed.

Lemma sd_sorted fuel objs nodes root nodes' removed' ord s0 :
  sd_loop fuel objs nodes [((0, 0, 0), root)] [] 0 [] s0 = Some (nodes', removed', ord) ->
  np_of nodes root = 0 -> removed_ok nodes' removed' = Some true ->
  sorted_ok objs root (np_of nodes) nodes' ord.
Proof.
  intros Hrun Hnp Hok. unfold sd_loop in Hrun.
  eapply (loop_sorted_ok (list (Z * Z * Z * Z)) Z sd_pop sd_push (map snd)); try eassumption; try reflexivity.
  - intros q H. destruct q as [|[? ?] ?]; [reflexivity|discriminate].
  - intros q id q' H. destruct q as [|[? ?] ?]; inversion H; subst. apply Permutation_refl.
  - intros nd id s q q' s' H. unfold sd_push in H.
    destruct (chk_u 32 (s + 1)); cbn [obind] in H; [|discriminate]. inversion H; subst.
    change (id :: map snd q) with (map snd ((modified_distance nd s, id) :: q)).
    apply Permutation_map. apply heap_push_sd_perm.
  - apply Nnodes_np_of.
Qed.

(* ------------------------------------------------------------------------------------------ *)
(* frame lemmas: which functions change which fields of the nodes                              *)

Lemma mfind_map_val {A B} (f : A -> B) k : forall m : zmap A,
  mfind k (map (fun kv => (fst kv, f (snd kv))) m) = option_map f (mfind k m).
Proof.
  induction m as [|[k' v] r IH]; cbn [map mfind fst snd]; [reflexivity|].
  destruct (k =? k'); [reflexivity|exact IH].
Qed.

Definition same_par (n n' : zmap node) : Prop :=
  forall x, option_map n_parents (mfind x n') = option_map n_parents (mfind x n).
Lemma same_par_refl n : same_par n n.
Proof. intros x. reflexivity. Qed.
Lemma same_par_trans a b c : same_par a b -> same_par b c -> same_par a c.
Proof. intros H1 H2 x. rewrite H2, H1. reflexivity. Qed.
Lemma same_par_insert n x nd nd' : mfind x n = Some nd -> n_parents nd' = n_parents nd ->
  same_par n (minsert x nd' n).
Proof.
  intros Hx Hp y. destruct (Z.eq_dec y x) as [->|Hne].
  - rewrite mfind_minsert_same, Hx. cbn. f_equal. exact Hp.
  - rewrite mfind_minsert_other by congruence. reflexivity.
Qed.
Lemma same_par_map n f : (forall nd, n_parents (f nd) = n_parents nd) ->
  same_par n (map (fun kv => (fst kv, f (snd kv))) n).
Proof.
  intros Hf x. rewrite mfind_map_val. destruct (mfind x n); cbn; [f_equal; apply Hf|reflexivity].
Qed.
Lemma same_par_np n n' x : same_par n n' -> np_of n' x = np_of n x.
Proof.
  intros H. unfold np_of, nparents. specialize (H x).
  destruct (mfind x n'), (mfind x n); cbn in H; try discriminate; [inversion H as [E]; rewrite E|]; reflexivity.
Qed.

Lemma dist_links_par nd : forall ls visited nodes q nodes' q',
  dist_links nd ls visited nodes q = Some (nodes', q') -> same_par nodes nodes'.
Proof.
  induction ls as [|l r IH]; intros visited nodes q nodes' q' H; cbn [dist_links] in H.
  - inversion H; subst. apply same_par_refl.
  - destruct (zmem (l_obj l) visited); [eapply IH; exact H|].
    destruct (mfind (l_obj l) nodes) as [child|] eqn:Ec; cbn [obind] in H; [|discriminate].
    destruct (chk_u 32 (nd + n_size child)) as [cd|]; cbn [obind] in H; [|discriminate].
    destruct (cd <? n_dist child).
    + eapply same_par_trans; [|eapply IH; exact H]. eapply same_par_insert; [exact Ec|reflexivity].
    + eapply IH; exact H.
Qed.
Lemma dist_loop_par objs : forall fuel nodes q visited nodes',
  dist_loop fuel objs nodes q visited = Some nodes' -> same_par nodes nodes'.
Proof.
  induction fuel as [|f IH]; intros nodes q visited nodes' H; destruct q as [|[d next_id] q0]; cbn [dist_loop] in H;
    try (inversion H; subst; apply same_par_refl); try discriminate.
  destruct (zmem next_id visited); [eapply IH; exact H|].
  destruct (mfind next_id nodes) as [nd|]; cbn [obind] in H; [|discriminate].
  destruct (mfind next_id objs) as [o|]; cbn [obind] in H; [|discriminate].
  destruct (dist_links (n_dist nd) (o_links o) (next_id :: visited) nodes q0) as [[n1 q1]|] eqn:El; cbn [obind fst snd] in H; [|discriminate].
  eapply same_par_trans; [eapply dist_links_par; exact El|eapply IH; exact H].
Qed.
Lemma update_distances_frame g g' : update_distances g = Some g' ->
  same_par (g_nodes g) (g_nodes g') /\ g_objs g' = g_objs g /\ g_root g' = g_root g /\
  g_parents_invalid g' = g_parents_invalid g.
Proof.
  unfold update_distances. intros H.
  set (nodes0 := map (fun kv => (fst kv, set_dist (snd kv) 4294967295)) (g_nodes g)) in *.
  destruct (mfind (g_root g) nodes0) as [rn|] eqn:Er; cbn [obind] in H; [|discriminate].
  destruct (dist_loop _ _ _ _ _) as [nodes|] eqn:El; cbn [obind] in H; [|discriminate].
  inversion H; subst. cbn. repeat split; auto.
  eapply same_par_trans; [|eapply dist_loop_par; exact El].
  eapply same_par_trans; [apply (same_par_map (g_nodes g) (fun nd => set_dist nd 4294967295)); reflexivity|].
  eapply same_par_insert; [exact Er|reflexivity].
Qed.

Lemma space0_loop_par objs : forall fuel nodes stack nodes',
  space0_loop fuel objs nodes stack = Some nodes' -> same_par nodes nodes'.
Proof.
  induction fuel as [|f IH]; intros nodes stack nodes' H; destruct stack as [|next st]; cbn [space0_loop] in H;
    try (inversion H; subst; apply same_par_refl); try discriminate.
  destruct (mfind next nodes) as [nd|] eqn:En; [|eapply IH; exact H].
  destruct (negb (n_space nd =? 0)); [|eapply IH; exact H].
  eapply same_par_trans; [|eapply IH; exact H]. eapply same_par_insert; [exact En|reflexivity].
Qed.
Lemma assign_space_0_frame g g' : assign_space_0 g = Some g' ->
  same_par (g_nodes g) (g_nodes g') /\ g_objs g' = g_objs g /\ g_root g' = g_root g /\
  g_parents_invalid g' = g_parents_invalid g.
Proof.
  unfold assign_space_0. intros H.
  destruct (space0_loop _ _ _ _) as [nodes|] eqn:El; cbn [obind] in H; [|discriminate].
  inversion H; subst. cbn. repeat split; auto. eapply space0_loop_par; exact El.
Qed.

(* update_parents: a node nobody links to ends with an empty parent list *)
Lemma add_parents_links_other x id : forall ls nodes nodes',
  add_parents_links id ls nodes = Some nodes' -> (forall l, In l ls -> l_obj l <> x) ->
  mfind x nodes' = mfind x nodes.
Proof.
  induction ls as [|l r IH]; intros nodes nodes' H Hne; cbn [add_parents_links] in H.
  - inversion H; reflexivity.
  - destruct (mfind (l_obj l) nodes) as [nd|]; cbn [obind] in H; [|discriminate].
    rewrite (IH _ _ H) by (intros l' Hl'; apply Hne; right; exact Hl').
    apply mfind_minsert_other. apply Hne. left. reflexivity.
Qed.
Lemma add_parents_objs_other x : forall objs nodes nodes',
  add_parents_objs objs nodes = Some nodes' ->
  (forall id o l, In (id, o) objs -> In l (o_links o) -> l_obj l <> x) ->
  mfind x nodes' = mfind x nodes.
Proof.
  induction objs as [|[id o] r IH]; intros nodes nodes' H Hne; cbn [add_parents_objs] in H.
  - inversion H; reflexivity.
  - destruct (add_parents_links id (o_links o) nodes) as [n1|] eqn:E; cbn [obind] in H; [|discriminate].
    rewrite (IH _ _ H) by (intros id' o' l Hin Hl; eapply Hne; [right; exact Hin|exact Hl]).
    eapply add_parents_links_other; [exact E|]. intros l Hl. eapply Hne; [left; reflexivity|exact Hl].
Qed.

Definition no_link_to (objs : zmap obj) (x : Z) : Prop :=
  forall id o l, In (id, o) objs -> In l (o_links o) -> l_obj l <> x.

Lemma update_parents_frame g g1 : update_parents g = Some g1 ->
  g_objs g1 = g_objs g /\ g_root g1 = g_root g /\ g_order g1 = g_order g /\ g_parents_invalid g1 = false /\
  (g_parents_invalid g = false -> g1 = g) /\
  (g_parents_invalid g = true -> no_link_to (g_objs g) (g_root g) -> np_of (g_nodes g1) (g_root g) = 0) /\
  (forall x nd1, mfind x (g_nodes g1) = Some nd1 -> exists nd, mfind x (g_nodes g) = Some nd /\ n_pos nd1 = n_pos nd).
Proof.
  unfold update_parents. intros H. destruct (g_parents_invalid g) eqn:Ei; cbn [negb] in H.
  - set (cleared := map (fun kv => (fst kv, clear_parents (snd kv))) (g_nodes g)) in *.
    destruct (add_parents_objs (g_objs g) cleared) as [nodes|] eqn:Ea; cbn [obind] in H; [|discriminate].
    inversion H; subst; cbn. repeat split; auto; try discriminate.
    + intros _ Hno. unfold np_of. rewrite (add_parents_objs_other _ _ _ _ Ea Hno).
      unfold cleared. rewrite mfind_map_val. destruct (mfind (g_root g) (g_nodes g)); reflexivity.
    + (* positions are untouched: generic argument on add_parents *)
      assert (Hgen : forall objs n n', add_parents_objs objs n = Some n' ->
                forall x nd', mfind x n' = Some nd' -> exists nd, mfind x n = Some nd /\ n_pos nd' = n_pos nd).
      { clear. induction objs as [|[id o] r IH]; intros n n' H x nd' Hx; cbn [add_parents_objs] in H.
        - inversion H; subst. eauto.
        - destruct (add_parents_links id (o_links o) n) as [n1|] eqn:E; cbn [obind] in H; [|discriminate].
          destruct (IH _ _ H x nd' Hx) as (nd1 & H1 & P1). rewrite P1.
          clear - E H1. revert n n1 E nd1 H1. induction (o_links o) as [|l ls IHl]; intros n n1 E nd1 H1; cbn [add_parents_links] in E.
          + inversion E; subst. eauto.
          + destruct (mfind (l_obj l) n) as [ndl|] eqn:El; cbn [obind] in E; [|discriminate].
            destruct (IHl _ _ E nd1 H1) as (nd2 & H2 & P2). rewrite P2.
            destruct (Z.eq_dec x (l_obj l)) as [->|Hne].
            * rewrite mfind_minsert_same in H2. inversion H2; subst. exists ndl. split; [exact El|reflexivity].
            * rewrite mfind_minsert_other in H2 by congruence. eauto. }
      intros x nd1 Hx. destruct (Hgen _ _ _ Ea x nd1 Hx) as (ndc & Hc & Pc).
      unfold cleared in Hc. rewrite mfind_map_val in Hc.
      destruct (mfind x (g_nodes g)) as [nd|]; cbn in Hc; [|discriminate]. inversion Hc; subst.
      exists nd. split; [reflexivity|]. rewrite Pc. reflexivity.
  - inversion H; subst. repeat split; auto; try discriminate. intros x nd1 Hx. eauto.
Qed.

(* ------------------------------------------------------------------------------------------ *)
(* sort_kahn / sort_shortest_distance / basic_sort / pack_objects                              *)

Definition Side (objs : zmap obj) (root : Z) (g : graph) : Prop :=
  g_objs g = objs /\ g_root g = root /\ (g_parents_invalid g = false -> np_of (g_nodes g) root = 0).

Lemma np_of_from_sorted objs root np nodes ord : sorted_ok objs root np nodes ord -> np root = 0 ->
  np_of nodes root = 0.
Proof.
  intros S H. unfold np_of. destruct (mfind root nodes) as [nd|] eqn:E; [|reflexivity].
  rewrite (so_np _ _ _ _ _ S root nd E). exact H.
Qed.

Lemma sort_kahn_sorted objs root g g' : Side objs root g -> no_link_to objs root ->
  sort_kahn g = Some g' -> (1 < length (g_nodes g))%nat ->
  Side objs root g' /\ exists np, sorted_ok objs root np (g_nodes g') (g_order g').
Proof.
  intros (Ho & Hr & Hnp) Hno H Hlen. unfold sort_kahn in H.
  destruct (length (g_nodes g) <=? 1)%nat eqn:E; [apply Nat.leb_le in E; lia|].
  destruct (update_parents g) as [g1|] eqn:Eu; cbn [obind] in H; [|discriminate].
  destruct (update_parents_frame _ _ Eu) as (Ho1 & Hr1 & _ & Hv1 & Hsame & Hnp1 & _).
  destruct (kahn_loop _ _ _ _ _ _ _ _) as [[[nodes removed] order]|] eqn:El; cbn [obind] in H; [|discriminate].
  destruct (removed_ok nodes removed) as [ok|] eqn:Eok; cbn [obind] in H; [|discriminate].
  destruct ok; [|discriminate]. inversion H; subst g'. cbn [g_nodes g_order g_objs g_root g_parents_invalid].
  assert (Hnp0 : np_of (g_nodes g1) root = 0).
  { destruct (g_parents_invalid g) eqn:Ei.
    - rewrite <- Hr. apply Hnp1; [reflexivity|]. rewrite Ho, Hr. exact Hno.
    - rewrite (Hsame eq_refl). apply Hnp. reflexivity. }
  rewrite Ho1, Hr1, Ho, Hr in *.
  pose proof (kahn_sorted _ _ _ _ _ _ _ El Hnp0 Eok) as Hs.
  split; [|eexists; exact Hs].
  split; [reflexivity|]. split; [reflexivity|]. intros _. eapply np_of_from_sorted; [exact Hs|exact Hnp0].
Qed.

Lemma sort_sd_sorted objs root g g' : Side objs root g -> no_link_to objs root ->
  sort_shortest_distance g = Some g' ->
  Side objs root g' /\ exists np, sorted_ok objs root np (g_nodes g') (g_order g').
Proof.
  intros (Ho & Hr & Hnp) Hno H. unfold sort_shortest_distance in H.
  destruct (update_parents g) as [g1|] eqn:Eu; cbn [obind] in H; [|discriminate].
  destruct (update_parents_frame _ _ Eu) as (Ho1 & Hr1 & _ & Hv1 & Hsame & Hnp1 & _).
  destruct (update_distances g1) as [g2|] eqn:Ed; cbn [obind] in H; [|discriminate].
  destruct (update_distances_frame _ _ Ed) as (Hp2 & Ho2 & Hr2 & _).
  destruct (assign_space_0 g2) as [g3|] eqn:Es; cbn [obind] in H; [|discriminate].
  destruct (assign_space_0_frame _ _ Es) as (Hp3 & Ho3 & Hr3 & _).
  destruct (sd_loop _ _ _ _ _ _ _ _) as [[[nodes removed] order]|] eqn:El; cbn [obind] in H; [|discriminate].
  destruct (removed_ok nodes removed) as [ok|] eqn:Eok; cbn [obind] in H; [|discriminate].
  destruct ok; [|discriminate]. inversion H; subst g'. cbn [g_nodes g_order g_objs g_root g_parents_invalid].
  assert (Hnp0 : np_of (g_nodes g1) root = 0).
  { destruct (g_parents_invalid g) eqn:Ei.
    - rewrite <- Hr. apply Hnp1; [reflexivity|]. rewrite Ho, Hr. exact Hno.
    - rewrite (Hsame eq_refl). apply Hnp. reflexivity. }
  assert (Hnp3 : np_of (g_nodes g3) root = 0).
  { rewrite (same_par_np _ _ _ Hp3), (same_par_np _ _ _ Hp2). exact Hnp0. }
  rewrite Ho3, Hr3, Ho2, Hr2, Ho1, Hr1, Ho, Hr in *.
  pose proof (sd_sorted _ _ _ _ _ _ _ _ El Hnp3 Eok) as Hs.
  split; [|eexists; exact Hs].
  split; [reflexivity|]. split; [reflexivity|]. intros _. eapply np_of_from_sorted; [exact Hs|exact Hnp3].
Qed.

(* hypotheses on the object map: what TableWriter guarantees for every compiled table *)
Definition graph_hyps (objs : zmap obj) (root : Z) : Prop :=
  (exists o, mfind root objs = Some o) /\ no_link_to objs root /\
  (forall id o, In (id, o) objs -> obj_wf o /\ forall l, In l (o_links o) -> l_adj l = 0).

Lemma sorted_layout_ok objs root np nodes ord :
  sorted_ok objs root np nodes ord -> overflow_objs nodes objs = Some false -> graph_hyps objs root ->
  layout_ok objs ord.
Proof.
  intros S Hov (_ & _ & Hwf). constructor.
  - destruct (so_root _ _ _ _ _ S) as (r & ->). discriminate.
  - exact (so_nodup _ _ _ _ _ S).
  - intros id Hid. destruct (so_objs _ _ _ _ _ S id Hid) as (o & Ho). exists o. split; [exact Ho|].
    apply (Hwf id o (mfind_In _ _ _ Ho)).
  - exact (so_closed _ _ _ _ _ S).
  - exact (so_size _ _ _ _ _ S).
  - intros id o l Hid Ho Hl.
    destruct (Hwf id o (mfind_In _ _ _ Ho)) as (_ & Hadj). rewrite (Hadj l Hl).
    destruct (overflow_objs_false _ _ Hov id o (mfind_In _ _ _ Ho)) as (p & Hp & Hlinks).
    destruct (Hlinks l Hl) as (c & Hc & Hrange).
    destruct (so_pos _ _ _ _ _ S id Hid) as (p' & Hp' & Hpp). rewrite Hp in Hp'. inversion Hp'; subst p'.
    destruct (so_pos _ _ _ _ _ S (l_obj l) (so_closed _ _ _ _ _ S id o l Hid Ho Hl)) as (c' & Hc' & Hcp).
    rewrite Hc in Hc'. inversion Hc'; subst c'. lia.
  - exact (so_topo _ _ _ _ _ S).
Qed.

(* from_objects *)
Lemma nodes_of_objs_spec : forall objs nodes, nodes_of_objs objs = Some nodes ->
  mkeys nodes = mkeys objs /\
  (forall id nd, mfind id nodes = Some nd -> n_pos nd = 0) /\
  (forall id o, In (id, o) objs -> blen (o_bytes o) < 2 ^ 32).
Proof.
  induction objs as [|[k o] r IH]; intros nodes H; cbn [nodes_of_objs] in H.
  - inversion H; subst. repeat split; auto; try discriminate. intros ? ? [].
  - destruct (chk_u 32 (blen (o_bytes o))) as [sz|] eqn:E; cbn [obind] in H; [|discriminate].
    destruct (nodes_of_objs r) as [rest|]; cbn [obind] in H; [|discriminate]. inversion H; subst.
    destruct (IH _ eq_refl) as (Hk & Hp & Hs). split; [cbn; f_equal; exact Hk|]. split.
    + intros id nd Hf. cbn [mfind] in Hf. destruct (id =? k); [inversion Hf; reflexivity|eapply Hp; exact Hf].
    + intros id o' [Heq|Hin]; [inversion Heq; subst|eapply Hs; exact Hin].
      unfold chk_u, in_u in E. destruct ((0 <=? blen (o_bytes o')) && (blen (o_bytes o') <? 2 ^ 32)) eqn:E2; [lia|discriminate].
Qed.

Lemma mfind_in_keys {A} k (v : A) m : mfind k m = Some v -> In k (mkeys m).
Proof. intros H. apply mfind_In in H. unfold mkeys. apply (in_map fst) in H. exact H. Qed.

(* the `nodes.len() <= 1` shortcut of sort_kahn on a fresh graph *)
Lemma shortcut_layout_ok objs root g g' : from_objects objs root = Some g -> graph_hyps objs root ->
  sort_kahn g = Some g' -> (length (g_nodes g) <= 1)%nat -> has_overflows g' <> None ->
  g_order g' = [root] /\ layout_ok objs [root] /\ Side objs root g' /\ has_overflows g' = Some false.
Proof.
  intros Hfrom (Hroot & Hno & Hwf) Hk Hlen Hov.
  unfold from_objects in Hfrom. destruct (nodes_of_objs objs) as [nodes|] eqn:En; cbn [obind] in Hfrom; [|discriminate].
  inversion Hfrom; subst g. cbn [g_nodes] in *.
  destruct (nodes_of_objs_spec _ _ En) as (Hkeys & Hpos & Hsz).
  unfold sort_kahn in Hk. cbn [g_nodes g_order] in Hk.
  destruct (length nodes <=? 1)%nat eqn:E; [|apply Nat.leb_gt in E; lia].
  inversion Hk; subst g'. unfold set_order in *. cbn [g_objs g_nodes g_order g_root g_parents_invalid app] in *.
  destruct Hroot as (o & Ho).
  assert (Hobjs : objs = [(root, o)]).
  { pose proof (mfind_in_keys _ _ _ Ho) as Hin.
    assert (Hl : (length objs <= 1)%nat).
    { rewrite <- (map_length fst objs). fold (mkeys objs). rewrite <- Hkeys. unfold mkeys. rewrite map_length. exact Hlen. }
    destruct objs as [|[k o1] [|? ?]]; cbn in Hl, Hin, Ho; try lia; try (destruct Hin; fail).
    destruct Hin as [<-|[]]. rewrite Z.eqb_refl in Ho. inversion Ho; subst. reflexivity. }
  subst objs. cbn in Hkeys.
  assert (Hnodes : exists nd, nodes = [(root, nd)]).
  { destruct nodes as [|[k nd] [|? ?]]; cbn in Hkeys; try discriminate. inversion Hkeys; subst. eauto. }
  destruct Hnodes as (nd & ->).
  (* the root has no links: a link target would need a node, i.e. be the root itself *)
  assert (Hnl : o_links o = []).
  { destruct (o_links o) as [|l ls] eqn:El; [reflexivity|]. exfalso.
    unfold has_overflows in Hov. cbn [g_nodes g_objs overflow_objs mfind] in Hov.
    rewrite Z.eqb_refl in Hov. cbn [obind] in Hov. rewrite El in Hov. cbn [overflow_links mfind] in Hov.
    destruct (l_obj l =? root) eqn:Et.
    - eapply (Hno root o l); [left; reflexivity|rewrite El; left; reflexivity|lia].
    - cbn [obind] in Hov. apply Hov. reflexivity. }
  split; [reflexivity|].
  assert (Hsize : total_size [(root, o)] [root] < 2 ^ 32).
  { cbn [total_size]. unfold size_of. cbn [mfind]. rewrite Z.eqb_refl.
    pose proof (Hsz root o (or_introl eq_refl)). lia. }
  split; [|split].
  - constructor.
    + discriminate.
    + repeat constructor. intros [].
    + intros id [<-|[]]. exists o. split; [cbn; rewrite Z.eqb_refl; reflexivity|]. apply (Hwf root o). left. reflexivity.
    + intros id o' l [<-|[]] Ho' Hl. cbn in Ho'. rewrite Z.eqb_refl in Ho'. inversion Ho'; subst. rewrite Hnl in Hl. destruct Hl.
    + exact Hsize.
    + intros id o' l [<-|[]] Ho' Hl. cbn in Ho'. rewrite Z.eqb_refl in Ho'. inversion Ho'; subst. rewrite Hnl in Hl. destruct Hl.
    + intros id o' l [<-|[]] Ho' Hl. cbn in Ho'. rewrite Z.eqb_refl in Ho'. inversion Ho'; subst. rewrite Hnl in Hl. destruct Hl.
  - split; [reflexivity|]. split; [reflexivity|]. discriminate.
  - unfold has_overflows. cbn [g_nodes g_objs overflow_objs mfind]. rewrite Z.eqb_refl. cbn [obind].
    rewrite Hnl. reflexivity.
Qed.

Lemma from_objects_side objs root g : from_objects objs root = Some g -> Side objs root g /\ g_order g = [].
Proof.
  unfold from_objects. destruct (nodes_of_objs objs); cbn [obind]; [|discriminate].
  intros H. inversion H; subst. cbn. repeat split; auto. discriminate.
Qed.

(* every graph pack_objects reports as packed has a layout satisfying the gate theorem's hypotheses *)
Theorem pack_layout_ok objs root g g' : from_objects objs root = Some g -> graph_hyps objs root ->
  pack_objects g = Some (g', Packed) ->
  g_objs g' = objs /\ layout_ok objs (g_order g') /\ exists r, g_order g' = root :: r.
Proof.
  intros Hfrom Hyp Hpack.
  destruct (from_objects_side _ _ _ Hfrom) as (Hside & Hord0).
  pose proof Hyp as (Hroot & Hno & Hwf).
  assert (Hfin : forall gx, Side objs root gx -> has_overflows gx = Some false ->
            (exists np, sorted_ok objs root np (g_nodes gx) (g_order gx)) ->
            g_objs gx = objs /\ layout_ok objs (g_order gx) /\ exists r, g_order gx = root :: r).
  { intros gx (Hox & _) Hov (np & S). split; [exact Hox|]. split.
    - eapply sorted_layout_ok; [exact S| |exact Hyp]. unfold has_overflows in Hov. rewrite Hox in Hov. exact Hov.
    - exact (so_root _ _ _ _ _ S). }
  unfold pack_objects, basic_sort in Hpack.
  destruct (sort_kahn g) as [g1|] eqn:Ek; cbn [obind] in Hpack; [|discriminate].
  destruct (has_overflows g1) as [ov|] eqn:E1; cbn [obind] in Hpack; [|discriminate].
  (* facts about the Kahn result, with or without the shortcut *)
  assert (Hk : Side objs root g1 /\
               ((exists np, sorted_ok objs root np (g_nodes g1) (g_order g1)) \/
                (g_order g1 = [root] /\ layout_ok objs [root] /\ has_overflows g1 = Some false))).
  { destruct (Nat.le_gt_cases (length (g_nodes g)) 1) as [Hle|Hgt].
    - destruct (shortcut_layout_ok _ _ _ _ Hfrom Hyp Ek Hle) as (Ho1 & L1 & S1 & Hov1); [rewrite E1; discriminate|].
      split; [exact S1|]. right. auto.
    - destruct (sort_kahn_sorted _ _ _ _ Hside Hno Ek Hgt) as (S1 & Hs). split; [exact S1|]. left. exact Hs. }
  destruct Hk as (Hside1 & Hk).
  destruct ov; cbn [negb] in Hpack.
  - destruct (sort_shortest_distance g1) as [g2|] eqn:Es; cbn [obind] in Hpack; [|discriminate].
    destruct (sort_sd_sorted _ _ _ _ Hside1 Hno Es) as (Hside2 & Hs2).
    destruct (has_overflows g2) as [ov2|] eqn:E2; cbn [obind] in Hpack; [|discriminate].
    destruct ov2; cbn [negb] in Hpack.
    + destruct (has_wide_link (g_objs g2)); [discriminate|].
      destruct (sort_shortest_distance g2) as [g3|] eqn:Es3; cbn [obind] in Hpack; [|discriminate].
      destruct (sort_sd_sorted _ _ _ _ Hside2 Hno Es3) as (Hside3 & Hs3).
      destruct (has_overflows g3) as [ov3|] eqn:E3; cbn [obind] in Hpack; [|discriminate].
      destruct ov3; cbn [negb] in Hpack; [discriminate|]. inversion Hpack; subst g'.
      apply Hfin; assumption.
    + inversion Hpack; subst g'. apply Hfin; assumption.
  - inversion Hpack; subst g'. destruct Hk as [Hs|(Ho1 & L1 & _)].
    + apply Hfin; assumption.
    + destruct Hside1 as (Hox & _). rewrite Ho1. split; [exact Hox|]. split; [exact L1|]. eauto.
Qed.

(* THE end-to-end statement for the modelled packer: whenever pack_objects reports success on the graph
   of an object map satisfying graph_hyps, serialize succeeds and the root resolves at position 0 *)
Theorem pack_success_resolves objs root g g' : from_objects objs root = Some g -> graph_hyps objs root ->
  pack_objects g = Some (g', Packed) ->
  exists out, serialize g' = Some out /\ blen out = total_size objs (g_order g') /\
    Resolves objs out 0 root /\
    (forall id, In id (g_order g') -> Resolves objs out (posof objs (g_order g') id) id).
Proof.
  intros Hfrom Hyp Hpack.
  destruct (pack_layout_ok _ _ _ _ Hfrom Hyp Hpack) as (Ho & L & (r & Hr)).
  destruct (serialize_sound_lemma _ _ L) as (out & Hs & Hl & Hres & _).
  exists out. unfold serialize. rewrite Ho. repeat split; auto.
  specialize (Hres root). rewrite Hr in Hres. cbn [posof] in Hres. rewrite Z.eqb_refl in Hres.
  apply Hres. left. reflexivity.
Qed.

Theorem dump_graph_resolves objs root out : graph_hyps objs root -> dump_graph objs root = RBytes out ->
  Resolves objs out 0 root.
Proof.
  intros Hyp H. destruct (dump_graph_bytes _ _ _ H) as (g & g' & Hfrom & Hpack & _ & Hser).
  destruct (pack_success_resolves _ _ _ _ Hfrom Hyp Hpack) as (out' & Hs & _ & Hr & _).
  rewrite Hser in Hs. inversion Hs; subst. exact Hr.
Qed.

Lemma graph_hypsb_sound objs root : graph_hypsb objs root = true -> graph_hyps objs root.
Proof.
  unfold graph_hypsb. intros H. apply andb_prop in H. destruct H as (H1 & H2).
  rewrite forallb_forall in H2.
  assert (Hall : forall id o, In (id, o) objs -> obj_wf o /\
            forall l, In l (o_links o) -> l_obj l <> root /\ l_adj l = 0).
  { intros id o Hin. specialize (H2 (id, o) Hin). cbn [snd] in H2. apply andb_prop in H2. destruct H2 as (Hw & Hl).
    split; [apply links_wfb_sound; exact Hw|]. rewrite forallb_forall in Hl. intros l Hin'.
    specialize (Hl l Hin'). apply andb_prop in Hl. destruct Hl as (Ha & Hb).
    split; [|lia]. intro E. rewrite E, Z.eqb_refl in Ha. discriminate. }
  split; [|split].
  - destruct (mfind root objs) as [o|]; [eauto|discriminate].
  - intros id o l Hin Hl. apply (Hall id o Hin). exact Hl.
  - intros id o Hin. split; [apply (Hall id o Hin)|]. intros l Hl. apply (Hall id o Hin). exact Hl.
Qed.

(* reachability: when every object is reachable from the root the order lists all objects *)
Inductive reach (objs : zmap obj) (root : Z) : Z -> Prop :=
| reach_root : reach objs root root
| reach_step : forall id o l, reach objs root id -> mfind id objs = Some o -> In l (o_links o) ->
    reach objs root (l_obj l).
Lemma sorted_lists_reachable objs root np nodes ord : sorted_ok objs root np nodes ord ->
  forall x, reach objs root x -> In x ord.
Proof.
  intros S x R. induction R as [|id o l R IH Ho Hl].
  - destruct (so_root _ _ _ _ _ S) as (r & ->). left. reflexivity.
  - exact (so_closed _ _ _ _ _ S id o l IH Ho Hl).
Qed.

(* sort_kahn, partial correctness, stated on fresh graphs: IF it returns (no panic) then the order is a
   duplicate-free listing that starts with the root, contains every object reachable from the root,
   puts every parent before each child, and the recorded positions are the prefix sums. *)
Theorem kahn_order_topological_partial objs root g g' :
  from_objects objs root = Some g -> no_link_to objs root -> (1 < length objs)%nat ->
  sort_kahn g = Some g' ->
  NoDup (g_order g') /\ (exists r, g_order g' = root :: r) /\
  (forall x, reach objs root x -> In x (g_order g')) /\
  (forall id o l, In id (g_order g') -> mfind id objs = Some o -> In l (o_links o) ->
     precedes (g_order g') id (l_obj l)) /\
  positions_match g'.
Proof.
  intros Hfrom Hno Hlen Hk.
  destruct (from_objects_side _ _ _ Hfrom) as (Hside & _).
  assert (Hl : (1 < length (g_nodes g))%nat).
  { unfold from_objects in Hfrom. destruct (nodes_of_objs objs) as [nodes|] eqn:En; cbn [obind] in Hfrom; [|discriminate].
    inversion Hfrom; subst. cbn. destruct (nodes_of_objs_spec _ _ En) as (Hkeys & _).
    rewrite <- (map_length fst nodes). fold (mkeys nodes). rewrite Hkeys. unfold mkeys. rewrite map_length. exact Hlen. }
  destruct (sort_kahn_sorted _ _ _ _ Hside Hno Hk Hl) as ((Ho' & _) & np & S).
  split; [exact (so_nodup _ _ _ _ _ S)|]. split; [exact (so_root _ _ _ _ _ S)|].
  split; [exact (sorted_lists_reachable _ _ _ _ _ S)|]. split; [exact (so_topo _ _ _ _ _ S)|].
  intros id Hid. rewrite Ho'. exact (so_pos _ _ _ _ _ S id Hid).
Qed.

(* ------------------------------------------------------------------------------------------ *)
(* totality of sort_kahn                                                                       *)

Definition all_targets_list (l : zmap obj) : list Z := flat_map (fun kv => map l_obj (o_links (snd kv))) l.
Definition has (nodes : zmap node) (x : Z) : Prop := exists nd, mfind x nodes = Some nd.

Lemma cntz_cons x y l : cntz x (y :: l) = cntz x [y] + cntz x l.
Proof. change (y :: l) with ([y] ++ l). apply cntz_app. Qed.

Lemma add_parents_links_total id : forall ls nodes, (forall l, In l ls -> has nodes (l_obj l)) ->
  exists nodes', add_parents_links id ls nodes = Some nodes' /\ (forall x, has nodes' x <-> has nodes x) /\
    forall x, np_of nodes' x = np_of nodes x + cntz x (map l_obj ls).
Proof.
  induction ls as [|l r IH]; intros nodes Hh.
  - exists nodes. split; [reflexivity|]. split; [intros; reflexivity|]. intros x. cbn. lia.
  - destruct (Hh l (or_introl eq_refl)) as (nd & End). cbn [add_parents_links]. rewrite End. cbn [obind].
    set (t := l_obj l) in *. set (nodes1 := minsert t (push_parent nd (id, l_width l)) nodes).
    assert (Hhas1 : forall x, has nodes1 x <-> has nodes x).
    { intros x. unfold has, nodes1. destruct (Z.eq_dec x t) as [->|Hne].
      - rewrite mfind_minsert_same. split; eauto.
      - rewrite mfind_minsert_other by congruence. reflexivity. }
    destruct (IH nodes1) as (nodes' & Hrun & Hhas & Hcnt).
    { intros l' Hl'. apply Hhas1. apply Hh. right. exact Hl'. }
    exists nodes'. split; [exact Hrun|]. split; [intros x; rewrite Hhas; apply Hhas1|].
    intros x. rewrite Hcnt. cbn [map]. fold t. rewrite (cntz_cons x t).
    assert (E : np_of nodes1 x = np_of nodes x + cntz x [t]).
    { unfold np_of, nodes1. destruct (Z.eq_dec x t) as [->|Hne].
      - rewrite mfind_minsert_same, End, cntz_single_same. unfold nparents, push_parent. cbn. rewrite app_length. cbn. lia.
      - rewrite mfind_minsert_other by congruence. rewrite cntz_single_other by exact Hne. lia. }
    lia.
Qed.

Lemma add_parents_objs_total : forall (l : zmap obj) nodes,
  (forall id o lk, In (id, o) l -> In lk (o_links o) -> has nodes (l_obj lk)) ->
  exists nodes', add_parents_objs l nodes = Some nodes' /\ (forall x, has nodes' x <-> has nodes x) /\
    forall x, np_of nodes' x = np_of nodes x + cntz x (all_targets_list l).
Proof.
  induction l as [|[id o] r IH]; intros nodes Hh.
  - exists nodes. split; [reflexivity|]. split; [intros; reflexivity|]. intros x. cbn. lia.
  - cbn [add_parents_objs].
    destruct (add_parents_links_total id (o_links o) nodes) as (n1 & Hr1 & Hh1 & Hc1).
    { intros lk Hlk. eapply Hh; [left; reflexivity|exact Hlk]. }
    rewrite Hr1. cbn [obind].
    destruct (IH n1) as (n2 & Hr2 & Hh2 & Hc2).
    { intros id' o' lk Hin Hlk. apply Hh1. eapply Hh; [right; exact Hin|exact Hlk]. }
    exists n2. split; [exact Hr2|]. split; [intros x; rewrite Hh2; apply Hh1|].
    intros x. rewrite Hc2, Hc1. unfold all_targets_list. cbn [flat_map snd]. rewrite cntz_app. lia.
Qed.

Lemma all_targets_keys (objs : zmap obj) : NoDup (mkeys objs) ->
  targets_of objs (mkeys objs) = all_targets_list objs.
Proof.
  intros Hnd. unfold targets_of, all_targets_list, mkeys. rewrite flat_map_concat_map, map_map.
  rewrite (flat_map_concat_map (fun kv => map l_obj (o_links (snd kv)))). f_equal.
  apply map_ext_in. intros [k o] Hin. cbn [fst snd]. unfold tgt.
  rewrite (mfind_of_In_nodup k o objs Hnd Hin). reflexivity.
Qed.

Lemma nodes_of_objs_has : forall objs nodes, nodes_of_objs objs = Some nodes ->
  forall x, has nodes x <-> In x (mkeys objs).
Proof.
  intros objs nodes H x. destruct (nodes_of_objs_spec _ _ H) as (Hk & _). rewrite <- Hk. unfold has. split.
  - intros (nd & Hnd). eapply mfind_in_keys_local. exact Hnd.
  - intros Hin. apply in_keys_mfind. exact Hin.
Qed.

(* hypotheses of the totality theorem *)
Record dag_ok (objs : zmap obj) (root : Z) (rk : Z -> nat) : Prop := {
  dk_nodup : NoDup (mkeys objs);
  dk_root : In root (mkeys objs);
  dk_targets : forall id o l, mfind id objs = Some o -> In l (o_links o) -> In (l_obj l) (mkeys objs);
  dk_acyclic : forall id o l, mfind id objs = Some o -> In l (o_links o) -> (rk id < rk (l_obj l))%nat;
  dk_reach : forall x, In x (mkeys objs) -> reach objs root x;
  dk_noroot : no_link_to objs root;
  dk_size : total_size objs (mkeys objs) < 2 ^ 32 }.

Theorem sort_kahn_total objs root rk g : from_objects objs root = Some g -> dag_ok objs root rk ->
  (1 < length objs)%nat ->
  exists g', sort_kahn g = Some g' /\ Permutation (g_order g') (mkeys objs).
Proof.
  intros Hfrom D Hlen.
  pose proof Hfrom as Hfrom'. unfold from_objects in Hfrom'.
  destruct (nodes_of_objs objs) as [nodes0|] eqn:En; cbn [obind] in Hfrom'; [|discriminate].
  inversion Hfrom'; subst g. clear Hfrom'.
  pose proof (nodes_of_objs_has _ _ En) as Hhas0.
  destruct (nodes_of_objs_spec _ _ En) as (Hkeys0 & _ & _).
  assert (Hlen0 : length nodes0 = length objs).
  { rewrite <- (map_length fst nodes0), <- (map_length fst objs). fold (mkeys nodes0) (mkeys objs). rewrite Hkeys0. reflexivity. }
  unfold sort_kahn. cbn [g_nodes g_order g_objs g_root g_parents_invalid].
  destruct (length nodes0 <=? 1)%nat eqn:E; [apply Nat.leb_le in E; lia|].
  (* update_parents *)
  unfold update_parents. cbn [g_parents_invalid g_nodes g_objs g_order g_root negb].
  set (cleared := map (fun kv => (fst kv, clear_parents (snd kv))) nodes0).
  assert (Hhasc : forall x, has cleared x <-> In x (mkeys objs)).
  { intros x. rewrite <- Hhas0. unfold has, cleared. rewrite mfind_map_val.
    destruct (mfind x nodes0); cbn; split; intros (nd & H); try discriminate; eauto. }
  assert (Hnpc : forall x, np_of cleared x = 0).
  { intros x. unfold np_of, cleared. rewrite mfind_map_val. destruct (mfind x nodes0); reflexivity. }
  destruct (add_parents_objs_total objs cleared) as (nodes1 & Hr1 & Hh1 & Hc1).
  { intros id o lk Hin Hlk. apply Hhasc. eapply (dk_targets _ _ _ D); [apply mfind_of_In_nodup; [exact (dk_nodup _ _ _ D)|exact Hin]|exact Hlk]. }
  rewrite Hr1. cbn [obind g_nodes g_objs g_root].
  set (np := np_of nodes1).
  assert (Hnp_spec : forall x, np x = cntz x (targets_of objs (mkeys objs))).
  { intros x. unfold np. rewrite Hc1, Hnpc, (all_targets_keys objs (dk_nodup _ _ _ D)). lia. }
  assert (Hnp_root : np root = 0).
  { rewrite Hnp_spec, (all_targets_keys objs (dk_nodup _ _ _ D)).
    pose proof (cntz_nonneg root (all_targets_list objs)) as Hnn.
    destruct (Z.eq_dec (cntz root (all_targets_list objs)) 0) as [E0|E0]; [exact E0|exfalso].
    assert (Hin : In root (all_targets_list objs)) by (apply cntz_in_pos; lia).
    unfold all_targets_list in Hin. apply in_flat_map in Hin. destruct Hin as ([k o] & Hko & Hl).
    apply in_map_iff in Hl. destruct Hl as (l & Hl1 & Hl2). exact (dk_noroot _ _ _ D k o l Hko Hl2 Hl1). }
  assert (Hhas_parent : forall x, In x (mkeys objs) -> x <> root -> 1 <= np x).
  { intros x Hx Hne. rewrite Hnp_spec. apply cntz_pos_in.
    pose proof (dk_reach _ _ _ D x Hx) as R. inversion R as [E'|id o l R' Ho Hl E']; [congruence|].
    unfold targets_of. apply in_flat_map. exists id. split; [eapply mfind_in_keys_local; exact Ho|].
    unfold tgt. rewrite Ho. apply in_map. exact Hl. }
  assert (Hnodes1 : forall x, In x (mkeys objs) -> exists nd, mfind x nodes1 = Some nd).
  { intros x Hx. apply Hh1. apply Hhasc. exact Hx. }
  (* the loop *)
  set (fuel := (2 + length nodes1 + total_links objs)%nat).
  assert (HI0 : Inv (list Z) (fun q => q) objs root np nodes1 [root] [] 0 []).
  { split; [apply Nnodes_np_of|]. split.
    - split; [cbn [app]; repeat constructor; intros []|]. split.
      + intros x. reflexivity.
      + intros x. cbn [app targets_of flat_map]. rewrite cntz_nil. split.
        * intros [<-|[]]. left. reflexivity.
        * intros [->|Hx]; [left; reflexivity|lia].
    - split; [reflexivity|]. split; [lia|]. split; intros id []. }
  assert (HE0 : Ext (list Z) (fun q => q) objs nodes1 [root] []).
  { split; [exact Hnodes1|]. intros x [<-|[]]. exact (dk_root _ _ _ D). }
  assert (Hlen1 : (length (mkeys objs) <= length nodes1)%nat).
  { rewrite <- (map_length fst nodes1). fold (mkeys nodes1).
    apply NoDup_incl_length; [exact (dk_nodup _ _ _ D)|].
    intros x Hx. destruct (Hnodes1 x Hx) as (nd & Hnd). eapply mfind_in_keys_local. exact Hnd. }
  assert (Hpn : forall q, kahn_pop q = None -> (fun q : list Z => q) q = []).
  { intros q H. destruct q; [reflexivity|discriminate]. }
  assert (Hps : forall q id q', kahn_pop q = Some (id, q') -> Permutation ((fun q : list Z => q) q) (id :: (fun q : list Z => q) q')).
  { intros q id q' H. destruct q; inversion H; subst. apply Permutation_refl. }
  assert (Hpp : forall (nd : node) id (s : unit) q q' s', kahn_push nd id s q = Some (q', s') ->
            Permutation ((fun q : list Z => q) q') (id :: (fun q : list Z => q) q)).
  { intros nd id s q q' s' H. inversion H; subst. apply heap_push_id_perm. }
  assert (Hpt : forall (nd : node) id (s : unit) q, kahn_push nd id s q <> None) by (intros; discriminate).
  assert (Hfuel : (length (mkeys objs) - length (@nil Z) < fuel)%nat) by (unfold fuel; cbn [length]; lia).
  destruct (sort_loop_total (list Z) unit kahn_pop kahn_push (fun q => q) Hpn Hps Hpp objs root np Hnp_root Hpt
              (dk_targets _ _ _ D) (dk_size _ _ _ D) fuel nodes1 [root] [] 0 [] tt HI0 HE0 Hfuel)
    as ([[nodes' removed'] ord] & Hrun).
  unfold kahn_loop. fold fuel. rewrite Hrun. cbn [obind].
  destruct (sort_loop_spec (list Z) unit kahn_pop kahn_push (fun q => q) Hpn Hps Hpp objs root np Hnp_root
              fuel nodes1 [root] [] 0 [] tt nodes' removed' ord Hrun HI0)
    as (rest & qe & Hord & Hqe & HIend & _ & _ & _).
  cbn [app] in Hord. subst rest.
  assert (Hincl : incl ord (mkeys objs)).
  { destruct HIend as (_ & _ & _ & _ & Hobjs & _). intros x Hx. destruct (Hobjs x Hx) as (o & Ho).
    eapply mfind_in_keys_local. exact Ho. }
  assert (Hgood : rgood removed').
  { pose proof (sort_loop_rgood (list Z) unit kahn_pop kahn_push (fun q => q) Hps Hpp objs root np Hpt
                  (dk_targets _ _ _ D) rk (dk_acyclic _ _ _ D) Hnp_spec Hhas_parent
                  fuel nodes1 [root] [] 0 [] tt _ Hrun) as Hg. cbn [fst snd] in Hg.
    apply Hg. split; [exact I|intros ? ? []]. }
  rewrite (final_removed_ok (list Z) unit kahn_pop kahn_push (fun q => q) Hpn Hps Hpp objs root np Hpt
             (dk_nodup _ _ _ D) (dk_targets _ _ _ D) rk (dk_acyclic _ _ _ D) Hnp_spec Hhas_parent
             nodes' qe removed' _ ord HIend Hqe Hincl Hgood).
  cbn [obind]. eexists. split; [reflexivity|]. cbn [g_order].
  pose proof (final_all (list Z) unit kahn_pop kahn_push (fun q => q) Hpn Hps Hpp objs root np Hpt
                (dk_nodup _ _ _ D) (dk_targets _ _ _ D) rk (dk_acyclic _ _ _ D) Hnp_spec Hhas_parent
                nodes' qe removed' _ ord HIend Hqe Hincl) as Hall.
  destruct HIend as (_ & (J1 & _) & _). rewrite Hqe, app_nil_r in J1.
  apply NoDup_Permutation; [exact J1|exact (dk_nodup _ _ _ D)|]. intros x. split; [apply Hincl|apply Hall].
Qed.



(* sort_kahn on an acyclic graph all of whose objects are reachable from the root: total correctness *)
Theorem kahn_order_topological objs root rk g :
  from_objects objs root = Some g -> dag_ok objs root rk -> (1 < length objs)%nat ->
  exists g', sort_kahn g = Some g' /\
    NoDup (g_order g') /\ Permutation (g_order g') (mkeys objs) /\ (exists r, g_order g' = root :: r) /\
    (forall id o l, In id (g_order g') -> mfind id objs = Some o -> In l (o_links o) ->
       precedes (g_order g') id (l_obj l)) /\
    positions_match g'.
Proof.
  intros Hfrom D Hlen. destruct (sort_kahn_total _ _ _ _ Hfrom D Hlen) as (g' & Hk & HP).
  destruct (kahn_order_topological_partial _ _ _ _ Hfrom (dk_noroot _ _ _ D) Hlen Hk) as (H1 & H2 & _ & H4 & H5).
  exists g'. repeat split; auto.
Qed.
