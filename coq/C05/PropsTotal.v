(* C05 — property theorems, round 7: totality of sort_shortest_distance.
   Only statements, [exact lemma] and Print Assumptions. *)
From Coq Require Import ZArith List Permutation.
From FV Require Import Lib.RustInt C05.Model C05.Proofs C05.Sort C05.Dup C05.SortTotal.
Import ListNotations.
Open Scope Z_scope.

(* Graph::sort_shortest_distance (update_parents, update_distances, assign_space_0, the main loop, the final
   removed_edges check) on the graph Graph::from_objects builds.  [dag_ok objs root rk]: keys distinct, root present,
   link targets exist, [rk] strictly increases along links (acyclic), every object reachable from the root, nobody links
   the root, TOTAL SIZE < 2^32; in addition FEWER THAN 2^32 OBJECTS.  Then the model does not take a panic outcome — no
   failed lookup, no u32 overflow of a distance (a distance is a sum of sizes of pairwise distinct objects, hence <= the
   total size), of current_pos (<= total size) or of obj_order (<= number of objects), the "cycle or something?" check
   passes, the fuels of the model's loops suffice — and the order lists every object exactly once, root first, every
   parent before each child, recorded positions = prefix sums. *)
Theorem c05_sort_shortest_total : forall objs root rk g,
  from_objects objs root = Some g -> dag_ok objs root rk -> Z.of_nat (length objs) < 2 ^ 32 ->
  exists g', sort_shortest_distance g = Some g' /\
    NoDup (g_order g') /\ Permutation (g_order g') (mkeys objs) /\ (exists r, g_order g' = root :: r) /\
    (forall id o l, In id (g_order g') -> mfind id objs = Some o -> In l (o_links o) ->
       precedes (g_order g') id (l_obj l)) /\
    positions_match g'.
Proof. exact sort_shortest_total. Qed.

(* the same for ANY graph state [sd_ready] (every object has a node caching the object's size; parents, if marked
   valid, are the incoming links) — the state is re-established, so the theorem applies to every later call *)
Theorem c05_sort_shortest_total_ready : forall objs root rk g,
  sd_ready objs root g -> dag_ok objs root rk -> Z.of_nat (length objs) < 2 ^ 32 ->
  exists g', sort_shortest_distance g = Some g' /\
    NoDup (g_order g') /\ Permutation (g_order g') (mkeys objs) /\ (exists r, g_order g' = root :: r) /\
    (forall id o l, In id (g_order g') -> mfind id objs = Some o -> In l (o_links o) ->
       precedes (g_order g') id (l_obj l)) /\
    positions_match g' /\ sd_ready objs root g'.
Proof. exact sort_shortest_total_ready. Qed.

(* as Graph::basic_sort / pack_objects call it: on the graph sort_kahn returned, and once more on its own result *)
Theorem c05_sort_shortest_total_after_kahn : forall objs root rk g g1,
  from_objects objs root = Some g -> dag_ok objs root rk -> Z.of_nat (length objs) < 2 ^ 32 ->
  sort_kahn g = Some g1 ->
  exists g2, sort_shortest_distance g1 = Some g2 /\ Permutation (g_order g2) (mkeys objs) /\ positions_match g2 /\
  exists g3, sort_shortest_distance g2 = Some g3 /\ Permutation (g_order g3) (mkeys objs) /\ positions_match g3.
Proof. exact sort_shortest_total_after_kahn. Qed.

(* the pieces: update_distances and assign_space_0 alone *)
Theorem c05_update_distances_total : forall objs g,
  NoDup (mkeys objs) ->
  (forall id o l, mfind id objs = Some o -> In l (o_links o) -> In (l_obj l) (mkeys objs)) ->
  total_size objs (mkeys objs) < 2 ^ 32 ->
  g_objs g = objs -> In (g_root g) (mkeys objs) ->
  (forall x, In x (mkeys objs) -> exists nd, mfind x (g_nodes g) = Some nd /\ n_size nd = size_of objs x) ->
  exists g', update_distances g = Some g' /\
    (forall x, In x (mkeys objs) -> exists nd, mfind x (g_nodes g') = Some nd /\ n_size nd = size_of objs x).
Proof. exact update_distances_total. Qed.
Theorem c05_assign_space_0_total : forall g, NoDup (mkeys (g_objs g)) ->
  exists g', assign_space_0 g = Some g' /\ same_size (g_nodes g) (g_nodes g').
Proof. exact assign_space_0_total. Qed.

(* decidable form of the hypotheses, evaluated on every correspondence case (check_case_t) with [ord] = the model's
   Kahn order: rank = index in [ord] *)
Theorem c05_dag_okb_sound : forall objs root ord, dag_okb objs root ord = true ->
  dag_ok objs root (idxn ord) /\ Z.of_nat (length objs) < 2 ^ 32.
Proof. exact dag_okb_sound. Qed.

(* Graph::duplicate_subgraph (space-isolation path).  [P a d C]: the ids still to be drawn are pairwise distinct and unused
   (Fresh), every entry of the duplication map [d] is in the copy relation [C], and [C] is a content-preserving homomorphism
   (same bytes; links pairwise with the same position / width / adjustment and C-related targets) — [P a [] []] is just
   [Fresh a].  Then: every ORIGINAL object keeps its bytes and links; only ids drawn from the stream are added; the
   invariant holds again (next call of the loop in isolate_subgraph_hb); the returned id is a copy of [root]; related
   ids have the same unfolding (tree of bytes and link fields) to every depth; and if all link targets exist the
   unfolding of the copy in the new graph equals the unfolding of the original in the old graph. *)
Theorem c05_duplicate_subgraph_preserves : forall fuel a root d space a' d' nid C,
  duplicate_subgraph fuel a root d space = Some (a', d', nid) -> P a d C ->
  (forall x, mfind x (aobjs a) <> None -> mfind x (aobjs a') = mfind x (aobjs a)) /\
  (exists used, ag_ids a = used ++ ag_ids a' /\ forall x, ~ In x used -> mfind x (aobjs a') = mfind x (aobjs a)) /\
  (exists C', incl C C' /\ P a' d' C' /\ In (root, nid) C' /\
     (forall n x c, In (x, c) C' -> unfold n (aobjs a') c = unfold n (aobjs a') x)) /\
  (closed (aobjs a) -> mfind root (aobjs a) <> None -> forall n, unfold n (aobjs a') nid = unfold n (aobjs a) root).
Proof. exact duplicate_subgraph_preserves. Qed.
Theorem c05_duplicate_subgraph_preserves_fresh : forall fuel a root space a' d' nid,
  duplicate_subgraph fuel a root [] space = Some (a', d', nid) -> Fresh a -> closed (aobjs a) ->
  mfind root (aobjs a) <> None ->
  (forall x, mfind x (aobjs a) <> None -> mfind x (aobjs a') = mfind x (aobjs a)) /\
  (forall n, unfold n (aobjs a') nid = unfold n (aobjs a) root) /\
  (forall x c, mfind x d' = Some c -> forall n, unfold n (aobjs a') c = unfold n (aobjs a') x).
Proof. exact duplicate_subgraph_preserves_fresh. Qed.
Theorem c05_dup_hypsb_sound : forall g ns roots ids,
  freshb (g_objs g) ids = true -> closedb (g_objs g) = true ->
  Fresh (mkAG g ns roots ids) /\ closed (g_objs g).
Proof. exact dup_hypsb_sound. Qed.

Print Assumptions c05_sort_shortest_total.
Print Assumptions c05_sort_shortest_total_ready.
Print Assumptions c05_sort_shortest_total_after_kahn.
Print Assumptions c05_update_distances_total.
Print Assumptions c05_assign_space_0_total.
Print Assumptions c05_dag_okb_sound.
Print Assumptions c05_duplicate_subgraph_preserves.
Print Assumptions c05_duplicate_subgraph_preserves_fresh.
Print Assumptions c05_dup_hypsb_sound.
