(* C05 — totality of Graph::sort_shortest_distance (write-fonts/src/graph.rs) on the model of Model.v:
   update_parents, update_distances, assign_space_0 and the main loop never take a panic outcome
   (no failed lookup, no u32 overflow of a distance / of current_pos / of obj_order, the final
   removed_edges check passes, the model's fuels suffice) on every acyclic graph all of whose objects are
   reachable from the root, provided
        total size of all objects < 2^32        (bounds current_pos AND every distance: a distance is a
                                                 sum of sizes of pairwise distinct objects)
        number of objects        < 2^32        (bounds obj_order: one increment per queue push, every
                                                 object is pushed at most once).
   The definitions are literally the ones the correspondence shards evaluate (Model.v is not changed). *)
From Coq Require Import ZArith List Bool Lia Permutation.
From FV Require Import Lib.RustInt C05.Model C05.Proofs C05.Sort C05.Dup.
Import ListNotations.
Open Scope Z_scope.

Lemma zmem_true x l : zmem x l = true <-> In x l.
Proof.
  unfold zmem. rewrite existsb_exists. split.
  - intros (y & Hy & E). apply Z.eqb_eq in E. subst. exact Hy.
  - intros H. exists x. split; [exact H|apply Z.eqb_refl].
Qed.
Lemma zmem_false x l : zmem x l = false <-> ~ In x l.
Proof.
  rewrite <- zmem_true. destruct (zmem x l); intuition congruence.
Qed.
Lemma zmem_cons x y l : zmem x (y :: l) = (x =? y) || zmem x l.
Proof. reflexivity. Qed.

Lemma filter_len_le {A} (f : A -> bool) (l : list A) : (length (filter f l) <= length l)%nat.
Proof. induction l as [|a r IH]; cbn [filter length]; [lia|]. destruct (f a); cbn [length]; lia. Qed.

Lemma not_key_mfind {A} k (m : zmap A) : mfind k m = None -> ~ In k (mkeys m).
Proof. intros H Hin. destruct (in_keys_mfind _ _ Hin) as (v & Hv). congruence. Qed.

Lemma has_minsert_same nodes x (nd nd' : node) : mfind x nodes = Some nd ->
  forall y, has (minsert x nd' nodes) y <-> has nodes y.
Proof.
  intros Hx y. unfold has. destruct (Z.eq_dec y x) as [->|Hne].
  - rewrite mfind_minsert_same. split; eauto.
  - rewrite mfind_minsert_other by congruence. reflexivity.
Qed.

Definition same_size (n n' : zmap node) : Prop :=
  forall x, option_map n_size (mfind x n') = option_map n_size (mfind x n).
Lemma same_size_refl n : same_size n n.
Proof. intros x. reflexivity. Qed.
Lemma same_size_trans a b c : same_size a b -> same_size b c -> same_size a c.
Proof. intros H1 H2 x. rewrite H2, H1. reflexivity. Qed.
Lemma same_size_insert n x nd nd' : mfind x n = Some nd -> n_size nd' = n_size nd -> same_size n (minsert x nd' n).
Proof.
  intros Hx Hp y. destruct (Z.eq_dec y x) as [->|Hne].
  - rewrite mfind_minsert_same, Hx. cbn. f_equal. exact Hp.
  - rewrite mfind_minsert_other by congruence. reflexivity.
Qed.
Lemma same_size_sizes (f : Z -> Z) (K : list Z) n n' : same_size n n' ->
  (forall x, In x K -> exists nd, mfind x n = Some nd /\ n_size nd = f x) ->
  (forall x, In x K -> exists nd, mfind x n' = Some nd /\ n_size nd = f x).
Proof.
  intros H Hs x Hx. destruct (Hs x Hx) as (nd & Hnd & E). specialize (H x). rewrite Hnd in H.
  destruct (mfind x n') as [nd'|]; cbn in H; [|discriminate]. exists nd'. split; [reflexivity|]. inversion H. lia.
Qed.

(* ------------------------------------------------------------------------------------------ *)
(* assign_space_0: the fuel 2 + total_links suffices (no arithmetic, no failing lookup)        *)

(* number of links of the objects whose node is not yet in space 0 *)
Definition sterm (nodes : zmap node) (kv : Z * obj) : nat :=
  match mfind (fst kv) nodes with
  | Some nd => if n_space nd =? 0 then O else length (o_links (snd kv))
  | None => O
  end.
Fixpoint slinks (objs : zmap obj) (nodes : zmap node) : nat :=
  match objs with [] => O | kv :: r => (sterm nodes kv + slinks r nodes)%nat end.

Lemma total_links_cons kv (r : zmap obj) : total_links (kv :: r) = (length (o_links (snd kv)) + total_links r)%nat.
Proof. reflexivity. Qed.

Lemma slinks_le objs nodes : (slinks objs nodes <= total_links objs)%nat.
Proof.
  induction objs as [|kv r IH]; [cbn; lia|]. rewrite total_links_cons. cbn [slinks].
  assert (sterm nodes kv <= length (o_links (snd kv)))%nat.
  { unfold sterm. destruct (mfind (fst kv) nodes) as [nd|]; [destruct (n_space nd =? 0)|]; lia. }
  lia.
Qed.

Lemma slinks_notkey objs nodes x nd' : ~ In x (mkeys objs) -> slinks objs (minsert x nd' nodes) = slinks objs nodes.
Proof.
  induction objs as [|[k o] r IH]; intros Hn; [reflexivity|]. cbn [slinks]. rewrite IH.
  - f_equal. unfold sterm. cbn [fst snd]. rewrite mfind_minsert_other; [reflexivity|].
    intro E. apply Hn. left. cbn. congruence.
  - intro Hin. apply Hn. right. exact Hin.
Qed.

Lemma slinks_set0 objs nodes x nd o : NoDup (mkeys objs) -> mfind x objs = Some o -> mfind x nodes = Some nd ->
  n_space nd <> 0 ->
  (slinks objs (minsert x (set_space nd 0) nodes) + length (o_links o) = slinks objs nodes)%nat.
Proof.
  induction objs as [|[k v] r IH]; intros Hnd Ho Hx Hs; [discriminate|].
  cbn [mkeys map fst] in Hnd. inversion Hnd as [|? ? Hk Hr]; subst. cbn [mfind] in Ho. cbn [slinks].
  destruct (x =? k) eqn:E.
  - apply Z.eqb_eq in E. subst k. inversion Ho; subst v.
    rewrite slinks_notkey by exact Hk. unfold sterm. cbn [fst snd].
    rewrite mfind_minsert_same, Hx. cbn [set_space n_space]. rewrite Z.eqb_refl.
    destruct (n_space nd =? 0) eqn:E0; [apply Z.eqb_eq in E0; contradiction|]. lia.
  - apply Z.eqb_neq in E. specialize (IH Hr Ho Hx Hs).
    assert (sterm (minsert x (set_space nd 0) nodes) (k, v) = sterm nodes (k, v)).
    { unfold sterm. cbn [fst snd]. rewrite mfind_minsert_other by congruence. reflexivity. }
    lia.
Qed.

Lemma space0_loop_total objs : NoDup (mkeys objs) -> forall fuel nodes stack,
  (length stack + slinks objs nodes <= fuel)%nat ->
  exists nodes', space0_loop fuel objs nodes stack = Some nodes' /\ same_size nodes nodes'.
Proof.
  intros Hnd. induction fuel as [|f IH]; intros nodes stack Hf.
  - destruct stack; [|cbn in Hf; lia]. exists nodes. split; [reflexivity|apply same_size_refl].
  - destruct stack as [|next st]; [exists nodes; split; [reflexivity|apply same_size_refl]|].
    cbn [space0_loop]. cbn [length] in Hf.
    destruct (mfind next nodes) as [nd|] eqn:En; [|apply IH; lia].
    destruct (n_space nd =? 0) eqn:Es; cbn [negb]; [apply IH; lia|].
    apply Z.eqb_neq in Es.
    set (nodes1 := minsert next (set_space nd 0) nodes).
    set (ls := match mfind next objs with Some o => o_links o | None => [] end).
    set (flt := fun l : link => negb (l_width l =? 4)).
    assert (Hm : (length (map l_obj (filter flt ls)) + slinks objs nodes1 <= slinks objs nodes)%nat).
    { rewrite map_length. pose proof (filter_len_le flt ls) as Hfl.
      unfold ls, nodes1 in *. destruct (mfind next objs) as [o|] eqn:Eo.
      - pose proof (slinks_set0 objs nodes next nd o Hnd Eo En Es). lia.
      - rewrite slinks_notkey by (apply not_key_mfind; exact Eo). cbn in *. lia. }
    destruct (IH nodes1 (st ++ map l_obj (filter flt ls))) as (nodes' & Hrun & Hhas).
    { rewrite app_length. lia. }
    exists nodes'. split; [exact Hrun|]. eapply same_size_trans; [|exact Hhas]. eapply same_size_insert; [exact En|reflexivity].
Qed.

Lemma assign_space_0_total g : NoDup (mkeys (g_objs g)) ->
  exists g', assign_space_0 g = Some g' /\ same_size (g_nodes g) (g_nodes g').
Proof.
  intros Hnd. unfold assign_space_0.
  destruct (space0_loop_total (g_objs g) Hnd (2 + total_links (g_objs g)) (g_nodes g) [g_root g]) as (nodes' & Hrun & Hhas).
  { pose proof (slinks_le (g_objs g) (g_nodes g)). cbn [length]. lia. }
  rewrite Hrun. cbn [obind]. eexists. split; [reflexivity|]. exact Hhas.
Qed.

(* ------------------------------------------------------------------------------------------ *)
(* update_distances: no u32 overflow, no failing lookup, the fuel 2 + total_links suffices     *)

(* number of links of the objects not yet visited *)
Fixpoint ulinks (objs : zmap obj) (visited : list Z) : nat :=
  match objs with
  | [] => O
  | kv :: r => ((if zmem (fst kv) visited then O else length (o_links (snd kv))) + ulinks r visited)%nat
  end.

Lemma ulinks_nil objs : ulinks objs [] = total_links objs.
Proof. induction objs as [|kv r IH]; [reflexivity|]. rewrite total_links_cons. cbn [ulinks zmem existsb]. rewrite IH. reflexivity. Qed.

Lemma ulinks_notkey objs visited x : ~ In x (mkeys objs) -> ulinks objs (x :: visited) = ulinks objs visited.
Proof.
  induction objs as [|[k o] r IH]; intros Hn; [reflexivity|]. cbn [ulinks fst snd]. rewrite IH.
  - rewrite zmem_cons. destruct (k =? x) eqn:E; [|reflexivity].
    apply Z.eqb_eq in E. exfalso. apply Hn. left. cbn. congruence.
  - intro Hin. apply Hn. right. exact Hin.
Qed.

Lemma ulinks_visit objs visited x o : NoDup (mkeys objs) -> mfind x objs = Some o -> zmem x visited = false ->
  (ulinks objs (x :: visited) + length (o_links o) = ulinks objs visited)%nat.
Proof.
  induction objs as [|[k v] r IH]; intros Hnd Ho Hv; [discriminate|].
  cbn [mkeys map fst] in Hnd. inversion Hnd as [|? ? Hk Hr]; subst. cbn [mfind] in Ho. cbn [ulinks fst snd].
  rewrite zmem_cons. destruct (x =? k) eqn:E.
  - apply Z.eqb_eq in E. subst k. inversion Ho; subst v. rewrite Z.eqb_refl. cbn [orb].
    rewrite ulinks_notkey by exact Hk. rewrite Hv. lia.
  - specialize (IH Hr Ho Hv). rewrite Z.eqb_sym, E. cbn [orb]. lia.
Qed.

Lemma heap_push_du_in x y : forall q, In y (heap_push_du x q) -> y = x \/ In y q.
Proof.
  induction q as [|z r IH]; cbn [heap_push_du]; intros H.
  - destruct H as [<-|[]]. left. reflexivity.
  - destruct (du_lt x z).
    + destruct H as [<-|H]; [right; left; reflexivity|]. destruct (IH H) as [->|H']; [left; reflexivity|right; right; exact H'].
    + destruct H as [<-|H]; [left; reflexivity|right; exact H].
Qed.
Lemma heap_push_du_length x : forall q, length (heap_push_du x q) = S (length q).
Proof. induction q as [|z r IH]; cbn [heap_push_du]; [reflexivity|]. destruct (du_lt x z); cbn [length]; [rewrite IH|]; reflexivity. Qed.

Section Dist.
  Variable objs : zmap obj.
  Hypothesis keys_nodup : NoDup (mkeys objs).
  Hypothesis targets_exist : forall id o l, mfind id objs = Some o -> In l (o_links o) -> In (l_obj l) (mkeys objs).
  Hypothesis size_ok : total_size objs (mkeys objs) < 2 ^ 32.

  (* every object has a node whose cached size is the object's size; distances are non-negative *)
  Definition Dnodes (nodes : zmap node) : Prop :=
    (forall x, In x (mkeys objs) -> exists nd, mfind x nodes = Some nd /\ n_size nd = size_of objs x) /\
    (forall x nd, mfind x nodes = Some nd -> 0 <= n_dist nd).
  (* every queued id is an object whose current distance is at most the total size of the visited
     objects plus its own size: a sum of sizes of pairwise distinct objects *)
  Definition Dq (nodes : zmap node) (q : list (Z * Z)) (visited : list Z) : Prop :=
    forall d id, In (d, id) q -> In id (mkeys objs) /\
      exists nd, mfind id nodes = Some nd /\ n_dist nd <= total_size objs visited + size_of objs id.

  Lemma dist_links_total next_distance visited :
    0 <= next_distance <= total_size objs visited -> NoDup visited -> incl visited (mkeys objs) ->
    forall ls nodes q, (forall l, In l ls -> In (l_obj l) (mkeys objs)) -> Dnodes nodes -> Dq nodes q visited ->
    exists nodes' q', dist_links next_distance ls visited nodes q = Some (nodes', q') /\
      Dnodes nodes' /\ Dq nodes' q' visited /\ (length q' <= length q + length ls)%nat /\
      (forall x, has nodes' x <-> has nodes x).
  Proof.
    intros Hd Hvn Hvi. induction ls as [|l r IH]; intros nodes q Hl HD HQ.
    - exists nodes, q. split; [reflexivity|]. split; [exact HD|]. split; [exact HQ|]. split; [cbn; lia|intros; reflexivity].
    - cbn [dist_links]. assert (Hr : forall l', In l' r -> In (l_obj l') (mkeys objs)) by (intros l' H; apply Hl; right; exact H).
      destruct (zmem (l_obj l) visited) eqn:Ev.
      + destruct (IH nodes q Hr HD HQ) as (n' & q' & Hrun & H1 & H2 & H3 & H4).
        exists n', q'. split; [exact Hrun|]. split; [exact H1|]. split; [exact H2|]. split; [cbn [length]; lia|exact H4].
      + apply zmem_false in Ev. set (c := l_obj l) in *.
        assert (Hc : In c (mkeys objs)) by (apply Hl; left; reflexivity).
        destruct HD as (Ha & Hb). destruct (Ha c Hc) as (child & Ec & Esz). rewrite Ec. cbn [obind].
        assert (Hbound : total_size objs (c :: visited) <= total_size objs (mkeys objs)).
        { apply total_size_sub; [constructor; assumption|]. intros x [<-|Hx]; [exact Hc|apply Hvi; exact Hx]. }
        cbn [total_size] in Hbound. pose proof (size_of_nonneg objs c) as Hsz.
        rewrite chk_u_some by lia. cbn [obind].
        destruct (next_distance + n_size child <? n_dist child) eqn:Elt.
        * set (cd := next_distance + n_size child) in *.
          set (nodes1 := minsert c (set_dist child cd) nodes).
          assert (HD1 : Dnodes nodes1).
          { split.
            - intros x Hx. unfold nodes1. destruct (Z.eq_dec x c) as [->|Hne].
              + rewrite mfind_minsert_same. eexists. split; [reflexivity|]. cbn. exact Esz.
              + rewrite mfind_minsert_other by congruence. apply Ha. exact Hx.
            - intros x nd Hx. unfold nodes1 in Hx. destruct (Z.eq_dec x c) as [->|Hne].
              + rewrite mfind_minsert_same in Hx. inversion Hx; subst. cbn. unfold cd. lia.
              + rewrite mfind_minsert_other in Hx by congruence. eapply Hb. exact Hx. }
          assert (HQ1 : Dq nodes1 (heap_push_du (cd, c) q) visited).
          { intros d id Hin. apply heap_push_du_in in Hin.
            assert (Hnew : exists nd, mfind c nodes1 = Some nd /\ n_dist nd <= total_size objs visited + size_of objs c).
            { exists (set_dist child cd). unfold nodes1. rewrite mfind_minsert_same. split; [reflexivity|]. cbn. unfold cd. lia. }
            destruct Hin as [E|Hin].
            - inversion E; subst. split; [exact Hc|exact Hnew].
            - destruct (HQ d id Hin) as (Hk & nd & Hnd & Hle). split; [exact Hk|].
              destruct (Z.eq_dec id c) as [->|Hne]; [exact Hnew|].
              exists nd. unfold nodes1. rewrite mfind_minsert_other by congruence. split; assumption. }
          destruct (IH nodes1 (heap_push_du (cd, c) q) Hr HD1 HQ1) as (n' & q' & Hrun & H1 & H2 & H3 & H4).
          exists n', q'. split; [exact Hrun|]. split; [exact H1|]. split; [exact H2|].
          split; [rewrite heap_push_du_length in H3; cbn [length]; lia|].
          intros x. rewrite H4. apply (has_minsert_same _ _ _ _ Ec).
        * destruct (IH nodes q Hr (conj Ha Hb) HQ) as (n' & q' & Hrun & H1 & H2 & H3 & H4).
          exists n', q'. split; [exact Hrun|]. split; [exact H1|]. split; [exact H2|]. split; [cbn [length]; lia|exact H4].
  Qed.

  Lemma dist_loop_total : forall fuel nodes q visited,
    Dnodes nodes -> NoDup visited -> incl visited (mkeys objs) -> Dq nodes q visited ->
    (length q + ulinks objs visited <= fuel)%nat ->
    exists nodes', dist_loop fuel objs nodes q visited = Some nodes' /\ Dnodes nodes' /\
      forall x, has nodes' x <-> has nodes x.
  Proof.
    induction fuel as [|f IH]; intros nodes q visited HD Hvn Hvi HQ Hf.
    - destruct q; [|cbn in Hf; lia]. exists nodes. split; [reflexivity|]. split; [exact HD|intros; reflexivity].
    - destruct q as [|[d id] q0]; [exists nodes; split; [reflexivity|]; split; [exact HD|intros; reflexivity]|].
      cbn [dist_loop]. cbn [length] in Hf.
      assert (HQ0 : Dq nodes q0 visited) by (intros d' id' H; apply (HQ d' id'); right; exact H).
      destruct (zmem id visited) eqn:Ev; [apply IH; try assumption; lia|].
      destruct (HQ d id (or_introl eq_refl)) as (Hk & nd & End & Hle). rewrite End. cbn [obind].
      destruct (in_keys_mfind _ _ Hk) as (o & Eo). rewrite Eo. cbn [obind].
      pose proof Ev as Ev'. apply zmem_false in Ev'.
      assert (Hvn1 : NoDup (id :: visited)) by (constructor; assumption).
      assert (Hvi1 : incl (id :: visited) (mkeys objs)) by (intros x [<-|Hx]; [exact Hk|apply Hvi; exact Hx]).
      pose proof (size_of_nonneg objs id) as Hsz.
      assert (HQ1 : Dq nodes q0 (id :: visited)).
      { intros d' id' H. destruct (HQ0 d' id' H) as (Hk' & nd' & Hnd' & Hle'). split; [exact Hk'|].
        exists nd'. split; [exact Hnd'|]. cbn [total_size]. lia. }
      destruct (dist_links_total (n_dist nd) (id :: visited)) with (ls := o_links o) (nodes := nodes) (q := q0)
        as (n1 & q1 & Hrun & HD1 & HQ2 & Hlen & Hhas); try assumption.
      { destruct HD as (_ & Hb). pose proof (Hb id nd End). cbn [total_size]. lia. }
      { intros l Hl. eapply targets_exist; eauto. }
      rewrite Hrun. cbn [obind fst snd].
      pose proof (ulinks_visit objs visited id o keys_nodup Eo Ev) as Hu.
      destruct (IH n1 q1 (id :: visited) HD1 Hvn1 Hvi1 HQ2) as (n' & Hrun' & HD' & Hhas'); [lia|].
      exists n'. split; [exact Hrun'|]. split; [exact HD'|]. intros x. rewrite Hhas'. apply Hhas.
  Qed.
End Dist.

Lemma update_distances_total objs g :
  NoDup (mkeys objs) ->
  (forall id o l, mfind id objs = Some o -> In l (o_links o) -> In (l_obj l) (mkeys objs)) ->
  total_size objs (mkeys objs) < 2 ^ 32 ->
  g_objs g = objs -> In (g_root g) (mkeys objs) ->
  (forall x, In x (mkeys objs) -> exists nd, mfind x (g_nodes g) = Some nd /\ n_size nd = size_of objs x) ->
  exists g', update_distances g = Some g' /\
    (forall x, In x (mkeys objs) -> exists nd, mfind x (g_nodes g') = Some nd /\ n_size nd = size_of objs x).
Proof.
  intros Hnd Htg Hsz Ho Hroot Hsizes. unfold update_distances. rewrite Ho.
  set (nodes0 := map (fun kv => (fst kv, set_dist (snd kv) 4294967295)) (g_nodes g)).
  destruct (Hsizes _ Hroot) as (rn0 & Ern0 & Esz0).
  assert (Er : mfind (g_root g) nodes0 = Some (set_dist rn0 4294967295)).
  { unfold nodes0. rewrite (mfind_map_val (fun nd => set_dist nd 4294967295)), Ern0. reflexivity. }
  rewrite Er. cbn [obind].
  set (nodes1 := minsert (g_root g) (set_dist (set_dist rn0 4294967295) 0) nodes0).
  assert (HD : Dnodes objs nodes1).
  { split.
    - intros x Hx. unfold nodes1. destruct (Z.eq_dec x (g_root g)) as [->|Hne].
      + rewrite mfind_minsert_same. eexists. split; [reflexivity|]. cbn. exact Esz0.
      + rewrite mfind_minsert_other by congruence. unfold nodes0. rewrite (mfind_map_val (fun nd => set_dist nd 4294967295)).
        destruct (Hsizes x Hx) as (nd & -> & Es). eexists. split; [reflexivity|]. cbn. exact Es.
    - intros x nd Hx. unfold nodes1 in Hx. destruct (Z.eq_dec x (g_root g)) as [->|Hne].
      + rewrite mfind_minsert_same in Hx. injection Hx as <-. cbn. lia.
      + rewrite mfind_minsert_other in Hx by congruence. unfold nodes0 in Hx. rewrite (mfind_map_val (fun nd => set_dist nd 4294967295)) in Hx.
        destruct (mfind x (g_nodes g)); cbn in Hx; [|discriminate]. injection Hx as <-. cbn. lia. }
  assert (HQ : Dq objs nodes1 [(0, g_root g)] []).
  { intros d id [E|[]]. injection E as <- <-. split; [exact Hroot|].
    eexists. unfold nodes1. rewrite mfind_minsert_same. split; [reflexivity|]. cbn.
    pose proof (size_of_nonneg objs (g_root g)). lia. }
  destruct (dist_loop_total objs Hnd Htg Hsz (2 + total_links objs) nodes1 [(0, g_root g)] [] HD)
    as (nodes' & Hrun & (Ha & _) & _); try assumption.
  { constructor. } { intros x []. } { rewrite ulinks_nil. cbn [length]. lia. }
  rewrite Hrun. cbn [obind]. eexists. split; [reflexivity|]. cbn [set_nodes g_nodes]. exact Ha.
Qed.

(* ------------------------------------------------------------------------------------------ *)
(* the main loop of sort_shortest_distance: obj_order counts the pushes                        *)

Definition sd_elems (q : list (Z * Z * Z * Z)) : list Z := map snd q.
Lemma sd_pn : forall q, sd_pop q = None -> sd_elems q = [].
Proof. intros q H. destruct q as [|[? ?] ?]; [reflexivity|discriminate]. Qed.
Lemma sd_ps : forall q id q', sd_pop q = Some (id, q') -> Permutation (sd_elems q) (id :: sd_elems q').
Proof. intros q id q' H. destruct q as [|[? ?] ?]; inversion H; subst. apply Permutation_refl. Qed.
Lemma sd_pp : forall (nd : node) id s q q' s', sd_push nd id s q = Some (q', s') -> Permutation (sd_elems q') (id :: sd_elems q).
Proof.
  intros nd id s q q' s' H. unfold sd_push in H.
  destruct (chk_u 32 (s + 1)); cbn [obind] in H; [|discriminate]. inversion H; subst.
  change (id :: sd_elems q) with (sd_elems ((modified_distance nd s, id) :: q)).
  apply Permutation_map. apply heap_push_sd_perm.
Qed.

(* the same push without the u32 check of obj_order: only used to reuse the lemmas of Sort.v that
   are stated for a push that cannot fail *)
Definition sd_push_nc (nd : node) (id : Z) (obj_order : Z) (q : list (Z * Z * Z * Z))
  : option (list (Z * Z * Z * Z) * Z) :=
  Some (heap_push_sd (modified_distance nd obj_order, id) q, obj_order + 1).
Lemma sd_pp_nc : forall (nd : node) id s q q' s', sd_push_nc nd id s q = Some (q', s') -> Permutation (sd_elems q') (id :: sd_elems q).
Proof.
  intros nd id s q q' s' H. inversion H; subst.
  change (id :: sd_elems q) with (sd_elems ((modified_distance nd s, id) :: q)).
  apply Permutation_map. apply heap_push_sd_perm.
Qed.
Lemma chk_u_inv bits z r : chk_u bits z = Some r -> r = z.
Proof. unfold chk_u. destruct (in_u bits z); intros H; inversion H; reflexivity. Qed.
Lemma sd_push_nc_of nd id s q r : sd_push nd id s q = Some r -> sd_push_nc nd id s q = Some r.
Proof.
  unfold sd_push, sd_push_nc. destruct (chk_u 32 (s + 1)) as [oo|] eqn:E; cbn [obind]; [|discriminate].
  apply chk_u_inv in E. subst oo. auto.
Qed.

Section Mono.
  Variables (Q St : Type).
  Variable qpop : Q -> option (Z * Q).
  Variables qpush qpush' : node -> Z -> St -> Q -> option (Q * St).
  Hypothesis push_mono : forall nd id s q r, qpush nd id s q = Some r -> qpush' nd id s q = Some r.
  Lemma sort_links_mono nodes : forall ls q removed s r,
    sort_links Q St qpush nodes ls q removed s = Some r -> sort_links Q St qpush' nodes ls q removed s = Some r.
  Proof.
    induction ls as [|l ls IH]; intros q removed s r H; cbn [sort_links] in *; [exact H|].
    destruct (bump (l_obj l) removed) as [removed1 seen].
    destruct (mfind (l_obj l) nodes) as [nd|]; cbn [obind] in *; [|discriminate].
    destruct (seen =? nparents nd); [|apply IH; exact H].
    destruct (qpush nd (l_obj l) s q) as [qs|] eqn:E; cbn [obind] in H; [|discriminate].
    rewrite (push_mono _ _ _ _ _ E). cbn [obind]. apply IH. exact H.
  Qed.
  Lemma sort_loop_mono objs : forall fuel nodes q removed cur popped s r,
    sort_loop Q St qpop qpush fuel objs nodes q removed cur popped s = Some r ->
    sort_loop Q St qpop qpush' fuel objs nodes q removed cur popped s = Some r.
  Proof.
    induction fuel as [|f IH]; intros nodes q removed cur popped s r H; cbn [sort_loop] in *;
      destruct (qpop q) as [[id q0]|]; try exact H.
    destruct (mfind id objs) as [next|]; cbn [obind] in *; [|discriminate].
    destruct (mfind id nodes) as [nd|]; cbn [obind] in *; [|discriminate].
    destruct (chk_u 32 _) as [cur'|]; cbn [obind] in *; [|discriminate].
    destruct (sort_links Q St qpush _ (o_links next) q0 removed s) as [[[q1 removed1] s1]|] eqn:El; cbn [obind] in H; [|discriminate].
    rewrite (sort_links_mono _ _ _ _ _ _ El). cbn [obind]. apply IH. exact H.
  Qed.
End Mono.

Lemma sort_links_cons Q St qpush nodes l r q removed s :
  sort_links Q St qpush nodes (l :: r) q removed s =
  match sort_links Q St qpush nodes [l] q removed s with
  | Some (q1, rm1, s1) => sort_links Q St qpush nodes r q1 rm1 s1
  | None => None
  end.
Proof.
  cbn [sort_links]. destruct (bump (l_obj l) removed) as [rm seen].
  destruct (mfind (l_obj l) nodes) as [nd|]; cbn [obind]; [|reflexivity].
  destruct (seen =? nparents nd); [|reflexivity].
  destruct (qpush nd (l_obj l) s q) as [[q1 s1]|]; cbn [obind fst snd]; reflexivity.
Qed.

Section SdTotal.
  Variable objs : zmap obj.
  Variable root : Z.
  Variable np : Z -> Z.
  Hypothesis np_root : np root = 0.
  Hypothesis keys_nodup : NoDup (mkeys objs).
  Hypothesis targets_exist : forall id o l, mfind id objs = Some o -> In l (o_links o) -> In (l_obj l) (mkeys objs).
  Hypothesis size_ok : total_size objs (mkeys objs) < 2 ^ 32.
  Hypothesis count_ok : Z.of_nat (length (mkeys objs)) < 2 ^ 32.

  Notation SQ := (list (Z * Z * Z * Z)).
  Notation SJ := (J SQ sd_elems root np).

  Lemma sd_links_total nodes popped : Nnodes np nodes ->
    (forall x, In x (mkeys objs) -> exists nd, mfind x nodes = Some nd) ->
    forall ls q removed s D, (forall l, In l ls -> In (l_obj l) (mkeys objs)) ->
    SJ popped q removed D -> incl (popped ++ sd_elems q) (mkeys objs) ->
    s = Z.of_nat (length (popped ++ sd_elems q)) ->
    exists q' removed' s', sort_links SQ Z sd_push nodes ls q removed s = Some (q', removed', s') /\
      incl (popped ++ sd_elems q') (mkeys objs) /\ s' = Z.of_nat (length (popped ++ sd_elems q')).
  Proof.
    intros HN Hn. induction ls as [|l r IH]; intros q removed s D Hl HJ Hincl Hs.
    - exists q, removed, s. split; [reflexivity|]. split; assumption.
    - assert (Hone : exists q1 rm1 s1, sort_links SQ Z sd_push nodes [l] q removed s = Some (q1, rm1, s1) /\
                incl (popped ++ sd_elems q1) (mkeys objs) /\ s1 = Z.of_nat (length (popped ++ sd_elems q1))).
      { cbn [sort_links]. destruct (bump (l_obj l) removed) as [removed1 seen] eqn:Eb.
        destruct (bump_spec _ _ _ _ Eb) as (Hseen & _ & _).
        set (t := l_obj l) in *.
        assert (Ht : In t (mkeys objs)) by (apply Hl; left; reflexivity).
        destruct (Hn t Ht) as (nd & End). rewrite End. cbn [obind].
        destruct (seen =? nparents nd) eqn:Eseen; [|exists q, removed1, s; split; [reflexivity|split; assumption]].
        apply Z.eqb_eq in Eseen. rewrite (HN t nd End) in Eseen.
        destruct HJ as (J1 & J2 & J3). rewrite J2 in Hseen. pose proof (cntz_nonneg t D) as Hnn.
        assert (Hnotin : ~ In t (popped ++ sd_elems q)).
        { intro Hin. apply J3 in Hin. destruct Hin as [E|Hin].
          - assert (np t = 0) by (rewrite E; exact np_root). lia.
          - lia. }
        assert (Hlen : (length (t :: popped ++ sd_elems q) <= length (mkeys objs))%nat).
        { apply NoDup_incl_length; [constructor; assumption|]. intros x [<-|Hx]; [exact Ht|apply Hincl; exact Hx]. }
        cbn [length] in Hlen.
        unfold sd_push. rewrite chk_u_some by lia. cbn [obind fst snd].
        set (q1 := heap_push_sd (modified_distance nd s, t) q).
        assert (Hperm : Permutation (sd_elems q1) (t :: sd_elems q)).
        { change (t :: sd_elems q) with (sd_elems ((modified_distance nd s, t) :: q)).
          apply Permutation_map. apply heap_push_sd_perm. }
        assert (Hperm' : Permutation (popped ++ sd_elems q1) (t :: popped ++ sd_elems q)).
        { eapply Permutation_trans; [apply Permutation_app_head; exact Hperm|].
          apply Permutation_sym. apply Permutation_middle. }
        exists q1, removed1, (s + 1). split; [reflexivity|]. split.
        - intros x Hx. apply (Permutation_in _ Hperm') in Hx. destruct Hx as [<-|Hx]; [exact Ht|apply Hincl; exact Hx].
        - rewrite (Permutation_length Hperm'). cbn [length]. lia. }
      destruct Hone as (q1 & rm1 & s1 & Hrun1 & Hincl1 & Hs1).
      destruct (sort_links_spec SQ Z sd_pop sd_push sd_elems sd_pn sd_ps sd_pp root np np_root nodes popped HN
                  _ _ _ _ _ _ _ _ Hrun1 HJ) as (HJ1 & _ & _).
      destruct (IH q1 rm1 s1 _ (fun l' H => Hl l' (or_intror H)) HJ1 Hincl1 Hs1) as (q' & rm' & s' & Hrun & H1 & H2).
      exists q', rm', s'. split; [|split; assumption].
      rewrite sort_links_cons, Hrun1. exact Hrun.
  Qed.

  Lemma sd_loop_total : forall fuel nodes q removed cur popped s,
    Inv SQ sd_elems objs root np nodes q removed cur popped -> Ext SQ sd_elems objs nodes q popped ->
    s = Z.of_nat (length (popped ++ sd_elems q)) ->
    (length (mkeys objs) - length popped < fuel)%nat ->
    exists r, sort_loop SQ Z sd_pop sd_push fuel objs nodes q removed cur popped s = Some r.
  Proof.
    induction fuel as [|f IH]; intros nodes q removed cur popped s HI HE Hs Hfuel; [lia|].
    cbn [sort_loop]. destruct (sd_pop q) as [[id q0]|] eqn:Ep; [|eauto].
    destruct HI as (HN & HJ & Hcur & Hcurb & Hobjs & Hpos). destruct HE as (Hnodes & Hincl).
    pose proof (sd_ps _ _ _ Ep) as Hperm. destruct HJ as (J1 & J2 & J3).
    assert (Hperm' : Permutation (popped ++ sd_elems q) ((popped ++ [id]) ++ sd_elems q0)).
    { rewrite <- app_assoc. apply Permutation_app_head. exact Hperm. }
    assert (Hid_key : In id (mkeys objs)).
    { apply Hincl. apply (Permutation_in _ (Permutation_sym Hperm')). apply in_or_app. left. apply in_or_app. right. left. reflexivity. }
    assert (Hnd1 : NoDup ((popped ++ [id]) ++ sd_elems q0)) by (eapply Permutation_NoDup; [exact Hperm'|exact J1]).
    assert (Hid_notin : ~ In id popped).
    { rewrite <- app_assoc in Hnd1. apply NoDup_remove_2 in Hnd1. intro Hin. apply Hnd1. apply in_or_app. left. exact Hin. }
    assert (Hincl1 : incl ((popped ++ [id]) ++ sd_elems q0) (mkeys objs)).
    { intros x Hx. apply Hincl. apply (Permutation_in _ (Permutation_sym Hperm')). exact Hx. }
    destruct (in_keys_mfind _ _ Hid_key) as (next & Enext). rewrite Enext. cbn [obind].
    destruct (Hnodes id Hid_key) as (nd & End). rewrite End. cbn [obind].
    set (nodes1 := minsert id (set_pos nd cur) nodes).
    assert (Hsz : size_of objs id = blen (o_bytes next)) by (unfold size_of; rewrite Enext; reflexivity).
    assert (Hpopnd : NoDup (popped ++ [id])) by (apply nodup_app_left in Hnd1; exact Hnd1).
    assert (Hbound : total_size objs (popped ++ [id]) <= total_size objs (mkeys objs)).
    { apply total_size_sub; [exact Hpopnd|]. intros x Hx. apply Hincl1. apply in_or_app. left. exact Hx. }
    rewrite total_size_app in Hbound. cbn [total_size] in Hbound. rewrite Hsz in Hbound.
    pose proof (blen_nonneg (o_bytes next)) as Hbl.
    rewrite chk_u_some by lia. cbn [obind].
    assert (Hnodes1 : forall x, In x (mkeys objs) -> exists nd', mfind x nodes1 = Some nd').
    { intros x Hx. unfold nodes1. destruct (Z.eq_dec x id) as [->|Hne].
      - rewrite mfind_minsert_same. eauto.
      - rewrite mfind_minsert_other by congruence. apply Hnodes. exact Hx. }
    assert (HN1 : Nnodes np nodes1) by (apply Nnodes_set_pos; assumption).
    assert (HJ0 : SJ (popped ++ [id]) q0 removed (targets_of objs popped)).
    { split; [exact Hnd1|]. split; [exact J2|].
      intros x. rewrite <- J3. split; intro Hin.
      - apply (Permutation_in _ (Permutation_sym Hperm')). exact Hin.
      - apply (Permutation_in _ Hperm'). exact Hin. }
    destruct (sd_links_total nodes1 (popped ++ [id]) HN1 Hnodes1 (o_links next) q0 removed s (targets_of objs popped))
      as (q1 & removed1 & s1 & Elinks & Hincl2 & Hs1); try assumption.
    { intros l Hl. eapply targets_exist; eauto. }
    { rewrite Hs. rewrite (Permutation_length Hperm'). reflexivity. }
    rewrite Elinks. cbn [obind].
    destruct (sort_links_spec SQ Z sd_pop sd_push sd_elems sd_pn sd_ps sd_pp root np np_root nodes1 (popped ++ [id]) HN1
                _ _ _ _ _ _ _ _ Elinks HJ0) as (HJ1 & Hgrow & _).
    assert (Htg : targets_of objs (popped ++ [id]) = targets_of objs popped ++ map l_obj (o_links next)).
    { rewrite targets_of_app, (targets_of_single _ _ _ Enext). reflexivity. }
    rewrite <- Htg in HJ1.
    apply IH.
    - split; [exact HN1|]. split; [exact HJ1|]. split; [rewrite total_size_app; cbn [total_size]; lia|].
      split; [lia|]. split.
      + intros x Hx. apply in_app_or in Hx. destruct Hx as [Hx|[<-|[]]]; [apply Hobjs; exact Hx|eauto].
      + intros x Hx. apply in_app_or in Hx. destruct Hx as [Hx|[<-|[]]].
        * destruct (Hpos x Hx) as (ndx & Hndx & Hpx).
          assert (x <> id) by (intro; subst; contradiction).
          exists ndx. unfold nodes1. rewrite mfind_minsert_other by congruence.
          split; [exact Hndx|]. rewrite posof_app_in by exact Hx. exact Hpx.
        * exists (set_pos nd cur). unfold nodes1. rewrite mfind_minsert_same. split; [reflexivity|].
          rewrite posof_app_notin by exact Hid_notin. cbn. exact Hcur.
    - split; [exact Hnodes1|exact Hincl2].
    - exact Hs1.
    - assert (Hlen : (length (popped ++ [id]) <= length (mkeys objs))%nat).
      { apply NoDup_incl_length; [exact Hpopnd|]. intros x Hx. apply Hincl1. apply in_or_app. left. exact Hx. }
      rewrite app_length in *. cbn [length] in *. lia.
  Qed.
End SdTotal.

(* ------------------------------------------------------------------------------------------ *)
(* assembling sort_shortest_distance                                                           *)

Lemma add_parents_links_size id : forall ls n n', add_parents_links id ls n = Some n' ->
  forall x nd', mfind x n' = Some nd' -> exists nd, mfind x n = Some nd /\ n_size nd' = n_size nd.
Proof.
  induction ls as [|l ls IH]; intros n n' E x nd' H; cbn [add_parents_links] in E.
  - inversion E; subst. eauto.
  - destruct (mfind (l_obj l) n) as [ndl|] eqn:El; cbn [obind] in E; [|discriminate].
    destruct (IH _ _ E x nd' H) as (nd2 & H2 & P2). rewrite P2.
    destruct (Z.eq_dec x (l_obj l)) as [->|Hne].
    + rewrite mfind_minsert_same in H2. inversion H2; subst. exists ndl. split; [exact El|reflexivity].
    + rewrite mfind_minsert_other in H2 by congruence. eauto.
Qed.
Lemma add_parents_objs_size : forall objs n n', add_parents_objs objs n = Some n' ->
  forall x nd', mfind x n' = Some nd' -> exists nd, mfind x n = Some nd /\ n_size nd' = n_size nd.
Proof.
  induction objs as [|[id o] r IH]; intros n n' H x nd' Hx; cbn [add_parents_objs] in H.
  - inversion H; subst. eauto.
  - destruct (add_parents_links id (o_links o) n) as [n1|] eqn:E; cbn [obind] in H; [|discriminate].
    destruct (IH _ _ H x nd' Hx) as (nd1 & H1 & P1). rewrite P1.
    eapply add_parents_links_size; eauto.
Qed.

(* the recorded number of parents every node must carry once update_parents has run *)
Definition npc (objs : zmap obj) (x : Z) : Z := cntz x (targets_of objs (mkeys objs)).

(* what sort_shortest_distance needs of the graph it is called on: every object has a node with the object's size
   cached, and, if the parents are marked valid, they are the incoming links.  True of Graph::from_objects'
   result (from_objects_sd_ready) and preserved by sort_shortest_distance itself. *)
Definition sd_ready (objs : zmap obj) (root : Z) (g : graph) : Prop :=
  g_objs g = objs /\ g_root g = root /\
  (forall x, In x (mkeys objs) -> exists nd, mfind x (g_nodes g) = Some nd /\ n_size nd = size_of objs x) /\
  (g_parents_invalid g = false -> Nnodes (npc objs) (g_nodes g)).

Lemma same_par_Nnodes np n n' : same_par n n' -> Nnodes np n -> Nnodes np n'.
Proof.
  intros H HN x nd' Hx. specialize (H x). rewrite Hx in H.
  destruct (mfind x n) as [nd|] eqn:E; cbn in H; [|discriminate].
  unfold nparents. inversion H as [E']. rewrite E'. apply (HN x nd E).
Qed.

Lemma update_parents_total objs root g : NoDup (mkeys objs) ->
  (forall id o l, mfind id objs = Some o -> In l (o_links o) -> In (l_obj l) (mkeys objs)) ->
  sd_ready objs root g ->
  exists g1, update_parents g = Some g1 /\ sd_ready objs root g1 /\ g_parents_invalid g1 = false.
Proof.
  intros Hnd Htg (Ho & Hr & Hsz & Hnp). unfold update_parents.
  destruct (g_parents_invalid g) eqn:Ei; cbn [negb].
  2:{ exists g. split; [reflexivity|]. split; [|exact Ei]. split; [exact Ho|]. split; [exact Hr|]. split; [exact Hsz|].
      intros _. apply Hnp. reflexivity. }
  set (cleared := map (fun kv => (fst kv, clear_parents (snd kv))) (g_nodes g)).
  assert (Hhasc : forall x, In x (mkeys objs) -> has cleared x).
  { intros x Hx. destruct (Hsz x Hx) as (nd & Hnd' & _). unfold has, cleared. rewrite (mfind_map_val clear_parents), Hnd'. cbn. eauto. }
  assert (Hnpc : forall x, np_of cleared x = 0).
  { intros x. unfold np_of, cleared. rewrite (mfind_map_val clear_parents). destruct (mfind x (g_nodes g)); reflexivity. }
  rewrite Ho.
  destruct (add_parents_objs_total objs cleared) as (nodes1 & Hr1 & Hh1 & Hc1).
  { intros id o lk Hin Hlk. apply Hhasc. eapply Htg; [apply mfind_of_In_nodup; [exact Hnd|exact Hin]|exact Hlk]. }
  rewrite Hr1. cbn [obind]. eexists. split; [reflexivity|]. split; [|reflexivity].
  split; [reflexivity|]. split; [exact Hr|]. cbn [g_nodes g_parents_invalid]. split.
  - intros x Hx. destruct (proj2 (Hh1 x) (Hhasc x Hx)) as (nd1 & Hnd1). exists nd1. split; [exact Hnd1|].
    destruct (add_parents_objs_size _ _ _ Hr1 x nd1 Hnd1) as (ndc & Hc & ->).
    unfold cleared in Hc. rewrite (mfind_map_val clear_parents) in Hc.
    destruct (Hsz x Hx) as (nd & Hnd' & Es). rewrite Hnd' in Hc. cbn in Hc. injection Hc as <-. cbn. exact Es.
  - intros _ x nd Hx. unfold npc. rewrite (all_targets_keys objs Hnd).
    pose proof (Hc1 x) as E. rewrite Hnpc in E. unfold np_of in E. rewrite Hx in E. lia.
Qed.

Lemma sort_loop_size Q St qpop qpush objs : forall fuel nodes q removed cur popped s nodes' removed' ord,
  sort_loop Q St qpop qpush fuel objs nodes q removed cur popped s = Some (nodes', removed', ord) ->
  same_size nodes nodes'.
Proof.
  induction fuel as [|f IH]; intros nodes q removed cur popped s nodes' removed' ord H; cbn [sort_loop] in H;
    destruct (qpop q) as [[id q0]|]; try discriminate; try (inversion H; subst; apply same_size_refl).
  destruct (mfind id objs) as [next|]; cbn [obind] in H; [|discriminate].
  destruct (mfind id nodes) as [nd|] eqn:End; cbn [obind] in H; [|discriminate].
  destruct (chk_u 32 _) as [cur'|]; cbn [obind] in H; [|discriminate].
  destruct (sort_links Q St qpush _ (o_links next) q0 removed s) as [[[q1 removed1] s1]|]; cbn [obind] in H; [|discriminate].
  eapply same_size_trans; [|eapply IH; exact H]. eapply same_size_insert; [exact End|reflexivity].
Qed.

Lemma nodes_of_objs_sizes : forall objs nodes, nodes_of_objs objs = Some nodes ->
  forall x, In x (mkeys objs) -> exists nd, mfind x nodes = Some nd /\ n_size nd = size_of objs x.
Proof.
  induction objs as [|[k o] r IH]; intros nodes H x Hx; [destruct Hx|]. cbn [nodes_of_objs] in H.
  destruct (chk_u 32 (blen (o_bytes o))) as [sz|] eqn:E; cbn [obind] in H; [|discriminate].
  destruct (nodes_of_objs r) as [rest|] eqn:Er; cbn [obind] in H; [|discriminate]. inversion H; subst.
  apply chk_u_inv in E. unfold size_of. cbn [mfind]. destruct (x =? k) eqn:Ex.
  - eexists. split; [reflexivity|]. cbn. exact E.
  - destruct Hx as [Hx|Hx]; [cbn in Hx; apply Z.eqb_neq in Ex; congruence|].
    destruct (IH _ eq_refl x Hx) as (nd & Hnd & Es). exists nd. split; [exact Hnd|exact Es].
Qed.

Lemma from_objects_sd_ready objs root g : from_objects objs root = Some g -> sd_ready objs root g.
Proof.
  unfold from_objects. intros H. destruct (nodes_of_objs objs) as [nodes|] eqn:En; cbn [obind] in H; [|discriminate].
  inversion H; subst. split; [reflexivity|]. split; [reflexivity|]. cbn [g_nodes g_parents_invalid].
  split; [apply nodes_of_objs_sizes; exact En|discriminate].
Qed.

(* TOTALITY of sort_shortest_distance *)
Theorem sort_sd_total objs root rk g : sd_ready objs root g -> dag_ok objs root rk ->
  Z.of_nat (length objs) < 2 ^ 32 ->
  exists g', sort_shortest_distance g = Some g' /\ Permutation (g_order g') (mkeys objs) /\
             sd_ready objs root g' /\ g_parents_invalid g' = false.
Proof.
  intros R D Hcnt.
  pose proof (dk_nodup _ _ _ D) as Hnd. pose proof (dk_targets _ _ _ D) as Htg. pose proof (dk_size _ _ _ D) as Hsize.
  unfold sort_shortest_distance.
  destruct (update_parents_total objs root g Hnd Htg R) as (g1 & E1 & (Ho1 & Hr1 & Hsz1 & Hnp1) & Hinv1).
  rewrite E1. cbn [obind].
  assert (Hroot1 : In (g_root g1) (mkeys objs)) by (rewrite Hr1; exact (dk_root _ _ _ D)).
  destruct (update_distances_total objs g1 Hnd Htg Hsize Ho1 Hroot1 Hsz1) as (g2 & E2 & Hsz2).
  rewrite E2. cbn [obind].
  destruct (update_distances_frame _ _ E2) as (Hp2 & Ho2 & Hr2 & _).
  assert (Hnd2 : NoDup (mkeys (g_objs g2))) by (rewrite Ho2, Ho1; exact Hnd).
  destruct (assign_space_0_total g2 Hnd2) as (g3 & E3 & Hss3).
  rewrite E3. cbn [obind].
  destruct (assign_space_0_frame _ _ E3) as (Hp3 & Ho3 & Hr3 & _).
  assert (Eobj3 : g_objs g3 = objs) by congruence.
  assert (Eroot3 : g_root g3 = root) by congruence.
  rewrite Eobj3, Eroot3.
  set (np := npc objs).
  assert (HN3 : Nnodes np (g_nodes g3)).
  { eapply same_par_Nnodes; [exact Hp3|]. eapply same_par_Nnodes; [exact Hp2|]. apply Hnp1. exact Hinv1. }
  pose proof (same_size_sizes _ _ _ _ Hss3 Hsz2) as Hsz3.
  assert (Hnodes3 : forall x, In x (mkeys objs) -> exists nd, mfind x (g_nodes g3) = Some nd).
  { intros x Hx. destruct (Hsz3 x Hx) as (nd & Hnd' & _). eauto. }
  assert (Hnp_spec : forall x, np x = cntz x (targets_of objs (mkeys objs))) by (intros; reflexivity).
  assert (Hnp_root : np root = 0).
  { rewrite Hnp_spec, (all_targets_keys objs Hnd).
    pose proof (cntz_nonneg root (all_targets_list objs)) as Hnn.
    destruct (Z.eq_dec (cntz root (all_targets_list objs)) 0) as [E0|E0]; [exact E0|exfalso].
    assert (Hin : In root (all_targets_list objs)) by (apply cntz_in_pos; lia).
    unfold all_targets_list in Hin. apply in_flat_map in Hin. destruct Hin as ([k o] & Hko & Hl).
    apply in_map_iff in Hl. destruct Hl as (l & Hl1 & Hl2). exact (dk_noroot _ _ _ D k o l Hko Hl2 Hl1). }
  assert (Hhas_parent : forall x, In x (mkeys objs) -> x <> root -> 1 <= np x).
  { intros x Hx Hne. rewrite Hnp_spec. apply cntz_pos_in.
    pose proof (dk_reach _ _ _ D x Hx) as Rc. inversion Rc as [E'|id o l R' Ho Hl E']; [congruence|].
    unfold targets_of. apply in_flat_map. exists id. split; [eapply mfind_in_keys_local; exact Ho|].
    unfold tgt. rewrite Ho. apply in_map. exact Hl. }
  set (nodes3 := g_nodes g3) in *.
  set (fuel := (2 + length nodes3 + total_links objs)%nat).
  set (q0 := [((0, 0, 0), root)] : list (Z * Z * Z * Z)).
  assert (HI0 : Inv (list (Z * Z * Z * Z)) sd_elems objs root np nodes3 q0 [] 0 []).
  { split; [exact HN3|]. split.
    - split; [cbn; repeat constructor; intros []|]. split.
      + intros x. reflexivity.
      + intros x. cbn [app targets_of flat_map q0 sd_elems map snd]. rewrite cntz_nil. split.
        * intros [<-|[]]. left. reflexivity.
        * intros [->|Hx]; [left; reflexivity|lia].
    - split; [reflexivity|]. split; [lia|]. split; intros id []. }
  assert (HE0 : Ext (list (Z * Z * Z * Z)) sd_elems objs nodes3 q0 []).
  { split; [exact Hnodes3|]. intros x [<-|[]]. exact (dk_root _ _ _ D). }
  assert (Hlen1 : (length (mkeys objs) <= length nodes3)%nat).
  { rewrite <- (map_length fst nodes3). fold (mkeys nodes3).
    apply NoDup_incl_length; [exact Hnd|].
    intros x Hx. destruct (Hnodes3 x Hx) as (nd & Hnd'). eapply mfind_in_keys_local. exact Hnd'. }
  assert (Hcnt' : Z.of_nat (length (mkeys objs)) < 2 ^ 32) by (unfold mkeys; rewrite map_length; exact Hcnt).
  destruct (sd_loop_total objs root np Hnp_root Htg Hsize Hcnt' fuel nodes3 q0 [] 0 [] 1 HI0 HE0)
    as ([[nodes' removed'] ord] & Hrun).
  { reflexivity. } { unfold fuel. cbn [length]. lia. }
  unfold sd_loop. fold fuel. fold q0. rewrite Hrun. cbn [obind].
  destruct (sort_loop_spec _ Z sd_pop sd_push sd_elems sd_pn sd_ps sd_pp objs root np Hnp_root
              fuel nodes3 q0 [] 0 [] 1 nodes' removed' ord Hrun HI0)
    as (rest & qe & Hord & Hqe & HIend & _ & _ & _).
  cbn [app] in Hord. subst rest.
  assert (Hincl : incl ord (mkeys objs)).
  { destruct HIend as (_ & _ & _ & _ & Hobjs & _). intros x Hx. destruct (Hobjs x Hx) as (o & Ho).
    eapply mfind_in_keys_local. exact Ho. }
  pose proof (sort_loop_mono _ Z sd_pop sd_push sd_push_nc sd_push_nc_of objs _ _ _ _ _ _ _ _ Hrun) as Hrun_nc.
  assert (Hpt : forall (nd : node) id (s : Z) q, sd_push_nc nd id s q <> None) by (intros; discriminate).
  assert (Hgood : rgood removed').
  { pose proof (sort_loop_rgood _ Z sd_pop sd_push_nc sd_elems sd_ps sd_pp_nc objs root np Hpt
                  Htg rk (dk_acyclic _ _ _ D) Hnp_spec Hhas_parent
                  fuel nodes3 q0 [] 0 [] 1 _ Hrun_nc) as Hg. cbn [fst snd] in Hg.
    apply Hg. split; [exact I|intros ? ? []]. }
  rewrite (final_removed_ok _ Z sd_pop sd_push_nc sd_elems sd_pn sd_ps sd_pp_nc objs root np Hpt
             Hnd Htg rk (dk_acyclic _ _ _ D) Hnp_spec Hhas_parent
             nodes' qe removed' _ ord HIend Hqe Hincl Hgood).
  cbn [obind]. eexists. split; [reflexivity|]. cbn [g_order g_objs g_root g_nodes g_parents_invalid].
  pose proof (final_all _ Z sd_pop sd_push_nc sd_elems sd_pn sd_ps sd_pp_nc objs root np Hpt
                Hnd Htg rk (dk_acyclic _ _ _ D) Hnp_spec Hhas_parent
                nodes' qe removed' _ ord HIend Hqe Hincl) as Hall.
  destruct HIend as (HNend & (J1 & _) & _). rewrite Hqe, app_nil_r in J1.
  split; [apply NoDup_Permutation; [exact J1|exact Hnd|]; intros x; split; [apply Hincl|apply Hall]|].
  split; [|reflexivity].
  split; [reflexivity|]. split; [reflexivity|]. split.
  - apply (same_size_sizes _ _ _ _ (sort_loop_size _ _ _ _ _ _ _ _ _ _ _ _ _ _ _ Hrun) Hsz3).
  - intros _. exact HNend.
Qed.

Lemma sort_loop_par Q St qpop qpush objs : forall fuel nodes q removed cur popped s nodes' removed' ord,
  sort_loop Q St qpop qpush fuel objs nodes q removed cur popped s = Some (nodes', removed', ord) ->
  same_par nodes nodes'.
Proof.
  induction fuel as [|f IH]; intros nodes q removed cur popped s nodes' removed' ord H; cbn [sort_loop] in H;
    destruct (qpop q) as [[id q0]|]; try discriminate; try (inversion H; subst; apply same_par_refl).
  destruct (mfind id objs) as [next|]; cbn [obind] in H; [|discriminate].
  destruct (mfind id nodes) as [nd|] eqn:End; cbn [obind] in H; [|discriminate].
  destruct (chk_u 32 _) as [cur'|]; cbn [obind] in H; [|discriminate].
  destruct (sort_links Q St qpush _ (o_links next) q0 removed s) as [[[q1 removed1] s1]|]; cbn [obind] in H; [|discriminate].
  eapply same_par_trans; [|eapply IH; exact H]. eapply same_par_insert; [exact End|reflexivity].
Qed.

(* the graph sort_kahn returns (the one basic_sort / pack_objects hand to sort_shortest_distance) is sd_ready *)
Lemma sort_kahn_sd_ready objs root g g' : NoDup (mkeys objs) ->
  (forall id o l, mfind id objs = Some o -> In l (o_links o) -> In (l_obj l) (mkeys objs)) ->
  sd_ready objs root g -> sort_kahn g = Some g' -> sd_ready objs root g'.
Proof.
  intros Hnd Htg R H. unfold sort_kahn in H.
  destruct (length (g_nodes g) <=? 1)%nat.
  - inversion H; subst. destruct R as (Ho & Hr & Hsz & Hnp). repeat split; assumption.
  - destruct (update_parents_total objs root g Hnd Htg R) as (g1 & E1 & (Ho1 & Hr1 & Hsz1 & Hnp1) & Hinv1).
    rewrite E1 in H. cbn [obind] in H.
    destruct (kahn_loop _ _ _ _ _ _ _ _) as [[[nodes removed] order]|] eqn:El; cbn [obind] in H; [|discriminate].
    destruct (removed_ok nodes removed) as [ok|]; cbn [obind] in H; [|discriminate].
    destruct ok; [|discriminate]. inversion H; subst g'. unfold kahn_loop in El.
    split; [exact Ho1|]. split; [exact Hr1|]. cbn [g_nodes g_parents_invalid]. split.
    + apply (same_size_sizes _ _ _ _ (sort_loop_size _ _ _ _ _ _ _ _ _ _ _ _ _ _ _ El) Hsz1).
    + intros _. eapply same_par_Nnodes; [eapply sort_loop_par; exact El|]. apply Hnp1. exact Hinv1.
Qed.

Lemma sd_ready_side objs root rk g : dag_ok objs root rk -> sd_ready objs root g -> Side objs root g.
Proof.
  intros D (Ho & Hr & _ & Hnp). split; [exact Ho|]. split; [exact Hr|]. intros Hi.
  unfold np_of. destruct (mfind root (g_nodes g)) as [nd|] eqn:E; [|reflexivity].
  rewrite (Hnp Hi root nd E). unfold npc. rewrite (all_targets_keys objs (dk_nodup _ _ _ D)).
  pose proof (cntz_nonneg root (all_targets_list objs)) as Hnn.
  destruct (Z.eq_dec (cntz root (all_targets_list objs)) 0) as [E0|E0]; [exact E0|exfalso].
  assert (Hin : In root (all_targets_list objs)) by (apply cntz_in_pos; lia).
  unfold all_targets_list in Hin. apply in_flat_map in Hin. destruct Hin as ([k o] & Hko & Hl).
  apply in_map_iff in Hl. destruct Hl as (l & Hl1 & Hl2). exact (dk_noroot _ _ _ D k o l Hko Hl2 Hl1).
Qed.

(* sort_shortest_distance on an acyclic graph all of whose objects are reachable from the root, total size < 2^32,
   fewer than 2^32 objects: TOTAL CORRECTNESS (no panic outcome; the order lists every object exactly once, root first,
   every parent before each child; recorded positions = prefix sums) — for every graph in the state sd_ready. *)
Theorem sort_shortest_total_ready objs root rk g :
  sd_ready objs root g -> dag_ok objs root rk -> Z.of_nat (length objs) < 2 ^ 32 ->
  exists g', sort_shortest_distance g = Some g' /\
    NoDup (g_order g') /\ Permutation (g_order g') (mkeys objs) /\ (exists r, g_order g' = root :: r) /\
    (forall id o l, In id (g_order g') -> mfind id objs = Some o -> In l (o_links o) ->
       precedes (g_order g') id (l_obj l)) /\
    positions_match g' /\ sd_ready objs root g'.
Proof.
  intros R D Hcnt. destruct (sort_sd_total _ _ _ _ R D Hcnt) as (g' & Hrun & HP & R' & _).
  destruct (sort_sd_sorted _ _ _ _ (sd_ready_side _ _ _ _ D R) (dk_noroot _ _ _ D) Hrun) as ((Ho' & _) & np & S).
  exists g'. split; [exact Hrun|]. split; [exact (so_nodup _ _ _ _ _ S)|]. split; [exact HP|].
  split; [exact (so_root _ _ _ _ _ S)|]. split; [exact (so_topo _ _ _ _ _ S)|]. split; [|exact R'].
  intros id Hid. rewrite Ho'. exact (so_pos _ _ _ _ _ S id Hid).
Qed.

(* ... on the graph Graph::from_objects builds *)
Theorem sort_shortest_total objs root rk g :
  from_objects objs root = Some g -> dag_ok objs root rk -> Z.of_nat (length objs) < 2 ^ 32 ->
  exists g', sort_shortest_distance g = Some g' /\
    NoDup (g_order g') /\ Permutation (g_order g') (mkeys objs) /\ (exists r, g_order g' = root :: r) /\
    (forall id o l, In id (g_order g') -> mfind id objs = Some o -> In l (o_links o) ->
       precedes (g_order g') id (l_obj l)) /\
    positions_match g'.
Proof.
  intros Hfrom D Hcnt.
  destruct (sort_shortest_total_ready _ _ _ _ (from_objects_sd_ready _ _ _ Hfrom) D Hcnt) as (g' & H1 & H2 & H3 & H4 & H5 & H6 & _).
  exists g'. repeat split; assumption.
Qed.

(* ... and as basic_sort / pack_objects call it: on whatever sort_kahn returned, any number of times *)
Theorem sort_shortest_total_after_kahn objs root rk g g1 :
  from_objects objs root = Some g -> dag_ok objs root rk -> Z.of_nat (length objs) < 2 ^ 32 ->
  sort_kahn g = Some g1 ->
  exists g2, sort_shortest_distance g1 = Some g2 /\ Permutation (g_order g2) (mkeys objs) /\ positions_match g2 /\
  exists g3, sort_shortest_distance g2 = Some g3 /\ Permutation (g_order g3) (mkeys objs) /\ positions_match g3.
Proof.
  intros Hfrom D Hcnt Hk.
  pose proof (sort_kahn_sd_ready _ _ _ _ (dk_nodup _ _ _ D) (dk_targets _ _ _ D) (from_objects_sd_ready _ _ _ Hfrom) Hk) as R1.
  destruct (sort_shortest_total_ready _ _ _ _ R1 D Hcnt) as (g2 & H1 & _ & H3 & _ & _ & H6 & R2).
  exists g2. split; [exact H1|]. split; [exact H3|]. split; [exact H6|].
  destruct (sort_shortest_total_ready _ _ _ _ R2 D Hcnt) as (g3 & K1 & _ & K3 & _ & _ & K6 & _).
  exists g3. repeat split; assumption.
Qed.

(* ------------------------------------------------------------------------------------------ *)
(* decidable form of the hypotheses (dag_ok + the two size bounds), evaluated on every correspondence
   case by [check_case_t]: [ord] is any listing in which every link goes forward (its index is the rank) *)

Definition idxn (ord : list Z) (x : Z) : nat := match index_of x ord with Some n => n | None => O end.

Definition dag_okb (objs : zmap obj) (root : Z) (ord : list Z) : bool :=
  nodupb (mkeys objs) && zmem root (mkeys objs) &&
  forallb (fun kv => forallb (fun l => negb (l_obj l =? root) && zmem (l_obj l) (mkeys objs) &&
                                       (idxn ord (fst kv) <? idxn ord (l_obj l))%nat) (o_links (snd kv))) objs &&
  forallb (fun x => (x =? root) || zmem x (all_targets_list objs)) (mkeys objs) &&
  (total_size objs (mkeys objs) <? 2 ^ 32) && (Z.of_nat (length objs) <? 2 ^ 32).

Lemma dag_okb_sound objs root ord : dag_okb objs root ord = true ->
  dag_ok objs root (idxn ord) /\ Z.of_nat (length objs) < 2 ^ 32.
Proof.
  unfold dag_okb. intros H.
  apply andb_prop in H. destruct H as (H & C).
  apply andb_prop in H. destruct H as (H & C0).
  apply andb_prop in H. destruct H as (H & C2).
  apply andb_prop in H. destruct H as (H & C3).
  apply andb_prop in H. destruct H as (C5 & C4).
  apply nodupb_sound in C5. apply zmem_true in C4.
  apply Z.ltb_lt in C0. apply Z.ltb_lt in C. split; [|exact C].
  rewrite forallb_forall in C3, C2.
  assert (Hlink : forall id o l, In (id, o) objs -> In l (o_links o) ->
            l_obj l <> root /\ In (l_obj l) (mkeys objs) /\ (idxn ord id < idxn ord (l_obj l))%nat).
  { intros id o l Hin Hl. specialize (C3 _ Hin). cbn [fst snd] in C3. rewrite forallb_forall in C3.
    specialize (C3 _ Hl). apply andb_prop in C3. destruct C3 as (C3 & C3c). apply andb_prop in C3. destruct C3 as (C3a & C3b).
    split; [apply Z.eqb_neq; destruct (l_obj l =? root); [discriminate|reflexivity]|].
    split; [apply zmem_true; exact C3b|apply Nat.ltb_lt; exact C3c]. }
  constructor; try assumption.
  - intros id o l Ho Hl. exact (proj1 (proj2 (Hlink id o l (mfind_In _ _ _ Ho) Hl))).
  - intros id o l Ho Hl. exact (proj2 (proj2 (Hlink id o l (mfind_In _ _ _ Ho) Hl))).
  - assert (Hgen : forall n x, idxn ord x = n -> In x (mkeys objs) -> reach objs root x).
    { induction n as [n IHn] using lt_wf_ind. intros x Hrk Hx.
      specialize (C2 x Hx). apply orb_prop in C2. destruct C2 as [E|E].
      - apply Z.eqb_eq in E. subst x. constructor.
      - apply zmem_true in E. unfold all_targets_list in E. apply in_flat_map in E. destruct E as ([k o] & Hko & Hl).
        cbn [snd] in Hl. apply in_map_iff in Hl. destruct Hl as (l & <- & Hl).
        destruct (Hlink k o l Hko Hl) as (_ & _ & Hlt).
        eapply reach_step; [|apply mfind_of_In_nodup; [exact C5|exact Hko]|exact Hl].
        apply (IHn (idxn ord k)); [lia|reflexivity|].
        unfold mkeys. apply (in_map fst) in Hko. exact Hko. }
    intros x Hx. exact (Hgen _ x eq_refl Hx).
  - intros id o l Hin Hl. exact (proj1 (Hlink id o l Hin Hl)).
Qed.

(* Evaluated on EVERY correspondence case (harness/src/bin/c05.rs writes [check_case_t] into the shards): besides
   [check_case] (model = implementation, byte for byte) the hypotheses of the totality theorems must hold of the object
   map the store produced — rank = position in the model's own Kahn order, both size bounds — so that
   c05_sort_shortest_total / c05_kahn_order_topological apply to exactly the graphs compared with the implementation. *)
Definition totality_hypsb (c : case_ty) : bool :=
  let '(d, (base, step), _) := c in
  match add_table (S (length d)) d 0%nat (mkStore [] (id_stream base step (40 * length d + 40))) with
  | None => true
  | Some (st, root) =>
      let objs := objs_of_store (st_objs st) in
      match from_objects objs root with
      | None => true
      | Some g => match sort_kahn g with
                  | None => true
                  | Some g1 => dag_okb objs root (g_order g1)
                  end
      end
  end.
(* the hypotheses of c05_duplicate_subgraph_preserves (coq/C05/Dup.v) in the state in which pack_objects enters the
   space-assignment path: the rest of the id stream is duplicate-free and disjoint from the object ids, every link
   target exists *)
Definition dup_hypsb (c : case_ty) : bool :=
  let '(d, (base, step), _) := c in
  match add_table (S (length d)) d 0%nat (mkStore [] (id_stream base step (40 * length d + 40))) with
  | None => true
  | Some (st, root) =>
      let objs := objs_of_store (st_objs st) in freshb objs (st_ids st) && closedb objs
  end.
Definition check_case_t (c : case_ty) : bool := check_case c && totality_hypsb c && dup_hypsb c.
