(* C05 — proofs about the model of Graph::serialize / has_overflows / pack_objects.
   Main result: [serialize_sound] (the gate theorem). *)
From Coq Require Import ZArith List Bool Lia Permutation.
From FV Require Import Lib.RustInt C05.Model.
Import ListNotations.
Open Scope Z_scope.
Ltac Zify.zify_post_hook ::= Z.div_mod_to_equations.

(* ------------------------------------------------------------------------------------------ *)
(* specification vocabulary                                                                    *)

Definition znth (i : Z) (l : list Z) : Z := nth (Z.to_nat i) l 0.
Definition slice (l : list Z) (p n : Z) : list Z := firstn (Z.to_nat n) (skipn (Z.to_nat p) l).

Definition in_field (l : link) (i : Z) : Prop := l_pos l <= i < l_pos l + l_width l.
Definition field_of (o : obj) (i : Z) : Prop := exists l, In l (o_links o) /\ in_field l i.

(* [Resolves objs out pos id]: the bytes of [out] at [pos] are a copy of object [id] in which every
   link field holds a big-endian integer v of the link's width such that object [l_obj l] is
   (recursively) present at pos + adjustment + v.  Inductive: well-founded unfolding, i.e. only
   holds of finite (acyclic) unfoldings. *)
Inductive Resolves (objs : zmap obj) (out : list Z) : Z -> Z -> Prop :=
| Res : forall pos id o,
    mfind id objs = Some o ->
    0 <= pos -> pos + blen (o_bytes o) <= blen out ->
    (forall i, 0 <= i < blen (o_bytes o) -> ~ field_of o i ->
               znth (pos + i) out = znth i (o_bytes o)) ->
    (forall l, In l (o_links o) ->
               Resolves objs out (pos + l_adj l + from_be (slice out (pos + l_pos l) (l_width l))) (l_obj l)) ->
    Resolves objs out pos id.

(* link fields of an object: widths 2/3/4, inside the object's bytes, ascending and disjoint
   (what TableData::add_offset produces) *)
Fixpoint links_wf (lo : Z) (ls : list link) (len : Z) : Prop :=
  match ls with
  | [] => True
  | l :: r => lo <= l_pos l /\ (l_width l = 2 \/ l_width l = 3 \/ l_width l = 4) /\
              l_pos l + l_width l <= len /\ links_wf (l_pos l + l_width l) r len
  end.
Definition obj_wf (o : obj) : Prop := links_wf 0 (o_links o) (blen (o_bytes o)).

Definition size_of (objs : zmap obj) (id : Z) : Z :=
  match mfind id objs with Some o => blen (o_bytes o) | None => 0 end.
Definition bytes_of (objs : zmap obj) (id : Z) : list Z :=
  match mfind id objs with Some o => o_bytes o | None => [] end.
(* prefix sums: position of (the first occurrence of) [id] in the layout [ord] *)
Fixpoint posof (objs : zmap obj) (ord : list Z) (id : Z) : Z :=
  match ord with
  | [] => 0
  | x :: r => if x =? id then 0 else size_of objs x + posof objs r id
  end.
Definition total_size (objs : zmap obj) (ord : list Z) : Z :=
  fold_right (fun id acc => size_of objs id + acc) 0 ord.
Definition cat (objs : zmap obj) (ord : list Z) : list Z := concat (map (bytes_of objs) ord).

(* a precedes b in ord *)
Definition precedes (ord : list Z) (a b : Z) : Prop :=
  exists l1 l2 l3, ord = l1 ++ a :: l2 ++ b :: l3.

(* ------------------------------------------------------------------------------------------ *)
(* list helpers                                                                                *)

Lemma blen_app a b : blen (a ++ b) = blen a + blen b.
Proof. unfold blen. rewrite app_length. lia. Qed.
Lemma blen_nonneg a : 0 <= blen a.
Proof. unfold blen. lia. Qed.

Lemma chk_u_some bits z : 0 <= z < 2 ^ bits -> chk_u bits z = Some z.
Proof.
  intros H. unfold chk_u, in_u.
  destruct (0 <=? z) eqn:E1; destruct (z <? 2 ^ bits) eqn:E2; cbn; try reflexivity; lia.
Qed.

Lemma firstn_app_exact {A} (a b : list A) n : n = length a -> firstn n (a ++ b) = a.
Proof. intros ->. rewrite firstn_app, Nat.sub_diag, firstn_all. cbn. apply app_nil_r. Qed.
Lemma skipn_app_exact {A} (a b : list A) n : n = length a -> skipn n (a ++ b) = b.
Proof. intros ->. rewrite skipn_app, Nat.sub_diag, skipn_all. reflexivity. Qed.

Lemma nth_firstn_lt {A} (l : list A) n i d : (i < n)%nat -> nth i (firstn n l) d = nth i l d.
Proof.
  revert n i. induction l as [|x r IH]; intros n i H.
  - rewrite firstn_nil. reflexivity.
  - destruct n; [lia|]. destruct i; cbn; [reflexivity|]. apply IH. lia.
Qed.
Lemma nth_skipn {A} (l : list A) n i d : nth i (skipn n l) d = nth (n + i) l d.
Proof.
  revert l. induction n as [|n IH]; intros l; [reflexivity|].
  destruct l; cbn; [destruct i; reflexivity|]. apply IH.
Qed.

(* the list produced by one write, inside a single object's bytes *)
Definition patch1 (B : list Z) (p : nat) (bs : list Z) : list Z :=
  firstn p B ++ bs ++ skipn (p + length bs) B.

Lemma patch1_length B p bs : (p + length bs <= length B)%nat -> length (patch1 B p bs) = length B.
Proof.
  intros H. unfold patch1. rewrite !app_length, firstn_length, skipn_length. lia.
Qed.
Lemma patch1_nth_out B p bs i : (p + length bs <= length B)%nat ->
  (i < p \/ p + length bs <= i)%nat -> nth i (patch1 B p bs) 0 = nth i B 0.
Proof.
  intros H Hi. unfold patch1. destruct Hi as [Hi|Hi].
  - rewrite app_nth1 by (rewrite firstn_length; lia). apply nth_firstn_lt. exact Hi.
  - rewrite app_nth2 by (rewrite firstn_length; lia). rewrite firstn_length.
    rewrite app_nth2 by lia. rewrite nth_skipn. f_equal. lia.
Qed.
Lemma patch1_firstn B p bs n : (n <= p)%nat -> (p <= length B)%nat ->
  firstn n (patch1 B p bs) = firstn n B.
Proof.
  intros Hn Hp. unfold patch1. rewrite firstn_app. rewrite firstn_length.
  replace (n - Nat.min p (length B))%nat with O by lia. cbn. rewrite app_nil_r.
  rewrite firstn_firstn. f_equal. lia.
Qed.
Lemma patch1_slice B p bs : (p + length bs <= length B)%nat ->
  firstn (length bs) (skipn p (patch1 B p bs)) = bs.
Proof.
  intros H. unfold patch1. rewrite skipn_app_exact by (rewrite firstn_length; lia).
  apply firstn_app_exact. reflexivity.
Qed.

Lemma write_at_mid A B C p bs : 0 <= p -> p + blen bs <= blen B ->
  write_at (A ++ B ++ C) (blen A + p) bs = Some (A ++ patch1 B (Z.to_nat p) bs ++ C).
Proof.
  intros Hp Hb. unfold write_at, blen in *.
  rewrite !app_length.
  destruct ((0 <=? Z.of_nat (length A) + p) &&
            (Z.of_nat (length A) + p + Z.of_nat (length bs) <=? Z.of_nat (length A + (length B + length C)))) eqn:E; [|lia].
  f_equal.
  replace (Z.to_nat (Z.of_nat (length A) + p)) with (length A + Z.to_nat p)%nat by lia.
  unfold patch1. set (n := Z.to_nat p).
  assert (Hn : (n + length bs <= length B)%nat) by lia.
  rewrite firstn_app. rewrite firstn_all2 by lia.
  replace (length A + n - length A)%nat with n by lia.
  rewrite firstn_app. replace (n - length B)%nat with O by lia. cbn [firstn]. rewrite app_nil_r.
  rewrite skipn_app. rewrite skipn_all2 by lia. cbn [app].
  replace (length A + n + length bs - length A)%nat with (n + length bs)%nat by lia.
  rewrite skipn_app. replace (n + length bs - length B)%nat with O by lia. cbn [skipn].
  rewrite <- !app_assoc. reflexivity.
Qed.

(* ------------------------------------------------------------------------------------------ *)
(* second pass, one object                                                                     *)

Definition absof (offs : zmap Z) (l : link) : Z :=
  match mfind (l_obj l) offs with Some a => a | None => 0 end.
Definition relof (offs : zmap Z) (head : Z) (l : link) : Z := absof offs l - (head + l_adj l).

(* what the checks of pass2_links need for one link *)
Definition link_ok (offs : zmap Z) (head : Z) (l : link) : Prop :=
  (exists a, mfind (l_obj l) offs = Some a) /\ 0 <= l_adj l /\
  head + l_adj l < 2 ^ 32 /\ head + l_pos l < 2 ^ 32 /\
  0 <= relof offs head l <= max_value (l_width l) /\ relof offs head l < 2 ^ 32.

Lemma offset_bytes_ok w rel : (w = 2 \/ w = 3 \/ w = 4) -> 0 <= rel <= max_value w ->
  offset_bytes w rel = Some (to_be (Z.to_nat w) rel).
Proof.
  intros Hw Hr. unfold offset_bytes, max_value in *.
  destruct Hw as [-> | [-> | ->]]; cbn in *.
  - destruct (rel <=? 65535) eqn:E; [reflexivity|lia].
  - destruct (rel <=? 16777215) eqn:E; [reflexivity|lia].
  - reflexivity.
Qed.

Lemma links_spec offs head A C : forall ls lo B,
  0 <= lo -> 0 <= head -> links_wf lo ls (blen B) -> blen A = head ->
  (forall l, In l ls -> link_ok offs head l) ->
  exists B', pass2_links offs head ls (A ++ B ++ C) = Some (A ++ B' ++ C)
    /\ length B' = length B
    /\ firstn (Z.to_nat lo) B' = firstn (Z.to_nat lo) B
    /\ (forall i, 0 <= i < blen B -> (forall l, In l ls -> ~ in_field l i) -> znth i B' = znth i B)
    /\ (forall l, In l ls -> slice B' (l_pos l) (l_width l) = to_be (Z.to_nat (l_width l)) (relof offs head l)).
Proof.
  induction ls as [|l r IH]; intros lo B Hlo Hhead Hwf HA Hok.
  - exists B. cbn. repeat split; auto. intros l [].
  - cbn [links_wf] in Hwf. destruct Hwf as (Hlo' & Hw & Hend & Hwf).
    destruct (Hok l (or_introl eq_refl)) as ((a & Ha) & Hadj & Hb1 & Hb2 & Hrel & Hrel32).
    set (w := l_width l) in *. set (p := l_pos l) in *.
    set (bs := to_be (Z.to_nat w) (relof offs head l)).
    assert (Hbl : length bs = Z.to_nat w) by (apply to_be_length).
    assert (Hbl' : blen bs = w) by (unfold blen; rewrite Hbl; lia).
    set (B1 := patch1 B (Z.to_nat p) bs).
    assert (Hfit : (Z.to_nat p + length bs <= length B)%nat) by (unfold blen in Hend; lia).
    assert (HB1len : length B1 = length B) by (apply patch1_length; exact Hfit).
    destruct (IH (p + w) B1) as (B' & Hrun & Hlen & Hpre & Hout & Hsl); try lia.
    { unfold blen. rewrite HB1len. exact Hwf. }
    { exact HA. }
    { intros l' Hin. apply Hok. right. exact Hin. }
    exists B'. split; [|split; [|split; [|split]]].
    + cbn [pass2_links]. rewrite Ha. cbn [obind].
      rewrite chk_u_some by (unfold link_ok in *; lia). cbn [obind].
      assert (Hrelv : a - (head + l_adj l) = relof offs head l).
      { unfold relof, absof. rewrite Ha. reflexivity. }
      rewrite Hrelv. rewrite chk_u_some by lia. cbn [obind].
      rewrite chk_u_some by lia. cbn [obind].
      fold w. rewrite offset_bytes_ok by (auto; lia). cbn [obind]. fold bs.
      rewrite <- HA. fold p. rewrite write_at_mid by lia. cbn [obind]. fold B1. exact Hrun.
    + lia.
    + (* prefix below lo untouched *)
      assert (E : firstn (Z.to_nat lo) B' = firstn (Z.to_nat lo) (firstn (Z.to_nat (p + w)) B')).
      { rewrite firstn_firstn. f_equal. lia. }
      rewrite E, Hpre, firstn_firstn. replace (Nat.min (Z.to_nat lo) (Z.to_nat (p + w))) with (Z.to_nat lo) by lia.
      apply patch1_firstn; unfold blen in *; lia.
    + intros i Hi Hnf. rewrite Hout.
      * unfold znth, B1. apply patch1_nth_out; [exact Hfit|].
        assert (~ in_field l i) by (apply Hnf; left; reflexivity).
        unfold in_field in H. fold p w in H. lia.
      * unfold blen. rewrite HB1len. exact Hi.
      * intros l' Hin. apply Hnf. right. exact Hin.
    + intros l' [<-|Hin].
      * fold p w. unfold slice.
        assert (E : firstn (Z.to_nat w) (skipn (Z.to_nat p) B') =
                    skipn (Z.to_nat p) (firstn (Z.to_nat (p + w)) B')).
        { rewrite firstn_skipn_comm. f_equal. f_equal. lia. }
        rewrite E, Hpre. replace (Z.to_nat (p + w)) with (Z.to_nat p + Z.to_nat w)%nat by lia.
        rewrite <- firstn_skipn_comm. rewrite <- Hbl. unfold B1. apply patch1_slice. exact Hfit.
      * apply Hsl. exact Hin.
Qed.
