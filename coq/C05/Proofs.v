(* C05 — proofs about the model of Graph::serialize / has_overflows / pack_objects.
   Main result: [serialize_sound] (the gate theorem). *)
From Coq Require Import ZArith List Bool Lia Permutation.
From FV Require Import Lib.RustInt C05.Model.
Import ListNotations.
Open Scope Z_scope.
Ltac Zify.zify_post_hook ::= Z.div_mod_to_equations.

(* ------------------------------------------------------------------------------------------ *)
(* specification vocabulary                                                                    *)

Definition znth (i : Z) (l : list Z) : Z := nth (Z.to_nat i) l 0.
Definition slice (l : list Z) (p n : Z) : list Z := firstn (Z.to_nat n) (skipn (Z.to_nat p) l).

Definition in_field (l : link) (i : Z) : Prop := l_pos l <= i < l_pos l + l_width l.
Definition field_of (o : obj) (i : Z) : Prop := exists l, In l (o_links o) /\ in_field l i.

(* [Resolves objs out pos id]: the bytes of [out] at [pos] are a copy of object [id] in which every
   link field holds a big-endian integer v of the link's width such that object [l_obj l] is
   (recursively) present at pos + adjustment + v.  Inductive: well-founded unfolding, i.e. only
   holds of finite (acyclic) unfoldings. *)
Inductive Resolves (objs : zmap obj) (out : list Z) : Z -> Z -> Prop :=
| Res : forall pos id o,
    mfind id objs = Some o ->
    0 <= pos -> pos + blen (o_bytes o) <= blen out ->
    (forall i, 0 <= i < blen (o_bytes o) -> ~ field_of o i ->
               znth (pos + i) out = znth i (o_bytes o)) ->
    (forall l, In l (o_links o) ->
               Resolves objs out (pos + l_adj l + from_be (slice out (pos + l_pos l) (l_width l))) (l_obj l)) ->
    Resolves objs out pos id.

(* link fields of an object: widths 2/3/4, inside the object's bytes, ascending and disjoint
   (what TableData::add_offset produces) *)
Fixpoint links_wf (lo : Z) (ls : list link) (len : Z) : Prop :=
  match ls with
  | [] => True
  | l :: r => lo <= l_pos l /\ (l_width l = 2 \/ l_width l = 3 \/ l_width l = 4) /\
              l_pos l + l_width l <= len /\ links_wf (l_pos l + l_width l) r len
  end.
Definition obj_wf (o : obj) : Prop := links_wf 0 (o_links o) (blen (o_bytes o)).

Definition cat (objs : zmap obj) (ord : list Z) : list Z := concat (map (bytes_of objs) ord).

(* a precedes b in ord *)
Definition precedes (ord : list Z) (a b : Z) : Prop :=
  exists l1 l2 l3, ord = l1 ++ a :: l2 ++ b :: l3.

(* ------------------------------------------------------------------------------------------ *)
(* list helpers                                                                                *)

Lemma blen_app a b : blen (a ++ b) = blen a + blen b.
Proof. unfold blen. rewrite app_length. lia. Qed.
Lemma blen_nonneg a : 0 <= blen a.
Proof. unfold blen. lia. Qed.

Lemma chk_u_some bits z : 0 <= z < 2 ^ bits -> chk_u bits z = Some z.
Proof.
  intros H. unfold chk_u, in_u.
  destruct (0 <=? z) eqn:E1; destruct (z <? 2 ^ bits) eqn:E2; cbn; try reflexivity; lia.
Qed.

Lemma firstn_app_exact {A} (a b : list A) n : n = length a -> firstn n (a ++ b) = a.
Proof. intros ->. rewrite firstn_app, Nat.sub_diag, firstn_all. cbn. apply app_nil_r. Qed.
Lemma skipn_app_exact {A} (a b : list A) n : n = length a -> skipn n (a ++ b) = b.
Proof. intros ->. rewrite skipn_app, Nat.sub_diag, skipn_all. reflexivity. Qed.

Lemma nth_firstn_lt {A} (l : list A) n i d : (i < n)%nat -> nth i (firstn n l) d = nth i l d.
Proof.
  revert n i. induction l as [|x r IH]; intros n i H.
  - rewrite firstn_nil. reflexivity.
  - destruct n; [lia|]. destruct i; cbn; [reflexivity|]. apply IH. lia.
Qed.
Lemma nth_skipn {A} (l : list A) n i d : nth i (skipn n l) d = nth (n + i) l d.
Proof.
  revert l. induction n as [|n IH]; intros l; [reflexivity|].
  destruct l; cbn; [destruct i; reflexivity|]. apply IH.
Qed.

(* the list produced by one write, inside a single object's bytes *)
Definition patch1 (B : list Z) (p : nat) (bs : list Z) : list Z :=
  firstn p B ++ bs ++ skipn (p + length bs) B.

Lemma patch1_length B p bs : (p + length bs <= length B)%nat -> length (patch1 B p bs) = length B.
Proof.
  intros H. unfold patch1. rewrite !app_length, firstn_length, skipn_length. lia.
Qed.
Lemma patch1_nth_out B p bs i : (p + length bs <= length B)%nat ->
  (i < p \/ p + length bs <= i)%nat -> nth i (patch1 B p bs) 0 = nth i B 0.
Proof.
  intros H Hi. unfold patch1. destruct Hi as [Hi|Hi].
  - rewrite app_nth1 by (rewrite firstn_length; lia). apply nth_firstn_lt. exact Hi.
  - rewrite app_nth2 by (rewrite firstn_length; lia). rewrite firstn_length.
    rewrite app_nth2 by lia. rewrite nth_skipn. f_equal. lia.
Qed.
Lemma patch1_firstn B p bs n : (n <= p)%nat -> (p <= length B)%nat ->
  firstn n (patch1 B p bs) = firstn n B.
Proof.
  intros Hn Hp. unfold patch1. rewrite firstn_app. rewrite firstn_length.
  replace (n - Nat.min p (length B))%nat with O by lia. cbn. rewrite app_nil_r.
  rewrite firstn_firstn. f_equal. lia.
Qed.
Lemma patch1_slice B p bs : (p + length bs <= length B)%nat ->
  firstn (length bs) (skipn p (patch1 B p bs)) = bs.
Proof.
  intros H. unfold patch1. rewrite skipn_app_exact by (rewrite firstn_length; lia).
  apply firstn_app_exact. reflexivity.
Qed.

Lemma write_at_mid A B C p bs : 0 <= p -> p + blen bs <= blen B ->
  write_at (A ++ B ++ C) (blen A + p) bs = Some (A ++ patch1 B (Z.to_nat p) bs ++ C).
Proof.
  intros Hp Hb. unfold write_at, blen in *.
  rewrite !app_length.
  destruct ((0 <=? Z.of_nat (length A) + p) &&
            (Z.of_nat (length A) + p + Z.of_nat (length bs) <=? Z.of_nat (length A + (length B + length C)))) eqn:E; [|lia].
  f_equal.
  replace (Z.to_nat (Z.of_nat (length A) + p)) with (length A + Z.to_nat p)%nat by lia.
  unfold patch1. set (n := Z.to_nat p).
  assert (Hn : (n + length bs <= length B)%nat) by lia.
  rewrite firstn_app. rewrite firstn_all2 by lia.
  replace (length A + n - length A)%nat with n by lia.
  rewrite firstn_app. replace (n - length B)%nat with O by lia. cbn [firstn]. rewrite app_nil_r.
  rewrite skipn_app. rewrite skipn_all2 by lia. cbn [app].
  replace (length A + n + length bs - length A)%nat with (n + length bs)%nat by lia.
  rewrite skipn_app. replace (n + length bs - length B)%nat with O by lia. cbn [skipn].
  rewrite <- !app_assoc. reflexivity.
Qed.

(* ------------------------------------------------------------------------------------------ *)
(* second pass, one object                                                                     *)

Definition absof (offs : zmap Z) (l : link) : Z :=
  match mfind (l_obj l) offs with Some a => a | None => 0 end.
Definition relof (offs : zmap Z) (head : Z) (l : link) : Z := absof offs l - (head + l_adj l).

(* what the checks of pass2_links need for one link *)
Definition link_ok (offs : zmap Z) (head : Z) (l : link) : Prop :=
  (exists a, mfind (l_obj l) offs = Some a) /\ 0 <= l_adj l /\
  head + l_adj l < 2 ^ 32 /\ head + l_pos l < 2 ^ 32 /\
  0 <= relof offs head l <= max_value (l_width l) /\ relof offs head l < 2 ^ 32.

Lemma offset_bytes_ok w rel : (w = 2 \/ w = 3 \/ w = 4) -> 0 <= rel <= max_value w ->
  offset_bytes w rel = Some (to_be (Z.to_nat w) rel).
Proof.
  intros Hw Hr. unfold offset_bytes, max_value in *.
  destruct Hw as [-> | [-> | ->]]; cbn in *.
  - destruct (rel <=? 65535) eqn:E; [reflexivity|lia].
  - destruct (rel <=? 16777215) eqn:E; [reflexivity|lia].
  - reflexivity.
Qed.

Lemma links_spec offs head A C : forall ls lo B,
  0 <= lo -> 0 <= head -> links_wf lo ls (blen B) -> blen A = head ->
  (forall l, In l ls -> link_ok offs head l) ->
  exists B', pass2_links offs head ls (A ++ B ++ C) = Some (A ++ B' ++ C)
    /\ length B' = length B
    /\ firstn (Z.to_nat lo) B' = firstn (Z.to_nat lo) B
    /\ (forall i, 0 <= i < blen B -> (forall l, In l ls -> ~ in_field l i) -> znth i B' = znth i B)
    /\ (forall l, In l ls -> slice B' (l_pos l) (l_width l) = to_be (Z.to_nat (l_width l)) (relof offs head l)).
Proof.
  induction ls as [|l r IH]; intros lo B Hlo Hhead Hwf HA Hok.
  - exists B. cbn. repeat split; auto. intros l [].
  - cbn [links_wf] in Hwf. destruct Hwf as (Hlo' & Hw & Hend & Hwf).
    destruct (Hok l (or_introl eq_refl)) as ((a & Ha) & Hadj & Hb1 & Hb2 & Hrel & Hrel32).
    set (w := l_width l) in *. set (p := l_pos l) in *.
    set (bs := to_be (Z.to_nat w) (relof offs head l)).
    assert (Hbl : length bs = Z.to_nat w) by (apply to_be_length).
    assert (Hbl' : blen bs = w) by (unfold blen; rewrite Hbl; lia).
    set (B1 := patch1 B (Z.to_nat p) bs).
    assert (Hfit : (Z.to_nat p + length bs <= length B)%nat) by (unfold blen in Hend; lia).
    assert (HB1len : length B1 = length B) by (apply patch1_length; exact Hfit).
    destruct (IH (p + w) B1) as (B' & Hrun & Hlen & Hpre & Hout & Hsl); try lia.
    { unfold blen. rewrite HB1len. exact Hwf. }
    { intros l' Hin. apply Hok. right. exact Hin. }
    exists B'. split; [|split; [|split; [|split]]].
    + cbn [pass2_links]. rewrite Ha. cbn [obind].
      rewrite chk_u_some by (unfold link_ok in *; lia). cbn [obind].
      assert (Hrelv : a - (head + l_adj l) = relof offs head l).
      { unfold relof, absof. rewrite Ha. reflexivity. }
      rewrite Hrelv. rewrite chk_u_some by lia. cbn [obind].
      rewrite chk_u_some by lia. cbn [obind].
      fold w. rewrite offset_bytes_ok by (auto; lia). cbn [obind]. fold bs.
      fold p. replace (head + p) with (blen A + p) by lia. rewrite write_at_mid by lia. cbn [obind]. fold B1. exact Hrun.
    + lia.
    + (* prefix below lo untouched *)
      assert (E : firstn (Z.to_nat lo) B' = firstn (Z.to_nat lo) (firstn (Z.to_nat (p + w)) B')).
      { rewrite firstn_firstn. f_equal. lia. }
      rewrite E, Hpre, firstn_firstn. replace (Nat.min (Z.to_nat lo) (Z.to_nat (p + w))) with (Z.to_nat lo) by lia.
      apply patch1_firstn; unfold blen in *; lia.
    + intros i Hi Hnf. rewrite Hout.
      * unfold znth, B1. apply patch1_nth_out; [exact Hfit|].
        assert (~ in_field l i) by (apply Hnf; left; reflexivity).
        unfold in_field in H. fold p w in H. lia.
      * unfold blen. rewrite HB1len. exact Hi.
      * intros l' Hin. apply Hnf. right. exact Hin.
    + intros l' [<-|Hin].
      * fold p w. unfold slice.
        assert (E : firstn (Z.to_nat w) (skipn (Z.to_nat p) B') =
                    skipn (Z.to_nat p) (firstn (Z.to_nat (p + w)) B')).
        { rewrite firstn_skipn_comm. f_equal. f_equal. lia. }
        rewrite E, Hpre. replace (Z.to_nat (p + w)) with (Z.to_nat p + Z.to_nat w)%nat by lia.
        rewrite <- firstn_skipn_comm. fold bs. rewrite <- Hbl. unfold B1. apply patch1_slice. exact Hfit.
      * apply Hsl. exact Hin.
Qed.

(* ------------------------------------------------------------------------------------------ *)
(* maps                                                                                        *)

Lemma mfind_minsert_same {A} k (v : A) m : mfind k (minsert k v m) = Some v.
Proof.
  induction m as [|[k' v'] r IH]; cbn.
  - rewrite Z.eqb_refl. reflexivity.
  - destruct (k <? k') eqn:E1; cbn.
    + rewrite Z.eqb_refl. reflexivity.
    + destruct (k =? k') eqn:E2; cbn.
      * rewrite Z.eqb_refl. reflexivity.
      * rewrite E2. exact IH.
Qed.
Lemma mfind_minsert_other {A} k k' (v : A) m : k <> k' -> mfind k' (minsert k v m) = mfind k' m.
Proof.
  intros Hne. induction m as [|[k0 v0] r IH]; cbn.
  - destruct (k' =? k) eqn:E; [lia|reflexivity].
  - destruct (k <? k0) eqn:E1; cbn.
    + destruct (k' =? k) eqn:E; [lia|reflexivity].
    + destruct (k =? k0) eqn:E2; cbn.
      * destruct (k' =? k) eqn:E; [lia|]. destruct (k' =? k0) eqn:E3; [lia|reflexivity].
      * destruct (k' =? k0); [reflexivity|exact IH].
Qed.
Lemma mfind_In {A} k (v : A) m : mfind k m = Some v -> In (k, v) m.
Proof.
  induction m as [|[k' v'] r IH]; cbn; [discriminate|].
  destruct (k =? k') eqn:E.
  - intros [= ->]. left. f_equal. lia.
  - intros H. right. apply IH. exact H.
Qed.

(* ------------------------------------------------------------------------------------------ *)
(* first pass                                                                                  *)

Lemma size_of_nonneg objs id : 0 <= size_of objs id.
Proof. unfold size_of. destruct (mfind id objs); [apply blen_nonneg|lia]. Qed.
Lemma total_size_nonneg objs ord : 0 <= total_size objs ord.
Proof. induction ord; cbn [total_size]; [lia|]. pose proof (size_of_nonneg objs a). lia. Qed.
Lemma posof_nonneg objs ord id : 0 <= posof objs ord id.
Proof.
  induction ord as [|x r IH]; cbn [posof]; [lia|]. destruct (x =? id); [lia|].
  pose proof (size_of_nonneg objs x). lia.
Qed.
Lemma posof_le_total objs ord id : In id ord -> posof objs ord id + size_of objs id <= total_size objs ord.
Proof.
  induction ord as [|x r IH]; cbn [posof total_size In]; [intros []|].
  intros H. destruct (x =? id) eqn:E.
  - assert (x = id) by lia. subst. pose proof (total_size_nonneg objs r). lia.
  - destruct H as [->|H]; [lia|]. specialize (IH H). lia.
Qed.

Lemma pass1_spec objs : forall ord off offs out,
  NoDup ord ->
  (forall id, In id ord -> exists o, mfind id objs = Some o) ->
  0 <= off -> off + total_size objs ord < 2 ^ 32 ->
  exists offs', pass1 objs ord off offs out = Some (offs', out ++ cat objs ord) /\
    (forall id, In id ord -> mfind id offs' = Some (off + posof objs ord id)) /\
    (forall id, ~ In id ord -> mfind id offs' = mfind id offs).
Proof.
  induction ord as [|x r IH]; intros off offs out Hnd Hobj Hoff Htot.
  - exists offs. cbn. rewrite app_nil_r. repeat split; auto. intros id [].
  - inversion Hnd as [|? ? Hnotin Hnd']; subst.
    destruct (Hobj x (or_introl eq_refl)) as (o & Ho).
    cbn [total_size] in Htot.
    assert (Hsz : size_of objs x = blen (o_bytes o)) by (unfold size_of; rewrite Ho; reflexivity).
    pose proof (total_size_nonneg objs r) as Hnn. pose proof (blen_nonneg (o_bytes o)).
    destruct (IH (off + blen (o_bytes o)) (minsert x off offs) (out ++ o_bytes o)) as (offs' & Hrun & Hin & Hout); auto; try lia.
    { intros id Hid. apply Hobj. right. exact Hid. }
    exists offs'. split; [|split].
    + cbn [pass1]. rewrite Ho. cbn [obind]. rewrite chk_u_some by lia. cbn [obind].
      rewrite Hrun. f_equal. f_equal. unfold cat. cbn [map concat]. unfold bytes_of at 2. rewrite Ho.
      rewrite <- app_assoc. reflexivity.
    + intros id [<-|Hid].
      * rewrite Hout by exact Hnotin. rewrite mfind_minsert_same. cbn [posof]. rewrite Z.eqb_refl. f_equal. lia.
      * rewrite Hin by exact Hid. cbn [posof].
        destruct (x =? id) eqn:E; [assert (x = id) by lia; subst; contradiction|].
        f_equal. lia.
    + intros id Hid. rewrite Hout by (intro; apply Hid; right; assumption).
      apply mfind_minsert_other. intro; subst; apply Hid; left; reflexivity.
Qed.

(* ------------------------------------------------------------------------------------------ *)
(* second pass, all objects                                                                    *)

Definition obj_patch_spec (offs : zmap Z) (head : Z) (o : obj) (B' : list Z) : Prop :=
  length B' = length (o_bytes o) /\
  (forall i, 0 <= i < blen (o_bytes o) -> ~ field_of o i -> znth i B' = znth i (o_bytes o)) /\
  (forall l, In l (o_links o) ->
     slice B' (l_pos l) (l_width l) = to_be (Z.to_nat (l_width l)) (relof offs head l)).

Fixpoint ord_ok (objs : zmap obj) (offs : zmap Z) (head : Z) (ord : list Z) : Prop :=
  match ord with
  | [] => True
  | id :: r => exists o, mfind id objs = Some o /\ obj_wf o /\
                 (forall l, In l (o_links o) -> link_ok offs head l) /\
                 ord_ok objs offs (head + blen (o_bytes o)) r
  end.
Fixpoint patched (objs : zmap obj) (offs : zmap Z) (head : Z) (ord : list Z) (Bs : list (list Z)) : Prop :=
  match ord, Bs with
  | [], [] => True
  | id :: r, B' :: Bs' => exists o, mfind id objs = Some o /\ obj_patch_spec offs head o B' /\
                             patched objs offs (head + blen (o_bytes o)) r Bs'
  | _, _ => False
  end.

Lemma pass2_spec objs offs : forall ord head P,
  blen P = head -> 0 <= head -> head + total_size objs ord < 2 ^ 32 ->
  ord_ok objs offs head ord ->
  exists Bs, pass2 objs offs ord head (P ++ cat objs ord) = Some (P ++ concat Bs) /\
             patched objs offs head ord Bs.
Proof.
  induction ord as [|x r IH]; intros head P HP Hh Htot Hok.
  - exists []. cbn. split; auto.
  - cbn [ord_ok] in Hok. destruct Hok as (o & Ho & Hwf & Hlk & Hok).
    cbn [total_size] in Htot.
    assert (Hsz : size_of objs x = blen (o_bytes o)) by (unfold size_of; rewrite Ho; reflexivity).
    pose proof (total_size_nonneg objs r) as Hnn. pose proof (blen_nonneg (o_bytes o)).
    assert (Hcat : cat objs (x :: r) = o_bytes o ++ cat objs r).
    { unfold cat. cbn [map concat]. unfold bytes_of at 1. rewrite Ho. reflexivity. }
    destruct (links_spec offs head P (cat objs r) (o_links o) 0 (o_bytes o)) as (B' & Hrun & Hlen & _ & Hout & Hsl); auto; try lia.
    destruct (IH (head + blen (o_bytes o)) (P ++ B')) as (Bs & Hrun2 & Hpat); auto; try lia.
    { rewrite blen_app. unfold blen in *. lia. }
    exists (B' :: Bs). split.
    + cbn [pass2]. rewrite Ho. cbn [obind]. rewrite Hcat, Hrun. cbn [obind].
      rewrite chk_u_some by lia. cbn [obind].
      rewrite app_assoc, Hrun2. cbn [concat]. rewrite <- app_assoc. reflexivity.
    + cbn [patched]. exists o. split; [exact Ho|]. split; [|exact Hpat].
      split; [exact Hlen|]. split.
      * intros i Hi Hnf. apply Hout; [exact Hi|]. intros l Hin Hf. apply Hnf. exists l. split; assumption.
      * exact Hsl.
Qed.

Lemma patched_at objs offs : forall ord head Bs id,
  patched objs offs head ord Bs -> In id ord ->
  exists o B' X Y, mfind id objs = Some o /\ obj_patch_spec offs (head + posof objs ord id) o B' /\
                   concat Bs = X ++ B' ++ Y /\ blen X = posof objs ord id.
Proof.
  induction ord as [|x r IH]; intros head Bs id Hp Hin; [destruct Hin|].
  destruct Bs as [|B0 Bs]; [destruct Hp|]. cbn [patched] in Hp. destruct Hp as (o & Ho & Hspec & Hp).
  cbn [posof]. destruct (x =? id) eqn:E.
  - assert (x = id) by lia. subst x. exists o, B0, [], (concat Bs).
    rewrite Z.add_0_r. repeat split; auto; apply Hspec.
  - destruct Hin as [->|Hin]; [lia|].
    destruct (IH _ _ _ Hp Hin) as (o' & B' & X & Y & Ho' & Hs' & Hc & HX).
    exists o', B', (B0 ++ X), Y. split; [exact Ho'|]. split.
    + replace (head + (size_of objs x + posof objs r id)) with (head + blen (o_bytes o) + posof objs r id); [exact Hs'|].
      unfold size_of. rewrite Ho. lia.
    + split.
      * cbn [concat]. rewrite Hc, <- app_assoc. reflexivity.
      * rewrite blen_app, HX. unfold size_of. rewrite Ho. destruct Hspec as (Hl & _). unfold blen. lia.
Qed.

Lemma znth_mid X B Y i : 0 <= i < blen B -> znth (blen X + i) (X ++ B ++ Y) = znth i B.
Proof.
  intros Hi. unfold znth, blen in *.
  replace (Z.to_nat (Z.of_nat (length X) + i)) with (length X + Z.to_nat i)%nat by lia.
  rewrite app_nth2 by lia. replace (length X + Z.to_nat i - length X)%nat with (Z.to_nat i) by lia.
  apply app_nth1. lia.
Qed.
Lemma slice_mid X B Y p w : 0 <= p -> 0 <= w -> p + w <= blen B ->
  slice (X ++ B ++ Y) (blen X + p) w = slice B p w.
Proof.
  intros Hp Hw Hb. unfold slice, blen in *.
  replace (Z.to_nat (Z.of_nat (length X) + p)) with (length X + Z.to_nat p)%nat by lia.
  rewrite skipn_app. rewrite skipn_all2 by lia. cbn [app].
  replace (length X + Z.to_nat p - length X)%nat with (Z.to_nat p) by lia.
  rewrite skipn_app. rewrite firstn_app. rewrite skipn_length.
  replace (Z.to_nat w - (length B - Z.to_nat p))%nat with O by lia. cbn [firstn]. apply app_nil_r.
Qed.

(* ------------------------------------------------------------------------------------------ *)
(* serialize_sound                                                                             *)

Record layout_ok (objs : zmap obj) (ord : list Z) : Prop := {
  lo_nonempty : ord <> [];
  lo_nodup : NoDup ord;
  lo_objs : forall id, In id ord -> exists o, mfind id objs = Some o /\ obj_wf o;
  lo_closed : forall id o l, In id ord -> mfind id objs = Some o -> In l (o_links o) -> In (l_obj l) ord;
  lo_size : total_size objs ord < 2 ^ 32;
  (* the gate: no offset overflows its width; adjustments do not exceed the distance *)
  lo_fits : forall id o l, In id ord -> mfind id objs = Some o -> In l (o_links o) ->
      0 <= l_adj l /\ posof objs ord id + l_adj l <= posof objs ord (l_obj l) /\
      posof objs ord (l_obj l) - (posof objs ord id + l_adj l) <= max_value (l_width l);
  (* every parent precedes its children *)
  lo_topo : forall id o l, In id ord -> mfind id objs = Some o -> In l (o_links o) ->
      precedes ord id (l_obj l) }.

Lemma links_wf_width lo ls len : links_wf lo ls len -> forall l, In l ls ->
  (l_width l = 2 \/ l_width l = 3 \/ l_width l = 4) /\ lo <= l_pos l /\ l_pos l + l_width l <= len.
Proof.
  revert lo. induction ls as [|x r IH]; intros lo Hwf l Hin; [destruct Hin|].
  cbn [links_wf] in Hwf. destruct Hwf as (H1 & H2 & H3 & H4). destruct Hin as [<-|Hin].
  - auto.
  - destruct (IH _ H4 l Hin) as (Ha & Hb & Hc). repeat split; auto. destruct H2 as [E|[E|E]]; lia.
Qed.

Lemma max_value_lt w : max_value w < 2 ^ 32.
Proof. unfold max_value. destruct (w =? 2); [|destruct (w =? 3)]; cbn; lia. Qed.

Lemma ord_ok_of_layout objs offs full : layout_ok objs full ->
  (forall id, In id full -> mfind id offs = Some (posof objs full id)) ->
  forall pre suf, full = pre ++ suf -> ord_ok objs offs (total_size objs pre) suf.
Proof.
  intros L Hoffs pre suf. revert pre. induction suf as [|x r IH]; intros pre Hfull; [exact I|].
  cbn [ord_ok].
  assert (Hin : In x full) by (rewrite Hfull; apply in_or_app; right; left; reflexivity).
  destruct (lo_objs _ _ L x Hin) as (o & Ho & Hwf). exists o. split; [exact Ho|]. split; [exact Hwf|].
  assert (Hpos : posof objs full x = total_size objs pre).
  { pose proof (lo_nodup _ _ L) as Hnd. rewrite Hfull in Hnd |- *. clear - Hnd.
    induction pre as [|y pre IHp]; cbn [app posof total_size].
    - rewrite Z.eqb_refl. reflexivity.
    - inversion Hnd; subst. destruct (y =? x) eqn:E.
      + exfalso. assert (y = x) by lia. subst. apply H1. apply in_or_app. right. left. reflexivity.
      + rewrite IHp by assumption. reflexivity. }
  split.
  - intros l Hl. destruct (lo_fits _ _ L x o l Hin Ho Hl) as (Hadj & Hle & Hmax).
    pose proof (lo_closed _ _ L x o l Hin Ho Hl) as Hcl.
    pose proof (posof_le_total objs full (l_obj l) Hcl) as Hb.
    pose proof (posof_le_total objs full x Hin) as Hbx.
    pose proof (size_of_nonneg objs (l_obj l)). pose proof (lo_size _ _ L).
    destruct (links_wf_width _ _ _ Hwf l Hl) as (Hw & Hp0 & Hpe).
    assert (Hsz : size_of objs x = blen (o_bytes o)) by (unfold size_of; rewrite Ho; reflexivity).
    pose proof (max_value_lt (l_width l)).
    unfold link_ok, relof, absof. rewrite (Hoffs _ Hcl). rewrite <- Hpos.
    split; [eexists; reflexivity|]. repeat split; try lia.
  - replace (total_size objs pre + blen (o_bytes o)) with (total_size objs (pre ++ [x])).
    + apply IH. rewrite Hfull, <- app_assoc. reflexivity.
    + clear - Ho. induction pre as [|y pre IHp]; cbn [app total_size].
      * unfold size_of. rewrite Ho. lia.
      * rewrite IHp. lia.
Qed.

Lemma nodup_split_unique (x : Z) : forall l1 r1 l2 r2,
  NoDup (l1 ++ x :: r1) -> l1 ++ x :: r1 = l2 ++ x :: r2 -> l1 = l2 /\ r1 = r2.
Proof.
  induction l1 as [|a l1 IH]; intros r1 l2 r2 Hnd Heq.
  - destruct l2 as [|b l2]; cbn in *.
    + inversion Heq. auto.
    + inversion Heq; subst. inversion Hnd; subst. exfalso. apply H1. apply in_or_app. right. left. reflexivity.
  - destruct l2 as [|b l2]; cbn in *.
    + inversion Heq; subst. inversion Hnd; subst. exfalso. apply H1. apply in_or_app. right. left. reflexivity.
    + inversion Heq; subst. inversion Hnd; subst. destruct (IH _ _ _ H3 H1). subst. auto.
Qed.

Theorem serialize_sound_lemma objs ord : layout_ok objs ord ->
  exists out, serialize_ord objs ord = Some out /\ blen out = total_size objs ord /\
    (forall id, In id ord -> Resolves objs out (posof objs ord id) id) /\
    (forall id o l, In id ord -> mfind id objs = Some o -> In l (o_links o) ->
        from_be (slice out (posof objs ord id + l_pos l) (l_width l))
          = posof objs ord (l_obj l) - (posof objs ord id + l_adj l) /\
        from_be (slice out (posof objs ord id + l_pos l) (l_width l)) < 2 ^ (8 * l_width l)).
Proof.
  intros L.
  pose proof (lo_size _ _ L) as Hsize. pose proof (total_size_nonneg objs ord) as Hnn.
  destruct (pass1_spec objs ord 0 [] []) as (offs & Hp1 & Hoffs & _); try lia.
  { exact (lo_nodup _ _ L). }
  { intros id Hid. destruct (lo_objs _ _ L id Hid) as (o & Ho & _). eauto. }
  cbn [app] in Hp1.
  assert (Hoffs' : forall id, In id ord -> mfind id offs = Some (posof objs ord id)).
  { intros id Hid. rewrite (Hoffs id Hid). f_equal. }
  destruct (pass2_spec objs offs ord 0 []) as (Bs & Hp2 & Hpat); try reflexivity; try lia.
  { exact (ord_ok_of_layout objs offs ord L Hoffs' [] ord eq_refl). }
  cbn [app] in Hp2.
  exists (concat Bs).
  assert (Hser : serialize_ord objs ord = Some (concat Bs)).
  { unfold serialize_ord. destruct ord as [|x r] eqn:E; [exfalso; exact (lo_nonempty _ _ L eq_refl)|].
    rewrite Hp1. cbn [obind fst snd]. exact Hp2. }
  (* facts about each object's region of the output *)
  assert (Hregion : forall id, In id ord -> exists o B' X Y, mfind id objs = Some o /\
             obj_patch_spec offs (posof objs ord id) o B' /\ concat Bs = X ++ B' ++ Y /\
             blen X = posof objs ord id).
  { intros id Hid. destruct (patched_at objs offs ord 0 Bs id Hpat Hid) as (o & B' & X & Y & H1 & H2 & H3 & H4).
    exists o, B', X, Y. rewrite Z.add_0_l in H2. auto. }
  assert (Hlen : blen (concat Bs) = total_size objs ord).
  { clear - Hpat. revert Hpat. generalize 0. revert Bs.
    induction ord as [|x r IH]; intros Bs h Hp; destruct Bs as [|B0 Bs]; cbn in Hp; try contradiction; [reflexivity|].
    destruct Hp as (o & Ho & (Hl & _) & Hp). cbn [concat total_size]. rewrite blen_app, (IH _ _ Hp).
    unfold size_of. rewrite Ho. unfold blen. lia. }
  assert (Hvals : forall id o l, In id ord -> mfind id objs = Some o -> In l (o_links o) ->
        from_be (slice (concat Bs) (posof objs ord id + l_pos l) (l_width l))
          = posof objs ord (l_obj l) - (posof objs ord id + l_adj l) /\
        from_be (slice (concat Bs) (posof objs ord id + l_pos l) (l_width l)) < 2 ^ (8 * l_width l)).
  { intros id o l Hid Ho Hl.
    destruct (Hregion id Hid) as (o' & B' & X & Y & Ho' & (HlenB & _ & Hsl) & Hcat & HX).
    rewrite Ho in Ho'. inversion Ho'; subst o'. clear Ho'.
    destruct (lo_objs _ _ L id Hid) as (o'' & Ho'' & Hwf). rewrite Ho in Ho''. inversion Ho''; subst o''.
    destruct (links_wf_width _ _ _ Hwf l Hl) as (Hw & Hp0 & Hpe).
    destruct (lo_fits _ _ L id o l Hid Ho Hl) as (Hadj & Hle & Hmax).
    pose proof (lo_closed _ _ L id o l Hid Ho Hl) as Hcl.
    rewrite Hcat, <- HX. rewrite slice_mid; try lia; [|unfold blen in *; lia].
    rewrite (Hsl l Hl). unfold relof, absof. rewrite (Hoffs' _ Hcl). rewrite HX.
    set (v := posof objs ord (l_obj l) - (posof objs ord id + l_adj l)) in *.
    assert (Hv : 0 <= v <= max_value (l_width l)) by (unfold v; lia).
    assert (Hpow : max_value (l_width l) < 256 ^ Z.of_nat (Z.to_nat (l_width l))).
    { unfold max_value. destruct Hw as [-> | [-> | ->]]; cbn; lia. }
    rewrite from_to_be by lia. split; [reflexivity|].
    replace (2 ^ (8 * l_width l)) with (256 ^ Z.of_nat (Z.to_nat (l_width l))); [lia|].
    destruct Hw as [-> | [-> | ->]]; reflexivity. }
  split; [exact Hser|]. split; [exact Hlen|]. split; [|exact Hvals].
  (* Resolves, from the end of the order backwards *)
  assert (Hback : forall suf pre, ord = pre ++ suf -> forall id, In id suf ->
                    Resolves objs (concat Bs) (posof objs ord id) id).
  { induction suf as [|x suf IHs]; intros pre Hord id Hid; [destruct Hid|].
    assert (Hrest : forall t, In t suf -> Resolves objs (concat Bs) (posof objs ord t) t).
    { intros t Ht. apply (IHs (pre ++ [x])); [rewrite <- app_assoc; exact Hord|exact Ht]. }
    destruct Hid as [<-|Hid]; [|apply Hrest; exact Hid].
    assert (Hx : In x ord) by (rewrite Hord; apply in_or_app; right; left; reflexivity).
    destruct (Hregion x Hx) as (o & B' & X & Y & Ho & (HlenB & Hbytes & Hsl) & Hcat & HX).
    destruct (lo_objs _ _ L x Hx) as (o' & Ho' & Hwf). rewrite Ho in Ho'. inversion Ho'; subst o'.
    apply Res with (o := o); [exact Ho|apply posof_nonneg| | |].
    - rewrite Hlen. pose proof (posof_le_total objs ord x Hx). unfold size_of in H. rewrite Ho in H. exact H.
    - intros i Hi Hnf. rewrite Hcat, <- HX. rewrite znth_mid by (unfold blen in *; lia).
      apply Hbytes; assumption.
    - intros l Hl. destruct (Hvals x o l Hx Ho Hl) as (Hv & _). rewrite Hv.
      replace (posof objs ord x + l_adj l + (posof objs ord (l_obj l) - (posof objs ord x + l_adj l)))
        with (posof objs ord (l_obj l)) by lia.
      apply Hrest.
      destruct (lo_topo _ _ L x o l Hx Ho Hl) as (l1 & l2 & l3 & Hdec).
      pose proof (lo_nodup _ _ L) as Hnd. rewrite Hord in Hnd.
      rewrite Hord in Hdec. destruct (nodup_split_unique x _ _ _ _ Hnd Hdec) as (_ & Hs).
      rewrite Hs. apply in_or_app. right. left. reflexivity. }
  intros id Hid. apply (Hback ord []); auto.
Qed.

(* ------------------------------------------------------------------------------------------ *)
(* the gate: has_overflows = false gives the no-overflow hypothesis of serialize_sound         *)

Lemma overflow_links_false nodes parent : forall ls, overflow_links nodes parent ls = Some false ->
  forall l, In l ls -> exists c, mfind (l_obj l) nodes = Some c /\
                                 0 <= n_pos c - n_pos parent <= max_value (l_width l).
Proof.
  induction ls as [|x r IH]; intros H l Hin; [destruct Hin|].
  cbn [overflow_links] in H.
  destruct (mfind (l_obj x) nodes) as [c|] eqn:Ec; cbn [obind] in H; [|discriminate].
  unfold chk_u, in_u in H.
  destruct ((0 <=? n_pos c - n_pos parent) && (n_pos c - n_pos parent <? 2 ^ 32)) eqn:E1; cbn [obind] in H; [|discriminate].
  destruct (max_value (l_width x) <? n_pos c - n_pos parent) eqn:E2; [discriminate|].
  destruct Hin as [<-|Hin].
  - exists c. split; [exact Ec|]. lia.
  - apply IH; assumption.
Qed.

Lemma overflow_objs_false nodes : forall objs, overflow_objs nodes objs = Some false ->
  forall pid o, In (pid, o) objs -> exists p, mfind pid nodes = Some p /\
    forall l, In l (o_links o) -> exists c, mfind (l_obj l) nodes = Some c /\
                                  0 <= n_pos c - n_pos p <= max_value (l_width l).
Proof.
  induction objs as [|[k o0] r IH]; intros H pid o Hin; [destruct Hin|].
  cbn [overflow_objs] in H.
  destruct (mfind k nodes) as [p|] eqn:Ep; cbn [obind] in H; [|discriminate].
  destruct (overflow_links nodes p (o_links o0)) as [b|] eqn:El; cbn [obind] in H; [|discriminate].
  destruct b; [discriminate|].
  destruct Hin as [E|Hin].
  - inversion E; subst. exists p. split; [exact Ep|]. apply overflow_links_false. exact El.
  - apply IH; assumption.
Qed.

(* positions recorded in the nodes agree with the prefix sums of the order *)
Definition positions_match (g : graph) : Prop :=
  forall id, In id (g_order g) -> exists nd, mfind id (g_nodes g) = Some nd /\
                                             n_pos nd = posof (g_objs g) (g_order g) id.

Theorem serialize_sound_graph g :
  g_order g <> [] -> NoDup (g_order g) ->
  (forall id, In id (g_order g) -> exists o, mfind id (g_objs g) = Some o /\ obj_wf o) ->
  (forall id o l, In id (g_order g) -> mfind id (g_objs g) = Some o -> In l (o_links o) -> In (l_obj l) (g_order g)) ->
  total_size (g_objs g) (g_order g) < 2 ^ 32 ->
  (forall id o l, In id (g_order g) -> mfind id (g_objs g) = Some o -> In l (o_links o) ->
      precedes (g_order g) id (l_obj l)) ->
  (forall id o l, In id (g_order g) -> mfind id (g_objs g) = Some o -> In l (o_links o) -> l_adj l = 0) ->
  positions_match g ->
  has_overflows g = Some false ->
  exists out, serialize g = Some out /\ blen out = total_size (g_objs g) (g_order g) /\
    Resolves (g_objs g) out 0 (hd 0 (g_order g)) /\
    (forall id, In id (g_order g) -> Resolves (g_objs g) out (posof (g_objs g) (g_order g) id) id) /\
    (forall id o l, In id (g_order g) -> mfind id (g_objs g) = Some o -> In l (o_links o) ->
        from_be (slice out (posof (g_objs g) (g_order g) id + l_pos l) (l_width l))
          = posof (g_objs g) (g_order g) (l_obj l) - posof (g_objs g) (g_order g) id /\
        from_be (slice out (posof (g_objs g) (g_order g) id + l_pos l) (l_width l)) < 2 ^ (8 * l_width l)).
Proof.
  intros Hne Hnd Hobjs Hclosed Hsize Htopo Hadj Hpos Hov.
  assert (L : layout_ok (g_objs g) (g_order g)).
  { constructor; auto.
    intros id o l Hid Ho Hl. rewrite (Hadj id o l Hid Ho Hl).
    unfold has_overflows in Hov.
    destruct (overflow_objs_false _ _ Hov id o (mfind_In _ _ _ Ho)) as (p & Hp & Hlinks).
    destruct (Hlinks l Hl) as (c & Hc & Hrange).
    destruct (Hpos id Hid) as (p' & Hp' & Hpp). rewrite Hp in Hp'. inversion Hp'; subst p'.
    destruct (Hpos (l_obj l) (Hclosed id o l Hid Ho Hl)) as (c' & Hc' & Hcp). rewrite Hc in Hc'. inversion Hc'; subst c'.
    lia. }
  destruct (serialize_sound_lemma _ _ L) as (out & Hser & Hlen & Hres & Hvals).
  exists out. split; [exact Hser|]. split; [exact Hlen|]. split; [|split; [exact Hres|]].
  - destruct (g_order g) as [|x r] eqn:E; [contradiction|]. cbn [hd].
    specialize (Hres x (or_introl eq_refl)). cbn [posof] in Hres. rewrite Z.eqb_refl in Hres. exact Hres.
  - intros id o l Hid Ho Hl. destruct (Hvals id o l Hid Ho Hl) as (Hv & Hb).
    rewrite (Hadj id o l Hid Ho Hl) in Hv. split; [rewrite Hv; lia|exact Hb].
Qed.

(* ------------------------------------------------------------------------------------------ *)
(* pack_objects / dump_table: bytes only after a successful gate                               *)

Lemma pack_packed_no_overflow g g' : pack_objects g = Some (g', Packed) -> has_overflows g' = Some false.
Proof.
  unfold pack_objects, basic_sort. intros H.
  destruct (sort_kahn g) as [g1|]; cbn [obind] in H; [|discriminate].
  destruct (has_overflows g1) as [ov|] eqn:E1; cbn [obind] in H; [|discriminate].
  destruct ov; cbn [negb] in H.
  - destruct (sort_shortest_distance g1) as [g2|]; cbn [obind] in H; [|discriminate].
    destruct (has_overflows g2) as [ov2|] eqn:E2; cbn [obind] in H; [|discriminate].
    destruct ov2; cbn [negb] in H.
    + destruct (has_wide_link (g_objs g2)); [discriminate|].
      destruct (sort_shortest_distance g2) as [g3|]; cbn [obind] in H; [|discriminate].
      destruct (has_overflows g3) as [ov3|] eqn:E3; cbn [obind] in H; [|discriminate].
      destruct ov3; cbn [negb] in H; [discriminate|]. inversion H; subst. exact E3.
    + inversion H; subst. exact E2.
  - inversion H; subst. exact E1.
Qed.

Lemma dump_graph_bytes objs root out : dump_graph objs root = RBytes out ->
  exists g g', from_objects objs root = Some g /\ pack_objects g = Some (g', Packed) /\
               has_overflows g' = Some false /\ serialize g' = Some out.
Proof.
  unfold dump_graph. intros H.
  destruct (from_objects objs root) as [g|]; [|discriminate].
  destruct (pack_objects g) as [[g' r]|] eqn:Ep; [|discriminate].
  destruct r; try discriminate.
  destruct (serialize g') as [o|] eqn:Es; [|discriminate].
  inversion H; subst. exists g, g'. repeat split; auto. apply pack_packed_no_overflow with g. exact Ep.
Qed.

Lemma pack_false_no_bytes objs root g g' : from_objects objs root = Some g ->
  pack_objects g = Some (g', Failed) -> dump_graph objs root = RFailed.
Proof. intros H1 H2. unfold dump_graph. rewrite H1, H2. reflexivity. Qed.

(* ------------------------------------------------------------------------------------------ *)
(* layout_okb: the decidable form of layout_ok, evaluated per case by check_case               *)

Lemma zmem_In x l : zmem x l = true <-> In x l.
Proof.
  unfold zmem. rewrite existsb_exists. split.
  - intros (y & Hy & E). assert (x = y) by lia. subst. exact Hy.
  - intros H. exists x. split; [exact H|apply Z.eqb_refl].
Qed.

Lemma nodupb_sound l : nodupb l = true -> NoDup l.
Proof.
  induction l as [|x r IH]; cbn [nodupb]; intros H; [constructor|].
  apply andb_prop in H. destruct H as (H1 & H2). constructor; [|apply IH; exact H2].
  intro Hin. apply zmem_In in Hin. rewrite Hin in H1. discriminate.
Qed.

Lemma links_wfb_sound : forall ls lo len, links_wfb lo ls len = true -> links_wf lo ls len.
Proof.
  induction ls as [|l r IH]; intros lo len H; [exact I|].
  cbn [links_wfb] in H. cbn [links_wf].
  apply andb_prop in H. destruct H as (H & H4).
  apply andb_prop in H. destruct H as (H & H3).
  apply andb_prop in H. destruct H as (H1 & H2).
  split; [lia|]. split; [|split; [lia|apply IH; exact H4]].
  apply orb_prop in H2. destruct H2 as [H2|H2]; [|lia].
  apply orb_prop in H2. destruct H2 as [H2|H2]; lia.
Qed.

Lemma index_of_In x : forall l i, index_of x l = Some i -> In x l.
Proof.
  induction l as [|y r IH]; cbn [index_of]; intros i H; [discriminate|].
  destruct (y =? x) eqn:E; [left; lia|].
  destruct (index_of x r) as [j|] eqn:Ej; [|discriminate]. right. eapply IH. reflexivity.
Qed.

Lemma precedes_of_index a b : forall ord i j,
  index_of a ord = Some i -> index_of b ord = Some j -> (i < j)%nat -> precedes ord a b.
Proof.
  induction ord as [|y r IH]; cbn [index_of]; intros i j Ha Hb Hlt; [discriminate|].
  destruct (y =? a) eqn:Ea.
  - inversion Ha; subst i. destruct (y =? b) eqn:Eb; [inversion Hb; subst; lia|].
    destruct (index_of b r) as [j'|] eqn:Ej; [|discriminate].
    destruct (in_split _ _ (index_of_In _ _ _ Ej)) as (l2 & l3 & ->).
    exists [], l2, l3. cbn. f_equal. lia.
  - destruct (index_of a r) as [i'|] eqn:Ei; [|discriminate]. inversion Ha; subst i.
    destruct (y =? b) eqn:Eb; [inversion Hb; subst; lia|].
    destruct (index_of b r) as [j'|] eqn:Ej; [|discriminate]. inversion Hb; subst j.
    destruct (IH i' j' eq_refl eq_refl) as (l1 & l2 & l3 & ->); [lia|].
    exists (y :: l1), l2, l3. reflexivity.
Qed.

Lemma layout_okb_sound objs ord : layout_okb objs ord = true -> layout_ok objs ord.
Proof.
  unfold layout_okb. intros H.
  apply andb_prop in H. destruct H as (H & Hall).
  apply andb_prop in H. destruct H as (H & Hsize).
  apply andb_prop in H. destruct H as (Hne & Hnd).
  rewrite forallb_forall in Hall.
  assert (Hobj : forall id, In id ord -> exists o, mfind id objs = Some o /\ obj_wf o /\
            forallb (link_okb objs ord id) (o_links o) = true).
  { intros id Hid. specialize (Hall id Hid). destruct (mfind id objs) as [o|]; [|discriminate].
    apply andb_prop in Hall. destruct Hall as (Hw & Hl). exists o. repeat split; auto.
    apply links_wfb_sound. exact Hw. }
  assert (Hlink : forall id o l, In id ord -> mfind id objs = Some o -> In l (o_links o) ->
            link_okb objs ord id l = true).
  { intros id o l Hid Ho Hl. destruct (Hobj id Hid) as (o' & Ho' & _ & Hf). rewrite Ho in Ho'. inversion Ho'; subst o'.
    rewrite forallb_forall in Hf. apply Hf. exact Hl. }
  constructor.
  - intro E. subst ord. discriminate.
  - apply nodupb_sound. exact Hnd.
  - intros id Hid. destruct (Hobj id Hid) as (o & Ho & Hw & _). eauto.
  - intros id o l Hid Ho Hl. pose proof (Hlink id o l Hid Ho Hl) as Hk. unfold link_okb in Hk.
    apply andb_prop in Hk. destruct Hk as (Hk & K5). apply andb_prop in Hk. destruct Hk as (Hk & K4).
    apply andb_prop in Hk. destruct Hk as (Hk & K3). apply andb_prop in Hk. destruct Hk as (K1 & K2).
    apply zmem_In. exact K1.
  - lia.
  - intros id o l Hid Ho Hl. pose proof (Hlink id o l Hid Ho Hl) as Hk. unfold link_okb in Hk.
    apply andb_prop in Hk. destruct Hk as (Hk & K5). apply andb_prop in Hk. destruct Hk as (Hk & K4).
    apply andb_prop in Hk. destruct Hk as (Hk & K3). apply andb_prop in Hk. destruct Hk as (K1 & K2). lia.
  - intros id o l Hid Ho Hl. pose proof (Hlink id o l Hid Ho Hl) as Hk. unfold link_okb in Hk.
    apply andb_prop in Hk. destruct Hk as (Hk & K5). apply andb_prop in Hk. destruct Hk as (Hk & K4).
    apply andb_prop in Hk. destruct Hk as (Hk & K3). apply andb_prop in Hk. destruct Hk as (K1 & K2).
    destruct (index_of id ord) as [i|] eqn:Ei; [|discriminate].
    destruct (index_of (l_obj l) ord) as [j|] eqn:Ej; [|discriminate].
    eapply precedes_of_index; eauto. apply Nat.ltb_lt. exact K5.
Qed.

(* what a passed check_case establishes for the compared bytes *)
Theorem layout_okb_resolves objs ord : layout_okb objs ord = true ->
  exists out, serialize_ord objs ord = Some out /\ blen out = total_size objs ord /\
    Resolves objs out 0 (hd 0 ord) /\
    (forall id, In id ord -> Resolves objs out (posof objs ord id) id).
Proof.
  intros H. pose proof (layout_okb_sound _ _ H) as L.
  destruct (serialize_sound_lemma _ _ L) as (out & Hs & Hl & Hr & _).
  exists out. repeat split; auto.
  destruct ord as [|x r]; [exfalso; exact (lo_nonempty _ _ L eq_refl)|]. cbn [hd].
  specialize (Hr x (or_introl eq_refl)). cbn [posof] in Hr. rewrite Z.eqb_refl in Hr. exact Hr.
Qed.

(* ------------------------------------------------------------------------------------------ *)
(* ObjectStore: the de-duplication key is the whole content of a table                         *)

Lemma list_eqb_eq {A} (eqb : A -> A -> bool) : (forall a b, eqb a b = true -> a = b) ->
  forall l l', list_eqb eqb l l' = true -> l = l'.
Proof.
  intros H. induction l as [|x r IH]; destruct l' as [|y s]; cbn; intros E; try discriminate; [reflexivity|].
  apply andb_prop in E. destruct E as (E1 & E2). f_equal; [apply H; exact E1|apply IH; exact E2].
Qed.
Lemma link_eqb_eq a b : link_eqb a b = true -> a = b.
Proof.
  unfold link_eqb. intros E.
  apply andb_prop in E. destruct E as (E & E4). apply andb_prop in E. destruct E as (E & E3).
  apply andb_prop in E. destruct E as (E1 & E2).
  destruct a, b. cbn in *. f_equal; lia.
Qed.
(* two tables share an object id only if their bytes AND their offset records — position, width, target, adjustment
   of every offset — coincide *)
Lemma obj_eqb_eq a b : obj_eqb a b = true -> a = b.
Proof.
  unfold obj_eqb. intros E. apply andb_prop in E. destruct E as (E1 & E2).
  destruct a, b. cbn in *. f_equal.
  - apply (list_eqb_eq Z.eqb); [intros; lia|exact E1].
  - apply (list_eqb_eq link_eqb link_eqb_eq). exact E2.
Qed.
Lemma store_find_sound d : forall l id, store_find d l = Some id -> In (d, id) l.
Proof.
  induction l as [|[o i] r IH]; cbn [store_find]; intros id H; [discriminate|].
  destruct (obj_eqb d o) eqn:E.
  - inversion H; subst. apply obj_eqb_eq in E. subst. left. reflexivity.
  - right. apply IH. exact H.
Qed.
(* dedup_preserves_resolution: the id ObjectStore::add hands out denotes exactly the table that was added (same bytes,
   same offset records), whether it was found or newly inserted; existing entries are never changed.  Since Resolves
   of an id only depends on the object stored under that id, de-duplication cannot change what any offset resolves to. *)
Lemma store_add_sound st d st' id : store_add st d = Some (st', id) ->
  In (d, id) (st_objs st') /\ (forall e, In e (st_objs st) -> In e (st_objs st')).
Proof.
  unfold store_add. destruct (store_find d (st_objs st)) as [i|] eqn:E.
  - intros H. inversion H; subst. split; [apply store_find_sound; exact E|auto].
  - destruct (st_ids st) as [|i rest]; [discriminate|]. intros H. inversion H; subst. cbn [st_objs]. split.
    + apply in_or_app. right. left. reflexivity.
    + intros e He. apply in_or_app. left. exact He.
Qed.
