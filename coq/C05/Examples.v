(* C05 — non-vacuity examples for the hypotheses of Props.v *)
From Coq Require Import ZArith List Lia.
From FV Require Import Lib.RustInt C05.Model C05.Proofs C05.Sort.
Import ListNotations.
Open Scope Z_scope.

(* a root (id 2) with a 16-bit link at byte 1 to a leaf (id 1), laid out root first *)
Definition ex_objs : zmap obj :=
  [(1, mkObj [7; 7] []); (2, mkObj [9; 255; 255; 8] [mkLink 1 2 1 0])].

Example c05_layout_ok_nonvacuous : layout_ok ex_objs [2; 1].
Proof.
  constructor.
  - discriminate.
  - repeat constructor; cbn; intuition lia.
  - intros id [<-|[<-|[]]]; eexists; (split; [reflexivity|]); cbn; intuition lia.
  - intros id o l [<-|[<-|[]]] Ho Hl; cbn in Ho; inversion Ho; subst; cbn in Hl; intuition; subst; cbn; auto.
  - cbn. lia.
  - intros id o l [<-|[<-|[]]] Ho Hl; cbn in Ho; inversion Ho; subst; cbn in Hl; intuition; subst; cbn; lia.
  - intros id o l [<-|[<-|[]]] Ho Hl; cbn in Ho; inversion Ho; subst; cbn in Hl; intuition; subst.
    exists [], [], []. reflexivity.
Qed.

Example c05_serialize_example : serialize_ord ex_objs [2; 1] = Some [9; 0; 4; 8; 7; 7].
Proof. reflexivity. Qed.

(* the model on a description compiled through the store: two parents sharing one child,
   the child is emitted once (dedup) and both 16-bit offsets land on it *)
Definition ex_dag : dag :=
  [ [ILit [1]; ILink 2 1%nat; ILink 2 2%nat]; [ILit [2]; ILink 2 3%nat]; [ILit [3]; ILink 2 3%nat]; [ILit [4; 4]] ].
Example c05_dump_example :
  dump_table ex_dag (id_stream 10 1 20) = RBytes [1; 0; 5; 0; 8; 2; 0; 6; 3; 0; 3; 4; 4].
Proof. vm_compute. reflexivity. Qed.

(* the gate is sharp: distance 65535 fits a 16-bit link, 65536 does not *)
Example c05_gate_65535 :
  match dump_table [ [ILink 2 1%nat; ILink 2 2%nat]; [IRun 7 65531]; [ILit [5]] ] (id_stream 0 1 9) with
  | RBytes _ => True | _ => False end.
Proof. vm_compute. exact I. Qed.
Example c05_gate_65536 :
  dump_table [ [ILink 2 1%nat; ILink 2 2%nat; ILit [0]]; [IRun 7 65531]; [IRun 5 65531] ] (id_stream 0 1 9) = RFailed.
Proof. vm_compute. reflexivity. Qed.

(* F-5 (note): has_overflows ignores the adjustment, serialize subtracts it: with adjustment > distance
   the faithful model panics (u32 underflow) although the gate passed. Not reachable from generated
   graphs (adjust_offsets is pub(crate)); witness on the model: *)
Example c05_adjustment_underflow_refuted :
  exists objs ord, NoDup ord /\ serialize_ord objs ord = None /\
    (forall id o l, In id ord -> mfind id objs = Some o -> In l (o_links o) ->
       0 <= posof objs ord (l_obj l) - posof objs ord id <= max_value (l_width l)).
Proof.
  exists [(1, mkObj [7] []); (2, mkObj [255; 255] [mkLink 0 2 1 3])], [2; 1].
  split; [repeat constructor; cbn; intuition lia|]. split; [reflexivity|].
  intros id o l [<-|[<-|[]]] Ho Hl; cbn in Ho; inversion Ho; subst; cbn in Hl; intuition; subst; cbn; lia.
Qed.

(* the decidable hypotheses hold on the example layout (and fail when the order is reversed) *)
Example c05_layout_okb_example : layout_okb ex_objs [2; 1] = true /\ layout_okb ex_objs [1; 2] = false.
Proof. split; reflexivity. Qed.

(* graph_hyps holds of the object map the store builds for the example description, and the end-to-end
   theorem's premises are met (pack_objects = Packed) *)
Example c05_graph_hyps_example :
  match add_table 5 ex_dag 0%nat (mkStore [] (id_stream 10 1 20)) with
  | Some (st, root) => graph_hypsb (objs_of_store (st_objs st)) root = true /\
                       match packed_graph (objs_of_store (st_objs st)) root with Some _ => True | None => False end
  | None => False
  end.
Proof. vm_compute. split; [reflexivity|exact I]. Qed.

(* dag_ok (hypotheses of c05_kahn_order_topological) is satisfiable: the two-object example, rank = depth *)
Example c05_dag_ok_nonvacuous : dag_ok ex_objs 2 (fun id => if id =? 2 then 0%nat else 1%nat).
Proof.
  constructor.
  - cbn. repeat constructor; cbn; intuition lia.
  - cbn. auto.
  - intros id o l Ho Hl. cbn in Ho. destruct (id =? 1); [inversion Ho; subst; destruct Hl|].
    destruct (id =? 2); [|discriminate]. inversion Ho; subst. destruct Hl as [<-|[]]. cbn. auto.
  - intros id o l Ho Hl. cbn in Ho. destruct (id =? 1) eqn:E1; [inversion Ho; subst; destruct Hl|].
    destruct (id =? 2) eqn:E2; [|discriminate]. inversion Ho; subst. destruct Hl as [<-|[]]. cbn. lia.
  - intros x [<-|[<-|[]]].
    + apply (reach_step ex_objs 2 2 (mkObj [9; 255; 255; 8] [mkLink 1 2 1 0]) (mkLink 1 2 1 0)); [apply reach_root|reflexivity|left; reflexivity].
    + apply reach_root.
  - intros id o l [E|[E|[]]] Hl; inversion E; subst; cbn in Hl; [destruct Hl|destruct Hl as [<-|[]]; cbn; lia].
  - cbn. lia.
Qed.
