(* C05 / C07 — executable model of write-fonts' object store and offset packer
   (write-fonts/src/write.rs: TableWriter, TableData, ObjectStore, dump_table;
    write-fonts/src/graph.rs: Graph::{from_obj_store, from_objects, update_parents, sort_kahn,
    update_distances, assign_space_0, sort_shortest_distance, has_overflows, basic_sort,
    pack_objects, serialize}), hand-written from the source, statement by statement.
   No proofs in this file.

   Conventions: integers are unbounded Z with every u32 check explicit; [option] results of the
   graph functions: None = the Rust code panics (overflow-checks profile, indexing, unwrap/expect,
   the explicit panic!("cycle or something?")).  BTreeMaps are association lists sorted by key;
   BinaryHeaps are sorted lists (pop = head).  Object ids are Z and are only ever compared with
   =, < (C07 relies on this).  *)
From Coq Require Import ZArith List Bool Lia.
From FV Require Import Lib.RustInt.
Import ListNotations.
Open Scope Z_scope.

(* ------------------------------------------------------------------------------------------ *)
(* data                                                                                        *)

(* write.rs: OffsetRecord { pos, len, object, adjustment }; l_width is OffsetLen as u8 (2,3,4) *)
Record link := mkLink { l_pos : Z; l_width : Z; l_obj : Z; l_adj : Z }.
(* write.rs: TableData { bytes, offsets } (type_ is Unknown for every object of this model) *)
Record obj := mkObj { o_bytes : list Z; o_links : list link }.
(* graph.rs: Node { size, distance, position, space, parents, priority } *)
Record node := mkNode { n_size : Z; n_dist : Z; n_pos : Z; n_space : Z;
                        n_parents : list (Z * Z); n_prio : Z }.

Definition zmap (A : Type) := list (Z * A).

(* BTreeMap::get *)
Fixpoint mfind {A} (k : Z) (m : zmap A) : option A :=
  match m with
  | [] => None
  | (k', v) :: r => if k =? k' then Some v else mfind k r
  end.
(* BTreeMap::insert (sorted by key; replaces an existing binding) *)
Fixpoint minsert {A} (k : Z) (v : A) (m : zmap A) : zmap A :=
  match m with
  | [] => [(k, v)]
  | (k', v') :: r => if k <? k' then (k, v) :: m
                     else if k =? k' then (k, v) :: r
                     else (k', v') :: minsert k v r
  end.
Definition mkeys {A} (m : zmap A) : list Z := map fst m.

Definition blen (l : list Z) : Z := Z.of_nat (length l).

(* graph.rs: Graph *)
Record graph := mkGraph {
  g_objs : zmap obj;
  g_nodes : zmap node;
  g_order : list Z;
  g_root : Z;
  g_parents_invalid : bool }.

Definition set_nodes (g : graph) (n : zmap node) : graph :=
  mkGraph (g_objs g) n (g_order g) (g_root g) (g_parents_invalid g).
Definition set_order (g : graph) (o : list Z) : graph :=
  mkGraph (g_objs g) (g_nodes g) o (g_root g) (g_parents_invalid g).

(* OffsetLen::max_value *)
Definition max_value (w : Z) : Z :=
  if w =? 2 then 65535 else if w =? 3 then 16777215 else 4294967295.

(* Node::new *)
Definition node_new (size : Z) : node := mkNode size 0 0 1 [] 0.

(* Graph::from_objects — sizes via usize -> u32 try_into().unwrap() *)
Fixpoint nodes_of_objs (objs : zmap obj) : option (zmap node) :=
  match objs with
  | [] => Some []
  | (k, o) :: r =>
      do sz <- chk_u 32 (blen (o_bytes o));;
      do rest <- nodes_of_objs r;;
      Some ((k, node_new sz) :: rest)
  end.
Definition from_objects (objs : zmap obj) (root : Z) : option graph :=
  do nodes <- nodes_of_objs objs;;
  Some (mkGraph objs nodes [] root true).

(* ------------------------------------------------------------------------------------------ *)
(* Graph::update_parents                                                                       *)

Definition clear_parents (n : node) : node :=
  mkNode (n_size n) (n_dist n) (n_pos n) (n_space n) [] (n_prio n).
Definition push_parent (n : node) (p : Z * Z) : node :=
  mkNode (n_size n) (n_dist n) (n_pos n) (n_space n) (n_parents n ++ [p]) (n_prio n).

Fixpoint add_parents_links (id : Z) (ls : list link) (nodes : zmap node) : option (zmap node) :=
  match ls with
  | [] => Some nodes
  | l :: r =>
      do nd <- mfind (l_obj l) nodes;;                      (* get_mut(..).unwrap() *)
      add_parents_links id r (minsert (l_obj l) (push_parent nd (id, l_width l)) nodes)
  end.
Fixpoint add_parents_objs (objs : zmap obj) (nodes : zmap node) : option (zmap node) :=
  match objs with
  | [] => Some nodes
  | (id, o) :: r =>
      do nodes' <- add_parents_links id (o_links o) nodes;;
      add_parents_objs r nodes'
  end.
Definition update_parents (g : graph) : option graph :=
  if negb (g_parents_invalid g) then Some g else
  let cleared := map (fun kv => (fst kv, clear_parents (snd kv))) (g_nodes g) in
  do nodes <- add_parents_objs (g_objs g) cleared;;
  Some (mkGraph (g_objs g) nodes (g_order g) (g_root g) false).

(* ------------------------------------------------------------------------------------------ *)
(* Graph::sort_kahn                                                                            *)

Definition set_pos (n : node) (p : Z) : node :=
  mkNode (n_size n) (n_dist n) p (n_space n) (n_parents n) (n_prio n).

(* BinaryHeap<Reverse<ObjectId>>::push as insertion in an ascending list (pop = head = min id) *)
Fixpoint heap_push_id (x : Z) (q : list Z) : list Z :=
  match q with
  | [] => [x]
  | y :: r => if x <=? y then x :: q else y :: heap_push_id x r
  end.

(* HashMap<ObjectId, usize> removed_edges: entry(k).or_insert(0) += 1; returns the new count *)
Definition bump (k : Z) (m : zmap Z) : zmap Z * Z :=
  let c := match mfind k m with Some c => c + 1 | None => 1 end in (minsert k c m, c).

Definition nparents (nd : node) : Z := Z.of_nat (length (n_parents nd)).

(* The main loops of sort_kahn and sort_shortest_distance are the same code up to the heap: [Q] is the
   heap type, [St] extra loop state (obj_order of sort_shortest_distance), [qpop] = BinaryHeap::pop,
   [qpush nd id s q] = the push performed for target [id] whose node is [nd]. *)
Section SortLoop.
  Variables (Q St : Type).
  Variable qpop : Q -> option (Z * Q).
  Variable qpush : node -> Z -> St -> Q -> option (Q * St).

  (* for link in &next.offsets { let seen = removed_edges.entry(..).or_insert(0); *seen += 1;
       if *seen == self.nodes[&link.object].parents.len() { queue.push(..) } } *)
  Fixpoint sort_links (nodes : zmap node) (ls : list link) (q : Q) (removed : zmap Z) (s : St)
    : option (Q * zmap Z * St) :=
    match ls with
    | [] => Some (q, removed, s)
    | l :: r =>
        let '(removed', seen) := bump (l_obj l) removed in
        do nd <- mfind (l_obj l) nodes;;                      (* self.nodes[&link.object] *)
        if seen =? nparents nd then
          do qs <- qpush nd (l_obj l) s q;;
          sort_links nodes r (fst qs) removed' (snd qs)
        else sort_links nodes r q removed' s
    end.

  (* while let Some(id) = queue.pop() { ... }; fuel bounds the number of pops *)
  Fixpoint sort_loop (fuel : nat) (objs : zmap obj) (nodes : zmap node) (q : Q)
    (removed : zmap Z) (cur : Z) (order : list Z) (s : St) : option (zmap node * zmap Z * list Z) :=
    match qpop q with
    | None => Some (nodes, removed, order)
    | Some (id, q0) =>
        match fuel with
        | O => None
        | S f =>
            do next <- mfind id objs;;                          (* self.objects[&id] *)
            do nd <- mfind id nodes;;                           (* nodes.get_mut(&id).unwrap() *)
            let nodes' := minsert id (set_pos nd cur) nodes in
            do cur' <- chk_u 32 (cur + blen (o_bytes next));;   (* current_pos += len as u32 *)
            do r <- sort_links nodes' (o_links next) q0 removed s;;
            let '(q', removed', s') := r in
            sort_loop f objs nodes' q' removed' cur' (order ++ [id]) s'
        end
    end.
End SortLoop.

(* sort_kahn's heap: BinaryHeap<Reverse<ObjectId>> *)
Definition kahn_pop (q : list Z) : option (Z * list Z) :=
  match q with [] => None | id :: q0 => Some (id, q0) end.
Definition kahn_push (nd : node) (id : Z) (s : unit) (q : list Z) : option (list Z * unit) :=
  Some (heap_push_id id q, s).
Definition kahn_loop := sort_loop (list Z) unit kahn_pop kahn_push.

(* for (id, seen_len) in &removed_edges { if seen != parents.len() { panic!("cycle or something?") } }
   (HashMap iteration; the outcome — panic iff some entry differs — does not depend on the order) *)
Fixpoint removed_ok (nodes : zmap node) (removed : zmap Z) : option bool :=
  match removed with
  | [] => Some true
  | (id, seen) :: r =>
      do nd <- mfind id nodes;;
      do rest <- removed_ok nodes r;;
      Some ((seen =? nparents nd) && rest)
  end.

Definition total_links (objs : zmap obj) : nat :=
  fold_right (fun kv acc => (length (o_links (snd kv)) + acc)%nat) O objs.

Definition sort_kahn (g : graph) : option graph :=
  if (length (g_nodes g) <=? 1)%nat then
    Some (set_order g (g_order g ++ mkeys (g_nodes g)))       (* order.extend(keys); return *)
  else
    do g1 <- update_parents g;;
    do r <- kahn_loop (2 + length (g_nodes g1) + total_links (g_objs g1)) (g_objs g1) (g_nodes g1)
              [g_root g1] [] 0 [] tt;;
    let '(nodes, removed, order) := r in
    do ok <- removed_ok nodes removed;;
    if ok then Some (mkGraph (g_objs g1) nodes order (g_root g1) false)
    else None.                                                (* panic!("cycle or something?") *)

(* ------------------------------------------------------------------------------------------ *)
(* Graph::update_distances                                                                     *)

Definition set_dist (n : node) (d : Z) : node :=
  mkNode (n_size n) d (n_pos n) (n_space n) (n_parents n) (n_prio n).

(* BinaryHeap<(u32, ObjectId)>: a MAX-heap on (distance, id); kept as a descending list *)
Definition du_lt (a b : Z * Z) : bool :=
  (fst a <? fst b) || ((fst a =? fst b) && (snd a <? snd b)).
Fixpoint heap_push_du (x : Z * Z) (q : list (Z * Z)) : list (Z * Z) :=
  match q with
  | [] => [x]
  | y :: r => if du_lt x y then y :: heap_push_du x r else x :: q
  end.

Definition zmem (x : Z) (l : list Z) : bool := existsb (Z.eqb x) l.

Fixpoint dist_links (next_distance : Z) (ls : list link) (visited : list Z) (nodes : zmap node)
  (q : list (Z * Z)) : option (zmap node * list (Z * Z)) :=
  match ls with
  | [] => Some (nodes, q)
  | l :: r =>
      if zmem (l_obj l) visited then dist_links next_distance r visited nodes q else
      do child <- mfind (l_obj l) nodes;;                      (* nodes.get_mut(..).unwrap() *)
      do cd <- chk_u 32 (next_distance + n_size child);;       (* u32 add *)
      if cd <? n_dist child then
        dist_links next_distance r visited (minsert (l_obj l) (set_dist child cd) nodes)
                   (heap_push_du (cd, l_obj l) q)
      else dist_links next_distance r visited nodes q
  end.

Fixpoint dist_loop (fuel : nat) (objs : zmap obj) (nodes : zmap node) (q : list (Z * Z))
  (visited : list Z) : option (zmap node) :=
  match q with
  | [] => Some nodes
  | (_, next_id) :: q0 =>
      match fuel with
      | O => None
      | S f =>
          if zmem next_id visited then dist_loop f objs nodes q0 visited else
          let visited' := next_id :: visited in
          do nd <- mfind next_id nodes;;
          do next_obj <- mfind next_id objs;;
          do r <- dist_links (n_dist nd) (o_links next_obj) visited' nodes q0;;
          dist_loop f objs (fst r) (snd r) visited'
      end
  end.

Definition update_distances (g : graph) : option graph :=
  let nodes0 := map (fun kv => (fst kv, set_dist (snd kv) 4294967295)) (g_nodes g) in
  do rn <- mfind (g_root g) nodes0;;                           (* get_mut(&root).unwrap() *)
  let nodes1 := minsert (g_root g) (set_dist rn 0) nodes0 in
  do nodes <- dist_loop (2 + total_links (g_objs g)) (g_objs g) nodes1 [(0, g_root g)] [];;
  Some (set_nodes g nodes).

(* ------------------------------------------------------------------------------------------ *)
(* Graph::assign_space_0                                                                       *)

Definition set_space (n : node) (s : Z) : node :=
  mkNode (n_size n) (n_dist n) (n_pos n) s (n_parents n) (n_prio n).

Fixpoint space0_loop (fuel : nat) (objs : zmap obj) (nodes : zmap node) (stack : list Z)
  : option (zmap node) :=
  match stack with
  | [] => Some nodes
  | next :: st =>
      match fuel with
      | O => None
      | S f =>
          match mfind next nodes with
          | Some nd =>
              if negb (n_space nd =? 0) then
                let nodes' := minsert next (set_space nd 0) nodes in
                let ls := match mfind next objs with Some o => o_links o | None => [] end in
                let pushed := map l_obj (filter (fun l => negb (l_width l =? 4)) ls) in
                space0_loop f objs nodes' (st ++ pushed)
              else space0_loop f objs nodes st
          | None => space0_loop f objs nodes st
          end
      end
  end.
Definition assign_space_0 (g : graph) : option graph :=
  do nodes <- space0_loop (2 + total_links (g_objs g)) (g_objs g) (g_nodes g) [g_root g];;
  Some (set_nodes g nodes).

(* ------------------------------------------------------------------------------------------ *)
(* Graph::sort_shortest_distance                                                               *)

(* Node::modified_distance(order) -> Distance { space, distance, order } *)
Definition modified_distance (nd : node) (order : Z) : Z * Z * Z :=
  let prev := n_dist nd in
  let d := if n_prio nd =? 0 then prev
           else if n_prio nd =? 1 then prev - n_size nd / 2
           else if n_prio nd =? 2 then prev - n_size nd
           else 0 in
  (n_space nd, Z.max d 0, order).

(* derived Ord on Distance: lexicographic (space, distance, order) *)
Definition dist3_lt (a b : Z * Z * Z) : bool :=
  let '(s1, d1, o1) := a in let '(s2, d2, o2) := b in
  (s1 <? s2) || ((s1 =? s2) && ((d1 <? d2) || ((d1 =? d2) && (o1 <? o2)))).
Definition dist3_eq (a b : Z * Z * Z) : bool :=
  let '(s1, d1, o1) := a in let '(s2, d2, o2) := b in (s1 =? s2) && (d1 =? d2) && (o1 =? o2).
(* BinaryHeap<(Reverse<Distance>, ObjectId)> is a max-heap: pops the smallest Distance, and among
   equal Distances the largest id.  [sd_before x y] = x pops before y. *)
Definition sd_before (x y : Z * Z * Z * Z) : bool :=
  dist3_lt (fst x) (fst y) || (dist3_eq (fst x) (fst y) && (snd y <? snd x)).
Fixpoint heap_push_sd (x : Z * Z * Z * Z) (q : list (Z * Z * Z * Z)) : list (Z * Z * Z * Z) :=
  match q with
  | [] => [x]
  | y :: r => if sd_before x y then x :: q else y :: heap_push_sd x r
  end.

(* sort_shortest_distance's heap: BinaryHeap<(Reverse<Distance>, ObjectId)>; state = obj_order *)
Definition sd_pop (q : list (Z * Z * Z * Z)) : option (Z * list (Z * Z * Z * Z)) :=
  match q with [] => None | (_, id) :: q0 => Some (id, q0) end.
Definition sd_push (nd : node) (id : Z) (obj_order : Z) (q : list (Z * Z * Z * Z))
  : option (list (Z * Z * Z * Z) * Z) :=
  do oo <- chk_u 32 (obj_order + 1);;                           (* obj_order += 1 (u32) *)
  Some (heap_push_sd (modified_distance nd obj_order, id) q, oo).
Definition sd_loop := sort_loop (list (Z * Z * Z * Z)) Z sd_pop sd_push.

Definition sort_shortest_distance (g : graph) : option graph :=
  do g1 <- update_parents g;;
  do g2 <- update_distances g1;;
  do g3 <- assign_space_0 g2;;
  do r <- sd_loop (2 + length (g_nodes g3) + total_links (g_objs g3)) (g_objs g3) (g_nodes g3)
            [((0, 0, 0), g_root g3)] [] 0 [] 1;;
  let '(nodes, removed, order) := r in
  do ok <- removed_ok nodes removed;;
  if ok then Some (mkGraph (g_objs g3) nodes order (g_root g3) false)
  else None.

(* ------------------------------------------------------------------------------------------ *)
(* Graph::has_overflows                                                                        *)

Fixpoint overflow_links (nodes : zmap node) (parent : node) (ls : list link) : option bool :=
  match ls with
  | [] => Some false
  | l :: r =>
      do child <- mfind (l_obj l) nodes;;                       (* self.nodes[&link.object] *)
      do rel <- chk_u 32 (n_pos child - n_pos parent);;         (* u32 subtraction *)
      if max_value (l_width l) <? rel then Some true
      else overflow_links nodes parent r
  end.
Fixpoint overflow_objs (nodes : zmap node) (objs : zmap obj) : option bool :=
  match objs with
  | [] => Some false
  | (pid, o) :: r =>
      do parent <- mfind pid nodes;;                            (* self.nodes[parent_id] *)
      do b <- overflow_links nodes parent (o_links o);;
      if b then Some true else overflow_objs nodes r
  end.
Definition has_overflows (g : graph) : option bool := overflow_objs (g_nodes g) (g_objs g).

(* Graph::basic_sort *)
Definition basic_sort (g : graph) : option (graph * bool) :=
  do g1 <- sort_kahn g;;
  do ov <- has_overflows g1;;
  if negb ov then Some (g1, true) else
  do g2 <- sort_shortest_distance g1;;
  do ov2 <- has_overflows g2;;
  Some (g2, negb ov2).

(* ------------------------------------------------------------------------------------------ *)
(* Graph::pack_objects.  The model covers the basic path completely.  When the basic path
   fails and some object carries a 32-bit link the real code goes on to space assignment /
   isolation / duplication, which this model does not cover: [Beyond].  Without any 32-bit link
   (and without GPOS/GSUB lookup objects, which the modelled object type cannot express)
   find_space_roots_hb returns no roots, assign_spaces_hb changes nothing, the second
   sort_shortest_distance recomputes the same order, try_isolating_subgraphs finds no custom
   space and pack_objects returns false: [Failed]. *)
Inductive pack_result := Packed | Failed | Beyond.

Definition has_wide_link (objs : zmap obj) : bool :=
  existsb (fun kv => existsb (fun l => l_width l =? 4) (o_links (snd kv))) objs.

Definition pack_objects (g : graph) : option (graph * pack_result) :=
  do r <- basic_sort g;;
  let '(g1, ok) := r in
  if ok then Some (g1, Packed) else
  if has_wide_link (g_objs g1) then Some (g1, Beyond) else
  do g2 <- sort_shortest_distance g1;;                         (* after assign_spaces_hb = no-op *)
  do ov <- has_overflows g2;;
  if negb ov then Some (g2, Packed) else Some (g2, Failed).

(* ------------------------------------------------------------------------------------------ *)
(* The advanced path of pack_objects: assign_spaces_hb, find_space_roots_hb, find_subgraph_hb,
   find_connected_nodes_hb, isolate_subgraph_hb (as of /repo d1b6283), find_subgraph_map_hb,
   duplicate_subgraph, find_overflows, try_isolating_subgraphs, find_root_of_space, next_space.
   (try_splitting_subtables / try_promoting_subtables do nothing for objects of type Unknown.)
   Fresh ids of duplicate_subgraph come from the rest of the id stream.  HashSets that are only
   probed (visited) are lists; BTreeSets are ascending lists; HashMaps are zmaps.  Recursions carry
   a fuel that bounds their depth / number of iterations (exhaustion = None, never reached with the
   fuels supplied below on the generated graphs).  No theorem of Props.v covers this part: it is
   tied to the code by the correspondence only. *)
Record agraph := mkAG { ag_g : graph; ag_next_space : Z; ag_roots : zmap Z; ag_ids : list Z }.
Definition ag_set_g (a : agraph) (g : graph) : agraph := mkAG g (ag_next_space a) (ag_roots a) (ag_ids a).
Definition set_objs (g : graph) (o : zmap obj) : graph :=
  mkGraph o (g_nodes g) (g_order g) (g_root g) (g_parents_invalid g).
Definition set_invalid (g : graph) : graph :=
  mkGraph (g_objs g) (g_nodes g) (g_order g) (g_root g) true.

(* BTreeSet<ObjectId> *)
Fixpoint set_insert (x : Z) (s : list Z) : list Z :=
  match s with
  | [] => [x]
  | y :: r => if x <? y then x :: s else if x =? y then s else y :: set_insert x r
  end.
Fixpoint set_remove (x : Z) (s : list Z) : list Z :=
  match s with
  | [] => []
  | y :: r => if x =? y then r else y :: set_remove x r
  end.

(* Graph::find_subgraph_hb *)
Fixpoint find_subgraph (fuel : nat) (objs : zmap obj) (idx : Z) (visited : list Z) : option (list Z) :=
  match fuel with
  | O => None
  | S f =>
      if zmem idx visited then Some visited else
      do o <- mfind idx objs;;
      fold_left (fun acc l => do v <- acc;; find_subgraph f objs (l_obj l) v) (o_links o)
                (Some (idx :: visited))
  end.

(* Graph::find_space_roots_hb: (visited, roots) *)
Fixpoint space_roots_loop (fuel : nat) (objs : zmap obj) (queue visited roots : list Z)
  : option (list Z * list Z) :=
  match queue with
  | [] => Some (visited, roots)
  | id :: q =>
      match fuel with
      | O => None
      | S f =>
          if zmem id visited then space_roots_loop f objs q visited roots else
          do o <- mfind id objs;;
          do r <- fold_left (fun acc l =>
                    do st <- acc;;
                    let '(q1, v1, r1) := st in
                    if l_width l =? 4 then
                      do v2 <- find_subgraph (S (length objs)) objs (l_obj l) v1;;
                      Some (q1, v2, set_insert (l_obj l) r1)
                    else Some (q1 ++ [l_obj l], v1, r1))
                  (o_links o) (Some (q, visited, roots));;
          let '(q', v', r') := r in
          space_roots_loop f objs q' v' r'
      end
  end.

(* Graph::find_connected_nodes_hb: state (targets, visited, connected) *)
Fixpoint find_connected (fuel : nat) (objs : zmap obj) (nodes : zmap node) (id : Z)
  (st : list Z * list Z * list Z) : option (list Z * list Z * list Z) :=
  match fuel with
  | O => None
  | S f =>
      let '(targets, visited, connected) := st in
      if zmem id visited then Some st else
      let visited := id :: visited in
      let tc := if zmem id targets then (set_remove id targets, set_insert id connected)
                else (targets, connected) in
      do nd <- mfind id nodes;;
      do st1 <- fold_left (fun acc p => do s <- acc;; find_connected f objs nodes (fst p) s)
                          (n_parents nd) (Some (fst tc, visited, snd tc));;
      do o <- mfind id objs;;
      fold_left (fun acc l => do s <- acc;; find_connected f objs nodes (l_obj l) s) (o_links o) (Some st1)
  end.

(* Graph::find_subgraph_map_hb *)
Fixpoint find_subgraph_map (fuel : nat) (objs : zmap obj) (idx : Z) (m : zmap Z) : option (zmap Z) :=
  match fuel with
  | O => None
  | S f =>
      do o <- mfind idx objs;;
      fold_left (fun acc l =>
                   do m1 <- acc;;
                   match mfind (l_obj l) m1 with
                   | None => find_subgraph_map f objs (l_obj l) (minsert (l_obj l) 1 m1)
                   | Some c => Some (minsert (l_obj l) (c + 1) m1)
                   end) (o_links o) (Some m)
  end.

Definition set_link_obj (l : link) (id : Z) : link := mkLink (l_pos l) (l_width l) id (l_adj l).

(* Graph::duplicate_subgraph: (graph state, dupes, id of the copy) *)
Fixpoint duplicate_subgraph (fuel : nat) (a : agraph) (root : Z) (dupes : zmap Z) (space : Z)
  : option (agraph * zmap Z * Z) :=
  match fuel with
  | O => None
  | S f =>
      match mfind root dupes with
      | Some existing => Some (a, dupes, existing)
      | None =>
          match ag_ids a with
          | [] => None
          | new_root :: rest =>
              let a0 := mkAG (set_invalid (ag_g a)) (ag_next_space a) (ag_roots a) rest in
              do o <- mfind root (g_objs (ag_g a0));;
              do r <- fold_left (fun acc l =>
                        do st <- acc;;
                        let '(a1, d1, ls) := st in
                        do r1 <- duplicate_subgraph f a1 (l_obj l) d1 space;;
                        let '(a2, d2, nid) := r1 in
                        Some (a2, d2, ls ++ [set_link_obj l nid]))
                      (o_links o) (Some (a0, dupes, []));;
              let '(a3, d3, links') := r in
              let node := mkNode (wrap_u 32 (blen (o_bytes o))) 0 0 space [] 0 in
              let g3 := ag_g a3 in
              let g4 := mkGraph (minsert new_root (mkObj (o_bytes o) links') (g_objs g3))
                                (minsert new_root node (g_nodes g3)) (g_order g3) (g_root g3)
                                (g_parents_invalid g3) in
              Some (ag_set_g a3 g4, minsert root new_root d3, new_root)
          end
      end
  end.

(* Graph::isolate_subgraph_hb(&mut roots) -> bool *)
Definition isolate_subgraph (a : agraph) (roots : list Z) : option (agraph * list Z * bool) :=
  do g1 <- update_parents (ag_g a);;
  let depth := S (S (length (g_objs g1))) in
  do sub <- fold_left (fun acc root =>
              do m <- acc;;
              do nd <- mfind root (g_nodes g1);;                       (* self.nodes[root] *)
              let wide := Z.of_nat (length (filter (fun p => negb (snd p =? 2)) (n_parents nd))) in
              find_subgraph_map depth (g_objs g1) root (minsert root wide m))
            roots (Some []);;
  let next_space := ag_next_space a + 1 in
  let a1 := mkAG g1 next_space (minsert next_space (Z.of_nat (length roots)) (ag_roots a)) (ag_ids a) in
  (* duplicate what is reachable from outside *)
  do r2 <- fold_left (fun acc kv =>
              do st <- acc;;
              let '(a2, idm) := st in
              do nd <- mfind (fst kv) (g_nodes (ag_g a2));;            (* self.nodes[id] *)
              if snd kv <? nparents nd then
                do r <- duplicate_subgraph (S (S (length (g_objs (ag_g a2))))) a2 (fst kv) idm next_space;;
                Some (fst (fst r), snd (fst r))
              else Some (a2, idm))
            sub (Some (a1, []));;
  let '(a2, id_map) := r2 in
  (* move the rest of the subgraph to the new space and remap its links *)
  do g3 <- fold_left (fun acc kv =>
              do g <- acc;;
              match mfind (fst kv) id_map with
              | Some _ => Some g
              | None =>
                  do nd <- mfind (fst kv) (g_nodes g);;                (* nodes.get_mut(id).unwrap() *)
                  do o <- mfind (fst kv) (g_objs g);;                  (* objects.get_mut(id).unwrap() *)
                  let links' := map (fun l => match mfind (l_obj l) id_map with
                                              | Some nid => set_link_obj l nid
                                              | None => l end) (o_links o) in
                  Some (mkGraph (minsert (fst kv) (mkObj (o_bytes o) links') (g_objs g))
                                (minsert (fst kv) (set_space nd next_space) (g_nodes g))
                                (g_order g) (g_root g) (g_parents_invalid g))
              end)
            sub (Some (ag_g a2));;
  match id_map with
  | [] => Some (ag_set_g a2 g3, roots, false)
  | _ =>
      (* redirect the wide links that point at a duplicated root *)
      do g4 <- fold_left (fun acc root =>
                  do g <- acc;;
                  match mfind root id_map with
                  | None => Some g
                  | Some new_id =>
                      do nd <- mfind root (g_nodes g);;                (* self.nodes[root] *)
                      fold_left (fun acc2 p =>
                                   do g' <- acc2;;
                                   if negb (snd p =? 2) then
                                     do o <- mfind (fst p) (g_objs g');;  (* get_mut(parent_id).unwrap() *)
                                     let links' := map (fun l => if (l_obj l =? root) && negb (l_width l =? 2)
                                                                 then set_link_obj l new_id else l) (o_links o) in
                                     Some (set_objs g' (minsert (fst p) (mkObj (o_bytes o) links') (g_objs g')))
                                   else Some g')
                                (n_parents nd) (Some (set_invalid g))
                  end)
                roots (Some g3);;
      let roots' := fold_left (fun rs kv => if zmem (fst kv) rs then set_insert (snd kv) (set_remove (fst kv) rs) else rs)
                              id_map roots in
      Some (ag_set_g a2 g4, roots', true)
  end.

(* Graph::assign_spaces_hb -> bool *)
Fixpoint assign_spaces_loop (fuel : nat) (a : agraph) (roots visited : list Z) : option agraph :=
  match roots with
  | [] => Some a
  | next :: _ =>
      match fuel with
      | O => None
      | S f =>
          do c <- find_connected (S (S (length (g_nodes (ag_g a))))) (g_objs (ag_g a)) (g_nodes (ag_g a)) next
                                 (roots, visited, []);;
          let '(roots', visited', connected) := c in
          do r <- isolate_subgraph a connected;;
          assign_spaces_loop f (fst (fst r)) roots' visited'
      end
  end.
Definition assign_spaces (a : agraph) : option (agraph * bool) :=
  do g1 <- update_parents (ag_g a);;
  let n := length (g_objs g1) in
  do vr <- space_roots_loop ((n + 2) * 4000) (g_objs g1) [g_root g1] [] [];;
  let '(visited, roots) := vr in
  match roots with
  | [] => Some (ag_set_g a g1, false)
  | _ =>
      let inverted := filter (fun x => negb (zmem x visited)) (g_order g1) in
      do a' <- assign_spaces_loop (S (length roots)) (ag_set_g a g1) roots inverted;;
      Some (a', true)
  end.

(* Graph::find_overflows: (parent, child) of every overflowing link *)
Fixpoint find_overflow_links (nodes : zmap node) (pid : Z) (parent : node) (ls : list link)
  : option (list (Z * Z)) :=
  match ls with
  | [] => Some []
  | l :: r =>
      do child <- mfind (l_obj l) nodes;;
      do rel <- chk_u 32 (n_pos child - n_pos parent);;
      do rest <- find_overflow_links nodes pid parent r;;
      Some (if max_value (l_width l) <? rel then (pid, l_obj l) :: rest else rest)
  end.
Fixpoint find_overflows_objs (nodes : zmap node) (objs : zmap obj) : option (list (Z * Z)) :=
  match objs with
  | [] => Some []
  | (pid, o) :: r =>
      do parent <- mfind pid nodes;;
      do a <- find_overflow_links nodes pid parent (o_links o);;
      do b <- find_overflows_objs nodes r;;
      Some (a ++ b)
  end.
Definition find_overflows (g : graph) : option (list (Z * Z)) := find_overflows_objs (g_nodes g) (g_objs g).

(* Graph::find_root_of_space *)
Fixpoint find_root_of_space (fuel : nat) (nodes : zmap node) (x : Z) : option Z :=
  match fuel with
  | O => None
  | S f =>
      do nd <- mfind x nodes;;
      match n_parents nd with
      | [] => None                                                     (* parents[0] *)
      | (p, _) :: _ =>
          do pn <- mfind p nodes;;
          if negb (n_space pn =? n_space nd) then Some x else find_root_of_space f nodes p
      end
  end.

(* Graph::try_isolating_subgraphs -> bool *)
Definition try_isolating_subgraphs (a : agraph) (overflows : list (Z * Z)) : option (agraph * bool) :=
  let g := ag_g a in
  do to_isolate <- fold_left (fun acc ov =>
        do m <- acc;;
        do pn <- mfind (fst ov) (g_nodes g);;
        let parent_space := n_space pn in
        if negb (2 <=? parent_space) then Some m else
        do nr <- mfind parent_space (ag_roots a);;                     (* num_roots_per_space[&space] *)
        if nr <? 2 then Some m else
        do cn <- mfind (snd ov) (g_nodes g);;
        if negb (n_space cn =? parent_space) then None else            (* assert_eq! *)
        do root <- find_root_of_space (S (length (g_nodes g))) (g_nodes g) (fst ov);;
        do rn <- mfind root (g_nodes g);;
        if negb (n_space rn =? parent_space) then None else            (* assert_eq! *)
        let cur := match mfind parent_space m with Some s => s | None => [] end in
        Some (minsert parent_space (set_insert root cur) m))
      overflows (Some []);;
  match to_isolate with
  | [] => Some (a, false)
  | _ =>
      do a' <- fold_left (fun acc kv =>
            do a1 <- acc;;
            do n_total <- mfind (fst kv) (ag_roots a1);;
            let roots := firstn (Z.to_nat (n_total / 2)) (snd kv) in
            do r <- isolate_subgraph a1 roots;;
            let a2 := fst (fst r) in
            do n_now <- mfind (fst kv) (ag_roots a2);;
            do n_new <- chk_u 64 (n_now - Z.of_nat (length roots));;
            Some (mkAG (ag_g a2) (ag_next_space a2) (minsert (fst kv) n_new (ag_roots a2)) (ag_ids a2)))
          to_isolate (Some a);;
      Some (a', true)
  end.

(* the loop of pack_objects after space assignment *)
Fixpoint isolate_loop (fuel : nat) (a : agraph) : option (agraph * bool) :=
  match fuel with
  | O => None
  | S f =>
      do ovs <- find_overflows (ag_g a);;
      match ovs with
      | [] => Some (a, true)
      | _ =>
          do r <- try_isolating_subgraphs a ovs;;
          if snd r then
            do g' <- sort_shortest_distance (ag_g (fst r));;
            isolate_loop f (ag_set_g (fst r) g')
          else Some (fst r, false)
      end
  end.

(* Graph::pack_objects, all of it (for objects of type Unknown) *)
Definition pack_objects_full (g : graph) (ids : list Z) : option (graph * bool) :=
  do r <- basic_sort g;;
  let '(g1, ok) := r in
  if ok then Some (g1, true) else
  do ar <- assign_spaces (mkAG g1 2 [] ids);;
  do g2 <- sort_shortest_distance (ag_g (fst ar));;
  do ov <- has_overflows g2;;
  if negb ov then Some (g2, true) else
  do res <- isolate_loop (2 * length (g_nodes g2) + 8) (ag_set_g (fst ar) g2);;
  Some (ag_g (fst res), snd res).

(* ------------------------------------------------------------------------------------------ *)
(* Graph::serialize                                                                            *)

(* out.get_mut(p..).unwrap() then &mut at[..len] then copy_from_slice *)
Definition write_at (out : list Z) (p : Z) (bs : list Z) : option (list Z) :=
  if (0 <=? p) && (p + blen bs <=? blen out) then
    Some (firstn (Z.to_nat p) out ++ bs ++ skipn (Z.to_nat p + length bs) out)
  else None.

(* fn write_offset(at, len, resolved): u16::try_from / Uint24::checked_new .expect(..) *)
Definition offset_bytes (w resolved : Z) : option (list Z) :=
  if w =? 2 then (if resolved <=? 65535 then Some (to_be 2 resolved) else None)
  else if w =? 3 then (if resolved <=? 16777215 then Some (to_be 3 resolved) else None)
  else Some (to_be 4 resolved).
Definition width_bytes (w : Z) : nat := if w =? 2 then 2%nat else if w =? 3 then 3%nat else 4%nat.

(* first pass *)
Fixpoint pass1 (objs : zmap obj) (order : list Z) (off : Z) (offsets : zmap Z) (out : list Z)
  : option (zmap Z * list Z) :=
  match order with
  | [] => Some (offsets, out)
  | id :: r =>
      do nd <- mfind id objs;;                                  (* self.objects.get(id).unwrap() *)
      do off' <- chk_u 32 (off + blen (o_bytes nd));;           (* off += len as u32 *)
      pass1 objs r off' (minsert id off offsets) (out ++ o_bytes nd)
  end.

(* second pass, inner loop *)
Fixpoint pass2_links (offsets : zmap Z) (head : Z) (ls : list link) (out : list Z)
  : option (list Z) :=
  match ls with
  | [] => Some out
  | l :: r =>
      do abs <- mfind (l_obj l) offsets;;                       (* .expect("all offsets visited") *)
      do base <- chk_u 32 (head + l_adj l);;                    (* table_head + adjustment *)
      do rel <- chk_u 32 (abs - base);;                         (* u32 subtraction *)
      do bp <- chk_u 32 (head + l_pos l);;
      do bs <- offset_bytes (l_width l) rel;;
      do out' <- write_at out bp bs;;
      pass2_links offsets head r out'
  end.
Fixpoint pass2 (objs : zmap obj) (offsets : zmap Z) (order : list Z) (head : Z) (out : list Z)
  : option (list Z) :=
  match order with
  | [] => Some out
  | id :: r =>
      do nd <- mfind id objs;;
      do out' <- pass2_links offsets head (o_links nd) out;;
      do head' <- chk_u 32 (head + blen (o_bytes nd));;
      pass2 objs offsets r head' out'
  end.

Definition serialize_ord (objs : zmap obj) (order : list Z) : option (list Z) :=
  match order with
  | [] => None                                                  (* assert!(!self.order.is_empty()) *)
  | _ =>
      do p1 <- pass1 objs order 0 [] [];;
      pass2 objs (fst p1) order 0 (snd p1)
  end.
Definition serialize (g : graph) : option (list Z) := serialize_ord (g_objs g) (g_order g).

(* ------------------------------------------------------------------------------------------ *)
(* write.rs: TableWriter / TableData / ObjectStore, driven by the harness' FontWrite type.

   The harness describes an arbitrary object DAG as a list of nodes, each a list of items;
   its FontWrite::write_into performs, per item: IRun b n -> write_slice(&vec![b; n]),
   ILit l -> write_slice(&l), ILink w c -> write_offset(&node c, w).  write_offset compiles the
   child first (add_table: push TableData, write_into, pop, ObjectStore::add) and then records
   the offset (add_offset).  ObjectStore::add dedups by content and otherwise draws the next id
   from the process-global counter, modelled as a list [ids] of the values this thread's
   fetch_adds return (only assumed strictly increasing in C07). None = ill-formed description
   (index out of range, fuel or id list exhausted) — this part of the real code cannot panic. *)
Inductive item := IRun (b n : Z) | ILit (l : list Z) | ILink (w : Z) (child : nat).
Definition dag := list (list item).

Definition link_eqb (a b : link) : bool :=
  (l_pos a =? l_pos b) && (l_width a =? l_width b) && (l_obj a =? l_obj b) && (l_adj a =? l_adj b).
Fixpoint list_eqb {A} (eqb : A -> A -> bool) (a b : list A) : bool :=
  match a, b with
  | [], [] => true
  | x :: r, y :: s => eqb x y && list_eqb eqb r s
  | _, _ => false
  end.
(* impl PartialEq for TableData *)
Definition obj_eqb (a b : obj) : bool :=
  list_eqb Z.eqb (o_bytes a) (o_bytes b) && list_eqb link_eqb (o_links a) (o_links b).

Record store := mkStore { st_objs : list (obj * Z); st_ids : list Z }.

(* ObjectStore::add *)
Fixpoint store_find (d : obj) (l : list (obj * Z)) : option Z :=
  match l with
  | [] => None
  | (o, id) :: r => if obj_eqb d o then Some id else store_find d r
  end.
Definition store_add (st : store) (d : obj) : option (store * Z) :=
  match store_find d (st_objs st) with
  | Some id => Some (st, id)
  | None => match st_ids st with
            | [] => None
            | id :: rest => Some (mkStore (st_objs st ++ [(d, id)]) rest, id)
            end
  end.

(* TableData::add_offset: OffsetLen from width (2, 3, _ => 4); placeholder 0xff * min(width,4) *)
Definition offset_len_of (w : Z) : Z := if w =? 2 then 2 else if w =? 3 then 3 else 4.
Definition add_offset (d : obj) (id w : Z) (adj : Z) : obj :=
  mkObj (o_bytes d ++ repeat 255 (Z.to_nat (Z.min w 4)))
        (o_links d ++ [mkLink (blen (o_bytes d)) (offset_len_of w) id adj]).

(* TableWriter::add_table *)
Fixpoint add_table (fuel : nat) (d : dag) (idx : nat) (st : store) : option (store * Z) :=
  match fuel with
  | O => None
  | S f =>
      match nth_error d idx with
      | None => None
      | Some items =>
          let fix write_items (its : list item) (data : obj) (st : store) : option (obj * store) :=
            match its with
            | [] => Some (data, st)
            | IRun b n :: r => write_items r (mkObj (o_bytes data ++ repeat b (Z.to_nat n)) (o_links data)) st
            | ILit l :: r => write_items r (mkObj (o_bytes data ++ l) (o_links data)) st
            | ILink w c :: r =>
                do sc <- add_table f d c st;;
                write_items r (add_offset data (snd sc) w 0) (fst sc)
            end in
          do ds <- write_items items (mkObj [] []) st;;
          store_add (snd ds) (fst ds)
      end
  end.

(* Graph::from_obj_store: HashMap<TableData, ObjectId> iterated into a BTreeMap<ObjectId, TableData>.
   [perm] stands for the (arbitrary) iteration order of the HashMap. *)
Definition objs_of_store (l : list (obj * Z)) : zmap obj :=
  fold_left (fun m kv => minsert (snd kv) (fst kv) m) l [].

(* dump_table = make_graph; pack_objects; serialize *)
Inductive result := RBytes (l : list Z) | RFailed | RBeyond | RPanic | RBadCase.

Definition dump_graph (objs : zmap obj) (root : Z) : result :=
  match from_objects objs root with
  | None => RPanic
  | Some g =>
      match pack_objects g with
      | None => RPanic
      | Some (g', Packed) => match serialize g' with Some out => RBytes out | None => RPanic end
      | Some (_, Failed) => RFailed
      | Some (_, Beyond) => RBeyond
      end
  end.

(* dump_table with the complete pack_objects; [ids] = what is left of the id stream after the store *)
Definition dump_graph_full (objs : zmap obj) (root : Z) (ids : list Z) : result :=
  match from_objects objs root with
  | None => RPanic
  | Some g =>
      match pack_objects_full g ids with
      | None => RPanic
      | Some (g', true) => match serialize g' with Some out => RBytes out | None => RPanic end
      | Some (_, false) => RFailed
      end
  end.

Definition dump_table_perm (perm : list (obj * Z) -> list (obj * Z)) (d : dag) (ids : list Z) : result :=
  match add_table (S (length d)) d 0%nat (mkStore [] ids) with
  | None => RBadCase
  | Some (st, root) => dump_graph (objs_of_store (perm (st_objs st))) root
  end.
Definition dump_table (d : dag) (ids : list Z) : result := dump_table_perm (fun l => l) d ids.

(* ------------------------------------------------------------------------------------------ *)
(* specification side (executable): prefix-sum positions and the decidable form [layout_okb] of the
   hypotheses of the gate theorem (coq/C05/Proofs.v: layout_okb_sound : layout_okb = true -> layout_ok) *)
Definition size_of (objs : zmap obj) (id : Z) : Z :=
  match mfind id objs with Some o => blen (o_bytes o) | None => 0 end.
Definition bytes_of (objs : zmap obj) (id : Z) : list Z :=
  match mfind id objs with Some o => o_bytes o | None => [] end.
(* prefix sums: position of (the first occurrence of) [id] in the layout [ord] *)
Fixpoint posof (objs : zmap obj) (ord : list Z) (id : Z) : Z :=
  match ord with
  | [] => 0
  | x :: r => if x =? id then 0 else size_of objs x + posof objs r id
  end.
Fixpoint total_size (objs : zmap obj) (ord : list Z) : Z :=
  match ord with [] => 0 | id :: r => size_of objs id + total_size objs r end.

Fixpoint index_of (x : Z) (l : list Z) : option nat :=
  match l with
  | [] => None
  | y :: r => if y =? x then Some O else option_map S (index_of x r)
  end.
Fixpoint nodupb (l : list Z) : bool :=
  match l with [] => true | x :: r => negb (zmem x r) && nodupb r end.
Fixpoint links_wfb (lo : Z) (ls : list link) (len : Z) : bool :=
  match ls with
  | [] => true
  | l :: r => (lo <=? l_pos l) && ((l_width l =? 2) || (l_width l =? 3) || (l_width l =? 4)) &&
              (l_pos l + l_width l <=? len) && links_wfb (l_pos l + l_width l) r len
  end.
Definition link_okb (objs : zmap obj) (ord : list Z) (id : Z) (l : link) : bool :=
  zmem (l_obj l) ord && (0 <=? l_adj l) &&
  (posof objs ord id + l_adj l <=? posof objs ord (l_obj l)) &&
  (posof objs ord (l_obj l) - (posof objs ord id + l_adj l) <=? max_value (l_width l)) &&
  match index_of id ord, index_of (l_obj l) ord with
  | Some i, Some j => (i <? j)%nat
  | _, _ => false
  end.
Definition layout_okb (objs : zmap obj) (ord : list Z) : bool :=
  negb (match ord with [] => true | _ => false end) && nodupb ord &&
  (total_size objs ord <? 2 ^ 32) &&
  forallb (fun id => match mfind id objs with
                     | None => false
                     | Some o => links_wfb 0 (o_links o) (blen (o_bytes o)) &&
                                 forallb (link_okb objs ord id) (o_links o)
                     end) ord.

(* decidable form of the hypotheses on the object map used by the end-to-end theorem
   (coq/C05/Sort.v graph_hypsb_sound : graph_hypsb = true -> graph_hyps) *)
Definition graph_hypsb (objs : zmap obj) (root : Z) : bool :=
  (match mfind root objs with Some _ => true | None => false end) &&
  forallb (fun kv => links_wfb 0 (o_links (snd kv)) (blen (o_bytes (snd kv))) &&
                     forallb (fun l => negb (l_obj l =? root) && (l_adj l =? 0)) (o_links (snd kv))) objs.

(* the graph pack_objects returns when it reports success *)
Definition packed_graph (objs : zmap obj) (root : Z) : option graph :=
  match from_objects objs root with
  | None => None
  | Some g => match pack_objects g with Some (g', Packed) => Some g' | _ => None end
  end.
(* node positions recorded by the sort = prefix sums of the order *)
Definition positions_matchb (g : graph) : bool :=
  forallb (fun id => match mfind id (g_nodes g) with
                     | Some nd => n_pos nd =? posof (g_objs g) (g_order g) id
                     | None => false
                     end) (g_order g).
(* the size cached in every node (a sorting heuristic AND, through positions, an input of the gate) is the length of
   the bytes serialize will write for that object *)
Definition sizes_matchb (g : graph) : bool :=
  forallb (fun id => match mfind id (g_nodes g), mfind id (g_objs g) with
                     | Some nd, Some o => n_size nd =? blen (o_bytes o)
                     | _, _ => false
                     end) (g_order g).
(* the description only uses offset widths 2,3,4 (other widths are API misuse: see notes) *)
Definition widths_ok (d : dag) : bool :=
  forallb (forallb (fun it => match it with ILink w _ => (2 <=? w) && (w <=? 4) | _ => true end)) d.

(* ------------------------------------------------------------------------------------------ *)
(* correspondence case format (written by harness/src/bin/c05.rs and c07.rs)

   case = (dag, (base, step), (tag, rle)) : the real dump_table on the described object returned
   tag 0 = Ok(bytes) with run-length encoding rle, 1 = Err(PackingFailed), 2 = panic.
   The model (complete pack_objects incl. space assignment / isolation / duplication) is run with the id
   stream base, base+step, base+2*step, ...                                                      *)
Fixpoint rle_go (cur cnt : Z) (l : list Z) : list (Z * Z) :=
  match l with
  | [] => [(cur, cnt)]
  | x :: r => if x =? cur then rle_go cur (cnt + 1) r else (cur, cnt) :: rle_go x 1 r
  end.
Definition rle (l : list Z) : list (Z * Z) :=
  match l with [] => [] | x :: r => rle_go x 1 r end.

Definition pair_eqb (a b : Z * Z) : bool := (fst a =? fst b) && (snd a =? snd b).

Definition id_stream (base step : Z) (n : nat) : list Z :=
  map (fun k => base + step * Z.of_nat k) (seq 0 n).

Definition case_ty : Type := dag * (Z * Z) * (Z * list (Z * Z)).

(* On every case where the model reports success the hypotheses of the theorems are evaluated as well:
   [graph_hypsb] on the object map the store produced (hypothesis of c05_pack_success_resolves) and
   [layout_okb], [positions_matchb] on the packed graph (hypotheses of the gate theorem); skipped for
   misuse widths.  So for every such case the theorems apply to exactly the bytes that were compared
   with the implementation. *)
Definition check_case (c : case_ty) : bool :=
  let '(d, (base, step), (tag, expect)) := c in
  match add_table (S (length d)) d 0%nat (mkStore [] (id_stream base step (40 * length d + 40))) with
  | None => false
  | Some (st, root) =>
      let objs := objs_of_store (st_objs st) in
      match dump_graph_full objs root (st_ids st) with
      | RBytes out =>
          (tag =? 0) && list_eqb pair_eqb (rle out) expect &&
          (negb (widths_ok d) ||
           match packed_graph objs root with
           | Some g' => graph_hypsb objs root &&
                        layout_okb (g_objs g') (g_order g') && positions_matchb g' && sizes_matchb g' &&
                        (match g_order g' with x :: _ => x =? root | [] => false end)
           | None => true                (* success on the space-assignment path: no theorem applies *)
           end)
      | RFailed => tag =? 1
      | RPanic => tag =? 2
      | RBeyond => false
      | RBadCase => false
      end
  end.

(* variant used by C07 shards: the bytes must not depend on the id stream — the model is run with
   the stream of the case AND with two other streams; all three must agree with the real bytes *)
Definition check_case_ids (c : case_ty) : bool :=
  let '(d, (base, step), e) := c in
  check_case c && check_case (d, (0, 1), e) && check_case (d, (base * 7 + 1000003, step + 5), e).
