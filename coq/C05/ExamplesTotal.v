(* C05 — non-vacuity examples for PropsTotal.v *)
From Coq Require Import ZArith List Lia Permutation.
From FV Require Import Lib.RustInt C05.Model C05.Proofs C05.Sort C05.SortTotal C05.Examples.
Import ListNotations.
Open Scope Z_scope.

(* the hypotheses of c05_sort_shortest_total hold of the two-object example (decidable form, rank = index in [2;1]) ... *)
Example c05_dag_okb_example : dag_okb ex_objs 2 [2; 1] = true /\ dag_okb ex_objs 2 [1; 2] = false.
Proof. vm_compute. split; reflexivity. Qed.

(* ... and the theorem's conclusion is what the model computes there *)
Example c05_sort_shortest_total_example :
  exists g g', from_objects ex_objs 2 = Some g /\ dag_ok ex_objs 2 (idxn [2; 1]) /\
    sort_shortest_distance g = Some g' /\ g_order g' = [2; 1].
Proof.
  destruct (dag_okb_sound ex_objs 2 [2; 1] (proj1 c05_dag_okb_example)) as (D & _).
  eexists. eexists. split; [reflexivity|]. split; [exact D|]. vm_compute. split; reflexivity.
Qed.

(* a store-built diamond with sharing (ex_dag): hypotheses hold with the model's Kahn order as rank, sort_kahn's result is
   sd_ready, and sort_shortest_distance on it returns all four objects *)
Example c05_sort_shortest_after_kahn_example :
  match add_table 5 ex_dag 0%nat (mkStore [] (id_stream 10 1 20)) with
  | Some (st, root) =>
      let objs := objs_of_store (st_objs st) in
      match from_objects objs root with
      | Some g => match sort_kahn g with
                  | Some g1 => dag_okb objs root (g_order g1) = true /\
                               match sort_shortest_distance g1 with
                               | Some g2 => length (g_order g2) = length objs /\ length objs = 4%nat
                               | None => False
                               end
                  | None => False
                  end
      | None => False
      end
  | None => False
  end.
Proof. vm_compute. repeat split; reflexivity. Qed.

(* a cyclic map is rejected by the decidable hypotheses (and the model's sort panics: "cycle or something?") *)
Definition ex_cyc : zmap obj :=
  [(1, mkObj [0; 0] [mkLink 0 2 3 0]); (2, mkObj [0; 0] [mkLink 0 2 1 0]); (3, mkObj [0; 0] [mkLink 0 2 1 0])].
Example c05_cycle_not_total :
  dag_okb ex_cyc 2 [2; 1; 3] = false /\
  match from_objects ex_cyc 2 with Some g => sort_shortest_distance g = None | None => False end.
Proof. vm_compute. split; reflexivity. Qed.

(* duplicate_subgraph: the hypotheses of c05_duplicate_subgraph_preserves_fresh hold of the store-built diamond with the
   rest of its id stream, and duplicating the subgraph of the shared child's parent yields new objects whose unfolding
   equals the original's (here checked by evaluation to depth 5; the theorem gives every depth) *)
From FV Require Import C05.Dup.
Example c05_duplicate_subgraph_example :
  match add_table 5 ex_dag 0%nat (mkStore [] (id_stream 10 1 20)) with
  | Some (st, root) =>
      let objs := objs_of_store (st_objs st) in
      match from_objects objs root with
      | Some g =>
          freshb (g_objs g) (st_ids st) = true /\ closedb (g_objs g) = true /\
          match o_links (match mfind root objs with Some o => o | None => mkObj [] [] end) with
          | l :: _ =>
              match duplicate_subgraph 10 (mkAG g 2 [] (st_ids st)) (l_obj l) [] 3 with
              | Some (a', d', nid) =>
                  nid <> l_obj l /\ length (aobjs a') = 6%nat /\
                  unfold 5 (aobjs a') nid = unfold 5 objs (l_obj l) /\ unfold 5 objs (l_obj l) <> Missing
              | None => False
              end
          | [] => False
          end
      | None => False
      end
  | None => False
  end.
Proof. vm_compute. repeat split; try reflexivity; discriminate. Qed.
