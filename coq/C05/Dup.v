(* C05 — Graph::duplicate_subgraph (write-fonts/src/graph.rs) on the model of Model.v (the definition the
   correspondence shards evaluate on the space-assignment path; Model.v is not changed):
   every ORIGINAL object keeps its bytes and links, only fresh ids of the id stream are added, and the copy is
   content-equal to the original: the duplication map is a graph homomorphism that preserves bytes and the
   position / width / adjustment of every link, hence the unfolding (the tree of bytes reachable through the links,
   to every depth) of the copy equals the unfolding of the original. *)
From Coq Require Import ZArith List Bool Lia.
From FV Require Import Lib.RustInt C05.Model C05.Proofs.
Import ListNotations.
Open Scope Z_scope.

Definition aobjs (a : agraph) : zmap obj := g_objs (ag_g a).

(* the ids still to be drawn are pairwise distinct and not yet used as object ids *)
Definition Fresh (a : agraph) : Prop :=
  NoDup (ag_ids a) /\ forall k, In k (ag_ids a) -> mfind k (aobjs a) = None.

(* link l' is link l redirected: same field, target related by the copy relation C *)
Definition Rl (C : list (Z * Z)) (l l' : link) : Prop :=
  l_pos l' = l_pos l /\ l_width l' = l_width l /\ l_adj l' = l_adj l /\ In (l_obj l, l_obj l') C.

(* every pair (x, c) of S is "c is a copy of x": same bytes, links redirected along C *)
Definition HomOn (objs : zmap obj) (S C : list (Z * Z)) : Prop :=
  forall x c, In (x, c) S -> exists o o', mfind x objs = Some o /\ mfind c objs = Some o' /\
    o_bytes o' = o_bytes o /\ Forall2 (Rl C) (o_links o) (o_links o').
Definition Hom (objs : zmap obj) (C : list (Z * Z)) : Prop := HomOn objs C C.

(* a' results from a by drawing the ids [used] and touching only those entries of the object map *)
Definition Step (a a' : agraph) : Prop :=
  exists used, ag_ids a = used ++ ag_ids a' /\ forall x, ~ In x used -> mfind x (aobjs a') = mfind x (aobjs a).

Definition P (a : agraph) (d : zmap Z) (C : list (Z * Z)) : Prop :=
  Fresh a /\ Hom (aobjs a) C /\ forall x c, mfind x d = Some c -> In (x, c) C.

Lemma step_refl a : Step a a.
Proof. exists []. split; [reflexivity|intros; reflexivity]. Qed.
Lemma step_trans a b c : Step a b -> Step b c -> Step a c.
Proof.
  intros (u1 & E1 & F1) (u2 & E2 & F2). exists (u1 ++ u2). split; [rewrite E1, E2, app_assoc; reflexivity|].
  intros x Hx. rewrite F2, F1; [reflexivity| |]; intro H; apply Hx; apply in_or_app; auto.
Qed.
Lemma fresh_step a a' : Fresh a -> Step a a' -> Fresh a'.
Proof.
  intros (Hnd & Hf) (u & E & F). rewrite E in Hnd. split.
  - clear - Hnd. induction u as [|x r IH]; [exact Hnd|]. inversion Hnd; subst. apply IH. assumption.
  - intros k Hk. rewrite F; [apply Hf; rewrite E; apply in_or_app; right; exact Hk|].
    intro Hu. clear - Hnd Hu Hk. induction u as [|x r IH]; [destruct Hu|].
    inversion Hnd; subst. destruct Hu as [->|Hu]; [apply H1; apply in_or_app; right; exact Hk|apply IH; assumption].
Qed.
Lemma step_keeps a a' x : Fresh a -> Step a a' -> mfind x (aobjs a) <> None -> mfind x (aobjs a') = mfind x (aobjs a).
Proof.
  intros (_ & Hf) (u & E & F) Hx. apply F. intro Hu. apply Hx. apply Hf. rewrite E. apply in_or_app. left. exact Hu.
Qed.

Lemma Rl_mono C C' l l' : incl C C' -> Rl C l l' -> Rl C' l l'.
Proof. intros Hi (H1 & H2 & H3 & H4). repeat split; auto. Qed.
Lemma Forall2_Rl_mono C C' ls ls' : incl C C' -> Forall2 (Rl C) ls ls' -> Forall2 (Rl C') ls ls'.
Proof. intros Hi H. induction H; constructor; [eapply Rl_mono; eauto|assumption]. Qed.

Lemma homon_mono objs objs' S C C' : HomOn objs S C ->
  (forall x, mfind x objs <> None -> mfind x objs' = mfind x objs) -> incl C C' -> HomOn objs' S C'.
Proof.
  intros H Hk Hi x c Hin. destruct (H x c Hin) as (o & o' & Hx & Hc & Hb & Hl).
  exists o, o'. split; [rewrite Hk; [exact Hx|congruence]|]. split; [rewrite Hk; [exact Hc|congruence]|].
  split; [exact Hb|]. eapply Forall2_Rl_mono; eauto.
Qed.

Lemma fold_left_none {A B} (f : option A -> B -> option A) (ls : list B) :
  (forall b, f None b = None) -> fold_left f ls None = None.
Proof. intros Hf. induction ls as [|b r IH]; cbn [fold_left]; [reflexivity|]. rewrite Hf. exact IH. Qed.

Lemma duplicate_subgraph_spec : forall fuel a root d space a' d' nid C,
  duplicate_subgraph fuel a root d space = Some (a', d', nid) -> P a d C ->
  exists C', incl C C' /\ P a' d' C' /\ In (root, nid) C' /\ Step a a'.
Proof.
  induction fuel as [|f IHf]; intros a root d space a' d' nid C H HP; [discriminate|].
  cbn [duplicate_subgraph] in H.
  destruct (mfind root d) as [existing|] eqn:Ed.
  { inversion H; subst. exists C. split; [apply incl_refl|]. split; [exact HP|]. split; [|apply step_refl].
    destruct HP as (_ & _ & Hd). apply Hd. exact Ed. }
  destruct (ag_ids a) as [|new_root rest] eqn:Eids; [discriminate|].
  set (a0 := mkAG (set_invalid (ag_g a)) (ag_next_space a) (ag_roots a) rest) in *.
  assert (Eo0 : aobjs a0 = aobjs a) by reflexivity.
  destruct (mfind root (g_objs (ag_g a0))) as [o|] eqn:Eo; cbn [obind] in H; [|discriminate].
  change (g_objs (ag_g a0)) with (aobjs a0) in Eo. rewrite Eo0 in Eo.
  destruct HP as (HF & HH & Hd).
  assert (Hstep0 : Step a a0).
  { exists [new_root]. split; [rewrite Eids; reflexivity|]. intros x _. rewrite Eo0. reflexivity. }
  pose proof (fresh_step _ _ HF Hstep0) as HF0.
  (* the loop over the links *)
  set (F := fun (acc : option (agraph * zmap Z * list link)) (l : link) =>
              do st <- acc;;
              let '(a1, d1, ls) := st in
              do r1 <- duplicate_subgraph f a1 (l_obj l) d1 space;;
              let '(a2, d2, nid) := r1 in Some (a2, d2, ls ++ [set_link_obj l nid])) in *.
  assert (Hfold : forall ls a1 d1 acc C1 a3 d3 links',
            fold_left F ls (Some (a1, d1, acc)) = Some (a3, d3, links') -> P a1 d1 C1 ->
            exists C3 new, incl C1 C3 /\ P a3 d3 C3 /\ Step a1 a3 /\ links' = acc ++ new /\ Forall2 (Rl C3) ls new).
  { induction ls as [|l r IHl]; intros a1 d1 acc C1 a3 d3 links' Hrun HP1; cbn [fold_left] in Hrun.
    - inversion Hrun; subst. exists C1, []. split; [apply incl_refl|]. split; [exact HP1|]. split; [apply step_refl|].
      split; [rewrite app_nil_r; reflexivity|constructor].
    - unfold F at 2 in Hrun. cbn [obind] in Hrun.
      destruct (duplicate_subgraph f a1 (l_obj l) d1 space) as [[[a2 d2] nid2]|] eqn:Er; cbn [obind] in Hrun.
      2:{ rewrite fold_left_none in Hrun by reflexivity. discriminate. }
      destruct (IHf _ _ _ _ _ _ _ C1 Er HP1) as (C2 & Hi2 & HP2 & Hin2 & Hs2).
      destruct (IHl _ _ _ C2 _ _ _ Hrun HP2) as (C3 & new & Hi3 & HP3 & Hs3 & El & Hf2).
      exists C3, (set_link_obj l nid2 :: new). split; [eapply incl_tran; eauto|]. split; [exact HP3|].
      split; [eapply step_trans; eauto|]. split; [rewrite El, <- app_assoc; reflexivity|].
      constructor; [|exact Hf2]. repeat split; try reflexivity. apply Hi3. exact Hin2. }
  destruct (fold_left F (o_links o) (Some (a0, d, []))) as [[[a3 d3] links']|] eqn:Efold; cbn [obind] in H; [|discriminate].
  assert (HP0 : P a0 d C) by (split; [exact HF0|]; split; [rewrite Eo0; exact HH|exact Hd]).
  destruct (Hfold _ _ _ _ C _ _ _ Efold HP0) as (C3 & new & Hi3 & (HF3 & HH3 & Hd3) & Hs3 & El & Hf3).
  cbn [app] in El. subst links'. inversion H; subst a' d' nid. clear H.
  set (g3 := ag_g a3) in *.
  set (g4 := mkGraph (minsert new_root (mkObj (o_bytes o) new) (g_objs g3))
                     (minsert new_root (mkNode (wrap_u 32 (blen (o_bytes o))) 0 0 space [] 0) (g_nodes g3))
                     (g_order g3) (g_root g3) (g_parents_invalid g3)).
  set (a4 := ag_set_g a3 g4).
  assert (Eo4 : aobjs a4 = minsert new_root (mkObj (o_bytes o) new) (aobjs a3)) by reflexivity.
  assert (Hs03 : Step a a3) by (eapply step_trans; eauto).
  assert (Hnr_a : mfind new_root (aobjs a) = None) by (apply (proj2 HF); rewrite Eids; left; reflexivity).
  destruct Hs3 as (u3 & E3 & F3). cbn [ag_ids a0] in E3.
  assert (Hs4 : Step a a4).
  { exists (new_root :: u3). split; [rewrite Eids, E3; reflexivity|].
    intros x Hx. rewrite Eo4. rewrite mfind_minsert_other by (intro E; apply Hx; left; exact E).
    rewrite F3 by (intro Hu; apply Hx; right; exact Hu). rewrite Eo0. reflexivity. }
  assert (Hnr3 : mfind new_root (aobjs a3) = None).
  { rewrite F3; [rewrite Eo0; exact Hnr_a|].
    intro Hu. destruct HF as (Hnd & _). rewrite Eids in Hnd. apply NoDup_cons_iff in Hnd. destruct Hnd as (Hni & _).
    apply Hni. rewrite E3. apply in_or_app. left. exact Hu. }
  assert (Hkeep34 : forall x, mfind x (aobjs a3) <> None -> mfind x (aobjs a4) = mfind x (aobjs a3)).
  { intros x Hx. rewrite Eo4. apply mfind_minsert_other. intro E. subst x. apply Hx. exact Hnr3. }
  set (C4 := (root, new_root) :: C3).
  assert (Hi34 : incl C3 C4) by (intros p Hp; right; exact Hp).
  exists C4. split; [intros p Hp; right; apply Hi3; exact Hp|]. split; [|split; [left; reflexivity|exact Hs4]].
  split; [exact (fresh_step _ _ HF Hs4)|]. split.
  - intros x c [E|Hin].
    + inversion E; subst x c. exists o, (mkObj (o_bytes o) new).
      split; [rewrite (step_keeps _ _ root HF Hs4); [exact Eo|congruence]|].
      split; [rewrite Eo4; apply mfind_minsert_same|]. split; [reflexivity|].
      cbn [o_links]. eapply Forall2_Rl_mono; [exact Hi34|exact Hf3].
    + exact (homon_mono _ _ _ _ _ HH3 Hkeep34 Hi34 x c Hin).
  - intros x c Hx. destruct (Z.eq_dec x root) as [->|Hne].
    + rewrite mfind_minsert_same in Hx. inversion Hx; subst. left. reflexivity.
    + rewrite mfind_minsert_other in Hx by congruence. right. apply Hd3. exact Hx.
Qed.

(* ------------------------------------------------------------------------------------------ *)
(* unfolding: the tree of bytes and link fields reachable from an object, to depth n           *)

Inductive tree := Cut | Missing | Node (bytes : list Z) (kids : list (Z * Z * Z * tree)).
Fixpoint unfold (n : nat) (objs : zmap obj) (id : Z) : tree :=
  match n with
  | O => Cut
  | S k => match mfind id objs with
           | None => Missing
           | Some o => Node (o_bytes o) (map (fun l => (l_pos l, l_width l, l_adj l, unfold k objs (l_obj l))) (o_links o))
           end
  end.

Lemma hom_unfold objs C : Hom objs C -> forall n x c, In (x, c) C -> unfold n objs c = unfold n objs x.
Proof.
  intros HH. induction n as [|k IH]; intros x c Hin; [reflexivity|]. cbn [unfold].
  destruct (HH x c Hin) as (o & o' & -> & -> & Hb & Hl). rewrite Hb. f_equal.
  induction Hl as [|l l' ls ls' (H1 & H2 & H3 & H4) _ IHl]; [reflexivity|]. cbn [map].
  rewrite IHl, H1, H2, H3, (IH _ _ H4). reflexivity.
Qed.

(* objects whose links all exist: the unfolding of an original only looks at originals *)
Definition closed (objs : zmap obj) : Prop :=
  forall id o l, mfind id objs = Some o -> In l (o_links o) -> mfind (l_obj l) objs <> None.

Lemma keep_unfold objs objs' : closed objs ->
  (forall x, mfind x objs <> None -> mfind x objs' = mfind x objs) ->
  forall n x, mfind x objs <> None -> unfold n objs' x = unfold n objs x.
Proof.
  intros Hc Hk. induction n as [|k IH]; intros x Hx; [reflexivity|]. cbn [unfold]. rewrite (Hk x Hx).
  destruct (mfind x objs) as [o|] eqn:Eo; [|reflexivity]. f_equal.
  apply map_ext_in. intros l Hl. rewrite IH; [reflexivity|]. eapply Hc; eauto.
Qed.

(* Graph::duplicate_subgraph preserves the content.  [C]: the copy relation built so far (every entry of the
   duplication map [d] is in it and it is a content-preserving homomorphism) — [C = []] for [d = []]. *)
Theorem duplicate_subgraph_preserves fuel a root d space a' d' nid C :
  duplicate_subgraph fuel a root d space = Some (a', d', nid) -> P a d C ->
  (* every original object keeps its bytes and its links; new objects only under ids drawn from the stream *)
  (forall x, mfind x (aobjs a) <> None -> mfind x (aobjs a') = mfind x (aobjs a)) /\
  (exists used, ag_ids a = used ++ ag_ids a' /\ forall x, ~ In x used -> mfind x (aobjs a') = mfind x (aobjs a)) /\
  (* the invariant is re-established for the next call (isolate_subgraph_hb calls it in a loop with the same map) *)
  (exists C', incl C C' /\ P a' d' C' /\ In (root, nid) C' /\
     (* the returned id is a copy of root: same bytes, every link field the same, every link target a copy of the
        original target, recursively — the unfoldings coincide to every depth *)
     (forall n x c, In (x, c) C' -> unfold n (aobjs a') c = unfold n (aobjs a') x)) /\
  (closed (aobjs a) -> mfind root (aobjs a) <> None -> forall n, unfold n (aobjs a') nid = unfold n (aobjs a) root).
Proof.
  intros H HP. destruct (duplicate_subgraph_spec _ _ _ _ _ _ _ _ _ H HP) as (C' & Hi & HP' & Hin & Hs).
  pose proof (fun x => step_keeps a a' x (proj1 HP) Hs) as Hkeep.
  split; [exact Hkeep|]. split; [exact Hs|]. split.
  - exists C'. split; [exact Hi|]. split; [exact HP'|]. split; [exact Hin|].
    intros n x c Hc. apply (hom_unfold _ _ (proj1 (proj2 HP'))). exact Hc.
  - intros Hcl Hroot n. rewrite (hom_unfold _ _ (proj1 (proj2 HP')) n root nid Hin).
    apply keep_unfold; assumption.
Qed.

(* the instance used first by isolate_subgraph_hb: empty duplication map *)
Corollary duplicate_subgraph_preserves_fresh fuel a root space a' d' nid :
  duplicate_subgraph fuel a root [] space = Some (a', d', nid) -> Fresh a -> closed (aobjs a) ->
  mfind root (aobjs a) <> None ->
  (forall x, mfind x (aobjs a) <> None -> mfind x (aobjs a') = mfind x (aobjs a)) /\
  (forall n, unfold n (aobjs a') nid = unfold n (aobjs a) root) /\
  (forall x c, mfind x d' = Some c -> forall n, unfold n (aobjs a') c = unfold n (aobjs a') x).
Proof.
  intros H HF Hcl Hroot.
  assert (HP : P a [] []) by (split; [exact HF|]; split; [intros x c []|intros x c Hx; discriminate]).
  destruct (duplicate_subgraph_preserves _ _ _ _ _ _ _ _ _ H HP) as (H1 & _ & (C' & _ & (_ & _ & Hd') & _ & Hu) & H4).
  split; [exact H1|]. split; [apply H4; assumption|].
  intros x c Hx n. exact (Hu n x c (Hd' x c Hx)).
Qed.

(* ------------------------------------------------------------------------------------------ *)
(* decidable forms of the hypotheses, evaluated per correspondence case (SortTotal.v check_case_t) on the state in
   which pack_objects enters the space-assignment path: mkAG g 2 [] ids with the rest of the id stream *)
Definition freshb (objs : zmap obj) (ids : list Z) : bool :=
  nodupb ids && forallb (fun k => match mfind k objs with None => true | Some _ => false end) ids.
Definition closedb (objs : zmap obj) : bool :=
  forallb (fun kv => forallb (fun l => match mfind (l_obj l) objs with Some _ => true | None => false end)
                             (o_links (snd kv))) objs.

Lemma freshb_sound g ns roots ids : freshb (g_objs g) ids = true -> Fresh (mkAG g ns roots ids).
Proof.
  unfold freshb. intros H. apply andb_prop in H. destruct H as (H1 & H2). split; [apply nodupb_sound; exact H1|].
  rewrite forallb_forall in H2. intros k Hk. specialize (H2 k Hk). unfold aobjs. cbn [ag_g ag_ids] in *.
  destruct (mfind k (g_objs g)); [discriminate|reflexivity].
Qed.
Lemma closedb_sound objs : closedb objs = true -> closed objs.
Proof.
  unfold closedb. rewrite forallb_forall. intros H id o l Ho Hl.
  specialize (H _ (mfind_In _ _ _ Ho)). cbn [snd] in H. rewrite forallb_forall in H. specialize (H l Hl).
  destruct (mfind (l_obj l) objs); [discriminate|discriminate H].
Qed.
Lemma dup_hypsb_sound g ns roots ids : freshb (g_objs g) ids = true -> closedb (g_objs g) = true ->
  Fresh (mkAG g ns roots ids) /\ closed (g_objs g).
Proof. intros H1 H2. split; [apply freshb_sound; exact H1|apply closedb_sound; exact H2]. Qed.
