(* C03 — lemmas: the skrifa-side and FreeType-side kernel models of Model.v agree.
   Props.v restates the property-level theorems. *)
From Coq Require Import ZArith Lia List Bool.
From Coq Require Import ZifyBool.
From FV Require Import Lib.RustInt C15.Model C15.Proofs C03.Model.
Import ListNotations.
Open Scope Z_scope.
Ltac Zify.zify_post_hook ::= Z.div_mod_to_equations.

Definition i64 (z : Z) : Prop := -9223372036854775808 <= z <= 9223372036854775807.

Ltac pows :=
  change (2 ^ 64) with 18446744073709551616 in *;
  change (2 ^ (64 - 1)) with 9223372036854775808 in *;
  change (2 ^ 63) with 9223372036854775808 in *;
  change (2 ^ 32) with 4294967296 in *;
  change (2 ^ (32 - 1)) with 2147483648 in *;
  change (2 ^ 31) with 2147483648 in *;
  change (2 ^ 16) with 65536 in *;
  change (2 ^ 14) with 16384 in *;
  change (2 ^ 6) with 64 in *;
  change (2 ^ 5) with 32 in *;
  change (2 ^ 1) with 2 in *.

(* ---------- the C integer conversions on small values ---------- *)
Lemma long_id z : i64 z -> long z = z.
Proof. unfold i64, long, wrap_s. pows. lia. Qed.

Lemma ulong_nonneg z : 0 <= z < 18446744073709551616 -> ulong z = z.
Proof. unfold ulong, wrap_u. pows. lia. Qed.

Lemma ADD_LONG_exact a b : i64 a -> i64 b -> i64 (a + b) -> ADD_LONG a b = a + b.
Proof. unfold i64, ADD_LONG, long, ulong, wrap_s, wrap_u. pows. lia. Qed.

Lemma SUB_LONG_exact a b : i64 a -> i64 b -> i64 (a - b) -> SUB_LONG a b = a - b.
Proof. unfold i64, SUB_LONG, long, ulong, wrap_s, wrap_u. pows. lia. Qed.

Lemma NEG_LONG_exact a : i64 a -> i64 (- a) -> NEG_LONG a = - a.
Proof. unfold i64, NEG_LONG, long, ulong, wrap_s, wrap_u. pows. lia. Qed.

Lemma NEG_LONG_mod32 a : wrap_s 32 (NEG_LONG a) = wrap_s 32 (- a).
Proof. unfold NEG_LONG, long, ulong, wrap_s, wrap_u. pows. lia. Qed.

Lemma wrap_s32_long x : wrap_s 32 (long x) = wrap_s 32 x.
Proof. unfold long, wrap_s. pows. lia. Qed.

Lemma move_sign_abs x : i32 x -> move_sign_u x (ulong x) = Z.abs x.
Proof. intros H. unfold move_sign_u, ulong. apply wrap_u64_abs. exact H. Qed.

Lemma shiftr63 v : -9223372036854775808 <= v < 9223372036854775808 ->
  Z.shiftr v 63 = if v <? 0 then -1 else 0.
Proof. intros H. rewrite Z.shiftr_div_pow2 by lia. pows. destruct (v <? 0) eqn:E; lia. Qed.

Lemma i32_i64 z : i32 z -> i64 z.
Proof. unfold i32, i64. lia. Qed.

(* x & y stays within i32 when both operands are *)
Lemma land_i32 x y : i32 x -> i32 y -> i32 (Z.land x y).
Proof.
  intros Hx Hy.
  assert (Hs : forall z, i32 z <-> (Z.shiftr z 31 = 0 \/ Z.shiftr z 31 = -1)).
  { intros z. rewrite Z.shiftr_div_pow2 by lia. pows. unfold i32. lia. }
  apply Hs. rewrite Z.shiftr_land.
  apply Hs in Hx. apply Hs in Hy.
  destruct Hx as [-> | ->]; destruct Hy as [-> | ->]; cbn; auto.
Qed.

Lemma lnot63 : Z.lnot 63 = int_mask 6. Proof. reflexivity. Qed.
Lemma lnot31 : Z.lnot 31 = int_mask 5. Proof. reflexivity. Qed.
Lemma lnot65535 : Z.lnot 65535 = int_mask 16. Proof. reflexivity. Qed.

Lemma sk_floor_spec x : sk_floor x = x / 64 * 64.
Proof. unfold sk_floor. rewrite lnot63, land_int_mask by lia. reflexivity. Qed.
Lemma FT_PIX_FLOOR_spec x : FT_PIX_FLOOR x = x / 64 * 64.
Proof. unfold FT_PIX_FLOOR. rewrite lnot63, land_int_mask by lia. reflexivity. Qed.

(* ---------- FT_MulFix ---------- *)
Lemma ftmulfix_eq a b : i32 a -> i32 b -> sk_mul a b = ft_mulfix a b.
Proof.
  intros Ha Hb. unfold sk_mul, fixed_mul, ft_mulfix, ft_mulfix_x86_64, int32. cbv zeta.
  rewrite (wrap_s32_id a Ha), (wrap_s32_id b Hb).
  assert (Hp : -9223372036854775808 <= a * b < 9223372036854775808) by (unfold i32 in *; nia).
  rewrite (shiftr63 _ Hp). destruct (a * b <? 0); f_equal; f_equal; lia.
Qed.

Lemma ftmulfix_portable_mod32 a b : sk_mul a b = wrap_s 32 (ft_mulfix_portable a b).
Proof. unfold sk_mul, fixed_mul, ft_mulfix_portable. cbv zeta. rewrite wrap_s32_long. reflexivity. Qed.

Lemma ftmulfix_portable_eq a b : i32 a -> i32 b -> i32 (ft_mulfix_portable a b) ->
  sk_mul a b = ft_mulfix_portable a b.
Proof. intros _ _ H. rewrite ftmulfix_portable_mod32. apply wrap_s32_id. exact H. Qed.

Lemma scale_point_eq v scale : i32 v -> i32 scale -> sk_scale_coord v scale = ft_mulfix v scale.
Proof. exact (ftmulfix_eq v scale). Qed.

(* ---------- FT_DivFix ---------- *)
Lemma sign2 (a b : Z) :
  ((if b <? 0 then - (if a <? 0 then -1 else 1) else (if a <? 0 then -1 else 1)) <? 0)
  = xorb (a <? 0) (b <? 0).
Proof. destruct (a <? 0), (b <? 0); reflexivity. Qed.

Lemma ft_sign2 (a b : Z) :
  (move_sign_s b (move_sign_s a 1) <? 0) = xorb (a <? 0) (b <? 0).
Proof. unfold move_sign_s. destruct (a <? 0), (b <? 0); reflexivity. Qed.

Lemma mod32_neg_u q : wrap_s 32 (- wrap_u 32 q) = wrap_s 32 (- q).
Proof. unfold wrap_s, wrap_u. pows. lia. Qed.
Lemma mod32_neg_long q : wrap_s 32 (- long q) = wrap_s 32 (- q).
Proof. unfold long, wrap_s. pows. lia. Qed.

Lemma ftdivfix_mod32 a b : i32 a -> i32 b -> sk_div a b = wrap_s 32 (ft_divfix a b).
Proof.
  intros Ha Hb. unfold sk_div, fixed_div, ft_divfix. cbv zeta.
  rewrite sign2, ft_sign2.
  rewrite (wrap_u32_of_abs a Ha), (wrap_u32_of_abs b Hb).
  rewrite (move_sign_abs a Ha), (move_sign_abs b Hb).
  rewrite wrap_s32_neg_wrap.
  set (A := Z.abs a). set (B := Z.abs b).
  assert (HA : 0 <= A <= 2147483648) by (unfold i32 in *; subst A; lia).
  assert (HB : 0 <= B <= 2147483648) by (unfold i32 in *; subst B; lia).
  destruct (B =? 0) eqn:EB.
  - assert (E0 : (0 <? B) = false) by lia. rewrite E0.
    destruct (xorb _ _); reflexivity.
  - assert (E0 : (0 <? B) = true) by lia. rewrite E0.
    rewrite Z.shiftl_mul_pow2, Z.shiftr_div_pow2 by lia. pows.
    rewrite (ulong_nonneg (A * 65536)) by lia.
    rewrite (ulong_nonneg (A * 65536 + B / 2)) by lia.
    destruct (xorb _ _).
    + rewrite NEG_LONG_mod32, mod32_neg_long, mod32_neg_u. reflexivity.
    + rewrite wrap_s32_long, wrap_s32_u32. reflexivity.
Qed.

Lemma ftdivfix_eq a b : i32 a -> i32 b -> i32 (ft_divfix a b) -> sk_div a b = ft_divfix a b.
Proof. intros Ha Hb H. rewrite ftdivfix_mod32 by assumption. apply wrap_s32_id. exact H. Qed.

Lemma compute_scale_eq ppem64 upem : i32 ppem64 -> i32 upem -> i32 (ft_divfix ppem64 upem) ->
  sk_compute_scale ppem64 upem = ft_divfix ppem64 upem.
Proof. exact (ftdivfix_eq ppem64 upem). Qed.

(* ---------- FT_MulDiv ---------- *)
Lemma sign3 (a b c : Z) :
  ((if c <? 0
    then - (if b <? 0 then - (if a <? 0 then -1 else 1) else if a <? 0 then -1 else 1)
    else if b <? 0 then - (if a <? 0 then -1 else 1) else if a <? 0 then -1 else 1) <? 0)
  = (move_sign_s c (move_sign_s b (move_sign_s a 1)) <? 0).
Proof. unfold move_sign_s. destruct (a <? 0), (b <? 0), (c <? 0); reflexivity. Qed.

Lemma ftmuldiv_mod32 a b c : i32 a -> i32 b -> i32 c -> sk_mul_div a b c = wrap_s 32 (ft_muldiv a b c).
Proof.
  intros Ha Hb Hc. unfold sk_mul_div, fixed_mul_div, ft_muldiv. cbv zeta.
  rewrite (wrap_u64_abs a Ha), (wrap_u64_abs b Hb), (wrap_u64_abs c Hc).
  rewrite (move_sign_abs a Ha), (move_sign_abs b Hb), (move_sign_abs c Hc).
  rewrite sign3. unfold ulong.
  set (D := if 0 <? Z.abs c then _ else _).
  destruct (_ <? 0).
  - rewrite wrap_s32_neg_wrap, NEG_LONG_mod32, mod32_neg_long. reflexivity.
  - rewrite wrap_s32_long. reflexivity.
Qed.

Lemma ftmuldiv_eq a b c : i32 a -> i32 b -> i32 c -> i32 (ft_muldiv a b c) ->
  sk_mul_div a b c = ft_muldiv a b c.
Proof. intros Ha Hb Hc H. rewrite ftmuldiv_mod32 by assumption. apply wrap_s32_id. exact H. Qed.

(* ---------- TT_MulFix14 ---------- *)
Lemma mul14_eq a b : i32 a -> i32 b -> sk_mul14 a b = ft_mulfix14 a b.
Proof. intros _ _. reflexivity. Qed.

Lemma mul14_core n : Z.shiftr (n + (8192 + (if n <? 0 then -1 else 0))) 14 = rha n 16384.
Proof.
  rewrite Z.shiftr_div_pow2 by lia. pows.
  destruct (n <? 0) eqn:E.
  - rewrite rha_neg by lia. lia.
  - rewrite rha_pos by lia. lia.
Qed.

Lemma mul14_spec a b : i32 a -> i32 b -> sk_mul14 a b = wrap_s 32 (rha (a * b) 16384).
Proof.
  intros Ha Hb. unfold sk_mul14. cbv zeta.
  assert (Hp : -9223372036854775808 <= a * b < 9223372036854775808) by (unfold i32 in *; nia).
  rewrite (shiftr63 _ Hp). rewrite mul14_core. reflexivity.
Qed.

(* ---------- FT_MulDiv_No_Round ---------- *)
Lemma chk32_some z v : chk_s 32 z = Some v -> v = z /\ i32 z.
Proof.
  unfold chk_s, in_s, i32. pows. destruct (_ && _) eqn:E; [|discriminate].
  intros H. inversion H. subst. lia.
Qed.

Lemma chk32_id z : i32 z -> chk_s 32 z = Some z.
Proof. unfold chk_s, in_s, i32. pows. intros H. replace (_ && _) with true by lia. reflexivity. Qed.

Lemma abs_chk a z : i32 a -> (if a <? 0 then ar32 true (- a) else Some a) = Some z ->
  z = Z.abs a /\ 0 <= z <= 2147483647.
Proof.
  intros Ha. unfold ar32. destruct (a <? 0) eqn:E.
  - intros H. apply chk32_some in H. unfold i32 in *. lia.
  - intros H. inversion H. subst. unfold i32 in *. lia.
Qed.

Ltac step H :=
  match type of H with
  | obind ?o _ = Some _ => let E := fresh "E" in destruct o eqn:E; cbn [obind] in H; [|discriminate H]
  end.

Lemma ftmuldiv_noround_mod32 a b c v : i32 a -> i32 b -> i32 c ->
  sk_mul_div_no_round true a b c = Some v -> v = wrap_s 32 (ft_muldiv_no_round a b c).
Proof.
  intros Ha Hb Hc H. unfold sk_mul_div_no_round in H. cbv zeta in H.
  step H. step H. step H.
  apply (abs_chk a _ Ha) in E. apply (abs_chk b _ Hb) in E0. apply (abs_chk c _ Hc) in E1.
  destruct E as [-> HA], E0 as [-> HB], E1 as [-> HC].
  unfold ft_muldiv_no_round. cbv zeta.
  rewrite (move_sign_abs a Ha), (move_sign_abs b Hb), (move_sign_abs c Hc).
  rewrite sign3 in H.
  assert (HD : (if 0 <? Z.abs c then Z.quot (Z.abs a * Z.abs b) (Z.abs c) else 2147483647)
             = (if 0 <? Z.abs c then ulong (Z.abs a * Z.abs b) / Z.abs c else 2147483647)).
  { destruct (0 <? Z.abs c) eqn:E; [|reflexivity].
    rewrite Z.quot_div_nonneg by lia. rewrite ulong_nonneg by nia. reflexivity. }
  rewrite HD in H. set (D := if 0 <? Z.abs c then _ else _) in *.
  destruct (_ <? 0).
  - unfold ar32 in H. apply chk32_some in H. destruct H as [-> Hr].
    rewrite NEG_LONG_mod32, mod32_neg_long. rewrite <- wrap_s32_neg_wrap.
    symmetry. apply wrap_s32_id. exact Hr.
  - inversion H. rewrite wrap_s32_long. reflexivity.
Qed.

Lemma ftmuldiv_noround_eq a b c v : i32 a -> i32 b -> i32 c -> i32 (ft_muldiv_no_round a b c) ->
  sk_mul_div_no_round true a b c = Some v -> v = ft_muldiv_no_round a b c.
Proof.
  intros Ha Hb Hc Hr H. rewrite (ftmuldiv_noround_mod32 a b c v) by assumption.
  apply wrap_s32_id. exact Hr.
Qed.

(* the kernel does not trap when no operand is i32::MIN and the quotient fits *)
Lemma muldiv_noround_total a b c : i32 a -> i32 b -> i32 c ->
  a <> -2147483648 -> b <> -2147483648 -> c <> -2147483648 ->
  (c <> 0 -> Z.abs a * Z.abs b / Z.abs c <= 2147483647) ->
  exists v, sk_mul_div_no_round true a b c = Some v.
Proof.
  intros Ha Hb Hc Na Nb Nc Hq. unfold sk_mul_div_no_round. cbv zeta.
  assert (Ea : (if a <? 0 then ar32 true (- a) else Some a) = Some (Z.abs a)).
  { unfold ar32. destruct (a <? 0) eqn:E; [rewrite chk32_id by (unfold i32 in *; lia)|]; f_equal; lia. }
  assert (Eb : (if b <? 0 then ar32 true (- b) else Some b) = Some (Z.abs b)).
  { unfold ar32. destruct (b <? 0) eqn:E; [rewrite chk32_id by (unfold i32 in *; lia)|]; f_equal; lia. }
  assert (Ec : (if c <? 0 then ar32 true (- c) else Some c) = Some (Z.abs c)).
  { unfold ar32. destruct (c <? 0) eqn:E; [rewrite chk32_id by (unfold i32 in *; lia)|]; f_equal; lia. }
  rewrite Ea, Eb, Ec. cbn [obind].
  set (D := if 0 <? Z.abs c then _ else _).
  assert (HD : 0 <= D <= 2147483647).
  { subst D. destruct (0 <? Z.abs c) eqn:E; [|lia].
    rewrite Z.quot_div_nonneg by lia. split; [apply Z.div_pos; nia | apply Hq; lia]. }
  clearbody D.
  match goal with |- context [if ?s then ar32 true _ else _] => destruct s end; [|eauto].
  unfold ar32. rewrite chk32_id; [eauto|].
  rewrite wrap_s32_id by (unfold i32; lia). unfold i32. lia.
Qed.

(* ---------- rounding: RoundState::round  vs  Round_* of ttinterp.c (compensation 0) ---------- *)
Ltac inv_chk := repeat match goal with
  | H : ar32 true _ = Some _ |- _ => apply chk32_some in H; destruct H as [? ?]; subst
  | H : Some _ = Some _ |- _ => inversion H; clear H; subst
  end.
Ltac steps := repeat match goal with
  | H : obind ?o _ = Some _ |- _ => let E := fresh "E" in destruct o eqn:E; cbn [obind] in H; [|discriminate H]
  end.
Ltac unfold_c :=
  unfold FT_PIX_ROUND_LONG, FT_PIX_CEIL_LONG, FT_PAD_ROUND_LONG, FT_PAD_FLOOR, FT_PIX_FLOOR, sk_floor,
         ADD_LONG, SUB_LONG, NEG_LONG, long, ulong, wrap_s, wrap_u in *.

Lemma FLOORs x : Z.land x (Z.lnot 63) = x / 64 * 64.
Proof. exact (sk_floor_spec x). Qed.
Lemma PADs x : Z.land x (Z.lnot (32 - 1)) = x / 32 * 32.
Proof. change (Z.lnot (32 - 1)) with (int_mask 5). rewrite land_int_mask by lia. reflexivity. Qed.

Ltac grid_tac :=
  steps; inv_chk; unfold_c; change (Z.quot 32 2) with 16 in *;
  rewrite ?FLOORs, ?PADs in *; cbv zeta; pows; unfold i32 in *;
  match goal with
  | |- context [if ?c then _ else _] => destruct c eqn:?; lia
  end.

Lemma round_grid_eq thr ph per d v : i32 d ->
  sk_rs_round true 0 thr ph per d = Some v -> v = ft_rs_round 0 thr ph per d.
Proof.
  intros Hd H. unfold sk_rs_round, sk_round in H. unfold ft_rs_round, ft_round_to_grid.
  destruct (0 <=? d) eqn:Ed; grid_tac.
Qed.

Lemma round_half_grid_eq thr ph per d v : i32 d ->
  sk_rs_round true 1 thr ph per d = Some v -> v = ft_rs_round 1 thr ph per d.
Proof.
  intros Hd H. unfold sk_rs_round in H. unfold ft_rs_round, ft_round_to_half_grid.
  destruct (0 <=? d) eqn:Ed; grid_tac.
Qed.

Lemma round_double_grid_eq thr ph per d v : i32 d ->
  sk_rs_round true 2 thr ph per d = Some v -> v = ft_rs_round 2 thr ph per d.
Proof.
  intros Hd H. unfold sk_rs_round, sk_round_pad, sk_floor_pad in H. unfold ft_rs_round, ft_round_to_double_grid.
  destruct (0 <=? d) eqn:Ed; grid_tac.
Qed.

Lemma round_down_to_grid_eq thr ph per d v : i32 d ->
  sk_rs_round true 3 thr ph per d = Some v -> v = ft_rs_round 3 thr ph per d.
Proof.
  intros Hd H. unfold sk_rs_round in H. unfold ft_rs_round, ft_round_down_to_grid.
  destruct (0 <=? d) eqn:Ed; grid_tac.
Qed.

Lemma round_up_to_grid_eq thr ph per d v : i32 d ->
  sk_rs_round true 4 thr ph per d = Some v -> v = ft_rs_round 4 thr ph per d.
Proof.
  intros Hd H. unfold sk_rs_round, sk_ceil in H. unfold ft_rs_round, ft_round_up_to_grid.
  destruct (0 <=? d) eqn:Ed; grid_tac.
Qed.

(* Off: total, no precondition beyond the operand being an i32 *)
Lemma round_off_eq thr ph per d : i32 d ->
  sk_rs_round true 5 thr ph per d = Some (ft_rs_round 5 thr ph per d).
Proof.
  intros Hd. unfold sk_rs_round, ft_rs_round, ft_round_none. f_equal.
  unfold_c. pows. unfold i32 in *. destruct (0 <=? d) eqn:Ed; cbv zeta;
  match goal with |- context [if ?c then _ else _] => destruct c eqn:?; lia end.
Qed.

(* Super / Super45: all i32 (threshold, phase, period) and distances *)
Lemma round_super_eq thr ph per d v : i32 thr -> i32 ph -> i32 per -> i32 d ->
  sk_rs_round true 6 thr ph per d = Some v -> v = ft_rs_round 6 thr ph per d.
Proof.
  intros Ht Hp Hq Hd H. unfold sk_rs_round in H. unfold ft_rs_round, ft_round_super.
  destruct (0 <=? d) eqn:Ed.
  - steps. inv_chk.
    rewrite (ADD_LONG_exact d (thr - ph + 0)) by (unfold i64, i32 in *; lia).
    replace (d + (thr - ph + 0)) with (d + (thr - ph)) by lia.
    set (L := Z.land _ _) in *. clearbody L. cbv zeta.
    rewrite (ADD_LONG_exact L ph) by (unfold i64, i32 in *; lia).
    reflexivity.
  - steps.
    match type of H with (if ?c then _ else _) = _ => destruct c eqn:Ev end; inv_chk;
    rewrite (SUB_LONG_exact (thr - ph + 0) d) by (unfold i64, i32 in *; lia);
    replace (thr - ph + 0 - d) with (thr - ph - d) by lia;
    set (L := Z.land _ _) in *; clearbody L; cbv zeta;
    rewrite (NEG_LONG_exact L) by (unfold i64, i32 in *; lia);
    rewrite (SUB_LONG_exact (- L) ph) by (unfold i64, i32 in *; lia);
    rewrite Ev; reflexivity.
Qed.

Lemma div32_some st a b q : div32 st a b = Some q -> b <> 0 /\ q = Z.quot a b /\ i32 q.
Proof.
  unfold div32. destruct (b =? 0) eqn:E; [discriminate|]. intros H. apply chk32_some in H.
  destruct H as [-> Hi]. split; [lia|]. split; [reflexivity|exact Hi].
Qed.

Lemma round_super45_eq thr ph per d v : i32 thr -> i32 ph -> i32 per -> i32 d ->
  sk_rs_round true 7 thr ph per d = Some v -> v = ft_rs_round 7 thr ph per d.
Proof.
  intros Ht Hp Hq Hd H. unfold sk_rs_round in H. unfold ft_rs_round, ft_round_super_45.
  destruct (0 <=? d) eqn:Ed.
  - steps. inv_chk.
    match goal with Hdv : div32 _ _ _ = Some _ |- _ => apply div32_some in Hdv; destruct Hdv as (Hnz & -> & Hqi) end.
    rewrite (ADD_LONG_exact d (thr - ph + 0)) by (unfold i64, i32 in *; lia).
    replace (d + (thr - ph + 0)) with (d + (thr - ph)) by lia.
    set (M := Z.quot _ _ * per) in *. clearbody M. cbv zeta.
    rewrite (ADD_LONG_exact M ph) by (unfold i64, i32 in *; lia).
    reflexivity.
  - steps.
    match goal with Hdv : div32 _ _ _ = Some _ |- _ => apply div32_some in Hdv; destruct Hdv as (Hnz & -> & Hqi) end.
    match type of H with (if ?c then _ else _) = _ => destruct c eqn:Ev end; inv_chk;
    rewrite (SUB_LONG_exact (thr - ph + 0) d) by (unfold i64, i32 in *; lia);
    replace (thr - ph + 0 - d) with (thr - ph - d) by lia;
    set (M := Z.quot _ _ * per) in *; clearbody M; cbv zeta;
    rewrite (NEG_LONG_exact M) by (unfold i64, i32 in *; lia);
    rewrite (SUB_LONG_exact (- M) ph) by (unfold i64, i32 in *; lia);
    rewrite Ev; reflexivity.
Qed.

(* all modes at once *)
Lemma round_state_eq mode thr ph per d v : 0 <= mode <= 7 -> i32 thr -> i32 ph -> i32 per -> i32 d ->
  sk_rs_round true mode thr ph per d = Some v -> v = ft_rs_round mode thr ph per d.
Proof.
  intros Hm Ht Hp Hq Hd H.
  assert (Hc : mode = 0 \/ mode = 1 \/ mode = 2 \/ mode = 3 \/ mode = 4 \/ mode = 5 \/ mode = 6 \/ mode = 7) by lia.
  destruct Hc as [-> | [-> | [-> | [-> | [-> | [-> | [-> | ->]]]]]]].
  - eapply round_grid_eq; eassumption.
  - eapply round_half_grid_eq; eassumption.
  - eapply round_double_grid_eq; eassumption.
  - eapply round_down_to_grid_eq; eassumption.
  - eapply round_up_to_grid_eq; eassumption.
  - rewrite (round_off_eq thr ph per d Hd) in H. inversion H. reflexivity.
  - eapply round_super_eq; eassumption.
  - eapply round_super45_eq; eassumption.
Qed.

(* ---------- the trap-free domain is large: totality on explicit ranges ---------- *)
Ltac tot :=
  repeat (unfold ar32; rewrite chk32_id by (unfold i32 in *; rewrite ?sk_floor_spec, ?PADs; lia); cbn [obind]).

Lemma round_grid_modes_total mode thr ph per d : 0 <= mode <= 4 ->
  -2147483520 <= d <= 2147483520 -> exists v, sk_rs_round true mode thr ph per d = Some v.
Proof.
  intros Hm Hd.
  assert (Hc : mode = 0 \/ mode = 1 \/ mode = 2 \/ mode = 3 \/ mode = 4) by lia.
  destruct Hc as [-> | [-> | [-> | [-> | ->]]]];
    unfold sk_rs_round, sk_round, sk_ceil, sk_round_pad, sk_floor_pad; change (Z.quot 32 2) with 16;
    destruct (0 <=? d) eqn:Ed; tot; eauto.
Qed.

Lemma land_s30 x y : -1073741824 <= x < 1073741824 -> -1073741824 <= y < 1073741824 ->
  -1073741824 <= Z.land x y < 1073741824.
Proof.
  intros Hx Hy.
  assert (Hs : forall z, -1073741824 <= z < 1073741824 <-> (Z.shiftr z 30 = 0 \/ Z.shiftr z 30 = -1)).
  { intros z. rewrite Z.shiftr_div_pow2 by lia. change (2 ^ 30) with 1073741824. lia. }
  apply Hs. rewrite Z.shiftr_land.
  apply Hs in Hx. apply Hs in Hy.
  destruct Hx as [-> | ->]; destruct Hy as [-> | ->]; cbn; auto.
Qed.

Definition small (z : Z) : Prop := -268435456 <= z <= 268435456.   (* |z| <= 2^28 *)

Lemma round_super_total thr ph per d : small thr -> small ph -> small per -> small d ->
  exists v, sk_rs_round true 6 thr ph per d = Some v.
Proof.
  unfold small. intros Ht Hp Hq Hd. unfold sk_rs_round.
  destruct (0 <=? d) eqn:Ed.
  - pose proof (land_s30 (d + (thr - ph)) (- per) ltac:(lia) ltac:(lia)) as HL.
    tot. set (L := Z.land _ _) in *. clearbody L. tot. eauto.
  - pose proof (land_s30 (thr - ph - d) (- per) ltac:(lia) ltac:(lia)) as HL.
    tot. set (L := Z.land _ _) in *. clearbody L. tot.
    destruct (0 <? _); [tot|]; eauto.
Qed.

Lemma quot_mul_bound s p : p <> 0 -> Z.abs (Z.quot s p * p) <= Z.abs s /\ Z.abs (Z.quot s p) <= Z.abs s.
Proof.
  intros Hp. destruct (Z_le_gt_dec 0 s) as [Hs | Hs].
  - pose proof (Z.mul_quot_le s p Hs Hp) as H.
    assert (Hq : Z.abs (Z.quot s p) <= Z.abs (p * Z.quot s p)) by (rewrite Z.abs_mul; nia).
    rewrite (Z.mul_comm (Z.quot s p) p). lia.
  - pose proof (Z.mul_quot_ge s p ltac:(lia) Hp) as H.
    assert (Hq : Z.abs (Z.quot s p) <= Z.abs (p * Z.quot s p)) by (rewrite Z.abs_mul; nia).
    rewrite (Z.mul_comm (Z.quot s p) p). lia.
Qed.

Lemma round_super45_total thr ph per d : small thr -> small ph -> small per -> small d -> per <> 0 ->
  exists v, sk_rs_round true 7 thr ph per d = Some v.
Proof.
  unfold small. intros Ht Hp Hq Hd Hnz. unfold sk_rs_round, div32.
  assert (Ez : (per =? 0) = false) by lia. rewrite Ez.
  destruct (0 <=? d) eqn:Ed.
  - pose proof (quot_mul_bound (d + (thr - ph)) per Hnz) as [HM HQ].
    tot. set (Q := Z.quot _ _) in *. clearbody Q. tot.
    set (M := Q * per) in *. clearbody M. tot. eauto.
  - pose proof (quot_mul_bound (thr - ph - d) per Hnz) as [HM HQ].
    tot. set (Q := Z.quot _ _) in *. clearbody Q. tot.
    set (M := Q * per) in *. clearbody M. tot.
    destruct (0 <? _); [tot|]; eauto.
Qed.

(* ---------- FT_RoundFix / FT_CeilFix / FT_FloorFix and FT_PIX_ROUND vs font-types ---------- *)
Lemma ftfloorfix_eq a : fx_floor 16 a = ft_floorfix a.
Proof. reflexivity. Qed.

Lemma pix_round_eq x : i32 x -> i32 (x + 32) -> sk_f26dot6_round x = FT_PIX_ROUND x.
Proof.
  intros Hx Hy. unfold sk_f26dot6_round, fx_round, FT_PIX_ROUND, FT_PIX_FLOOR.
  change (2 ^ (6 - 1)) with 32. rewrite (wrap_s32_id _ Hy). reflexivity.
Qed.

(* Fixed::round (add 0x8000, mask) is FT_RoundFix except on negative exact ties *)
Lemma ftroundfix_eq a : i32 a -> i32 (a + 32768) -> (0 <= a \/ a mod 65536 <> 32768) ->
  fx_round 32 16 a = ft_roundfix a.
Proof.
  intros Ha Hb Hc. unfold fx_round, ft_roundfix. change (2 ^ (16 - 1)) with 32768.
  rewrite (wrap_s32_id _ Hb). rewrite lnot65535, !land_int_mask by lia.
  unfold ADD_LONG, long, ulong, wrap_s, wrap_u. pows. unfold i32 in *.
  destruct (a <? 0) eqn:E; lia.
Qed.

(* ---------- closed forms: on the trap-free ranges skrifa's value IS FreeType's value ---------- *)
Lemma small_i32 z : small z -> i32 z. Proof. unfold small, i32. lia. Qed.

Lemma round_grid_modes_agree mode thr ph per d : 0 <= mode <= 4 -> i32 thr -> i32 ph -> i32 per ->
  -2147483520 <= d <= 2147483520 ->
  sk_rs_round true mode thr ph per d = Some (ft_rs_round mode thr ph per d).
Proof.
  intros Hm Ht Hp Hq Hd. destruct (round_grid_modes_total mode thr ph per d Hm Hd) as [v Hv].
  rewrite Hv. f_equal.
  apply (round_state_eq mode thr ph per d v); [lia | assumption | assumption | assumption | unfold i32; lia | exact Hv].
Qed.

Lemma round_super_agree thr ph per d : small thr -> small ph -> small per -> small d ->
  sk_rs_round true 6 thr ph per d = Some (ft_rs_round 6 thr ph per d).
Proof.
  intros Ht Hp Hq Hd. destruct (round_super_total thr ph per d Ht Hp Hq Hd) as [v Hv].
  rewrite Hv. f_equal. apply round_super_eq; auto using small_i32.
Qed.

Lemma round_super45_agree thr ph per d : small thr -> small ph -> small per -> small d -> per <> 0 ->
  sk_rs_round true 7 thr ph per d = Some (ft_rs_round 7 thr ph per d).
Proof.
  intros Ht Hp Hq Hd Hz. destruct (round_super45_total thr ph per d Ht Hp Hq Hd Hz) as [v Hv].
  rewrite Hv. f_equal. apply round_super45_eq; auto using small_i32.
Qed.

(* ---------- the overflow-checks reading refines the release reading ---------- *)
Lemma ar32_refines z v : ar32 true z = Some v -> ar32 false z = Some v.
Proof.
  intros H. apply chk32_some in H. destruct H as [-> Hi]. unfold ar32. f_equal. apply wrap_s32_id. exact Hi.
Qed.

Ltac refine_tac :=
  steps;
  repeat match goal with
  | H : ar32 true _ = Some _ |- _ => apply ar32_refines in H; rewrite H; clear H; cbn [obind]
  | H : div32 true _ _ = Some _ |- _ => change (div32 true) with (div32 false) in H; rewrite H; clear H; cbn [obind]
  | H : Some _ = Some _ |- _ => inversion H; clear H; subst
  end; try reflexivity.

Lemma rs_round_refines mode thr ph per d v : 0 <= mode <= 7 ->
  sk_rs_round true mode thr ph per d = Some v -> sk_rs_round false mode thr ph per d = Some v.
Proof.
  intros Hm H.
  assert (Hc : mode = 0 \/ mode = 1 \/ mode = 2 \/ mode = 3 \/ mode = 4 \/ mode = 5 \/ mode = 6 \/ mode = 7) by lia.
  destruct Hc as [-> | [-> | [-> | [-> | [-> | [-> | [-> | ->]]]]]]];
  unfold sk_rs_round, sk_round, sk_ceil, sk_round_pad, sk_floor_pad in *;
  try exact H;
  (destruct (0 <=? d); refine_tac; try assumption;
   try (match type of H with (if ?c then _ else _) = _ => destruct c end; try assumption;
        apply ar32_refines in H; exact H)).
Qed.

Lemma muldiv_noround_refines a b c v :
  sk_mul_div_no_round true a b c = Some v -> sk_mul_div_no_round false a b c = Some v.
Proof.
  intros H. unfold sk_mul_div_no_round in *. cbv zeta in *.
  destruct (a <? 0), (b <? 0), (c <? 0); cbn [obind] in *; refine_tac;
  match type of H with (if ?s then _ else _) = _ => destruct s end;
  try assumption; apply ar32_refines in H; exact H.
Qed.

(* ====================================================================================== *)
(* The code (wrapping reading, [st = false]) vs FreeType on the WRAP-FREE DOMAIN:          *)
(* [wrap_free_*] = "no intermediate i32 result of the kernel wraps", decided by the        *)
(* trapping evaluation [st = true].                                                        *)
(* ====================================================================================== *)
Definition wrap_free_round (mode thr ph per d : Z) : Prop := sk_rs_round true mode thr ph per d <> None.
Definition wrap_free_muldiv_noround (a b c : Z) : Prop := sk_mul_div_no_round true a b c <> None.

Lemma rs_round_wrapfree_eq mode thr ph per d : 0 <= mode <= 7 -> i32 thr -> i32 ph -> i32 per -> i32 d ->
  wrap_free_round mode thr ph per d ->
  sk_rs_round false mode thr ph per d = Some (ft_rs_round mode thr ph per d).
Proof.
  intros Hm Ht Hp Hq Hd Hw. unfold wrap_free_round in Hw.
  destruct (sk_rs_round true mode thr ph per d) as [v|] eqn:E; [|contradiction].
  rewrite (rs_round_refines _ _ _ _ _ _ Hm E). f_equal.
  apply (round_state_eq mode thr ph per d v); assumption.
Qed.

Lemma muldiv_noround_wrapfree_mod32 a b c : i32 a -> i32 b -> i32 c -> wrap_free_muldiv_noround a b c ->
  sk_mul_div_no_round false a b c = Some (wrap_s 32 (ft_muldiv_no_round a b c)).
Proof.
  intros Ha Hb Hc Hw. unfold wrap_free_muldiv_noround in Hw.
  destruct (sk_mul_div_no_round true a b c) as [v|] eqn:E; [|contradiction].
  rewrite (muldiv_noround_refines _ _ _ _ E). f_equal.
  apply ftmuldiv_noround_mod32; assumption.
Qed.

Lemma muldiv_noround_wrapfree_eq a b c : i32 a -> i32 b -> i32 c -> wrap_free_muldiv_noround a b c ->
  i32 (ft_muldiv_no_round a b c) ->
  sk_mul_div_no_round false a b c = Some (ft_muldiv_no_round a b c).
Proof.
  intros Ha Hb Hc Hw Hr. rewrite muldiv_noround_wrapfree_mod32 by assumption.
  f_equal. apply wrap_s32_id. exact Hr.
Qed.

(* explicit numeric descriptions of (parts of) the wrap-free domain *)
Lemma muldiv_noround_wrapfree_range a b c : i32 a -> i32 b -> i32 c ->
  a <> -2147483648 -> b <> -2147483648 -> c <> -2147483648 ->
  (c <> 0 -> Z.abs a * Z.abs b / Z.abs c <= 2147483647) -> wrap_free_muldiv_noround a b c.
Proof.
  intros Ha Hb Hc Na Nb Nc Hq. unfold wrap_free_muldiv_noround.
  destruct (muldiv_noround_total a b c Ha Hb Hc Na Nb Nc Hq) as [v Hv]. rewrite Hv. discriminate.
Qed.

Lemma round_grid_modes_wrapfree mode thr ph per d : 0 <= mode <= 4 ->
  -2147483520 <= d <= 2147483520 -> wrap_free_round mode thr ph per d.
Proof.
  intros Hm Hd. unfold wrap_free_round.
  destruct (round_grid_modes_total mode thr ph per d Hm Hd) as [v Hv]. rewrite Hv. discriminate.
Qed.

Lemma round_off_wrapfree thr ph per d : wrap_free_round 5 thr ph per d.
Proof. unfold wrap_free_round, sk_rs_round. discriminate. Qed.

Lemma round_super_wrapfree thr ph per d : small thr -> small ph -> small per -> small d ->
  wrap_free_round 6 thr ph per d.
Proof.
  intros Ht Hp Hq Hd. unfold wrap_free_round.
  destruct (round_super_total thr ph per d Ht Hp Hq Hd) as [v Hv]. rewrite Hv. discriminate.
Qed.

Lemma round_super45_wrapfree thr ph per d : small thr -> small ph -> small per -> small d -> per <> 0 ->
  wrap_free_round 7 thr ph per d.
Proof.
  intros Ht Hp Hq Hd Hz. unfold wrap_free_round.
  destruct (round_super45_total thr ph per d Ht Hp Hq Hd Hz) as [v Hv]. rewrite Hv. discriminate.
Qed.

(* closed forms for the code on explicit ranges *)
Lemma round_grid_modes_code_agree mode thr ph per d : 0 <= mode <= 4 -> i32 thr -> i32 ph -> i32 per ->
  -2147483520 <= d <= 2147483520 ->
  sk_rs_round false mode thr ph per d = Some (ft_rs_round mode thr ph per d).
Proof.
  intros Hm Ht Hp Hq Hd.
  apply rs_round_wrapfree_eq; [lia | assumption | assumption | assumption | unfold i32; lia |].
  apply round_grid_modes_wrapfree; assumption.
Qed.

Lemma round_off_code_agree thr ph per d : i32 d ->
  sk_rs_round false 5 thr ph per d = Some (ft_rs_round 5 thr ph per d).
Proof. intros Hd. rewrite <- (round_off_eq thr ph per d Hd). reflexivity. Qed.

Lemma round_super_code_agree thr ph per d : small thr -> small ph -> small per -> small d ->
  sk_rs_round false 6 thr ph per d = Some (ft_rs_round 6 thr ph per d).
Proof.
  intros Ht Hp Hq Hd. apply rs_round_wrapfree_eq; [lia | | | | |]; auto using small_i32.
  apply round_super_wrapfree; assumption.
Qed.

Lemma round_super45_code_agree thr ph per d : small thr -> small ph -> small per -> small d -> per <> 0 ->
  sk_rs_round false 7 thr ph per d = Some (ft_rs_round 7 thr ph per d).
Proof.
  intros Ht Hp Hq Hd Hz. apply rs_round_wrapfree_eq; [lia | | | | |]; auto using small_i32.
  apply round_super45_wrapfree; assumption.
Qed.

Lemma muldiv_noround_code_agree a b c : i32 a -> i32 b -> i32 c ->
  a <> -2147483648 -> b <> -2147483648 -> c <> -2147483648 ->
  (c <> 0 -> Z.abs a * Z.abs b / Z.abs c <= 2147483647) ->
  sk_mul_div_no_round false a b c = Some (wrap_s 32 (ft_muldiv_no_round a b c)).
Proof.
  intros Ha Hb Hc Na Nb Nc Hq. apply muldiv_noround_wrapfree_mod32; try assumption.
  apply muldiv_noround_wrapfree_range; assumption.
Qed.

(* the wrapping kernels never trap, except the Super45 division *)
Lemma muldiv_noround_never_traps a b c : sk_mul_div_no_round false a b c <> None.
Proof.
  unfold sk_mul_div_no_round, ar32. cbv zeta.
  destruct (a <? 0), (b <? 0), (c <? 0); cbn [obind];
  match goal with |- (if ?s then _ else _) <> None => destruct s; discriminate end.
Qed.

Lemma round_mode0_code_agree thr ph per d : i32 thr -> i32 ph -> i32 per -> -2147483520 <= d <= 2147483520 ->
  sk_rs_round false 0 thr ph per d = Some (ft_round_to_grid 0 d).
Proof. apply (round_grid_modes_code_agree 0). lia. Qed.
Lemma round_mode1_code_agree thr ph per d : i32 thr -> i32 ph -> i32 per -> -2147483520 <= d <= 2147483520 ->
  sk_rs_round false 1 thr ph per d = Some (ft_round_to_half_grid 0 d).
Proof. apply (round_grid_modes_code_agree 1). lia. Qed.
Lemma round_mode2_code_agree thr ph per d : i32 thr -> i32 ph -> i32 per -> -2147483520 <= d <= 2147483520 ->
  sk_rs_round false 2 thr ph per d = Some (ft_round_to_double_grid 0 d).
Proof. apply (round_grid_modes_code_agree 2). lia. Qed.
Lemma round_mode3_code_agree thr ph per d : i32 thr -> i32 ph -> i32 per -> -2147483520 <= d <= 2147483520 ->
  sk_rs_round false 3 thr ph per d = Some (ft_round_down_to_grid 0 d).
Proof. apply (round_grid_modes_code_agree 3). lia. Qed.
Lemma round_mode4_code_agree thr ph per d : i32 thr -> i32 ph -> i32 per -> -2147483520 <= d <= 2147483520 ->
  sk_rs_round false 4 thr ph per d = Some (ft_round_up_to_grid 0 d).
Proof. apply (round_grid_modes_code_agree 4). lia. Qed.

(* ---------- MIAP[1] control-value cut-in decision ---------- *)
Lemma miap_cutin_eq c o k : i32 c -> i32 o -> -2147483647 <= c - o <= 2147483647 ->
  sk_miap_cutin c o k = ft_miap_cutin c o k.
Proof.
  intros Hc Ho Hd. unfold sk_miap_cutin, ft_miap_cutin. cbv zeta.
  rewrite (wrap_s32_id (c - o)) by (unfold i32; lia).
  rewrite (wrap_s32_id (Z.abs (c - o))) by (unfold i32; lia).
  reflexivity.
Qed.
