(* C03 — lemmas: the skrifa-side and FreeType-side kernel models of Model.v agree.
   Props.v restates the property-level theorems. *)
From Coq Require Import ZArith Lia List Bool.
From Coq Require Import ZifyBool.
From FV Require Import Lib.RustInt C15.Model C15.Proofs C03.Model.
Import ListNotations.
Open Scope Z_scope.
Ltac Zify.zify_post_hook ::= Z.div_mod_to_equations.

Definition i64 (z : Z) : Prop := -9223372036854775808 <= z <= 9223372036854775807.

Ltac pows :=
  change (2 ^ 64) with 18446744073709551616 in *;
  change (2 ^ (64 - 1)) with 9223372036854775808 in *;
  change (2 ^ 63) with 9223372036854775808 in *;
  change (2 ^ 32) with 4294967296 in *;
  change (2 ^ (32 - 1)) with 2147483648 in *;
  change (2 ^ 31) with 2147483648 in *;
  change (2 ^ 16) with 65536 in *;
  change (2 ^ 14) with 16384 in *;
  change (2 ^ 6) with 64 in *;
  change (2 ^ 5) with 32 in *;
  change (2 ^ 1) with 2 in *.

(* ---------- the C integer conversions on small values ---------- *)
Lemma long_id z : i64 z -> long z = z.
Proof. unfold i64, long, wrap_s. pows. lia. Qed.

Lemma ulong_nonneg z : 0 <= z < 18446744073709551616 -> ulong z = z.
Proof. unfold ulong, wrap_u. pows. lia. Qed.

Lemma ADD_LONG_exact a b : i64 a -> i64 b -> i64 (a + b) -> ADD_LONG a b = a + b.
Proof. unfold i64, ADD_LONG, long, ulong, wrap_s, wrap_u. pows. lia. Qed.

Lemma SUB_LONG_exact a b : i64 a -> i64 b -> i64 (a - b) -> SUB_LONG a b = a - b.
Proof. unfold i64, SUB_LONG, long, ulong, wrap_s, wrap_u. pows. lia. Qed.

Lemma NEG_LONG_exact a : i64 a -> i64 (- a) -> NEG_LONG a = - a.
Proof. unfold i64, NEG_LONG, long, ulong, wrap_s, wrap_u. pows. lia. Qed.

Lemma NEG_LONG_mod32 a : wrap_s 32 (NEG_LONG a) = wrap_s 32 (- a).
Proof. unfold NEG_LONG, long, ulong, wrap_s, wrap_u. pows. lia. Qed.

Lemma wrap_s32_long x : wrap_s 32 (long x) = wrap_s 32 x.
Proof. unfold long, wrap_s. pows. lia. Qed.

Lemma move_sign_abs x : i32 x -> move_sign_u x (ulong x) = Z.abs x.
Proof. intros H. unfold move_sign_u, ulong. apply wrap_u64_abs. exact H. Qed.

Lemma shiftr63 v : -9223372036854775808 <= v < 9223372036854775808 ->
  Z.shiftr v 63 = if v <? 0 then -1 else 0.
Proof. intros H. rewrite Z.shiftr_div_pow2 by lia. pows. destruct (v <? 0) eqn:E; lia. Qed.

Lemma i32_i64 z : i32 z -> i64 z.
Proof. unfold i32, i64. lia. Qed.

(* x & y stays within i32 when both operands are *)
Lemma land_i32 x y : i32 x -> i32 y -> i32 (Z.land x y).
Proof.
  intros Hx Hy.
  assert (Hs : forall z, i32 z <-> (Z.shiftr z 31 = 0 \/ Z.shiftr z 31 = -1)).
  { intros z. rewrite Z.shiftr_div_pow2 by lia. pows. unfold i32. lia. }
  apply Hs. rewrite Z.shiftr_land.
  apply Hs in Hx. apply Hs in Hy.
  destruct Hx as [-> | ->]; destruct Hy as [-> | ->]; cbn; auto.
Qed.

Lemma lnot63 : Z.lnot 63 = int_mask 6. Proof. reflexivity. Qed.
Lemma lnot31 : Z.lnot 31 = int_mask 5. Proof. reflexivity. Qed.
Lemma lnot65535 : Z.lnot 65535 = int_mask 16. Proof. reflexivity. Qed.

Lemma sk_floor_spec x : sk_floor x = x / 64 * 64.
Proof. unfold sk_floor. rewrite lnot63, land_int_mask by lia. reflexivity. Qed.
Lemma FT_PIX_FLOOR_spec x : FT_PIX_FLOOR x = x / 64 * 64.
Proof. unfold FT_PIX_FLOOR. rewrite lnot63, land_int_mask by lia. reflexivity. Qed.

(* ---------- FT_MulFix ---------- *)
Lemma ftmulfix_eq a b : i32 a -> i32 b -> sk_mul a b = ft_mulfix a b.
Proof.
  intros Ha Hb. unfold sk_mul, fixed_mul, ft_mulfix, ft_mulfix_x86_64, int32. cbv zeta.
  rewrite (wrap_s32_id a Ha), (wrap_s32_id b Hb).
  assert (Hp : -9223372036854775808 <= a * b < 9223372036854775808) by (unfold i32 in *; nia).
  rewrite (shiftr63 _ Hp). destruct (a * b <? 0); f_equal; f_equal; lia.
Qed.

Lemma ftmulfix_portable_mod32 a b : sk_mul a b = wrap_s 32 (ft_mulfix_portable a b).
Proof. unfold sk_mul, fixed_mul, ft_mulfix_portable. cbv zeta. rewrite wrap_s32_long. reflexivity. Qed.

Lemma ftmulfix_portable_eq a b : i32 a -> i32 b -> i32 (ft_mulfix_portable a b) ->
  sk_mul a b = ft_mulfix_portable a b.
Proof. intros _ _ H. rewrite ftmulfix_portable_mod32. apply wrap_s32_id. exact H. Qed.

Lemma scale_point_eq v scale : i32 v -> i32 scale -> sk_scale_coord v scale = ft_mulfix v scale.
Proof. exact (ftmulfix_eq v scale). Qed.

(* ---------- FT_DivFix ---------- *)
Lemma sign2 (a b : Z) :
  ((if b <? 0 then - (if a <? 0 then -1 else 1) else (if a <? 0 then -1 else 1)) <? 0)
  = xorb (a <? 0) (b <? 0).
Proof. destruct (a <? 0), (b <? 0); reflexivity. Qed.

Lemma ft_sign2 (a b : Z) :
  (move_sign_s b (move_sign_s a 1) <? 0) = xorb (a <? 0) (b <? 0).
Proof. unfold move_sign_s. destruct (a <? 0), (b <? 0); reflexivity. Qed.

Lemma mod32_neg_u q : wrap_s 32 (- wrap_u 32 q) = wrap_s 32 (- q).
Proof. unfold wrap_s, wrap_u. pows. lia. Qed.
Lemma mod32_neg_long q : wrap_s 32 (- long q) = wrap_s 32 (- q).
Proof. unfold long, wrap_s. pows. lia. Qed.

Lemma ftdivfix_mod32 a b : i32 a -> i32 b -> sk_div a b = wrap_s 32 (ft_divfix a b).
Proof.
  intros Ha Hb. unfold sk_div, fixed_div, ft_divfix. cbv zeta.
  rewrite sign2, ft_sign2.
  rewrite (wrap_u32_of_abs a Ha), (wrap_u32_of_abs b Hb).
  rewrite (move_sign_abs a Ha), (move_sign_abs b Hb).
  rewrite wrap_s32_neg_wrap.
  set (A := Z.abs a). set (B := Z.abs b).
  assert (HA : 0 <= A <= 2147483648) by (unfold i32 in *; subst A; lia).
  assert (HB : 0 <= B <= 2147483648) by (unfold i32 in *; subst B; lia).
  destruct (B =? 0) eqn:EB.
  - assert (E0 : (0 <? B) = false) by lia. rewrite E0.
    destruct (xorb _ _); reflexivity.
  - assert (E0 : (0 <? B) = true) by lia. rewrite E0.
    rewrite Z.shiftl_mul_pow2, Z.shiftr_div_pow2 by lia. pows.
    rewrite (ulong_nonneg (A * 65536)) by lia.
    rewrite (ulong_nonneg (A * 65536 + B / 2)) by lia.
    destruct (xorb _ _).
    + rewrite NEG_LONG_mod32, mod32_neg_long, mod32_neg_u. reflexivity.
    + rewrite wrap_s32_long, wrap_s32_u32. reflexivity.
Qed.

Lemma ftdivfix_eq a b : i32 a -> i32 b -> i32 (ft_divfix a b) -> sk_div a b = ft_divfix a b.
Proof. intros Ha Hb H. rewrite ftdivfix_mod32 by assumption. apply wrap_s32_id. exact H. Qed.

Lemma compute_scale_eq ppem64 upem : i32 ppem64 -> i32 upem -> i32 (ft_divfix ppem64 upem) ->
  sk_compute_scale ppem64 upem = ft_divfix ppem64 upem.
Proof. exact (ftdivfix_eq ppem64 upem). Qed.

(* ---------- FT_MulDiv ---------- *)
Lemma sign3 (a b c : Z) :
  ((if c <? 0
    then - (if b <? 0 then - (if a <? 0 then -1 else 1) else if a <? 0 then -1 else 1)
    else if b <? 0 then - (if a <? 0 then -1 else 1) else if a <? 0 then -1 else 1) <? 0)
  = (move_sign_s c (move_sign_s b (move_sign_s a 1)) <? 0).
Proof. unfold move_sign_s. destruct (a <? 0), (b <? 0), (c <? 0); reflexivity. Qed.

Lemma ftmuldiv_mod32 a b c : i32 a -> i32 b -> i32 c -> sk_mul_div a b c = wrap_s 32 (ft_muldiv a b c).
Proof.
  intros Ha Hb Hc. unfold sk_mul_div, fixed_mul_div, ft_muldiv. cbv zeta.
  rewrite (wrap_u64_abs a Ha), (wrap_u64_abs b Hb), (wrap_u64_abs c Hc).
  rewrite (move_sign_abs a Ha), (move_sign_abs b Hb), (move_sign_abs c Hc).
  rewrite sign3. unfold ulong.
  set (D := if 0 <? Z.abs c then _ else _).
  destruct (_ <? 0).
  - rewrite wrap_s32_neg_wrap, NEG_LONG_mod32, mod32_neg_long. reflexivity.
  - rewrite wrap_s32_long. reflexivity.
Qed.

Lemma ftmuldiv_eq a b c : i32 a -> i32 b -> i32 c -> i32 (ft_muldiv a b c) ->
  sk_mul_div a b c = ft_muldiv a b c.
Proof. intros Ha Hb Hc H. rewrite ftmuldiv_mod32 by assumption. apply wrap_s32_id. exact H. Qed.

(* ---------- TT_MulFix14 ---------- *)
Lemma mul14_eq a b : i32 a -> i32 b -> sk_mul14 a b = ft_mulfix14 a b.
Proof. intros _ _. reflexivity. Qed.
