(* C03 — two independently written executable models of the arithmetic kernels that skrifa's
   FreeType-compatible scaler/hinter and FreeType itself must share.  No proofs in this file.

   skrifa side  ([sk_*]): /repo/skrifa/src/outline/glyf/hint/{math.rs,round.rs}, the scale step of
     FreeTypeScaler (/repo/skrifa/src/outline/glyf/mod.rs) and font-types' Fixed/F26Dot6 mul/div/mul_div
     (re-used from C15.Model: [fixed_mul], [fixed_div], [fixed_mul_div], [fx_round]).
   FreeType side ([ft_*]): FreeType 2.12.1 as vendored by freetype-sys 0.17.0 (the build linked by
     /repo/fauntlet): src/base/ftcalc.c (FT_INT64 path), include/freetype/internal/{ftcalc.h,ftobjs.h},
     src/truetype/ttinterp.c, for the LP64 x86_64 GCC/clang configuration: FT_Long = long = 64 bits,
     FT_Int = FT_Int32 = 32 bits, FT_MULFIX_ASSEMBLER = FT_MulFix_x86_64.

   Integers are unbounded Z with every wrap/truncation explicit.
   skrifa side, argument [st]: since /repo fb7fa4b the hinting kernels use wrapping_add / wrapping_sub /
   wrapping_neg / wrapping_mul throughout, so [st = false] (every i32 operation wraps) IS the model of
   the code in every build profile and is the reading tied by the harness ([None] = the two panics that
   remain: `/ 0` and `i32::MIN / -1` in Super45).  [st = true] evaluates the same expressions but
   yields [None] as soon as an intermediate i32 result would wrap; it is not a model of any build, it
   is the executable definition of the WRAP-FREE DOMAIN on which the equality theorems with FreeType's
   64-bit arithmetic are stated (Proofs.v: [wrap_free_*]). *)
From Coq Require Import ZArith List Bool.
From FV Require Import Lib.RustInt C15.Model.
Import ListNotations.
Open Scope Z_scope.

(* ======================================================================================= *)
(*                                      skrifa side                                        *)
(* ======================================================================================= *)

(* i32 wrapping_add / wrapping_sub / wrapping_neg / wrapping_mul on a mathematically exact result z
   ([st = true]: None if z does not fit, see the header) *)
Definition ar32 (st : bool) (z : Z) : option Z := if st then chk_s 32 z else Some (wrap_s 32 z).

(* math.rs: pub fn floor(x: i32) -> i32 { x & !63 } *)
Definition sk_floor (x : Z) : Z := Z.land x (Z.lnot 63).
(* math.rs: pub fn round(x: i32) -> i32 { floor(x.wrapping_add(32)) } *)
Definition sk_round (st : bool) (x : Z) : option Z := do y <- ar32 st (x + 32);; Some (sk_floor y).
(* math.rs: pub fn ceil(x: i32) -> i32 { floor(x.wrapping_add(63)) } *)
Definition sk_ceil (st : bool) (x : Z) : option Z := do y <- ar32 st (x + 63);; Some (sk_floor y).
(* math.rs: fn floor_pad(x: i32, n: i32) -> i32 { x & !(n.wrapping_sub(1)) } *)
Definition sk_floor_pad (st : bool) (x n : Z) : option Z := do m <- ar32 st (n - 1);; Some (Z.land x (Z.lnot m)).
(* math.rs: pub fn round_pad(x: i32, n: i32) -> i32 { floor_pad(x.wrapping_add(n / 2), n) } *)
Definition sk_round_pad (st : bool) (x n : Z) : option Z := do y <- ar32 st (x + Z.quot n 2);; sk_floor_pad st y n.

(* math.rs: mul / div / mul_div = Fixed::{mul, div, mul_div} on the raw bits (C15.Model) *)
Definition sk_mul (a b : Z) : Z := fixed_mul a b.
Definition sk_div (a b : Z) : Z := fixed_div a b.
Definition sk_mul_div (a b c : Z) : Z := fixed_mul_div a b c.

(* math.rs: pub fn mul_div_no_round(mut a: i32, mut b: i32, mut c: i32) -> i32
   (a.wrapping_neg() ..., (d as i32).wrapping_neg()) *)
Definition sk_mul_div_no_round (st : bool) (a b c : Z) : option Z :=
  let s := 1 in
  do a1 <- (if a <? 0 then ar32 st (- a) else Some a);;
  let s := if a <? 0 then -1 else s in
  do b1 <- (if b <? 0 then ar32 st (- b) else Some b);;
  let s := if b <? 0 then - s else s in
  do c1 <- (if c <? 0 then ar32 st (- c) else Some c);;
  let s := if c <? 0 then - s else s in
  (* (a as i64) * (b as i64) / c as i64 : |product| <= 2^62, divisor > 0: never traps *)
  let d := if 0 <? c1 then Z.quot (a1 * b1) c1 else 2147483647 in
  let d32 := wrap_s 32 d in                                   (* d as i32 *)
  if s <? 0 then ar32 st (- d32) else Some d32.

(* math.rs: pub fn mul14(a: i32, b: i32) -> i32   (i64 arithmetic: |v| <= 2^62 for i32 operands) *)
Definition sk_mul14 (a b : Z) : Z :=
  let v := a * b in
  let v := v + (8192 + Z.shiftr v 63) in
  wrap_s 32 (Z.shiftr v 14).

(* round.rs: RoundState::round.  mode: 0 Grid, 1 HalfGrid, 2 DoubleGrid, 3 DownToGrid, 4 UpToGrid,
   5 Off, 6 Super, 7 Super45 *)
Definition div32 (st : bool) (a b : Z) : option Z :=          (* plain i32 `/` (still unchecked in Super45): panics on 0 and MIN / -1 *)
  if b =? 0 then None else chk_s 32 (Z.quot a b).

Definition sk_rs_round (st : bool) (mode thr ph per d : Z) : option Z :=
  match mode with
  | 1 => (* HalfGrid *)
      if 0 <=? d then do r <- ar32 st (sk_floor d + 32);; Some (Z.max r 0)
      else do nd <- ar32 st (- d);; do r <- ar32 st (sk_floor nd + 32);; do nr <- ar32 st (- r);; Some (Z.min nr 0)
  | 0 => (* Grid *)
      if 0 <=? d then do r <- sk_round st d;; Some (Z.max r 0)
      else do nd <- ar32 st (- d);; do r <- sk_round st nd;; do nr <- ar32 st (- r);; Some (Z.min nr 0)
  | 2 => (* DoubleGrid *)
      if 0 <=? d then do r <- sk_round_pad st d 32;; Some (Z.max r 0)
      else do nd <- ar32 st (- d);; do r <- sk_round_pad st nd 32;; do nr <- ar32 st (- r);; Some (Z.min nr 0)
  | 3 => (* DownToGrid *)
      if 0 <=? d then Some (Z.max (sk_floor d) 0)
      else do nd <- ar32 st (- d);; do nr <- ar32 st (- sk_floor nd);; Some (Z.min nr 0)
  | 4 => (* UpToGrid *)
      if 0 <=? d then do r <- sk_ceil st d;; Some (Z.max r 0)
      else do nd <- ar32 st (- d);; do r <- sk_ceil st nd;; do nr <- ar32 st (- r);; Some (Z.min nr 0)
  | 6 => (* Super *)
      if 0 <=? d then
        do tp <- ar32 st (thr - ph);; do s <- ar32 st (d + tp);; do np <- ar32 st (- per);;
        do val <- ar32 st (Z.land s np + ph);;
        Some (if val <? 0 then ph else val)
      else
        do tp <- ar32 st (thr - ph);; do s <- ar32 st (tp - d);; do np <- ar32 st (- per);;
        do n <- ar32 st (- Z.land s np);; do val <- ar32 st (n - ph);;
        if 0 <? val then ar32 st (- ph) else Some val
  | 7 => (* Super45 *)
      if 0 <=? d then
        do tp <- ar32 st (thr - ph);; do s <- ar32 st (d + tp);; do q <- div32 st s per;;
        do m <- ar32 st (q * per);; do val <- ar32 st (m + ph);;
        Some (if val <? 0 then ph else val)
      else
        do tp <- ar32 st (thr - ph);; do s <- ar32 st (tp - d);; do q <- div32 st s per;;
        do m <- ar32 st (q * per);; do n <- ar32 st (- m);; do val <- ar32 st (n - ph);;
        if 0 <? val then ar32 st (- ph) else Some val
  | 5 => Some d (* Off *)
  | _ => None
  end.

(* hint/engine/outline.rs op_miap, the control-value cut-in decision of MIAP[1] (before rounding):
     let delta = (distance.wrapping_sub(original_distance)).abs();       // F26Dot6::abs = wrapping_abs
     if delta > gs.control_value_cutin { distance = original_distance; }
   [c] = CVT value, [o] = projected current position, [k] = control_value_cutin *)
Definition sk_miap_cutin (c o k : Z) : Z :=
  let delta := wrap_s 32 (Z.abs (wrap_s 32 (c - o))) in
  if k <? delta then o else c.

(* glyf/mod.rs FreeTypeScaler: `F26Dot6::from_bits(v) * scale` (load_simple/load_empty/composite offsets),
   `Outlines::compute_scale`: F26Dot6::from_bits((ppem * 64.) as i32) / F26Dot6::from_bits(upem),
   phantom point rounding `point.x.round()` (F26Dot6::round) *)
Definition sk_scale_coord (v scale : Z) : Z := fixed_mul v scale.
Definition sk_compute_scale (ppem64 upem : Z) : Z := fixed_div ppem64 upem.
Definition sk_f26dot6_round (x : Z) : Z := fx_round 32 6 x.

(* ======================================================================================= *)
(*                                     FreeType side                                       *)
(* ======================================================================================= *)

(* integer conversions of the LP64 build; unsigned arithmetic wraps, the conversion back to the
   signed type is modular (GCC/clang) *)
Definition ulong (z : Z) : Z := wrap_u 64 z.      (* (FT_ULong)z, (FT_UInt64)z *)
Definition long (z : Z) : Z := wrap_s 64 z.       (* (FT_Long)z,  (FT_Int64)z  *)
Definition int32 (z : Z) : Z := wrap_s 32 z.      (* (FT_Int32)z *)

(* ftcalc.h: ADD_LONG / SUB_LONG / NEG_LONG *)
Definition ADD_LONG (a b : Z) : Z := long (ulong (ulong a + ulong b)).
Definition SUB_LONG (a b : Z) : Z := long (ulong (ulong a - ulong b)).
Definition NEG_LONG (a : Z) : Z := long (ulong (0 - ulong a)).

(* ftobjs.h: FT_PIX_FLOOR(x) = x & ~63, FT_PIX_ROUND(x) = FT_PIX_FLOOR(x + 32), FT_PIX_CEIL,
   FT_PAD_FLOOR(x, n) = x & ~(n - 1), and the _LONG variants that add with ADD_LONG *)
Definition FT_PIX_FLOOR (x : Z) : Z := Z.land x (Z.lnot 63).
Definition FT_PIX_ROUND (x : Z) : Z := FT_PIX_FLOOR (x + 32).          (* plain signed `+` on long: exact when no UB *)
Definition FT_PIX_ROUND_LONG (x : Z) : Z := FT_PIX_FLOOR (ADD_LONG x 32).
Definition FT_PIX_CEIL_LONG (x : Z) : Z := FT_PIX_FLOOR (ADD_LONG x 63).
Definition FT_PAD_FLOOR (x n : Z) : Z := Z.land x (Z.lnot (n - 1)).
Definition FT_PAD_ROUND_LONG (x n : Z) : Z := FT_PAD_FLOOR (ADD_LONG x (Z.quot n 2)) n.

(* ftcalc.c: FT_RoundFix / FT_CeilFix / FT_FloorFix *)
Definition ft_roundfix (a : Z) : Z := Z.land (ADD_LONG a (32768 - (if a <? 0 then 1 else 0))) (Z.lnot 65535).
Definition ft_ceilfix (a : Z) : Z := Z.land (ADD_LONG a 65535) (Z.lnot 65535).
Definition ft_floorfix (a : Z) : Z := Z.land a (Z.lnot 65535).

(* ftcalc.c: FT_MOVE_SIGN( x, x_unsigned, s ) *)
Definition move_sign_u (x xu : Z) : Z := if x <? 0 then ulong (0 - xu) else xu.
Definition move_sign_s (x s : Z) : Z := if x <? 0 then - s else s.

(* ftcalc.c (FT_INT64): FT_MulDiv *)
Definition ft_muldiv (a_ b_ c_ : Z) : Z :=
  let s := 1 in
  let a := ulong a_ in let b := ulong b_ in let c := ulong c_ in
  let a := move_sign_u a_ a in let s := move_sign_s a_ s in
  let b := move_sign_u b_ b in let s := move_sign_s b_ s in
  let c := move_sign_u c_ c in let s := move_sign_s c_ s in
  let d := if 0 <? c then ulong (ulong (a * b) + Z.shiftr c 1) / c else 2147483647 in
  let d_ := long d in
  if s <? 0 then NEG_LONG d_ else d_.

(* ftcalc.c (FT_INT64): FT_MulDiv_No_Round *)
Definition ft_muldiv_no_round (a_ b_ c_ : Z) : Z :=
  let s := 1 in
  let a := ulong a_ in let b := ulong b_ in let c := ulong c_ in
  let a := move_sign_u a_ a in let s := move_sign_s a_ s in
  let b := move_sign_u b_ b in let s := move_sign_s b_ s in
  let c := move_sign_u c_ c in let s := move_sign_s c_ s in
  let d := if 0 <? c then ulong (a * b) / c else 2147483647 in
  let d_ := long d in
  if s <? 0 then NEG_LONG d_ else d_.

(* ftcalc.h: FT_MulFix_x86_64( FT_Int32 a, FT_Int32 b ) — FT_MULFIX_ASSEMBLER of this build *)
Definition ft_mulfix_x86_64 (a b : Z) : Z :=
  let ret := a * b in                       (* (long long)a * b *)
  let tmp := Z.shiftr ret 63 in
  let ret := ret + (32768 + tmp) in
  int32 (Z.shiftr ret 16).
(* ftcalc.c: FT_MulFix( FT_Long a_, FT_Long b_ ), #ifdef FT_MULFIX_ASSEMBLER branch (compiled in) *)
Definition ft_mulfix (a_ b_ : Z) : Z := ft_mulfix_x86_64 (int32 a_) (int32 b_).
(* ftcalc.c: FT_MulFix, portable FT_INT64 branch (NOT the one compiled on x86_64 with GCC/clang) *)
Definition ft_mulfix_portable (a_ b_ : Z) : Z :=
  let ab := a_ * b_ in                      (* (FT_Int64)a_ * (FT_Int64)b_ : exact for i32 operands *)
  long (Z.shiftr (ab + 32768 - (if ab <? 0 then 1 else 0)) 16).

(* ftcalc.c (FT_INT64): FT_DivFix *)
Definition ft_divfix (a_ b_ : Z) : Z :=
  let s := 1 in
  let a := ulong a_ in let b := ulong b_ in
  let a := move_sign_u a_ a in let s := move_sign_s a_ s in
  let b := move_sign_u b_ b in let s := move_sign_s b_ s in
  let q := if 0 <? b then ulong (ulong (Z.shiftl a 16) + Z.shiftr b 1) / b else 2147483647 in
  let q_ := long q in
  if s <? 0 then NEG_LONG q_ else q_.

(* ttinterp.c: TT_MulFix14_long_long( FT_Int32 a, FT_Int b ) — the variant compiled on x86_64 *)
Definition ft_mulfix14 (a b : Z) : Z :=
  let ret := a * b in
  let tmp := Z.shiftr ret 63 in
  let ret := ret + (8192 + tmp) in
  int32 (Z.shiftr ret 14).

(* ttinterp.c: Round_* (exc->threshold, exc->phase, exc->period are FT_F26Dot6 = long;
   [comp] = exc->tt_metrics.compensations[color]) *)
Definition ft_round_none (comp d : Z) : Z :=
  if 0 <=? d then let v := ADD_LONG d comp in if v <? 0 then 0 else v
  else let v := SUB_LONG d comp in if 0 <? v then 0 else v.
Definition ft_round_to_grid (comp d : Z) : Z :=
  if 0 <=? d then let v := FT_PIX_ROUND_LONG (ADD_LONG d comp) in if v <? 0 then 0 else v
  else let v := NEG_LONG (FT_PIX_ROUND_LONG (SUB_LONG comp d)) in if 0 <? v then 0 else v.
Definition ft_round_to_half_grid (comp d : Z) : Z :=
  if 0 <=? d then let v := ADD_LONG (FT_PIX_FLOOR (ADD_LONG d comp)) 32 in if v <? 0 then 32 else v
  else let v := NEG_LONG (ADD_LONG (FT_PIX_FLOOR (SUB_LONG comp d)) 32) in if 0 <? v then -32 else v.
Definition ft_round_down_to_grid (comp d : Z) : Z :=
  if 0 <=? d then let v := FT_PIX_FLOOR (ADD_LONG d comp) in if v <? 0 then 0 else v
  else let v := NEG_LONG (FT_PIX_FLOOR (SUB_LONG comp d)) in if 0 <? v then 0 else v.
Definition ft_round_up_to_grid (comp d : Z) : Z :=
  if 0 <=? d then let v := FT_PIX_CEIL_LONG (ADD_LONG d comp) in if v <? 0 then 0 else v
  else let v := NEG_LONG (FT_PIX_CEIL_LONG (SUB_LONG comp d)) in if 0 <? v then 0 else v.
Definition ft_round_to_double_grid (comp d : Z) : Z :=
  if 0 <=? d then let v := FT_PAD_ROUND_LONG (ADD_LONG d comp) 32 in if v <? 0 then 0 else v
  else let v := NEG_LONG (FT_PAD_ROUND_LONG (SUB_LONG comp d) 32) in if 0 <? v then 0 else v.
(* `exc->threshold - exc->phase + compensation` and `-exc->period` are plain signed long
   arithmetic: exact for operands of i32 magnitude *)
Definition ft_round_super (comp thr ph per d : Z) : Z :=
  if 0 <=? d then
    let v := Z.land (ADD_LONG d (thr - ph + comp)) (- per) in
    let v := ADD_LONG v ph in
    if v <? 0 then ph else v
  else
    let v := NEG_LONG (Z.land (SUB_LONG (thr - ph + comp) d) (- per)) in
    let v := SUB_LONG v ph in
    if 0 <? v then - ph else v.
Definition ft_round_super_45 (comp thr ph per d : Z) : Z :=
  if 0 <=? d then
    let v := Z.quot (ADD_LONG d (thr - ph + comp)) per * per in
    let v := ADD_LONG v ph in
    if v <? 0 then ph else v
  else
    let v := NEG_LONG (Z.quot (SUB_LONG (thr - ph + comp) d) per * per) in
    let v := SUB_LONG v ph in
    if 0 <? v then - ph else v.

(* ttinterp.c Ins_MIAP:  if ( FT_ABS( distance - org_dist ) > exc->GS.control_value_cutin ) distance = org_dist;
   (FT_F26Dot6 = long: the subtraction is exact for i32 operands) *)
Definition ft_miap_cutin (c o k : Z) : Z :=
  if k <? Z.abs (c - o) then o else c.

(* dispatch in the numbering of skrifa's RoundMode (ttinterp.c Compute_Round), compensation = 0 *)
Definition ft_rs_round (mode thr ph per d : Z) : Z :=
  match mode with
  | 0 => ft_round_to_grid 0 d
  | 1 => ft_round_to_half_grid 0 d
  | 2 => ft_round_to_double_grid 0 d
  | 3 => ft_round_down_to_grid 0 d
  | 4 => ft_round_up_to_grid 0 d
  | 5 => ft_round_none 0 d
  | 6 => ft_round_super 0 thr ph per d
  | 7 => ft_round_super_45 0 thr ph per d
  | _ => 0
  end.

(* ======================================================================================= *)
(*          correspondence case format (written by harness_ft/src/bin/c03.rs)              *)
(* ======================================================================================= *)
(* (op, args, skrifa result, FreeType result); results: [v] value, [] = panic.
   A side that does not exist for an op (no hook / symbol not exported) evaluates to None and
   whatever the harness recorded for it is ignored. *)
Definition o1 (r : option Z) : list Z := match r with Some v => [v] | None => [] end.

Definition eval_sk (op : Z) (args : list Z) : option (list Z) :=
  match op, args with
  | 1, [a; b] => Some [sk_mul a b]
  | 2, [a; b] => Some [sk_div a b]
  | 3, [a; b; c] => Some [sk_mul_div a b c]
  | 4, [a; b; c] => Some (o1 (sk_mul_div_no_round false a b c))
  | 5, [a; b] => Some [sk_mul14 a b]
  | 6, [x] => Some [sk_floor x]
  | 7, [x] => Some (o1 (sk_round false x))
  | 8, [x] => Some (o1 (sk_ceil false x))
  | 9, [x; n] => Some (o1 (sk_round_pad false x n))
  | 10, [t; p; q; d] => Some (o1 (sk_rs_round false 0 t p q d))
  | 11, [t; p; q; d] => Some (o1 (sk_rs_round false 1 t p q d))
  | 12, [t; p; q; d] => Some (o1 (sk_rs_round false 2 t p q d))
  | 13, [t; p; q; d] => Some (o1 (sk_rs_round false 3 t p q d))
  | 14, [t; p; q; d] => Some (o1 (sk_rs_round false 4 t p q d))
  | 15, [t; p; q; d] => Some (o1 (sk_rs_round false 5 t p q d))
  | 16, [t; p; q; d] => Some (o1 (sk_rs_round false 6 t p q d))
  | 17, [t; p; q; d] => Some (o1 (sk_rs_round false 7 t p q d))
  | 18, [v; s] => Some [sk_scale_coord v s]
  | 19, [a; b] => Some [sk_compute_scale a b]
  | 20, [x] => Some [sk_f26dot6_round x]
  | 23, [x] => Some [fx_floor 16 x]
  | 30, [c; o; k] => Some [sk_miap_cutin c o k]
  | _, _ => None
  end.

Definition eval_ft (op : Z) (args : list Z) : option (list Z) :=
  match op, args with
  | 1, [a; b] => Some [ft_mulfix a b]
  | 2, [a; b] => Some [ft_divfix a b]
  | 3, [a; b; c] => Some [ft_muldiv a b c]
  | 18, [v; s] => Some [ft_mulfix v s]
  | 19, [a; b] => Some [ft_divfix a b]
  | 21, [x] => Some [ft_roundfix x]
  | 22, [x] => Some [ft_ceilfix x]
  | 23, [x] => Some [ft_floorfix x]
  | 30, [c; o; k] => Some [ft_miap_cutin c o k]
  | _, _ => None
  end.

Definition zlist_eqb (a b : list Z) : bool :=
  (Nat.eqb (length a) (length b)) && forallb (fun p => Z.eqb (fst p) (snd p)) (combine a b).

Definition side_ok (model : option (list Z)) (real : list Z) : bool :=
  match model with Some m => zlist_eqb m real | None => true end.

Definition check_case (c : Z * list Z * list Z * list Z) : bool :=
  let '(op, args, rsk, rft) := c in
  side_ok (eval_sk op args) rsk && side_ok (eval_ft op args) rft
  && (match eval_sk op args, eval_ft op args with None, None => false | _, _ => true end).
