(* C03 — property-level theorems (kernel level; see notes/C03.md for what is NOT proved).
   Only statements, [exact lemma] and Print Assumptions.
   skrifa side [sk_*] / [fixed_*]; FreeType side [ft_*] (FreeType 2.12.1, LP64 x86_64 GCC build). *)
From Coq Require Import ZArith List.
From FV Require Import Lib.RustInt C15.Model C15.Proofs C03.Model C03.Proofs.
Import ListNotations.
Open Scope Z_scope.

(* FT_MulFix as compiled into the comparison tool (FT_MulFix_x86_64) = Fixed/F26Dot6 `*`, all i32 operands,
   wrap-around included; in particular the unhinted scale step `coord * scale` *)
Theorem ftmulfix_eq : forall a b, i32 a -> i32 b -> sk_mul a b = ft_mulfix a b.
Proof. exact ftmulfix_eq. Qed.
Theorem scale_point_eq : forall v scale, i32 v -> i32 scale -> sk_scale_coord v scale = ft_mulfix v scale.
Proof. exact scale_point_eq. Qed.
(* the portable FT_INT64 body of FT_MulFix returns a 64-bit long: equal modulo 2^32, equal when it fits *)
Theorem ftmulfix_portable_mod32 : forall a b, sk_mul a b = wrap_s 32 (ft_mulfix_portable a b).
Proof. exact ftmulfix_portable_mod32. Qed.
Theorem ftmulfix_portable_eq : forall a b, i32 a -> i32 b -> i32 (ft_mulfix_portable a b) ->
  sk_mul a b = ft_mulfix_portable a b.
Proof. exact ftmulfix_portable_eq. Qed.

(* FT_DivFix, FT_MulDiv: all i32 operands (division by zero and i32::MIN included): skrifa returns the
   low 32 bits of FreeType's long; identical whenever FreeType's result is an i32 *)
Theorem ftdivfix_mod32 : forall a b, i32 a -> i32 b -> sk_div a b = wrap_s 32 (ft_divfix a b).
Proof. exact ftdivfix_mod32. Qed.
Theorem ftdivfix_eq : forall a b, i32 a -> i32 b -> i32 (ft_divfix a b) -> sk_div a b = ft_divfix a b.
Proof. exact ftdivfix_eq. Qed.
Theorem compute_scale_eq : forall ppem64 upem, i32 ppem64 -> i32 upem -> i32 (ft_divfix ppem64 upem) ->
  sk_compute_scale ppem64 upem = ft_divfix ppem64 upem.
Proof. exact compute_scale_eq. Qed.
Theorem ftmuldiv_mod32 : forall a b c, i32 a -> i32 b -> i32 c -> sk_mul_div a b c = wrap_s 32 (ft_muldiv a b c).
Proof. exact ftmuldiv_mod32. Qed.
Theorem ftmuldiv_eq : forall a b c, i32 a -> i32 b -> i32 c -> i32 (ft_muldiv a b c) ->
  sk_mul_div a b c = ft_muldiv a b c.
Proof. exact ftmuldiv_eq. Qed.

(* FT_MulDiv_No_Round vs math::mul_div_no_round (the code = wrapping reading [false]): equal modulo 2^32 on the
   wrap-free domain (no intermediate i32 result wraps), identical when FreeType's result is an i32; the domain
   contains every operand triple without i32::MIN whose quotient fits; the kernel never traps *)
Theorem ftmuldiv_noround_mod32 : forall a b c, i32 a -> i32 b -> i32 c -> wrap_free_muldiv_noround a b c ->
  sk_mul_div_no_round false a b c = Some (wrap_s 32 (ft_muldiv_no_round a b c)).
Proof. exact muldiv_noround_wrapfree_mod32. Qed.
Theorem ftmuldiv_noround_eq : forall a b c, i32 a -> i32 b -> i32 c -> wrap_free_muldiv_noround a b c ->
  i32 (ft_muldiv_no_round a b c) -> sk_mul_div_no_round false a b c = Some (ft_muldiv_no_round a b c).
Proof. exact muldiv_noround_wrapfree_eq. Qed.
Theorem muldiv_noround_wrapfree_range : forall a b c, i32 a -> i32 b -> i32 c ->
  a <> -2147483648 -> b <> -2147483648 -> c <> -2147483648 ->
  (c <> 0 -> Z.abs a * Z.abs b / Z.abs c <= 2147483647) -> wrap_free_muldiv_noround a b c.
Proof. exact muldiv_noround_wrapfree_range. Qed.
Theorem muldiv_noround_never_traps : forall a b c, sk_mul_div_no_round false a b c <> None.
Proof. exact muldiv_noround_never_traps. Qed.

(* TT_MulFix14: all i32 operands; and its meaning *)
Theorem mul14_eq : forall a b, i32 a -> i32 b -> sk_mul14 a b = ft_mulfix14 a b.
Proof. exact mul14_eq. Qed.
Theorem mul14_spec : forall a b, i32 a -> i32 b -> sk_mul14 a b = wrap_s 32 (rha (a * b) 16384).
Proof. exact mul14_spec. Qed.

(* RoundState::round (the code = wrapping reading [false]) vs Round_* (compensation 0): for every mode, every
   i32 distance and every i32 (threshold, phase, period) in the wrap-free domain, the code returns FreeType's
   value (as a 64-bit long, not merely modulo 2^32) *)
Theorem round_state_eq : forall mode thr ph per d, 0 <= mode <= 7 -> i32 thr -> i32 ph -> i32 per -> i32 d ->
  wrap_free_round mode thr ph per d ->
  sk_rs_round false mode thr ph per d = Some (ft_rs_round mode thr ph per d).
Proof. exact rs_round_wrapfree_eq. Qed.
(* ... per mode, on explicit numeric parts of that domain: the five grid modes for |d| <= 2^31 - 128, Off
   everywhere, Super/Super45 for all components of magnitude <= 2^28 (period <> 0 for Super45) *)
Theorem round_grid_eq : forall thr ph per d, i32 thr -> i32 ph -> i32 per -> -2147483520 <= d <= 2147483520 ->
  sk_rs_round false 0 thr ph per d = Some (ft_round_to_grid 0 d).
Proof. exact round_mode0_code_agree. Qed.
Theorem round_half_grid_eq : forall thr ph per d, i32 thr -> i32 ph -> i32 per -> -2147483520 <= d <= 2147483520 ->
  sk_rs_round false 1 thr ph per d = Some (ft_round_to_half_grid 0 d).
Proof. exact round_mode1_code_agree. Qed.
Theorem round_double_grid_eq : forall thr ph per d, i32 thr -> i32 ph -> i32 per -> -2147483520 <= d <= 2147483520 ->
  sk_rs_round false 2 thr ph per d = Some (ft_round_to_double_grid 0 d).
Proof. exact round_mode2_code_agree. Qed.
Theorem round_down_to_grid_eq : forall thr ph per d, i32 thr -> i32 ph -> i32 per -> -2147483520 <= d <= 2147483520 ->
  sk_rs_round false 3 thr ph per d = Some (ft_round_down_to_grid 0 d).
Proof. exact round_mode3_code_agree. Qed.
Theorem round_up_to_grid_eq : forall thr ph per d, i32 thr -> i32 ph -> i32 per -> -2147483520 <= d <= 2147483520 ->
  sk_rs_round false 4 thr ph per d = Some (ft_round_up_to_grid 0 d).
Proof. exact round_mode4_code_agree. Qed.
Theorem round_off_eq : forall thr ph per d, i32 d ->
  sk_rs_round false 5 thr ph per d = Some (ft_round_none 0 d).
Proof. exact round_off_code_agree. Qed.
Theorem round_super_eq : forall thr ph per d, small thr -> small ph -> small per -> small d ->
  sk_rs_round false 6 thr ph per d = Some (ft_round_super 0 thr ph per d).
Proof. exact round_super_code_agree. Qed.
Theorem round_super45_eq : forall thr ph per d, small thr -> small ph -> small per -> small d -> per <> 0 ->
  sk_rs_round false 7 thr ph per d = Some (ft_round_super_45 0 thr ph per d).
Proof. exact round_super45_code_agree. Qed.
(* the numeric ranges above are inside the wrap-free domain *)
Theorem round_grid_modes_wrapfree : forall mode thr ph per d, 0 <= mode <= 4 ->
  -2147483520 <= d <= 2147483520 -> wrap_free_round mode thr ph per d.
Proof. exact round_grid_modes_wrapfree. Qed.
Theorem round_super_wrapfree : forall thr ph per d, small thr -> small ph -> small per -> small d ->
  wrap_free_round 6 thr ph per d.
Proof. exact round_super_wrapfree. Qed.
Theorem round_super45_wrapfree : forall thr ph per d, small thr -> small ph -> small per -> small d -> per <> 0 ->
  wrap_free_round 7 thr ph per d.
Proof. exact round_super45_wrapfree. Qed.

(* phantom-point rounding F26Dot6::round = FT_PIX_ROUND; Fixed::floor = FT_FloorFix;
   Fixed::round = FT_RoundFix away from negative ties *)
Theorem pix_round_eq : forall x, i32 x -> i32 (x + 32) -> sk_f26dot6_round x = FT_PIX_ROUND x.
Proof. exact pix_round_eq. Qed.
Theorem ftfloorfix_eq : forall a, fx_floor 16 a = ft_floorfix a.
Proof. exact ftfloorfix_eq. Qed.
Theorem ftroundfix_eq : forall a, i32 a -> i32 (a + 32768) -> (0 <= a \/ a mod 65536 <> 32768) ->
  fx_round 32 16 a = ft_roundfix a.
Proof. exact ftroundfix_eq. Qed.

(* MIAP[1]: the control-value cut-in decision `(cvt - cur).abs() > cut_in` (wrapping i32) vs FreeType's
   `FT_ABS( distance - org_dist ) > control_value_cutin` (64-bit long): identical whenever the difference of the two
   i32 operands is itself an i32 other than i32::MIN, for every cut-in value (negative ones included) *)
Theorem miap_cutin_eq : forall c o k, i32 c -> i32 o -> -2147483647 <= c - o <= 2147483647 ->
  sk_miap_cutin c o k = ft_miap_cutin c o k.
Proof. exact miap_cutin_eq. Qed.

Print Assumptions ftmulfix_eq.
Print Assumptions scale_point_eq.
Print Assumptions ftmulfix_portable_mod32.
Print Assumptions ftmulfix_portable_eq.
Print Assumptions ftdivfix_mod32.
Print Assumptions ftdivfix_eq.
Print Assumptions compute_scale_eq.
Print Assumptions ftmuldiv_mod32.
Print Assumptions ftmuldiv_eq.
Print Assumptions ftmuldiv_noround_mod32.
Print Assumptions ftmuldiv_noround_eq.
Print Assumptions muldiv_noround_wrapfree_range.
Print Assumptions muldiv_noround_never_traps.
Print Assumptions mul14_eq.
Print Assumptions mul14_spec.
Print Assumptions round_state_eq.
Print Assumptions round_grid_eq.
Print Assumptions round_half_grid_eq.
Print Assumptions round_double_grid_eq.
Print Assumptions round_down_to_grid_eq.
Print Assumptions round_up_to_grid_eq.
Print Assumptions round_off_eq.
Print Assumptions round_super_eq.
Print Assumptions round_super45_eq.
Print Assumptions round_grid_modes_wrapfree.
Print Assumptions round_super_wrapfree.
Print Assumptions round_super45_wrapfree.
Print Assumptions pix_round_eq.
Print Assumptions ftfloorfix_eq.
Print Assumptions ftroundfix_eq.
Print Assumptions miap_cutin_eq.
