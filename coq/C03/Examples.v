(* C03 — non-vacuity examples for the hypotheses of Props.v and `..._refuted` witnesses where the
   unrestricted statement is false of the faithful models.  Each witness is replayed on the real
   pair of implementations by harness_ft/src/bin/c03.rs (stats.json: "witnesses"). *)
From Coq Require Import ZArith List Lia.
From FV Require Import Lib.RustInt C15.Model C15.Proofs C03.Model C03.Proofs.
Import ListNotations.
Open Scope Z_scope.

Ltac i32c := unfold i32; split; vm_compute; discriminate.

(* ---- non-vacuity: the trap-free hypotheses are met by ordinary operands ---- *)
Example c03_muldiv_noround_nonvacuous :     (* first row of skrifa's own unit test, computed with FT_MulDiv_No_Round *)
  wrap_free_muldiv_noround (-326) (-11474) 9942 /\
  sk_mul_div_no_round false (-326) (-11474) 9942 = Some 376 /\ ft_muldiv_no_round (-326) (-11474) 9942 = 376.
Proof. split; [vm_compute; discriminate | split; reflexivity]. Qed.
Example c03_round_modes_nonvacuous :        (* SROUND state (threshold 40, phase 16, period 64), distance -1000/64 px *)
  wrap_free_round 6 40 16 64 (-1000) /\
  map (fun m => sk_rs_round false m 40 16 64 (-1000)) [0; 1; 2; 3; 4; 5; 6; 7]
  = map (fun m => Some (ft_rs_round m 40 16 64 (-1000))) [0; 1; 2; 3; 4; 5; 6; 7]
  /\ map (fun m => ft_rs_round m 40 16 64 (-1000)) [0; 1; 2; 3; 4; 5; 6; 7]
     = [-1024; -992; -992; -960; -1024; -1000; -1040; -1040].
Proof. split; [vm_compute; discriminate | split; reflexivity]. Qed.
Example c03_divfix_fits_nonvacuous :        (* 12 ppem at 2048 upem: the scale factor 0x6000 *)
  i32 (ft_divfix (12 * 64) 2048) /\ sk_compute_scale (12 * 64) 2048 = 24576.
Proof. split; [i32c | reflexivity]. Qed.
Example c03_muldiv_fits_nonvacuous : i32 (ft_muldiv 1000 (-64) 7) /\ sk_mul_div 1000 (-64) 7 = -9143.
Proof. split; [i32c | reflexivity]. Qed.
Example c03_mul14_nonvacuous : sk_mul14 6236 (-10078) = -3836.   (* skrifa unit test row, computed with TT_MulFix14 *)
Proof. reflexivity. Qed.
Example c03_roundfix_nonvacuous : fx_round 32 16 98304 = 131072 /\ ft_roundfix 98304 = 131072.
Proof. split; reflexivity. Qed.

(* ---- refuted: plain equality with FreeType's 64-bit `long` results fails once the exact result
        leaves the i32 range (skrifa keeps the low 32 bits: the `_mod32` theorems) ---- *)
Example ftmulfix_portable_refuted : exists a b, i32 a /\ i32 b /\ sk_mul a b <> ft_mulfix_portable a b.
Proof. exists 2147483647, 2147483647. split; [i32c|]. split; [i32c|]. vm_compute. discriminate. Qed.
Example ftdivfix_refuted : exists a b, i32 a /\ i32 b /\ sk_div a b = -65536 /\ ft_divfix a b = 140737488289792.
Proof. exists 2147483647, 1. split; [i32c|]. split; [i32c|]. split; reflexivity. Qed.
Example ftmuldiv_refuted : exists a b c, i32 a /\ i32 b /\ i32 c /\
  sk_mul_div a b c = 1 /\ ft_muldiv a b c = 4611686014132420609.
Proof. exists 2147483647, 2147483647, 1. split; [i32c|]. split; [i32c|]. split; [i32c|]. split; reflexivity. Qed.

(* ---- refuted: outside the wrap-free domain (an intermediate i32 result wraps: [sk_* true] = None) the
        code diverges from FreeType's 64-bit arithmetic, even modulo 2^32.  Replayed on the real skrifa
        kernels by the harness ("witnesses"). ---- *)
Example muldiv_noround_refuted : exists a b c, i32 a /\ i32 b /\ i32 c /\
  ~ wrap_free_muldiv_noround a b c /\
  sk_mul_div_no_round false a b c = Some 1073741824 /\ ft_muldiv_no_round a b c = -1073741824.
Proof.
  exists (-2147483648), 2, 4. split; [i32c|]. split; [i32c|]. split; [i32c|].
  split; [intro H; apply H; reflexivity|]. split; reflexivity.
Qed.
(* the interpreter's DIV instruction computes mul_div_no_round(a, 64, b) on values taken from the stack *)
Example div_instruction_refuted :
  sk_mul_div_no_round true (-2147483648) 64 128 = None /\
  sk_mul_div_no_round false (-2147483648) 64 128 = Some 1073741824 /\
  ft_muldiv_no_round (-2147483648) 64 128 = -1073741824.
Proof. repeat split; reflexivity. Qed.
Example round_grid_refuted :        (* Grid, DoubleGrid, UpToGrid at d = i32::MAX *)
  map (fun m => (sk_rs_round true m 0 0 64 2147483647, sk_rs_round false m 0 0 64 2147483647,
                 ft_rs_round m 0 0 64 2147483647)) [0; 2; 4]
  = [(None, Some 0, 2147483648); (None, Some 0, 2147483648); (None, Some 0, 2147483648)].
Proof. reflexivity. Qed.
Example round_half_grid_refuted :   (* HalfGrid at d = i32::MIN *)
  sk_rs_round true 1 0 0 64 (-2147483648) = None /\
  sk_rs_round false 1 0 0 64 (-2147483648) = Some 0 /\ ft_rs_round 1 0 0 64 (-2147483648) = -2147483680.
Proof. repeat split; reflexivity. Qed.
Example round_super_refuted :       (* Super and Super45, threshold 40, at d = i32::MAX *)
  map (fun m => (sk_rs_round true m 40 0 64 2147483647, sk_rs_round false m 40 0 64 2147483647,
                 ft_rs_round m 40 0 64 2147483647)) [6; 7]
  = [(None, Some 0, 2147483648); (None, Some 0, 2147483648)].
Proof. reflexivity. Qed.
(* period 0: Super45 divides by zero (skrifa still panics: plain `/`; C: undefined) *)
Example round_super45_period0_traps : sk_rs_round false 7 0 0 0 100 = None.
Proof. reflexivity. Qed.

(* ---- refuted: Fixed::round (half up) is not FT_RoundFix (half away from zero) on negative ties ---- *)
Example ftroundfix_refuted : fx_round 32 16 (-32768) = 0 /\ ft_roundfix (-32768) = -65536.
Proof. split; reflexivity. Qed.

(* ---- MIAP cut-in: non-vacuity (CVT below the measured position by more than the cut-in: keep the position) and
        divergence once cvt - cur wraps ---- *)
Example c03_miap_cutin_nonvacuous : sk_miap_cutin 100 300 68 = 300 /\ ft_miap_cutin 100 300 68 = 300 /\
  sk_miap_cutin 300 100 68 = 100 /\ sk_miap_cutin 150 100 68 = 150 /\ sk_miap_cutin 100 150 68 = 100.
Proof. repeat split; reflexivity. Qed.
Example miap_cutin_refuted : exists c o k, i32 c /\ i32 o /\ sk_miap_cutin c o k = c /\ ft_miap_cutin c o k = o /\ c <> o.
Proof. exists 2147483647, (-1), 0. split; [i32c|]. split; [i32c|]. repeat split; try reflexivity. discriminate. Qed.
