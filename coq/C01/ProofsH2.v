(* C01 part 3, round 2 — glyf points() (resolve_coords_len, PointIter) and cmap format 12 iteration *)
From Coq Require Import ZArith List Bool Lia.
From FV Require Import Lib.RustInt C01.Model C01.Core C01.Tables C01.ModelH C01.ProofsH.
Import ListNotations.
Open Scope Z_scope.

Ltac usz := rewrite ?usize_max_val, ?isize_max_val in *.

Lemma read_at_ok_nooverflow w d off v : read_at w d off = Ok v -> off + w <= USIZE_MAX.
Proof. unfold read_at. destruct (checked_add off w) eqn:C; [|discriminate]. apply checked_add_some in C. lia. Qed.

(* ---------- PointIter ---------- *)
Definition crem (c : cursor) : Z := Z.max 0 (blen (cdata c) - cpos c).
Definition pi_inv (s : piter) : Prop := 0 <= pi_rep s <= 255 /\ bytes (cdata (pi_flags s)) /\ 0 <= cpos (pi_flags s) <= USIZE_MAX.
Definition pi_measure (s : piter) : Z := pi_rep s + 256 * crem (pi_flags s).

Lemma crem_nonneg c : 0 <= crem c. Proof. unfold crem. lia. Qed.
Lemma crem_advance c w : 0 <= w -> 0 <= cpos c <= USIZE_MAX -> crem (c_advance w c) <= crem c.
Proof. intros. unfold crem, c_advance, sat_add. cbn [cpos cdata]. usz. pose proof (blen_nonneg (cdata c)). lia. Qed.

Lemma piter_advance_flags_spec s fc f rep : pi_inv s -> piter_advance_flags s = Some (fc, f, rep) ->
  1 <= rep <= 256 /\ bytes (cdata fc) /\ 0 <= cpos fc <= USIZE_MAX /\ (rep - 1) + 256 * crem fc < pi_measure s.
Proof.
  intros (I1 & I2 & I3). unfold piter_advance_flags, pi_measure. destruct (pi_rep s =? 0) eqn:R0.
  - apply Z.eqb_eq in R0. unfold c_read at 1. destruct (read_at 1 (cdata (pi_flags s)) (cpos (pi_flags s))) eqn:R; try discriminate.
    pose proof (read_at_ok_nooverflow _ _ _ _ R) as NO.
    apply read_at_ok_inv in R; try lia. destruct R as [R _].
    set (c1 := c_advance 1 (pi_flags s)).
    assert (C1 : cdata c1 = cdata (pi_flags s) /\ cpos c1 = cpos (pi_flags s) + 1).
    { unfold c1, c_advance, sat_add. cbn [cpos cdata]. split; [reflexivity|]. pose proof (blen_nonneg (cdata (pi_flags s))). usz.
      (* len <= ... no bound on len here: use min *) lia. }
    destruct C1 as [D1 P1].
    assert (M1 : crem c1 <= crem (pi_flags s) - 1) by (unfold crem; rewrite D1, P1; lia).
    assert (Hb1 : bytes (cdata c1)) by (rewrite D1; exact I2).
    destruct (bit a 8).
    + unfold c_read.
      assert (V : 0 <= match read_at 1 (cdata c1) (cpos c1) with Ok v => v | _ => 0 end <= 255).
      { destruct (read_at 1 (cdata c1) (cpos c1)) eqn:R2; try lia.
        pose proof (read_at_value_range 1 (cdata c1) (cpos c1) a0 Hb1 ltac:(lia) ltac:(lia) R2). lia. }
      pose proof (crem_advance c1 1 ltac:(lia) ltac:(lia)) as CA.
      assert (P2 : 0 <= cpos (c_advance 1 c1) <= USIZE_MAX) by (cbn [c_advance cpos]; unfold sat_add; usz; lia).
      set (v := match read_at 1 (cdata c1) (cpos c1) with Ok v => v | _ => 0 end) in *.
      intros H. inversion H; subst fc f rep. repeat split; try lia; auto.
    + intros H. inversion H; subst fc f rep. repeat split; try lia; auto.
  - apply Z.eqb_neq in R0. intros H. inversion H; subst. repeat split; try lia; auto.
Qed.

Lemma piter_advance_points_ok s fc f rep : 1 <= rep <= 256 ->
  exists x y on s', piter_advance_points s fc f rep = Ok (Some (x, y, on, s')) /\ pi_rep s' = rep - 1 /\ pi_flags s' = fc.
Proof.
  intros Hr. unfold piter_advance_points, sub_chk. replace (1 <=? rep) with true by (symmetry; apply Z.leb_le; lia). cbn [rbind].
  repeat match goal with |- context [let '(_, _) := ?e in _] => destruct e end.
  eexists _, _, _, _. split; [reflexivity|]. cbn. split; reflexivity.
Qed.

Lemma piter_next_ok s : pi_inv s ->
  piter_next s = Ok None \/
  exists x y on s', piter_next s = Ok (Some (x, y, on, s')) /\ pi_inv s' /\ pi_measure s' < pi_measure s.
Proof.
  intros I. unfold piter_next. destruct (piter_advance_flags s) as [[[fc f] rep]|] eqn:A; [|left; reflexivity].
  destruct (piter_advance_flags_spec s fc f rep I A) as (R & B & P & M).
  destruct (piter_advance_points_ok s fc f rep R) as (x & y & on & s' & E & E1 & E2).
  right. exists x, y, on, s'. split; [exact E|]. unfold pi_inv, pi_measure. rewrite E1, E2. repeat split; try lia; auto.
Qed.

(* points(): the iterator never panics and ends within measure+1 calls; measure <= 256 * (flag bytes) *)
Lemma piter_run_ok : forall fuel s, pi_inv s -> pi_measure s < Z.of_nat fuel ->
  exists l, piter_run fuel s = Ok (l, true) /\ Z.of_nat (length l) <= 3 * pi_measure s.
Proof.
  induction fuel; intros s I M.
  - exfalso. destruct I as (I1 & _). unfold pi_measure in M. pose proof (crem_nonneg (pi_flags s)). lia.
  - cbn [piter_run]. destruct (piter_next_ok s I) as [E|(x & y & on & s' & E & I' & M')]; rewrite E; cbn [rbind].
    + exists []. split; [reflexivity|]. cbn [length]. destruct I as (I1 & _). unfold pi_measure. pose proof (crem_nonneg (pi_flags s)). lia.
    + destruct (IHfuel s' I' ltac:(lia)) as (l & R & L). rewrite R. cbn [rbind fst snd].
      exists (x :: y :: on :: l). split; [reflexivity|]. cbn [length]. lia.
Qed.
Lemma piter_run_total : forall fuel s, pi_inv s -> piter_run fuel s <> Panic.
Proof.
  induction fuel; intros s I; cbn [piter_run]; [discriminate|].
  destruct (piter_next_ok s I) as [E|(x & y & on & s' & E & I' & _)]; rewrite E; cbn [rbind]; [discriminate|].
  pose proof (IHfuel s' I'). destruct (piter_run fuel s'); cbn [rbind]; congruence.
Qed.

(* ---------- resolve_coords_len ---------- *)
Definition resolve_post (c : cursor) (left xl yl : Z) (r : res (cursor * Z * Z)) : Prop :=
  match r with
  | Ok (c', xl', yl') => cdata c' = cdata c /\ cpos c <= cpos c' <= cpos c + 2 * left /\
                         0 <= xl' <= xl + 3 * left /\ 0 <= yl' <= yl + 3 * left
  | Err _ => True
  | Panic => False
  end.
Lemma resolve_loop_ok : forall fuel c left xl yl, bytes (cdata c) -> 0 <= cpos c -> 0 <= left -> 0 <= xl -> 0 <= yl ->
  cpos c + 2 * left <= 1048576 -> xl + 3 * left <= 1048576 -> yl + 3 * left <= 1048576 ->
  resolve_post c left xl yl (resolve_loop fuel c left xl yl).
Proof.
  induction fuel; intros c left xl yl Hb Hp Hl Hx Hy B1 B2 B3; cbn [resolve_loop].
  - unfold resolve_post. repeat split; lia.
  - destruct (left <=? 0) eqn:L0; [unfold resolve_post; repeat split; lia|]. apply Z.leb_gt in L0.
    unfold c_read at 1. destruct (read_at 1 (cdata c) (cpos c)) eqn:R; cbn [rbind]; [|exact I|].
    2:{ exfalso. eapply read_at_total; eauto. }
    pose proof (read_at_value_range 1 _ _ a Hb Hp ltac:(lia) R) as Va.
    set (c1 := c_advance 1 c).
    assert (C1 : cdata c1 = cdata c /\ cpos c1 = cpos c + 1) by (unfold c1, c_advance, sat_add; cbn [cpos cdata]; usz; split; [reflexivity|lia]).
    destruct C1 as [D1 P1].
    (* the repeat count and the cursor after it *)
    assert (G : forall c2 repeats, cdata c2 = cdata c -> cpos c + 1 <= cpos c2 <= cpos c + 2 -> 1 <= repeats <= 256 ->
      resolve_post c left xl yl
        (if left <? repeats then Err MalformedData else
         rdo xl0 <- add_u 32 xl ((if bit a 2 then 1 else 0) * repeats) ;;
         rdo xl1 <- add_u 32 xl0 ((if Z.land a 18 =? 0 then 1 else 0) * repeats * 2) ;;
         rdo yl0 <- add_u 32 yl ((if bit a 4 then 1 else 0) * repeats) ;;
         rdo yl1 <- add_u 32 yl0 ((if Z.land a 36 =? 0 then 1 else 0) * repeats * 2) ;;
         resolve_loop fuel c2 (left - repeats) xl1 yl1)).
    { intros c2 r D2 P2 Hr. destruct (left <? r) eqn:LR; [exact I|]. apply Z.ltb_ge in LR.
      set (bx := if bit a 2 then 1 else 0). set (bx2 := if Z.land a 18 =? 0 then 1 else 0).
      set (by1 := if bit a 4 then 1 else 0). set (by2 := if Z.land a 36 =? 0 then 1 else 0).
      assert (0 <= bx <= 1) by (unfold bx; destruct (bit a 2); lia).
      assert (0 <= bx2 <= 1) by (unfold bx2; destruct (Z.land a 18 =? 0); lia).
      assert (0 <= by1 <= 1) by (unfold by1; destruct (bit a 4); lia).
      assert (0 <= by2 <= 1) by (unfold by2; destruct (Z.land a 36 =? 0); lia).
      assert (Ex : 0 <= bx * r <= r) by nia. assert (Ex2 : 0 <= bx2 * r * 2 <= 2 * r) by nia.
      assert (Ey : 0 <= by1 * r <= r) by nia. assert (Ey2 : 0 <= by2 * r * 2 <= 2 * r) by nia.
      unfold add_u. change (2 ^ 32) with 4294967296.
      replace (xl + bx * r <? 4294967296) with true by (symmetry; apply Z.ltb_lt; lia). cbn [rbind].
      replace (xl + bx * r + bx2 * r * 2 <? 4294967296) with true by (symmetry; apply Z.ltb_lt; lia). cbn [rbind].
      replace (yl + by1 * r <? 4294967296) with true by (symmetry; apply Z.ltb_lt; lia). cbn [rbind].
      replace (yl + by1 * r + by2 * r * 2 <? 4294967296) with true by (symmetry; apply Z.ltb_lt; lia). cbn [rbind].
      pose proof (IHfuel c2 (left - r) (xl + bx * r + bx2 * r * 2) (yl + by1 * r + by2 * r * 2)) as IH.
      rewrite D2 in IH. specialize (IH Hb ltac:(lia) ltac:(lia) ltac:(lia) ltac:(lia) ltac:(lia) ltac:(lia) ltac:(lia)).
      unfold resolve_post in *. destruct (resolve_loop fuel c2 _ _ _) as [[[c' xl'] yl']| |]; auto.
      destruct IH as (I1 & I2 & I3 & I4). rewrite D2 in I1. repeat split; try lia; auto. }
    destruct (bit a 8).
    + unfold c_read. destruct (read_at 1 (cdata c1) (cpos c1)) eqn:R2; cbn [rbind]; [|exact I|].
      2:{ exfalso. eapply read_at_total; eauto. }
      assert (Hb1 : bytes (cdata c1)) by (rewrite D1; exact Hb).
      pose proof (read_at_value_range 1 (cdata c1) (cpos c1) a0 Hb1 ltac:(lia) ltac:(lia) R2) as V0.
      apply G; try lia.
      * cbn [c_advance cdata]. exact D1.
      * cbn [c_advance cpos]. unfold sat_add. usz. lia.
    + cbn [rbind]. apply G; try lia. exact D1.
Qed.

Lemma split_at_ok d mid : 0 <= mid <= blen d -> split_at d mid = Ok (firstn (Z.to_nat mid) d, skipn (Z.to_nat mid) d).
Proof.
  intros H. unfold split_at. replace ((0 <=? mid) && (mid <=? blen d)) with true; [reflexivity|].
  symmetry. apply andb_true_intro. split; apply Z.leb_le; lia.
Qed.

Lemma piter_new_inv f x y : bytes f -> pi_inv (piter_new f x y).
Proof. intros H. unfold pi_inv, piter_new, cursor0. cbn [pi_rep pi_flags cdata cpos]. usz. repeat split; try lia; auto. Qed.
Lemma piter_new_measure f x y : pi_measure (piter_new f x y) = 256 * blen f.
Proof. unfold pi_measure, piter_new, crem, cursor0. cbn [pi_rep pi_flags cdata cpos]. pose proof (blen_nonneg f). lia. Qed.

(* SimpleGlyph::points(): building the iterator never panics (all error paths give the empty iterator) *)
Lemma points_iter_ok last data : valid data -> (forall l, last = Some l -> 0 <= l <= 65535) ->
  exists it, points_iter last data = Ok it /\ pi_inv it /\ pi_measure it <= 256 * blen data.
Proof.
  intros [Hb Hv] Hl. pose proof (blen_nonneg data) as Hn.
  assert (Empty : exists it, Ok (piter_new [] [] []) = Ok it /\ pi_inv it /\ pi_measure it <= 256 * blen data).
  { eexists. split; [reflexivity|]. split; [apply piter_new_inv; constructor|]. rewrite piter_new_measure. change (blen []) with 0. lia. }
  unfold points_iter. destruct last as [l|]; [|exact Empty]. specialize (Hl l eq_refl).
  destruct (65535 <? l + 1) eqn:E; [exact Empty|]. apply Z.ltb_ge in E.
  unfold resolve_coords_len.
  pose proof (resolve_loop_ok (Z.to_nat (l + 1)) (cursor0 data) (l + 1) 0 0 Hb ltac:(cbn; lia) ltac:(lia) ltac:(lia) ltac:(lia)
                ltac:(cbn [cursor0 cpos]; lia) ltac:(lia) ltac:(lia)) as P.
  unfold resolve_post in P. destruct (resolve_loop _ _ _ _ _) as [[[c' xl] yl]| |]; cbn [rbind]; [|exact Empty|contradiction].
  destruct P as (D & Pp & Px & Py). cbn [cursor0 cpos cdata] in *.
  unfold c_position, check_in_bounds, get_to. destruct (get_range (cdata c') 0 (cpos c')) eqn:G; cbn [rbind]; [|exact Empty].
  apply get_range_some in G. destruct G as (_ & G & _). rewrite D in G.
  unfold wrap_u. change (2 ^ 32) with 4294967296. rewrite Z.mod_small by lia.
  unfold add_u. change (2 ^ 32) with 4294967296.
  replace (cpos c' + xl <? 4294967296) with true by (symmetry; apply Z.ltb_lt; lia). cbn [rbind].
  replace (cpos c' + xl + yl <? 4294967296) with true by (symmetry; apply Z.ltb_lt; lia). cbn [rbind].
  destruct (blen data <? cpos c' + xl + yl) eqn:T; [exact Empty|]. apply Z.ltb_ge in T.
  rewrite split_at_ok by lia. cbn [rbind fst snd].
  rewrite split_at_ok.
  2:{ unfold blen in *. rewrite skipn_length. lia. }
  cbn [rbind fst snd]. eexists. split; [reflexivity|]. split.
  - apply piter_new_inv. apply Forall_firstn. exact Hb.
  - rewrite piter_new_measure. unfold blen in *. rewrite firstn_length. lia.
Qed.

(* ---------- cmap format 12 ---------- *)
Definition ci_inv (groups : list (list Z)) (s : c12iter) : Prop := 0 <= ci_ix s <= Z.of_nat (length groups).

Lemma cmap12_group_some groups i lim g : cmap12_group groups i lim = Some g -> 0 <= i < Z.of_nat (length groups).
Proof. unfold cmap12_group. destruct (nthz groups i) eqn:N; [|discriminate]. intros _. apply nthz_some in N. lia. Qed.

(* with limits every group range holds at most glyph_count code points and ends at or before max_char + 1 *)
Lemma cmap12_group_limits groups i mc gc s e sc sg : 0 <= gc ->
  (forall g, nthz groups i = Some g -> 0 <= field g 0 4 /\ 0 <= field g 8 4) ->
  cmap12_group groups i (Some (mc, gc)) = Some (s, e, sc, sg) -> e - s <= gc /\ e <= mc + 1.
Proof.
  intros Hg Hf. unfold cmap12_group. destruct (nthz groups i) as [g|] eqn:N; [|discriminate].
  destruct (Hf g eq_refl) as [F1 F2]. intros H. inversion H; subst. unfold U64_MAX. lia.
Qed.

(* Cmap12Iter::next never panics; the group-skipping loop needs at most (groups - ix) + 1 rounds *)
Lemma cmap12_next_ok groups lim : Z.of_nat (length groups) < USIZE_MAX -> forall fuel s, ci_inv groups s ->
  Z.of_nat (length groups) - ci_ix s < Z.of_nat fuel ->
  cmap12_next fuel groups lim s = Ok None \/
  exists cp g s', cmap12_next fuel groups lim s = Ok (Some (cp, g, s')) /\ ci_inv groups s' /\ ci_ix s <= ci_ix s'.
Proof.
  intros Hlen. induction fuel; intros s I F; [unfold ci_inv in I; lia|].
  cbn [cmap12_next]. destruct (ci_cur s) as [[[[rs re] sc] sg]|]; [|left; reflexivity].
  destruct (rs <? re).
  - right. eexists _, _, _. split; [reflexivity|]. unfold ci_inv in *. cbn [ci_ix]. split; lia.
  - unfold add_chk. unfold ci_inv in I. replace (ci_ix s + 1 <=? USIZE_MAX) with true by (symmetry; apply Z.leb_le; lia). cbn [rbind].
    destruct (cmap12_group groups (ci_ix s + 1) lim) as [[[[ns ne] nsc] nsg]|] eqn:G; [|left; reflexivity].
    apply cmap12_group_some in G.
    match goal with |- context [cmap12_next fuel groups lim ?s1] =>
      destruct (IHfuel s1 ltac:(unfold ci_inv; cbn [ci_ix]; lia) ltac:(cbn [ci_ix]; lia)) as [E|(cp & g & s' & E & I' & M')] end.
    + left. exact E.
    + right. exists cp, g, s'. split; [exact E|]. split; [exact I'|]. cbn [ci_ix] in M'. lia.
Qed.
Lemma cmap12_take_total groups lim : Z.of_nat (length groups) < USIZE_MAX -> forall n s, ci_inv groups s ->
  cmap12_take n groups lim s <> Panic /\ (forall e, cmap12_take n groups lim s <> Err e).
Proof.
  intros Hlen. induction n; intros s I; cbn [cmap12_take]; [split; [discriminate|intros e; discriminate]|].
  destruct (cmap12_next_ok groups lim Hlen (S (length groups)) s I ltac:(unfold ci_inv in I; lia)) as [E|(cp & g & s' & E & I' & _)];
    rewrite E; cbn [rbind]; [split; [discriminate|intros e; discriminate]|].
  destruct (IHn s' I') as [T1 T2]. destruct (cmap12_take n groups lim s') as [[l fin]|e|]; cbn [rbind].
  - split; [discriminate|intros e; discriminate].
  - exfalso. eapply T2; reflexivity.
  - congruence.
Qed.

(* ================= property-level statements (used by C01/PropsH.v) ================= *)
Lemma points_total_steps_lemma : forall last data, valid data -> (forall l, last = Some l -> 0 <= l <= 65535) ->
  exists it, points_iter last data = Ok it /\
    forall fuel, piter_run fuel it <> Panic /\
      (256 * blen data < Z.of_nat fuel -> exists l, piter_run fuel it = Ok (l, true) /\ Z.of_nat (length l) <= 768 * blen data).
Proof.
  intros last data V Hl. destruct (points_iter_ok last data V Hl) as (it & E & I & M).
  exists it. split; [exact E|]. intros fuel. split; [apply piter_run_total; exact I|].
  intros F. destruct (piter_run_ok fuel it I ltac:(lia)) as (l & R & L). exists l. split; [exact R|lia].
Qed.

Lemma ppn_total_lemma : forall d, bytes d ->
  ppn_split_off_front d <> Panic /\ 0 <= fst (ppn_count_bytes d) <= 32767 /\
  forall fuel, ppn_run fuel (ppn_iter d) <> Panic /\
    (65536 < Z.of_nat fuel -> exists l, ppn_run fuel (ppn_iter d) = Ok (l, true) /\
       Z.of_nat (length l) <= (if fst (ppn_count_bytes d) =? 0 then 65536 else fst (ppn_count_bytes d))).
Proof.
  intros d Hb. split; [apply ppn_split_off_front_total; exact Hb|].
  pose proof (ppn_count_bytes_range d Hb) as [R1 R2]. split; [exact R1|].
  pose proof (ppn_iter_inv d Hb) as I. intros fuel. split; [apply ppn_run_total; exact I|]. intros F.
  assert (M : pp_measure (ppn_iter d) = (if fst (ppn_count_bytes d) =? 0 then 65536 else fst (ppn_count_bytes d))).
  { unfold pp_measure, ppn_iter. destruct (ppn_count_bytes d) as [np nb]. cbn [fst pp_count pp_last pp_seen].
    destruct (np =? 0); lia. }
  destruct (ppn_run_ok fuel (ppn_iter d) I) as (l & R & L).
  - rewrite M. destruct (fst (ppn_count_bytes d) =? 0); lia.
  - exists l. split; [exact R|]. rewrite <- M. exact L.
Qed.

Lemma packed_deltas_total_lemma : forall d, bytes d -> blen d <= 2 ^ 56 ->
  exists count, count_all_deltas d = Ok count /\ 0 <= count <= 64 * (blen d + 1) /\
    forall fuel, delta_run fuel (mkdi count 0 1 (cursor0 d)) <> Panic /\
      (count < Z.of_nat fuel -> exists l, delta_run fuel (mkdi count 0 1 (cursor0 d)) = Ok (l, true) /\ Z.of_nat (length l) <= count).
Proof.
  intros d Hb Hl. destruct (count_all_deltas_ok d Hb Hl) as (count & E & B). exists count. split; [exact E|]. split; [exact B|].
  assert (I : di_inv (mkdi count 0 1 (cursor0 d))) by (unfold di_inv; cbn; lia).
  intros fuel. split; [apply delta_run_total; exact I|]. intros F.
  destruct (delta_run_ok fuel _ I ltac:(cbn; lia)) as (l & R & L). exists l. split; [exact R|]. cbn in L. exact L.
Qed.

Lemma cmap12_iter_total_lemma : forall groups lim n, Z.of_nat (length groups) < USIZE_MAX ->
  cmap12_take n groups lim (cmap12_iter_new groups lim) <> Panic /\
  (forall e, cmap12_take n groups lim (cmap12_iter_new groups lim) <> Err e).
Proof. intros groups lim n H. apply cmap12_take_total; [exact H|]. unfold ci_inv, cmap12_iter_new. cbn. lia. Qed.

(* ---------- postscript/dict.rs parse_bcd ---------- *)
Lemma bcd_push_ok buf byte : blen buf <= 32 ->
  (exists b, bcd_push buf byte = Ok b /\ blen b = blen buf + 1 /\ blen b <= 32) \/ bcd_push buf byte = Err InvalidNumber.
Proof.
  intros H. unfold bcd_push, BCD_MAX_LEN. pose proof (blen_nonneg buf). destruct (blen buf <? 32) eqn:E; [|right; reflexivity].
  apply Z.ltb_lt in E. replace (0 <=? blen buf) with true by (symmetry; apply Z.leb_le; lia). cbn [andb].
  left. eexists. split; [reflexivity|]. rewrite blen_app. change (blen [byte]) with 1. lia.
Qed.
Definition bcd_post (buf : list Z) (r : res (list Z * bool)) : Prop :=
  match r with Ok (b, _) => blen b <= 32 | Err e => e = InvalidNumber | Panic => False end.
Lemma bcd_nibble_ok buf nib : blen buf <= 32 -> bcd_post buf (bcd_nibble buf nib).
Proof.
  intros H. unfold bcd_nibble.
  assert (P : forall byte, bcd_post buf (rdo b <- bcd_push buf byte ;; Ok (b, false))).
  { intros byte. destruct (bcd_push_ok buf byte H) as [(b & E & _ & L)|E]; rewrite E; cbn [rbind bcd_post]; auto. }
  destruct ((0 <=? nib) && (nib <=? 9)); [apply P|].
  destruct (nib =? 10); [apply P|]. destruct (nib =? 11); [apply P|].
  destruct (nib =? 12).
  - destruct (bcd_push_ok buf 69 H) as [(b & E & _ & L)|E]; rewrite E; cbn [rbind bcd_post]; auto.
    destruct (bcd_push_ok b 45 L) as [(b2 & E2 & _ & L2)|E2]; rewrite E2; cbn [rbind bcd_post]; auto.
  - destruct (nib =? 14); [apply P|]. destruct (nib =? 15); cbn [bcd_post]; auto.
Qed.
(* the loop never panics, never writes past the 32-byte buffer, and needs at most one round per remaining byte (+1) *)
Lemma bcd_loop_ok : forall fuel c buf, blen buf <= 32 -> 0 <= cpos c <= USIZE_MAX -> crem c < Z.of_nat fuel ->
  match snd (bcd_loop fuel c buf) with
  | Ok b => blen b <= 32
  | Err e => e = InvalidNumber \/ e = OutOfBounds
  | Panic => False
  end.
Proof.
  induction fuel; intros c buf Hb Hp Hf; [pose proof (crem_nonneg c); lia|].
  cbn [bcd_loop]. unfold c_read. destruct (read_at 1 (cdata c) (cpos c)) eqn:R; cbn [snd].
  - pose proof (read_at_ok_nooverflow _ _ _ _ R) as NO. apply read_at_ok_inv in R; try lia. destruct R as [R _].
    pose proof (bcd_nibble_ok buf (Z.land (Z.shiftr a 4) 15) Hb) as N1.
    destruct (bcd_nibble buf (Z.land (Z.shiftr a 4) 15)) as [[b1 [|]]|e|]; cbn [bcd_post snd] in *; auto; try contradiction.
    pose proof (bcd_nibble_ok b1 (Z.land a 15) N1) as N2.
    destruct (bcd_nibble b1 (Z.land a 15)) as [[b2 [|]]|e|]; cbn [bcd_post snd] in *; auto; try contradiction.
    apply IHfuel; auto.
    + cbn [c_advance cpos]. unfold sat_add. usz. lia.
    + unfold crem in *. cbn [c_advance cpos cdata]. unfold sat_add. usz. lia.
  - right. eapply read_at_err; eauto.
  - eapply read_at_total; eauto.
Qed.
Lemma parse_bcd_total_lemma : forall c, 0 <= cpos c <= USIZE_MAX ->
  match snd (parse_bcd c) with
  | Ok s => blen s <= 32 /\ f64_syntax_ok s = true
  | Err e => e = InvalidNumber \/ e = OutOfBounds
  | Panic => False
  end.
Proof.
  intros c Hp. unfold parse_bcd.
  pose proof (bcd_loop_ok (S (length (cdata c))) c [] ltac:(cbn; lia) Hp) as L.
  assert (F : crem c < Z.of_nat (S (length (cdata c)))) by (unfold crem, blen; lia). specialize (L F).
  destruct (bcd_loop (S (length (cdata c))) c []) as [c1 r]. cbn [snd] in *.
  destruct r as [s|e|]; cbn [rbind]; auto.
  destruct (f64_syntax_ok s) eqn:S; auto.
Qed.
