(* C01 part 3, round 6 — Cmap4Iter: the loop of `next` makes at most 65536 + segments + 1 turns for EVERY segment array *)
From Coq Require Import ZArith List Bool Lia.
From FV Require Import Lib.RustInt C01.Model C01.Core C01.Tables C01.ModelH C01.IterModel C01.IterProofs C01.CsModel C01.Cmap4Model.
Import ListNotations.
Open Scope Z_scope.

Definition c4_inv (t : cmap4) (st : c4iter) : Prop :=
  0 <= i4_e st <= 65536 /\ 0 <= i4_ix st <= Z.of_nat (length (c4_start t)) /\
  Forall (fun v => 0 <= v <= 65535) (c4_start t) /\ Forall (fun v => 0 <= v <= 65535) (c4_end t).
(* what is left: code points the end can still move over, the rest of the current range, the segments not yet visited *)
Definition c4_measure (t : cmap4) (st : c4iter) : Z :=
  (65536 - i4_e st) + Z.max 0 (i4_e st - i4_s st) + (Z.of_nat (length (c4_start t)) - i4_ix st).

Lemma nthz_forall {A} (P : A -> Prop) l i x : Forall P l -> nthz l i = Some x -> P x.
Proof. intros F N. apply nthz_some in N. destruct N as [_ N]. apply nth_error_In in N. rewrite Forall_forall in F. apply F, N. Qed.

Lemma c4_micro_progress t st i st' : c4_inv t st -> c4_micro t st = Some (i, st') ->
  c4_inv t st' /\ c4_measure t st' < c4_measure t st.
Proof.
  intros (He & Hi & Fs & Fe) H. unfold c4_micro in H. destruct (i4_s st <? i4_e st) eqn:Lt.
  - apply Z.ltb_lt in Lt. inversion H; subst. unfold c4_inv, c4_measure. cbn [i4_s i4_e i4_ix]. repeat split; auto; lia.
  - apply Z.ltb_ge in Lt. unfold c4_code_range in H.
    destruct (nthz (c4_start t) (i4_ix st + 1)) as [ns|] eqn:Ns; [|discriminate].
    destruct (nthz (c4_end t) (i4_ix st + 1)) as [ne|] eqn:Ne; [|discriminate].
    pose proof (nthz_forall _ _ _ _ Fs Ns) as Rs. pose proof (nthz_forall _ _ _ _ Fe Ne) as Re. cbn beta in Rs, Re.
    apply nthz_some in Ns. destruct Ns as [Ns _].
    inversion H; subst. unfold c4_inv, c4_measure. cbn [i4_s i4_e i4_ix]. repeat split; auto; lia.
Qed.

(* cmap4_iter_steps: for EVERY segment array (overlapping, unsorted, end < start, ...) the loop turns at most
   65536 + segCount + 1 times in total over the whole iteration — so at most 65536 pairs are produced *)
Lemma cmap4_iter_steps_lemma : forall t fuel,
  Forall (fun v => 0 <= v <= 65535) (c4_start t) -> Forall (fun v => 0 <= v <= 65535) (c4_end t) ->
  65536 + Z.of_nat (length (c4_start t)) + 1 < Z.of_nat fuel ->
  snd (iter_run (c4_micro t) fuel (c4_iter_new t)) = true /\
  Z.of_nat (length (fst (iter_run (c4_micro t) fuel (c4_iter_new t)))) <= 65536 + Z.of_nat (length (c4_start t)) + 1.
Proof.
  intros t fuel Fs Fe F.
  assert (I0 : c4_inv t (c4_iter_new t) /\ c4_measure t (c4_iter_new t) <= 65536 + Z.of_nat (length (c4_start t)) + 1).
  { unfold c4_iter_new, c4_code_range.
    destruct (nthz (c4_start t) 0) as [s|] eqn:Ns; [destruct (nthz (c4_end t) 0) as [e|] eqn:Ne|].
    - pose proof (nthz_forall _ _ _ _ Fs Ns) as Rs. pose proof (nthz_forall _ _ _ _ Fe Ne) as Re. cbn beta in Rs, Re.
      unfold c4_inv, c4_measure. cbn [i4_s i4_e i4_ix]. repeat split; auto; lia.
    - unfold c4_inv, c4_measure. cbn [i4_s i4_e i4_ix]. repeat split; auto; lia.
    - unfold c4_inv, c4_measure. cbn [i4_s i4_e i4_ix]. repeat split; auto; lia. }
  destruct I0 as [I0 M0].
  destruct (iter_progress_gen (c4_micro t) (c4_inv t) (c4_measure t)) with (fuel := fuel) (s := c4_iter_new t) as [R1 R2].
  - intros s (He & Hi & _). unfold c4_measure. lia.
  - intros s i s' I E. apply (c4_micro_progress t s i s' I E).
  - exact I0.
  - lia.
  - split; [exact R1|lia].
Qed.

(* yielded code points are strictly ascending: a yield at code point c leaves the range start at c + 1, and a segment switch
   never moves the start below the current end *)
Lemma c4_micro_yield_bounds t st c g st' : c4_micro t st = Some (Ok (Some (c, g)), st') ->
  c = i4_s st /\ i4_s st < i4_e st /\ i4_s st' = c + 1 /\ i4_e st' = i4_e st.
Proof.
  unfold c4_micro. destruct (i4_s st <? i4_e st) eqn:Lt.
  - apply Z.ltb_lt in Lt. destruct (c4_lookup t (wrap_u 16 (i4_s st)) (i4_ix st) (i4_sc st)) as [[g0|]| |]; intros H; inversion H; subst.
    cbn [i4_s i4_e]. repeat split; auto.
  - destruct (c4_code_range t (i4_ix st + 1)) as [[ns ne]|]; intros H; inversion H.
Qed.
