(* C01 part 3, round 2 — totality and step bounds for glyf read_points_fast, PackedPointNumbers, PackedDeltas *)
From Coq Require Import ZArith List Bool Lia.
From FV Require Import Lib.RustInt C01.Model C01.Core C01.Tables C01.ModelH.
Import ListNotations.
Open Scope Z_scope.

Ltac usz := rewrite ?usize_max_val, ?isize_max_val in *.

(* ---------- small facts ---------- *)
Lemma land_ones_byte a k : 0 <= a -> 0 <= k -> 0 <= Z.land a (Z.ones k) < 2 ^ k.
Proof. intros Ha Hk. rewrite Z.land_ones by lia. apply Z.mod_pos_bound. apply Z.pow_pos_nonneg; lia. Qed.
Lemma land127 a : 0 <= a -> 0 <= Z.land a 127 <= 127.
Proof. intros H. change 127 with (Z.ones 7) at 1 2. pose proof (land_ones_byte a 7 H ltac:(lia)) as B. change (2 ^ 7) with 128 in B. change (Z.ones 7) with 127 in *. lia. Qed.
Lemma land63 a : 0 <= a -> 0 <= Z.land a 63 <= 63.
Proof. intros H. change 63 with (Z.ones 6) at 1 2. pose proof (land_ones_byte a 6 H ltac:(lia)) as B. change (2 ^ 6) with 64 in B. change (Z.ones 6) with 63 in *. lia. Qed.

Lemma land32767 a : 0 <= a -> 0 <= Z.land a 32767 <= 32767.
Proof. intros H. change 32767 with (Z.ones 15) at 1 2. pose proof (land_ones_byte a 15 H ltac:(lia)) as B. change (2 ^ 15) with 32768 in B. change (Z.ones 15) with 32767 in *. lia. Qed.

Lemma bytes_cons b l : bytes (b :: l) -> 0 <= b < 256 /\ bytes l.
Proof. intros H. inversion H; subst. split; assumption. Qed.

Lemma blen_cons (b : Z) l : blen (b :: l) = 1 + blen l.
Proof. unfold blen. cbn [length]. lia. Qed.
Lemma blen_app (a b : list Z) : blen (a ++ b) = blen a + blen b.
Proof. unfold blen. rewrite app_length. lia. Qed.

Lemma c_read_total w c : snd (c_read w c) <> Panic.
Proof. unfold c_read. cbn. apply read_at_total. Qed.

(* ---------- set_at / set_range ---------- *)
Lemma set_at_ok fl i v : 0 <= i < blen fl -> exists fl', set_at fl i v = Ok fl' /\ blen fl' = blen fl.
Proof.
  intros H. unfold set_at.
  replace ((0 <=? i) && (i <? blen fl)) with true by (symmetry; apply andb_true_intro; split; [apply Z.leb_le|apply Z.ltb_lt]; lia).
  eexists. split; [reflexivity|]. unfold blen in *. rewrite app_length. cbn [length].
  rewrite firstn_length, skipn_length. lia.
Qed.
Lemma set_range_ok fl i count v : 0 <= i -> 0 <= count -> i + count <= blen fl -> blen fl <= USIZE_MAX ->
  exists fl', set_range fl i count v = Ok fl' /\ blen fl' = blen fl.
Proof.
  intros Hi Hc Hl Hm. unfold set_range, add_chk.
  replace (i + count <=? USIZE_MAX) with true by (symmetry; apply Z.leb_le; lia). cbn [rbind].
  replace ((0 <=? i) && (i <=? i + count) && (i + count <=? blen fl)) with true.
  2:{ symmetry. repeat (apply andb_true_intro; split); apply Z.leb_le; lia. }
  eexists. split; [reflexivity|]. unfold blen in *. rewrite !app_length, firstn_length, repeat_length, skipn_length. lia.
Qed.

(* ---------- read_points_fast: the flag loop ---------- *)
Definition flag_post (n rfb : Z) (fd : list Z) (r : res (Z * list Z)) : Prop :=
  match r with
  | Ok (rfb', fl') => blen fl' = n /\ rfb <= rfb' <= rfb + blen fd
  | Err e => e = OutOfBounds
  | Panic => False
  end.
Lemma flag_post_weaken n rfb1 fd1 rfb2 fd2 r : rfb2 <= rfb1 -> rfb1 + blen fd1 <= rfb2 + blen fd2 ->
  flag_post n rfb1 fd1 r -> flag_post n rfb2 fd2 r.
Proof. intros H1 H2. unfold flag_post. destruct r as [[a b]| |]; auto. intros [A B]. split; [exact A|lia]. Qed.

Lemma flag_loop_ok : forall fuel n fd i rfb fl,
  (fd = [] \/ 0 <= i < n) -> blen fl = n -> n <= USIZE_MAX -> 0 <= rfb -> rfb + blen fd <= USIZE_MAX -> bytes fd ->
  flag_post n rfb fd (flag_loop fuel n fd i rfb fl).
Proof.
  induction fuel; intros n fd i rfb fl Hi Hl Hn Hr Hb Hby; cbn [flag_loop].
  - unfold flag_post. reflexivity.
  - destruct fd as [|b rest].
    + unfold flag_post. reflexivity.
    + destruct Hi as [Hi|Hi]; [discriminate|].
      apply bytes_cons in Hby. destruct Hby as [Hb0 Hrest]. rewrite blen_cons in Hb.
      pose proof (blen_nonneg rest) as Hrn.
      unfold add_chk at 1. replace (rfb + 1 <=? USIZE_MAX) with true by (symmetry; apply Z.leb_le; lia).
      cbn [rbind]. destruct (bit b 8).
      * destruct rest as [|r rest']; [unfold flag_post; reflexivity|].
        apply bytes_cons in Hrest. destruct Hrest as [Hr0 Hrest']. rewrite blen_cons in Hb. pose proof (blen_nonneg rest') as Hrn'.
        unfold sub_chk. replace (i <=? n) with true by (symmetry; apply Z.leb_le; lia). cbn [rbind].
        unfold add_chk at 1. replace (rfb + 1 + 1 <=? USIZE_MAX) with true by (symmetry; apply Z.leb_le; lia).
        cbn [rbind].
        set (count := Z.min (r + 1) (n - i)).
        assert (Hc : 1 <= count <= n - i) by (unfold count; lia).
        destruct (set_range_ok fl i count b ltac:(lia) ltac:(lia) ltac:(lia) ltac:(lia)) as (fl' & E & L).
        rewrite E. cbn [rbind]. unfold add_chk at 1. replace (i + count <=? USIZE_MAX) with true by (symmetry; apply Z.leb_le; lia).
        cbn [rbind]. destruct (i + count =? n) eqn:En.
        -- unfold flag_post. rewrite !blen_cons. split; lia.
        -- apply Z.eqb_neq in En.
           eapply flag_post_weaken; [| |apply (IHfuel n rest' (i + count) (rfb + 1 + 1) fl'); try lia; auto].
           ++ lia.
           ++ rewrite !blen_cons. lia.
      * destruct (set_at_ok fl i b ltac:(lia)) as (fl' & E & L). rewrite E. cbn [rbind].
        unfold add_chk at 1. replace (i + 1 <=? USIZE_MAX) with true by (symmetry; apply Z.leb_le; lia). cbn [rbind].
        destruct (i + 1 =? n) eqn:En.
        -- unfold flag_post. rewrite !blen_cons. split; lia.
        -- apply Z.eqb_neq in En.
           eapply flag_post_weaken; [| |apply (IHfuel n rest (i + 1) (rfb + 1) fl'); try lia; auto].
           ++ lia.
           ++ rewrite !blen_cons. lia.
Qed.

(* the loop is bounded by the number of flag bytes: any fuel >= that number gives the same result *)
Lemma flag_loop_fuel2 : forall k1 k2 n fd i rfb fl, (length fd <= k1)%nat -> (length fd <= k2)%nat ->
  flag_loop k1 n fd i rfb fl = flag_loop k2 n fd i rfb fl.
Proof.
  induction k1; intros k2 n fd i rfb fl H1 H2.
  - destruct fd; [|cbn in H1; lia]. destruct k2; reflexivity.
  - destruct fd as [|b rest]; [destruct k2; reflexivity|].
    destruct k2; [cbn in H2; lia|]. cbn [length flag_loop] in *.
    destruct (add_chk rfb 1); cbn [rbind]; try reflexivity. destruct (bit b 8).
    + destruct rest as [|r rest']; [reflexivity|]. cbn [length] in *.
      destruct (sub_chk n i); cbn [rbind]; try reflexivity.
      destruct (add_chk a 1); cbn [rbind]; try reflexivity.
      destruct (set_range fl i (Z.min (r + 1) a0) b); cbn [rbind]; try reflexivity.
      destruct (add_chk i (Z.min (r + 1) a0)); cbn [rbind]; try reflexivity.
      destruct (a3 =? n); [reflexivity|]. apply IHk1; lia.
    + destruct (set_at fl i b); cbn [rbind]; try reflexivity.
      destruct (add_chk i 1); cbn [rbind]; try reflexivity.
      destruct (a1 =? n); [reflexivity|]. apply IHk1; lia.
Qed.
Lemma flag_loop_fuel : forall fuel n fd i rfb fl, (length fd <= fuel)%nat ->
  flag_loop fuel n fd i rfb fl = flag_loop (length fd) n fd i rfb fl.
Proof. intros. apply flag_loop_fuel2; lia. Qed.

(* ---------- read_points_fast: coordinate passes ---------- *)
Lemma coord_loop_total short same : forall fl c acc, coord_loop short same fl c acc <> Panic.
Proof.
  induction fl as [|f r IH]; intros c acc; cbn [coord_loop]; [discriminate|].
  destruct (bit f short).
  - unfold c_read. pose proof (read_at_total 1 (cdata c) (cpos c)) as T.
    destruct (read_at 1 (cdata c) (cpos c)); cbn [rbind]; try congruence.
    match goal with |- context [coord_loop short same r ?cc ?aa] => pose proof (IH cc aa) as Q; destruct (coord_loop short same r cc aa) end;
      cbn [rbind]; congruence.
  - destruct (negb (bit f same)).
    + unfold c_read. pose proof (read_at_total 2 (cdata c) (cpos c)) as T.
      destruct (read_at 2 (cdata c) (cpos c)); cbn [rbind]; try congruence.
      match goal with |- context [coord_loop short same r ?cc ?aa] => pose proof (IH cc aa) as Q; destruct (coord_loop short same r cc aa) end;
        cbn [rbind]; congruence.
    + cbn [rbind].
      match goal with |- context [coord_loop short same r ?cc ?aa] => pose proof (IH cc aa) as Q; destruct (coord_loop short same r cc aa) end;
        cbn [rbind]; congruence.
Qed.
Lemma coord_loop_length short same : forall fl c acc xs c', coord_loop short same fl c acc = Ok (xs, c') -> length xs = length fl.
Proof.
  induction fl as [|f r IH]; intros c acc xs c' H; cbn [coord_loop] in H; [inversion H; reflexivity|].
  destruct (bit f short).
  - unfold c_read in H. destruct (read_at 1 (cdata c) (cpos c)); cbn [rbind] in H; try discriminate.
    match type of H with context [coord_loop short same r ?cc ?aa] => destruct (coord_loop short same r cc aa) as [[xs0 c0]| |] eqn:E end;
      cbn [rbind] in H; try discriminate. inversion H; subst. cbn [fst length]. f_equal. eapply IH; eauto.
  - destruct (negb (bit f same)).
    + unfold c_read in H. destruct (read_at 2 (cdata c) (cpos c)); cbn [rbind] in H; try discriminate.
      match type of H with context [coord_loop short same r ?cc ?aa] => destruct (coord_loop short same r cc aa) as [[xs0 c0]| |] eqn:E end;
        cbn [rbind] in H; try discriminate. inversion H; subst. cbn [fst length]. f_equal. eapply IH; eauto.
    + cbn [rbind] in H.
      match type of H with context [coord_loop short same r ?cc ?aa] => destruct (coord_loop short same r cc aa) as [[xs0 c0]| |] eqn:E end;
        cbn [rbind] in H; try discriminate. inversion H; subst. cbn [fst length]. f_equal. eapply IH; eauto.
Qed.
Lemma zip3_length : forall a b c, length a = length b -> length b = length c -> length (zip3 a b c) = (3 * length a)%nat.
Proof.
  induction a as [|x a IH]; intros b c H1 H2; [reflexivity|].
  destruct b as [|y b]; [discriminate|]. destruct c as [|z c]; [discriminate|].
  cbn [zip3 length] in *. rewrite (IH b c) by lia. lia.
Qed.

(* the flag bytes handed to the loop: the first min(n, len) bytes of the glyph data *)
Lemma rpf_flag_bytes_gen n data : valid data -> 0 <= n ->
  c_read_array (Z.min n (c_remaining_bytes (cursor0 data))) 1 (cursor0 data)
  = (c_advance_by (Z.min n (blen data)) (cursor0 data), Ok (sub data 0 (Z.min n (blen data)))).
Proof.
  intros [Hb Hv] Hn. pose proof (blen_nonneg data) as Hl. usz.
  unfold c_remaining_bytes, cursor0. cbn [cpos cdata]. unfold sat_sub. rewrite Z.sub_0_r, Z.max_l by lia.
  unfold c_read_array. cbn [cpos cdata]. unfold checked_mul. rewrite Z.mul_1_r.
  replace (Z.min n (blen data) <=? USIZE_MAX) with true by (symmetry; apply Z.leb_le; usz; lia).
  unfold checked_add. replace (0 + Z.min n (blen data) <=? USIZE_MAX) with true by (symmetry; apply Z.leb_le; usz; lia).
  f_equal. destruct (read_array_spec 1 data 0 (0 + Z.min n (blen data)) ltac:(lia)) as [A _].
  rewrite A; [reflexivity|]. repeat split; try lia. apply Z.mod_1_r.
Qed.
Lemma rpf_remaining data : c_remaining_bytes (cursor0 data) = blen data.
Proof.
  pose proof (blen_nonneg data) as Hl. unfold c_remaining_bytes, cursor0. cbn [cpos cdata]. unfold sat_sub.
  rewrite Z.sub_0_r, Z.max_l by lia. reflexivity.
Qed.
(* as of /repo 6f0a45e the flag loop is handed ALL remaining bytes of the glyph data *)
Lemma rpf_flag_bytes data : valid data ->
  c_read_array (c_remaining_bytes (cursor0 data)) 1 (cursor0 data)
  = (c_advance_by (blen data) (cursor0 data), Ok (sub data 0 (blen data))).
Proof.
  intros V. pose proof (blen_nonneg data) as Hl. pose proof (rpf_flag_bytes_gen (blen data) data V Hl) as G.
  rewrite rpf_remaining in G. rewrite Z.min_id in G. rewrite rpf_remaining. exact G.
Qed.


(* read_points_fast never panics: for every glyph data, every point count and every caller buffer *)
Lemma read_points_fast_total n data fl0 : valid data -> 0 <= n <= USIZE_MAX -> read_points_fast n data fl0 <> Panic.
Proof.
  intros V Hn. unfold read_points_fast. destruct (blen fl0 =? n) eqn:E; cbn [negb]; [|discriminate].
  apply Z.eqb_eq in E. rewrite (rpf_flag_bytes data V). cbn [rbind].
  set (k := blen data). destruct V as [Hb Hv]. pose proof (blen_nonneg data) as Hl.
  assert (Lk : blen (sub data 0 k) = k) by (rewrite sub_length; unfold k; lia).
  assert (Hku : k <= USIZE_MAX) by (unfold k; usz; lia).
  assert (P : flag_post n 0 (sub data 0 k) (if 0 <? n then flag_loop (length (sub data 0 k)) n (sub data 0 k) 0 0 fl0 else Ok (0, fl0))).
  { destruct (0 <? n) eqn:N0.
    - apply Z.ltb_lt in N0. apply flag_loop_ok; try lia. apply sub_bytes, Hb.
    - unfold flag_post. pose proof (blen_nonneg (sub data 0 k)). split; [exact E|lia]. }
  destruct (if 0 <? n then flag_loop (length (sub data 0 k)) n (sub data 0 k) 0 0 fl0 else Ok (0, fl0)) as [[rfb' fl']|e|] eqn:F; cbn [flag_post] in P; [destruct P as [L B]| |contradiction].
  - cbn [rbind fst snd].
    match goal with |- context [coord_loop 2 16 fl' ?c 0] => pose proof (coord_loop_total 2 16 fl' c 0) as T1; destruct (coord_loop 2 16 fl' c 0) as [[xs c1]| |] end;
      cbn [rbind fst snd]; try congruence.
    pose proof (coord_loop_total 4 32 fl' c1 0) as T2. destruct (coord_loop 4 32 fl' c1 0) as [[ys c2]| |]; cbn [rbind]; congruence.
  - cbn [rbind]. discriminate.
Qed.
(* on success exactly n points are produced *)
Lemma read_points_fast_length n data fl0 l : valid data -> 0 <= n <= USIZE_MAX -> read_points_fast n data fl0 = Ok l ->
  Z.of_nat (length l) = 3 * n.
Proof.
  intros V Hn H. unfold read_points_fast in H. destruct (blen fl0 =? n) eqn:E; cbn [negb] in H; [|discriminate].
  apply Z.eqb_eq in E. rewrite (rpf_flag_bytes data V) in H. cbn [rbind] in H.
  set (k := blen data) in *. destruct V as [Hb Hv]. pose proof (blen_nonneg data) as Hl.
  assert (Lk : blen (sub data 0 k) = k) by (rewrite sub_length; unfold k; lia).
  assert (Hku : k <= USIZE_MAX) by (unfold k; usz; lia).
  assert (P : flag_post n 0 (sub data 0 k) (if 0 <? n then flag_loop (length (sub data 0 k)) n (sub data 0 k) 0 0 fl0 else Ok (0, fl0))).
  { destruct (0 <? n) eqn:N0.
    - apply Z.ltb_lt in N0. apply flag_loop_ok; try lia. apply sub_bytes, Hb.
    - unfold flag_post. pose proof (blen_nonneg (sub data 0 k)). split; [exact E|lia]. }
  destruct (if 0 <? n then flag_loop (length (sub data 0 k)) n (sub data 0 k) 0 0 fl0 else Ok (0, fl0)) as [[rfb' fl']|e|] eqn:F; cbn [flag_post] in P; [destruct P as [L B]| |contradiction].
  - cbn [rbind fst snd] in H.
    match type of H with context [coord_loop 2 16 fl' ?c 0] => destruct (coord_loop 2 16 fl' c 0) as [[xs c1]| |] eqn:X end;
      cbn [rbind fst snd] in H; try discriminate.
    destruct (coord_loop 4 32 fl' c1 0) as [[ys c2]| |] eqn:Y; cbn [rbind fst snd] in H; try discriminate.
    inversion H; subst l. apply coord_loop_length in X. apply coord_loop_length in Y.
    rewrite zip3_length by (rewrite ?map_length; congruence). unfold blen in L. lia.
  - cbn [rbind] in H. discriminate.
Qed.

(* ---------- PackedPointNumbers ---------- *)
Lemma ppn_count_bytes_range d : bytes d ->
  0 <= fst (ppn_count_bytes d) <= 32767 /\ (snd (ppn_count_bytes d) = 1 \/ snd (ppn_count_bytes d) = 2).
Proof.
  intros Hb. unfold ppn_count_bytes.
  destruct (or0 (read_at 1 d 0) =? 0) eqn:E0; [cbn [fst snd]; lia|].
  destruct (or0 (read_at 1 d 0) <=? 127) eqn:E1.
  - cbn [fst snd]. apply Z.leb_le in E1. apply Z.eqb_neq in E0. split; [|auto].
    unfold or0 in *. destruct (read_at 1 d 0) eqn:R; try lia.
    pose proof (read_at_value_range 1 d 0 a Hb ltac:(lia) ltac:(lia) R). lia.
  - assert (R : 0 <= or0 (read_at 2 d 0)).
    { unfold or0. destruct (read_at 2 d 0) eqn:R; try lia. pose proof (read_at_value_range 2 d 0 a Hb ltac:(lia) ltac:(lia) R). lia. }
    pose proof (land32767 (or0 (read_at 2 d 0)) R) as B1.
    destruct (Z.land (or0 (read_at 2 d 0)) 32767 =? 0); [cbn [fst snd]; lia|]. cbn [fst snd].
    pose proof (land32767 (Z.land (or0 (read_at 2 d 0)) 32767) ltac:(lia)) as B2. lia.
Qed.

Lemma read_control_byte_spec c cnt two c1 : bytes (cdata c) -> 0 <= cpos c ->
  read_control_byte c = (c1, Some (cnt, two)) -> 1 <= cnt <= 128 /\ cpos c < blen (cdata c) /\ c1 = c_advance 1 c.
Proof.
  intros Hb Hp. unfold read_control_byte, c_read. destruct (read_at 1 (cdata c) (cpos c)) eqn:R; try discriminate.
  intros H. inversion H; subst. pose proof (read_at_value_range 1 _ _ a Hb Hp ltac:(lia) R) as V.
  apply read_at_ok_inv in R; try lia. pose proof (land127 a ltac:(lia)). repeat split; lia.
Qed.
Lemma read_control_byte_data c : cdata (fst (read_control_byte c)) = cdata c.
Proof. unfold read_control_byte, c_read. destruct (read_at 1 (cdata c) (cpos c)); reflexivity. Qed.

(* total_len: n_seen stays a u16, n_bytes stays tiny; the loop runs at most n_points times *)
Lemma ppn_total_loop_ok : forall fuel n_points c n_bytes n_seen, bytes (cdata c) -> 0 <= cpos c -> n_points <= 32767 ->
  0 <= n_seen -> 0 <= n_bytes <= 2 + 3 * n_seen -> n_seen <= 32767 + 128 ->
  exists r, ppn_total_loop fuel n_points c n_bytes n_seen = Ok r /\ n_bytes <= r <= 2 + 3 * (32767 + 128).
Proof.
  induction fuel; intros n_points c n_bytes n_seen Hb Hp Hn Hs Hnb Hs2; cbn [ppn_total_loop].
  - eexists. split; [reflexivity|lia].
  - destruct (n_seen <? n_points) eqn:E; [|eexists; split; [reflexivity|lia]]. apply Z.ltb_lt in E.
    destruct (read_control_byte c) as [c1 [[cnt two]|]] eqn:RC; [|eexists; split; [reflexivity|lia]].
    destruct (read_control_byte_spec c cnt two c1 Hb Hp RC) as (C1 & C2 & C3).
    unfold mul_chk. set (w := 1 + (if two then 1 else 0)). assert (Hw : 1 <= w <= 2) by (unfold w; destruct two; lia).
    replace (w * cnt <=? USIZE_MAX) with true by (symmetry; apply Z.leb_le; usz; nia). cbn [rbind].
    unfold add_chk. replace (w * cnt + 1 <=? USIZE_MAX) with true by (symmetry; apply Z.leb_le; usz; nia). cbn [rbind].
    replace (n_bytes + (w * cnt + 1) <=? USIZE_MAX) with true by (symmetry; apply Z.leb_le; usz; nia). cbn [rbind].
    unfold add_u. change (2 ^ 16) with 65536. replace (n_seen + cnt <? 65536) with true by (symmetry; apply Z.ltb_lt; lia). cbn [rbind].
    destruct (IHfuel n_points (c_advance_by (w * cnt) c1) (n_bytes + (w * cnt + 1)) (n_seen + cnt)) as (r & R1 & R2); try lia.
    + subst c1. cbn. exact Hb.
    + subst c1. cbn [c_advance_by c_advance cpos cdata]. unfold sat_add. usz. assert (0 <= w * cnt) by nia. lia.
    + assert (w * cnt <= 2 * cnt) by nia. lia.
    + exists r. split; [exact R1|lia].
Qed.
Lemma ppn_total_len_total d : bytes d -> exists r, ppn_total_len d = Ok r /\ 0 <= r.
Proof.
  intros Hb. unfold ppn_total_len. pose proof (ppn_count_bytes_range d Hb) as [R1 R2].
  destruct (ppn_count_bytes d) as [np nb]. cbn [fst snd] in *.
  destruct (np =? 0); [exists nb; split; [reflexivity|lia]|].
  destruct (ppn_total_loop_ok (Z.to_nat np) np (c_advance_by nb (cursor0 d)) nb 0) as (r & E & B); try lia.
  - exact Hb.
  - cbn. unfold sat_add. usz. lia.
  - exists r. split; [exact E|lia].
Qed.
Lemma ppn_split_off_front_total d : bytes d -> ppn_split_off_front d <> Panic.
Proof. intros Hb. unfold ppn_split_off_front. destruct (ppn_total_len_total d Hb) as (r & E & _). rewrite E. discriminate. Qed.

(* iterator invariant and measure *)
Definition pp_inv (s : ppiter) : Prop :=
  0 <= pp_seen s <= pp_count s /\ pp_count s <= 32767 /\ 0 <= pp_last s <= 65535 /\ 0 <= pp_rem s /\
  bytes (cdata (pp_cur s)) /\ 0 <= cpos (pp_cur s).
Definition pp_measure (s : ppiter) : Z := if pp_count s =? 0 then 65536 - pp_last s else pp_count s - pp_seen s.

Lemma ppn_value_ok s seen rem two c : 0 <= pp_last s <= 65535 -> pp_count s <> 0 -> pp_count s <= 32767 ->
  seen = pp_seen s + 1 -> seen <= pp_count s -> 0 <= pp_seen s ->
  1 <= rem -> bytes (cdata c) -> 0 <= cpos c ->
  ppn_value s seen rem two c = Ok None \/
  exists v s', ppn_value s seen rem two c = Ok (Some (v, s')) /\ pp_inv s' /\ pp_measure s' < pp_measure s /\ 0 <= v <= 65535.
Proof.
  intros HL HC HC2 Hs Hs2 Hs3 Hr Hb Hp. unfold ppn_value, sub_chk.
  replace (1 <=? rem) with true by (symmetry; apply Z.leb_le; lia). cbn [rbind].
  unfold c_read. set (w := if two then 2 else 1). assert (Hw : 0 <= w) by (unfold w; destruct two; lia).
  destruct (read_at w (cdata c) (cpos c)) eqn:R; try (left; reflexivity).
  pose proof (read_at_value_range w _ _ a Hb Hp Hw R) as V.
  destruct (65535 <? pp_last s + a) eqn:E; [left; reflexivity|]. apply Z.ltb_ge in E.
  right. eexists _, _. split; [reflexivity|]. unfold pp_inv, pp_measure.
  cbn [pp_count pp_seen pp_last pp_rem pp_two pp_cur c_advance cpos cdata].
  replace (pp_count s =? 0) with false by (symmetry; apply Z.eqb_neq; lia).
  repeat split; try lia; auto. unfold sat_add. usz. lia.
Qed.
Lemma ppn_next_ok s : pp_inv s ->
  ppn_next s = Ok None \/ exists v s', ppn_next s = Ok (Some (v, s')) /\ pp_inv s' /\ pp_measure s' < pp_measure s /\ 0 <= v <= 65535.
Proof.
  intros (I1 & I2 & I3 & I4 & I5 & I6). unfold ppn_next.
  destruct (pp_count s =? 0) eqn:C0.
  - destruct (65535 <? pp_last s + 1) eqn:E; [left; reflexivity|]. apply Z.ltb_ge in E.
    right. eexists _, _. split; [reflexivity|]. unfold pp_inv, pp_measure.
    cbn [pp_count pp_seen pp_last pp_rem pp_two pp_cur]. apply Z.eqb_eq in C0. rewrite C0 in *.
    change (0 =? 0) with true. cbv iota. repeat split; try lia; auto.
  - apply Z.eqb_neq in C0. destruct (pp_count s =? pp_seen s) eqn:CS; [left; reflexivity|]. apply Z.eqb_neq in CS.
    unfold add_u. change (2 ^ 16) with 65536. replace (pp_seen s + 1 <? 65536) with true by (symmetry; apply Z.ltb_lt; lia). cbn [rbind].
    destruct (pp_rem s =? 0) eqn:R0.
    + destruct (read_control_byte (pp_cur s)) as [c1 [[cnt two]|]] eqn:RC; [|left; reflexivity].
      destruct (read_control_byte_spec _ cnt two c1 I5 I6 RC) as (C1 & C2 & C3).
      apply ppn_value_ok; try lia; subst c1; cbn [c_advance cpos cdata]; auto. unfold sat_add. usz. lia.
    + apply Z.eqb_neq in R0. apply ppn_value_ok; try lia; auto.
Qed.

(* iter(): never panics; ends (None) within measure+1 calls: <= count items, or 65535 when count = 0 ("all points") *)
Lemma ppn_run_ok : forall fuel s, pp_inv s -> pp_measure s < Z.of_nat fuel ->
  exists l, ppn_run fuel s = Ok (l, true) /\ Z.of_nat (length l) <= pp_measure s.
Proof.
  induction fuel; intros s I M.
  - exfalso. destruct I as (I1 & I2 & I3 & _). unfold pp_measure in M. destruct (pp_count s =? 0); lia.
  - cbn [ppn_run]. destruct (ppn_next_ok s I) as [E|(v & s' & E & I' & M' & _)]; rewrite E; cbn [rbind].
    + exists []. split; [reflexivity|]. cbn. destruct I as (I1 & I2 & I3 & _). unfold pp_measure. destruct (pp_count s =? 0); lia.
    + destruct (IHfuel s' I' ltac:(lia)) as (l & R & L). rewrite R. cbn [rbind fst snd].
      exists (v :: l). split; [reflexivity|]. cbn [length]. lia.
Qed.
Lemma ppn_run_total : forall fuel s, pp_inv s -> ppn_run fuel s <> Panic.
Proof.
  induction fuel; intros s I; cbn [ppn_run]; [discriminate|].
  destruct (ppn_next_ok s I) as [E|(v & s' & E & I' & _)]; rewrite E; cbn [rbind]; [discriminate|].
  pose proof (IHfuel s' I'). destruct (ppn_run fuel s'); cbn [rbind]; congruence.
Qed.
Lemma ppn_iter_inv d : bytes d -> pp_inv (ppn_iter d).
Proof.
  intros Hb. unfold ppn_iter. pose proof (ppn_count_bytes_range d Hb) as [R1 R2].
  destruct (ppn_count_bytes d) as [np nb]. cbn [fst snd] in *. unfold pp_inv. cbn.
  repeat split; try lia; auto. unfold sat_add. usz. lia.
Qed.

(* ---------- PackedDeltas ---------- *)
Lemma delta_size_range ctl : 0 <= delta_size ctl <= 4.
Proof. unfold delta_size. destruct (bit ctl 128), (bit ctl 64); lia. Qed.

Lemma count_deltas_loop_ok : forall fuel d count offset, bytes d -> blen d <= ISIZE_MAX -> 0 <= offset -> 0 <= count ->
  count + 64 * Z.of_nat fuel <= USIZE_MAX ->
  exists r, count_deltas_loop fuel d count offset = Ok r /\ count <= r <= count + 64 * Z.of_nat fuel.
Proof.
  induction fuel; intros d count offset Hb Hv Ho Hc Hm; cbn [count_deltas_loop].
  - eexists. split; [reflexivity|lia].
  - destruct (read_at 1 d offset) eqn:R; try (eexists; split; [reflexivity|lia]).
    pose proof (read_at_value_range 1 d offset a Hb Ho ltac:(lia) R) as V.
    apply read_at_ok_inv in R; try lia. destruct R as [R _].
    pose proof (land63 a ltac:(lia)) as L. pose proof (delta_size_range a) as S.
    unfold add_chk at 1. replace (count + (Z.land a 63 + 1) <=? USIZE_MAX) with true by (symmetry; apply Z.leb_le; lia). cbn [rbind].
    unfold mul_chk. replace ((Z.land a 63 + 1) * delta_size a <=? USIZE_MAX) with true by (symmetry; apply Z.leb_le; usz; nia). cbn [rbind].
    unfold add_chk. replace ((Z.land a 63 + 1) * delta_size a + 1 <=? USIZE_MAX) with true by (symmetry; apply Z.leb_le; usz; nia). cbn [rbind].
    replace (offset + ((Z.land a 63 + 1) * delta_size a + 1) <=? USIZE_MAX) with true by (symmetry; apply Z.leb_le; usz; nia). cbn [rbind].
    destruct (IHfuel d (count + (Z.land a 63 + 1)) (offset + ((Z.land a 63 + 1) * delta_size a + 1)) Hb Hv ltac:(nia) ltac:(lia) ltac:(lia))
      as (r & E & B).
    exists r. split; [exact E|lia].
Qed.
(* count_all_deltas: total, and at most 64 values per input byte (+64) *)
Lemma count_all_deltas_ok d : bytes d -> blen d <= 2 ^ 56 -> exists r, count_all_deltas d = Ok r /\ 0 <= r <= 64 * (blen d + 1).
Proof.
  intros Hb Hl. unfold count_all_deltas.
  destruct (count_deltas_loop_ok (S (length d)) d 0 0 Hb) as (r & E & B); try lia.
  - usz. change (2 ^ 56) with 72057594037927936 in Hl. lia.
  - usz. change (2 ^ 56) with 72057594037927936 in Hl. unfold blen in Hl. lia.
  - exists r. split; [exact E|]. unfold blen. lia.
Qed.

Definition di_inv (s : diter) : Prop := 0 <= di_limit s /\ 0 <= di_rem s /\ 0 <= di_size s <= 4.
Lemma delta_value_ok limit rem sz c : 0 <= limit -> 1 <= rem -> 0 <= sz <= 4 ->
  delta_value limit rem sz c = Ok None \/
  exists v s', delta_value limit rem sz c = Ok (Some (v, s')) /\ di_inv s' /\ di_limit s' = limit.
Proof.
  intros Hl Hr Hs. unfold delta_value, sub_chk. replace (1 <=? rem) with true by (symmetry; apply Z.leb_le; lia). cbn [rbind].
  destruct (sz =? 0).
  - right. eexists _, _. split; [reflexivity|]. unfold di_inv. cbn [di_limit di_rem di_size]. repeat split; lia.
  - unfold c_read. destruct (read_at sz (cdata c) (cpos c)); try (left; reflexivity).
    right. eexists _, _. split; [reflexivity|]. unfold di_inv. cbn [di_limit di_rem di_size]. repeat split; lia.
Qed.
Lemma delta_next_ok s : di_inv s ->
  delta_next s = Ok None \/ exists v s', delta_next s = Ok (Some (v, s')) /\ di_inv s' /\ di_limit s' = di_limit s - 1.
Proof.
  intros (I1 & I2 & I3). unfold delta_next. destruct (di_limit s =? 0) eqn:L0; [left; reflexivity|]. apply Z.eqb_neq in L0.
  unfold sub_chk. replace (1 <=? di_limit s) with true by (symmetry; apply Z.leb_le; lia). cbn [rbind].
  destruct (di_rem s =? 0) eqn:R0.
  - unfold c_read. destruct (read_at 1 (cdata (di_cur s)) (cpos (di_cur s))) eqn:R; try (left; reflexivity).
    apply delta_value_ok; [lia| |apply delta_size_range].
    assert (0 <= Z.land a 63); [|lia].
    apply Z.land_nonneg. right. lia.
  - apply Z.eqb_neq in R0. apply delta_value_ok; lia.
Qed.
(* iter(): never panics and yields at most `limit` values: ends within limit+1 calls *)
Lemma delta_run_ok : forall fuel s, di_inv s -> di_limit s < Z.of_nat fuel ->
  exists l, delta_run fuel s = Ok (l, true) /\ Z.of_nat (length l) <= di_limit s.
Proof.
  induction fuel; intros s I M; [destruct I; lia|].
  cbn [delta_run]. destruct (delta_next_ok s I) as [E|(v & s' & E & I' & L')]; rewrite E; cbn [rbind].
  - exists []. split; [reflexivity|]. cbn. destruct I; lia.
  - destruct (IHfuel s' I' ltac:(lia)) as (l & R & L). rewrite R. cbn [rbind fst snd].
    exists (v :: l). split; [reflexivity|]. cbn [length]. lia.
Qed.
Lemma delta_run_total : forall fuel s, di_inv s -> delta_run fuel s <> Panic.
Proof.
  induction fuel; intros s I; cbn [delta_run]; [discriminate|].
  destruct (delta_next_ok s I) as [E|(v & s' & E & I' & _)]; rewrite E; cbn [rbind]; [discriminate|].
  pose proof (IHfuel s' I'). destruct (delta_run fuel s'); cbn [rbind]; congruence.
Qed.
