(* C01 — lemmas about the core-reader model (coq/C01/Model.v): slices, read_at / read_array specs,
   cursor monotonicity, totality (no [Panic]) of every modelled operation. *)
From Coq Require Import ZArith List Bool Lia.
From FV Require Import Lib.RustInt C01.Model.
Import ListNotations.
Open Scope Z_scope.

(* a byte string as Rust can hold it: every element a byte, length <= isize::MAX *)
Definition bytes (d : list Z) : Prop := Forall is_byte d.
Definition valid (d : list Z) : Prop := bytes d /\ blen d <= ISIZE_MAX.
Definition usize (z : Z) : Prop := 0 <= z <= USIZE_MAX.

Lemma blen_nonneg d : 0 <= blen d.
Proof. unfold blen. lia. Qed.

Lemma usize_max_val : USIZE_MAX = 18446744073709551615. Proof. reflexivity. Qed.
Lemma isize_max_val : ISIZE_MAX = 9223372036854775807. Proof. reflexivity. Qed.

(* ---------- sub-slices ---------- *)
Lemma Forall_firstn {A} (P : A -> Prop) n l : Forall P l -> Forall P (firstn n l).
Proof.
  revert l. induction n; intros l H; cbn; [constructor|].
  destruct l; [constructor|]. inversion H; subst. constructor; auto.
Qed.
Lemma Forall_skipn {A} (P : A -> Prop) n l : Forall P l -> Forall P (skipn n l).
Proof.
  revert l. induction n; intros l H; cbn; [exact H|].
  destruct l; [constructor|]. inversion H; subst. auto.
Qed.
Lemma sub_bytes d a b : bytes d -> bytes (sub d a b).
Proof. intros H. unfold sub, bytes. apply Forall_firstn, Forall_skipn, H. Qed.

Lemma sub_length d a b : 0 <= a -> a <= b -> b <= blen d -> blen (sub d a b) = b - a.
Proof.
  intros Ha Hab Hb. unfold sub, blen in *.
  rewrite firstn_length, skipn_length. lia.
Qed.

Lemma get_range_some d a b s :
  get_range d a b = Some s -> a <= b /\ b <= blen d /\ s = sub d a b.
Proof.
  unfold get_range. destruct (a <=? b) eqn:E1; destruct (b <=? blen d) eqn:E2; cbn; try discriminate.
  intros H. inversion H. repeat split; lia.
Qed.
Lemma get_range_ok d a b : a <= b -> b <= blen d -> get_range d a b = Some (sub d a b).
Proof.
  intros H1 H2. unfold get_range.
  replace (a <=? b) with true by (symmetry; apply Z.leb_le; lia).
  replace (b <=? blen d) with true by (symmetry; apply Z.leb_le; lia). reflexivity.
Qed.
Lemma get_range_none d a b : get_range d a b = None -> b < a \/ blen d < b.
Proof.
  unfold get_range. destruct (a <=? b) eqn:E1; destruct (b <=? blen d) eqn:E2; cbn; try discriminate; lia.
Qed.

Lemma checked_add_some a b c : checked_add a b = Some c -> c = a + b /\ a + b <= USIZE_MAX.
Proof. unfold checked_add. destruct (a + b <=? USIZE_MAX) eqn:E; [|discriminate]. intros H; inversion H. lia. Qed.
Lemma checked_add_none a b : checked_add a b = None -> USIZE_MAX < a + b.
Proof. unfold checked_add. destruct (a + b <=? USIZE_MAX) eqn:E; [discriminate|]. lia. Qed.
Lemma checked_mul_some a b c : checked_mul a b = Some c -> c = a * b /\ a * b <= USIZE_MAX.
Proof. unfold checked_mul. destruct (a * b <=? USIZE_MAX) eqn:E; [|discriminate]. intros H; inversion H. lia. Qed.

(* ---------- read_at ---------- *)
Lemma read_at_total w d off : read_at w d off <> Panic.
Proof.
  unfold read_at. destruct (checked_add off w); [|discriminate].
  destruct (get_range d off z); [|discriminate].
  unfold ok_or. destruct (scalar_read w l); discriminate.
Qed.

(* Ok iff offset + width <= len; the value is the big-endian integer of those bytes *)
Lemma read_at_spec w d off : 0 <= off -> 0 <= w -> blen d <= USIZE_MAX ->
  (off + w <= blen d -> read_at w d off = Ok (from_be (sub d off (off + w)))) /\
  (blen d < off + w -> read_at w d off = Err OutOfBounds).
Proof.
  intros Ho Hw Hd. split; intros H; unfold read_at, checked_add.
  - replace (off + w <=? USIZE_MAX) with true by (symmetry; apply Z.leb_le; lia).
    rewrite get_range_ok by lia. unfold scalar_read. rewrite sub_length by lia.
    replace (off + w - off =? w) with true by (symmetry; apply Z.eqb_eq; lia). reflexivity.
  - destruct (off + w <=? USIZE_MAX) eqn:E; [|reflexivity].
    destruct (get_range d off (off + w)) eqn:G; [|reflexivity].
    apply get_range_some in G. lia.
Qed.
Lemma read_at_ok_inv w d off v : 0 <= off -> 0 <= w -> read_at w d off = Ok v ->
  off + w <= blen d /\ v = from_be (sub d off (off + w)).
Proof.
  intros Ho Hw. unfold read_at. destruct (checked_add off w) eqn:C; [|discriminate].
  apply checked_add_some in C. destruct C as [-> C].
  destruct (get_range d off (off + w)) eqn:G; [|discriminate].
  apply get_range_some in G. destruct G as (G1 & G2 & ->).
  unfold scalar_read. rewrite sub_length by lia.
  replace (off + w - off =? w) with true by (symmetry; apply Z.eqb_eq; lia).
  cbn. intros H; inversion H. split; [lia|reflexivity].
Qed.
Lemma read_at_err w d off e : read_at w d off = Err e -> e = OutOfBounds.
Proof.
  unfold read_at. destruct (checked_add off w); [|intros H; inversion H; reflexivity].
  destruct (get_range d off z); [|intros H; inversion H; reflexivity].
  unfold ok_or. destruct (scalar_read w l); intros H; inversion H; reflexivity.
Qed.
Lemma from_be_sub_range d a b : bytes d -> 0 <= a -> a <= b -> b <= blen d ->
  0 <= from_be (sub d a b) < 256 ^ (b - a).
Proof.
  intros Hb Ha Hab Hbl. pose proof (from_be_bound (sub d a b) (sub_bytes d a b Hb)) as H.
  pose proof (sub_length d a b Ha Hab Hbl) as L. unfold blen in L. rewrite L in H. exact H.
Qed.
Lemma read_at_value_range w d off v : bytes d -> 0 <= off -> 0 <= w -> read_at w d off = Ok v ->
  0 <= v < 256 ^ w.
Proof.
  intros Hb Ho Hw H. apply read_at_ok_inv in H; try lia. destruct H as [H ->].
  pose proof (from_be_sub_range d off (off + w) Hb Ho ltac:(lia) H) as R.
  replace (off + w - off) with w in R by lia. exact R.
Qed.

Lemma read_ref_at_total w d off : read_ref_at w d off <> Panic.
Proof. unfold read_ref_at. destruct (checked_add off w); [|discriminate]. destruct (get_range d off z); discriminate. Qed.

(* ---------- read_array ---------- *)
Lemma read_array_total esz d a b : read_array esz d a b <> Panic.
Proof.
  unfold read_array. destruct (get_range d a b) as [s|]; [|discriminate].
  unfold checked_rem, cast_slice. destruct (esz =? 0) eqn:E; cbn; [discriminate|].
  destruct (blen s mod esz =? 0) eqn:M; cbn; discriminate.
Qed.
(* Ok iff the range is in bounds and its length is a multiple of the (non-zero) element size;
   the result is exactly those bytes *)
Lemma read_array_spec esz d a b : 0 <= a ->
  (a <= b /\ b <= blen d /\ esz <> 0 /\ (b - a) mod esz = 0 -> read_array esz d a b = Ok (sub d a b)) /\
  (b < a \/ blen d < b -> read_array esz d a b = Err OutOfBounds) /\
  (a <= b /\ b <= blen d /\ (esz = 0 \/ (b - a) mod esz <> 0) -> read_array esz d a b = Err InvalidArrayLen).
Proof.
  intros Ha. unfold read_array. repeat split.
  - intros (H1 & H2 & H3 & H4). rewrite get_range_ok by lia. unfold checked_rem, cast_slice.
    rewrite sub_length by lia.
    replace (esz =? 0) with false by (symmetry; apply Z.eqb_neq; lia).
    rewrite H4. reflexivity.
  - intros H. destruct (get_range d a b) eqn:G; [|reflexivity]. apply get_range_some in G. lia.
  - intros (H1 & H2 & H3). rewrite get_range_ok by lia. unfold checked_rem. rewrite sub_length by lia.
    destruct (esz =? 0) eqn:E; [reflexivity|]. apply Z.eqb_neq in E.
    destruct H3 as [H3|H3]; [lia|].
    replace ((b - a) mod esz =? 0) with false by (symmetry; apply Z.eqb_neq; lia). reflexivity.
Qed.
Lemma read_array_ok_inv esz d a b s : 0 <= a -> read_array esz d a b = Ok s ->
  a <= b /\ b <= blen d /\ esz <> 0 /\ (b - a) mod esz = 0 /\ s = sub d a b.
Proof.
  intros Ha. unfold read_array. destruct (get_range d a b) eqn:G; [|discriminate].
  apply get_range_some in G. destruct G as (G1 & G2 & ->).
  unfold checked_rem, cast_slice. rewrite sub_length by lia.
  destruct (esz =? 0) eqn:E; cbn; [discriminate|]. apply Z.eqb_neq in E.
  destruct ((b - a) mod esz =? 0) eqn:M; cbn; [|discriminate]. apply Z.eqb_eq in M.
  intros H; inversion H. repeat split; auto.
Qed.

(* ---------- slice / split_off / take_up_to ---------- *)
Lemma fd_split_off_spec d p : 0 <= p ->
  (p <= blen d -> fd_split_off d p = Some (skipn (Z.to_nat p) d)) /\ (blen d < p -> fd_split_off d p = None).
Proof.
  intros Hp. unfold fd_split_off, get_from. split; intros H.
  - rewrite get_range_ok by lia. unfold sub. f_equal.
    apply firstn_all2. rewrite skipn_length. unfold blen. lia.
  - destruct (get_range d p (blen d)) eqn:G; [|reflexivity]. apply get_range_some in G. lia.
Qed.
Lemma fd_split_off_some d p s : 0 <= p -> fd_split_off d p = Some s -> p <= blen d /\ blen s = blen d - p.
Proof.
  intros Hp H. unfold fd_split_off, get_from in H. apply get_range_some in H. destruct H as (H1 & H2 & ->).
  split; [lia|]. apply sub_length; lia.
Qed.

(* ---------- cursor ---------- *)
Definition cop_wf (op : cop) : Prop :=
  match op with
  | OpAdvance w | OpAdvanceBy w | OpRead w | OpReadWithArgs w => 0 <= w
  | OpReadArray n esz | OpReadComputedArray n esz => 0 <= n /\ 0 <= esz
  | _ => True
  end.

Lemma sat_add_ge a b : 0 <= b -> a <= USIZE_MAX -> a <= sat_add a b <= USIZE_MAX.
Proof. unfold sat_add. rewrite usize_max_val. lia. Qed.

Lemma read_n_mono n : forall acc c, 0 <= cpos c <= USIZE_MAX ->
  cpos c <= cpos (fst (read_n n acc c)) <= USIZE_MAX /\ cdata (fst (read_n n acc c)) = cdata c.
Proof.
  induction n; intros acc c H; cbn [read_n fst]; [split; [lia|reflexivity]|].
  unfold c_read. pose proof (sat_add_ge (cpos c) 1 ltac:(lia) ltac:(lia)) as S.
  destruct (read_at 1 (cdata c) (cpos c)); cbn [fst c_advance cpos cdata].
  - specialize (IHn (acc * 256 + a) (c_advance 1 c)). cbn [c_advance cpos cdata] in IHn.
    destruct IHn as [I1 I2]; [lia|]. split; [lia|exact I2].
  - split; [lia|reflexivity].
  - split; [lia|reflexivity].
Qed.
Lemma read_n_total n : forall acc c, snd (read_n n acc c) <> Panic.
Proof.
  induction n; intros acc c; cbn [read_n snd]; [discriminate|].
  unfold c_read. pose proof (read_at_total 1 (cdata c) (cpos c)) as T.
  destruct (read_at 1 (cdata c) (cpos c)); cbn; [apply IHn|discriminate|congruence].
Qed.

Lemma c_read_u32_var_mono c : 0 <= cpos c <= USIZE_MAX ->
  cpos c <= cpos (fst (c_read_u32_var c)) <= USIZE_MAX /\ cdata (fst (c_read_u32_var c)) = cdata c.
Proof.
  intros H. unfold c_read_u32_var, c_read.
  pose proof (sat_add_ge (cpos c) 1 ltac:(lia) ltac:(lia)) as S.
  assert (R : forall n acc, cpos c <= cpos (fst (read_n n acc (c_advance 1 c))) <= USIZE_MAX
                            /\ cdata (fst (read_n n acc (c_advance 1 c))) = cdata c).
  { intros n acc. pose proof (read_n_mono n acc (c_advance 1 c)) as Q. cbn [c_advance cpos cdata] in Q.
    destruct Q as [Q1 Q2]; [lia|]. split; [lia|exact Q2]. }
  destruct (read_at 1 (cdata c) (cpos c)); cbn [fst c_advance cpos cdata]; try (split; [lia|reflexivity]).
  repeat match goal with |- context [if ?b then _ else _] => destruct b end;
    try apply R; cbn [fst c_advance cpos cdata]; split; try lia; reflexivity.
Qed.
Lemma c_read_u32_var_total c : snd (c_read_u32_var c) <> Panic.
Proof.
  unfold c_read_u32_var, c_read. pose proof (read_at_total 1 (cdata c) (cpos c)) as T.
  destruct (read_at 1 (cdata c) (cpos c)); cbn [snd]; try discriminate; try congruence.
  repeat match goal with |- context [if ?b then _ else _] => destruct b end;
    try apply read_n_total; cbn; discriminate.
Qed.

(* one step: the position never decreases, stays a usize, the data is unchanged, no panic *)
Lemma cstep_mono op c : cop_wf op -> 0 <= cpos c <= USIZE_MAX ->
  cpos c <= cpos (fst (cstep op c)) <= USIZE_MAX /\ cdata (fst (cstep op c)) = cdata c.
Proof.
  intros W H. destruct op; cbn [cstep cop_wf] in *.
  - cbn. pose proof (sat_add_ge (cpos c) w W ltac:(lia)). split; [lia|reflexivity].
  - cbn. pose proof (sat_add_ge (cpos c) n W ltac:(lia)). split; [lia|reflexivity].
  - cbn. pose proof (sat_add_ge (cpos c) w W ltac:(lia)). split; [lia|reflexivity].
  - unfold c_read_array. destruct (checked_mul n esz) eqn:M; [|cbn; split; [lia|reflexivity]].
    apply checked_mul_some in M. destruct M as [-> M].
    destruct (checked_add (cpos c) (n * esz)) eqn:A; [|cbn; split; [lia|reflexivity]].
    cbn. pose proof (sat_add_ge (cpos c) (n * esz) ltac:(nia) ltac:(lia)). split; [lia|reflexivity].
  - unfold c_read_with_args. destruct (checked_add (cpos c) len) eqn:A; [|cbn; split; [lia|reflexivity]].
    cbn. pose proof (sat_add_ge (cpos c) len W ltac:(lia)). split; [lia|reflexivity].
  - unfold c_read_computed_array, c_read_with_args. destruct (checked_mul n isz) eqn:M; [|cbn; split; [lia|reflexivity]].
    apply checked_mul_some in M. destruct M as [-> M].
    destruct (checked_add (cpos c) (n * isz)) eqn:A; [|cbn; split; [lia|reflexivity]].
    cbn. pose proof (sat_add_ge (cpos c) (n * isz) ltac:(nia) ltac:(lia)). split; [lia|reflexivity].
  - pose proof (c_read_u32_var_mono c H) as Q. destruct (c_read_u32_var c). cbn in *. exact Q.
  - cbn. split; [lia|reflexivity].
  - cbn. split; [lia|reflexivity].
  - cbn. split; [lia|reflexivity].
  - cbn. split; [lia|reflexivity].
Qed.

Lemma check_in_bounds_total d p : check_in_bounds d p <> Panic.
Proof. unfold check_in_bounds. destruct (get_to d p); discriminate. Qed.

Lemma cstep_total op c : snd (cstep op c) <> Panic.
Proof.
  destruct op; cbn [cstep]; try (cbn; discriminate).
  - unfold c_read. cbn. pose proof (read_at_total w (cdata c) (cpos c)).
    destruct (read_at w (cdata c) (cpos c)); cbn; congruence.
  - unfold c_read_array. destruct (checked_mul n esz); [|cbn; discriminate].
    destruct (checked_add (cpos c) z); [|cbn; discriminate]. cbn. apply read_array_total.
  - unfold c_read_with_args. destruct (checked_add (cpos c) len); [|cbn; discriminate].
    cbn. destruct (get_range (cdata c) (cpos c) z); cbn; discriminate.
  - unfold c_read_computed_array, c_read_with_args. destruct (checked_mul n isz); [|cbn; discriminate].
    destruct (checked_add (cpos c) z); [|cbn; discriminate].
    cbn. destruct (get_range (cdata c) (cpos c) z0); cbn; discriminate.
  - pose proof (c_read_u32_var_total c) as T. destruct (c_read_u32_var c) as [c1 r]. cbn in *.
    destruct r; cbn; congruence.
  - unfold c_position. pose proof (check_in_bounds_total (cdata c) (cpos c)).
    destruct (check_in_bounds (cdata c) (cpos c)); cbn; congruence.
  - unfold c_remaining. destruct (fd_split_off (cdata c) (cpos c)); cbn; discriminate.
Qed.

(* any sequence of cursor operations with usize arguments *)
Lemma crun_mono ops : forall c, Forall cop_wf ops -> 0 <= cpos c <= USIZE_MAX ->
  cpos c <= cpos (fst (crun ops c)) <= USIZE_MAX /\ cdata (fst (crun ops c)) = cdata c
  /\ Forall (fun o => o <> Panic) (snd (crun ops c)).
Proof.
  induction ops as [|op r IH]; intros c W H; cbn [crun].
  - cbn. repeat split; try lia. constructor.
  - inversion W; subst. pose proof (cstep_mono op c H2 H) as S. pose proof (cstep_total op c) as T.
    destruct (cstep op c) as [c1 o]. cbn [fst snd] in *.
    destruct S as [S1 S2]. specialize (IH c1 H3 ltac:(lia)).
    destruct (crun r c1) as [c2 os]. cbn [fst snd] in *. destruct IH as (I1 & I2 & I3).
    repeat split; try lia; [congruence|]. constructor; assumption.
Qed.

(* finish succeeds iff the position is within the data *)
Lemma c_finish_iff c : 0 <= cpos c -> (c_finish c = Ok tt <-> cpos c <= blen (cdata c)).
Proof.
  intros H. unfold c_finish, check_in_bounds, get_to. split.
  - destruct (get_range (cdata c) 0 (cpos c)) eqn:G; [|discriminate]. apply get_range_some in G. lia.
  - intros L. rewrite get_range_ok by lia. reflexivity.
Qed.
Lemma c_finish_err c : 0 <= cpos c -> blen (cdata c) < cpos c -> c_finish c = Err OutOfBounds.
Proof.
  intros H L. unfold c_finish, check_in_bounds, get_to.
  destruct (get_range (cdata c) 0 (cpos c)) eqn:G; [|reflexivity]. apply get_range_some in G. lia.
Qed.
(* saturation cannot fake success: a saturated position is beyond every valid buffer *)
Lemma saturated_finish_fails c : blen (cdata c) <= ISIZE_MAX -> cpos c = USIZE_MAX -> c_finish c = Err OutOfBounds.
Proof. intros V P. apply c_finish_err; rewrite P; rewrite usize_max_val; [lia|]. rewrite isize_max_val in V. lia. Qed.

(* ---------- offsets ---------- *)
Lemma resolve_offset_total o d : resolve_offset o d <> Panic.
Proof.
  unfold resolve_offset, non_null. destruct (o =? 0); cbn; [discriminate|].
  destruct (fd_split_off d o); cbn; discriminate.
Qed.
Lemma resolve_offset_spec o d : 0 <= o ->
  (o = 0 -> resolve_offset o d = Err NullOffset) /\
  (0 < o <= blen d -> resolve_offset o d = Ok (skipn (Z.to_nat o) d)) /\
  (blen d < o -> resolve_offset o d = Err OutOfBounds).
Proof.
  intros Ho. unfold resolve_offset, non_null. repeat split; intros H.
  - subst. reflexivity.
  - replace (o =? 0) with false by (symmetry; apply Z.eqb_neq; lia). cbn.
    destruct (fd_split_off_spec d o Ho) as [S _]. rewrite S by lia. reflexivity.
  - replace (o =? 0) with false by (symmetry; apply Z.eqb_neq; pose proof (blen_nonneg d); lia). cbn.
    destruct (fd_split_off_spec d o Ho) as [_ S]. rewrite S by lia. reflexivity.
Qed.
Lemma resolve_nullable_total o d : resolve_nullable o d <> Some Panic.
Proof.
  unfold resolve_nullable. pose proof (resolve_offset_total o d).
  destruct (resolve_offset o d) as [|e|]; try discriminate; [|congruence]. destruct e; discriminate.
Qed.
