(* C01 — non-vacuity examples *)
From Coq Require Import ZArith List.
From FV Require Import Lib.RustInt C01.Model C01.Proofs.
Import ListNotations.
Open Scope Z_scope.

Example read_at_ok : read_at 2 [1; 2; 3] 1 = Ok 515.
Proof. reflexivity. Qed.
