(* C01 — non-vacuity examples for the hypotheses of Props.v, and the unsorted-directory witness *)
From Coq Require Import ZArith List Bool Lia.
From FV Require Import Lib.RustInt C01.Model C01.Proofs.
Import ListNotations.
Open Scope Z_scope.

Lemma small_valid d : forallb (fun b => (0 <=? b) && (b <? 256)) d = true -> blen d <= 1000 -> valid d.
Proof.
  intros H L. split; [|rewrite isize_max_val; lia].
  apply Forall_forall. intros x Hx. rewrite forallb_forall in H. specialize (H x Hx).
  apply andb_prop in H. destruct H as [H1 H2]. unfold is_byte. lia.
Qed.

(* a two-table TrueType font: 'AAAA' -> [44,48), 'BBBB' -> [48,50) *)
Definition font2 : list Z :=
  [0;1;0;0; 0;2; 0;0;0;0;0;0;
   65;65;65;65; 0;0;0;0; 0;0;0;44; 0;0;0;4;
   66;66;66;66; 0;0;0;0; 0;0;0;48; 0;0;0;2;
   1;2;3;4; 9;8].
Example font2_valid : valid font2.
Proof. apply small_valid; [reflexivity|vm_compute; discriminate]. Qed.
Example font2_opens : exists f, fontref_new font2 = Ok f /\
  table_data f 1094795585 = Ok (Some [1;2;3;4]) /\ table_data f 1111638594 = Ok (Some [9;8]) /\
  table_data f 1128481603 = Ok None.
Proof. eexists. split; [reflexivity|]. repeat split; reflexivity. Qed.

(* the same records in the opposite (unsorted) order: 'BBBB' is present but the search misses it;
   'AAAA' is still found.  This is what c01_table_data_sound allows and c01_table_data_complete_sorted excludes *)
Definition font2_unsorted : list Z :=
  [0;1;0;0; 0;2; 0;0;0;0;0;0;
   66;66;66;66; 0;0;0;0; 0;0;0;48; 0;0;0;2;
   65;65;65;65; 0;0;0;0; 0;0;0;44; 0;0;0;4;
   1;2;3;4; 9;8].
Example unsorted_directory_misses : exists f, fontref_new font2_unsorted = Ok f /\
  (exists recs r, td_table_records (fr_dir f) = Ok recs /\ nthz recs 0 = Some r /\ rec_tag r = 1111638594) /\
  table_data f 1111638594 = Ok None /\ table_data f 1094795585 = Ok (Some [1;2;3;4]).
Proof. eexists. split; [reflexivity|]. split; [eexists; eexists; repeat split; reflexivity|]. split; reflexivity. Qed.

(* offset + length overflowing u32 range / out of bounds: None, not a panic *)
Definition font_bad_len : list Z :=
  [0;1;0;0; 0;1; 0;0;0;0;0;0;
   65;65;65;65; 0;0;0;0; 255;255;255;255; 255;255;255;255].
Example bad_len_is_none : exists f, fontref_new font_bad_len = Ok f /\ table_data f 1094795585 = Ok None.
Proof. eexists. split; reflexivity. Qed.
(* a truncated directory is rejected by finish (num_tables says 2, only one record present) *)
Example truncated_directory_rejected : fontref_new (firstn 28 font2) = Err OutOfBounds.
Proof. reflexivity. Qed.

(* a cursor program satisfying the hypotheses of c01_cursor_monotone / c01_cursor_total, with a saturating step *)
Example cursor_program :
  let ops := [OpAdvance 4; OpRead 2; OpReadArray 2 2; OpPosition; OpAdvanceBy USIZE_MAX; OpPosition; OpRemainingBytes] in
  Forall cop_wf ops /\
  snd (crun ops (cursor0 font2)) = [Ok []; Ok [2]; Ok [0;0;0;0]; Ok [10]; Ok []; Err OutOfBounds; Ok [0]] /\
  cpos (fst (crun ops (cursor0 font2))) = USIZE_MAX /\ c_finish (fst (crun ops (cursor0 font2))) = Err OutOfBounds.
Proof. cbv zeta. split; [repeat constructor; cbn; rewrite ?usize_max_val; lia|]. repeat split; reflexivity. Qed.

(* read_u32_var (IFT varint): 1..5 byte encodings *)
Example u32_var_examples :
  snd (c_read_u32_var (cursor0 [127])) = Ok 127 /\ snd (c_read_u32_var (cursor0 [129; 2])) = Ok 258 /\
  snd (c_read_u32_var (cursor0 [240; 1; 2; 3; 4])) = Ok 16909060 /\ snd (c_read_u32_var (cursor0 [193; 2])) = Err OutOfBounds.
Proof. repeat split; reflexivity. Qed.

(* INDEX with two objects "ab" and "c" (off_size 1) *)
Definition index1 : list Z := [0;2; 1; 1;3;4; 97;98;99].
Example index1_valid : valid index1.
Proof. apply small_valid; [reflexivity|vm_compute; discriminate]. Qed.
Example index1_gets : exists x, index_read 2 index1 = Ok x /\ index_get x 0 = Ok [97;98] /\ index_get x 1 = Ok [99] /\
  index_get x 2 = Err OutOfBounds /\ index_get x USIZE_MAX = Err OutOfBounds.
Proof. eexists. split; [reflexivity|]. repeat split; reflexivity. Qed.
Example index_zero_offset : exists x, index_read 2 [0;1; 1; 0;2; 97] = Ok x /\ index_get x 0 = Err ZeroOffsetInIndex.
Proof. eexists. split; reflexivity. Qed.

(* VarLenArray of Pascal strings: "ab", "", "c" *)
Example varlen_pstrings :
  varlen_iter (read_len_at_default 1) 8 [2;97;98; 0; 1;99] = ([[2;97;98]; [0]; [1;99]], true) /\
  varlen_get (read_len_at_default 1) [2;97;98; 0; 1;99] 2 = Some [1;99] /\
  varlen_get_fast (read_len_at_default 1) [2;97;98; 0; 1;99] USIZE_MAX = None.
Proof. repeat split; reflexivity. Qed.
(* ComputedArray with item_len 0 has no items; with item_len 4 over 9 bytes has 2 *)
Example computed_examples : ca_len (computed_new 0 [1;2;3]) = 0 /\ ca_len (computed_new 4 [1;2;3;4;5;6;7;8;9]) = 2 /\
  fst (computed_iter 10 (computed_new 4 [1;2;3;4;5;6;7;8;9]) 0) = [[1;2;3;4;5;6;7;8;9]; [5;6;7;8;9]].
Proof. repeat split; reflexivity. Qed.

(* ---- round 2 helpers (ModelH) ---- *)
From FV Require Import C01.ModelH.
(* 3 points: flag 0x37 (on-curve, x/y short positive) repeated twice more via REPEAT: [0x3F; 2] then 3 x bytes, 3 y bytes *)
Example read_points_fast_example :
  read_points_fast 3 [63; 2; 5; 6; 7; 1; 2; 3] [0;0;0] = Ok [5;1;1; 11;3;1; 18;6;1] /\
  read_points_fast 3 [63] [0;0;0] = Err OutOfBounds /\
  read_points_fast 300 [57; 255; 57; 255] (repeat 0 300) = Ok (flat_map (fun _ => [0;0;1]) (repeat 0 300)).
Proof. split; [|split]; vm_compute; reflexivity. Qed.
Example points_iter_example : exists it, points_iter (Some 2) [63; 2; 5; 6; 7; 1; 2; 3] = Ok it /\
  piter_run 10 it = Ok ([5;1;1; 11;3;1; 18;6;1], true).
Proof. eexists. split. { vm_compute. reflexivity. } vm_compute. reflexivity. Qed.
(* packed point numbers: count 3, one run of 3 one-byte deltas 1,2,3 -> points 1,3,6; remainder 1 byte *)
Example packed_points_example : ppn_split_off_front [3; 2; 1; 2; 3; 99] = Ok [99] /\
  ppn_run 10 (ppn_iter [3; 2; 1; 2; 3; 99]) = Ok ([1; 3; 6], true).
Proof. split; vm_compute; reflexivity. Qed.
(* packed deltas: run of 2 bytes (-1, 5), run of 3 zeros, run of 1 word 0x0102 *)
Example packed_deltas_example : packed_deltas_all [1; 255; 5; 130; 64; 1; 2] 20 = Ok (6, ([-1; 5; 0; 0; 0; 258], true)).
Proof. vm_compute. reflexivity. Qed.
(* cmap12: overlapping groups [10..12 -> 5], [11..13 -> 20]: the second group starts at 13 *)
Example cmap12_example :
  let groups := [[0;0;0;10; 0;0;0;12; 0;0;0;5]; [0;0;0;11; 0;0;0;13; 0;0;0;20]] in
  cmap12_take 10 groups None (cmap12_iter_new groups None) = Ok ([10;5; 11;6; 12;7; 13;22], true) /\
  cmap12_take 10 groups (Some (1114111, 7)) (cmap12_iter_new groups (Some (1114111, 7))) = Ok ([10;5; 11;6], true).
Proof. cbv zeta. split; vm_compute; reflexivity. Qed.

(* parse_bcd: "-1.5E-2" ; 31 digits then "E-" (the seeded C01/m4 input): InvalidNumber, not a panic ; 32 digits: accepted *)
Example parse_bcd_examples :
  snd (parse_bcd (cursor0 [225; 165; 194; 255])) = Ok [45; 49; 46; 53; 69; 45; 50] /\
  snd (parse_bcd (cursor0 (repeat 17 15 ++ [28; 95]))) = Err InvalidNumber /\
  (exists s, snd (parse_bcd (cursor0 (repeat 17 16 ++ [255]))) = Ok s /\ blen s = 32) /\
  snd (parse_bcd (cursor0 [17; 17])) = Err OutOfBounds /\ snd (parse_bcd (cursor0 [209])) = Err InvalidNumber.
Proof. split; [|split; [|split; [|split]]]; try (vm_compute; reflexivity). eexists. split; vm_compute; reflexivity. Qed.
