(* C01 part 3, round 5 — Device tables and charstring subroutine nesting.  Only statements, [exact], Print Assumptions. *)
From Coq Require Import ZArith List.
From FV Require Import Lib.RustInt C01.Model C01.Core C01.CsModel C01.CsProofs.
Import ListNotations.
Open Scope Z_scope.

(* layout Device::iter never panics on a table accepted by Device::read, for EVERY u16 deltaFormat: a format other than
   1, 2, 3 gets no delta words (DeltaFormat::value_count = 0), so the `16 / bits` of iter_packed_values with bits = 0 is
   never evaluated *)
Theorem c01_device_iter_total : forall d t, valid d -> device_read d = Ok t -> device_iter t <> Panic.
Proof. exact device_iter_total. Qed.
Theorem c01_device_value_count : forall fmt s e, 0 <= s -> 0 <= e ->
  0 <= device_value_count fmt s e /\ (0 < device_value_count fmt s e -> fmt = 1 \/ fmt = 2 \/ fmt = 3).
Proof. exact device_value_count_pos. Qed.

(* charstring_eval_depth_bounded: for every subroutine graph (local, global, mixed; cyclic or not) and every charstring,
   with the nesting rule applied to BOTH callsubr and callgsubr, a charstring body is only entered at depth <= 10 *)
Theorem c01_charstring_eval_depth_bounded : forall g l fuel data st,
  cs_evaluate g l fuel data = CsOk st -> cs_maxdepth st <= NESTING_DEPTH_LIMIT.
Proof. exact charstring_eval_depth_bounded_lemma. Qed.
Theorem c01_charstring_depth_invariant : forall g l fuel depth bytes st st',
  depth <= NESTING_DEPTH_LIMIT -> cs_maxdepth st <= NESTING_DEPTH_LIMIT ->
  cs_run g l fuel depth bytes st = CsOk st' -> cs_maxdepth st' <= NESTING_DEPTH_LIMIT.
Proof. exact cs_run_depth. Qed.
Theorem c01_charstring_skeleton_total : forall g l fuel depth bytes st, cs_run g l fuel depth bytes st <> CsPanic.
Proof. exact cs_run_total. Qed.

Print Assumptions c01_device_iter_total.
Print Assumptions c01_device_value_count.
Print Assumptions c01_charstring_eval_depth_bounded.
Print Assumptions c01_charstring_depth_invariant.
Print Assumptions c01_charstring_skeleton_total.
