(* C01 part 3, round 6 — model of read-fonts/src/tables/cmap.rs Cmap4::{code_range, lookup_glyph_id} and Cmap4Iter::{new, next}
   over the subtable's arrays (startCode, endCode, idDelta, idRangeOffsets, glyphIdArray).  No proofs here. *)
From Coq Require Import ZArith List Bool.
From FV Require Import Lib.RustInt C01.Model C01.ModelH C01.IterModel C01.CsModel.
Import ListNotations.
Open Scope Z_scope.

Record cmap4 := mkc4 { c4_start : list Z; c4_end : list Z; c4_delta : list Z; c4_roff : list Z; c4_gids : list Z }.
(* code_range(index): start .. end + 1 *)
Definition c4_code_range (t : cmap4) (i : Z) : option (Z * Z) :=
  match nthz (c4_start t) i, nthz (c4_end t) i with
  | Some s, Some e => Some (s, e + 1)
  | _, _ => None
  end.
(* lookup_glyph_id(codepoint: u16, index, start_code: u16); `codepoint - start_code` is an unchecked u16 subtraction *)
Definition c4_lookup (t : cmap4) (cp index start_code : Z) : res (option Z) :=
  match nthz (c4_delta t) index, nthz (c4_roff t) index with
  | Some d, Some ro =>
      let delta := wrap_s 16 d in
      if ro =? 0 then Ok (Some (wrap_u 16 (cp + delta)))
      else
        rdo diff <- sub_chk cp start_code ;;
        rdo back <- sub_chk (blen (c4_roff t)) index ;;
        let offset := sat_sub (ro / 2 + diff) back in
        match nthz (c4_gids t) offset with
        | None => Ok None
        | Some gid => Ok (if gid =? 0 then None else Some (wrap_u 16 (gid + delta)))
        end
  | _, _ => Ok None
  end.
(* iterator state: cur_range = (s, e), cur_start_code, cur_range_ix *)
Record c4iter := mkc4i { i4_s : Z; i4_e : Z; i4_sc : Z; i4_ix : Z }.
Definition c4_iter_new (t : cmap4) : c4iter :=
  let '(s, e) := match c4_code_range t 0 with Some r => r | None => (0, 0) end in mkc4i s e (wrap_u 16 s) 0.
(* one turn of the `loop` in Cmap4Iter::next: Some (yielded pair or nothing, state) / None = the iterator ended;
   the next segment's range is clamped on BOTH ends to the end of the current one *)
Definition c4_micro (t : cmap4) (st : c4iter) : option (res (option (Z * Z)) * c4iter) :=
  if i4_s st <? i4_e st then
    let cp := i4_s st in
    let st' := mkc4i (cp + 1) (i4_e st) (i4_sc st) (i4_ix st) in
    Some (match c4_lookup t (wrap_u 16 cp) (i4_ix st) (i4_sc st) with
          | Ok (Some g) => Ok (Some (cp, g)) | Ok None => Ok None | Err e => Err e | Panic => Panic end, st')
  else
    match c4_code_range t (i4_ix st + 1) with
    | None => None
    | Some (ns, ne) =>
        let s := Z.max ns (i4_e st) in
        let e := Z.max ne (i4_e st) in
        Some (Ok None, mkc4i s e (wrap_u 16 s) (i4_ix st + 1))
    end.

(* ops 30: args = take :: n :: start[n] ++ end[n] ++ delta[n] ++ roff[n] ++ gids; result = fin :: count :: pairs *)
Fixpoint c4_collect (l : list (res (option (Z * Z)))) (take : nat) : list Z * nat :=
  match l, take with
  | _, O => ([], O)
  | [], _ => ([], take)
  | Ok (Some (c, g)) :: r, S k => let (o, lf) := c4_collect r k in (c :: g :: o, lf)
  | Panic :: _, _ => ([-3], O)
  | _ :: r, _ => c4_collect r take
  end.
Definition eval_op_4 (op : Z) (d : list Z) (args : list Z) : list Z :=
  match op, args with
  | 30, take :: n :: rest =>
      let k := Z.to_nat n in
      let t := mkc4 (firstn k rest) (firstn k (skipn k rest)) (firstn k (skipn (2 * k) rest)) (firstn k (skipn (3 * k) rest)) (skipn (4 * k) rest) in
      let r := iter_run (c4_micro t) (Z.to_nat (65536 + n + 5)) (c4_iter_new t) in
      let (pairs, lf) := c4_collect (fst r) (Z.to_nat take) in
      (if Nat.eqb lf 0 then 0 else 1) :: Z.of_nat (length pairs / 2) :: pairs
  | _, _ => [-999]
  end.
Definition check_case_all4 (c : Z * list Z * list Z * list Z) : bool :=
  let '(op, d, args, result) := c in
  if op <? 30 then check_case_all3 c else zlist_eqb (eval_op_4 op d args) result.
