(* C01 part 3, round 5 — Device::iter totality; charstring nesting depth bound *)
From Coq Require Import ZArith List Bool Lia.
From FV Require Import Lib.RustInt C01.Model C01.Core C01.Tables C01.ModelH C01.ProofsH C01.IterModel C01.CsModel.
Import ListNotations.
Open Scope Z_scope.

Ltac usz := rewrite ?usize_max_val, ?isize_max_val in *.

(* ---------- Device ---------- *)
Lemma delta_format_new_range raw : 0 <= delta_format_new raw <= 4.
Proof. unfold delta_format_new. repeat match goal with |- context [if ?b then _ else _] => destruct b end; lia. Qed.
Lemma device_value_count_pos fmt s e : 0 <= s -> 0 <= e -> 0 <= device_value_count fmt s e /\
  (0 < device_value_count fmt s e -> fmt = 1 \/ fmt = 2 \/ fmt = 3).
Proof.
  intros Hs He. unfold device_value_count.
  destruct (fmt =? 1) eqn:E1; [apply Z.eqb_eq in E1|]. 
  { subst. cbn [Z.eqb]. split; [|auto]. unfold sat_sub. pose proof (Z.div_pos (Z.max (e + 1 - s) 0) 8). pose proof (Z.mod_pos_bound (Z.max (e + 1 - s) 0) 8). lia. }
  destruct (fmt =? 2) eqn:E2; [apply Z.eqb_eq in E2|].
  { subst. cbn [Z.eqb]. split; [|auto]. unfold sat_sub. pose proof (Z.div_pos (Z.max (e + 1 - s) 0) 4). pose proof (Z.mod_pos_bound (Z.max (e + 1 - s) 0) 4). lia. }
  destruct (fmt =? 3) eqn:E3; [apply Z.eqb_eq in E3|].
  { subst. cbn [Z.eqb]. split; [|auto]. unfold sat_sub. pose proof (Z.div_pos (Z.max (e + 1 - s) 0) 2). pose proof (Z.mod_pos_bound (Z.max (e + 1 - s) 0) 2). lia. }
  cbn [Z.eqb]. split; lia.
Qed.

Lemma iter_packed_values_ok raw fmt n : fmt = 1 \/ fmt = 2 \/ fmt = 3 -> iter_packed_values raw fmt n <> Panic.
Proof. intros [H|[H|H]]; subst fmt; unfold iter_packed_values; cbn; discriminate. Qed.
Lemma device_iter_loop_ok words fmt : (words = [] \/ fmt = 1 \/ fmt = 2 \/ fmt = 3) -> forall n dpw, device_iter_loop words fmt n dpw <> Panic.
Proof.
  intros H. induction words as [|w r IH]; intros n dpw; cbn [device_iter_loop]; [discriminate|].
  destruct H as [H|H]; [discriminate|].
  pose proof (iter_packed_values_ok w fmt n H) as P. destruct (iter_packed_values w fmt n); cbn [rbind]; try congruence.
  pose proof (IH (or_intror H) (sat_sub n dpw) dpw) as Q. destruct (device_iter_loop r fmt (sat_sub n dpw) dpw); cbn [rbind]; congruence.
Qed.

(* what Device::read accepted *)
Lemma device_read_ok d t : valid d -> device_read d = Ok t ->
  exists s e raw, read_at 2 d 0 = Ok s /\ read_at 2 d 2 = Ok e /\ read_at 2 d 4 = Ok raw /\ 0 <= s /\ 0 <= e /\
    dv_data t = d /\ 6 + dv_len t <= blen d /\ dv_len t = device_value_count (delta_format_new raw) s e * 2.
Proof.
  intros [Hb Hv] H. unfold device_read, c_read, c_advance, c_advance_by, cursor0 in H. cbn [cpos cdata] in H. cbv beta iota zeta in H.
  destruct (read_at 2 d 0) as [s| |] eqn:R1; cbn [rbind] in H; try discriminate.
  replace (sat_add 0 2) with 2 in H by reflexivity.
  destruct (read_at 2 d 2) as [e| |] eqn:R2; cbn [rbind] in H; try discriminate.
  replace (sat_add 2 2) with 4 in H by reflexivity.
  destruct (read_at 2 d 4) as [raw| |] eqn:R3; cbn [rbind] in H; try discriminate.
  pose proof (read_at_value_range 2 d 0 s Hb ltac:(lia) ltac:(lia) R1) as V1.
  pose proof (read_at_value_range 2 d 2 e Hb ltac:(lia) ltac:(lia) R2) as V2.
  destruct (checked_mul _ 2) as [bl|] eqn:M; cbn [ok_or rbind] in H; try discriminate.
  apply checked_mul_some in M. destruct M as [-> M].
  match type of H with context [c_finish ?c] => destruct (c_finish c) as [[]| |] eqn:F end; cbn [rbind] in H; try discriminate.
  inversion H; subst t; clear H. cbn [dv_data dv_len].
  destruct (device_value_count_pos (delta_format_new raw) s e ltac:(lia) ltac:(lia)) as [C0 _].
  match type of F with c_finish ?c = _ => pose proof (proj1 (c_finish_iff c ltac:(cbn [cpos]; unfold sat_add; usz; lia)) F) as L end.
  cbn [cpos cdata] in L. unfold sat_add in L. usz.
  exists s, e, raw. repeat split; auto; lia.
Qed.

(* Device::iter never panics on a table that Device::read accepted: a format other than the three local ones has no
   delta words, so `16 / bits` with bits = 0 is never evaluated *)
Lemma device_iter_total d t : valid d -> device_read d = Ok t -> device_iter t <> Panic.
Proof.
  intros V H. destruct (device_read_ok d t V H) as (s & e & raw & R0 & R2 & R4 & S0 & S2 & D & L & E). destruct V as [Hb Hv]. usz.
  destruct (device_value_count_pos (delta_format_new raw) s e S0 S2) as [C0 C1].
  unfold device_iter, dv_format, dv_start, dv_end, dv_words. rewrite D, R4, R0, R2.
  cbn [unwrap rbind]. unfold add_chk. replace (6 + dv_len t <=? USIZE_MAX) with true by (symmetry; apply Z.leb_le; usz; lia).
  cbn [rbind]. destruct (read_array_spec 2 d 6 (6 + dv_len t) ltac:(lia)) as [A _].
  rewrite A. 2:{ repeat split; try lia. replace (6 + dv_len t - 6) with (dv_len t) by lia. rewrite E. apply Z.mod_mul. lia. }
  cbn [unwrap rbind]. apply device_iter_loop_ok.
  destruct (Z.eq_dec (dv_len t) 0) as [Z0|NZ].
  - left. rewrite Z0. replace (6 + 0) with 6 by lia. unfold sub. rewrite Z.sub_diag. reflexivity.
  - right. apply C1. lia.
Qed.

(* ---------- charstring nesting depth ---------- *)
Lemma cs_push_depth st v st' : cs_push st v = CsOk st' -> cs_maxdepth st' = cs_maxdepth st.
Proof. unfold cs_push. destruct (blen (cs_stack st) =? MAX_STACK); [discriminate|]. intros H; inversion H; reflexivity. Qed.
Lemma cs_hstem_depth st st' : cs_hstem st = CsOk st' -> cs_maxdepth st' = cs_maxdepth st.
Proof.
  unfold cs_hstem. destruct (negb (blen (cs_stack st) mod 2 =? 0) && negb (cs_width st)).
  - destruct (negb ((blen (cs_stack st) - 1) mod 2 =? 0)); [discriminate|]. intros H; inversion H; reflexivity.
  - destruct (negb ((blen (cs_stack st) - 0) mod 2 =? 0)); [discriminate|]. intros H; inversion H; reflexivity.
Qed.

Ltac cs_step H :=
  match type of H with
  | (if ?c then _ else _) = _ => destruct c eqn:?
  | match ?x with _ => _ end = _ => destruct x eqn:?
  end.

(* charstring_eval_depth_bounded: whatever the subroutine graph (local, global, mixed, cyclic), a charstring body is only ever
   entered at nesting depth <= NESTING_DEPTH_LIMIT *)
Lemma cs_run_depth g l : forall fuel depth bytes st st', depth <= NESTING_DEPTH_LIMIT -> cs_maxdepth st <= NESTING_DEPTH_LIMIT ->
  cs_run g l fuel depth bytes st = CsOk st' -> cs_maxdepth st' <= NESTING_DEPTH_LIMIT.
Proof.
  induction fuel; intros depth bytes st st' Hd Hm H; cbn [cs_run] in H; [discriminate|].
  destruct bytes as [|b0 rest]; [inversion H; subst; exact Hm|].
  assert (Push : forall v r, match cs_push st v with CsOk s1 => cs_run g l fuel depth r s1 | CsErr c => CsErr c | CsPanic => CsPanic end = CsOk st' ->
                 cs_maxdepth st' <= NESTING_DEPTH_LIMIT).
  { intros v r Q. destruct (cs_push st v) as [s1| |] eqn:Pq; try discriminate. apply cs_push_depth in Pq.
    apply (IHfuel depth r s1 st' Hd ltac:(lia) Q). }
  assert (Call : forall index, match index with
      | None => CsErr 22
      | Some subrs =>
          match rev (cs_stack st) with
          | [] => CsErr 21
          | v :: below =>
              match (if v + subr_bias (Z.of_nat (length subrs)) <? 0 then None else nthz subrs (v + subr_bias (Z.of_nat (length subrs)))) with
              | None => CsErr 1
              | Some body =>
                  match (if NESTING_DEPTH_LIMIT <? depth + 1 then CsErr 20
                         else cs_run g l fuel (depth + 1) body
                                (mkcst (rev below) (cs_width st) (cs_hstems st) (Z.max (cs_maxdepth st) (depth + 1)))) with
                  | CsOk st2 => cs_run g l fuel depth rest st2
                  | CsErr c => CsErr c
                  | CsPanic => CsPanic
                  end
              end
          end
      end = CsOk st' -> cs_maxdepth st' <= NESTING_DEPTH_LIMIT).
  { intros index Q. destruct index as [subrs|]; [|discriminate]. destruct (rev (cs_stack st)) as [|v below]; [discriminate|].
    destruct (if v + subr_bias (Z.of_nat (length subrs)) <? 0 then None else nthz subrs (v + subr_bias (Z.of_nat (length subrs)))) as [body|]; [|discriminate].
    destruct (NESTING_DEPTH_LIMIT <? depth + 1) eqn:Lim; [discriminate|]. apply Z.ltb_ge in Lim.
    match type of Q with match ?e with _ => _ end = _ => destruct e as [st2| |] eqn:E2 end; try discriminate.
    apply IHfuel in E2; [|lia|cbn [cs_maxdepth]; lia].
    apply (IHfuel depth rest st2 st' Hd E2 Q). }
  repeat cs_step H; try discriminate;
    try (eapply Push; eassumption);
    try (eapply Call; eassumption).
  all: try (match goal with Hh : cs_hstem ?s0 = CsOk ?s1 |- _ => apply cs_hstem_depth in Hh; apply (IHfuel depth rest s1 st' Hd ltac:(lia) H) end).
  all: try (inversion H; subst; cbn [cs_maxdepth]; exact Hm).
  all: try (match goal with Hp : cs_push _ _ = CsOk ?a |- _ => apply cs_push_depth in Hp; eapply (IHfuel _ _ a); [exact Hd|lia|eassumption] end).
  all: try (match goal with
            | E2 : cs_run _ _ _ (?dd + 1) _ _ = CsOk ?s2, Lim : (NESTING_DEPTH_LIMIT <? ?dd + 1) = false |- _ =>
                apply Z.ltb_ge in Lim; apply IHfuel in E2; [|lia|cbn [cs_maxdepth]; lia];
                eapply (IHfuel _ _ s2); [exact Hd|exact E2|eassumption]
            end).
  all: try (match goal with
            | Hc : (if NESTING_DEPTH_LIMIT <? ?dd + 1 then _ else _) = CsOk ?a |- _ =>
                destruct (NESTING_DEPTH_LIMIT <? dd + 1) eqn:Lim; [discriminate|]; apply Z.ltb_ge in Lim;
                apply IHfuel in Hc; [|lia|cbn [cs_maxdepth]; lia];
                eapply (IHfuel _ _ a); [exact Hd|exact Hc|eassumption]
            end).
  all: try (inversion H; subst; destruct (negb (blen (cs_stack st) =? 0) && negb (cs_width st)); cbn [cs_maxdepth]; exact Hm).
Qed.

Lemma charstring_eval_depth_bounded_lemma : forall g l fuel data st, cs_evaluate g l fuel data = CsOk st -> cs_maxdepth st <= NESTING_DEPTH_LIMIT.
Proof. intros g l fuel data st H. unfold cs_evaluate in H. apply (cs_run_depth g l fuel 0 data _ st) in H; [exact H|unfold NESTING_DEPTH_LIMIT; lia|cbn; unfold NESTING_DEPTH_LIMIT; lia]. Qed.

(* no modelled step of the evaluator panics *)
Lemma cs_push_total st v : cs_push st v <> CsPanic.
Proof. unfold cs_push. destruct (blen (cs_stack st) =? MAX_STACK); discriminate. Qed.
Lemma cs_hstem_total st : cs_hstem st <> CsPanic.
Proof. unfold cs_hstem. repeat match goal with |- context [if ?b then _ else _] => destruct b end; discriminate. Qed.

Lemma cs_run_total g l : forall fuel depth bytes st, cs_run g l fuel depth bytes st <> CsPanic.
Proof.
  induction fuel; intros depth bytes st; cbn [cs_run]; [discriminate|].
  destruct bytes as [|b0 rest]; [discriminate|].
  repeat match goal with
         | |- (if ?c then _ else _) <> _ => destruct c
         | |- match ?x with _ => _ end <> _ => destruct x eqn:?
         end; try discriminate; try apply IHfuel;
  try (match goal with Hp : cs_push _ _ = CsPanic |- _ => exfalso; exact (cs_push_total _ _ Hp) end);
  try (match goal with Hp : cs_hstem _ = CsPanic |- _ => exfalso; exact (cs_hstem_total _ Hp) end).
  all: try (match goal with Hc : (if ?c then _ else _) = CsPanic |- _ => destruct c; [discriminate|exfalso; exact (IHfuel _ _ _ Hc)] end).
Qed.
