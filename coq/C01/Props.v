(* C01 — property theorems.  Only statements, [exact lemma] and Print Assumptions. *)
From Coq Require Import ZArith List.
From FV Require Import Lib.RustInt C01.Model C01.Proofs.
Import ListNotations.
Open Scope Z_scope.

Theorem c01_read_at_total : forall w d off, read_at w d off <> Panic.
Proof. exact read_at_total. Qed.

Print Assumptions c01_read_at_total.
