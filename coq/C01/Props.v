(* C01 — property theorems.  Only statements, [exact lemma] and Print Assumptions.
   [valid d] = every element is a byte and length d <= isize::MAX (what a Rust slice can be);
   [usize z] = 0 <= z <= 2^64-1.  [Panic] is the model's explicit outcome for every Rust panic site
   (unwrap of Err/None, unchecked + / * under overflow-checks, bytemuck::cast_slice). *)
From Coq Require Import ZArith List.
From FV Require Import Lib.RustInt C01.Model C01.Proofs.
Import ListNotations.
Open Scope Z_scope.

(* fontdata_total: every FontData / offset operation returns Ok / Err / None, never Panic, for EVERY
   list and EVERY argument (no hypothesis at all) *)
Theorem c01_fontdata_total : forall d w esz a b off sk s ek e o,
  read_at w d off <> Panic /\ read_ref_at w d off <> Panic /\ read_array esz d a b <> Panic /\
  (exists r, fd_slice d sk s ek e = r) /\ (exists r, fd_split_off d off = r) /\ (exists r, fd_take_up_to d off = r) /\
  resolve_offset o d <> Panic /\ resolve_nullable o d <> Some Panic /\ check_in_bounds d off <> Panic.
Proof. exact fontdata_total_lemma. Qed.

(* ... and every Cursor program: any sequence of advance / advance_by / read / read_array / read_with_args /
   read_computed_array / read_u32_var / position / remaining_bytes / remaining / is_empty with usize
   arguments, from any usize position, followed by finish *)
Theorem c01_cursor_total : forall ops c, Forall cop_wf ops -> 0 <= cpos c <= USIZE_MAX ->
  Forall (fun o => o <> Panic) (snd (crun ops c)) /\ c_finish (fst (crun ops c)) <> Panic.
Proof. exact cursor_total_lemma. Qed.

(* read_at_spec: Ok iff offset + width <= len, and then the value is the big-endian integer of those bytes *)
Theorem c01_read_at_spec : forall w d off, 0 <= off -> 0 <= w -> blen d <= USIZE_MAX ->
  (off + w <= blen d -> read_at w d off = Ok (from_be (sub d off (off + w)))) /\
  (blen d < off + w -> read_at w d off = Err OutOfBounds).
Proof. exact read_at_spec. Qed.

(* read_array_spec: Ok (exactly the bytes of the range) iff the range is in bounds and its length is a
   multiple of the non-zero element size; otherwise the stated error *)
Theorem c01_read_array_spec : forall esz d a b, 0 <= a ->
  (a <= b /\ b <= blen d /\ esz <> 0 /\ (b - a) mod esz = 0 -> read_array esz d a b = Ok (sub d a b)) /\
  (b < a \/ blen d < b -> read_array esz d a b = Err OutOfBounds) /\
  (a <= b /\ b <= blen d /\ (esz = 0 \/ (b - a) mod esz <> 0) -> read_array esz d a b = Err InvalidArrayLen).
Proof. exact read_array_spec. Qed.

(* cursor_monotone: the position never decreases (and stays a usize, over the same data) ... *)
Theorem c01_cursor_monotone : forall ops c, Forall cop_wf ops -> 0 <= cpos c <= USIZE_MAX ->
  cpos c <= cpos (fst (crun ops c)) <= USIZE_MAX /\ cdata (fst (crun ops c)) = cdata c.
Proof. exact cursor_monotone_lemma. Qed.
(* ... finish succeeds iff position <= len ... *)
Theorem c01_finish_iff : forall c, 0 <= cpos c -> (c_finish c = Ok tt <-> cpos c <= blen (cdata c)).
Proof. exact finish_iff_lemma. Qed.
(* ... so a position saturated at usize::MAX can never be accepted: len <= isize::MAX *)
Theorem c01_saturation_cannot_fake_success : forall c,
  blen (cdata c) <= ISIZE_MAX -> cpos c = USIZE_MAX -> c_finish c = Err OutOfBounds.
Proof. exact saturated_finish_fails. Qed.

(* resolve_offset_total / spec: offset 0 = null, offset <= len = the tail from that offset, else OutOfBounds *)
Theorem c01_resolve_offset_spec : forall o d, 0 <= o ->
  (o = 0 -> resolve_offset o d = Err NullOffset) /\
  (0 < o <= blen d -> resolve_offset o d = Ok (skipn (Z.to_nat o) d)) /\
  (blen d < o -> resolve_offset o d = Err OutOfBounds).
Proof. exact resolve_offset_spec. Qed.

(* FontRef::new and table_data(tag) never panic, for every valid byte string and every tag;
   the generated getters' `unwrap`s are unreachable on a directory that `read` accepted *)
Theorem c01_table_data_total : forall d, valid d ->
  fontref_new d <> Panic /\ forall f tag, fontref_new d = Ok f -> table_data f tag <> Panic /\ table_range f tag <> Panic.
Proof. exact font_total_lemma. Qed.
Theorem c01_fontref_new_spec : forall d f, valid d -> fontref_new d = Ok f ->
  fr_data f = d /\ table_directory_read d = Ok (fr_dir f) /\
  (from_be (sub d 0 4) = TT_SFNT_VERSION \/ from_be (sub d 0 4) = CFF_SFNT_VERSION \/ from_be (sub d 0 4) = TRUE_SFNT_VERSION).
Proof. exact fontref_new_spec. Qed.

(* table_data_spec, for EVERY directory (sorted or not): a returned slice is exactly
   file[offset, offset+length) of some record carrying the requested tag, with offset <> 0 and in bounds *)
Theorem c01_table_data_sound : forall d f tag s, valid d -> fontref_new d = Ok f -> table_data f tag = Ok (Some s) ->
  exists recs r i, td_table_records (fr_dir f) = Ok recs /\ nthz recs i = Some r /\ rec_tag r = tag /\
    rec_offset r <> 0 /\ rec_offset r + rec_length r <= blen d /\
    s = sub d (rec_offset r) (rec_offset r + rec_length r).
Proof. exact table_data_sound. Qed.
(* what the binary search guarantees: on ANY slice a hit is an in-range index comparing Equal ... *)
Theorem c01_binary_search_sound : forall n cmpf i, 0 <= n -> binary_search n cmpf = Some i -> 0 <= i < n /\ cmpf i = Eq.
Proof. exact binary_search_sound. Qed.
(* ... and on a directory sorted by tag the lookup finds a record with the tag whenever one exists
   (None then only for offset 0 / offset+length overflow / out of bounds); unsorted directories may miss:
   see Examples.v [unsorted_directory_misses] *)
Theorem c01_table_data_complete_sorted : forall d f tag, valid d -> fontref_new d = Ok f ->
  forall recs, td_table_records (fr_dir f) = Ok recs ->
  (forall i j ri rj, 0 <= i <= j -> nthz recs i = Some ri -> nthz recs j = Some rj -> rec_tag ri <= rec_tag rj) ->
  (exists k r, nthz recs k = Some r /\ rec_tag r = tag) ->
  exists i r, nthz recs i = Some r /\ rec_tag r = tag /\
    table_range f tag = Ok (match non_null (rec_offset r) with
                            | None => None
                            | Some st => match checked_add st (rec_length r) with None => None | Some e => Some (st, e) end
                            end).
Proof. exact table_data_complete. Qed.

(* hand-written helpers *)
(* postscript INDEX (Index1: cw = 2, Index2: cw = 4): read, the generated getters, get_offset and get
   never panic for any valid bytes and any usize index *)
Theorem c01_index_total : forall cw d, valid d -> (cw = 2 \/ cw = 4) ->
  index_read cw d <> Panic /\
  forall x i, index_read cw d = Ok x -> usize i ->
    ix_count x <> Panic /\ ix_off_size x <> Panic /\ ix_offsets x <> Panic /\ ix_objdata x <> Panic /\
    index_get_offset x i <> Panic /\ index_get x i <> Panic.
Proof. exact index_total_lemma. Qed.
(* Loca::read / get_raw (both formats): total; Some exactly for idx < number of entries *)
Theorem c01_loca_total : forall d is_long idx, loca_read d is_long <> Panic /\
  forall l, (exists v, loca_get_raw is_long l idx = Some v) <-> 0 <= idx < Z.of_nat (length l).
Proof. exact loca_total_lemma. Qed.
(* VarLenArray::iter over items with a sw-byte length prefix: finished within len+1 `next` calls, <= len items *)
Theorem c01_varlen_iter_steps : forall sw d, 1 <= sw -> bytes d ->
  snd (varlen_iter (read_len_at_default sw) (S (length d)) d) = true /\
  Z.of_nat (length (fst (varlen_iter (read_len_at_default sw) (S (length d)) d))) <= blen d.
Proof. exact varlen_iter_steps_lemma. Qed.
(* VarLenArray::get(idx): the loop exits (None) within len+1 length reads whatever idx is *)
Theorem c01_varlen_get_steps : forall sw d idx, 1 <= sw -> bytes d -> 0 <= idx ->
  varlen_get_fast (read_len_at_default sw) d idx = varlen_get (read_len_at_default sw) d idx.
Proof. exact varlen_get_steps_lemma. Qed.
(* ComputedArray: len * item_len <= data length, no items when item_len = 0, iter ends within len+1 calls
   yielding <= len items, get never panics *)
Theorem c01_computed_array_steps : forall item_len d, 0 <= item_len ->
  let a := computed_new item_len d in
  snd (computed_iter (S (length d)) a 0) = true /\
  Z.of_nat (length (fst (computed_iter (S (length d)) a 0))) <= ca_len a /\
  ca_len a * item_len <= blen d /\ (item_len = 0 -> ca_len a = 0) /\ forall idx, computed_get a idx <> Panic.
Proof. exact computed_iter_steps_lemma. Qed.
(* TTC header read never panics *)
Theorem c01_ttc_header_read_total : forall d, ttc_header_read d <> Panic.
Proof. exact ttc_header_read_total. Qed.

Print Assumptions c01_fontdata_total.
Print Assumptions c01_cursor_total.
Print Assumptions c01_read_at_spec.
Print Assumptions c01_read_array_spec.
Print Assumptions c01_cursor_monotone.
Print Assumptions c01_finish_iff.
Print Assumptions c01_saturation_cannot_fake_success.
Print Assumptions c01_resolve_offset_spec.
Print Assumptions c01_table_data_total.
Print Assumptions c01_fontref_new_spec.
Print Assumptions c01_table_data_sound.
Print Assumptions c01_binary_search_sound.
Print Assumptions c01_table_data_complete_sorted.
Print Assumptions c01_index_total.
Print Assumptions c01_loca_total.
Print Assumptions c01_varlen_iter_steps.
Print Assumptions c01_varlen_get_steps.
Print Assumptions c01_computed_array_steps.
Print Assumptions c01_ttc_header_read_total.
