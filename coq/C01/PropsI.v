(* C01 part 3, round 4 — ITERATOR PROGRESS and WORKLIST TERMINATION.
   Only statements, [exact lemma] and Print Assumptions.  Models: IterModel.v, ClosureModel.v (+ generated ClosureRule.v). *)
From Coq Require Import ZArith List.
From FV Require Import Lib.RustInt C01.Model C01.Core C01.ModelH C01.ProofsH2 C01.IterModel C01.IterProofs
  C01.ClosureModel C01.ClosureProofs C01.ClosureRule C01.ClosureInst.
Import ListNotations.
Open Scope Z_scope.

(* iter_progress, generic: an iterator given by a step function whose every yielding step (item OR error) strictly
   decreases a non-negative measure returns None within measure+1 calls and yields at most `measure` items *)
Theorem c01_iter_progress : forall (St Item : Type) (step : St -> option (Item * St)) (Inv : St -> Prop) (mu : St -> Z),
  (forall s, Inv s -> 0 <= mu s) ->
  (forall s i s', Inv s -> step s = Some (i, s') -> Inv s' /\ mu s' < mu s) ->
  forall fuel s, Inv s -> mu s < Z.of_nat fuel ->
  snd (iter_run step fuel s) = true /\ Z.of_nat (length (fst (iter_run step fuel s))) <= mu s.
Proof. exact @iter_progress_gen. Qed.

(* the local obligation, discharged compositionally: the VARC component parser never moves the cursor backwards
   (all combinators are monotone in the remaining-bytes measure, including the jump over the packed axis deltas) ... *)
Theorem c01_varc_parse_monotone : forall axes, mono (varc_parse axes).
Proof. exact varc_parse_mono. Qed.
(* ... and every `next` of VarcComponentIter that yields a component OR AN ERROR has consumed at least one byte *)
Theorem c01_varc_next_progress : forall axes c i c', okc c -> varc_next axes c = Some (i, c') -> okc c' /\ crem c' < crem c.
Proof. exact varc_next_progress. Qed.
(* hence VarcGlyph::components() yields at most len items (Ok or Err) and then None, for every byte string
   and every axis-indices list; and no item is a panic *)
Theorem c01_varc_components_steps : forall axes d fuel, blen d <= ISIZE_MAX -> blen d < Z.of_nat fuel ->
  snd (iter_run (varc_next axes) fuel (cursor0 d)) = true /\
  Z.of_nat (length (fst (iter_run (varc_next axes) fuel (cursor0 d)))) <= blen d.
Proof. exact varc_iter_progress_lemma. Qed.
Theorem c01_varc_components_total : forall axes, Forall bytes axes -> Forall (fun e => blen e <= 2 ^ 56) axes ->
  forall c i c', varc_next axes c = Some (i, c') -> i <> Panic.
Proof. exact varc_iter_total_lemma. Qed.

(* glyf CompositeGlyph::components() and component_glyphs_and_flags(): at most len items, then None *)
Theorem c01_glyf_components_steps : forall d fuel, blen d <= ISIZE_MAX -> blen d < Z.of_nat fuel ->
  snd (iter_run comp_next fuel (false, cursor0 d)) = true /\
  Z.of_nat (length (fst (iter_run comp_next fuel (false, cursor0 d)))) <= blen d.
Proof. exact comp_iter_progress_lemma. Qed.
Theorem c01_glyf_component_ids_steps : forall d fuel, blen d <= ISIZE_MAX -> blen d < Z.of_nat fuel ->
  snd (iter_run compid_next fuel (false, cursor0 d)) = true /\
  Z.of_nat (length (fst (iter_run compid_next fuel (false, cursor0 d)))) <= blen d.
Proof. exact compid_iter_progress_lemma. Qed.

(* name NameString::chars(): at most len chars, then None, for every encoding *)
Theorem c01_name_chars_steps : forall enc d fuel, blen d < Z.of_nat fuel ->
  snd (iter_run (chariter_next enc d) fuel 0) = true /\
  Z.of_nat (length (fst (iter_run (chariter_next enc d) fuel 0))) <= blen d.
Proof. exact chariter_progress_lemma. Qed.

(* worklist termination, generic: a worklist whose executed tasks strictly lower a potential and push at most K tasks,
   and whose skipped tasks push nothing, ends within phi * (K+1) + |todos| pops, after at most phi executions *)
Theorem c01_worklist_terminates : forall (St Task : Type) (process : St -> Task -> St * list Task * bool)
  (Inv : St -> Prop) (phi : St -> Z) (K : Z), 0 <= K -> (forall s, Inv s -> 0 <= phi s) ->
  (forall s t s' new ex, Inv s -> process s t = (s', new, ex) ->
     Inv s' /\ (ex = false -> new = [] /\ phi s' <= phi s) /\ (ex = true -> phi s' < phi s /\ Z.of_nat (length new) <= K)) ->
  forall fuel s todos, Inv s -> phi s * (K + 1) + Z.of_nat (length todos) < Z.of_nat fuel ->
  exists sf n, wl_run process fuel s todos = Some (sf, n) /\ Inv sf /\ 0 <= n /\ n + phi sf <= phi s.
Proof. exact @worklist_terminates. Qed.

(* closure_terminates: the GSUB closure pass (Gsub::closure_glyphs_once: all reachable lookups, then the todo loop),
   with the visited-set rule AS EXTRACTED FROM closure.rs, terminates for EVERY lookup semantics [exec] — every lookup
   graph, including contextual lookups that reference themselves with current_glyphs = None — after at most
   phi <= (G+1) * L * (G+1) lookup executions (G = glyph universe, L = lookups, K = todos pushed per execution) *)
Theorem c01_closure_terminates : forall (G : nat) (L : Z) (exec : Z -> option gset -> gset -> gset * list ctask) (K : Z),
  0 <= L -> 0 <= K -> (forall id cur gl, Z.of_nat (length (snd (exec id cur gl))) <= K) ->
  forall fuel s lookups,
  phi G L s * (K + 1) + K * Z.of_nat (length lookups) < Z.of_nat fuel ->
  exists sf n, closure_once G L closure_records_none closure_records_some exec fuel s lookups = Some (sf, n) /\ 0 <= n <= phi G L s.
Proof. exact closure_once_terminates_src. Qed.
Theorem c01_closure_todo_loop_terminates : forall (G : nat) (L : Z) (exec : Z -> option gset -> gset -> gset * list ctask) (K : Z),
  0 <= L -> 0 <= K -> (forall id cur gl, Z.of_nat (length (snd (exec id cur gl))) <= K) ->
  forall fuel s todos,
  phi G L s * (K + 1) + Z.of_nat (length todos) < Z.of_nat fuel ->
  exists sf n, wl_run (closure_process G L closure_records_none closure_records_some exec) fuel s todos = Some (sf, n) /\ 0 <= n /\ n + phi G L sf <= phi G L s.
Proof. exact closure_worklist_terminates_src. Qed.
Theorem c01_closure_potential_bound : forall (G : nat) (L : Z) s, 0 <= L -> 0 <= phi G L s <= (Z.of_nat G + 1) * (L * (Z.of_nat G + 1)).
Proof. exact closure_potential_bound. Qed.

Print Assumptions c01_iter_progress.
Print Assumptions c01_varc_parse_monotone.
Print Assumptions c01_varc_next_progress.
Print Assumptions c01_varc_components_steps.
Print Assumptions c01_varc_components_total.
Print Assumptions c01_glyf_components_steps.
Print Assumptions c01_glyf_component_ids_steps.
Print Assumptions c01_name_chars_steps.
Print Assumptions c01_worklist_terminates.
Print Assumptions c01_closure_terminates.
Print Assumptions c01_closure_todo_loop_terminates.
Print Assumptions c01_closure_potential_bound.
