(* C01 part 3, round 4 — ITERATOR PROGRESS: a generic theorem for iterators given by a step function with a
   decreasing measure, its specialisation to cursor-based parsers, combinator lemmas that discharge the local
   obligation compositionally, and the instances (VARC components, glyf components, name chars). *)
From Coq Require Import ZArith List Bool Lia.
From FV Require Import Lib.RustInt C01.Model C01.Core C01.Tables C01.ModelH C01.ProofsH C01.ProofsH2 C01.IterModel.
Import ListNotations.
Open Scope Z_scope.

Ltac usz := rewrite ?usize_max_val, ?isize_max_val in *.

(* ================= generic: an iterator whose every yielding step decreases a measure ================= *)
Section IterProgress.
  Context {St Item : Type}.
  Variable step : St -> option (Item * St).
  Variable Inv : St -> Prop.
  Variable mu : St -> Z.
  Hypothesis inv_nonneg : forall s, Inv s -> 0 <= mu s.
  (* the local obligation: `next` returns None, or yields (an item or an error) and strictly decreases the measure
     (for cursor iterators: strictly advances the cursor, or — for an iterator that is fused on error — drops the
     "not yet failed" unit of the measure) *)
  Hypothesis step_progress : forall s i s', Inv s -> step s = Some (i, s') -> Inv s' /\ mu s' < mu s.

  Theorem iter_progress_gen : forall fuel s, Inv s -> mu s < Z.of_nat fuel ->
    snd (iter_run step fuel s) = true /\ Z.of_nat (length (fst (iter_run step fuel s))) <= mu s.
  Proof.
    induction fuel; intros s I F; [pose proof (inv_nonneg s I); lia|].
    cbn [iter_run]. destruct (step s) as [[i s']|] eqn:E.
    - destruct (step_progress s i s' I E) as [I' M]. specialize (IHfuel s' I' ltac:(lia)).
      destruct (iter_run step fuel s') as [l fin]. cbn [fst snd length] in *. destruct IHfuel. split; [assumption|lia].
    - cbn. split; [reflexivity|]. pose proof (inv_nonneg s I). lia.
  Qed.
End IterProgress.

(* ================= cursor parsers ================= *)
Definition okc (c : cursor) : Prop := 0 <= cpos c <= USIZE_MAX /\ blen (cdata c) <= USIZE_MAX.
(* a parser never moves backwards: the remaining-bytes measure does not increase (also when it fails) *)
Definition mono {A} (m : P A) : Prop := forall c, okc c -> okc (fst (m c)) /\ crem (fst (m c)) <= crem c.
Definition ptotal {A} (m : P A) : Prop := forall c, snd (m c) <> Panic.
(* a parser that, when it succeeds, has consumed at least one byte *)
Definition strict_ok {A} (m : P A) : Prop := forall c a, okc c -> snd (m c) = Ok a -> crem (fst (m c)) < crem c.

Lemma crem_same_data c c' : cdata c' = cdata c -> cpos c <= cpos c' -> crem c' <= crem c.
Proof. intros D H. unfold crem. rewrite D. lia. Qed.

Lemma mono_pret {A} (a : A) : mono (pret a). Proof. intros c H. cbn. split; [exact H|lia]. Qed.
Lemma mono_plift {A} (r : res A) : mono (plift r). Proof. intros c H. cbn. split; [exact H|lia]. Qed.
Lemma mono_pbind {A B} (m : P A) (f : A -> P B) : mono m -> (forall a, mono (f a)) -> mono (pbind m f).
Proof.
  intros Hm Hf c H. unfold pbind. destruct (Hm c H) as [O1 M1]. destruct (m c) as [c1 r]. cbn [fst] in *.
  destruct r as [a| |]; cbn [fst]; try (split; [exact O1|exact M1]).
  destruct (Hf a c1 O1) as [O2 M2]. split; [exact O2|lia].
Qed.
Lemma mono_pread w : 0 <= w -> mono (pread w).
Proof.
  intros Hw c [Hp Hl]. unfold pread, c_read. cbn [fst]. split.
  - split; [|exact Hl]. cbn [c_advance cpos]. unfold sat_add. usz. lia.
  - apply crem_same_data; [reflexivity|]. cbn [c_advance cpos]. unfold sat_add. usz. lia.
Qed.
Lemma mono_padvance n : 0 <= n -> mono (padvance n).
Proof.
  intros Hw c [Hp Hl]. unfold padvance. cbn [fst]. split.
  - split; [|exact Hl]. cbn [c_advance_by cpos]. unfold sat_add. usz. lia.
  - apply crem_same_data; [reflexivity|]. cbn [c_advance_by cpos]. unfold sat_add. usz. lia.
Qed.
Lemma mono_pvar : mono pvar.
Proof.
  intros c [Hp Hl]. unfold pvar. destruct (c_read_u32_var_mono c Hp) as [M D]. split.
  - split; [lia|]. rewrite D. exact Hl.
  - apply crem_same_data; [exact D|lia].
Qed.
Lemma mono_pwhen b m : mono m -> mono (pwhen b m).
Proof. intros H. unfold pwhen. destruct b; [|apply mono_pret]. apply mono_pbind; [exact H|intros; apply mono_pret]. Qed.
Lemma mono_prepeat n m : mono m -> mono (prepeat n m).
Proof. intros H. induction n; cbn [prepeat]; [apply mono_pret|]. apply mono_pbind; [exact H|intros; exact IHn]. Qed.
Lemma mono_if {A} (b : bool) (m1 m2 : P A) : mono m1 -> mono m2 -> mono (if b then m1 else m2).
Proof. destruct b; auto. Qed.

Lemma ptotal_pret {A} (a : A) : ptotal (pret a). Proof. intros c. cbn. discriminate. Qed.
Lemma ptotal_plift {A} (r : res A) : r <> Panic -> ptotal (plift r). Proof. intros H c. exact H. Qed.
Lemma ptotal_pbind {A B} (m : P A) (f : A -> P B) : ptotal m -> (forall a, ptotal (f a)) -> ptotal (pbind m f).
Proof.
  intros Hm Hf c. unfold pbind. pose proof (Hm c) as T. destruct (m c) as [c1 r]. cbn [snd] in *.
  destruct r as [a| |]; cbn [snd]; [apply Hf|discriminate|congruence].
Qed.
Lemma ptotal_pread w : ptotal (pread w). Proof. intros c. apply c_read_total. Qed.
Lemma ptotal_pvar : ptotal pvar. Proof. intros c. apply c_read_u32_var_total. Qed.
Lemma ptotal_padvance n : ptotal (padvance n). Proof. intros c. cbn. discriminate. Qed.
Lemma ptotal_pwhen b m : ptotal m -> ptotal (pwhen b m).
Proof. intros H. unfold pwhen. destruct b; [|apply ptotal_pret]. apply ptotal_pbind; [exact H|intros; apply ptotal_pret]. Qed.
Lemma ptotal_prepeat n m : ptotal m -> ptotal (prepeat n m).
Proof. intros H. induction n; cbn [prepeat]; [apply ptotal_pret|]. apply ptotal_pbind; [exact H|intros; exact IHn]. Qed.
Lemma ptotal_if {A} (b : bool) (m1 m2 : P A) : ptotal m1 -> ptotal m2 -> ptotal (if b then m1 else m2).
Proof. destruct b; auto. Qed.

(* a successful read of w >= 1 bytes consumed them *)
Lemma strict_pread w : 1 <= w -> strict_ok (pread w).
Proof.
  intros Hw c a [Hp Hl] H. unfold pread, c_read in *. cbn [fst snd] in *.
  pose proof (read_at_ok_nooverflow _ _ _ _ H) as NO. apply read_at_ok_inv in H; try lia. destruct H as [H _].
  unfold crem. cbn [c_advance cpos cdata]. unfold sat_add. usz. lia.
Qed.
Lemma strict_pbind {A B} (m : P A) (f : A -> P B) : mono m -> strict_ok m -> (forall a, mono (f a)) -> strict_ok (pbind m f).
Proof.
  intros Hm Hs Hf c b H. unfold pbind. specialize (Hs c). destruct (Hm c H) as [O1 _]. destruct (m c) as [c1 r]. cbn [fst snd] in *.
  destruct r as [a| |]; cbn [snd]; try discriminate. intros E. specialize (Hs a H eq_refl).
  destruct (Hf a c1 O1) as [_ M2]. lia.
Qed.

(* ---------- DeltaRunIter::end ---------- *)
Lemma advance_okc w c : okc c -> 0 <= w -> okc (c_advance w c) /\ cdata (c_advance w c) = cdata c /\ cpos c <= cpos (c_advance w c).
Proof. intros [P1 L1] Hw. unfold okc. cbn [c_advance cpos cdata]. unfold sat_add. usz. repeat split; try lia. Qed.

Definition dstate_ok (s : diter) : Prop := okc (di_cur s) /\ 0 <= di_size s.
Definition dpost (s s' : diter) : Prop :=
  dstate_ok s' /\ cdata (di_cur s') = cdata (di_cur s) /\ cpos (di_cur s) <= cpos (di_cur s').
Lemma dpost_mk s limit rem sz c : okc c -> 0 <= sz -> cdata c = cdata (di_cur s) -> cpos (di_cur s) <= cpos c ->
  dpost s (mkdi limit rem sz c).
Proof. intros H1 H2 H3 H4. unfold dpost, dstate_ok. cbn [di_cur di_size]. split; [split; [exact H1|exact H2]|split; [exact H3|exact H4]]. Qed.
Lemma delta_step_post s : dstate_ok s -> dpost s (snd (delta_step s)).
Proof.
  intros [Ho Hs]. unfold delta_step. destruct (di_limit s =? 0).
  { cbn [snd]. unfold dpost, dstate_ok. split; [split; [exact Ho|exact Hs]|split; [reflexivity|lia]]. }
  destruct (di_rem s =? 0).
  - unfold c_read at 1. destruct (advance_okc 1 (di_cur s) Ho ltac:(lia)) as (O1 & D1 & P1).
    destruct (read_at 1 (cdata (di_cur s)) (cpos (di_cur s))) as [a| |]; cbn [snd]; try (apply dpost_mk; auto).
    pose proof (delta_size_range a) as R.
    destruct (delta_size a =? 0); cbn [snd]; [apply dpost_mk; auto; lia|].
    unfold c_read. destruct (advance_okc (delta_size a) (c_advance 1 (di_cur s)) O1 ltac:(lia)) as (O2 & D2 & P2).
    destruct (read_at (delta_size a) _ _); cbn [snd]; apply dpost_mk; auto; try lia; congruence.
  - destruct (di_size s =? 0); cbn [snd]; [apply dpost_mk; auto; lia|].
    unfold c_read. destruct (advance_okc (di_size s) (di_cur s) Ho Hs) as (O2 & D2 & P2).
    destruct (read_at (di_size s) _ _); cbn [snd]; apply dpost_mk; auto.
Qed.
Lemma delta_step_cursor s : dstate_ok s ->
  dstate_ok (snd (delta_step s)) /\ cdata (di_cur (snd (delta_step s))) = cdata (di_cur s) /\
  cpos (di_cur s) <= cpos (di_cur (snd (delta_step s))).
Proof. intros H. exact (delta_step_post s H). Qed.
Lemma delta_end_loop_cursor : forall fuel s, dstate_ok s ->
  okc (delta_end_loop fuel s) /\ cdata (delta_end_loop fuel s) = cdata (di_cur s) /\ cpos (di_cur s) <= cpos (delta_end_loop fuel s).
Proof.
  induction fuel; intros s H; cbn [delta_end_loop]; [destruct H as [H1 H2]; split; [exact H1|split; [reflexivity|lia]]|].
  destruct (delta_step_cursor s H) as (O & D & Pp). destruct (delta_step s) as [[v|] s']; cbn [snd] in *.
  - destruct (IHfuel s' O) as (O2 & D2 & P2). split; [exact O2|split; [congruence|lia]].
  - destruct O as [O1 _]. split; [exact O1|split; [exact D|exact Pp]].
Qed.
Lemma mono_pskip_deltas n : mono (pskip_deltas n).
Proof.
  intros c [Hp Hl]. unfold pskip_deltas, c_remaining. destruct (fd_split_off (cdata c) (cpos c)) as [tail|] eqn:S; cbn [fst].
  2:{ split; [split; assumption|lia]. }
  apply fd_split_off_some in S; [|lia]. destruct S as [S1 S2].
  unfold delta_end.
  assert (D0 : dstate_ok (mkdi n 0 1 (cursor0 tail))).
  { unfold dstate_ok, okc, cursor0. cbn. usz. pose proof (blen_nonneg tail). repeat split; lia. }
  destruct (delta_end_loop_cursor (S (Z.to_nat n)) _ D0) as (O & D & Pp). cbn [di_cur cursor0 cdata cpos] in *.
  split; [exact O|]. unfold crem. rewrite D. lia.
Qed.
Lemma ptotal_pskip_deltas n : ptotal (pskip_deltas n).
Proof. intros c. unfold pskip_deltas. destruct (c_remaining c); cbn; discriminate. Qed.

(* ---------- VARC ---------- *)
Lemma varc_axis_count_total axes nth : Forall bytes axes -> Forall (fun e => blen e <= 2 ^ 56) axes -> varc_axis_count axes nth <> Panic.
Proof.
  intros Hb Hl. unfold varc_axis_count. destruct (nthz axes nth) as [raw|] eqn:N; [|discriminate].
  apply nthz_some in N. destruct N as [_ N]. apply nth_error_In in N.
  rewrite Forall_forall in Hb, Hl. destruct (count_all_deltas_ok raw (Hb raw N) (Hl raw N)) as (r & E & _). rewrite E. discriminate.
Qed.

Ltac mono_tac :=
  repeat first
    [ apply mono_pret | apply mono_plift | apply mono_pvar | apply mono_pskip_deltas
    | apply mono_pread; repeat (match goal with |- context [if ?b then _ else _] => destruct b end); lia
    | apply mono_padvance; repeat (match goal with |- context [if ?b then _ else _] => destruct b end); lia
    | apply mono_pwhen | apply mono_prepeat
    | apply mono_pbind; [|intros]
    | match goal with |- mono (if ?b then _ else _) => destruct b end ].

Lemma varc_parse_mono axes : mono (varc_parse axes).
Proof. unfold varc_parse. mono_tac. Qed.

Ltac ptotal_tac :=
  repeat first
    [ apply ptotal_pret | apply ptotal_pvar | apply ptotal_pskip_deltas | apply ptotal_pread | apply ptotal_padvance
    | apply ptotal_pwhen | apply ptotal_prepeat
    | apply ptotal_pbind; [|intros]
    | match goal with |- ptotal (if ?b then _ else _) => destruct b end ].
Lemma varc_parse_total axes : Forall bytes axes -> Forall (fun e => blen e <= 2 ^ 56) axes -> ptotal (varc_parse axes).
Proof. intros Hb Hl. unfold varc_parse. ptotal_tac. apply ptotal_plift. apply varc_axis_count_total; assumption. Qed.

(* pvar consumes at least one byte whenever one is available, whether or not the whole varint can be read *)
Lemma pvar_strict_nonempty c : okc c -> cpos c < blen (cdata c) -> okc (fst (pvar c)) /\ crem (fst (pvar c)) < crem c.
Proof.
  intros [Hp Hl] Hne. destruct (mono_pvar c (conj Hp Hl)) as [O _]. split; [exact O|].
  unfold pvar, c_read_u32_var, c_read.
  set (c1 := c_advance 1 c).
  assert (C1 : cdata c1 = cdata c /\ cpos c1 = cpos c + 1) by (unfold c1; cbn [c_advance cpos cdata]; unfold sat_add; usz; split; [reflexivity|lia]).
  destruct C1 as [D1 P1].
  assert (R : forall n acc, crem (fst (read_n n acc c1)) < crem c).
  { intros n acc. destruct (read_n_mono n acc c1 ltac:(lia)) as [M D]. unfold crem. rewrite D, D1. lia. }
  assert (B : crem c1 < crem c) by (unfold crem; rewrite D1, P1; lia).
  destruct (read_at 1 (cdata c) (cpos c)); cbn [fst]; try exact B.
  repeat match goal with |- context [if ?b then _ else _] => destruct b end; cbn [fst]; auto.
Qed.

(* the local obligation for VarcComponentIter: every `next` that yields (a component OR an error) consumed >= 1 byte *)
Lemma varc_next_progress axes c i c' : okc c -> varc_next axes c = Some (i, c') -> okc c' /\ crem c' < crem c.
Proof.
  intros H. unfold varc_next, c_is_empty. destruct (blen (cdata c) <=? cpos c) eqn:E; [discriminate|]. apply Z.leb_gt in E.
  destruct (varc_parse axes c) as [c1 r] eqn:Pq. intros Q. inversion Q; subst i c'. clear Q.
  unfold varc_parse in Pq. unfold pbind at 1 in Pq.
  destruct (pvar_strict_nonempty c H E) as [O1 S1]. destruct (pvar c) as [cv rv]. cbn [fst] in *.
  destruct rv as [raw| |]; try (inversion Pq; subst; split; assumption).
  match type of Pq with ?rest cv = _ => assert (M : mono rest) by mono_tac end.
  match type of Pq with ?rest cv = _ => destruct (M cv O1) as [O2 M2]; rewrite Pq in O2, M2 end.
  cbn [fst] in *. split; [exact O2|lia].
Qed.

(* ---------- glyf components ---------- *)
Lemma comp_parse_mono : mono comp_parse. Proof. unfold comp_parse. cbv zeta. mono_tac. Qed.
Lemma comp_parse_total : ptotal comp_parse. Proof. unfold comp_parse. cbv zeta. ptotal_tac. Qed.
Lemma comp_parse_strict : strict_ok comp_parse.
Proof. unfold comp_parse. cbv zeta. apply strict_pbind; [apply mono_pread; lia|apply strict_pread; lia|intros; mono_tac]. Qed.
Lemma compid_parse_mono : mono compid_parse. Proof. unfold compid_parse. mono_tac. Qed.
Lemma compid_parse_strict : strict_ok compid_parse.
Proof. unfold compid_parse. apply strict_pbind; [apply mono_pread; lia|apply strict_pread; lia|intros; mono_tac]. Qed.

Lemma comp_next_progress s i s' : okc (snd s) -> comp_next s = Some (i, s') -> okc (snd s') /\ crem (snd s') < crem (snd s).
Proof.
  intros H. unfold comp_next. destruct (fst s); [discriminate|].
  pose proof (comp_parse_mono (snd s) H) as [O M]. pose proof (comp_parse_strict (snd s)) as S.
  destruct (comp_parse (snd s)) as [c1 r]. cbn [fst snd] in *. destruct r as [item| |]; try discriminate.
  intros Q. inversion Q; subst. cbn [snd]. split; [exact O|]. apply (S _ H eq_refl).
Qed.
Lemma compid_next_progress s i s' : okc (snd s) -> compid_next s = Some (i, s') -> okc (snd s') /\ crem (snd s') < crem (snd s).
Proof.
  intros H. unfold compid_next. destruct (fst s); [discriminate|].
  pose proof (compid_parse_mono (snd s) H) as [O M]. pose proof (compid_parse_strict (snd s)) as S.
  destruct (compid_parse (snd s)) as [c1 r]. cbn [fst snd] in *. destruct r as [item| |]; try discriminate.
  intros Q. inversion Q; subst. cbn [snd]. split; [exact O|]. apply (S _ H eq_refl).
Qed.

(* ---------- name CharIter ---------- *)
Lemma bump_u16_some d pos v p : 0 <= pos -> bump_u16 d pos = Some (v, p) -> p = pos + 2 /\ p <= blen d.
Proof.
  intros Hp. unfold bump_u16, add_chk. destruct (pos + 2 <=? USIZE_MAX); [|discriminate].
  destruct (get_range d pos (pos + 2)) eqn:G; [|discriminate]. apply get_range_some in G.
  intros H. inversion H. lia.
Qed.
Lemma chariter_next_progress enc d pos v p : 0 <= pos -> chariter_next enc d pos = Some (v, p) -> pos < p <= blen d.
Proof.
  intros Hp. unfold chariter_next. destruct (blen d <=? pos) eqn:E; [discriminate|]. apply Z.leb_gt in E.
  destruct (enc =? 0).
  - destruct (bump_u16 d pos) as [[c1 p1]|] eqn:B1; [|discriminate]. apply bump_u16_some in B1; [|lia].
    destruct ((55296 <=? c1) && (c1 <? 56320)).
    + destruct (bump_u16 d p1) as [[c2 p2]|] eqn:B2.
      * apply bump_u16_some in B2; [|lia]. intros H; inversion H; lia.
      * intros H; inversion H; lia.
    + intros H; inversion H; lia.
  - destruct (enc =? 1); [|discriminate]. destruct (nthz d pos) eqn:N; [|discriminate].
    intros H; inversion H; lia.
Qed.

(* ================= the instances of iter_progress ================= *)
Lemma crem_cursor0 d : crem (cursor0 d) = blen d.
Proof. unfold crem, cursor0. cbn [cdata cpos]. pose proof (blen_nonneg d). lia. Qed.
Lemma okc_cursor0 d : blen d <= ISIZE_MAX -> okc (cursor0 d).
Proof. intros H. unfold okc, cursor0. cbn [cdata cpos]. usz. lia. Qed.

Lemma varc_iter_progress_lemma : forall axes d fuel, blen d <= ISIZE_MAX -> blen d < Z.of_nat fuel ->
  snd (iter_run (varc_next axes) fuel (cursor0 d)) = true /\
  Z.of_nat (length (fst (iter_run (varc_next axes) fuel (cursor0 d)))) <= blen d.
Proof.
  intros axes d fuel V F. rewrite <- (crem_cursor0 d).
  apply (iter_progress_gen (varc_next axes) okc crem).
  - intros s _. apply crem_nonneg.
  - intros s i s' I E. apply (varc_next_progress axes s i s' I E).
  - apply okc_cursor0; exact V.
  - rewrite crem_cursor0. exact F.
Qed.
Lemma varc_iter_total_lemma : forall axes, Forall bytes axes -> Forall (fun e => blen e <= 2 ^ 56) axes ->
  forall c i c', varc_next axes c = Some (i, c') -> i <> Panic.
Proof.
  intros axes Hb Hl c i c'. unfold varc_next. destruct (c_is_empty c); [discriminate|].
  pose proof (varc_parse_total axes Hb Hl c) as T. destruct (varc_parse axes c) as [c1 r]. intros Q. inversion Q; subst. exact T.
Qed.
Lemma comp_iter_progress_lemma : forall d fuel, blen d <= ISIZE_MAX -> blen d < Z.of_nat fuel ->
  snd (iter_run comp_next fuel (false, cursor0 d)) = true /\
  Z.of_nat (length (fst (iter_run comp_next fuel (false, cursor0 d)))) <= blen d.
Proof.
  intros d fuel V F. rewrite <- (crem_cursor0 d).
  apply (iter_progress_gen comp_next (fun s => okc (snd s)) (fun s => crem (snd s))).
  - intros s _. apply crem_nonneg.
  - intros s i s' I E. apply (comp_next_progress s i s' I E).
  - apply okc_cursor0; exact V.
  - cbn [snd]. rewrite crem_cursor0. exact F.
Qed.
Lemma compid_iter_progress_lemma : forall d fuel, blen d <= ISIZE_MAX -> blen d < Z.of_nat fuel ->
  snd (iter_run compid_next fuel (false, cursor0 d)) = true /\
  Z.of_nat (length (fst (iter_run compid_next fuel (false, cursor0 d)))) <= blen d.
Proof.
  intros d fuel V F. rewrite <- (crem_cursor0 d).
  apply (iter_progress_gen compid_next (fun s => okc (snd s)) (fun s => crem (snd s))).
  - intros s _. apply crem_nonneg.
  - intros s i s' I E. apply (compid_next_progress s i s' I E).
  - apply okc_cursor0; exact V.
  - cbn [snd]. rewrite crem_cursor0. exact F.
Qed.
Lemma chariter_progress_lemma : forall enc d fuel, blen d < Z.of_nat fuel ->
  snd (iter_run (chariter_next enc d) fuel 0) = true /\
  Z.of_nat (length (fst (iter_run (chariter_next enc d) fuel 0))) <= blen d.
Proof.
  intros enc d fuel F.
  assert (G : snd (iter_run (chariter_next enc d) fuel 0) = true /\
              Z.of_nat (length (fst (iter_run (chariter_next enc d) fuel 0))) <= blen d - 0).
  { apply (iter_progress_gen (chariter_next enc d) (fun p => 0 <= p <= blen d) (fun p => blen d - p)).
    - intros s H. lia.
    - intros s i s' I E. pose proof (chariter_next_progress enc d s i s' ltac:(lia) E). lia.
    - pose proof (blen_nonneg d). lia.
    - lia. }
  destruct G as [G1 G2]. split; [exact G1|lia].
Qed.
