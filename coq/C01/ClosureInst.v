(* C01 — the closure termination theorem instantiated with the recording rule regenerated from closure.rs
   (coq/C01/ClosureRule.v).  This file only type-checks while needs_to_do_lookup records the covered glyphs for
   BOTH current_glyphs == None and Some(_). *)
From Coq Require Import ZArith List Bool Lia.
From FV Require Import C01.ClosureModel C01.ClosureProofs C01.ClosureRule.
Import ListNotations.
Open Scope Z_scope.

Lemma closure_once_terminates_src : forall (G : nat) (L : Z) (exec : Z -> option gset -> gset -> gset * list ctask) (K : Z),
  0 <= L -> 0 <= K -> (forall id cur gl, Z.of_nat (length (snd (exec id cur gl))) <= K) ->
  forall fuel s lookups,
  phi G L s * (K + 1) + K * Z.of_nat (length lookups) < Z.of_nat fuel ->
  exists sf n, closure_once G L closure_records_none closure_records_some exec fuel s lookups = Some (sf, n) /\ 0 <= n <= phi G L s.
Proof. intros G L exec K HL HK Hp. exact (closure_once_terminates G L exec K HL HK Hp). Qed.

Lemma closure_worklist_terminates_src : forall (G : nat) (L : Z) (exec : Z -> option gset -> gset -> gset * list ctask) (K : Z),
  0 <= L -> 0 <= K -> (forall id cur gl, Z.of_nat (length (snd (exec id cur gl))) <= K) ->
  forall fuel s todos,
  phi G L s * (K + 1) + Z.of_nat (length todos) < Z.of_nat fuel ->
  exists sf n, wl_run (closure_process G L closure_records_none closure_records_some exec) fuel s todos = Some (sf, n) /\ 0 <= n /\ n + phi G L sf <= phi G L s.
Proof. intros G L exec K HL HK Hp. exact (closure_worklist_terminates G L exec K HL HK Hp). Qed.

Lemma closure_potential_bound : forall (G : nat) (L : Z) s, 0 <= L -> 0 <= phi G L s <= (Z.of_nat G + 1) * (L * (Z.of_nat G + 1)).
Proof. intros G L s HL. split; [apply phi_nonneg; exact HL|apply phi_bound; exact HL]. Qed.
