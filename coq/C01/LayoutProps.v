(* C01 item 2 ("all generated table shapes") -- property theorems.  Only statements closed by [exact]. *)
From Coq Require Import ZArith List String Bool.
From FV Require Import C01.Layout C01.LayoutGen C01.LayoutProofs C01.LayoutCheck.
Import ListNotations.
Open Scope string_scope.
Open Scope Z_scope.

(* Generic: for a layout accepted by the boolean check, EVERY environment (= every byte content of the data
   and every behaviour of the hand-written count/size helpers), every argument tuple and every data length:
   if the cursor walk of `read` succeeds, then every getter yields a value or an absence -- the
   `.unwrap()` in the generated getter is never reached with Err/None. *)
Theorem getters_safe : forall L, wf_safe L = true ->
  forall argv E len m, 0 <= len <= isize_max -> run_read L argv E len = Some m ->
  forall g, In g (r_getters L) ->
  eval_getter L E m len g = GValue \/ eval_getter L E m len g = GAbsent.
Proof. exact getters_safe_proof. Qed.

(* Generic: every `start..start + width` computed (without saturation) by the marker's *_byte_range
   functions satisfies 0 <= start <= end <= len <= isize::MAX: no usize overflow in generated range code. *)
Theorem ranges_no_overflow : forall L, wf_safe L = true ->
  forall argv E len m, 0 <= len <= isize_max -> run_read L argv E len = Some m ->
  exists rv, ranges_of L m = Some rv /\
    forall n a b, lookup n rv = Some (RRange a b) -> 0 <= a /\ a <= b /\ b <= len /\ b < usize_max.
Proof. exact ranges_no_overflow_proof. Qed.

(* Per table: every layout extracted from /repo/read-fonts/generated/*.rs on this run passes the check,
   except those listed by name in [known_unsafe] ... *)
Theorem all_generated_layouts_safe : forallb wf_safe (layouts_except known_unsafe all_layouts) = true.
Proof. exact all_layouts_wf_safe. Qed.

(* ... and that list is empty. *)
Theorem no_generated_layout_excluded : known_unsafe = [].
Proof. exact known_unsafe_empty. Qed.

(* Corollary: no getter of any generated table reader can panic, and no generated range overflows. *)
Theorem all_generated_getters_never_panic :
  forall L, In L (layouts_except known_unsafe all_layouts) ->
  forall argv E len m, 0 <= len <= isize_max -> run_read L argv E len = Some m ->
  (forall g, In g (r_getters L) -> getter_ok (eval_getter L E m len g)) /\
  exists rv, ranges_of L m = Some rv /\
    forall n a b, lookup n rv = Some (RRange a b) -> 0 <= a /\ a <= b /\ b <= len /\ b < usize_max.
Proof. exact (all_layouts_safe_lift _ all_layouts_wf_safe). Qed.

Theorem getter_ok_is_not_panic : forall o, getter_ok o -> o <> GPanic.
Proof. exact getter_ok_not_panic. Qed.

Print Assumptions getters_safe.
Print Assumptions ranges_no_overflow.
Print Assumptions all_generated_layouts_safe.
Print Assumptions no_generated_layout_excluded.
Print Assumptions all_generated_getters_never_panic.
Print Assumptions getter_ok_is_not_panic.
