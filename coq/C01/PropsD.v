(* C01 part 3, round 6 — cmap format 4 iteration.  Only statements, [exact], Print Assumptions. *)
From Coq Require Import ZArith List.
From FV Require Import Lib.RustInt C01.Model C01.IterModel C01.Cmap4Model C01.Cmap4Proofs.
Import ListNotations.
Open Scope Z_scope.

(* every turn of the loop in Cmap4Iter::next lowers the measure
   (65536 - cur_end) + max(0, cur_end - cur_start) + (segCount - cur_range_ix): this needs the next range to be clamped on
   BOTH ends to the current end (the rule of the model, as in the source) *)
Theorem c01_cmap4_micro_progress : forall t st i st', c4_inv t st -> c4_micro t st = Some (i, st') ->
  c4_inv t st' /\ c4_measure t st' < c4_measure t st.
Proof. exact c4_micro_progress. Qed.
(* cmap4_iter_steps: for EVERY segment array the whole iteration takes at most 65536 + segCount + 1 loop turns *)
Theorem c01_cmap4_iter_steps : forall t fuel,
  Forall (fun v => 0 <= v <= 65535) (c4_start t) -> Forall (fun v => 0 <= v <= 65535) (c4_end t) ->
  65536 + Z.of_nat (length (c4_start t)) + 1 < Z.of_nat fuel ->
  snd (iter_run (c4_micro t) fuel (c4_iter_new t)) = true /\
  Z.of_nat (length (fst (iter_run (c4_micro t) fuel (c4_iter_new t)))) <= 65536 + Z.of_nat (length (c4_start t)) + 1.
Proof. exact cmap4_iter_steps_lemma. Qed.
(* a yielded code point is the start of the current range, which then moves past it (with c01_cmap4_micro_progress:
   the end never moves backwards, the next range never starts before it — code points come out strictly ascending) *)
Theorem c01_cmap4_yield_bounds : forall t st c g st', c4_micro t st = Some (Ok (Some (c, g)), st') ->
  c = i4_s st /\ i4_s st < i4_e st /\ i4_s st' = c + 1 /\ i4_e st' = i4_e st.
Proof. exact c4_micro_yield_bounds. Qed.

Print Assumptions c01_cmap4_micro_progress.
Print Assumptions c01_cmap4_iter_steps.
Print Assumptions c01_cmap4_yield_bounds.
