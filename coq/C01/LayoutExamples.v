(* C01 item 2 -- non-vacuity examples for LayoutProps.v and witnesses that the boolean check discriminates:
   hand-mutated variants of extracted layouts that are rejected by wf_safe AND really panic in the model. *)
From Coq Require Import ZArith List String Bool.
From FV Require Import C01.Layout C01.LayoutGen C01.LayoutProofs C01.LayoutCheck.
Import ListNotations.
Open Scope string_scope.
Open Scope Z_scope.

(* an environment in which every scalar read yields [v], every gate evaluates to [gate] *)
Definition env_const (v : Z) (gate : bool) : env :=
  mk_env (fun _ _ => v) (fun _ _ => 0) (fun _ _ => Some 4) (fun _ _ => gate) (fun _ _ _ => Some 0).

(* [outcomes L argv E len]: None if `read` fails, else the outcome of every getter *)
Definition outcomes (L : rlayout) (argv : list Z) (E : env) (len : Z) : option (list gout) :=
  match run_read L argv E len with
  | Some m => Some (map (eval_getter L E m len) (r_getters L))
  | None => None
  end.
Definition ranges (L : rlayout) (argv : list Z) (E : env) (len : Z) : option (list (string * rval)) :=
  match run_read L argv E len with Some m => ranges_of L m | None => None end.
Definition panics (L : rlayout) (argv : list Z) (E : env) (len : Z) : bool :=
  match outcomes L argv E len with
  | Some l => existsb (fun o => match o with GPanic => true | _ => false end) l
  | None => false
  end.

(* the hypotheses of getters_safe are satisfiable: `gasp` with num_ranges = 2 needs 4 + 2*4 = 12 bytes *)
Example gasp_reads : wf_safe L_Gasp = true /\
  outcomes L_Gasp [] (env_const 2 false) 12 = Some [GValue; GValue; GValue] /\
  ranges L_Gasp [] (env_const 2 false) 12
    = Some [("gasp_ranges", RRange 4 12); ("num_ranges", RRange 2 4); ("version", RRange 0 2)].
Proof. vm_compute. repeat split. Qed.
Example gasp_too_short : run_read L_Gasp [] (env_const 2 false) 11 = None.
Proof. vm_compute. reflexivity. Qed.

(* gated fields: `post` version 2 (gate on) has num_glyphs / glyph_name_index / string_data, version 3 (gate off) does not *)
Example post_gate_on :
  option_map (skipn 9) (outcomes L_Post [] (env_const 1 true) 40) = Some [GValue; GValue; GValue].
Proof. vm_compute. reflexivity. Qed.
Example post_gate_off :
  option_map (skipn 9) (outcomes L_Post [] (env_const 1 false) 32) = Some [GAbsent; GAbsent; GAbsent].
Proof. vm_compute. reflexivity. Qed.

(* a table with read arguments and a ComputedArray getter (record size 4 from env_const's compute_size) *)
Example pairset_reads : outcomes L_PairSet [4; 0] (env_const 3 false) 14 = Some [GValue; GValue].
Proof. vm_compute. reflexivity. Qed.

Example many_layouts : (200 <=? Z.of_nat (List.length (layouts_except known_unsafe all_layouts))) = true.
Proof. vm_compute. reflexivity. Qed.

(* ---- the check is not vacuous: mutated layouts are rejected, and each of them panics on some input *)

(* (1) a `cursor.advance::<u16>()` dropped from `read`: marker ranges run 2 bytes ahead of the cursor *)
Definition Gasp_dropped_advance : rlayout :=
  mk_rlayout "Gasp" [] (tl (r_ops L_Gasp)) (r_marker L_Gasp) (r_rules L_Gasp) (r_getters L_Gasp).
Example dropped_advance_refuted : wf_safe Gasp_dropped_advance = false /\
  panics Gasp_dropped_advance [] (env_const 0 false) 2 = true.
Proof. vm_compute. split; reflexivity. Qed.

(* (2) the checked_mul uses another element size than the getter's read_array *)
Definition Gasp_wrong_size : rlayout :=
  mk_rlayout "Gasp" [] [OAdvance 2; ORead "num_ranges" 2; OLen "gasp_ranges" (LMul (CLocal "num_ranges") (ESz 3)); OAdvanceBy "gasp_ranges"]
             (r_marker L_Gasp) (r_rules L_Gasp) (r_getters L_Gasp).
Example wrong_size_refuted : wf_safe Gasp_wrong_size = false /\ panics Gasp_wrong_size [] (env_const 1 false) 7 = true.
Proof. vm_compute. split; reflexivity. Qed.

(* (3) the gate of `position()` differs from the gate of the advance *)
Definition env_gateA : env :=
  mk_env (fun _ _ => 0) (fun _ _ => 0) (fun _ _ => Some 0) (fun t _ => String.eqb t "A") (fun _ _ _ => Some 0).
Definition Gate_mismatch : rlayout :=
  mk_rlayout "T" [] [ORead "version" 2; OCondStart "x" (Cond "version" "A"); OCondAdvance (Cond "version" "B") 2] ["x_byte_start"]
             [mk_rule "version" SZero (RFixed 2); mk_rule "x" (SVar "x") (RFixed 2)]
             [mk_getter "version" "version" false (AReadAt 2); mk_getter "x" "x" true (AReadAt 2)].
Definition Gate_match : rlayout :=
  mk_rlayout "T" [] [ORead "version" 2; OCondStart "x" (Cond "version" "A"); OCondAdvance (Cond "version" "A") 2] ["x_byte_start"]
             (r_rules Gate_mismatch) (r_getters Gate_mismatch).
Example gate_mismatch_refuted : wf_safe Gate_match = true /\ wf_safe Gate_mismatch = false /\
  panics Gate_mismatch [] env_gateA 2 = true /\ panics Gate_match [] env_gateA 4 = false.
Proof. vm_compute. repeat split. Qed.

(* (4) a getter reading a wider scalar than its range *)
Definition Gasp_wide_getter : rlayout :=
  mk_rlayout "Gasp" [] (r_ops L_Gasp) (r_marker L_Gasp) (r_rules L_Gasp)
             [mk_getter "num_ranges" "num_ranges" false (AReadAt 4)].
Example wide_getter_refuted : wf_safe Gasp_wide_getter = false /\ panics Gasp_wide_getter [] (env_const 0 false) 4 = true.
Proof. vm_compute. split; reflexivity. Qed.

(* the var-len arrays read from range.start to the END of the data (over-read, not a panic): safe, not exact *)
Example split_off_is_safe_not_exact : wf_safe L_Avar = true /\ wf_exact L_Avar = false.
Proof. vm_compute. split; reflexivity. Qed.
