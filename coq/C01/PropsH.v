(* C01 part 3, round 2 — property theorems for hand-written helpers that loop or index on font data.
   Only statements, [exact lemma] and Print Assumptions.  Models: coq/C01/ModelH.v. *)
From Coq Require Import ZArith List.
From FV Require Import Lib.RustInt C01.Model C01.Core C01.ModelH C01.ProofsH C01.ProofsH2.
Import ListNotations.
Open Scope Z_scope.

(* glyf SimpleGlyph::read_points_fast: never panics — for every glyph data, every point count n (usize) and every
   caller flag buffer (flags[i], flags[i..i+count], n_points - i and every += are in range); Err or exactly n points *)
Theorem c01_read_points_fast_total : forall n data fl0, valid data -> 0 <= n <= USIZE_MAX -> read_points_fast n data fl0 <> Panic.
Proof. exact read_points_fast_total. Qed.
Theorem c01_read_points_fast_length : forall n data fl0 l, valid data -> 0 <= n <= USIZE_MAX ->
  read_points_fast n data fl0 = Ok l -> Z.of_nat (length l) = 3 * n.
Proof. exact read_points_fast_length. Qed.
(* its flag loop is bounded by the number of flag bytes (<= min(n, len)): more fuel changes nothing;
   the two coordinate passes are structural recursions over the n flags *)
Theorem c01_read_points_fast_flag_steps : forall fuel n fd i rfb fl, (length fd <= fuel)%nat ->
  flag_loop fuel n fd i rfb fl = flag_loop (length fd) n fd i rfb fl.
Proof. exact flag_loop_fuel. Qed.

(* glyf SimpleGlyph::points() (points_impl + resolve_coords_len + PointIter): building the iterator never panics
   (u32 sums, split_at), iteration never panics and ends within 256 * len(data) + 1 calls *)
Theorem c01_points_total_steps : forall last data, valid data -> (forall l, last = Some l -> 0 <= l <= 65535) ->
  exists it, points_iter last data = Ok it /\
    forall fuel, piter_run fuel it <> Panic /\
      (256 * blen data < Z.of_nat fuel -> exists l, piter_run fuel it = Ok (l, true) /\ Z.of_nat (length l) <= 768 * blen data).
Proof. exact points_total_steps_lemma. Qed.

(* variations PackedPointNumbers: split_off_front (total_len) and iter never panic; count <= 32767;
   the iterator ends within 65537 calls and yields at most count values (65536 - "all points" - when count = 0) *)
Theorem c01_packed_point_numbers_total_steps : forall d, bytes d ->
  ppn_split_off_front d <> Panic /\ 0 <= fst (ppn_count_bytes d) <= 32767 /\
  forall fuel, ppn_run fuel (ppn_iter d) <> Panic /\
    (65536 < Z.of_nat fuel -> exists l, ppn_run fuel (ppn_iter d) = Ok (l, true) /\
       Z.of_nat (length l) <= (if fst (ppn_count_bytes d) =? 0 then 65536 else fst (ppn_count_bytes d))).
Proof. exact ppn_total_lemma. Qed.

(* variations PackedDeltas::consume_all + iter: count_all_deltas terminates with count <= 64 * (len + 1)
   (for data below 2^56 bytes, where the usize sums cannot overflow); the iterator never panics and yields <= count values *)
Theorem c01_packed_deltas_total_steps : forall d, bytes d -> blen d <= 2 ^ 56 ->
  exists count, count_all_deltas d = Ok count /\ 0 <= count <= 64 * (blen d + 1) /\
    forall fuel, delta_run fuel (mkdi count 0 1 (cursor0 d)) <> Panic /\
      (count < Z.of_nat fuel -> exists l, delta_run fuel (mkdi count 0 1 (cursor0 d)) = Ok (l, true) /\ Z.of_nat (length l) <= count).
Proof. exact packed_deltas_total_lemma. Qed.

(* cmap format 12 iteration (with or without limits): `next` never panics and its group-skipping loop ends within
   (number of groups + 1) rounds (the model's out-of-fuel marker is unreachable) *)
Theorem c01_cmap12_iter_total : forall groups lim n, Z.of_nat (length groups) < USIZE_MAX ->
  cmap12_take n groups lim (cmap12_iter_new groups lim) <> Panic /\
  (forall e, cmap12_take n groups lim (cmap12_iter_new groups lim) <> Err e).
Proof. exact cmap12_iter_total_lemma. Qed.
(* with limits, each group contributes at most glyph_count code points, all <= max_char *)
Theorem c01_cmap12_group_limits : forall groups i mc gc s e sc sg, 0 <= gc ->
  (forall g, nthz groups i = Some g -> 0 <= field g 0 4 /\ 0 <= field g 8 4) ->
  cmap12_group groups i (Some (mc, gc)) = Some (s, e, sc, sg) -> e - s <= gc /\ e <= mc + 1.
Proof. exact cmap12_group_limits. Qed.

(* postscript/dict.rs parse_bcd (real-number operand, prefix byte 30): for every byte string and cursor position it
   returns a number or InvalidNumber / OutOfBounds - the 32-byte digit buffer is never indexed out of range (also for the
   two-character token "E-"), the accepted string has at most 32 characters; the loop reads each byte at most once *)
Theorem c01_parse_bcd_total : forall c, 0 <= cpos c <= USIZE_MAX ->
  match snd (parse_bcd c) with
  | Ok s => blen s <= 32 /\ f64_syntax_ok s = true
  | Err e => e = InvalidNumber \/ e = OutOfBounds
  | Panic => False
  end.
Proof. exact parse_bcd_total_lemma. Qed.

Print Assumptions c01_read_points_fast_total.
Print Assumptions c01_read_points_fast_length.
Print Assumptions c01_read_points_fast_flag_steps.
Print Assumptions c01_points_total_steps.
Print Assumptions c01_packed_point_numbers_total_steps.
Print Assumptions c01_packed_deltas_total_steps.
Print Assumptions c01_cmap12_iter_total.
Print Assumptions c01_cmap12_group_limits.
Print Assumptions c01_parse_bcd_total.
