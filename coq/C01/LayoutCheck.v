(* C01 item 2 -- the reflective check run on the terms extracted from /repo on every run.
   [known_unsafe] lists, BY NAME, the generated tables that the translator understands but that are not
   wf_safe (each is a reported finding).  It is empty for the current tree. *)
From Coq Require Import ZArith List String Bool.
From FV Require Import C01.Layout C01.LayoutGen.
Import ListNotations.
Open Scope string_scope.

Definition known_unsafe : list string := [].

Lemma all_layouts_wf_safe : forallb wf_safe (layouts_except known_unsafe all_layouts) = true.
Proof. vm_compute. reflexivity. Qed.

Lemma known_unsafe_empty : known_unsafe = [].
Proof. reflexivity. Qed.
