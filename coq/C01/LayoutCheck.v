(* C01 item 2 -- the reflective check run on the terms extracted from /repo on every run.
   [known_unsafe] lists, BY NAME, the generated tables that the translator understands but that are not
   wf_safe (each is a reported finding).  It is empty for the current tree. *)
From Coq Require Import ZArith List String Bool.
From FV Require Import C01.Layout C01.LayoutGen.
Import ListNotations.
Open Scope string_scope.

Definition known_unsafe : list string := [].

(* diagnostic: names of the layouts that fail the check (must print the empty list) *)
Eval vm_compute in (map r_name (filter (fun L => negb (wf_safe L)) (layouts_except known_unsafe all_layouts))).

Lemma all_layouts_wf_safe : forallb wf_safe (layouts_except known_unsafe all_layouts) = true.
Proof. vm_compute. reflexivity. Qed.

Lemma known_unsafe_empty : known_unsafe = [].
Proof. reflexivity. Qed.

(* ------------------------------------------------------------------------------------------------
   Validation of the extraction against the real readers (harness/src/bin/c01l.rs): the layout term is
   interpreted in the environment determined by concrete bytes and compared with what `T::read` and the
   marker's pub `*_byte_range` functions returned.  Only unsigned scalars are decoded (the sample of tables
   in the harness has no signed count fields). *)
Open Scope Z_scope.

Fixpoint be_at (bytes : list Z) (p w : nat) (acc : Z) : Z :=
  match w with
  | O => acc
  | S w' => be_at bytes (S p) w' (acc * 256 + nth p bytes 0)
  end.

Fixpoint popcount (n : nat) (v : Z) : Z :=
  match n with O => 0 | S k => v mod 2 + popcount k (v / 2) end.

Definition satu (z : Z) : Z := Z.min usize_max (Z.max 0 z).

(* read-fonts/src/lib.rs `mod transforms` *)
Definition real_fn (name : string) (a : list Z) : Z :=
  match a with
  | [x] => if String.eqb name "transforms::half" then x / 2
           else if String.eqb name "transforms::bitmap_len" then (x + 7) / 8
           else 0
  | [x; y] => if String.eqb name "transforms::subtract" then Z.max 0 (x - y)
              else if String.eqb name "transforms::add" then satu (x + y)
              else if String.eqb name "transforms::subtract_add_two" then satu (Z.max 0 (x - y) + 2)
              else 0
  | [x; y; z] => if String.eqb name "transforms::add_multiply" then satu (satu (x + y) * z)
                 else if String.eqb name "transforms::multiply_add" then satu (satu (x * y) + z)
                 else 0
  | _ => 0
  end.

(* hand-written ComputeSize impls of the sampled tables *)
(* ValueFormat decodes with from_bits_truncate: only the 8 defined bits count *)
Definition vr_len (fmt : Z) : Z := popcount 8 fmt * 2.
Definition real_csize (ty : string) (a : list Z) : option Z :=
  match a with
  | [x] => if String.eqb ty "ValueRecord" then Some (vr_len x)
           else if String.eqb ty "Tuple" then Some (x * 2)
           else if String.eqb ty "U16Or32" then Some (if Z.odd x then 4 else 2)
           else None
  | [x; y] => if String.eqb ty "PairValueRecord" then Some (2 + vr_len x + vr_len y)
              else if String.eqb ty "InstanceRecord" then Some y
              else if String.eqb ty "DeviceRecord" then Some y
              else None
  | _ => None
  end.

(* vkind: 0 = MajorMinor, 1 = Version16Dot16 (minor in the top nibble of the low half) *)
Definition real_cond (vkind : Z) (test : string) (v : Z) : bool :=
  match lookup test cond_sems with
  | Some (CGe n) => n <=? v
  | Some (CMajMin a b) => (v / 65536 =? a) && (b <=? (if vkind =? 0 then v mod 65536 else (v mod 65536) / 4096))
  | Some (CMaskAll m) => Z.land v m =? m
  | Some (CMaskAny m) => negb (Z.land v m =? 0)
  | None => false
  end.

Definition real_env (vkind : Z) (bytes : list Z) : env :=
  mk_env (fun p w => be_at bytes (Z.to_nat p) (Z.to_nat w) 0) real_fn real_csize (real_cond vkind)
         (fun _ _ _ => None).

(* case = (table, vkind, args, bytes, what the implementation did: None = read returned Err,
   Some ranges = every `shape().f_byte_range()`, None for an absent optional range) *)
Definition lcase : Type := (string * Z * list Z * list Z * option (list (string * option (Z * Z))))%type.

Definition rval_matches (rv : list (string * rval)) (x : string * option (Z * Z)) : bool :=
  match lookup (fst x) rv, snd x with
  | Some RAbsent, None => true
  | Some (RRange a b), Some (a', b') => (a =? a') && (b =? b')
  | _, _ => false
  end.

Definition check_case (c : lcase) : bool :=
  match c with
  | (name, vkind, argv, bytes, expect) =>
    match find (fun L => String.eqb (r_name L) name) all_layouts with
    | None => false
    | Some L =>
      let E := real_env vkind bytes in
      let len := Z.of_nat (List.length bytes) in
      match run_read L argv E len, expect with
      | None, None => true
      | Some m, Some rs =>
          match ranges_of L m with
          | Some rv => (Nat.eqb (List.length rv) (List.length rs)) && forallb (rval_matches rv) rs
                       && forallb (fun g => match eval_getter L E m len g with GValue | GAbsent => true | _ => false end)
                                  (r_getters L)
          | None => false
          end
      | _, _ => false
      end
    end
  end.
