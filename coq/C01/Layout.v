(* C01 item 2 -- "all generated table shapes": the layout-program DSL into which
   translators/layout_extract.py translates every generated table reader of
   /repo/read-fonts/generated/*.rs, its interpreter (the cursor walk of `read`), the evaluator of the
   marker's `*_byte_range` functions, the evaluator of the getters (with an explicit Panic outcome where
   the generated getter `.unwrap()`s an `Err`/`None`), and the boolean well-formedness check [wf_safe].
   No proofs here (see LayoutProofs.v). *)
From Coq Require Import ZArith List String Bool.
Import ListNotations.
Open Scope string_scope.
Open Scope Z_scope.

Definition usize_max : Z := 18446744073709551615.   (* 2^64 - 1 *)
Definition isize_max : Z := 9223372036854775807.    (* a Rust slice is never longer than isize::MAX bytes *)
Definition usz (z : Z) : Z := z mod 18446744073709551616.   (* a value of type usize *)

(* ---------------------------------------------------------------- syntax *)

(* count expressions: kept symbolic; safety never depends on their meaning *)
Inductive cnt :=
  | CLocal (f : string)                         (* `(f as usize)` / `f`            *)
  | CConst (n : Z)                              (* `256_usize`                      *)
  | COpaque (fn : string) (args : list cnt).    (* transforms::add(..), TupleIndex::tuple_len(..), .. *)

Inductive esz :=
  | ESz (w : Z)                                 (* `T::RAW_BYTE_LEN`                *)
  | ECompute (ty : string) (args : list string). (* `<T as ComputeSize>::compute_size(&args)?` *)

Inductive lenexp :=
  | LMul (c : cnt) (e : esz)      (* (c).checked_mul(e).ok_or(OutOfBounds)? *)
  | LSize (e : esz)               (* e                                      *)
  | LRemainder (w : Z)            (* cursor.remaining_bytes() / w * w       *)
  | LRemaining                    (* cursor.remaining_bytes()               *)
  | LVarLen (ty : string) (c : cnt). (* { let data = cursor.remaining().ok_or(..)?; <ty as VarSize>::total_len_for_count(data, c)? } *)

Inductive cond := Cond (local : string) (test : string).  (* version.compatible(..) / flags.contains(..) / flags.intersects(..) *)

(* one statement of the generated `read` body, between `let mut cursor = data.cursor()` and `cursor.finish(..)` *)
Inductive rop :=
  | OAdvance (w : Z)                            (* cursor.advance::<T>()                                        *)
  | ORead (f : string) (w : Z)                  (* let f: T = cursor.read()?                                    *)
  | OLen (f : string) (e : lenexp)              (* let f_byte_len = e                                           *)
  | OAdvanceBy (f : string)                     (* cursor.advance_by(f_byte_len)                                *)
  | OCondStart (f : string) (c : cond)          (* let f_byte_start = c.then(|| cursor.position()).transpose()? *)
  | OCondAdvance (c : cond) (w : Z)             (* c.then(|| cursor.advance::<T>())                             *)
  | OCondRead (f : string) (c : cond) (w : Z)   (* let f = c.then(|| cursor.read::<T>()).transpose()?.unwrap_or_default() *)
  | OCondLen (f : string) (c : cond) (e : lenexp) (* let f_byte_len = c.then_some(e)   (e is evaluated eagerly)  *)
  | OCondAdvanceBy (f : string).                (* if let Some(value) = f_byte_len { cursor.advance_by(value); } *)

(* `fn f_byte_range(&self)` of the marker:  let start = <rstart>; start..start + <rlen> *)
Inductive rstart :=
  | SZero                                       (* 0                                                     *)
  | SAfter (p : string)                         (* self.p_byte_range().end                               *)
  | SVar (f : string)                           (* self.f_byte_start?                                    *)
  | SChain (opts : list string) (last : string). (* self.o1_byte_range().map(|r| r.end).unwrap_or_else(|| .. self.last_byte_range().end) *)
Inductive rlen :=
  | RFixed (w : Z)                              (* T::RAW_BYTE_LEN       *)
  | RLenVar (f : string)                        (* self.f_byte_len       *)
  | RLenVarOpt (f : string).                    (* self.f_byte_len?      *)
Record rrule := mk_rule { rr_name : string; rr_start : rstart; rr_len : rlen }.

(* getters:  let range = self.shape.<g_field>_byte_range()[?];  <access>  *)
Inductive garg :=
  | GAField (f : string) (w : Z)                (* self.f()  where f is a plain read_at getter of width w *)
  | GAShape (x : string).                       (* self.x()  = self.shape.x  (a read argument kept in the marker) *)
Inductive access :=
  | AReadAt (w : Z)                             (* self.data.read_at(range.start).unwrap()               *)
  | AReadArray (z : Z)                          (* self.data.read_array(range).unwrap()   element size z *)
  | AReadArgs (direct : bool) (ty : string) (args : list garg)
        (* self.data.read_with_args(range, &args).unwrap();  direct = false: ComputedArray<ty>; true: ty itself *)
  | ASplitOff.                                  (* VarLenArray::read(self.data.split_off(range.start).unwrap()).unwrap() *)
Record getter := mk_getter { g_name : string; g_field : string; g_opt : bool; g_acc : access }.

Record rlayout := mk_rlayout {
  r_name : string; r_args : list string; r_ops : list rop; r_marker : list string;
  r_rules : list rrule; r_getters : list getter }.

(* ---------------------------------------------------------------- environment = everything the byte
   contents and the hand-written helper functions decide.  The theorems quantify over ALL environments. *)
Record env := mk_env {
  e_oracle : Z -> Z -> Z;                        (* value decoded from the w bytes at position p *)
  e_fn : string -> list Z -> Z;                  (* hand-written count functions (transforms::*, ..) *)
  e_csize : string -> list Z -> option Z;        (* <ty as ComputeSize>::compute_size(args); None = Err *)
  e_cond : string -> Z -> bool;                  (* test applied to the value of a local *)
  e_varlen : string -> Z -> Z -> option Z }.     (* <ty as VarSize>::total_len_for_count(data[pos..], count); None = Err *)

(* ---------------------------------------------------------------- interpreter of the cursor walk *)

Fixpoint lookup {A : Type} (k : string) (l : list (string * A)) : option A :=
  match l with
  | [] => None
  | (k', v) :: r => if String.eqb k k' then Some v else lookup k r
  end.

Inductive lval := LV (l : Z) | LO (o : option Z).       (* `usize` / `Option<usize>` marker length *)

Record st := mk_st {
  s_pos : Z;                                   (* Cursor::pos *)
  s_locals : list (string * Z);                (* read arguments and scalars bound by `let f: T = cursor.read()?` *)
  s_lens : list (string * lval);               (* f_byte_len   *)
  s_starts : list (string * option Z) }.       (* f_byte_start *)

Definition locval (loc : list (string * Z)) (f : string) : Z :=
  match lookup f loc with Some v => v | None => 0 end.

Fixpoint eval_cnt (E : env) (loc : list (string * Z)) (c : cnt) : Z :=
  match c with
  | CLocal f => locval loc f
  | CConst n => n
  | COpaque fn args => e_fn E fn (map (eval_cnt E loc) args)
  end.

Definition eval_esz (E : env) (loc : list (string * Z)) (e : esz) : option Z :=
  match e with
  | ESz w => Some w
  | ECompute ty args => option_map usz (e_csize E ty (map (locval loc) args))
  end.

(* usize::checked_mul *)
Definition checked_mul (a b : Z) : option Z := if a * b <=? usize_max then Some (a * b) else None.
(* usize::saturating_add, as used by Cursor::advance / advance_by.  The addend is a `usize`, hence >= 0;
   [Z.max 0 n] makes that typing fact explicit for the model's unbounded integers. *)
Definition sat_add (p n : Z) : Z := Z.min usize_max (p + Z.max 0 n).
(* Cursor::remaining_bytes = len.saturating_sub(pos) *)
Definition remaining (len pos : Z) : Z := Z.max 0 (len - pos).

Definition eval_len (E : env) (len pos : Z) (loc : list (string * Z)) (e : lenexp) : option Z :=
  match e with
  | LMul c z => match eval_esz E loc z with
                | Some s => checked_mul (usz (eval_cnt E loc c)) s
                | None => None
                end
  | LSize z => eval_esz E loc z
  | LRemainder w => Some (remaining len pos / w * w)
  | LRemaining => Some (remaining len pos)
  | LVarLen ty c => if pos <=? len then option_map usz (e_varlen E ty (usz (eval_cnt E loc c)) pos) else None
  end.

Definition eval_cond (E : env) (loc : list (string * Z)) (c : cond) : bool :=
  match c with Cond l t => e_cond E t (locval loc l) end.

Definition set_pos (s : st) (p : Z) : st := mk_st p (s_locals s) (s_lens s) (s_starts s).
Definition bind_local (s : st) (f : string) (v : Z) : st := mk_st (s_pos s) ((f, v) :: s_locals s) (s_lens s) (s_starts s).
Definition bind_len (s : st) (f : string) (v : lval) : st := mk_st (s_pos s) (s_locals s) ((f, v) :: s_lens s) (s_starts s).
Definition bind_start (s : st) (f : string) (v : option Z) : st := mk_st (s_pos s) (s_locals s) (s_lens s) ((f, v) :: s_starts s).

(* Cursor::read::<T>(): FontData::read_at(pos) (checked_add + slice get) then advance *)
Definition do_read (E : env) (len : Z) (s : st) (f : string) (w : Z) : option st :=
  if s_pos s + w <=? len
  then Some (set_pos (bind_local s f (e_oracle E (s_pos s) w)) (sat_add (s_pos s) w))
  else None.

(* None = `read` returns Err (or the statement is ill-typed, which rustc excludes) *)
Definition step (E : env) (len : Z) (o : rop) (s : st) : option st :=
  match o with
  | OAdvance w => Some (set_pos s (sat_add (s_pos s) w))
  | ORead f w => do_read E len s f w
  | OLen f e => match eval_len E len (s_pos s) (s_locals s) e with
                | Some l => Some (bind_len s f (LV l))
                | None => None
                end
  | OAdvanceBy f => match lookup f (s_lens s) with
                    | Some (LV l) => Some (set_pos s (sat_add (s_pos s) l))
                    | _ => None
                    end
  | OCondStart f c =>
      if eval_cond E (s_locals s) c
      then (if s_pos s <=? len then Some (bind_start s f (Some (s_pos s))) else None)   (* Cursor::position *)
      else Some (bind_start s f None)
  | OCondAdvance c w => if eval_cond E (s_locals s) c then Some (set_pos s (sat_add (s_pos s) w)) else Some s
  | OCondRead f c w => if eval_cond E (s_locals s) c then do_read E len s f w else Some (bind_local s f 0)
  | OCondLen f c e => match eval_len E len (s_pos s) (s_locals s) e with
                      | Some l => Some (bind_len s f (LO (if eval_cond E (s_locals s) c then Some l else None)))
                      | None => None
                      end
  | OCondAdvanceBy f => match lookup f (s_lens s) with
                        | Some (LO (Some l)) => Some (set_pos s (sat_add (s_pos s) l))
                        | Some (LO None) => Some s
                        | _ => None
                        end
  end.

Fixpoint run_ops (E : env) (len : Z) (ops : list rop) (s : st) : option st :=
  match ops with
  | [] => Some s
  | o :: r => match step E len o s with Some s' => run_ops E len r s' | None => None end
  end.

Definition init_st (L : rlayout) (args : list Z) : st := mk_st 0 (combine (r_args L) args) [] [].

(* the marker = the final state (lens, starts and the read arguments are what `finish(Marker{..})` stores).
   Cursor::finish succeeds iff pos <= len. *)
Definition run_read (L : rlayout) (args : list Z) (E : env) (len : Z) : option st :=
  match run_ops E len (r_ops L) (init_st L args) with
  | Some s => if s_pos s <=? len then Some s else None
  | None => None
  end.

(* ---------------------------------------------------------------- marker ranges.
   [start + width] is NOT saturating in the generated code; ranges are evaluated over Z here and
   [ranges_no_overflow] shows that every end is <= len. *)
Inductive rval := RAbsent | RRange (s e : Z).

Fixpoint chain_end (rv : list (string * rval)) (opts : list string) (last : string) : option Z :=
  match opts with
  | [] => match lookup last rv with Some (RRange _ e) => Some e | _ => None end
  | o :: r => match lookup o rv with
              | Some (RRange _ e) => Some e
              | Some RAbsent => chain_end rv r last
              | None => None
              end
  end.

(* outer None: ill-formed reference (not valid Rust); inner None: the `?` returns None *)
Definition eval_start (m : st) (rv : list (string * rval)) (s : rstart) : option (option Z) :=
  match s with
  | SZero => Some (Some 0)
  | SAfter p => match lookup p rv with Some (RRange _ e) => Some (Some e) | _ => None end
  | SVar f => lookup f (s_starts m)
  | SChain opts last => option_map Some (chain_end rv opts last)
  end.

Definition eval_rlen (m : st) (l : rlen) : option (option Z) :=
  match l with
  | RFixed w => Some (Some w)
  | RLenVar f => match lookup f (s_lens m) with Some (LV l) => Some (Some l) | _ => None end
  | RLenVarOpt f => match lookup f (s_lens m) with Some (LO o) => Some o | _ => None end
  end.

Definition eval_rule (m : st) (rv : list (string * rval)) (r : rrule) : option rval :=
  match eval_start m rv (rr_start r), eval_rlen m (rr_len r) with
  | Some (Some s), Some (Some l) => Some (RRange s (s + l))
  | Some None, Some _ => Some RAbsent
  | Some (Some _), Some None => Some RAbsent
  | _, _ => None
  end.

Fixpoint eval_rules (m : st) (rv : list (string * rval)) (rules : list rrule) : option (list (string * rval)) :=
  match rules with
  | [] => Some rv
  | r :: rest => match eval_rule m rv r with
                 | Some v => eval_rules m ((rr_name r, v) :: rv) rest
                 | None => None
                 end
  end.

Definition ranges_of (L : rlayout) (m : st) : option (list (string * rval)) := eval_rules m [] (r_rules L).

(* ---------------------------------------------------------------- getters *)
Inductive gout :=
  | GValue      (* the getter returns a value                                           *)
  | GAbsent     (* the getter returns None (version/flag-gated field that is not there) *)
  | GPanic      (* an `.unwrap()` in the getter hits Err/None                           *)
  | GStuck.     (* ill-formed layout term (cannot come from code rustc accepts)         *)

Definition eval_garg (E : env) (m : st) (rv : list (string * rval)) (a : garg) : Z :=
  match a with
  | GAField f w => match lookup f rv with Some (RRange s _) => e_oracle E s w | _ => 0 end
  | GAShape x => locval (s_locals m) x
  end.

Definition eval_access (E : env) (m : st) (rv : list (string * rval)) (len s e : Z) (a : access) : gout :=
  match a with
  | AReadAt w =>                       (* read_at: offset.checked_add(w)?; bytes.get(offset..end)? *)
      if s + w <=? len then GValue else GPanic
  | AReadArray z =>                    (* bytes.get(range)?; len.checked_rem(size).unwrap_or(1) != 0 => Err *)
      if (s <=? e) && (e <=? len) && negb (z =? 0) && ((e - s) mod z =? 0) then GValue else GPanic
  | ASplitOff =>                       (* bytes.get(pos..) *)
      if s <=? len then GValue else GPanic
  | AReadArgs direct ty args =>        (* self.slice(range)? then T::read_with_args(slice, args) *)
      if (s <=? e) && (e <=? len) then
        match e_csize E ty (map (eval_garg E m rv) args) with
        | None => GPanic               (* ComputedArray::new: T::compute_size(&args)? *)
        | Some sz => if direct then (if usz sz <=? e - s then GValue else GPanic)  (* record needs compute_size bytes *)
                     else GValue
        end
      else GPanic
  end.

Definition eval_getter (L : rlayout) (E : env) (m : st) (len : Z) (g : getter) : gout :=
  match ranges_of L m with
  | None => GStuck
  | Some rv =>
      match lookup (g_field g) rv with
      | None => GStuck
      | Some RAbsent => if g_opt g then GAbsent else GStuck
      | Some (RRange s e) => eval_access E m rv len s e (g_acc g)
      end
  end.

(* ---------------------------------------------------------------- well-formedness (the reflective check) *)

Definition mem (x : string) (l : list string) : bool := existsb (String.eqb x) l.
Fixpoint list_eqb (a b : list string) : bool :=
  match a, b with
  | [], [] => true
  | x :: a', y :: b' => String.eqb x y && list_eqb a' b'
  | _, _ => false
  end.
Definition rstart_eqb (a b : rstart) : bool :=
  match a, b with
  | SZero, SZero => true
  | SAfter p, SAfter q => String.eqb p q
  | SVar p, SVar q => String.eqb p q
  | SChain o l, SChain o' l' => list_eqb o o' && String.eqb l l'
  | _, _ => false
  end.
Definition cond_eqb (a b : cond) : bool :=
  match a, b with Cond l t, Cond l' t' => String.eqb l l' && String.eqb t t' end.
Definition okw (w : Z) : bool := (0 <? w) && (w <? 4294967296).

(* what the symbolic cursor walk knows about a field *)
Record finfo := mk_finfo {
  fi_opt : bool;                         (* gated: range is Option<Range> *)
  fi_fixed : option Z;                   (* scalar of this width *)
  fi_div : Z;                            (* the range length is a multiple of this *)
  fi_read : bool;                        (* bound as a local by `cursor.read()` (unconditionally) *)
  fi_csz : option (string * list string);(* element/record size comes from <ty as ComputeSize>::compute_size(args) *)
  fi_exact : bool }.                     (* the length is exactly one such size (LSize) *)

Definition bound_name (args : list string) (acc : list (string * finfo)) (a : string) : bool :=
  mem a args || match lookup a acc with Some i => fi_read i | None => false end.

Definition wf_esz (args : list string) (acc : list (string * finfo)) (e : esz) : bool :=
  match e with
  | ESz w => okw w
  | ECompute _ an => forallb (bound_name args acc) an
  end.
Definition wf_lenexp (args : list string) (acc : list (string * finfo)) (e : lenexp) : bool :=
  match e with
  | LMul _ z => wf_esz args acc z
  | LSize z => wf_esz args acc z
  | LRemainder w => okw w
  | LRemaining => true
  | LVarLen _ _ => true
  end.
Definition info_of_len (opt : bool) (e : lenexp) : finfo :=
  match e with
  | LMul _ (ESz w) => mk_finfo opt None w false None false
  | LMul _ (ECompute ty an) => mk_finfo opt None 1 false (Some (ty, an)) false
  | LSize (ESz w) => mk_finfo opt None w false None false
  | LSize (ECompute ty an) => mk_finfo opt None 1 false (Some (ty, an)) true
  | LRemainder w => mk_finfo opt None w false None false
  | LRemaining => mk_finfo opt None 1 false None false
  | LVarLen _ _ => mk_finfo opt None 1 false None false
  end.
Definition info_fixed (opt : bool) (w : Z) (rd : bool) : finfo := mk_finfo opt (Some w) w rd None false.

Definition seen (args : list string) (acc : list (string * finfo)) (n : string) : bool :=
  mem n args || match lookup n acc with Some _ => true | None => false end.

(* what the start of the next un-gated field must look like after a gated field *)
Definition push_opt (pv : rstart) (n : string) : option rstart :=
  match pv with
  | SAfter p => Some (SChain [n] p)
  | SChain o l => Some (SChain (n :: o) l)
  | _ => None
  end.

Definition rlen_is (l : rlen) (k : Z) (n : string) : bool :=   (* k = 0: RLenVar n; 1: RLenVarOpt n *)
  match l with
  | RLenVar f => (k =? 0) && String.eqb f n
  | RLenVarOpt f => (k =? 1) && String.eqb f n
  | RFixed _ => false
  end.
Definition rlen_fixed (l : rlen) (w : Z) : bool := match l with RFixed w' => w' =? w | _ => false end.

(* Symbolic cursor walk: the range rules (in field order) must be produced by the cursor operations (in
   statement order): same widths, same length variables, same conditions on `position()` and on the advance. *)
Fixpoint match_fields (args : list string) (rules : list rrule) (ops : list rop) (pv : rstart)
         (acc : list (string * finfo)) : option (list (string * finfo)) :=
  match rules with
  | [] => match ops with [] => Some acc | _ => None end
  | r :: rules' =>
    let n := rr_name r in
    if seen args acc n then None else
    match ops with
    | OAdvance w :: ops' =>
        if rstart_eqb (rr_start r) pv && rlen_fixed (rr_len r) w && okw w
        then match_fields args rules' ops' (SAfter n) ((n, info_fixed false w false) :: acc) else None
    | ORead f w :: ops' =>
        if String.eqb f n && rstart_eqb (rr_start r) pv && rlen_fixed (rr_len r) w && okw w
        then match_fields args rules' ops' (SAfter n) ((n, info_fixed false w true) :: acc) else None
    | OLen f e :: OAdvanceBy f' :: ops' =>
        if String.eqb f n && String.eqb f' n && rstart_eqb (rr_start r) pv && rlen_is (rr_len r) 0 n
           && wf_lenexp args acc e
        then match_fields args rules' ops' (SAfter n) ((n, info_of_len false e) :: acc) else None
    | OCondStart f c :: OCondAdvance c' w :: ops' =>
        match push_opt pv n with
        | Some pv' =>
          if String.eqb f n && cond_eqb c c' && rstart_eqb (rr_start r) (SVar n) && rlen_fixed (rr_len r) w && okw w
          then match_fields args rules' ops' pv' ((n, info_fixed true w false) :: acc) else None
        | None => None
        end
    | OCondStart f c :: OCondRead f' c' w :: ops' =>
        match push_opt pv n with
        | Some pv' =>
          if String.eqb f n && String.eqb f' n && cond_eqb c c' && rstart_eqb (rr_start r) (SVar n)
             && rlen_fixed (rr_len r) w && okw w
          then match_fields args rules' ops' pv' ((n, info_fixed true w false) :: acc) else None
        | None => None
        end
    | OCondStart f c :: OCondLen f' c' e :: OCondAdvanceBy f'' :: ops' =>
        match push_opt pv n with
        | Some pv' =>
          if String.eqb f n && String.eqb f' n && String.eqb f'' n && cond_eqb c c'
             && rstart_eqb (rr_start r) (SVar n) && rlen_is (rr_len r) 1 n && wf_lenexp args acc e
          then match_fields args rules' ops' pv' ((n, info_of_len true e) :: acc) else None
        | None => None
        end
    | _ => None
    end
  end.

Fixpoint nodup_b (l : list string) : bool :=
  match l with [] => true | x :: r => negb (mem x r) && nodup_b r end.

(* a getter argument must denote the same value as the name used by `read` for compute_size *)
Definition garg_ok (args : list string) (tbl : list (string * finfo)) (a : garg) (n : string) : bool :=
  match a with
  | GAField f w => String.eqb f n && negb (mem n args) &&
                   match lookup f tbl with
                   | Some i => fi_read i && negb (fi_opt i) && match fi_fixed i with Some w' => w' =? w | None => false end
                   | None => false
                   end
  | GAShape x => String.eqb x n && mem n args
  end.
Fixpoint gargs_ok (args : list string) (tbl : list (string * finfo)) (ga : list garg) (an : list string) : bool :=
  match ga, an with
  | [], [] => true
  | a :: ga', n :: an' => garg_ok args tbl a n && gargs_ok args tbl ga' an'
  | _, _ => false
  end.

Definition wf_getter (args : list string) (tbl : list (string * finfo)) (g : getter) : bool :=
  match lookup (g_field g) tbl with
  | None => false
  | Some i =>
      Bool.eqb (g_opt g) (fi_opt i) &&
      match g_acc g with
      | AReadAt w => match fi_fixed i with Some w' => w =? w' | None => false end
      | AReadArray z => (0 <? z) && (fi_div i mod z =? 0)
      | ASplitOff => true
      | AReadArgs direct ty ga =>
          match fi_csz i with
          | Some (ty', an) => String.eqb ty ty' && gargs_ok args tbl ga an && (negb direct || fi_exact i)
          | None => false
          end
      end
  end.

Definition wf_safe (L : rlayout) : bool :=
  nodup_b (r_args L) &&
  match match_fields (r_args L) (r_rules L) (r_ops L) SZero [] with
  | Some tbl => forallb (wf_getter (r_args L) tbl) (r_getters L)
  | None => false
  end.

(* exact-range rule of the design (used by C04, not needed for panic freedom): array-like getters consume the
   whole range -- the `split_off(range.start)` getters do not *)
Definition wf_exact (L : rlayout) : bool :=
  wf_safe L && forallb (fun g => match g_acc g with ASplitOff => false | _ => true end) (r_getters L).

(* layouts translated but excluded from the theorem, by name (each one is a finding, see notes/C01L.md) *)
Definition layouts_except (names : list string) (Ls : list rlayout) : list rlayout :=
  filter (fun L => negb (mem (r_name L) names)) Ls.

(* meaning of a gate test; used only by the validation environment of LayoutCheck.v *)
Inductive condsem :=
  | CGe (n : Z)              (* u16: v >= n *)
  | CMajMin (a b : Z)        (* MajorMinor / Version16Dot16: major = a and minor >= b *)
  | CMaskAll (m : Z)         (* flags.contains(m) *)
  | CMaskAny (m : Z).        (* flags.intersects(m) *)
