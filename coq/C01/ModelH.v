(* C01 part 3, round 2 — executable models of hand-written helpers that loop or index on font data:
   tables/glyf.rs: SimpleGlyph::{num_points, read_points_fast, points (points_impl, PointIter)}, resolve_coords_len;
   tables/variations.rs: PackedPointNumbers::{count, total_len, split_off_front, iter}, read_control_byte,
                         PackedDeltas::{consume_all (count_all_deltas), iter (DeltaRunIter)};
   tables/cmap.rs: Cmap12::{group, lookup_glyph_id, iter, iter_with_limits}, Cmap12Iter::next (+ generated Cmap12::read).
   No proofs here.  Every slice index, unchecked integer operation and unwrap is an explicit [Panic]. *)
From Coq Require Import ZArith List Bool.
From FV Require Import Lib.RustInt C01.Model.
Import ListNotations.
Open Scope Z_scope.

Definition bit (b m : Z) : bool := negb (Z.land b m =? 0).
Definition sub_chk (a b : Z) : res Z := if b <=? a then Ok (a - b) else Panic.         (* unchecked a - b *)
Definition add_u (bits a b : Z) : res Z := if a + b <? 2 ^ bits then Ok (a + b) else Panic.  (* unchecked uN + *)

(* ------------------------------------------------------------------ glyf: read_points_fast *)
(* flags[i].0 = v *)
Definition set_at (fl : list Z) (i v : Z) : res (list Z) :=
  if (0 <=? i) && (i <? blen fl) then Ok (firstn (Z.to_nat i) fl ++ v :: skipn (Z.to_nat (i + 1)) fl) else Panic.
(* for f in &mut flags[i..i + count] { f.0 = v } *)
Definition set_range (fl : list Z) (i count v : Z) : res (list Z) :=
  rdo e <- add_chk i count ;;
  if (0 <=? i) && (i <=? e) && (e <=? blen fl)
  then Ok (firstn (Z.to_nat i) fl ++ repeat v (Z.to_nat count) ++ skipn (Z.to_nat e) fl) else Panic.

(* the `while i < n_points { let flag_bits = flags_iter.next().ok_or(OutOfBounds)?; .. }` loop (as of /repo 6f0a45e);
   state (i, read_flags_bytes, flags).  Entered only with i < n (the guard is tested by the caller for the first
   iteration and by `if i' =? n` after each one, i' <= n always); running out of flag bytes is an error.
   Fuel = number of flag bytes: every iteration consumes at least one, so fuel exhaustion coincides with fd = []. *)
Fixpoint flag_loop (fuel : nat) (n : Z) (fd : list Z) (i rfb : Z) (fl : list Z) : res (Z * list Z) :=
  match fuel with
  | O => Err OutOfBounds
  | S k =>
      match fd with
      | [] => Err OutOfBounds
      | b :: rest =>
          rdo rfb <- add_chk rfb 1 ;;
          if bit b 8 then
            match rest with
            | [] => Err OutOfBounds
            | r :: rest' =>
                rdo left <- sub_chk n i ;;
                let count := Z.min (r + 1) left in
                rdo rfb <- add_chk rfb 1 ;;
                rdo fl' <- set_range fl i count b ;;
                rdo i' <- add_chk i count ;;
                if i' =? n then Ok (rfb, fl') else flag_loop k n rest' i' rfb fl'
            end
          else
            rdo fl' <- set_at fl i b ;;
            rdo i' <- add_chk i 1 ;;
            if i' =? n then Ok (rfb, fl') else flag_loop k n rest i' rfb fl'
      end
  end.

(* one coordinate pass (x: short = 0x02, same = 0x10; y: short = 0x04, same = 0x20) *)
Fixpoint coord_loop (short same : Z) (fl : list Z) (c : cursor) (acc : Z) : res (list Z * cursor) :=
  match fl with
  | [] => Ok ([], c)
  | f :: r =>
      let '(c1, rdelta) :=
        if bit f short then
          let '(c1, rv) := c_read 1 c in (c1, rdo v <- rv ;; Ok (if bit f same then v else - v))
        else if negb (bit f same) then
          let '(c1, rv) := c_read 2 c in (c1, rdo v <- rv ;; Ok (wrap_s 16 v))
        else (c, Ok 0) in
      rdo delta <- rdelta ;;
      let x := wrap_s 32 (acc + delta) in
      rdo rest <- coord_loop short same r c1 x ;;
      Ok (x :: fst rest, snd rest)
  end.

Fixpoint zip3 (a b c : list Z) : list Z :=
  match a, b, c with
  | x :: a', y :: b', z :: c' => x :: y :: z :: zip3 a' b' c'
  | _, _, _ => []
  end.

(* SimpleGlyph::read_points_fast::<i32>(points, flags) with n = num_points(), data = glyph_data(),
   fl0 = the caller's flag buffer (points buffer has the same length).  Ok = [x0; y0; f0; x1; ...] *)
Definition read_points_fast (n : Z) (data fl0 : list Z) : res (list Z) :=
  if negb (blen fl0 =? n) then Err InvalidArrayLen else
  let c := cursor0 data in
  let '(c, r) := c_read_array (c_remaining_bytes c) 1 c in
  rdo fd <- r ;;
  rdo st <- (if 0 <? n then flag_loop (length fd) n fd 0 0 fl0 else Ok (0, fl0)) ;;
  let c := c_advance_by (fst st) (cursor0 data) in
  rdo xs <- coord_loop 2 16 (snd st) c 0 ;;
  rdo ys <- coord_loop 4 32 (snd st) (snd xs) 0 ;;
  Ok (zip3 (fst xs) (fst ys) (map (fun f => Z.land f 1) (snd st))).

(* ------------------------------------------------------------------ glyf: points() *)
(* resolve_coords_len(data, points_total): state (cursor, flags_left, x_len, y_len) *)
Fixpoint resolve_loop (fuel : nat) (c : cursor) (left xl yl : Z) : res (cursor * Z * Z) :=
  match fuel with
  | O => Ok (c, xl, yl)
  | S k =>
      if left <=? 0 then Ok (c, xl, yl) else
      let '(c, r) := c_read 1 c in
      rdo f <- r ;;
      let '(c, rrep) := if bit f 8 then let '(c1, rv) := c_read 1 c in (c1, rdo v <- rv ;; Ok (v + 1)) else (c, Ok 1) in
      rdo repeats <- rrep ;;
      if left <? repeats then Err MalformedData else
      rdo xl <- add_u 32 xl ((if bit f 2 then 1 else 0) * repeats) ;;
      rdo xl <- add_u 32 xl ((if Z.land f 18 =? 0 then 1 else 0) * repeats * 2) ;;
      rdo yl <- add_u 32 yl ((if bit f 4 then 1 else 0) * repeats) ;;
      rdo yl <- add_u 32 yl ((if Z.land f 36 =? 0 then 1 else 0) * repeats * 2) ;;
      resolve_loop k c (left - repeats) xl yl
  end.
Definition resolve_coords_len (data : list Z) (total : Z) : res (Z * Z * Z) :=
  rdo st <- resolve_loop (Z.to_nat total) (cursor0 data) total 0 0 ;;
  let '(c, xl, yl) := st in
  rdo p <- c_position c ;;
  Ok (wrap_u 32 p, xl, yl).

(* slice::split_at(mid): panics when mid > len *)
Definition split_at (d : list Z) (mid : Z) : res (list Z * list Z) :=
  if (0 <=? mid) && (mid <=? blen d) then Ok (firstn (Z.to_nat mid) d, skipn (Z.to_nat mid) d) else Panic.

Record piter := mkpi { pi_flags : cursor; pi_x : cursor; pi_y : cursor; pi_rep : Z; pi_cur : Z; pi_cx : Z; pi_cy : Z }.
Definition piter_new (f x y : list Z) : piter := mkpi (cursor0 f) (cursor0 x) (cursor0 y) 0 0 0 0.
(* read::<T>().unwrap_or(0) on a coordinate cursor *)
Definition read_or0 (w : Z) (c : cursor) : cursor * Z :=
  let '(c1, r) := c_read w c in (c1, match r with Ok v => v | _ => 0 end).
(* PointIter::advance_flags: Some (flags cursor, current flags, flag_repeats before the decrement) *)
Definition piter_advance_flags (s : piter) : option (cursor * Z * Z) :=
  if pi_rep s =? 0 then
    let '(fc, r) := c_read 1 (pi_flags s) in
    match r with
    | Ok f =>
        let '(fc, rep) := if bit f 8 then let '(fc1, rv) := c_read 1 fc in (fc1, match rv with Ok v => v | _ => 0 end)
                          else (fc, 0) in
        Some (fc, f, rep + 1)
    | _ => None
    end
  else Some (pi_flags s, pi_cur s, pi_rep s).
(* `self.flag_repeats -= 1` and PointIter::advance_points *)
Definition piter_advance_points (s : piter) (fc : cursor) (f rep : Z) : res (option (Z * Z * Z * piter)) :=
  rdo rep' <- sub_chk rep 1 ;;
  let '(xc, dx) := if bit f 2 then let '(c1, v) := read_or0 1 (pi_x s) in (c1, if bit f 16 then v else wrap_s 16 (- v))
                   else if negb (bit f 16) then let '(c1, v) := read_or0 2 (pi_x s) in (c1, wrap_s 16 v)
                   else (pi_x s, 0) in
  let '(yc, dy) := if bit f 4 then let '(c1, v) := read_or0 1 (pi_y s) in (c1, if bit f 32 then v else wrap_s 16 (- v))
                   else if negb (bit f 32) then let '(c1, v) := read_or0 2 (pi_y s) in (c1, wrap_s 16 v)
                   else (pi_y s, 0) in
  let cx := wrap_s 16 (pi_cx s + dx) in
  let cy := wrap_s 16 (pi_cy s + dy) in
  Ok (Some (cx, cy, (if bit f 1 then 1 else 0), mkpi fc xc yc rep' f cx cy)).
(* PointIter::next: advance_flags()? ; advance_points() *)
Definition piter_next (s : piter) : res (option (Z * Z * Z * piter)) :=
  match piter_advance_flags s with
  | None => Ok None
  | Some (fc, f, rep) => piter_advance_points s fc f rep
  end.
Fixpoint piter_run (fuel : nat) (s : piter) : res (list Z * bool) :=
  match fuel with
  | O => Ok ([], false)
  | S k =>
      rdo o <- piter_next s ;;
      match o with
      | None => Ok ([], true)
      | Some (x, y, on, s') => rdo r <- piter_run k s' ;; Ok (x :: y :: on :: fst r, snd r)
      end
  end.
(* SimpleGlyph::points(): `last` = end_pts_of_contours().last() (None for no contours); data = glyph_data() *)
Definition points_iter (last : option Z) (data : list Z) : res piter :=
  let empty := Ok (piter_new [] [] []) in
  match last with
  | None => empty
  | Some l =>
      if 65535 <? l + 1 then empty else      (* u16::checked_add(1)? *)
      match resolve_coords_len data (l + 1) with
      | Panic => Panic
      | Err _ => empty
      | Ok (fl, xl, yl) =>
          rdo t <- add_u 32 fl xl ;;
          rdo t <- add_u 32 t yl ;;
          if blen data <? t then empty else
          rdo p1 <- split_at data fl ;;
          rdo p2 <- split_at (snd p1) xl ;;
          Ok (piter_new (fst p1) (fst p2) (snd p2))
      end
  end.

(* ------------------------------------------------------------------ variations: PackedPointNumbers *)
Definition or0 (r : res Z) : Z := match r with Ok v => v | _ => 0 end.
(* count_and_count_bytes *)
Definition ppn_count_bytes (d : list Z) : Z * Z :=
  let b0 := or0 (read_at 1 d 0) in
  if b0 =? 0 then (0, 1)
  else if b0 <=? 127 then (b0, 1)
  else let c := Z.land (or0 (read_at 2 d 0)) 32767 in
       if c =? 0 then (0, 2) else (Z.land c 32767, 2).
(* read_control_byte *)
Definition read_control_byte (c : cursor) : cursor * option (Z * bool) :=
  let '(c1, r) := c_read 1 c in
  match r with Ok ctl => (c1, Some (Z.land ctl 127 + 1, bit ctl 128)) | _ => (c1, None) end.
(* total_len: the while loop; n_seen is a u16 *)
Fixpoint ppn_total_loop (fuel : nat) (n_points : Z) (c : cursor) (n_bytes n_seen : Z) : res Z :=
  match fuel with
  | O => Ok n_bytes
  | S k =>
      if n_seen <? n_points then
        let '(c1, o) := read_control_byte c in
        match o with
        | None => Ok n_bytes
        | Some (count, two) =>
            rdo run <- mul_chk (1 + (if two then 1 else 0)) count ;;
            rdo t <- add_chk run 1 ;;
            rdo nb <- add_chk n_bytes t ;;
            rdo ns <- add_u 16 n_seen count ;;
            ppn_total_loop k n_points (c_advance_by run c1) nb ns
        end
      else Ok n_bytes
  end.
Definition ppn_total_len (d : list Z) : res Z :=
  let '(n_points, n_bytes) := ppn_count_bytes d in
  if n_points =? 0 then Ok n_bytes
  else ppn_total_loop (Z.to_nat n_points) n_points (c_advance_by n_bytes (cursor0 d)) n_bytes 0.
(* split_off_front: the remainder *)
Definition ppn_split_off_front (d : list Z) : res (list Z) :=
  rdo t <- ppn_total_len d ;;
  Ok (match fd_split_off d t with Some r => r | None => [] end).

Record ppiter := mkpp { pp_count : Z; pp_seen : Z; pp_last : Z; pp_rem : Z; pp_two : bool; pp_cur : cursor }.
Definition ppn_iter (d : list Z) : ppiter :=
  let '(count, n_bytes) := ppn_count_bytes d in mkpp count 0 0 0 false (c_advance_by n_bytes (cursor0 d)).
(* PointRunIter::next after the control byte is known: remaining -= 1, read one value, accumulate *)
Definition ppn_value (s : ppiter) (seen rem : Z) (two : bool) (c : cursor) : res (option (Z * ppiter)) :=
  rdo rem' <- sub_chk rem 1 ;;
  let '(c1, r) := c_read (if two then 2 else 1) c in
  match r with
  | Ok v => if 65535 <? pp_last s + v then Ok None      (* u16::checked_add? *)
            else Ok (Some (pp_last s + v, mkpp (pp_count s) seen (pp_last s + v) rem' two c1))
  | _ => Ok None
  end.
(* PackedPointNumbersIter::next (with PointRunIter::next inlined) *)
Definition ppn_next (s : ppiter) : res (option (Z * ppiter)) :=
  if pp_count s =? 0 then
    if 65535 <? pp_last s + 1 then Ok None      (* u16::checked_add(1)? *)
    else Ok (Some (pp_last s, mkpp 0 (pp_seen s) (pp_last s + 1) (pp_rem s) (pp_two s) (pp_cur s)))
  else if pp_count s =? pp_seen s then Ok None
  else
    rdo seen <- add_u 16 (pp_seen s) 1 ;;
    (* while self.remaining == 0 { read_control_byte()? } : count >= 1, so at most one read *)
    if pp_rem s =? 0 then
      let '(c1, o) := read_control_byte (pp_cur s) in
      match o with Some (cnt, two) => ppn_value s seen cnt two c1 | None => Ok None end
    else ppn_value s seen (pp_rem s) (pp_two s) (pp_cur s).
Fixpoint ppn_run (fuel : nat) (s : ppiter) : res (list Z * bool) :=
  match fuel with
  | O => Ok ([], false)
  | S k =>
      rdo o <- ppn_next s ;;
      match o with
      | None => Ok ([], true)
      | Some (v, s') => rdo r <- ppn_run k s' ;; Ok (v :: fst r, snd r)
      end
  end.

(* ------------------------------------------------------------------ variations: PackedDeltas *)
(* DeltaRunType::new(control) as usize : bytes per value *)
Definition delta_size (ctl : Z) : Z :=
  match bit ctl 128, bit ctl 64 with
  | false, false => 1 | false, true => 2 | true, false => 0 | true, true => 4
  end.
(* count_all_deltas *)
Fixpoint count_deltas_loop (fuel : nat) (d : list Z) (count offset : Z) : res Z :=
  match fuel with
  | O => Ok count
  | S k =>
      match read_at 1 d offset with
      | Ok ctl =>
          let run_count := Z.land ctl 63 + 1 in
          rdo count <- add_chk count run_count ;;
          rdo m <- mul_chk run_count (delta_size ctl) ;;
          rdo m1 <- add_chk m 1 ;;
          rdo offset <- add_chk offset m1 ;;
          count_deltas_loop k d count offset
      | _ => Ok count
      end
  end.
Definition count_all_deltas (d : list Z) : res Z := count_deltas_loop (S (length d)) d 0 0.

Record diter := mkdi { di_limit : Z; di_rem : Z; di_size : Z; di_cur : cursor }.
(* DeltaRunIter::next after the run header is known: remaining_in_run -= 1, read one value *)
Definition delta_value (limit rem sz : Z) (c : cursor) : res (option (Z * diter)) :=
  rdo rem' <- sub_chk rem 1 ;;
  if sz =? 0 then Ok (Some (0, mkdi limit rem' sz c))
  else let '(c1, r) := c_read sz c in
       match r with
       | Ok v => Ok (Some (wrap_s (8 * sz) v, mkdi limit rem' sz c1))
       | _ => Ok None
       end.
(* DeltaRunIter::next with limit = Some(limit) *)
Definition delta_next (s : diter) : res (option (Z * diter)) :=
  if di_limit s =? 0 then Ok None else
  rdo limit <- sub_chk (di_limit s) 1 ;;
  if di_rem s =? 0 then
    let '(c1, r) := c_read 1 (di_cur s) in
    match r with Ok ctl => delta_value limit (Z.land ctl 63 + 1) (delta_size ctl) c1 | _ => Ok None end
  else delta_value limit (di_rem s) (di_size s) (di_cur s).
Fixpoint delta_run (fuel : nat) (s : diter) : res (list Z * bool) :=
  match fuel with
  | O => Ok ([], false)
  | S k =>
      rdo o <- delta_next s ;;
      match o with
      | None => Ok ([], true)
      | Some (v, s') => rdo r <- delta_run k s' ;; Ok (v :: fst r, snd r)
      end
  end.
(* PackedDeltas::consume_all(data).iter() *)
Definition packed_deltas_all (d : list Z) (fuel : nat) : res (Z * (list Z * bool)) :=
  rdo count <- count_all_deltas d ;;
  rdo r <- delta_run fuel (mkdi count 0 1 (cursor0 d)) ;;
  Ok (count, r).

(* ------------------------------------------------------------------ cmap format 12 *)
Record cmap12 := mkc12 { c12_data : list Z; c12_glen : Z }.
(* <Cmap12 as FontRead>::read *)
Definition cmap12_read (d : list Z) : res cmap12 :=
  let c := cursor0 d in
  let c := c_advance 2 c in
  let c := c_advance 2 c in
  let c := c_advance 4 c in
  let c := c_advance 4 c in
  let '(c, r) := c_read 4 c in
  rdo num_groups <- r ;;
  rdo bl <- ok_or (checked_mul num_groups 12) OutOfBounds ;;
  let c := c_advance_by bl c in
  rdo _ <- c_finish c ;;
  Ok (mkc12 d bl).
(* groups(): read_array(16 .. 16 + len).unwrap() *)
Definition cmap12_groups (t : cmap12) : res (list (list Z)) :=
  rdo e <- add_chk 16 (c12_glen t) ;;
  rdo s <- unwrap (read_array 12 (c12_data t) 16 e) ;;
  Ok (chunks 12 s).
Definition U64_MAX : Z := 18446744073709551615.
(* Cmap12::group(index, limits): (range.start, range.end, start_code, start_glyph_id) *)
Definition cmap12_group (groups : list (list Z)) (index : Z) (limits : option (Z * Z)) : option (Z * Z * Z * Z) :=
  match nthz groups index with
  | None => None
  | Some g =>
      let s := field g 0 4 in
      let end_code := field g 4 4 + 1 in
      let sg := field g 8 4 in
      let e := match limits with
               | Some (max_char, glyph_count) =>
                   Z.min (Z.min (Z.max (glyph_count - sg) 0 + s) U64_MAX) (Z.min end_code (max_char + 1))   (* max_char is inclusive *)
               | None => end_code
               end in
      Some (s, e, s, sg)
  end.
Record c12iter := mkci { ci_cur : option (Z * Z * Z * Z); ci_ix : Z }.
Definition cmap12_iter_new (groups : list (list Z)) (limits : option (Z * Z)) : c12iter :=
  mkci (cmap12_group groups 0 limits) 0.
(* Cmap12Iter::next: the `loop`; fuel = group switches allowed *)
Fixpoint cmap12_next (fuel : nat) (groups : list (list Z)) (limits : option (Z * Z)) (s : c12iter)
  : res (option (Z * Z * c12iter)) :=
  match ci_cur s with
  | None => Ok None
  | Some (rs, re, sc, sg) =>
      if rs <? re then
        let cp := wrap_u 32 rs in
        Ok (Some (cp, wrap_u 32 (sg + wrap_u 32 (cp - sc)), mkci (Some (rs + 1, re, sc, sg)) (ci_ix s)))
      else
        match fuel with
        | O => Err MalformedData      (* out of fuel: never happens with fuel > number of groups *)
        | S k =>
            rdo ix <- add_chk (ci_ix s) 1 ;;
            match cmap12_group groups ix limits with
            | None => Ok None
            | Some (ns, ne, nsc, nsg) =>
                let ng := if ns <? re then (re, ne, nsc, nsg) else (ns, ne, nsc, nsg) in
                cmap12_next k groups limits (mkci (Some ng) ix)
            end
        end
  end.
Fixpoint cmap12_take (n : nat) (groups : list (list Z)) (limits : option (Z * Z)) (s : c12iter) : res (list Z * bool) :=
  match n with
  | O => Ok ([], false)
  | S k =>
      rdo o <- cmap12_next (S (length groups)) groups limits s ;;
      match o with
      | None => Ok ([], true)
      | Some (cp, g, s') => rdo r <- cmap12_take k groups limits s' ;; Ok (cp :: g :: fst r, snd r)
      end
  end.


(* ------------------------------------------------------------------ postscript/dict.rs: parse_bcd *)
(* the closure `push`: `if n < MAX_LEN { buf[n] = byte; n += 1; Ok(()) } else { Err(InvalidNumber) }` with n = length buf;
   `buf[n]` on the 32-byte array is an index check *)
Definition BCD_MAX_LEN : Z := 32.
Definition bcd_push (buf : list Z) (byte : Z) : res (list Z) :=
  if blen buf <? BCD_MAX_LEN then
    (if (0 <=? blen buf) && (blen buf <? 32) then Ok (buf ++ [byte]) else Panic)
  else Err InvalidNumber.
(* one nibble: Ok (buf', stop) *)
Definition bcd_nibble (buf : list Z) (nib : Z) : res (list Z * bool) :=
  if (0 <=? nib) && (nib <=? 9) then rdo b <- bcd_push buf (48 + nib) ;; Ok (b, false)
  else if nib =? 10 then rdo b <- bcd_push buf 46 ;; Ok (b, false)          (* '.' *)
  else if nib =? 11 then rdo b <- bcd_push buf 69 ;; Ok (b, false)          (* 'E' *)
  else if nib =? 12 then rdo b <- bcd_push buf 69 ;; rdo b <- bcd_push b 45 ;; Ok (b, false)   (* "E-" *)
  else if nib =? 14 then rdo b <- bcd_push buf 45 ;; Ok (b, false)          (* '-' *)
  else if nib =? 15 then Ok (buf, true)
  else Err InvalidNumber.
(* the 'outer loop; out of fuel = Err MalformedData (unreachable with fuel > remaining bytes) *)
Fixpoint bcd_loop (fuel : nat) (c : cursor) (buf : list Z) : cursor * res (list Z) :=
  match fuel with
  | O => (c, Err MalformedData)
  | S k =>
      let '(c1, r) := c_read 1 c in
      match r with
      | Ok b =>
          match bcd_nibble buf (Z.land (Z.shiftr b 4) 15) with
          | Ok (buf1, true) => (c1, Ok buf1)
          | Ok (buf1, false) =>
              match bcd_nibble buf1 (Z.land b 15) with
              | Ok (buf2, true) => (c1, Ok buf2)
              | Ok (buf2, false) => bcd_loop k c1 buf2
              | Err e => (c1, Err e)
              | Panic => (c1, Panic)
              end
          | Err e => (c1, Err e)
          | Panic => (c1, Panic)
          end
      | Err e => (c1, Err e)
      | Panic => (c1, Panic)
      end
  end.
(* str::parse::<f64> over the alphabet parse_bcd can produce accepts exactly: optional minus, then digits with an optional
   point and optional further digits (at least one digit in total), then optionally E, optional minus, one or more digits *)
Fixpoint take_digits (l : list Z) : nat * list Z :=
  match l with
  | d :: r => if (48 <=? d) && (d <=? 57) then let '(n, r') := take_digits r in (S n, r') else (O, l)
  | [] => (O, [])
  end.
Definition f64_syntax_ok (s : list Z) : bool :=
  let s := match s with 45 :: r => r | _ => s end in
  let '(n1, s) := take_digits s in
  let '(n2, s) := match s with 46 :: r => take_digits r | _ => (O, s) end in
  if Nat.eqb (n1 + n2) 0 then false else
  match s with
  | [] => true
  | 69 :: r =>
      let r := match r with 45 :: r' => r' | _ => r end in
      let '(n3, r) := take_digits r in
      negb (Nat.eqb n3 0) && match r with [] => true | _ => false end
  | _ => false
  end.
(* parse_bcd(cursor): Ok = the decimal string that parsed as an f64 (the Fixed value itself is not modelled) *)
Definition parse_bcd (c : cursor) : cursor * res (list Z) :=
  let '(c1, r) := bcd_loop (S (length (cdata c))) c [] in
  (c1, rdo s <- r ;; if f64_syntax_ok s then Ok s else Err InvalidNumber).

(* ================= correspondence ops 18.. (harness/src/bin/c01.rs) ================= *)
Definition enc_run (r : res (list Z * bool)) : list Z :=
  match r with
  | Ok (l, fin) => 0 :: (if fin then 1 else 0) :: l
  | Err e => err_code e
  | Panic => [3]
  end.
Definition eval_op_h (op : Z) (d : list Z) (args : list Z) : list Z :=
  match op, args with
  | 18, [n] => enc idl (read_points_fast n d (repeat 0 (Z.to_nat n)))
  | 19, [last; fuel] =>
      match points_iter (if last <? 0 then None else Some last) d with
      | Ok it => enc_run (piter_run (Z.to_nat fuel) it)
      | Err e => err_code e
      | Panic => [3]
      end
  | 20, [fuel] =>
      fst (ppn_count_bytes d) :: enc (fun l => [blen l]) (ppn_split_off_front d) ++ enc_run (ppn_run (Z.to_nat fuel) (ppn_iter d))
  | 21, [fuel] =>
      match packed_deltas_all d (Z.to_nat fuel) with
      | Ok (count, r) => 0 :: count :: enc_run (Ok r)
      | Err e => err_code e
      | Panic => [3]
      end
  | 22, [use_limits; max_char; glyph_count; take] =>
      match cmap12_read d with
      | Ok t =>
          match cmap12_groups t with
          | Ok groups =>
              let limits := if use_limits =? 0 then None else Some (max_char, glyph_count) in
              0 :: Z.of_nat (length groups) :: enc_run (cmap12_take (Z.to_nat take) groups limits (cmap12_iter_new groups limits))
          | Err e => err_code e
          | Panic => [3]
          end
      | Err e => err_code e
      | Panic => [3]
      end
  | 23, [] => enc (fun _ => [0]) (snd (parse_bcd (cursor0 d)))
  | _, _ => [-999]
  end.

Definition check_case_all (c : Z * list Z * list Z * list Z) : bool :=
  let '(op, d, args, result) := c in
  zlist_eqb (if op <? 18 then eval_op op d args else eval_op_h op d args) result.
