(* C01 part 3, round 5 — models of
     tables/layout.rs: DeltaFormat::{new, value_count}, generated Device::read + getters, Device::iter, iter_packed_values
     tables/postscript/charstring.rs: Evaluator::evaluate / evaluate_operator restricted to the operators that drive the
       subroutine machinery: numbers (28, 32..=254), hstem (1), callsubr (10), return (11), endchar (14), callgsubr (29);
       with Index::subr_bias and the NESTING_DEPTH_LIMIT rule for BOTH call operators.
   No proofs here. *)
From Coq Require Import ZArith List Bool.
From FV Require Import Lib.RustInt C01.Model C01.ModelH C01.IterModel.
Import ListNotations.
Open Scope Z_scope.

(* ------------------------------------------------------------------ Device tables *)
(* DeltaFormat::new(raw): 1, 2, 3 = local 2/4/8-bit deltas, 4 = VariationIndex (0x8000), 0 = Unknown (everything else) *)
Definition delta_format_new (raw : Z) : Z :=
  if raw =? 1 then 1 else if raw =? 2 then 2 else if raw =? 3 then 3 else if raw =? 32768 then 4 else 0.
(* DeltaFormat::value_count(self, start_size, end_size) *)
Definition device_value_count (fmt start_size end_size : Z) : Z :=
  let range_len := sat_sub (end_size + 1) start_size in
  let vpw := if fmt =? 1 then 8 else if fmt =? 2 then 4 else if fmt =? 3 then 2 else 0 in
  if vpw =? 0 then 0 else range_len / vpw + Z.min (range_len mod vpw) 1.
Record device := mkdev { dv_data : list Z; dv_len : Z }.
(* <Device as FontRead>::read *)
Definition device_read (d : list Z) : res device :=
  let c := cursor0 d in
  let '(c, r) := c_read 2 c in
  rdo start_size <- r ;;
  let '(c, r) := c_read 2 c in
  rdo end_size <- r ;;
  let '(c, r) := c_read 2 c in
  rdo raw <- r ;;
  rdo bl <- ok_or (checked_mul (device_value_count (delta_format_new raw) start_size end_size) 2) OutOfBounds ;;
  let c := c_advance_by bl c in
  rdo _ <- c_finish c ;;
  Ok (mkdev d bl).
Definition dv_start (t : device) : res Z := unwrap (read_at 2 (dv_data t) 0).
Definition dv_end (t : device) : res Z := unwrap (read_at 2 (dv_data t) 2).
Definition dv_format (t : device) : res Z := rdo raw <- unwrap (read_at 2 (dv_data t) 4) ;; Ok (delta_format_new raw).
Definition dv_words (t : device) : res (list Z) :=
  rdo e <- add_chk 6 (dv_len t) ;;
  rdo s <- unwrap (read_array 2 (dv_data t) 6 e) ;;
  Ok (map from_be (chunks 2 s)).

(* iter_packed_values(raw, format, n): `16 / bits` panics for bits = 0 (every format other than the three local ones) *)
Fixpoint packed_loop (i : nat) (count : nat) (raw bits mask sign_mask : Z) : list Z :=
  match count with
  | O => []
  | S k =>
      let shift := (16 - bits) - Z.of_nat i * bits in
      let val := Z.land (Z.shiftr raw shift) mask in
      let v := if negb (Z.land val sign_mask =? 0) then wrap_s 8 (wrap_s 16 (- (Z.land (Z.lnot val) mask + 1))) else wrap_s 8 val in
      v :: packed_loop (S i) k raw bits mask sign_mask
  end.
Definition iter_packed_values (raw fmt n : Z) : res (list Z) :=
  let '(mask, sign_mask, bits) :=
    if fmt =? 1 then (3, 2, 2) else if fmt =? 2 then (15, 8, 4) else if fmt =? 3 then (255, 128, 8) else (0, 0, 0) in
  if bits =? 0 then Panic else
  let max_per_word := 16 / bits in
  Ok (packed_loop O (Z.to_nat (Z.min n max_per_word)) raw bits mask sign_mask).
(* Device::iter(): flat_map over the delta words with the remaining-count closure state *)
Fixpoint device_iter_loop (words : list Z) (fmt n dpw : Z) : res (list Z) :=
  match words with
  | [] => Ok []
  | w :: r => rdo vs <- iter_packed_values w fmt n ;;
              rdo rest <- device_iter_loop r fmt (sat_sub n dpw) dpw ;;
              Ok (vs ++ rest)
  end.
Definition device_iter (t : device) : res (list Z) :=
  rdo fmt <- dv_format t ;;
  rdo st <- dv_start t ;;
  rdo en <- dv_end t ;;
  rdo words <- dv_words t ;;
  let n := sat_sub (en + 1) st in
  let dpw := if fmt =? 1 then 8 else if fmt =? 2 then 4 else if fmt =? 3 then 2 else 0 in
  device_iter_loop words fmt n dpw.

(* ------------------------------------------------------------------ charstring subroutine skeleton *)
Definition NESTING_DEPTH_LIMIT : Z := 10.
Definition MAX_STACK : Z := 513.
(* Index::subr_bias *)
Definition subr_bias (count : Z) : Z := if count <? 1240 then 107 else if count <? 33900 then 1131 else 32768.
(* error codes of postscript::Error: 1 = Read(OutOfBounds), 20 = CharstringNestingDepthLimitExceeded, 21 = StackUnderflow,
   22 = MissingSubroutines, 23 = InvalidStackAccess, 24 = StackOverflow; 25 = model out of fuel, 26 = byte outside the modelled subset *)
Inductive csres (A : Type) := CsOk (a : A) | CsErr (code : Z) | CsPanic.
Arguments CsOk {A} a. Arguments CsErr {A} code. Arguments CsPanic {A}.
(* evaluator state: operand stack (top = last), have_read_width, number of sink.hstem calls, and (model-only
   instrumentation) the deepest nesting_depth at which a charstring body was entered *)
Record csstate := mkcst { cs_stack : list Z; cs_width : bool; cs_hstems : Z; cs_maxdepth : Z }.

Definition cs_push (st : csstate) (v : Z) : csres csstate :=
  if blen (cs_stack st) =? MAX_STACK then CsErr 24
  else CsOk (mkcst (cs_stack st ++ [v]) (cs_width st) (cs_hstems st) (cs_maxdepth st)).
(* HStem: optional width, then pairs; fixed_array::<2>(i) fails when only one value is left *)
Definition cs_hstem (st : csstate) : csres csstate :=
  let len := blen (cs_stack st) in
  let odd := negb (len mod 2 =? 0) in
  let '(i, width) := if odd && negb (cs_width st) then (1, true) else (0, cs_width st) in
  let avail := len - i in
  if negb (avail mod 2 =? 0) then CsErr 23
  else CsOk (mkcst [] width (cs_hstems st + avail / 2) (cs_maxdepth st)).

Section CsEval.
  Variable gsubrs : list (list Z).              (* global subrs INDEX objects *)
  Variable lsubrs : option (list (list Z)).     (* local subrs INDEX, if the Private DICT has one *)

  (* one charstring body: `while cursor.remaining_bytes() != 0 { .. }` over the remaining bytes [bytes];
     [run fuel depth bytes st]: the nesting-depth check is done by [enter] *)
  Fixpoint cs_run (fuel : nat) (depth : Z) (bytes : list Z) (st : csstate) : csres csstate :=
    match fuel with
    | O => CsErr 25
    | S k =>
        (* evaluate(subr, depth'): the rule for BOTH call operators: depth' = depth + 1, rejected when > limit *)
        let enter (depth' : Z) (body : list Z) (s : csstate) : csres csstate :=
          if NESTING_DEPTH_LIMIT <? depth' then CsErr 20
          else cs_run k depth' body (mkcst (cs_stack s) (cs_width s) (cs_hstems s) (Z.max (cs_maxdepth s) depth')) in
        let call (index : option (list (list Z))) (rest : list Z) : csres csstate :=
          match index with
          | None => CsErr 22
          | Some subrs =>
              match rev (cs_stack st) with
              | [] => CsErr 21
              | v :: below =>
                  let st1 := mkcst (rev below) (cs_width st) (cs_hstems st) (cs_maxdepth st) in
                  let biased := v + subr_bias (Z.of_nat (length subrs)) in
                  match (if biased <? 0 then None else nthz subrs biased) with
                  | None => CsErr 1
                  | Some body =>
                      match enter (depth + 1) body st1 with
                      | CsOk st2 => cs_run k depth rest st2
                      | e => e
                      end
                  end
              end
          end in
        match bytes with
        | [] => CsOk st
        | b0 :: rest =>
            if b0 =? 28 then
              match rest with
              | b1 :: b2 :: rest' => match cs_push st (wrap_s 16 (b1 * 256 + b2)) with CsOk st' => cs_run k depth rest' st' | e => e end
              | _ => CsErr 1
              end
            else if (32 <=? b0) && (b0 <=? 246) then
              match cs_push st (b0 - 139) with CsOk st' => cs_run k depth rest st' | e => e end
            else if (247 <=? b0) && (b0 <=? 250) then
              match rest with
              | b1 :: rest' => match cs_push st ((b0 - 247) * 256 + b1 + 108) with CsOk st' => cs_run k depth rest' st' | e => e end
              | [] => CsErr 1
              end
            else if (251 <=? b0) && (b0 <=? 254) then
              match rest with
              | b1 :: rest' => match cs_push st (- (b0 - 251) * 256 - b1 - 108) with CsOk st' => cs_run k depth rest' st' | e => e end
              | [] => CsErr 1
              end
            else if b0 =? 1 then
              match cs_hstem st with CsOk st' => cs_run k depth rest st' | e => e end
            else if b0 =? 10 then call lsubrs rest
            else if b0 =? 29 then call (Some gsubrs) rest
            else if b0 =? 11 then CsOk st                                   (* return: Ok(false) = leave this body *)
            else if b0 =? 14 then                                           (* endchar: leaves this body only *)
              CsOk (if negb (blen (cs_stack st) =? 0) && negb (cs_width st)
                    then mkcst [] true (cs_hstems st) (cs_maxdepth st) else st)
            else CsErr 26
        end
    end.

  (* charstring::evaluate(data, global_subrs, subrs, None, sink) *)
  Definition cs_evaluate (fuel : nat) (data : list Z) : csres csstate :=
    cs_run fuel 0 data (mkcst [] false 0 0).
End CsEval.

(* ------------------------------------------------------------------ correspondence ops 28, 29 *)
Definition enc_dev (d : list Z) : list Z :=
  match device_read d with
  | Ok t => 0 :: enc one (dv_start t) ++ enc one (dv_end t) ++ enc one (dv_format t) ++ enc (fun w => [2 * blen w]) (dv_words t)
              ++ enc idl (device_iter t)
  | Err e => err_code e
  | Panic => [3]
  end.
Fixpoint split_objs (fuel : nat) (k : Z) (l : list Z) : list (list Z) * list Z :=
  match fuel with
  | O => ([], l)
  | S f => if k <=? 0 then ([], l) else
           match l with
           | n :: r => let '(objs, rest) := split_objs f (k - 1) (skipn (Z.to_nat n) r) in (firstn (Z.to_nat n) r :: objs, rest)
           | [] => ([], [])
           end
  end.
Definition eval_op_c (op : Z) (d : list Z) (args : list Z) : list Z :=
  match op, args with
  | 28, [] => enc_dev d
  | 29, fuel :: has_local :: kg :: rest =>
      (* rest = kg global subrs as (len, bytes..), then kl, then kl local subrs *)
      let '(g, rest1) := split_objs (length rest) kg rest in
      let l := match rest1 with
               | kl :: rest2 => if has_local =? 0 then None else Some (fst (split_objs (length rest2) kl rest2))
               | [] => if has_local =? 0 then None else Some []
               end in
      match cs_evaluate g l (Z.to_nat fuel) d with
      | CsOk st => [0; cs_hstems st]
      | CsErr c => [1; c]
      | CsPanic => [3]
      end
  | _, _ => [-999]
  end.

Definition check_case_all3 (c : Z * list Z * list Z * list Z) : bool :=
  let '(op, d, args, result) := c in
  if op <? 28 then check_case_all2 c else zlist_eqb (eval_op_c op d args) result.
