(* C01 part 3, round 4 — WORKLIST TERMINATION proofs *)
From Coq Require Import ZArith List Bool Lia.
From FV Require Import C01.ClosureModel.
Import ListNotations.
Open Scope Z_scope.

(* ================= generic worklist with a potential ================= *)
Section WorklistProof.
  Context {St Task : Type}.
  Variable process : St -> Task -> St * list Task * bool.
  Variable Inv : St -> Prop.
  Variable phi : St -> Z.
  Variable K : Z.
  Hypothesis K_nonneg : 0 <= K.
  Hypothesis phi_nonneg : forall s, Inv s -> 0 <= phi s.
  (* the local obligation: a skipped task pushes nothing and does not raise the potential; an executed task strictly
     lowers it and pushes at most K tasks *)
  Hypothesis process_ok : forall s t s' new ex, Inv s -> process s t = (s', new, ex) ->
    Inv s' /\ (ex = false -> new = [] /\ phi s' <= phi s) /\ (ex = true -> phi s' < phi s /\ Z.of_nat (length new) <= K).

  Theorem worklist_terminates : forall fuel s todos, Inv s ->
    phi s * (K + 1) + Z.of_nat (length todos) < Z.of_nat fuel ->
    exists sf n, wl_run process fuel s todos = Some (sf, n) /\ Inv sf /\ 0 <= n /\ n + phi sf <= phi s.
  Proof.
    induction fuel; intros s todos I F.
    - pose proof (phi_nonneg s I). nia.
    - destruct todos as [|t rest]; cbn [wl_run].
      + exists s, 0. pose proof (phi_nonneg s I). repeat split; auto; lia.
      + destruct (process s t) as [[s' new] ex] eqn:Pq.
        destruct (process_ok s t s' new ex I Pq) as (I' & Hskip & Hex).
        pose proof (phi_nonneg s I) as P0. pose proof (phi_nonneg s' I') as P1.
        assert (F' : phi s' * (K + 1) + Z.of_nat (length (rev new ++ rest)) < Z.of_nat fuel).
        { rewrite app_length, rev_length. cbn [length] in F. destruct ex.
          - destruct (Hex eq_refl) as [D Kn]. nia.
          - destruct (Hskip eq_refl) as [-> D]. cbn [length]. nia. }
        destruct (IHfuel s' (rev new ++ rest) I' F') as (sf & n & R & If & N0 & N1). rewrite R.
        exists sf, (n + (if ex then 1 else 0)). repeat split; auto.
        * destruct ex; lia.
        * destruct ex; [destruct (Hex eq_refl); lia|destruct (Hskip eq_refl); lia].
  Qed.
End WorklistProof.

(* ================= cardinality of glyph sets ================= *)
Lemma filter_length_le {A} (f g : A -> bool) l : (forall x, In x l -> f x = true -> g x = true) ->
  (length (filter f l) <= length (filter g l))%nat.
Proof.
  induction l as [|x r IH]; intros H; [cbn; lia|]. cbn [filter].
  assert (Hr : forall y, In y r -> f y = true -> g y = true) by (intros y Hy; apply H; right; exact Hy).
  specialize (IH Hr). destruct (f x) eqn:Fx.
  - rewrite (H x (or_introl eq_refl) Fx). cbn [length]. lia.
  - destruct (g x); cbn [length]; lia.
Qed.
Lemma filter_length_lt {A} (f g : A -> bool) l y : (forall x, In x l -> f x = true -> g x = true) ->
  In y l -> f y = false -> g y = true -> (length (filter f l) < length (filter g l))%nat.
Proof.
  induction l as [|x r IH]; intros H Hy Fy Gy; [destruct Hy|]. cbn [filter].
  assert (Hr : forall z, In z r -> f z = true -> g z = true) by (intros z Hz; apply H; right; exact Hz).
  destruct Hy as [->|Hy].
  - rewrite Fy, Gy. cbn [length]. pose proof (filter_length_le f g r Hr). lia.
  - specialize (IH Hr Hy Fy Gy). destruct (f x) eqn:Fx.
    + rewrite (H x (or_introl eq_refl) Fx). cbn [length]. lia.
    + destruct (g x); cbn [length]; lia.
Qed.

Lemma card_nonneg G a : 0 <= card G a. Proof. unfold card. lia. Qed.
Lemma filter_true {A} (l : list A) : filter (fun _ => true) l = l.
Proof. induction l as [|x r IH]; [reflexivity|]. cbn [filter]. rewrite IH. reflexivity. Qed.
Lemma card_le_G G a : card G a <= Z.of_nat G.
Proof.
  unfold card, universe. pose proof (filter_length_le a (fun _ => true) (map Z.of_nat (seq 0 G)) ltac:(auto)) as H.
  rewrite filter_true, map_length, seq_length in H. lia.
Qed.
Lemma card_union_ge G a b : card G a <= card G (gunion a b).
Proof.
  unfold card. apply inj_le. apply filter_length_le. intros x _ H. unfold gunion. rewrite H. reflexivity.
Qed.
(* a set that is not a subset of [a] (within the universe) strictly enlarges the union *)
Lemma card_union_gt G a b : gsubset G b a = false -> card G a < card G (gunion a b).
Proof.
  intros H. unfold gsubset in H.
  assert (E : exists y, In y (universe G) /\ b y = true /\ a y = false).
  { induction (universe G) as [|x r IH]; [discriminate|]. cbn [forallb] in H.
    destruct (implb (b x) (a x)) eqn:Ix.
    - cbn [andb] in H. destruct (IH H) as (y & Hy & By & Ay). exists y. split; [right; exact Hy|auto].
    - exists x. split; [left; reflexivity|]. destruct (b x), (a x); cbn in Ix; try discriminate. auto. }
  destruct E as (y & Hy & By & Ay). unfold card. apply inj_lt.
  apply (filter_length_lt a (gunion a b) (universe G) y); auto.
  - intros x _ Hx. unfold gunion. rewrite Hx. reflexivity.
  - unfold gunion. rewrite By. apply orb_true_r.
Qed.
Lemma card_empty G : card G gempty = 0.
Proof. unfold card, gempty. induction (universe G) as [|x r IH]; [reflexivity|]. cbn [filter]. exact IH. Qed.

(* ================= the potential of the closure state ================= *)
Section ClosureProof.
  Variable G : nat.
  Variable L : Z.
  Variable exec : Z -> option gset -> gset -> gset * list ctask.
  Variable K : Z.
  Hypothesis L_nonneg : 0 <= L.
  Hypothesis K_nonneg : 0 <= K.
  (* a lookup pushes at most K todos per execution (K = number of lookup records reachable from it: a table constant) *)
  Hypothesis exec_pushes : forall id cur gl, Z.of_nat (length (snd (exec id cur gl))) <= K.

  Local Notation Gz := (Z.of_nat G).
  (* how much room lookup [id] has left before it must be skipped, at the current glyph count *)
  Definition free (s : cstate) (id : Z) : Z :=
    let '(count, cov) := cs_finished s id in
    if count =? card G (cs_glyphs s) then Gz - card G (cov_set cov) else Gz.
  Fixpoint sum_free (s : cstate) (n : nat) : Z :=
    match n with O => 0 | S k => sum_free s k + free s (Z.of_nat k) end.
  Definition phi (s : cstate) : Z :=
    (Gz - card G (cs_glyphs s)) * (L * (Gz + 1)) + sum_free s (Z.to_nat L).

  Lemma free_range s id : 0 <= free s id <= Gz.
  Proof.
    unfold free. destruct (cs_finished s id) as [count cov]. pose proof (card_nonneg G (cov_set cov)). pose proof (card_le_G G (cov_set cov)).
    destruct (count =? card G (cs_glyphs s)); lia.
  Qed.
  Lemma sum_free_range s n : 0 <= sum_free s n <= Z.of_nat n * Gz.
  Proof. induction n; cbn [sum_free]; [lia|]. pose proof (free_range s (Z.of_nat n)). rewrite Nat2Z.inj_succ. nia. Qed.
  Lemma phi_nonneg s : 0 <= phi s.
  Proof.
    unfold phi. pose proof (card_le_G G (cs_glyphs s)). pose proof (sum_free_range s (Z.to_nat L)). nia.
  Qed.

  (* changing only entry [id] (and keeping the glyph count) changes the sum by the change of that entry *)
  Lemma sum_free_update s s' id n : (forall i, i <> id -> free s' i = free s i) ->
    sum_free s' n = sum_free s n + (if (0 <=? id) && (id <? Z.of_nat n) then free s' id - free s id else 0).
  Proof.
    intros H. induction n; cbn [sum_free].
    - destruct (0 <=? id) eqn:E0; cbn [andb]; [apply Z.leb_le in E0; replace (id <? Z.of_nat 0) with false by (symmetry; apply Z.ltb_ge; cbn; lia)|]; lia.
    - rewrite IHn. rewrite Nat2Z.inj_succ. destruct (Z.eq_dec (Z.of_nat n) id) as [E|E].
      + subst id. replace (0 <=? Z.of_nat n) with true by (symmetry; apply Z.leb_le; lia).
        replace (Z.of_nat n <? Z.of_nat n) with false by (symmetry; apply Z.ltb_ge; lia).
        replace (Z.of_nat n <? Z.succ (Z.of_nat n)) with true by (symmetry; apply Z.ltb_lt; lia). cbn [andb]. lia.
      + rewrite (H (Z.of_nat n) E). destruct (0 <=? id) eqn:E0; cbn [andb]; [|lia].
        destruct (id <? Z.of_nat n) eqn:E1; destruct (id <? Z.succ (Z.of_nat n)) eqn:E2; try lia.
        * apply Z.ltb_lt in E1. apply Z.ltb_ge in E2. lia.
        * apply Z.ltb_ge in E1. apply Z.ltb_lt in E2. lia.
  Qed.

  (* THE RULE: with the covered glyphs recorded for EVERY executed lookup (None and Some), one call of
     closure_glyphs either skips (pushes nothing, potential not raised) or executes and strictly lowers the potential *)
  Lemma closure_process_ok : forall s t s' new ex,
    closure_process G L true true exec s t = (s', new, ex) ->
    (ex = false -> new = [] /\ phi s' <= phi s) /\ (ex = true -> phi s' < phi s /\ Z.of_nat (length new) <= K).
  Proof.
    intros s [id cur] s' new ex. unfold closure_process.
    destruct ((id <? 0) || (L <=? id)) eqn:Bad.
    { intros H. inversion H; subst. split; [intros _; split; [reflexivity|lia]|discriminate]. }
    apply orb_false_elim in Bad. destruct Bad as [B1 B2]. apply Z.ltb_ge in B1. apply Z.leb_gt in B2.
    destruct (cs_finished s id) as [count cov] eqn:Fin. cbv beta iota zeta.
    set (n := card G (cs_glyphs s)).
    set (eff := match cur with Some c => c | None => cs_glyphs s end).
    (* the entry after the staleness reset *)
    remember (if count =? n then (count, cov) else (n, Some gempty)) as entry eqn:Ent. destruct entry as [count1 cov1].
    assert (Fresh : count1 = n /\ (count =? n = true -> cov1 = cov) /\ (count =? n = false -> cov1 = Some gempty)).
    { destruct (count =? n) eqn:C; inversion Ent; subst count1 cov1.
      - apply Z.eqb_eq in C. repeat split; auto. discriminate.
      - repeat split; auto. discriminate. }
    destruct Fresh as (C1 & Cfresh & Cstale).
    (* free of [id] before, in terms of the reset entry: resetting does not change it *)
    assert (FreeOld : free s id = Gz - card G (cov_set cov1)).
    { unfold free. rewrite Fin. fold n. destruct (count =? n) eqn:C.
      - rewrite (Cfresh eq_refl). reflexivity.
      - rewrite (Cstale eq_refl). cbn [cov_set]. rewrite card_empty. lia. }
    destruct (gsubset G eff (cov_set cov1)) eqn:Sub.
    - (* skip *)
      intros H. inversion H; subst s' new ex. split; [|discriminate]. intros _. split; [reflexivity|].
      unfold phi. cbn [cs_glyphs].
      rewrite (sum_free_update s (mkcs (cs_glyphs s) (upd (cs_finished s) id (count1, cov1))) id (Z.to_nat L)).
      2:{ intros i Hi. unfold free, upd. cbn [cs_finished cs_glyphs]. replace (i =? id) with false by (symmetry; apply Z.eqb_neq; exact Hi). reflexivity. }
      assert (E : free (mkcs (cs_glyphs s) (upd (cs_finished s) id (count1, cov1))) id = free s id).
      { rewrite FreeOld. unfold free, upd. cbn [cs_finished cs_glyphs]. rewrite Z.eqb_refl. fold n. rewrite C1, Z.eqb_refl. reflexivity. }
      rewrite E. destruct ((0 <=? id) && (id <? Z.of_nat (Z.to_nat L))); lia.
    - (* execute *)
      destruct (exec id cur (cs_glyphs s)) as [added newt] eqn:Ex. intros H. inversion H; subst s' new ex. clear H.
      split; [discriminate|]. intros _. split.
      2:{ pose proof (exec_pushes id cur (cs_glyphs s)) as Kp. rewrite Ex in Kp. exact Kp. }
      set (gl' := gunion (cs_glyphs s) added).
      set (cov' := Some (gunion (cov_set cov1) eff)).
      assert (Hcov : (match cur with Some _ => true | None => true end) = true) by (destruct cur; reflexivity).
      rewrite Hcov.
      set (s2 := mkcs gl' (upd (cs_finished s) id (count1, cov'))).
      pose proof (card_union_ge G (cs_glyphs s) added) as Grow. fold n in Grow. fold gl' in Grow.
      pose proof (card_le_G G gl') as Gle.
      pose proof (sum_free_range s (Z.to_nat L)) as R1. pose proof (sum_free_range s2 (Z.to_nat L)) as R2.
      rewrite Z2Nat.id in R1, R2 by lia.
      change (phi s2 < phi s). assert (Gs2 : cs_glyphs s2 = gl') by reflexivity.
      unfold phi. rewrite Gs2. fold n.
      destruct (Z.eq_dec (card G gl') n) as [Same|Grew].
      + (* glyph count unchanged: only entry [id] changes, and its covered set grew *)
        rewrite Same.
        rewrite (sum_free_update s s2 id (Z.to_nat L)).
        2:{ intros i Hi. unfold free, s2. cbn [cs_finished cs_glyphs]. unfold upd. replace (i =? id) with false by (symmetry; apply Z.eqb_neq; exact Hi).
            rewrite Same. fold n. reflexivity. }
        replace ((0 <=? id) && (id <? Z.of_nat (Z.to_nat L))) with true.
        2:{ symmetry. apply andb_true_intro. split; [apply Z.leb_le; lia|apply Z.ltb_lt; rewrite Z2Nat.id; lia]. }
        assert (New : free s2 id = Gz - card G (gunion (cov_set cov1) eff)).
        { unfold free, s2. cbn [cs_finished cs_glyphs]. unfold upd. rewrite Z.eqb_refl, Same, C1, Z.eqb_refl. reflexivity. }
        pose proof (card_union_gt G (cov_set cov1) eff Sub). lia.
      + (* the glyph set grew: the first component drops by a full L * (G + 1) *)
        assert (card G gl' >= n + 1) by lia. nia.
  Qed.

  Definition cinv (s : cstate) : Prop := True.

  (* closure_terminates: for EVERY lookup semantics (every lookup graph, incl. self-referential contextual lookups),
     the todo loop ends, after at most phi(s) <= (G+1) * L * (G+1) executions *)
  Theorem closure_worklist_terminates : forall fuel s todos,
    phi s * (K + 1) + Z.of_nat (length todos) < Z.of_nat fuel ->
    exists sf n, wl_run (closure_process G L true true exec) fuel s todos = Some (sf, n) /\ 0 <= n /\ n + phi sf <= phi s.
  Proof.
    intros fuel s todos F.
    destruct (worklist_terminates (closure_process G L true true exec) cinv phi K K_nonneg (fun s _ => phi_nonneg s)) with (fuel := fuel) (s := s) (todos := todos)
      as (sf & n & R & _ & N0 & N1).
    - intros s0 t s' new ex _ Pq. split; [exact I|]. apply (closure_process_ok s0 t s' new ex Pq).
    - exact I.
    - exact F.
    - exists sf, n. auto.
  Qed.

  Lemma phi_bound s : phi s <= (Gz + 1) * (L * (Gz + 1)).
  Proof.
    unfold phi. pose proof (card_nonneg G (cs_glyphs s)). pose proof (sum_free_range s (Z.to_nat L)) as R. rewrite Z2Nat.id in R by lia.
    nia.
  Qed.

  (* phase 1 (the for loop over the reachable lookups) only lowers the potential and stacks at most K todos per lookup *)
  Lemma closure_phase1_ok : forall lookups s stack n s1 stack1 n1,
    closure_phase1 G L true true exec s stack lookups n = (s1, stack1, n1) ->
    phi s1 + (n1 - n) <= phi s /\ n <= n1 /\
    Z.of_nat (length stack1) <= Z.of_nat (length stack) + K * Z.of_nat (length lookups).
  Proof.
    induction lookups as [|id r IH]; intros s stack n s1 stack1 n1 H; cbn [closure_phase1] in H.
    - inversion H; subst. cbn [length]. lia.
    - destruct (closure_process G L true true exec s (id, None)) as [[s' new] ex] eqn:Pq.
      destruct (closure_process_ok s (id, None) s' new ex Pq) as [Hs He].
      destruct (IH _ _ _ _ _ _ H) as (I1 & I2 & I3). rewrite app_length, rev_length in I3. cbn [length].
      rewrite Nat2Z.inj_succ. destruct ex.
      + destruct (He eq_refl) as [D Kn]. repeat split; nia.
      + destruct (Hs eq_refl) as [-> D]. cbn [length] in I3. repeat split; nia.
  Qed.

  Theorem closure_once_terminates : forall fuel s lookups,
    phi s * (K + 1) + K * Z.of_nat (length lookups) < Z.of_nat fuel ->
    exists sf n, closure_once G L true true exec fuel s lookups = Some (sf, n) /\ 0 <= n <= phi s.
  Proof.
    intros fuel s lookups F. unfold closure_once.
    destruct (closure_phase1 G L true true exec s [] lookups 0) as [[s1 stack] n1] eqn:P1.
    destruct (closure_phase1_ok lookups s [] 0 s1 stack n1 P1) as (A1 & A2 & A3). cbn [length] in A3.
    pose proof (phi_nonneg s1) as N1. pose proof (phi_nonneg s) as N0.
    destruct (closure_worklist_terminates fuel s1 stack ltac:(nia)) as (sf & n & R & B0 & B1).
    rewrite R. exists sf, (n + n1). split; [reflexivity|]. pose proof (phi_nonneg sf). lia.
  Qed.
End ClosureProof.
