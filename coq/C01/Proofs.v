(* C01 — proofs.  The lemmas live in C01/Core.v (slices, read_at / read_array, cursor, offsets) and
   C01/Tables.v (table directory, FontRef, binary search, INDEX, loca, VarLenArray, ComputedArray);
   this file assembles the property-level statements used by C01/Props.v. *)
From Coq Require Import ZArith List Bool Lia.
From FV Require Import Lib.RustInt C01.Model.
From FV Require Export C01.Core C01.Tables.
Import ListNotations.
Open Scope Z_scope.

(* every FontData / offset operation: a value, an absence or an error — for EVERY list and EVERY argument *)
Lemma fontdata_total_lemma : forall d w esz a b off sk s ek e o,
  read_at w d off <> Panic /\ read_ref_at w d off <> Panic /\ read_array esz d a b <> Panic /\
  (exists r, fd_slice d sk s ek e = r) /\ (exists r, fd_split_off d off = r) /\ (exists r, fd_take_up_to d off = r) /\
  resolve_offset o d <> Panic /\ resolve_nullable o d <> Some Panic /\ check_in_bounds d off <> Panic.
Proof.
  intros. repeat split; eauto using read_at_total, read_ref_at_total, read_array_total, resolve_offset_total,
    resolve_nullable_total, check_in_bounds_total.
Qed.

(* every cursor program (any sequence of operations with usize arguments, from any usize position) *)
Lemma cursor_total_lemma : forall ops c, Forall cop_wf ops -> 0 <= cpos c <= USIZE_MAX ->
  Forall (fun o => o <> Panic) (snd (crun ops c)) /\ c_finish (fst (crun ops c)) <> Panic.
Proof.
  intros ops c W H. destruct (crun_mono ops c W H) as (_ & _ & F). split; [exact F|].
  unfold c_finish. apply check_in_bounds_total.
Qed.

Lemma cursor_monotone_lemma : forall ops c, Forall cop_wf ops -> 0 <= cpos c <= USIZE_MAX ->
  cpos c <= cpos (fst (crun ops c)) <= USIZE_MAX /\ cdata (fst (crun ops c)) = cdata c.
Proof. intros ops c W H. destruct (crun_mono ops c W H) as (A & B & _). split; assumption. Qed.

Lemma finish_iff_lemma : forall c, 0 <= cpos c -> (c_finish c = Ok tt <-> cpos c <= blen (cdata c)).
Proof. exact c_finish_iff. Qed.

(* opening a font and looking up any tag never panics *)
Lemma font_total_lemma : forall d, valid d ->
  fontref_new d <> Panic /\ forall f tag, fontref_new d = Ok f -> table_data f tag <> Panic /\ table_range f tag <> Panic.
Proof.
  intros d V. split; [apply fontref_new_total; exact V|]. intros f tag H.
  split; [eapply table_data_total|eapply table_range_total]; eauto.
Qed.

Lemma index_total_lemma : forall cw d, valid d -> (cw = 2 \/ cw = 4) ->
  index_read cw d <> Panic /\
  forall x i, index_read cw d = Ok x -> usize i ->
    ix_count x <> Panic /\ ix_off_size x <> Panic /\ ix_offsets x <> Panic /\ ix_objdata x <> Panic /\
    index_get_offset x i <> Panic /\ index_get x i <> Panic.
Proof.
  intros cw d V Hcw. split; [apply index_read_total|]. intros x i H U.
  destruct (index_getters_ok cw d x V Hcw H) as ((c & Ec & _) & (o & Eo & _) & Eoff & Edat).
  rewrite Ec, Eo, Eoff, Edat. repeat split; try discriminate.
  - eapply index_get_offset_total; eauto. destruct U; assumption.
  - eapply index_get_total; eauto.
Qed.

Lemma loca_total_lemma : forall d is_long idx, loca_read d is_long <> Panic /\
  forall l, (exists v, loca_get_raw is_long l idx = Some v) <-> 0 <= idx < Z.of_nat (length l).
Proof. intros. split; [apply loca_read_total|]. intros l. apply loca_get_raw_spec. Qed.

(* VarLenArray over an item with a Size prefix of sw >= 1 bytes (PString: 1, default impl) *)
Lemma varlen_default_progress sw d : 1 <= sw -> bytes d ->
  forall p l, 0 <= p -> read_len_at_default sw d p = Some l -> 1 <= l /\ p < blen d.
Proof. intros Hs Hb p l Hp H. destruct (read_len_at_default_progress sw Hs d Hb p l Hp H). lia. Qed.

Lemma varlen_iter_steps_lemma : forall sw d, 1 <= sw -> bytes d ->
  snd (varlen_iter (read_len_at_default sw) (S (length d)) d) = true /\
  Z.of_nat (length (fst (varlen_iter (read_len_at_default sw) (S (length d)) d))) <= blen d.
Proof.
  intros sw d Hs Hb.
  (* progress is needed for every suffix handed to the iterator, all of which are byte lists *)
  assert (G : forall fuel dd, bytes dd -> blen dd < Z.of_nat fuel ->
     snd (varlen_iter (read_len_at_default sw) fuel dd) = true /\
     Z.of_nat (length (fst (varlen_iter (read_len_at_default sw) fuel dd))) <= blen dd).
  { induction fuel; intros dd Hd Hf; [pose proof (blen_nonneg dd); lia|].
    cbn [varlen_iter]. destruct (blen dd =? 0) eqn:E; [cbn; split; [reflexivity|pose proof (blen_nonneg dd); lia]|].
    destruct (read_len_at_default sw dd 0) as [l|] eqn:R; [|cbn; split; [reflexivity|pose proof (blen_nonneg dd); lia]].
    destruct (varlen_default_progress sw dd Hs Hd 0 l ltac:(lia) R) as [L1 L2].
    destruct (get_range dd 0 l) as [item|] eqn:Gt; [|cbn; split; [reflexivity|pose proof (blen_nonneg dd); lia]].
    destruct (fd_split_off dd l) as [rest|] eqn:S; [|cbn; split; [reflexivity|pose proof (blen_nonneg dd); lia]].
    assert (Hr : bytes rest).
    { unfold fd_split_off, get_from in S. apply get_range_some in S. destruct S as (_ & _ & ->). apply sub_bytes, Hd. }
    apply fd_split_off_some in S; [|lia]. destruct S as [S1 S2].
    specialize (IHfuel rest Hr ltac:(lia)). destruct (varlen_iter (read_len_at_default sw) fuel rest) as [xs fin].
    cbn [fst snd length] in *. destruct IHfuel as [I1 I2]. split; [exact I1|lia]. }
  apply G; [exact Hb|]. unfold blen. lia.
Qed.

Lemma varlen_get_steps_lemma : forall sw d idx, 1 <= sw -> bytes d -> 0 <= idx ->
  varlen_get_fast (read_len_at_default sw) d idx = varlen_get (read_len_at_default sw) d idx.
Proof. intros sw d idx Hs Hb Hi. apply varlen_get_fast_eq; [|exact Hi]. intros p l. apply varlen_default_progress; assumption. Qed.

Lemma computed_iter_steps_lemma : forall item_len d, 0 <= item_len ->
  let a := computed_new item_len d in
  snd (computed_iter (S (length d)) a 0) = true /\
  Z.of_nat (length (fst (computed_iter (S (length d)) a 0))) <= ca_len a /\
  ca_len a * item_len <= blen d /\ (item_len = 0 -> ca_len a = 0) /\ forall idx, computed_get a idx <> Panic.
Proof.
  intros item_len d H a. destruct (computed_new_len item_len d H) as (L0 & L1 & L2). fold a in L0, L1, L2.
  assert (Hlen : ca_len a <= blen d).
  { destruct (Z.eq_dec item_len 0) as [E|E]; [rewrite (L2 E); apply blen_nonneg|]. nia. }
  destruct (computed_iter_bound a L0 (S (length d)) 0 ltac:(lia) ltac:(unfold blen in Hlen; lia)) as [B1 B2].
  repeat split; auto; try lia. intros idx. apply computed_get_total.
Qed.
