(* C01 — proofs about the core-reader model (coq/C01/Model.v). *)
From Coq Require Import ZArith List Bool Lia.
From FV Require Import Lib.RustInt C01.Model.
Import ListNotations.
Open Scope Z_scope.
Ltac Zify.zify_post_hook ::= Z.div_mod_to_equations.

Lemma read_at_total w d off : read_at w d off <> Panic.
Proof.
  unfold read_at. destruct (checked_add off w); [|discriminate].
  destruct (get_range d off z); [|discriminate].
  unfold ok_or. destruct (scalar_read w l); discriminate.
Qed.
