(* C01 part 3, round 4 — WORKLIST TERMINATION: a generic worklist machine, and the model of the GSUB closure
   worklist of read-fonts/src/tables/gsub/closure.rs (ClosureCtx::{closure_glyphs, needs_to_do_lookup, add_todo,
   pop_a_todo}, Gsub::closure_glyphs_once) over ABSTRACT lookup semantics: what a lookup adds to the glyph set and
   which (lookup, active glyphs) todos it pushes is an arbitrary function — so every lookup graph, including
   self-referential contextual lookups, is covered.  No proofs here. *)
From Coq Require Import ZArith List Bool.
Import ListNotations.
Open Scope Z_scope.

(* ---------- generic worklist ---------- *)
Section Worklist.
  Context {St Task : Type}.
  (* one pop: new state, tasks pushed, and whether the task was executed (true) or skipped as already done (false) *)
  Variable process : St -> Task -> St * list Task * bool.
  (* the todo Vec as a stack: head = last pushed; `pop()` takes the head, tasks pushed in order end up reversed on top.
     Some (final state, executions) or None = out of fuel (fuel = number of pops allowed) *)
  Fixpoint wl_run (fuel : nat) (s : St) (todos : list Task) : option (St * Z) :=
    match todos with
    | [] => Some (s, 0)
    | t :: rest =>
        match fuel with
        | O => None
        | S k =>
            let '(s', new, ex) := process s t in
            match wl_run k s' (rev new ++ rest) with
            | Some (sf, n) => Some (sf, n + (if ex then 1 else 0))
            | None => None
            end
        end
    end.
End Worklist.

(* ---------- glyph sets over the universe [0, G) ---------- *)
Definition gset := Z -> bool.
Definition gempty : gset := fun _ => false.
Definition gunion (a b : gset) : gset := fun g => a g || b g.
Definition universe (G : nat) : list Z := map Z.of_nat (seq 0 G).
Definition card (G : nat) (a : gset) : Z := Z.of_nat (length (filter a (universe G))).
Definition gsubset (G : nat) (a b : gset) : bool := forallb (fun g => implb (a g) (b g)) (universe G).

(* ---------- ClosureCtx ---------- *)
Record cstate := mkcs {
  cs_glyphs : gset;                                  (* ctx.glyphs *)
  cs_finished : Z -> Z * option gset                 (* finished_lookups: id -> (count, covered); default (0, None) *)
}.
Definition ctask : Type := Z * option gset.          (* ContextualLookupRef { lookup_id, active_glyphs } *)

Section Closure.
  Variable G : nat.                (* size of the glyph-id universe (65536 for GlyphId16) *)
  Variable L : Z.                  (* number of lookups in the lookup list *)
  (* the rule extracted from needs_to_do_lookup: does it record the covered glyphs when current_glyphs is None / Some?
     (regenerated from the source into coq/C01/ClosureRule.v by translators/c01_closure_rule.py) *)
  Variable rec_none rec_some : bool.
  (* lookup.add_reachable_glyphs(ctx): glyphs added and todos pushed, as an arbitrary function of what it can see *)
  Variable exec : Z -> option gset -> gset -> gset * list ctask.

  Definition upd (f : Z -> Z * option gset) (id : Z) (v : Z * option gset) : Z -> Z * option gset :=
    fun i => if i =? id then v else f i.
  Definition cov_set (o : option gset) : gset := match o with Some c => c | None => gempty end.

  (* ClosureCtx::closure_glyphs(lookup, lookup_id, current_glyphs) with needs_to_do_lookup inlined;
     `lookup_list.lookups().get(id)?` fails for id >= L: the whole closure returns Err — modelled as a skip *)
  Definition closure_process (s : cstate) (t : ctask) : cstate * list ctask * bool :=
    let '(id, cur) := t in
    if (id <? 0) || (L <=? id) then (s, [], false) else
    let '(count, cov) := cs_finished s id in
    let n := card G (cs_glyphs s) in
    let '(count, cov) := if count =? n then (count, cov) else (n, Some gempty) in
    let eff := match cur with Some c => c | None => cs_glyphs s end in
    if gsubset G eff (cov_set cov) then
      (mkcs (cs_glyphs s) (upd (cs_finished s) id (count, cov)), [], false)
    else
      let recorded := match cur with Some _ => rec_some | None => rec_none end in
      let cov' := if recorded then Some (gunion (cov_set cov) eff) else cov in
      let '(added, new) := exec id cur (cs_glyphs s) in
      (mkcs (gunion (cs_glyphs s) added) (upd (cs_finished s) id (count, cov')), new, true).

  (* Gsub::closure_glyphs_once: first every reachable lookup with current_glyphs = None (their todos accumulate on the
     stack), then `while let Some(todo) = ctx.pop_a_todo()` *)
  Fixpoint closure_phase1 (s : cstate) (stack : list ctask) (lookups : list Z) (n : Z) : cstate * list ctask * Z :=
    match lookups with
    | [] => (s, stack, n)
    | id :: r => let '(s', new, ex) := closure_process s (id, None) in
                 closure_phase1 s' (rev new ++ stack) r (n + (if ex then 1 else 0))
    end.
  Definition closure_once (fuel : nat) (s : cstate) (lookups : list Z) : option (cstate * Z) :=
    let '(s1, stack, n1) := closure_phase1 s [] lookups 0 in
    match wl_run closure_process fuel s1 stack with
    | Some (sf, n) => Some (sf, n + n1)
    | None => None
    end.
End Closure.
