(* C01 — FontRef / table directory / binary search / collection / INDEX / loca / arrays: totality and specs *)
From Coq Require Import ZArith List Bool Lia.
From FV Require Import Lib.RustInt C01.Model C01.Core.
Import ListNotations.
Open Scope Z_scope.

Ltac usz := rewrite ?usize_max_val, ?isize_max_val in *.

(* ---------- TableDirectory::read ---------- *)
Lemma table_directory_read_ok d t : valid d -> table_directory_read d = Ok t ->
  td_data t = d /\ 0 <= td_reclen t /\ 12 + td_reclen t <= blen d /\ td_reclen t mod 16 = 0.
Proof.
  intros [Hb Hv] H. unfold table_directory_read, c_read, c_advance, c_advance_by, cursor0 in H.
  cbn [cpos cdata] in H. cbv beta iota zeta in H.
  replace (sat_add 0 4) with 4 in H by reflexivity.
  destruct (read_at 2 d 4) as [n| |] eqn:R; cbn [rbind] in H; try discriminate.
  pose proof (read_at_value_range 2 d 4 n Hb ltac:(lia) ltac:(lia) R) as Rn.
  destruct (checked_mul n 16) as [bl|] eqn:M; cbn [ok_or rbind] in H; try discriminate.
  apply checked_mul_some in M. destruct M as [-> M].
  match type of H with context [c_finish ?c] => destruct (c_finish c) as [[]| |] eqn:F end; cbn [rbind] in H; try discriminate.
  inversion H; subst t; clear H. cbn [td_data td_reclen].
  match type of F with c_finish ?c = _ => pose proof (proj1 (c_finish_iff c ltac:(cbn [cpos]; unfold sat_add; usz; lia)) F) as L end.
  cbn [cpos cdata] in L. unfold sat_add in L. usz.
  repeat split; try lia. apply Z.mod_mul. lia.
Qed.

Lemma table_directory_read_total d : table_directory_read d <> Panic.
Proof.
  unfold table_directory_read, c_read, c_advance, c_advance_by, cursor0.
  cbn [cpos cdata]. cbv beta iota zeta.
  pose proof (read_at_total 2 d (sat_add 0 4)) as T.
  destruct (read_at 2 d (sat_add 0 4)); cbn [rbind]; try congruence.
  destruct (checked_mul a 16); cbn [ok_or rbind]; try discriminate.
  match goal with |- context [c_finish ?c] => pose proof (check_in_bounds_total (cdata c) (cpos c)) as Q; unfold c_finish;
    destruct (check_in_bounds (cdata c) (cpos c)) end; cbn [rbind]; congruence.
Qed.

(* getters never hit their unwrap on a directory accepted by read *)
Lemma td_getters_ok d t : valid d -> table_directory_read d = Ok t ->
  td_sfnt_version t = Ok (from_be (sub d 0 4)) /\ td_num_tables t = Ok (from_be (sub d 4 6)) /\
  td_table_records t = Ok (chunks 16 (sub d 12 (12 + td_reclen t))).
Proof.
  intros V H. destruct (table_directory_read_ok d t V H) as (D & R0 & R1 & R2).
  destruct V as [Hb Hv]. usz.
  unfold td_sfnt_version, td_num_tables, td_table_records. rewrite D.
  destruct (read_at_spec 4 d 0 ltac:(lia) ltac:(lia) ltac:(usz; lia)) as [S4 _].
  destruct (read_at_spec 2 d 4 ltac:(lia) ltac:(lia) ltac:(usz; lia)) as [S2 _].
  rewrite S4 by lia. rewrite S2 by lia. cbn [unwrap]. repeat split.
  unfold add_chk. replace (12 + td_reclen t <=? USIZE_MAX) with true by (symmetry; apply Z.leb_le; usz; lia).
  cbn [rbind]. destruct (read_array_spec 16 d 12 (12 + td_reclen t) ltac:(lia)) as [A _].
  rewrite A; [reflexivity|]. repeat split; try lia. replace (12 + td_reclen t - 12) with (td_reclen t) by lia. exact R2.
Qed.

(* ---------- FontRef::new ---------- *)
Lemma fontref_new_total d : valid d -> fontref_new d <> Panic.
Proof.
  intros V. unfold fontref_new. pose proof (table_directory_read_total d) as T.
  destruct (table_directory_read d) as [t| |] eqn:R; cbn [rbind]; try congruence.
  unfold with_table_directory. destruct (td_getters_ok d t V R) as (S & _). rewrite S. cbn [rbind].
  match goal with |- context [if ?b then _ else _] => destruct b end; discriminate.
Qed.
(* acceptance: a font is accepted iff its directory reads and the version is one of the three known ones *)
Lemma fontref_new_spec d f : valid d -> fontref_new d = Ok f ->
  fr_data f = d /\ table_directory_read d = Ok (fr_dir f) /\
  (from_be (sub d 0 4) = TT_SFNT_VERSION \/ from_be (sub d 0 4) = CFF_SFNT_VERSION \/ from_be (sub d 0 4) = TRUE_SFNT_VERSION).
Proof.
  intros V H. unfold fontref_new in H. destruct (table_directory_read d) as [t| |] eqn:R; cbn [rbind] in H; try discriminate.
  unfold with_table_directory in H. destruct (td_getters_ok d t V R) as (S & _). rewrite S in H. cbn [rbind] in H.
  match type of H with context [if ?b then _ else _] => destruct b eqn:B end; [|discriminate].
  inversion H; subst f. cbn. repeat split.
  apply orb_prop in B. destruct B as [B|B]; [apply orb_prop in B; destruct B as [B|B]|]; apply Z.eqb_eq in B; auto.
Qed.

(* ---------- binary search ---------- *)
Lemma bs_loop_range fuel cmpf : forall base size, 0 <= base -> 1 <= size ->
  base <= bs_loop fuel cmpf base size < base + size.
Proof.
  induction fuel; intros base size Hb Hs; cbn [bs_loop]; [lia|].
  destruct (size <=? 1) eqn:E; [lia|]. apply Z.leb_gt in E.
  assert (Hh : 1 <= size / 2 /\ size / 2 <= size - size / 2 /\ 1 <= size - size / 2).
  { pose proof (Z.div_mod size 2 ltac:(lia)). pose proof (Z.mod_pos_bound size 2 ltac:(lia)). lia. }
  destruct (cmpf (base + size / 2)).
  - specialize (IHfuel (base + size / 2) (size - size / 2) ltac:(lia) ltac:(lia)). lia.
  - specialize (IHfuel (base + size / 2) (size - size / 2) ltac:(lia) ltac:(lia)). lia.
  - specialize (IHfuel base (size - size / 2) ltac:(lia) ltac:(lia)). lia.
Qed.

(* soundness on ANY slice (sorted or not): a hit is an in-range index whose element compares Equal *)
Lemma binary_search_sound n cmpf i : 0 <= n -> binary_search n cmpf = Some i -> 0 <= i < n /\ cmpf i = Eq.
Proof.
  intros Hn. unfold binary_search. destruct (n =? 0) eqn:E; [discriminate|]. apply Z.eqb_neq in E.
  pose proof (bs_loop_range (Z.to_nat n) cmpf 0 n ltac:(lia) ltac:(lia)) as R.
  destruct (cmpf (bs_loop (Z.to_nat n) cmpf 0 n)) eqn:C; try discriminate.
  intros H; inversion H; subst i. split; [lia|exact C].
Qed.

(* the loop ends with a window of size 1 when given n units of fuel *)
Lemma bs_loop_inv fuel cmpf (P : Z -> Prop) : forall base size, 0 <= base -> 1 <= size -> size <= Z.of_nat fuel + 1 ->
  (* P: "the last index whose comparison is not Greater lies in [base, base+size)" is preserved *)
  (forall L, base <= L < base + size -> (forall j, L < j < base + size -> cmpf j = Gt) -> cmpf L <> Gt ->
     (forall j, base <= j <= L -> cmpf j <> Gt) -> bs_loop fuel cmpf base size = L).
Proof.
  induction fuel; intros base size Hb Hs Hf L HL Hgt HLn Hle; cbn [bs_loop].
  - cbn in Hf. lia.
  - destruct (size <=? 1) eqn:E; [apply Z.leb_le in E; lia|]. apply Z.leb_gt in E.
    assert (Hh : 1 <= size / 2 /\ size / 2 <= size - size / 2 /\ 1 <= size - size / 2).
    { pose proof (Z.div_mod size 2 ltac:(lia)). pose proof (Z.mod_pos_bound size 2 ltac:(lia)). lia. }
    destruct (Z_lt_le_dec L (base + size / 2)) as [Lt|Ge].
    + (* mid is beyond L: comparison is Greater, base stays *)
      rewrite (Hgt (base + size / 2)) by lia.
      apply IHfuel; try lia.
      * intros j Hj. apply Hgt. lia.
      * exact HLn.
      * intros j Hj. apply Hle. lia.
    + (* mid <= L: comparison is not Greater, base := mid *)
      assert (Hm : cmpf (base + size / 2) <> Gt) by (apply Hle; lia).
      assert (Hstep : bs_loop fuel cmpf (base + size / 2) (size - size / 2) = L).
      { apply IHfuel; try lia.
        - intros j Hj. apply Hgt. lia.
        - exact HLn.
        - intros j Hj. apply Hle. lia. }
      destruct (cmpf (base + size / 2)); try congruence.
Qed.

(* completeness on slices whose comparison sequence is (not Greater)* Greater* — in particular every
   slice sorted by tag: if some element compares Equal then the search succeeds, returning the LAST
   element that is not Greater *)
Definition partitioned (n : Z) (cmpf : Z -> comparison) : Prop :=
  forall i j, 0 <= i <= j -> j < n -> cmpf i = Gt -> cmpf j = Gt.
Lemma binary_search_complete n cmpf : 0 < n -> partitioned n cmpf ->
  (exists k, 0 <= k < n /\ cmpf k = Eq) ->
  (forall i j, 0 <= i <= j -> j < n -> cmpf j = Lt -> cmpf i = Lt) ->
  exists i, binary_search n cmpf = Some i /\ cmpf i = Eq.
Proof.
  intros Hn Hp (k & Hk & Ek) Hlt.
  (* L = last index that is not Greater: exists since k is such an index *)
  assert (HL : exists L, k <= L < n /\ cmpf L <> Gt /\ forall j, L < j < n -> cmpf j = Gt).
  { assert (G : forall m : nat, exists L, k <= L < n /\ cmpf L <> Gt /\ forall j, L < j < Z.min n (k + 1 + Z.of_nat m) -> cmpf j = Gt).
    { induction m as [|m IHm].
      - exists k. repeat split; try lia. congruence.
      - destruct IHm as (L & L1 & L2 & L3).
        destruct (Z_lt_le_dec (k + 1 + Z.of_nat m) n) as [In|Out].
        + destruct (cmpf (k + 1 + Z.of_nat m)) eqn:C.
          * exists (k + 1 + Z.of_nat m). repeat split; try lia. congruence.
          * exists (k + 1 + Z.of_nat m). repeat split; try lia. congruence.
          * exists L. repeat split; try lia; auto. intros j Hj.
            destruct (Z.eq_dec j (k + 1 + Z.of_nat m)) as [->|Ne]; [exact C|]. apply L3. lia.
        + exists L. repeat split; try lia; auto. intros j Hj. apply L3. lia. }
    destruct (G (Z.to_nat n)) as (L & L1 & L2 & L3). exists L. repeat split; try lia; auto.
    intros j Hj. apply L3. lia. }
  destruct HL as (L & L1 & L2 & L3).
  assert (Hbelow : forall j, 0 <= j <= L -> cmpf j <> Gt).
  { intros j Hj C. apply L2. apply (Hp j L); try lia. exact C. }
  assert (EL : cmpf L = Eq).
  { destruct (cmpf L) eqn:C; auto; [|congruence].
    (* Lt at L >= k would force Lt at k *)
    rewrite (Hlt k L) in Ek by (try lia; exact C). discriminate. }
  exists L. unfold binary_search. replace (n =? 0) with false by (symmetry; apply Z.eqb_neq; lia).
  assert (BL : bs_loop (Z.to_nat n) cmpf 0 n = L).
  { apply (bs_loop_inv (Z.to_nat n) cmpf (fun _ => True) 0 n); try lia.
    - intros j Hj. apply L3. lia.
    - exact L2.
    - intros j Hj. apply Hbelow. lia. }
  rewrite BL, EL. split; reflexivity.
Qed.

(* ---------- nthz ---------- *)
Lemma nthz_some {A} (l : list A) i x : nthz l i = Some x -> 0 <= i < Z.of_nat (length l) /\ nth_error l (Z.to_nat i) = Some x.
Proof.
  unfold nthz. destruct (i <? 0) eqn:E1; cbn; [discriminate|].
  destruct (Z.of_nat (length l) <=? i) eqn:E2; [discriminate|]. intros H. split; [lia|exact H].
Qed.
Lemma nthz_in_range {A} (l : list A) i : 0 <= i < Z.of_nat (length l) -> exists x, nthz l i = Some x.
Proof.
  intros H. unfold nthz. replace (i <? 0) with false by (symmetry; apply Z.ltb_ge; lia).
  replace (Z.of_nat (length l) <=? i) with false by (symmetry; apply Z.leb_gt; lia). cbn.
  destruct (nth_error l (Z.to_nat i)) eqn:N; [eauto|]. apply nth_error_None in N. lia.
Qed.

(* ---------- FontRef::table_data ---------- *)
Lemma table_range_total d f tag : valid d -> fontref_new d = Ok f -> table_range f tag <> Panic.
Proof.
  intros V H. destruct (fontref_new_spec d f V H) as (_ & R & _).
  destruct (td_getters_ok d (fr_dir f) V R) as (_ & _ & T).
  unfold table_range. rewrite T. cbn [rbind].
  destruct (binary_search _ _); [|discriminate].
  destruct (nthz _ z); [|discriminate]. destruct (non_null _); [|discriminate].
  destruct (checked_add _ _); discriminate.
Qed.
Lemma table_data_total d f tag : valid d -> fontref_new d = Ok f -> table_data f tag <> Panic.
Proof.
  intros V H. unfold table_data. pose proof (table_range_total d f tag V H) as T.
  destruct (table_range f tag) as [[[a b]|]| |]; cbn [rbind]; congruence.
Qed.

(* what table_data returns, for EVERY directory (sorted or not):
   Some bytes  ->  there is a record i with that tag, a non-zero offset, offset+length <= len(file),
                   and the bytes are exactly file[offset, offset+length);
   None        ->  either the search missed (possible for unsorted directories even when the tag exists),
                   or the found record has offset 0, or offset+length overflows usize, or it is out of bounds. *)
Lemma table_data_sound d f tag s : valid d -> fontref_new d = Ok f -> table_data f tag = Ok (Some s) ->
  exists recs r i, td_table_records (fr_dir f) = Ok recs /\ nthz recs i = Some r /\ rec_tag r = tag /\
    rec_offset r <> 0 /\ rec_offset r + rec_length r <= blen d /\
    s = sub d (rec_offset r) (rec_offset r + rec_length r).
Proof.
  intros V H. destruct (fontref_new_spec d f V H) as (D & R & _).
  destruct (td_getters_ok d (fr_dir f) V R) as (_ & _ & T).
  unfold table_data, table_range. rewrite T. cbn [rbind].
  set (recs := chunks 16 _).
  destruct (binary_search _ _) as [i|] eqn:B; cbn [rbind]; [|discriminate].
  apply binary_search_sound in B; [|lia]. destruct B as [Bi Bc].
  unfold rec_cmp in Bc. destruct (nthz recs i) as [r|] eqn:N; [|discriminate].
  apply Z.compare_eq in Bc.
  unfold non_null. destruct (rec_offset r =? 0) eqn:Z0; cbn [rbind]; [discriminate|]. apply Z.eqb_neq in Z0.
  destruct (checked_add (rec_offset r) (rec_length r)) as [e|] eqn:C; cbn [rbind]; [|discriminate].
  apply checked_add_some in C. destruct C as [-> C]. rewrite D.
  intros G. inversion G as [G1]. apply get_range_some in G1. destruct G1 as (G1 & G2 & ->).
  exists recs, r, i. repeat split; auto.
Qed.

(* on a directory sorted by tag (as the OpenType specification requires) the lookup is complete *)
Lemma table_data_complete d f tag : valid d -> fontref_new d = Ok f ->
  forall recs, td_table_records (fr_dir f) = Ok recs ->
  (forall i j ri rj, 0 <= i <= j -> nthz recs i = Some ri -> nthz recs j = Some rj -> rec_tag ri <= rec_tag rj) ->
  (exists k r, nthz recs k = Some r /\ rec_tag r = tag) ->
  exists i r, nthz recs i = Some r /\ rec_tag r = tag /\
    table_range f tag = Ok (match non_null (rec_offset r) with
                            | None => None
                            | Some st => match checked_add st (rec_length r) with None => None | Some e => Some (st, e) end
                            end).
Proof.
  intros V H recs T Sorted (k & rk & Nk & Tk).
  set (n := Z.of_nat (length recs)).
  assert (Hk : 0 <= k < n) by (apply nthz_some in Nk; unfold n; lia).
  assert (Hcmp : forall i, 0 <= i < n -> exists r, nthz recs i = Some r /\ rec_cmp recs tag i = Z.compare (rec_tag r) tag).
  { intros i Hi. destruct (nthz_in_range recs i Hi) as [r Nr]. exists r. split; [exact Nr|]. unfold rec_cmp. rewrite Nr. reflexivity. }
  destruct (binary_search_complete n (rec_cmp recs tag)) as (i & B & E).
  - lia.
  - intros i j Hij Hj C. destruct (Hcmp i ltac:(lia)) as (ri & Ni & Ci). destruct (Hcmp j ltac:(lia)) as (rj & Nj & Cj).
    rewrite Ci in C. rewrite Cj. rewrite Z.compare_gt_iff in C. apply Z.compare_gt_iff.
    pose proof (Sorted i j ri rj Hij Ni Nj). lia.
  - exists k. split; [lia|]. unfold rec_cmp. rewrite Nk, Tk. apply Z.compare_refl.
  - intros i j Hij Hj C. destruct (Hcmp i ltac:(lia)) as (ri & Ni & Ci). destruct (Hcmp j ltac:(lia)) as (rj & Nj & Cj).
    rewrite Cj in C. rewrite Ci. rewrite Z.compare_lt_iff in C. apply Z.compare_lt_iff.
    pose proof (Sorted i j ri rj Hij Ni Nj). lia.
  - pose proof (binary_search_sound n _ i ltac:(lia) B) as [Bi _].
    destruct (Hcmp i Bi) as (r & Nr & Cr). rewrite Cr in E. apply Z.compare_eq in E.
    exists i, r. repeat split; auto. unfold table_range. rewrite T. cbn [rbind]. fold n. rewrite B, Nr.
    destruct (non_null (rec_offset r)); [|reflexivity]. destruct (checked_add z (rec_length r)); reflexivity.
Qed.

(* ---------- Loca ---------- *)
Lemma loca_read_total d is_long : loca_read d is_long <> Panic.
Proof.
  unfold loca_read. pose proof (read_array_total (if is_long then 4 else 2) d 0 (blen d)).
  destruct (read_array _ d 0 (blen d)); cbn [rbind]; congruence.
Qed.
(* get_raw is a bounds-checked table lookup: Some exactly for idx < number of entries *)
Lemma loca_get_raw_spec is_long l idx : (exists v, loca_get_raw is_long l idx = Some v) <-> 0 <= idx < Z.of_nat (length l).
Proof.
  unfold loca_get_raw. split.
  - intros [v H]. destruct (nthz l idx) eqn:N; [|discriminate]. apply nthz_some in N. lia.
  - intros H. destruct (nthz_in_range l idx H) as [x ->]. eauto.
Qed.

(* ---------- postscript INDEX ---------- *)
Lemma index_read_ok cw d x : valid d -> 1 <= cw <= 4 -> index_read cw d = Ok x ->
  ix_data x = d /\ ix_cw x = cw /\ 0 <= ix_offlen x /\ 0 <= ix_datalen x /\
  cw + 1 + ix_offlen x + ix_datalen x <= blen d.
Proof.
  intros [Hb Hv] Hcw H. unfold index_read, c_read, c_advance, c_advance_by, cursor0, c_remaining_bytes in H.
  cbn [cpos cdata] in H. cbv beta iota zeta in H.
  destruct (read_at cw d 0) as [count| |] eqn:R1; cbn [rbind] in H; try discriminate.
  pose proof (read_at_value_range cw d 0 count Hb ltac:(lia) ltac:(lia) R1) as C1.
  destruct (read_at 1 d (sat_add 0 cw)) as [osz| |] eqn:R2; cbn [rbind] in H; try discriminate.
  assert (S0 : sat_add 0 cw = cw) by (unfold sat_add; usz; lia). rewrite S0 in *.
  pose proof (read_at_value_range 1 d cw osz Hb ltac:(lia) ltac:(lia) R2) as C2.
  destruct (checked_mul (add_multiply count 1 osz) 1) as [obl|] eqn:M; cbn [ok_or rbind] in H; try discriminate.
  apply checked_mul_some in M. destruct M as [-> M].
  assert (A0 : 0 <= add_multiply count 1 osz) by (unfold add_multiply, sat_mul, sat_add; usz; nia).
  set (am := add_multiply count 1 osz) in *.
  rewrite Z.div_1_r, !Z.mul_1_r in *.
  match type of H with context [c_finish ?c] => destruct (c_finish c) as [[]| |] eqn:F end; cbn [rbind] in H; try discriminate.
  inversion H; subst x; clear H. cbn [ix_data ix_cw ix_offlen ix_datalen].
  match type of F with c_finish ?c = _ => pose proof (proj1 (c_finish_iff c ltac:(cbn [cpos]; unfold sat_add, sat_sub; usz; lia)) F) as L end.
  cbn [cpos cdata] in L.
  unfold sat_add, sat_sub in *. usz.
  repeat split; try lia.
Qed.
Lemma index_read_total cw d : index_read cw d <> Panic.
Proof.
  unfold index_read, c_read, c_advance, c_advance_by, cursor0. cbn [cpos cdata]. cbv beta iota zeta.
  pose proof (read_at_total cw d 0) as T1. destruct (read_at cw d 0); cbn [rbind]; try congruence.
  pose proof (read_at_total 1 d (sat_add 0 cw)) as T2. destruct (read_at 1 d (sat_add 0 cw)); cbn [rbind]; try congruence.
  destruct (checked_mul _ 1); cbn [ok_or rbind]; try discriminate.
  match goal with |- context [c_finish ?c] => pose proof (check_in_bounds_total (cdata c) (cpos c)) as Q; unfold c_finish;
    destruct (check_in_bounds (cdata c) (cpos c)) end; cbn [rbind]; congruence.
Qed.

Lemma read_offset_total index count osz offs : 0 <= index -> 0 <= count <= 4294967295 -> 0 <= osz <= 255 ->
  read_offset index count osz offs <> Panic.
Proof.
  intros Hi Hc Ho. unfold read_offset. destruct (count <? index) eqn:E; [discriminate|]. apply Z.ltb_ge in E.
  unfold mul_chk. replace (index * osz <=? USIZE_MAX) with true by (symmetry; apply Z.leb_le; usz; nia).
  cbn [rbind]. destruct ((1 <=? osz) && (osz <=? 4)); cbn [rbind]; [|discriminate].
  pose proof (read_at_total osz offs (index * osz)). destruct (read_at osz offs (index * osz)); cbn [rbind]; try congruence.
  destruct (checked_sub a 1); discriminate.
Qed.

(* every accessor of an INDEX accepted by read, for every usize index: a value or an error, never a panic *)
Lemma index_getters_ok cw d x : valid d -> (cw = 2 \/ cw = 4) -> index_read cw d = Ok x ->
  (exists c, ix_count x = Ok c /\ 0 <= c <= 4294967295) /\ (exists o, ix_off_size x = Ok o /\ 0 <= o <= 255) /\
  ix_offsets x = Ok (sub d (cw + 1) (cw + 1 + ix_offlen x)) /\
  ix_objdata x = Ok (sub d (cw + 1 + ix_offlen x) (cw + 1 + ix_offlen x + ix_datalen x)).
Proof.
  intros V Hcw H. destruct (index_read_ok cw d x V ltac:(lia) H) as (D & W & O & L & B).
  destruct V as [Hb Hv]. usz.
  unfold ix_count, ix_off_size, ix_offsets, ix_objdata. rewrite D, W.
  destruct (read_at_spec cw d 0 ltac:(lia) ltac:(lia) ltac:(usz; lia)) as [S1 _]. rewrite S1 by lia.
  destruct (read_at_spec 1 d cw ltac:(lia) ltac:(lia) ltac:(usz; lia)) as [S2 _]. rewrite S2 by lia.
  cbn [unwrap]. repeat split.
  - eexists. split; [reflexivity|]. pose proof (from_be_sub_range d 0 (0 + cw) Hb ltac:(lia) ltac:(lia) ltac:(lia)) as R.
    replace (0 + cw - 0) with cw in R by lia.
    destruct Hcw; subst cw; [change (256 ^ 2) with 65536 in R | change (256 ^ 4) with 4294967296 in R]; lia.
  - eexists. split; [reflexivity|]. pose proof (from_be_sub_range d cw (cw + 1) Hb ltac:(lia) ltac:(lia) ltac:(lia)) as R.
    replace (cw + 1 - cw) with 1 in R by lia. change (256 ^ 1) with 256 in R. lia.
  - unfold add_chk. replace (cw + 1 + ix_offlen x <=? USIZE_MAX) with true by (symmetry; apply Z.leb_le; usz; lia).
    cbn [rbind]. destruct (read_array_spec 1 d (cw + 1) (cw + 1 + ix_offlen x) ltac:(lia)) as [A _].
    rewrite A; [reflexivity|]. repeat split; try lia. apply Z.mod_1_r.
  - unfold add_chk. replace (cw + 1 + ix_offlen x <=? USIZE_MAX) with true by (symmetry; apply Z.leb_le; usz; lia).
    cbn [rbind]. replace (cw + 1 + ix_offlen x + ix_datalen x <=? USIZE_MAX) with true by (symmetry; apply Z.leb_le; usz; lia).
    cbn [rbind]. destruct (read_array_spec 1 d (cw + 1 + ix_offlen x) (cw + 1 + ix_offlen x + ix_datalen x) ltac:(lia)) as [A _].
    rewrite A; [reflexivity|]. repeat split; try lia. apply Z.mod_1_r.
Qed.

Lemma index_get_offset_total cw d x index : valid d -> (cw = 2 \/ cw = 4) -> index_read cw d = Ok x -> 0 <= index ->
  index_get_offset x index <> Panic.
Proof.
  intros V Hcw H Hi. destruct (index_getters_ok cw d x V Hcw H) as ((c & Ec & Rc) & (o & Eo & Ro) & Eoff & _).
  unfold index_get_offset. rewrite Ec, Eo, Eoff. cbn [rbind]. apply read_offset_total; lia.
Qed.
Lemma index_get_total cw d x index : valid d -> (cw = 2 \/ cw = 4) -> index_read cw d = Ok x -> usize index ->
  index_get x index <> Panic /\ index_get_range x index <> Panic.
Proof.
  intros V Hcw H [Hi Hm].
  destruct (index_getters_ok cw d x V Hcw H) as ((c & Ec & Rc) & (o & Eo & Ro) & Eoff & Edat).
  assert (G : index_get_range x index <> Panic).
  { unfold index_get_range. rewrite Edat. cbn [rbind].
    pose proof (index_get_offset_total cw d x index V Hcw H Hi) as T1.
    unfold index_get_offset in *. rewrite Ec, Eo, Eoff in *. cbn [rbind] in *.
    destruct (read_offset index c o _) as [a| |] eqn:RA; cbn [rbind]; try congruence.
    (* success implies index <= count, hence index + 1 cannot overflow *)
    assert (Hle : index <= c).
    { unfold read_offset in RA. destruct (c <? index) eqn:E; [discriminate|]. apply Z.ltb_ge in E. exact E. }
    unfold add_chk. replace (index + 1 <=? USIZE_MAX) with true by (symmetry; apply Z.leb_le; usz; lia).
    cbn [rbind].
    pose proof (read_offset_total (index + 1) c o (sub d (cw + 1) (cw + 1 + ix_offlen x)) ltac:(lia) Rc Ro) as T2.
    destruct (read_offset (index + 1) c o _); cbn [rbind]; try congruence.
    destruct (get_range _ a a0); discriminate. }
  split; [|exact G]. unfold index_get. rewrite Edat. cbn [rbind].
  destruct (index_get_range x index) as [[a b]| |]; cbn [rbind]; try congruence.
  destruct (get_range _ _ _); discriminate.
Qed.

(* ---------- VarLenArray ---------- *)
(* a length reader makes progress: it needs a byte at p (fails once p >= len) and yields >= 1 *)
Definition progress (rl : list Z -> Z -> option Z) : Prop :=
  forall d p l, 0 <= p -> rl d p = Some l -> 1 <= l /\ p < blen d.

Lemma read_len_at_default_progress sw : 1 <= sw -> forall d, bytes d ->
  forall p l, 0 <= p -> read_len_at_default sw d p = Some l -> sw <= l /\ p + sw <= blen d.
Proof.
  intros Hsw d Hb p l Hp. unfold read_len_at_default.
  destruct (read_at sw d p) as [v| |] eqn:R; try discriminate.
  pose proof (read_at_value_range sw d p v Hb Hp ltac:(lia) R) as Rv.
  apply read_at_ok_inv in R; try lia. intros C. apply checked_add_some in C. lia.
Qed.

(* VarLenArray::get(idx) walks at most idx items and at most len+1 of them: it never loops longer than
   min(idx, len + 1) length reads, and returns None or a tail of the data *)
Lemma varlen_pos_bound rl d : (forall p l, 0 <= p -> rl d p = Some l -> 1 <= l /\ p < blen d) ->
  forall n p q, 0 <= p -> varlen_pos rl d n p = Some q -> p + Z.of_nat n <= q /\ (n <> O -> q <= blen d + USIZE_MAX).
Proof.
  intros Pr. induction n; intros p q Hp H; cbn [varlen_pos] in H.
  - inversion H. split; [lia|congruence].
  - destruct (rl d p) as [l|] eqn:R; [|discriminate]. destruct (Pr p l Hp R) as [L1 L2].
    destruct (checked_add p l) as [p'|] eqn:C; [|discriminate]. apply checked_add_some in C. destruct C as [-> C].
    specialize (IHn (p + l) q ltac:(lia) H). destruct IHn as [I1 I2]. split; [lia|]. intros _.
    destruct n; [cbn in H; inversion H; pose proof (blen_nonneg d); lia|]. apply I2. discriminate.
Qed.
Lemma varlen_pos_none_after_len rl d : (forall p l, 0 <= p -> rl d p = Some l -> 1 <= l /\ p < blen d) ->
  forall n p, 0 <= p -> n <> O -> blen d - p < Z.of_nat n -> varlen_pos rl d n p = None.
Proof.
  intros Pr. induction n; intros p Hp Hn0 Hn; cbn [varlen_pos]; [congruence|].
  destruct (rl d p) as [l|] eqn:R; [|reflexivity]. destruct (Pr p l Hp R) as [L1 L2].
  destruct (checked_add p l) as [p'|] eqn:C; [|reflexivity]. apply checked_add_some in C. destruct C as [-> C].
  apply IHn; lia.
Qed.
(* the executable shortcut used by the correspondence shards equals the faithful definition *)
Lemma varlen_get_fast_eq rl d idx : (forall p l, 0 <= p -> rl d p = Some l -> 1 <= l /\ p < blen d) -> 0 <= idx ->
  varlen_get_fast rl d idx = varlen_get rl d idx.
Proof.
  intros Pr Hi. unfold varlen_get_fast, varlen_get.
  destruct (Z_le_gt_dec idx (blen d + 1)) as [Le|Gt]; [rewrite Z.min_l by lia; reflexivity|].
  rewrite Z.min_r by lia.
  pose proof (blen_nonneg d).
  rewrite (varlen_pos_none_after_len rl d Pr (Z.to_nat (blen d + 1)) 0) by lia.
  rewrite (varlen_pos_none_after_len rl d Pr (Z.to_nat idx) 0) by lia. reflexivity.
Qed.

(* VarLenArray::iter(): every `next` consumes at least one byte, so an iterator over len bytes ends within
   len + 1 calls ([snd = true]: finished) and yields at most len items *)
Lemma varlen_iter_progress rl : (forall d p l, 0 <= p -> rl d p = Some l -> 1 <= l /\ p < blen d) ->
  forall fuel d, blen d < Z.of_nat fuel ->
  snd (varlen_iter rl fuel d) = true /\ Z.of_nat (length (fst (varlen_iter rl fuel d))) <= blen d.
Proof.
  intros Pr. induction fuel; intros d Hf; [pose proof (blen_nonneg d); lia|].
  cbn [varlen_iter]. destruct (blen d =? 0) eqn:E; [cbn; split; [reflexivity|pose proof (blen_nonneg d); lia]|].
  apply Z.eqb_neq in E.
  destruct (rl d 0) as [l|] eqn:R; [|cbn; split; [reflexivity|pose proof (blen_nonneg d); lia]].
  destruct (Pr d 0 l ltac:(lia) R) as [L1 L2].
  destruct (get_range d 0 l) as [item|] eqn:G; [|cbn; split; [reflexivity|pose proof (blen_nonneg d); lia]].
  destruct (fd_split_off d l) as [rest|] eqn:S; [|cbn; split; [reflexivity|pose proof (blen_nonneg d); lia]].
  apply fd_split_off_some in S; [|lia]. destruct S as [S1 S2].
  specialize (IHfuel rest ltac:(lia)). destruct (varlen_iter rl fuel rest) as [xs fin]. cbn [fst snd length] in *.
  destruct IHfuel as [I1 I2]. split; [exact I1|]. lia.
Qed.

(* ---------- ComputedArray ---------- *)
Lemma computed_get_total a idx : computed_get a idx <> Panic.
Proof.
  unfold computed_get. destruct (checked_mul idx (ca_item_len a)); cbn [ok_or rbind]; [|discriminate].
  destruct (fd_split_off (ca_data a) z); discriminate.
Qed.
(* iter(): exactly ca_len items at most, none when item_len = 0; ends within ca_len + 1 calls *)
Lemma computed_iter_bound a : 0 <= ca_len a -> forall fuel i, 0 <= i <= ca_len a -> ca_len a - i < Z.of_nat fuel ->
  snd (computed_iter fuel a i) = true /\ Z.of_nat (length (fst (computed_iter fuel a i))) <= ca_len a - i.
Proof.
  intros Hl. induction fuel; intros i Hi Hf; [lia|].
  cbn [computed_iter]. unfold computed_next. destruct (i =? ca_len a) eqn:E; [cbn; split; [reflexivity|lia]|].
  apply Z.eqb_neq in E.
  destruct (checked_mul (ca_item_len a) i); [|cbn; split; [reflexivity|lia]].
  destruct (checked_add i 1) as [i'|] eqn:C; [|cbn; split; [reflexivity|lia]].
  apply checked_add_some in C. destruct C as [-> C].
  destruct (fd_split_off (ca_data a) z); [|cbn; split; [reflexivity|lia]].
  specialize (IHfuel (i + 1) ltac:(lia) ltac:(lia)). destruct (computed_iter fuel a (i + 1)) as [xs fin].
  cbn [fst snd length] in *. destruct IHfuel as [I1 I2]. split; [exact I1|lia].
Qed.
Lemma computed_new_len item_len d : 0 <= item_len ->
  0 <= ca_len (computed_new item_len d) /\ ca_len (computed_new item_len d) * item_len <= blen d /\
  (item_len = 0 -> ca_len (computed_new item_len d) = 0).
Proof.
  intros H. unfold computed_new, checked_div. cbn [ca_len]. pose proof (blen_nonneg d).
  destruct (item_len =? 0) eqn:E; [apply Z.eqb_eq in E; subst; lia|]. apply Z.eqb_neq in E.
  repeat split; try lia.
  - apply Z.div_pos; lia.
  - pose proof (Z.mul_div_le (blen d) item_len ltac:(lia)). lia.
Qed.

(* ---------- TTC header / CollectionRef ---------- *)
Lemma ttc_header_read_total d : ttc_header_read d <> Panic.
Proof.
  unfold ttc_header_read, c_read, c_advance, c_advance_by, cursor0, c_position. cbn [cpos cdata]. cbv beta iota zeta.
  match goal with |- context [read_at 4 d ?p] => pose proof (read_at_total 4 d p) as T1; destruct (read_at 4 d p) end; cbn [rbind]; try congruence.
  match goal with |- context [read_at 4 d ?p] => pose proof (read_at_total 4 d p) as T2; destruct (read_at 4 d p) end; cbn [rbind]; try congruence.
  destruct (checked_mul _ 4); cbn [ok_or rbind]; try discriminate.
  unfold c_finish.
  destruct (compatible_2_0 a);
  repeat (match goal with |- context [check_in_bounds ?dd ?p] =>
            let Q := fresh "Q" in pose proof (check_in_bounds_total dd p) as Q; destruct (check_in_bounds dd p) as [[]| |] end;
          cbn [rbind]; try congruence); discriminate.
Qed.
